/-
  ack_visible: an acknowledged commit is the tip of its branch and stays on the branch's parent
  chain under every later operation.  Helper lemmas for C13.
-/
import Zed.Proofs.LakeRefine
import Zed.Proofs.LakeUnfold
namespace Zed.Lake
variable {K V : Type} [DecidableEq V]

omit [DecidableEq V] in
theorem merge_on (s s' : State K V) (c p : Nat) (h : merge s c p = .ok s') : CommitsOn s s' p := by
  unfold merge at h
  opsplit h
  all_goals exact commitsOn_self _ _ _ _ ‹_›

omit [DecidableEq V] in
theorem revert_on (s s' : State K V) (b c : Nat) (h : revert s b c = .ok s') : CommitsOn s s' b := by
  unfold revert at h
  opsplit h
  all_goals exact commitsOn_self _ _ _ _ ‹_›

/-- every successful operation either makes exactly one commit on one branch, or leaves the
    commit store and all existing branch pointers alone (vacuum, branch creation) -/
theorem apply_shape (cfg : Cfg K V) (s s' : State K V) (op : Op V) (h : apply cfg s op = .ok s') :
    (∃ b, CommitsOn s s' b) ∨
    (s'.commits = s.commits ∧ ∀ b t, s.tip b = some t → s'.tip b = some t) := by
  cases op with
  | load b vals parts => exact Or.inl ⟨b, load_on cfg s s' b vals parts h⟩
  | delete b ids => exact Or.inl ⟨b, delete_on s s' b ids h⟩
  | deleteWhere b k parts => exact Or.inl ⟨b, deleteWhere_on cfg s s' b k parts h⟩
  | compact b ids vec parts => exact Or.inl ⟨b, compact_on cfg s s' b ids vec parts h⟩
  | addVectors b ids => exact Or.inl ⟨b, addVectors_on s s' b ids h⟩
  | deleteVectors b ids => exact Or.inl ⟨b, deleteVectors_on s s' b ids h⟩
  | merge c p => exact Or.inl ⟨p, merge_on s s' c p h⟩
  | revert b c => exact Or.inl ⟨b, revert_on s s' b c h⟩
  | vacuum c =>
    have h' : vacuum s c = .ok s' := h
    refine Or.inr ⟨(vacuum_spec s s' c h').1, ?_⟩
    have hbr : s'.branches = s.branches := by
      unfold vacuum at h'
      split at h' <;> first | (cases h'; rfl) | cases h'
    intro b t ht
    rw [tip_eq, hbr, ← tip_eq]; exact ht
  | createBranch n p =>
    have h' : createBranch s n p = .ok s' := h
    unfold createBranch at h'
    split at h'
    · cases h'
    · split at h'
      · cases h'
      · cases h'
        refine Or.inr ⟨rfl, ?_⟩
        intro b t ht
        rw [tip_eq] at ht ⊢
        show tipIn (s.branches ++ [(n, p)]) b = some t
        have : ∀ l : List (Nat × Nat), tipIn l b = some t → tipIn (l ++ [(n, p)]) b = some t := by
          intro l
          induction l with
          | nil => intro h; simp [tipIn] at h
          | cons x xs ih =>
            obtain ⟨m, v⟩ := x
            intro h
            simp only [List.cons_append, tipIn] at h ⊢
            split
            · rename_i hm; simpa [hm] using h
            · rename_i hm; simp only [hm] at h; exact ih h
        exact this _ ht

omit [DecidableEq V] in
theorem mem_pathAt_le (cs : List (Commit K)) (t c : Nat) (h : c ∈ pathAt cs t) : t ≤ cs.length := by
  unfold pathAt parentPath at h
  split at h
  · cases h
  · cases hg : (pathsOf cs)[t - 1]? with
    | none => simp [hg] at h
    | some p =>
      have := (List.getElem?_eq_some_iff.mp hg).1
      rw [pathsOf_length] at this
      omega

/-- commit `c` is on the parent chain of branch `b`'s tip -/
def OnChain (s : State K V) (b c : Nat) : Prop := ∃ t, s.tip b = some t ∧ c ∈ pathAt s.commits t

omit [DecidableEq V] in
/-- the commit an operation makes on `b` is `b`'s new tip, on top of the old tip's chain -/
theorem CommitsOn.chain (s s' : State K V) (b : Nat) (h : CommitsOn s s' b) :
    ∃ t, s.tip b = some t ∧ s'.tip b = some (s.commits.length + 1) ∧
      pathAt s'.commits (s.commits.length + 1) = (s.commits.length + 1) :: pathAt s.commits t := by
  have htip := (h.tip).1
  obtain ⟨s1, t, acts, _, hc, ht, rfl⟩ := h
  refine ⟨t, ht, htip, ?_⟩
  rw [commit_commits, hc, pathAt_new]
  rfl

theorem step_onChain (cfg : Cfg K V) (s : State K V) (op : Op V) (b c : Nat) (h : OnChain s b c) :
    OnChain (step cfg s op) b c := by
  unfold step
  split
  · rename_i s' ha
    obtain ⟨t, ht, hm⟩ := h
    have hle := mem_pathAt_le _ _ _ hm
    rcases apply_shape cfg s s' op ha with ⟨b', hon⟩ | ⟨hcm, htips⟩
    · by_cases hb : b' = b
      · subst hb
        obtain ⟨t0, ht0, h1, h2⟩ := hon.chain
        rw [ht] at ht0; cases ht0
        exact ⟨_, h1, by rw [h2]; exact List.mem_cons_of_mem _ hm⟩
      · refine ⟨t, by rw [(hon.tip).2 b (fun h => hb h.symm)]; exact ht, ?_⟩
        obtain ⟨s1, t1, acts, _, hc, _, rfl⟩ := hon
        rw [commit_commits, hc, pathAt_append _ _ _ hle]; exact hm
    · exact ⟨t, htips b t ht, by rw [hcm]; exact hm⟩
  · exact h

/-- an acknowledged commit stays on its branch's parent chain under every later history -/
theorem run_onChain (cfg : Cfg K V) (s : State K V) (ops : List (Op V)) (b c : Nat) (h : OnChain s b c) :
    OnChain (run cfg s ops) b c := by
  induction ops generalizing s with
  | nil => exact h
  | cons op ops ih =>
    simp only [run, List.foldl_cons]
    exact ih (step cfg s op) (step_onChain cfg s op b c h)

end Zed.Lake
