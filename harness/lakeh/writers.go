package lakeh

import (
	"context"
	"fmt"
	"strings"
	"time"

	zed "github.com/brimdata/super"
	"github.com/brimdata/super/api"
	"github.com/brimdata/super/lake"
	lakeapi "github.com/brimdata/super/lake/api"
	"github.com/brimdata/super/order"
	"github.com/brimdata/super/zio/zsonio"
	"github.com/segmentio/ksuid"
	"go.uber.org/zap"

	"verifharness/hlib"
)

// Two writers on one branch through different handles, under an explicit schedule of their
// storage operations (hlib.StoreEngine, cooperative mode): writer A runs `pre` scheduled
// storage calls, then writer B runs its whole load, then A finishes.  After both loads are
// acknowledged every later query — through both writers' (warm) handles and a fresh one — must
// contain both loads, and both acknowledged commits must be on the branch's parent chain
// (C13: "two queries that start after a commit is acknowledged both see it").

type writersCase struct {
	Init  bool   `json:"initial_commit"`
	Pre   int    `json:"a_steps_before_b"`
	First string `json:"first_writer"`
	Kinds string `json:"ops"`
}

type writerRes struct {
	id  ksuid.KSUID
	err error
}

func storeHandle(e *hlib.StoreEngine, client int) (*hlib.TLake, error) {
	root, err := hlib.StoreOpenLake(e, client)
	if err != nil {
		return nil, err
	}
	return &hlib.TLake{LK: lakeapi.FromRoot(root), Root: root}, nil
}

func loadText(l *hlib.TLake, pool ksuid.KSUID, text string) (ksuid.KSUID, error) {
	var id ksuid.KSUID
	err := protect(func() error {
		zctx := zed.NewContext()
		r := zsonio.NewReader(zctx, strings.NewReader(text))
		ctx, cancel := context.WithTimeout(context.Background(), 100*time.Second)
		defer cancel()
		var e error
		id, e = l.LK.Load(ctx, zctx, pool, "main", r, api.CommitMessage{Author: "verif", Body: "load"})
		return e
	})
	return id, err
}

// runWriters returns a failure description ("" = fine), whether A had finished before B
// started (the schedule is then past A's last step), and a harness error.
func runWriters(wc writersCase) (key, what string, aDone bool, herr error) {
	ctx := context.Background()
	e := hlib.NewStoreEngine()
	e.NoTrace = true
	root0, err := lake.Create(ctx, e.Client(0), zap.NewNop(), e.Root)
	if err != nil {
		return "", "", false, err
	}
	l0 := &hlib.TLake{LK: lakeapi.FromRoot(root0), Root: root0}
	sk, _ := order.ParseSortKeys("k:asc")
	pool, err := l0.LK.CreatePool(ctx, "p", sk, 0, 0)
	if err != nil {
		return "", "", false, err
	}
	want := []string{}
	if wc.Init {
		if _, err := loadText(l0, pool, "{k:0}"); err != nil {
			return "", "", false, err
		}
		want = append(want, "{k:0}")
	}
	hA, err := storeHandle(e, 1)
	if err != nil {
		return "", "", false, err
	}
	hB, err := storeHandle(e, 2)
	if err != nil {
		return "", "", false, err
	}
	// warm both handles
	if _, err := hA.Query("from p"); err != nil {
		return "", "", false, fmt.Errorf("warm A: %w", err)
	}
	if _, err := hB.Query("from p"); err != nil {
		return "", "", false, fmt.Errorf("warm B: %w", err)
	}
	a, b := 1, 2
	ha, hb := hA, hB
	if wc.First == "B" {
		a, b = 2, 1
		ha, hb = hB, hA
	}
	var ra, rb writerRes
	e.Coop = true
	if err := e.StartOp(a, func() { ra.id, ra.err = loadText(ha, pool, "{k:1,w:\"a\"}") }); err != nil {
		return "", "", false, err
	}
	for i := 0; i < wc.Pre && e.Running(a); i++ {
		if err := e.Step(a); err != nil {
			return "", "", false, err
		}
	}
	aDone = !e.Running(a)
	if err := e.StartOp(b, func() { rb.id, rb.err = loadText(hb, pool, "{k:2,w:\"b\"}") }); err != nil {
		return "", "", aDone, err
	}
	for n := 0; e.Running(b); n++ {
		if n > 2000 {
			return "", "", aDone, fmt.Errorf("writer B does not terminate")
		}
		if err := e.Step(b); err != nil {
			return "", "", aDone, err
		}
	}
	for n := 0; e.Running(a); n++ {
		if n > 2000 {
			return "", "", aDone, fmt.Errorf("writer A does not terminate")
		}
		if err := e.Step(a); err != nil {
			return "", "", aDone, err
		}
	}
	e.Coop = false
	if e.Problem != "" {
		return "", "", aDone, fmt.Errorf("scheduler protocol: %s", e.Problem)
	}
	var acked []ksuid.KSUID
	if ra.err == nil {
		want = append(want, "{k:1,w:\"a\"}")
		acked = append(acked, ra.id)
	}
	if rb.err == nil {
		want = append(want, "{k:2,w:\"b\"}")
		acked = append(acked, rb.id)
	}
	hC, err := storeHandle(e, 3)
	if err != nil {
		return "", "", aDone, err
	}
	for name, h := range map[string]*hlib.TLake{"first writer's handle": ha, "second writer's handle": hb, "fresh handle": hC} {
		got, err := h.Query("from p")
		if err != nil {
			return "C13:writers:unreadable", fmt.Sprintf("after two loads (errors %v / %v) `from p` fails through the %s: %v", ra.err, rb.err, name, err), aDone, nil
		}
		if !hlib.SameMultiset(got, want) {
			return "C13:ack-visible:lost-commit", fmt.Sprintf("both loads were acknowledged (errors %v / %v) but `from p` through the %s returns %v, expected %v", ra.err, rb.err, name, got, want), aDone, nil
		}
		log, err := h.Query("from p@main:log | yield ksuid(id)")
		if err != nil {
			return "", "", aDone, fmt.Errorf("log query: %w", err)
		}
		chain := strings.Join(log, " ")
		for _, id := range acked {
			if !strings.Contains(chain, id.String()) {
				return "C13:ack-visible:commit-not-on-chain", fmt.Sprintf("acknowledged commit %s is not on main's parent chain as seen through the %s: %v", id, name, log), aDone, nil
			}
		}
	}
	return "", "", aDone, nil
}

// RunWriters enumerates the schedules "A runs k scheduled storage calls, B runs completely,
// A finishes" for every k up to the length of A's operation, both writer orders, with and
// without an initial commit.
func RunWriters(c *hlib.Ctx, maxPre int) {
	for _, init := range []bool{true, false} {
		for _, first := range []string{"A", "B"} {
			for pre := 0; pre <= maxPre; pre++ {
				wc := writersCase{Init: init, Pre: pre, First: first, Kinds: "load/load"}
				key, what, aDone, err := runWriters(wc)
				c.Stat("writers-case")
				c.Eval(fmt.Sprintf("writers %+v", wc))
				if err != nil {
					c.Fail("correspondence", "C13:writers:harness", fmt.Sprintf("%+v: %v", wc, err), wc)
					break
				}
				if key != "" {
					c.Fail("oracle", key, fmt.Sprintf("%s (schedule: writer %s runs %d scheduled storage calls, then the other writer's whole load, then it finishes; initial commit %v)", what, first, pre, init), wc)
				}
				if aDone {
					c.Stat(fmt.Sprintf("writers:a-length:%d", pre))
					break
				}
			}
		}
	}
}
