package lakeh

import (
	"context"
	"encoding/hex"
	"fmt"
	"os"
	"sort"
	"strconv"
	"strings"
	"time"

	zed "github.com/brimdata/super"
	"github.com/brimdata/super/api"
	"github.com/brimdata/super/lake"
	"github.com/brimdata/super/lake/data"
	"github.com/brimdata/super/lake/seekindex"
	"github.com/brimdata/super/zio/zngio"
	"github.com/brimdata/super/zson"
	"github.com/segmentio/ksuid"

	"verifharness/hlib"
)

var msg = api.CommitMessage{Author: "verif", Body: "op"}

// Real runs a history on a real throw-away lake.
type Real struct {
	L       *hlib.TLake
	T       *Table
	Cfg     Cfg
	Pool    ksuid.KSUID
	PoolN   string
	ObjK    map[int]ksuid.KSUID // abstract object id -> KSUID
	ObjA    map[ksuid.KSUID]int
	NextObj int
	Commits []ksuid.KSUID // abstract commit id - 1 -> KSUID
	Parent  []int         // abstract commit id - 1 -> abstract parent
	Names   []int         // branch names in creation order
	Tips    map[int]int   // branch -> abstract tip, as acknowledged
	Content map[int][]int // abstract object id -> file content when first read
	unknown map[int]ksuid.KSUID
	// Vacuumed collects the abstract ids Vacuum reported as removed; LastVacuumed those of
	// the latest vacuum.
	Vacuumed     map[int]bool
	LastVacuumed []int
	// ColdCommits: every other observation queries the commits through a freshly opened
	// handle (no in-memory caches: the persisted snapshot files are what is read).
	ColdCommits bool
	nobs        int
}

func BranchName(b int) string {
	if b == 0 {
		return "main"
	}
	return "b" + strconv.Itoa(b)
}

func NewReal(cfg Cfg, t *Table) (*Real, error) {
	l, err := hlib.NewTLake()
	if err != nil {
		return nil, err
	}
	r := &Real{L: l, T: t, Cfg: cfg, PoolN: "p", ObjK: map[int]ksuid.KSUID{}, ObjA: map[ksuid.KSUID]int{}, NextObj: 1,
		Names: []int{0}, Tips: map[int]int{0: 0}, Content: map[int][]int{}, unknown: map[int]ksuid.KSUID{}, Vacuumed: map[int]bool{}}
	r.Pool, err = l.CreatePool(r.PoolN, cfg.Key, cfg.Desc, cfg.Stride, cfg.Thresh)
	if err != nil {
		l.Close()
		return nil, err
	}
	return r, nil
}

func (r *Real) Close() { r.L.Close() }

func (r *Real) objK(a int) ksuid.KSUID {
	if k, ok := r.ObjK[a]; ok {
		return k
	}
	if k, ok := r.unknown[a]; ok {
		return k
	}
	k := ksuid.New()
	r.unknown[a] = k
	return k
}

func (r *Real) commitK(a int) ksuid.KSUID {
	if a == 0 {
		return ksuid.Nil
	}
	if a <= len(r.Commits) {
		return r.Commits[a-1]
	}
	return r.objK(-a)
}

func (r *Real) objKs(ids []int) []ksuid.KSUID {
	out := make([]ksuid.KSUID, len(ids))
	for i, a := range ids {
		out[i] = r.objK(a)
	}
	return out
}

// Rev is the query revision of an abstract commit.
func (r *Real) Rev(c int) string { return r.commitK(c).String() }

func protect(fn func() error) error {
	err, _ := hlib.Protect(fn)
	return err
}

// Apply runs one operation on the real lake and returns its error (nil = acknowledged).
// For delete-where it also returns the tokens the predicate is true of, computed with the
// plain (non-lake) runtime over the branch's current contents.
func (r *Real) Apply(op Op) error {
	ctx, cancel := context.WithTimeout(context.Background(), 120*time.Second)
	defer cancel()
	lk := r.L.LK
	b := BranchName(op.Branch)
	var id ksuid.KSUID
	err := protect(func() error {
		var err error
		switch op.Kind {
		case "load":
			id, err = r.L.LoadZSON(r.Pool, b, r.T.Texts(op.Vals))
		case "delete":
			id, err = lk.Delete(ctx, r.Pool, b, r.objKs(op.IDs), msg)
		case "delwhere":
			id, err = r.L.DeleteWhere(r.Pool, b, op.Pred)
		case "compact":
			id, err = lk.Compact(ctx, r.Pool, b, r.objKs(op.IDs), op.Vec, msg)
		case "addvec":
			id, err = lk.AddVectors(ctx, r.PoolN, b, r.objKs(op.IDs), msg)
		case "delvec":
			id, err = lk.DeleteVectors(ctx, r.PoolN, b, r.objKs(op.IDs), msg)
		case "vacuum":
			var gone []ksuid.KSUID
			gone, err = lk.Vacuum(ctx, r.PoolN, r.Rev(op.Commit), false)
			r.LastVacuumed = nil
			for _, k := range gone {
				if a, ok := r.ObjA[k]; ok {
					r.Vacuumed[a] = true
					r.LastVacuumed = append(r.LastVacuumed, a)
				}
			}
			return err
		case "branch":
			err = lk.CreateBranch(ctx, r.Pool, BranchName(op.Name), r.commitK(op.Commit))
			if err == nil {
				r.Names = append(r.Names, op.Name)
				r.Tips[op.Name] = op.Commit
			}
			return err
		case "merge":
			id, err = lk.MergeBranch(ctx, r.Pool, BranchName(op.Child), b, msg)
		case "revert":
			id, err = lk.Revert(ctx, r.Pool, b, r.commitK(op.Commit), msg)
		default:
			return fmt.Errorf("harness: unknown op %q", op.Kind)
		}
		return err
	})
	if err != nil {
		return err
	}
	switch op.Kind {
	case "vacuum", "branch":
		return nil
	}
	r.Commits = append(r.Commits, id)
	r.Parent = append(r.Parent, r.Tips[op.Branch])
	r.Tips[op.Branch] = len(r.Commits)
	return nil
}

func keyAtomOfZSON(s string) (string, error) {
	s = strings.TrimSpace(s)
	if strings.HasPrefix(s, "null") {
		return "n", nil
	}
	if strings.HasPrefix(s, "\"") {
		v, err := zson.ParseValue(zed.NewContext(), s)
		if err != nil {
			return "", err
		}
		b := zed.DecodeString(v.Bytes())
		if b == "" {
			return "s-", nil
		}
		return "s" + hex.EncodeToString([]byte(b)), nil
	}
	if n, err := strconv.ParseInt(s, 10, 64); err == nil {
		return "i" + strconv.FormatInt(n, 10), nil
	}
	return "", fmt.Errorf("unsupported key %q", s)
}

// readFile reads the value sequence of a data object straight from storage.
func (r *Real) readFile(pool *lake.Pool, id ksuid.KSUID) ([]int, error) {
	ctx := context.Background()
	rc, err := pool.Storage().Get(ctx, data.SequenceURI(pool.DataPath, id))
	if err != nil {
		return nil, err
	}
	defer rc.Close()
	zr := zngio.NewReader(zed.NewContext(), rc)
	defer zr.Close()
	var toks []int
	for {
		v, err := zr.Read()
		if err != nil {
			return nil, err
		}
		if v == nil {
			return toks, nil
		}
		k, ok := r.T.Tok(zson.FormatValue(*v))
		if !ok {
			return nil, fmt.Errorf("object %s holds %s which was never loaded", id, zson.FormatValue(*v))
		}
		toks = append(toks, k)
	}
}

// readSeek reads the seek index file of a data object.
func (r *Real) readSeek(pool *lake.Pool, id ksuid.KSUID) ([]SeekObs, error) {
	ctx := context.Background()
	rc, err := pool.Storage().Get(ctx, data.SeekIndexURI(pool.DataPath, id))
	if err != nil {
		return nil, err
	}
	defer rc.Close()
	zr := zngio.NewReader(zed.NewContext(), rc)
	defer zr.Close()
	u := zson.NewZNGUnmarshaler()
	var out []SeekObs
	for {
		v, err := zr.Read()
		if err != nil {
			return nil, err
		}
		if v == nil {
			return out, nil
		}
		var e seekindex.Entry
		if err := u.Unmarshal(*v, &e); err != nil {
			return nil, err
		}
		mn, err := keyAtomOfZSON(zson.FormatValue(e.Min.MissingAsNull()))
		if err != nil {
			return nil, err
		}
		mx, err := keyAtomOfZSON(zson.FormatValue(e.Max.MissingAsNull()))
		if err != nil {
			return nil, err
		}
		out = append(out, SeekObs{Min: mn, Max: mx, Off: int(e.ValOff), Cnt: int(e.ValCnt)})
	}
}

type rawObj struct {
	K     ksuid.KSUID
	Min   string
	Max   string
	Count int
	Size  int64
}

// listObjects runs the :objects meta query of a revision.
func (r *Real) listObjects(rev string) ([]rawObj, error) {
	out, err := r.L.Query(fmt.Sprintf("from %s@%s:objects | yield {id:ksuid(id),min:min,max:max,count:count,size:size}", r.PoolN, rev))
	if err != nil {
		return nil, err
	}
	zctx := zed.NewContext()
	var res []rawObj
	for _, s := range out {
		v, err := zson.ParseValue(zctx, s)
		if err != nil {
			return nil, err
		}
		id := v.Deref("id")
		k, err := ksuid.Parse(zed.DecodeString(id.Bytes()))
		if err != nil {
			return nil, err
		}
		mn, err := keyAtomOfZSON(zson.FormatValue(v.Deref("min").MissingAsNull()))
		if err != nil {
			return nil, err
		}
		mx, err := keyAtomOfZSON(zson.FormatValue(v.Deref("max").MissingAsNull()))
		if err != nil {
			return nil, err
		}
		res = append(res, rawObj{K: k, Min: mn, Max: mx, Count: int(v.Deref("count").Uint()), Size: v.Deref("size").Int()})
	}
	return res, nil
}

func (r *Real) scan(rev string) ([]int, error) {
	out, err := r.L.Query(fmt.Sprintf("from %s@%s", r.PoolN, rev))
	if err != nil {
		return nil, err
	}
	return r.T.Toks(out)
}

// Observe looks at every branch (objects, vectors, file contents, unfiltered scan) and,
// when commits is set, at every commit.  Objects seen for the first time get the next
// abstract ids in canonical content order; their contents are returned as parts.
func (r *Real) Observe(commits bool) (*StepObs, error) {
	obs := &StepObs{}
	pool, err := r.L.Root.OpenPool(context.Background(), r.Pool)
	if err != nil {
		return nil, err
	}
	type pend struct {
		raw  rawObj
		toks []int
		err  error
	}
	perBranch := map[int][]rawObj{}
	status := map[int]string{}
	var fresh []pend
	seen := map[ksuid.KSUID]bool{}
	for _, b := range r.Names {
		raws, err := r.listObjects(BranchName(b))
		if err != nil {
			status[b] = ErrClass(err)
			continue
		}
		perBranch[b] = raws
		for _, ro := range raws {
			if _, ok := r.ObjA[ro.K]; ok || seen[ro.K] {
				continue
			}
			seen[ro.K] = true
			toks, err := r.readFile(pool, ro.K)
			fresh = append(fresh, pend{ro, toks, err})
		}
	}
	// canonical order of the objects an operation created: by first key in pool order (the
	// order in which a compaction emits them), then by content
	sort.SliceStable(fresh, func(i, j int) bool {
		a, b := fresh[i].toks, fresh[j].toks
		if len(a) > 0 && len(b) > 0 {
			c := KeyCmp(r.T.Vals[a[0]].MKey, r.T.Vals[b[0]].MKey)
			if r.Cfg.Desc {
				c = -c
			}
			if c != 0 {
				return c < 0
			}
		}
		return fmt.Sprint(a) < fmt.Sprint(b)
	})
	for _, p := range fresh {
		if p.err != nil {
			return nil, fmt.Errorf("new object %s unreadable: %w", p.raw.K, p.err)
		}
		a := r.NextObj
		r.NextObj++
		r.ObjK[a] = p.raw.K
		r.ObjA[p.raw.K] = a
		r.Content[a] = p.toks
		obs.Parts = append(obs.Parts, p.toks)
	}
	for _, b := range r.Names {
		bo := BranchObs{Name: b, Tip: r.Tips[b], Status: "ok"}
		if st, bad := status[b]; bad {
			bo.Status = st
			obs.Branches = append(obs.Branches, bo)
			continue
		}
		vecs := map[string]bool{}
		vs, err := r.L.Query(fmt.Sprintf("from %s@%s:vectors | yield ksuid(id)", r.PoolN, BranchName(b)))
		if err != nil {
			return nil, fmt.Errorf(":vectors failed on a branch whose :objects works: %w", err)
		}
		for _, v := range vs {
			vecs[strings.Trim(v, "\"")] = true
		}
		for _, ro := range perBranch[b] {
			a := r.ObjA[ro.K]
			oo := ObjObs{ID: a, Min: ro.Min, Max: ro.Max, Count: ro.Count, Vec: vecs[ro.K.String()], Size: ro.Size}
			toks, err := r.readFile(pool, ro.K)
			if err != nil {
				if ErrClass(err) != "missing-file" {
					return nil, fmt.Errorf("object %d: %w", a, err)
				}
				oo.Gone = true
			}
			oo.Toks = toks
			if !oo.Gone {
				oo.Seek, err = r.readSeek(pool, ro.K)
				if err != nil {
					return nil, fmt.Errorf("object %d: seek index: %w", a, err)
				}
			}
			bo.Objs = append(bo.Objs, oo)
		}
		for _, o := range bo.Objs {
			bo.Lister = append(bo.Lister, o.ID)
		}
		sort.Slice(bo.Objs, func(i, j int) bool { return bo.Objs[i].ID < bo.Objs[j].ID })
		scan, err := r.scan(BranchName(b))
		if err != nil {
			bo.Status = ErrClass(err)
		}
		bo.Scan = scan
		obs.Branches = append(obs.Branches, bo)
	}
	if commits {
		r.nobs++
		if r.ColdCommits && r.nobs%2 == 0 {
			if l2, err := r.Reopen(); err == nil {
				warm := r.L
				r.L = l2
				defer func() { r.L = warm }()
			}
		}
		for c := 1; c <= len(r.Commits); c++ {
			co := CommitObs{ID: c, Status: "ok"}
			scan, err := r.scan(r.Rev(c))
			if err != nil {
				co.Status = ErrClass(err)
			}
			co.Scan = scan
			obs.Commits = append(obs.Commits, co)
		}
	}
	return obs, nil
}

// PredTrue evaluates `where pred` with the plain runtime (no lake) over the given tokens.
func (r *Real) PredTrue(pred string, toks []int) ([]int, error) {
	out, err := hlib.QueryZSON("where "+pred, r.T.Texts(toks))
	if err != nil {
		return nil, err
	}
	return r.T.Toks(out)
}

// Reopen opens a second, cold handle on the lake.  lake.Open reads the lake magic value
// after the zngio reader has already recycled its buffer (readLakeMagic keeps `val` across
// the next Read), so with other goroutines using zngio concurrently it occasionally fails
// or panics; that is unrelated to the properties checked here, so it is retried.
func (r *Real) Reopen() (l2 *hlib.TLake, err error) {
	for try := 0; try < 8; try++ {
		err = protect(func() error {
			var e error
			l2, e = r.L.Reopen()
			return e
		})
		if err == nil {
			return l2, nil
		}
	}
	return nil, err
}

// PruneSnaps removes the persisted snapshot cache file (<commit>.snap.zng) of every second
// commit.  The files are caches written whenever a snapshot is computed for a leaf; a lake in
// which some commits have one and others do not is an ordinary state.  On a handle with cold
// in-memory caches the snapshot of a commit without a file is then computed by walking to an
// ancestor that has one.
func (r *Real) PruneSnaps(salt int) {
	for c := 1; c <= len(r.Commits); c++ {
		if (c+salt)%2 == 1 {
			os.Remove(fmt.Sprintf("%s/%s/commits/%s.snap.zng", r.L.Dir, r.Pool, r.Commits[c-1]))
		}
	}
}

// ColdProbe queries every commit through a freshly opened handle, newest first (descendant
// before ancestor) or in a seeded random order, then every branch by name.
func (r *Real) ColdProbe(order []int) (commits []CommitObs, branches []BranchObs, err error) {
	l2, err := r.Reopen()
	if err != nil {
		return nil, nil, nil // lake.Open hiccup (see Reopen): skip the probe
	}
	warm := r.L
	r.L = l2
	defer func() { r.L = warm }()
	for _, c := range order {
		co := CommitObs{ID: c, Status: "ok"}
		scan, err := r.scan(r.Rev(c))
		if err != nil {
			co.Status = ErrClass(err)
		}
		co.Scan = scan
		commits = append(commits, co)
	}
	for _, b := range r.Names {
		bo := BranchObs{Name: b, Tip: r.Tips[b], Status: "ok"}
		scan, err := r.scan(BranchName(b))
		if err != nil {
			bo.Status = ErrClass(err)
		}
		bo.Scan = scan
		branches = append(branches, bo)
	}
	return commits, branches, nil
}
