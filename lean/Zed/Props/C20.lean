/-
  C20 — fuse is uniform, order-preserving and lossless.
  Property theorems only.  Model: Zed.Model.FuseTy / FuseMerge / FuseShape / FuseGood
  (`agg.merge`, `mergeAllRecords`, `Schema.Mixin`, the `fuse()` aggregate, the const shaper with
  Cast|Fill|Order, `Fuser`), tied to runtime/sam/expr/agg/schema.go, runtime/sam/expr/shaper.go and
  runtime/sam/op/fuse by the correspondence harness (harness/c20).
-/
import Zed.Proofs.FuseFuser
import Zed.Proofs.FuseMergeLemmas
import Zed.Proofs.FuseMergeFits
namespace Zed.Props.C20
open Zed.Fuse

/-! ### Obligations on the regenerated tables -/

/-- The Fuser shapes with exactly the transforms the model of the shaper is specialised to. -/
theorem fuser_transforms : Generated.C20.fuserTransforms = ["Cast", "Fill", "Order"] := by decide

/-- `Fuser.stash` starts spilling when the buffered bytes reach the limit (the model's `≥`). -/
theorem spill_condition : Generated.C20.spillCondition = "f.nbytes >= f.memMaxBytes" := by decide

/-- `zed.IDNull` and the `Kind` order the model's `Ty.kind` / `compareTypes` follow. -/
theorem null_id_and_kinds :
    Generated.C20.idNull = 29 ∧
    Generated.C20.kinds = ["PrimitiveKind", "RecordKind", "ArrayKind", "SetKind", "MapKind", "UnionKind",
      "EnumKind", "ErrorKind"] := by decide

private def sampleOf : String → Option Ty
  | "Record" => some (.record (.cons [97] (.prim 9) .nil))
  | "Array" => some (.array (.prim 9))
  | "Set" => some (.set (.prim 25))
  | "Map" => some (.map (.prim 25) (.prim 9))
  | _ => none

private def ctorKind : String → Option Nat
  | "MustLookupTypeRecord" => some 1
  | "LookupTypeRecord" => some 1
  | "LookupTypeArray" => some 2
  | "LookupTypeSet" => some 3
  | "LookupTypeMap" => some 4
  | _ => none

private def mergeKind (x y : String) : Option Nat :=
  match sampleOf x, sampleOf y with
  | some a, some b => (merge 4 a b).map Ty.kind
  | _, _ => none

/-- Every row of the kind-pair table of `agg.merge` (regenerated from schema.go) is what the
    model's `merge` does for that pair of kinds … -/
theorem merge_kind_table :
    ∀ row ∈ Generated.C20.mergeKindTable, mergeKind row.1 row.2.1 = ctorKind row.2.2 ∧ (ctorKind row.2.2).isSome = true := by
  decide

/-- … and every pair of container kinds not in the table falls through to a union. -/
theorem merge_kind_table_complete :
    ∀ x ∈ ["Record", "Array", "Set", "Map"], ∀ y ∈ ["Record", "Array", "Set", "Map"],
      (Generated.C20.mergeKindTable.any fun r => r.1 == x && r.2.1 == y) = false → mergeKind x y = some 5 := by
  decide

/-! ### `merge` embedding lemmas -/

/-- Every leaf path of the left input, with its primitive type, is a leaf path of the merge
    (for any fuel at which `merge` answers). -/
theorem merge_embeds_left (n : Nat) (a b c : Ty) (h : merge n a b = some c) :
    ∀ l ∈ tleaves a, l ∈ tleaves c :=
  fun l hl => (merge_leafJoin n a b c h l).2 (Or.inl hl)

/-- … and of the right input. -/
theorem merge_embeds_right (n : Nat) (a b c : Ty) (h : merge n a b = some c) :
    ∀ l ∈ tleaves b, l ∈ tleaves c :=
  fun l hl => (merge_leafJoin n a b c h l).2 (Or.inr hl)

/-- `merge` invents nothing: every leaf of the result comes from one of the inputs. -/
theorem merge_no_new_leaves (n : Nat) (a b c : Ty) (h : merge n a b = some c) :
    ∀ l ∈ tleaves c, l ∈ tleaves a ∨ l ∈ tleaves b :=
  fun l hl => (merge_leafJoin n a b c h l).1 hl

private theorem mem_firstSeen (seen ts : List Ty) (t : Ty) :
    t ∈ firstSeen seen ts ↔ t ∈ ts ∧ t ∉ seen := by
  induction ts generalizing seen with
  | nil => simp [firstSeen]
  | cons u r ih =>
    simp only [firstSeen]
    by_cases hu : u ∈ seen
    · simp only [hu, if_true, ih, List.mem_cons]
      constructor
      · rintro ⟨h1, h2⟩; exact ⟨Or.inr h1, h2⟩
      · rintro ⟨h1 | h1, h2⟩
        · subst h1; exact absurd hu h2
        · exact ⟨h1, h2⟩
    · simp only [hu, if_false, List.mem_cons, ih]
      constructor
      · rintro (h | ⟨h1, h2⟩)
        · subst h; exact ⟨Or.inl rfl, hu⟩
        · exact ⟨Or.inr h1, fun h => h2 (Or.inr h)⟩
      · rintro ⟨h1 | h1, h2⟩
        · exact Or.inl h1
        · by_cases htu : t = u
          · exact Or.inl htu
          · refine Or.inr ⟨h1, ?_⟩
            rintro (h | h)
            · exact htu h
            · exact h2 h

private def lsOpt : Option Ty → TLeaf → Prop
  | none, _ => False
  | some T, l => l ∈ tleaves T

private theorem mixinAll_leaves (fuel : Nat) (ts : List Ty) (s s' : Option Ty)
    (h : mixinAll fuel s ts = some s') : ∀ l, lsOpt s' l ↔ lsOpt s l ∨ lsOf ts l := by
  induction ts generalizing s with
  | nil =>
    simp only [mixinAll, Option.some.injEq] at h
    subst h; intro l; simp [lsOf_nil]
  | cons t r ih =>
    intro l
    simp only [mixinAll, Option.bind_eq_some_iff] at h
    obtain ⟨s1, h1, h2⟩ := h
    have hc : lsOf (t :: r) l ↔ l ∈ tleaves t ∨ lsOf r l := by
      have := lsOf_append [t] r l
      simpa [lsOf_singleton] using this
    rw [ih s1 h2 l, hc]
    cases s with
    | none =>
      simp only [mixin, Option.some.injEq] at h1
      subst h1; simp [lsOpt]
    | some u =>
      simp only [mixin, Option.map_eq_some_iff] at h1
      obtain ⟨w, hw, rfl⟩ := h1
      simp only [lsOpt, merge_leafJoin fuel u t w hw l]
      constructor
      · rintro ((h | h) | h) <;> simp [h]
      · rintro (h | h | h) <;> simp [h]

/-- **The fused type is exactly the join of the input types**: a leaf path (with primitive
    type) is in the type `fuse()` reports iff it is in some input type.  In particular every
    input type embeds in it. -/
theorem fused_type_leaves (fuel : Nat) (ts : List Ty) (T : Ty) (h : aggType fuel ts = some (some T)) :
    ∀ l, l ∈ tleaves T ↔ ∃ t ∈ ts, l ∈ tleaves t := by
  intro l
  have := mixinAll_leaves fuel _ none (some T) h l
  simp only [lsOpt, false_or] at this
  rw [this]
  simp only [lsOf, mem_firstSeen, List.not_mem_nil, not_false_eq_true, and_true]

/-! ### the `fuse` operator -/

def WellTyped (xs : List Input) : Prop := ∀ x ∈ xs, hasType x.val x.ty = true

private theorem mixinAll_none_of_some (fuel : Nat) (ts : List Ty) (t : Ty)
    (h : mixinAll fuel (some t) ts = some none) : False := by
  induction ts generalizing t with
  | nil => simp [mixinAll] at h
  | cons u r ih =>
    simp only [mixinAll, mixin, Option.bind_eq_some_iff, Option.map_eq_some_iff] at h
    obtain ⟨s1, ⟨w, _, rfl⟩, h2⟩ := h
    exact ih w h2

/-- **fuse_count_order.**  One output per input, in input order: output `i` is the shaper
    applied to input `i` (under the shaper cache left by inputs `0..i-1`), for the type the
    aggregate reports. -/
theorem fuse_count_order (fuel memMax : Nat) (xs : List Input) (outs : List Out)
    (h : fuse fuel memMax xs = some outs) :
    outs.length = xs.length ∧
    ∀ T, aggType fuel (xs.map (·.ty)) = some (some T) →
      ∀ i (hi : i < xs.length),
        outs[i]? = some (evalShaper T (cacheAfter T [] (xs.take i)) xs[i].ty xs[i].val).1 := by
  rw [fuse_eq] at h
  simp only [Option.map_eq_some_iff] at h
  obtain ⟨s, hs, rfl⟩ := h
  constructor
  · cases s with
    | none =>
      -- no type mixed in: there was no input
      cases xs with
      | nil => rfl
      | cons x r =>
        exfalso
        simp only [aggType, List.map_cons, firstSeen, List.not_mem_nil, if_false, mixinAll, mixin,
          Option.bind_some] at hs
        have := mixinAll_none_of_some fuel _ x.ty hs
        exact this
    | some T => simp [shapeWith, shapeAll_length]
  · intro T hT i hi
    rw [hs] at hT
    simp only [Option.some.injEq] at hT
    subst hT
    simp only [shapeWith]
    rw [List.getElem?_eq_getElem (by rw [shapeAll_length]; exact hi), shapeAll_getElem T [] xs i hi]

/-- **fuse_agg_same_type.**  The type the `fuse` operator shapes to (the Fuser's schema after
    all writes) is the type the `fuse()` aggregate reports for the same input. -/
theorem fuse_agg_same_type (fuel memMax : Nat) (xs : List Input) (f : Fuser)
    (h : Fuser.writeAll fuel { memMax := memMax } xs = some f) :
    aggType fuel (xs.map (·.ty)) = some f.schema := by
  have hv := writeAll_view fuel { memMax := memMax } xs
  rw [h] at hv
  simp only [Option.map_some] at hv
  unfold aggType
  cases hm : mixinAll fuel none (firstSeen [] (xs.map (·.ty))) with
  | none => simp [hm] at hv
  | some s =>
    simp only [hm, Option.map_some, Option.some.injEq, Prod.mk.injEq] at hv
    rw [hv.2]

/-- **fuse_spill_invariant.**  The result does not depend on the memory limit, i.e. on
    whether, and from which value on, the input was spilled. -/
theorem fuse_spill_invariant (fuel memMax memMax' : Nat) (xs : List Input) :
    fuse fuel memMax xs = fuse fuel memMax' xs := by
  rw [fuse_eq, fuse_eq]

/-  Full statements (FALSE of the current code, see the negations below):

    fuse_uniform  : every output has the type the aggregate reports
    fuse_lossless : every output carries exactly the non-null leaves of its input

    Proved under the decidable guard `guardAll`: the plan the shaper applies to that input is
    free of primitive casts, covers every input field / member / element and lands in the fused
    type (`Zed.Fuse.goodStep`).  The guard is evaluated by the driver for every case the harness
    runs; it fails exactly on the witness classes recorded in findings/C20.json. -/

/-- **fuse_uniform_partial.**  Guard: `guardAll` at input `i`. -/
theorem fuse_uniform_partial (fuel memMax : Nat) (xs : List Input) (outs : List Out) (T : Ty)
    (h : fuse fuel memMax xs = some outs) (hT : aggType fuel (xs.map (·.ty)) = some (some T))
    (i : Nat) (hi : i < xs.length) (hg : (guardAll (some T) xs)[i]? = some true)
    (ht : hasType xs[i].val xs[i].ty = true) :
    ∃ v', outs[i]? = some (.val T v') := by
  have := (fuse_count_order fuel memMax xs outs h).2 T hT i hi
  rw [this]
  simp only [guardAll] at hg
  rw [List.getElem?_eq_getElem (by rw [guardsFrom_length]; exact hi), guardsFrom_getElem T [] xs i hi] at hg
  simp only [Option.some.injEq] at hg
  obtain ⟨v', h1, _⟩ := evalShaper_good T _ _ _ hg ht
  exact ⟨v', by rw [h1]⟩

/-- **fuse_lossless_partial.**  Guard: `guardAll` at input `i`.  The output is a value of the
    fused type whose non-null primitive leaves (path, primitive type, bytes) are exactly those of
    the input: every non-null leaf of the input appears at the same path with the same type and
    value, and every other leaf of the output is null. -/
theorem fuse_lossless_partial (fuel memMax : Nat) (xs : List Input) (outs : List Out) (T : Ty)
    (h : fuse fuel memMax xs = some outs) (hT : aggType fuel (xs.map (·.ty)) = some (some T))
    (i : Nat) (hi : i < xs.length) (hg : (guardAll (some T) xs)[i]? = some true)
    (ht : hasType xs[i].val xs[i].ty = true) :
    ∃ v', outs[i]? = some (.val T v') ∧ ∀ l, l ∈ leaves T v' ↔ l ∈ leaves xs[i].ty xs[i].val := by
  have := (fuse_count_order fuel memMax xs outs h).2 T hT i hi
  rw [this]
  simp only [guardAll] at hg
  rw [List.getElem?_eq_getElem (by rw [guardsFrom_length]; exact hi), guardsFrom_getElem T [] xs i hi] at hg
  simp only [Option.some.injEq] at hg
  obtain ⟨v', h1, h2⟩ := evalShaper_good T _ _ _ hg ht
  exact ⟨v', by rw [h1], h2⟩

/-! ### Guards on the input types only

  `fits a T` (Zed.Model.FuseFits) relates an input *type* to the fused *type*, place by place,
  without mentioning plans: same underlying type, null, record ⊆ record, element fits element,
  every member of an input union fits, and — wherever something has to go into a union of the
  fused type — a member of that union with the same underlying type (NoUnionMemberReshape); no
  map has to become a different map, no primitive a different primitive (NoMapReshape). -/

/-- **fits ⇒ good plan.**  If the input type fits the target, `shaperType` answers the target
    and `newStep` plans a step that satisfies `goodStep`. -/
theorem fits_gives_good_plan (a T : Ty) (h : fits a T = true) :
    ∃ s, newShaper a T = .ok (T, s) ∧ s.toType = T ∧ goodStep a s = true :=
  newShaper_of_fits h

/-- **fuse_lossless_inputs_partial** (and uniformity).  Guard on the input types only: every
    input type fits the fused type.  Then every output is a value of the fused type carrying
    exactly the non-null leaves of its input. -/
theorem fuse_lossless_inputs_partial (fuel memMax : Nat) (xs : List Input) (outs : List Out) (T : Ty)
    (h : fuse fuel memMax xs = some outs) (hT : aggType fuel (xs.map (·.ty)) = some (some T))
    (hfit : ∀ x ∈ xs, fits x.ty T = true) (hwt : WellTyped xs)
    (i : Nat) (hi : i < xs.length) :
    ∃ v', outs[i]? = some (.val T v') ∧ ∀ l, l ∈ leaves T v' ↔ l ∈ leaves xs[i].ty xs[i].val := by
  refine fuse_lossless_partial fuel memMax xs outs T h hT i hi ?_ (hwt _ (List.getElem_mem hi))
  have hall := guardsFrom_of_fits T xs [] (cacheOK_nil T) hfit
  simp only [guardAll]
  rw [List.getElem?_eq_getElem (by rw [guardsFrom_length]; exact hi)]
  exact congrArg some (hall _ (List.getElem_mem _))

/-- **merge_admits_good_plans.**  For two clean (union-free, map-free, distinct field names)
    types, both fit their merge — so by `fits_gives_good_plan` the merged type admits a good
    shaping plan from either input.  (For three inputs this is false: `not_fuse_uniform`.) -/
theorem merge_admits_good_plans (n : Nat) (a b c : Ty) (ha : clean a = true) (hb : clean b = true)
    (h : merge n a b = some c) : fits a c = true ∧ fits b c = true :=
  let ⟨f1, f2⟩ := merge_fitsJoin n a b c ha hb h
  ⟨fits_of_fitsN (clean_not_error a ha) f1, fits_of_fitsN (clean_not_error b hb) f2⟩

private theorem firstSeen_nodup (seen ts : List Ty) : (firstSeen seen ts).Nodup := by
  induction ts generalizing seen with
  | nil => simp [firstSeen]
  | cons t r ih =>
    simp only [firstSeen]
    by_cases ht : t ∈ seen
    · simpa [ht] using ih seen
    · simp only [ht, if_false, List.nodup_cons]
      refine ⟨?_, ih _⟩
      intro hm
      have := (mem_firstSeen (t :: seen) r t).1 hm
      exact this.2 List.mem_cons_self

private theorem two_element_lists {a b : Ty} (l : List Ty) (hnd : l.Nodup) (h : ∀ t ∈ l, t = a ∨ t = b) :
    l = [] ∨ l = [a] ∨ l = [b] ∨ l = [a, b] ∨ l = [b, a] := by
  match l, hnd, h with
  | [], _, _ => exact Or.inl rfl
  | [x], _, h =>
    rcases h x List.mem_cons_self with rfl | rfl
    · exact Or.inr (Or.inl rfl)
    · exact Or.inr (Or.inr (Or.inl rfl))
  | x :: y :: rest, hnd, h =>
    have hx := h x List.mem_cons_self
    have hy := h y (List.mem_cons_of_mem _ List.mem_cons_self)
    simp only [List.nodup_cons, List.mem_cons, not_or] at hnd
    obtain ⟨⟨hxy, hxr⟩, hyr, _⟩ := hnd
    have hrest : rest = [] := by
      cases rest with
      | nil => rfl
      | cons z zs =>
        exfalso
        have hz := h z (by simp)
        have hxz : ¬ x = z := fun e => hxr (e ▸ List.mem_cons_self)
        have hyz : ¬ y = z := fun e => hyr (e ▸ List.mem_cons_self)
        rcases hx with rfl | rfl <;> rcases hy with rfl | rfl <;> rcases hz with rfl | rfl <;> simp_all
    subst hrest
    rcases hx with rfl | rfl <;> rcases hy with rfl | rfl
    · exact absurd rfl hxy
    · exact Or.inr (Or.inr (Or.inr (Or.inl rfl)))
    · exact Or.inr (Or.inr (Or.inr (Or.inr rfl)))
    · exact absurd rfl hxy

/-- **fuse_two_types_lossless.**  An end-to-end statement whose hypotheses are on the inputs
    only: any number of well-typed values of (at most) two clean types, in any order, at any
    memory limit: every output is a value of the type `fuse()` reports and carries exactly the
    non-null leaves of its input. -/
theorem fuse_two_types_lossless (fuel memMax : Nat) (a b : Ty) (xs : List Input) (outs : List Out) (T : Ty)
    (ha : clean a = true) (hb : clean b = true) (hab : ∀ x ∈ xs, x.ty = a ∨ x.ty = b) (hwt : WellTyped xs)
    (h : fuse fuel memMax xs = some outs) (hT : aggType fuel (xs.map (·.ty)) = some (some T))
    (i : Nat) (hi : i < xs.length) :
    ∃ v', outs[i]? = some (.val T v') ∧ ∀ l, l ∈ leaves T v' ↔ l ∈ leaves xs[i].ty xs[i].val := by
  refine fuse_lossless_inputs_partial fuel memMax xs outs T h hT ?_ hwt i hi
  have hmem : ∀ x ∈ xs, x.ty ∈ firstSeen [] (xs.map (·.ty)) := by
    intro x hx
    rw [mem_firstSeen]
    exact ⟨List.mem_map_of_mem hx, by simp⟩
  have hsub : ∀ t ∈ firstSeen [] (xs.map (·.ty)), t = a ∨ t = b := by
    intro t ht
    have := ((mem_firstSeen [] _ t).1 ht).1
    obtain ⟨x, hx, rfl⟩ := List.mem_map.1 this
    exact hab x hx
  unfold aggType at hT
  rcases two_element_lists _ (firstSeen_nodup [] _) hsub with e | e | e | e | e
  · intro x hx; have := hmem x hx; rw [e] at this; simp at this
  · rw [e] at hT
    simp only [mixinAll, mixin, Option.bind_some, Option.some.injEq] at hT
    subst hT
    intro x hx; have := hmem x hx; rw [e] at this
    simp only [List.mem_singleton] at this
    rw [this]; exact fits_of_fitsN (clean_not_error a ha) (fits_refl _)
  · rw [e] at hT
    simp only [mixinAll, mixin, Option.bind_some, Option.some.injEq] at hT
    subst hT
    intro x hx; have := hmem x hx; rw [e] at this
    simp only [List.mem_singleton] at this
    rw [this]; exact fits_of_fitsN (clean_not_error b hb) (fits_refl _)
  · rw [e] at hT
    simp only [mixinAll, mixin, Option.bind_some, Option.bind_eq_some_iff, Option.map_eq_some_iff] at hT
    obtain ⟨s, ⟨c, hc, rfl⟩, hs⟩ := hT
    simp only [Option.some.injEq] at hs
    subst hs
    obtain ⟨f1, f2⟩ := merge_fitsJoin fuel a b c ha hb hc
    have g1 := fits_of_fitsN (clean_not_error a ha) f1
    have g2 := fits_of_fitsN (clean_not_error b hb) f2
    intro x hx
    rcases hab x hx with e' | e' <;> rw [e'] <;> assumption
  · rw [e] at hT
    simp only [mixinAll, mixin, Option.bind_some, Option.bind_eq_some_iff, Option.map_eq_some_iff] at hT
    obtain ⟨s, ⟨c, hc, rfl⟩, hs⟩ := hT
    simp only [Option.some.injEq] at hs
    subst hs
    obtain ⟨f1, f2⟩ := merge_fitsJoin fuel b a c hb ha hc
    have g1 := fits_of_fitsN (clean_not_error b hb) f1
    have g2 := fits_of_fitsN (clean_not_error a ha) f2
    intro x hx
    rcases hab x hx with e' | e' <;> rw [e'] <;> assumption

/-- The value-level core: a good plan builds every well-typed value into the announced type
    with exactly the same non-null leaves. -/
theorem build_lossless (s : Step) (a : Ty) (v : Val) (hg : goodStep a s = true) (ht : hasType v a = true) :
    ∃ v', build s v = .ok s.toType v' ∧ ∀ l, l ∈ leaves s.toType v' ↔ l ∈ leaves a v :=
  build_good s a v hg ht

/-! ### Witnesses: the full statements are false of the current code -/

def tInt : Ty := .prim 9
def tStr : Ty := .prim 25

/-- DESIGN §11 item 9: `{m:|{"a":1}|}` and `{m:|{"b":"x"}|}` -/
def witMap : List Input :=
  [ { ty := .record (.cons [109] (.map tStr tInt) .nil),
      val := .recd (.cons (.map (.cons (.prim 25 [97]) (.cons (.prim 9 [2]) .nil))) .nil), nbytes := 5 },
    { ty := .record (.cons [109] (.map tStr tStr) .nil),
      val := .recd (.cons (.map (.cons (.prim 25 [98]) (.cons (.prim 25 [120]) .nil))) .nil), nbytes := 6 } ]

/-- `{a:1}`, `"s"`, `{b:2}` -/
def witRecUnion : List Input :=
  [ { ty := .record (.cons [97] tInt .nil), val := .recd (.cons (.prim 9 [2]) .nil), nbytes := 2 },
    { ty := tStr, val := .prim 25 [115], nbytes := 1 },
    { ty := .record (.cons [98] tInt .nil), val := .recd (.cons (.prim 9 [4]) .nil), nbytes := 2 } ]

/-- `{u:{a:1}(({a:int64},string))}`, `{u:{b:2}}` -/
def witCreateStep : List Input :=
  [ { ty := .record (.cons [117] (.union (.cons tStr (.cons (.record (.cons [97] tInt .nil)) .nil))) .nil),
      val := .recd (.cons (.union 1 (.recd (.cons (.prim 9 [2]) .nil))) .nil), nbytes := 6 },
    { ty := .record (.cons [117] (.record (.cons [98] tInt .nil)) .nil),
      val := .recd (.cons (.recd (.cons (.prim 9 [4]) .nil)) .nil), nbytes := 4 } ]

theorem witnesses_well_typed : WellTyped witMap ∧ WellTyped witRecUnion ∧ WellTyped witCreateStep := by
  refine ⟨?_, ?_, ?_⟩ <;> intro x hx <;> simp only [witMap, witRecUnion, witCreateStep, List.mem_cons, List.not_mem_nil, or_false] at hx <;>
    rcases hx with rfl | rfl | rfl <;> decide

/-- **not_fuse_lossless.**  `fuse` over two records whose map field has different key/value
    types emits two `error("cannot yet use maps in shaping functions")` values: well-typed
    inputs whose outputs are not values carrying the input's leaves. -/
theorem not_fuse_lossless :
    ¬ ∀ (fuel memMax : Nat) (xs : List Input) (outs : List Out), WellTyped xs →
        fuse fuel memMax xs = some outs →
        ∀ i (hi : i < xs.length), ∃ T v', outs[i]? = some (.val T v') ∧
          ∀ l, l ∈ leaves T v' ↔ l ∈ leaves xs[i].ty xs[i].val := by
  intro h
  have hf : fuse 10 1000 witMap = some [.err .maps, .err .maps] := by decide
  obtain ⟨T, v', h1, _⟩ := h 10 1000 witMap _ witnesses_well_typed.1 hf 0 (by decide)
  simp at h1

/-- The same defect through the other route: a record that has to go into a union whose record
    member was merged (`mergeAllRecords`) fails with "createStep: incompatible types". -/
theorem not_fuse_lossless_createStep :
    ¬ ∀ (fuel memMax : Nat) (xs : List Input) (outs : List Out), WellTyped xs →
        fuse fuel memMax xs = some outs →
        ∀ i (hi : i < xs.length), ∃ T v', outs[i]? = some (.val T v') ∧
          ∀ l, l ∈ leaves T v' ↔ l ∈ leaves xs[i].ty xs[i].val := by
  intro h
  have hf : (fuse 10 1000 witCreateStep).map (·[0]?) = some (some (.err .createStep)) := by decide
  cases ho : fuse 10 1000 witCreateStep with
  | none => simp [ho] at hf
  | some outs =>
    obtain ⟨T, v', h1, _⟩ := h 10 1000 witCreateStep outs witnesses_well_typed.2.2 ho 0 (by decide)
    simp [ho, h1] at hf

/-- **not_fuse_uniform.**  `{a:1} "s" {b:2}`: the aggregate reports `(string,{a:int64,b:int64})`
    but the first and last outputs keep their input types. -/
theorem not_fuse_uniform :
    ¬ ∀ (fuel memMax : Nat) (xs : List Input) (outs : List Out) (T : Ty), WellTyped xs →
        fuse fuel memMax xs = some outs → aggType fuel (xs.map (·.ty)) = some (some T) →
        ∀ o ∈ outs, ∃ v, o = .val T v := by
  intro h
  have hf : fuse 10 1000 witRecUnion = some
      [ .val (.record (.cons [97] tInt .nil)) (.recd (.cons (.prim 9 [2]) .nil)),
        .val (.union (.cons tStr (.cons (.record (.cons [97] tInt (.cons [98] tInt .nil))) .nil))) (.union 0 (.prim 25 [115])),
        .val (.record (.cons [98] tInt .nil)) (.recd (.cons (.prim 9 [4]) .nil)) ] := by decide
  have ha : aggType 10 (witRecUnion.map (·.ty)) =
      some (some (.union (.cons tStr (.cons (.record (.cons [97] tInt (.cons [98] tInt .nil))) .nil)))) := by decide
  obtain ⟨v, hv⟩ := h 10 1000 witRecUnion _ _ witnesses_well_typed.2.1 hf ha _ (List.mem_cons_self)
  simp at hv

/-- `1`, `error("x")` (the error value as an opaque leaf) -/
def witErr : List Input :=
  [ { ty := tInt, val := .prim 9 [2], nbytes := 1 },
    { ty := .error tStr, val := .prim idError [120], nbytes := 1 } ]

/-- **not_fuse_uniform_error_value.**  A top-level error value is returned by the shaper as it
    is (`val.IsError()`), so it keeps its own type while `fuse()` reports the union. -/
theorem not_fuse_uniform_error_value :
    ¬ ∀ (fuel memMax : Nat) (xs : List Input) (outs : List Out) (T : Ty), WellTyped xs →
        fuse fuel memMax xs = some outs → aggType fuel (xs.map (·.ty)) = some (some T) →
        ∀ o ∈ outs, ∃ v, o = .val T v := by
  intro h
  have hw : WellTyped witErr := by
    intro x hx
    simp only [witErr, List.mem_cons, List.not_mem_nil, or_false] at hx
    rcases hx with rfl | rfl <;> decide
  have hf : fuse 10 1000 witErr = some
      [ .val (.union (.cons tInt (.cons (.error tStr) .nil))) (.union 0 (.prim 9 [2])),
        .val (.error tStr) (.prim idError [120]) ] := by decide
  have ha : aggType 10 (witErr.map (·.ty)) = some (some (.union (.cons tInt (.cons (.error tStr) .nil)))) := by decide
  obtain ⟨v, hv⟩ := h 10 1000 witErr _ _ hw hf ha _ (List.mem_cons_of_mem _ List.mem_cons_self)
  simp at hv

mutual
/-- no union in the type has two identical members -/
def noDupUnion : Ty → Bool
  | .prim _ => true
  | .record fs => noDupUnionF fs
  | .array t => noDupUnion t
  | .set t => noDupUnion t
  | .map k v => noDupUnion k && noDupUnion v
  | .union ts => noDupUnionU ts && ts.toList.Nodup
  | .named _ t => noDupUnion t
  | .enum _ => true
  | .error t => noDupUnion t
def noDupUnionF : Fields → Bool
  | .nil => true
  | .cons _ t r => noDupUnion t && noDupUnionF r
def noDupUnionU : Tys → Bool
  | .nil => true
  | .cons t r => noDupUnion t && noDupUnionU r
end

/-- **not_merge_union_wellformed.**  `merge` of an array and a set of the same element type
    (likewise of two maps with the same key type) builds a union of two identical types. -/
theorem not_merge_union_wellformed :
    ¬ ∀ (n : Nat) (a b c : Ty), noDupUnion a = true → noDupUnion b = true → merge n a b = some c →
        noDupUnion c = true := by
  intro h
  have := h 5 (.array tInt) (.set tInt) (.array (.union (.cons tInt (.cons tInt .nil)))) (by decide) (by decide) (by decide)
  revert this; decide

/-! ### Non-vacuity -/

/-- `{a:1,b:2}` and `{b:"s",a:3,c:4}` -/
def exOK : List Input :=
  [ { ty := .record (.cons [97] tInt (.cons [98] tInt .nil)),
      val := .recd (.cons (.prim 9 [2]) (.cons (.prim 9 [4]) .nil)), nbytes := 4 },
    { ty := .record (.cons [98] tStr (.cons [97] tInt (.cons [99] tInt .nil))),
      val := .recd (.cons (.prim 25 [115]) (.cons (.prim 9 [6]) (.cons (.prim 9 [8]) .nil))), nbytes := 6 } ]

def exT : Ty := .record (.cons [97] tInt (.cons [98] (.union (.cons tInt (.cons tStr .nil))) (.cons [99] tInt .nil)))

/-- The hypotheses of `fuse_lossless_partial` / `fuse_uniform_partial` are satisfiable on an input
    that needs filling, reordering and a cast into a union; the memory limit 5 makes the Fuser
    spill at the second value. -/
example : fuse 10 5 exOK = some
      [ .val exT (.recd (.cons (.prim 9 [2]) (.cons (.union 0 (.prim 9 [4])) (.cons .null .nil)))),
        .val exT (.recd (.cons (.prim 9 [6]) (.cons (.union 1 (.prim 25 [115])) (.cons (.prim 9 [8]) .nil)))) ] ∧
    aggType 10 (exOK.map (·.ty)) = some (some exT) ∧
    guardAll (some exT) exOK = [true, true] ∧
    fuseSpilled 10 5 exOK = some true ∧
    (∀ x ∈ exOK, hasType x.val x.ty = true) := by
  refine ⟨by decide, by decide, by decide, by decide, ?_⟩
  intro x hx
  simp only [exOK, List.mem_cons, List.not_mem_nil, or_false] at hx
  rcases hx with rfl | rfl <;> decide

/-- The input-only guards are satisfiable on the same example, and fail on the witnesses. -/
example : (exOK.all fun x => clean x.ty && fits x.ty exT) = true ∧
    (witRecUnion.all fun x => clean x.ty) = true ∧
    (witRecUnion.all fun x => fits x.ty
      (.union (.cons tStr (.cons (.record (.cons [97] tInt (.cons [98] tInt .nil))) .nil)))) = false ∧
    (witMap.all fun x => clean x.ty) = false := by decide

/-- `merge` answers on nested inputs with little fuel. -/
example : merge 3 (.record (.cons [97] tInt .nil)) (.record (.cons [97] tStr (.cons [98] tInt .nil))) =
    some (.record (.cons [97] (.union (.cons tInt (.cons tStr .nil))) (.cons [98] tInt .nil))) := by decide

/-- The guard fails on the witnesses (so the partial theorems do not contradict the negations). -/
example : guardAll (some (.union (.cons tStr (.cons (.record (.cons [97] tInt (.cons [98] tInt .nil))) .nil)))) witRecUnion
    = [false, true, false] := by decide

end Zed.Props.C20
