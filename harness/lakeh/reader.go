package lakeh

import (
	"context"
	"fmt"
	"math/rand"
	"time"

	"github.com/brimdata/super/zbuf"
	"github.com/brimdata/super/zson"

	"verifharness/hlib"
)

type readerCase struct {
	Cfg   Cfg      `json:"cfg"`
	Vals  []string `json:"vals"`
	Keys  []string `json:"keys"`
	Setup []Op     `json:"setup"`
	Pulls int      `json:"pulls_before_writes"`
	Write []Op     `json:"writes"`
}

type readerOutcome struct {
	rc    *readerCase
	fails []Fail
	stats map[string]int
	err   error
}

// pullSome pulls up to n batches (n < 0: until EOS) and returns the values as tokens.
func pullSome(t *Table, q zbuf.Puller, n int) (toks []int, eos bool, err error) {
	e := protect(func() error {
		for i := 0; n < 0 || i < n; i++ {
			b, err := q.Pull(false)
			if err != nil {
				return err
			}
			if b == nil {
				eos = true
				return nil
			}
			for _, v := range b.Values() {
				k, ok := t.Tok(zson.FormatValue(v))
				if !ok {
					return fmt.Errorf("reader returned %s which was never loaded", zson.FormatValue(v))
				}
				toks = append(toks, k)
			}
			b.Unref()
		}
		return nil
	})
	return toks, eos, e
}

func runReader(rng *rand.Rand) *readerOutcome {
	cfg := GenCfg(rng)
	if cfg.Key == "this" {
		cfg.Key = "k"
	}
	if cfg.Thresh == 0 || cfg.Thresh > 16 {
		cfg.Thresh = int64(1 + rng.Intn(12)) // many objects, many batches
	}
	texts, keys := GenAlphabet(rng, cfg, true)
	rc := &readerCase{Cfg: cfg, Vals: texts, Keys: keys}
	out := &readerOutcome{rc: rc, stats: map[string]int{}}
	fail := func(key, what string) { out.fails = append(out.fails, Fail{"oracle", key, what, 0}) }
	t, err := NewTable(cfg, texts, keys)
	if err != nil {
		out.err = err
		return out
	}
	r, err := NewReal(cfg, t)
	if err != nil {
		out.err = err
		return out
	}
	defer r.Close()
	// setup: a few loads (and sometimes a delete / compaction) through handle 1
	var contents []int
	apply := func(op Op, list *[]Op) bool {
		var dels []int
		if op.Kind == "delwhere" {
			dels, _ = r.PredTrue(op.Pred, allToks(len(t.Vals)))
		}
		err := r.Apply(op)
		*list = append(*list, op)
		out.stats["op:"+op.Kind+":"+trimOther(ErrClass(err))]++
		if err != nil {
			return false
		}
		switch op.Kind {
		case "load":
			contents = append(contents, op.Vals...)
		case "delete":
			contents = MsSub(contents, contentOf(r, dedup(op.IDs)))
		case "delwhere":
			contents = MsSub(contents, intersectMs(contents, dels))
		}
		return true
	}
	live := func() []int {
		raws, err := r.listObjects("main")
		if err != nil {
			return nil
		}
		var ids []int
		for _, ro := range raws {
			if a, ok := r.ObjA[ro.K]; ok {
				ids = append(ids, a)
			}
		}
		return ids
	}
	nload := 2 + rng.Intn(4)
	for i := 0; i < nload; i++ {
		vals := make([]int, 2+rng.Intn(10))
		for j := range vals {
			vals[j] = rng.Intn(len(t.Vals))
		}
		apply(Op{Kind: "load", Vals: vals}, &rc.Setup)
		if _, err := r.Observe(false); err != nil {
			out.err = err
			return out
		}
	}
	before, err := r.scan("main")
	if err != nil {
		out.err = fmt.Errorf("scan before: %w", err)
		return out
	}
	// handle 2 (the writer) is opened before the reader starts
	l1 := r.L
	l2, err := r.Reopen()
	if err != nil {
		out.stats["reopen-failed"]++
		return out
	}
	// the reader starts: the commit is resolved when the query is compiled
	ctx, cancel := context.WithTimeout(context.Background(), 120*time.Second)
	defer cancel()
	q, err := l1.LK.Query(ctx, nil, fmt.Sprintf("from %s", r.PoolN))
	if err != nil {
		out.err = fmt.Errorf("start reader: %w", err)
		return out
	}
	defer q.Pull(true)
	rc.Pulls = rng.Intn(3)
	got, eos, err := pullSome(t, q, rc.Pulls)
	if err != nil {
		fail("C13:reader:error", fmt.Sprintf("reader failed before any write: %v", err))
		return out
	}
	// writers commit through handle 2 while the reader is suspended
	r.L = l2
	nw := 1 + rng.Intn(4)
	lastCommit := len(r.Commits)
	for i := 0; i < nw; i++ {
		ids := live()
		var op Op
		switch x := rng.Intn(10); {
		case x < 3 || len(ids) == 0:
			vals := make([]int, 1+rng.Intn(6))
			for j := range vals {
				vals[j] = rng.Intn(len(t.Vals))
			}
			op = Op{Kind: "load", Vals: vals}
		case x < 5:
			op = Op{Kind: "delete", IDs: subset(rng, ids, 1)}
		case x < 7 && len(ids) >= 2:
			op = Op{Kind: "compact", IDs: subset(rng, ids, 2), Vec: rng.Intn(3) == 0}
		case x < 9:
			op = Op{Kind: "delwhere", Pred: genPred(rng, cfg, 1)}
		default:
			op = Op{Kind: "revert", Commit: lastCommit}
		}
		if op.Kind == "revert" {
			// keep the reference simple: contents after a revert are re-read below
			r.Apply(op)
			rc.Write = append(rc.Write, op)
			contents = nil
			out.stats["op:revert"]++
		} else {
			apply(op, &rc.Write)
		}
		if _, err := r.Observe(false); err != nil {
			r.L = l1
			out.err = err
			return out
		}
		lastCommit = len(r.Commits)
	}
	afterW, errW := r.scan("main") // what the writer's handle sees
	r.L = l1
	// the reader continues
	if !eos {
		rest, _, err := pullSome(t, q, -1)
		if err != nil {
			fail("C13:reader:error", fmt.Sprintf("reader started before %v failed after them: %v", rc.Write, err))
			return out
		}
		got = append(got, rest...)
	}
	if !EqInts(t.CanonTies(got), t.CanonTies(before)) {
		key := "C13:reader:not-isolated"
		fail(key, fmt.Sprintf("a reader started before the writes %v returned %v; the branch held %v when it started (pool key=%s desc=%v thresh=%d)", rc.Write, got, before, cfg.Key, cfg.Desc, cfg.Thresh))
	}
	if errW != nil {
		out.err = fmt.Errorf("writer-side scan: %w", errW)
		return out
	}
	_ = contents // what the writes leave behind is C14's business
	// queries started after the acknowledgements: the reader's (warm) handle and a fresh one
	after1, err := r.scan("main")
	if err != nil {
		fail("C13:ack-visible:error", fmt.Sprintf("query on the reader's handle after the writes failed: %v", err))
		return out
	}
	if l3, err := r.Reopen(); err == nil {
		r.L = l3
		after3, err := r.scan("main")
		r.L = l1
		if err != nil || !EqInts(ms(after3), ms(afterW)) {
			fail("C13:ack-visible:fresh-handle", fmt.Sprintf("a fresh handle opened after the acknowledged writes %v sees %v (err %v), the writer sees %v", rc.Write, after3, err, afterW))
		}
	}
	if !EqInts(ms(after1), ms(afterW)) {
		key := "C13:ack-visible:other"
		if EqInts(ms(after1), ms(before)) || true {
			// the reader's handle answers from its branch table cached less than a second ago
			time.Sleep(1100 * time.Millisecond)
			again, err := r.scan("main")
			if err == nil && EqInts(ms(again), ms(afterW)) {
				key = "C13:ack-visible:stale-branch-cache"
			}
		}
		fail(key, fmt.Sprintf("a query started on a second (warm) handle after the writes %v were acknowledged returns %v, the writer's handle returns %v", rc.Write, ms(after1), ms(afterW)))
	}
	return out
}

// RunReaders runs n reader/writer cases.
func RunReaders(c *hlib.Ctx, n int) {
	seeds := make([]int64, n)
	for i := range seeds {
		seeds[i] = c.Rng.Int63()
	}
	outs := make([]*readerOutcome, n)
	hlib.ParallelDo(n, 8, func(i int) {
		outs[i] = runReader(rand.New(rand.NewSource(seeds[i])))
	})
	for _, o := range outs {
		c.Stat("reader-case")
		for k, v := range o.stats {
			c.StatN("reader:"+k, v)
		}
		if o.err != nil {
			c.Fail("correspondence", "C13:reader:harness", o.err.Error(), o.rc)
			continue
		}
		c.Eval(fmt.Sprintf("reader %v %v %d %v", o.rc.Cfg, o.rc.Setup, o.rc.Pulls, o.rc.Write))
		c.Stat(fmt.Sprintf("reader:pulls-before:%d", o.rc.Pulls))
		for _, f := range o.fails {
			c.Fail(f.Kind, f.Key, f.What, o.rc)
		}
	}
}
