import Zed.Model.ZsonFormat
import Zed.Model.ZsonAnalyze
/-!
  C02 — the decidable predicates the round-trip theorems are stated under.

  * `wfTy` / `wfVal`: well-formedness the Zed data model itself demands
    (docs/formats/zed.md): primitive ids that exist, distinct field names, unions of two or
    more distinct members in the canonical order, enums of one or more distinct symbols,
    values that have the shape of their type, selectors and tags in range, a union value
    that is not null carries a non-null member value, primitive text the lexer classifies
    compatibly with its type (`primOK` — the "primitive text round-trips" parameter).
  * `plainTy`: the fragment the value theorems cover — no named types (those are handled at
    the top of a value and over streams), no record field of union type (see `not_zson_roundtrip_value_*` for what breaks outside).
  * `bareEmpty`: a value the formatter writes without the decorator it needs.
-/
namespace Zed.Zson
open Generated

def validPrim (id : Nat) : Bool := C02.primitiveName.any (·.1 == id)

/-- members strictly increasing in the model's type order (both directions, so that no
    order-theoretic law of `tyCmp` is needed). -/
def chainFrom (x : Ty) : List Ty → Bool
  | [] => true
  | y :: r => tyCmp x y == .lt && tyCmp y x == .gt && x != y && chainFrom x r

def chain : List Ty → Bool
  | [] => true
  | x :: r => chainFrom x r && chain r

mutual
def wfTy : Ty → Bool
  | .prim id => validPrim id
  | .record fs => wfFields fs && !fs.hasDup
  | .array t => wfTy t
  | .set t => wfTy t
  | .map k v => wfTy k && wfTy v
  | .union ts => wfTys ts && decide (2 ≤ ts.length) && chain ts.toList
  | .enum syms => !syms.isEmpty && syms.Nodup
  | .error t => wfTy t
  | .named _ t => wfTy t
def wfFields : Fields → Bool
  | .nil => true
  | .cons _ t r => wfTy t && wfFields r
def wfTys : Tys → Bool
  | .nil => true
  | .cons t r => wfTy t && wfTys r
end

mutual
/-- no named type, no record field of union type. -/
def plainTy : Ty → Bool
  | .prim _ => true
  | .record fs => plainFields fs
  | .array t => plainTy t
  | .set t => plainTy t
  | .map k v => plainTy k && plainTy v
  | .union ts => plainTys ts
  | .enum _ => true
  | .error t => plainTy t
  | .named _ _ => false
def plainFields : Fields → Bool
  | .nil => true
  | .cons _ t r => plainTy t && !t.isUnion && plainFields r
def plainTys : Tys → Bool
  | .nil => true
  | .cons t r => plainTy t && plainTys r
end

/-- the text of a primitive of type `id` is classified by the lexer as a type the analyzer
    accepts for `id` — and as `id` itself when the formatter leaves the decorator out. -/
def primOK (id : Nat) (text : Bytes) : Bool :=
  validPrim id && id != C02.idNull && id != C02.idType &&
  match lookupPrimitive (lexClass id text) with
  | some cid => castOk cid id && cid != C02.idNull && (!(C02.impliedPrims.contains id) || cid == id)
  | none => false

mutual
def wfVal : Ty → Val → Bool
  | _, .null => true
  | .prim id, .prim text => primOK id text
  | .prim id, .typeval ty => id == C02.idType && wfTy ty && plainTy ty
  | .record fs, .record vs => wfVals fs vs
  | .array t, .array vs => wfElems t vs
  | .set t, .set vs => wfElems t vs
  | .map k v, .map es => wfEntries k v es
  | .union ts, .union tag v => v != .null && (match ts.get? tag with | some m => wfVal m v | none => false)
  | .enum syms, .enum sel => decide (sel < syms.length)
  | .error t, .error v => v != .null && wfVal t v
  | .named _ t, .named v => v != .null && wfVal t v
  | _, _ => false
def wfVals : Fields → Vals → Bool
  | .nil, .nil => true
  | .cons _ t fr, .cons v vr => wfVal t v && wfVals fr vr
  | _, _ => false
def wfElems (t : Ty) : Vals → Bool
  | .nil => true
  | .cons v r => wfVal t v && wfElems t r
def wfEntries (k v : Ty) : Entries → Bool
  | .nil => true
  | .cons a b r => wfVal k a && wfVal v b && wfEntries k v r
end

/-- a non-null empty array / set / map: written as `[]`, `|[]|`, `|{}|` with no decorator when
    it is the whole value (`formatValueAndDecorate` passes `null = false` to `decorate`). -/
def bareEmpty : Val → Bool
  | .array .nil => true
  | .set .nil => true
  | .map .nil => true
  | .error v => bareEmpty v
  | _ => false

mutual
/-- no error value whose inner value is an empty container: `error([])` is written with the
    empty container bare (the `TypeError` case of `formatValue` passes `decorate = false`), and
    when the error type is implied nothing else supplies the type. -/
def errOK : Val → Bool
  | .error v => !bareEmpty v && errOK v
  | .record vs => errOKs vs
  | .array vs => errOKs vs
  | .set vs => errOKs vs
  | .map es => errOKe es
  | .union _ v => errOK v
  | .named v => errOK v
  | _ => true
def errOKs : Vals → Bool
  | .nil => true
  | .cons v r => errOK v && errOKs r
def errOKe : Entries → Bool
  | .nil => true
  | .cons k v r => errOK k && errOK v && errOKe r
end

/-- names a type may bear: not empty, not numeric (docs/formats/zson.md), not a primitive
    type name (`LookupTypeNamed` refuses those). -/
def nameOK (n : Name) : Bool := n != [] && !isNumeric n && (lookupPrimitive n).isNone

/-- the value gets no decorator of its own from `formatVector` / `formatMap` (its union
    element types, if any, are fully populated). -/
def noOwnDeco : Ty → Val → Bool
  | .array et, .array vs => !needsDecoration et (seenTypes et vs [])
  | .set et, .set vs => !needsDecoration et (seenTypes et vs [])
  | .map kt vt, .map es => !(needsDecoration kt (seenKeys kt es []) || needsDecoration vt (seenVals vt es []))
  | _, _ => true

/-- the analyzer's tables after entering the typedef `n = t`. -/
def aPush (a0 : AState) (n : Name) (t : Ty) : AState :=
  { names := (n, t) :: a0.names, ctxdefs := (n, t) :: a0.ctxdefs }

mutual
/-- no array / set / map whose element (key, value) type is a union: inside a value whose
    named type the formatter already knows, union elements are written without their member
    decorators (`known-name-union-elements-undecorated`). -/
def noUnionElems : Ty → Bool
  | .prim _ => true
  | .record fs => noUnionElemsF fs
  | .array t => !t.isUnion && noUnionElems t
  | .set t => !t.isUnion && noUnionElems t
  | .map k v => !k.isUnion && !v.isUnion && noUnionElems k && noUnionElems v
  | .union ts => noUnionElemsT ts
  | .enum _ => true
  | .error t => noUnionElems t
  | .named _ t => noUnionElems t
def noUnionElemsF : Fields → Bool
  | .nil => true
  | .cons _ t r => noUnionElems t && noUnionElemsF r
def noUnionElemsT : Tys → Bool
  | .nil => true
  | .cons t r => noUnionElems t && noUnionElemsT r
end

/-- the guard of `zson_roundtrip_value_named_top_partial` for a value of type `t` written by a
    formatter that has not seen the name yet. -/
def namedTopGuard : Ty → Val → Bool
  | .named n u, .named v =>
    nameOK n && plainTy u && wfTy u && wfVal u v && !v.isNull && !bareEmpty v && noOwnDeco u v &&
      (enumSyms u).isNone && errOK v
  | _, _ => false

/-- a value of a named type over a plain type, anywhere in a value: the guards of the
    first-occurrence and of the later-occurrence theorems together, and the name is bound to this
    type in the binding table `b` (one name, one type). -/
def namedNodeOK (b : List (Name × Ty)) (n : Name) (u : Ty) (v : Val) : Bool :=
  namedTopGuard (.named n u) (.named v) && noUnionElems u && !u.isUnion &&
    decide (assoc n b = some (.named n u))

mutual
/-- values with named types *inside*: records, arrays and sets (not empty, not null) whose
    fields / elements are plain values or values of named types over plain types. -/
def spineOK (b : List (Name × Ty)) (t : Ty) (v : Val) : Bool :=
  if plainTy t then wfTy t && wfVal t v && errOK v
  else match v, t with
    | .named v', .named n u => namedNodeOK b n u v'
    | .record vs, .record fs => spineFields b fs vs && !fs.hasDup
    | .array (.cons x r), .array et => !et.under.isUnion && spineElems b et (.cons x r)
    | .set (.cons x r), .set et => !et.under.isUnion && spineElems b et (.cons x r)
    | _, _ => false
def spineFields (b : List (Name × Ty)) (fs : Fields) (vs : Vals) : Bool :=
  match vs, fs with
  | .nil, .nil => true
  | .cons v vr, .cons _ t fr => !t.under.isUnion && spineOK b t v && spineFields b fr vr
  | _, _ => false
def spineElems (b : List (Name × Ty)) (et : Ty) (vs : Vals) : Bool :=
  match vs with
  | .nil => true
  | .cons v r => spineOK b et v && spineElems b et r
end

/-- what `zson_roundtrip_stream_nested_partial` asks of each value of the stream. -/
def itemOKB (b : List (Name × Ty)) (tv : Ty × Val) : Bool := spineOK b tv.1 tv.2 && !bareEmpty tv.2

/-! ### streams of values (zsonio.Writer / zsonio.Reader, Formatter.Format in a loop) -/

/-- `reset = true`: `FormatRecord` (typedef scope = one value; the `persist` table survives);
    `reset = false`: `Format` (typedef scope = the stream). -/
def fmtStream (reset : Bool) : FState → List (Ty × Val) → List AVal
  | _, [] => []
  | st, (t, v) :: r =>
    let res := fmtTop (if reset then st.resetTypedefs else st) t v
    res.2 :: fmtStream reset res.1 r

/-- one analyzer (and one context) for the whole stream; stops at the first error. -/
def analyzeStream : AState → List AVal → Except Err (List TV)
  | _, [] => .ok []
  | st, a :: r =>
    match analyzeTop st a with
    | .error e => .error e
    | .ok (st1, tv) =>
      match analyzeStream st1 r with
      | .error e => .error e
      | .ok rest => .ok (tv :: rest)

/-- what `zson_roundtrip_stream_partial` asks of each value of the stream: a plain value that
    is not an empty container, or a non-null value of a named type over a plain type
    (`namedTopGuard`) without union-typed container elements. -/
def itemOK (tv : Ty × Val) : Bool :=
  (plainTy tv.1 && wfTy tv.1 && wfVal tv.1 tv.2 && !bareEmpty tv.2 && errOK tv.2) ||
  (namedTopGuard tv.1 tv.2 && noUnionElems tv.1)

/-- one name, one type — over the whole stream. -/
def namesConsistent (items : List (Ty × Val)) : Bool :=
  items.all fun a => items.all fun b =>
    match a.1, b.1 with
    | .named n u, .named m w => n != m || u == w
    | _, _ => true

/-- the model's own round trip of one value through a fresh formatter and a fresh analyzer
    (used to state the negation witnesses). -/
def rtOK (t : Ty) (v : Val) : Bool :=
  match analyzeTop {} (fmtTop {} t v).2 with
  | .ok (_, tv) => tv == (t, v)
  | .error _ => false

end Zed.Zson
