package main

// The two access paths: a local handle (lakeapi.FromRoot over a lake on the file system) and
// a remote handle (lakeapi.NewRemoteLake + api/client against an httptest server over
// service.NewCore on a separate lake), and the operations applied to both.

import (
	"bytes"
	"compress/gzip"
	"context"
	"encoding/json"
	"errors"
	"fmt"
	"io"
	"net/http"
	"net/http/httptest"
	"os"
	"regexp"
	"strings"
	"time"

	zed "github.com/brimdata/super"
	"github.com/brimdata/super/api"
	"github.com/brimdata/super/api/client"
	"github.com/brimdata/super/api/queryio"
	"github.com/brimdata/super/lake"
	lakeapi "github.com/brimdata/super/lake/api"
	"github.com/brimdata/super/lakeparse"
	"github.com/brimdata/super/order"
	"github.com/brimdata/super/pkg/storage"
	"github.com/brimdata/super/service"
	"github.com/brimdata/super/zbuf"
	"github.com/brimdata/super/zio"
	"github.com/brimdata/super/zio/anyio"
	"github.com/brimdata/super/zio/zngio"
	"github.com/brimdata/super/zson"
	"github.com/segmentio/ksuid"
	"go.uber.org/zap"

	. "verifharness/hlib"
)

type side struct {
	name string
	dir  string
	lk   lakeapi.Interface
	conn *client.Connection // nil on the local side
	srv  *httptest.Server
	core *service.Core
}

func (s *side) remote() bool { return s.conn != nil }

func newLocal() (*side, error) {
	dir, err := os.MkdirTemp("", "zvh-c19-local-")
	if err != nil {
		return nil, err
	}
	uri, err := storage.ParseURI(dir)
	if err != nil {
		return nil, err
	}
	root, err := lake.Create(context.Background(), storage.NewLocalEngine(), zap.NewNop(), uri)
	if err != nil {
		return nil, err
	}
	return &side{name: "local", dir: dir, lk: lakeapi.FromRoot(root)}, nil
}

func newRemote() (*side, error) {
	dir, err := os.MkdirTemp("", "zvh-c19-remote-")
	if err != nil {
		return nil, err
	}
	core, err := service.NewCore(context.Background(), service.Config{Root: storage.MustParseURI(dir)})
	if err != nil {
		return nil, err
	}
	srv := httptest.NewServer(core)
	conn := client.NewConnectionTo(srv.URL)
	return &side{name: "remote", dir: dir, lk: lakeapi.NewRemoteLake(conn), conn: conn, srv: srv, core: core}, nil
}

func (s *side) close() {
	if s.srv != nil {
		s.srv.Close()
	}
	os.RemoveAll(s.dir)
}

func ctxT() (context.Context, context.CancelFunc) {
	return context.WithTimeout(context.Background(), 300*time.Second)
}

// ---- error classes ---------------------------------------------------------------------------

var classRules = []struct {
	class string
	re    *regexp.Regexp
}{
	{"empty", regexp.MustCompile(`(?i)no records in request|empty transaction|nothing to commit`)},
	{"exists", regexp.MustCompile(`(?i)already exists|exists`)},
	{"notfound", regexp.MustCompile(`(?i)not found|does not exist|no such|non-existent`)},
	{"conflict", regexp.MustCompile(`(?i)conflict`)},
	{"syntax", regexp.MustCompile(`(?i)pars(e|ing) error|syntax|error parsing|at line \d+, column|unexpected|invalid character|malformed|format detection|could not|cannot|invalid|bad |unsupported|mismatch|unknown`)},
}

// classify maps an error to a small enum; remote errors carry an HTTP status prefix that is
// ignored here ("status code 400: …").
func classify(err error) string {
	if err == nil {
		return "ok"
	}
	msg := err.Error()
	for _, r := range classRules {
		if r.re.MatchString(msg) {
			return r.class
		}
	}
	return "other"
}

// ---- operations ------------------------------------------------------------------------------

type Op struct {
	Kind   string   `json:"kind"` // createPool load delete deleteWhere branch merge revert query removePool renamePool
	Pool   string   `json:"pool,omitempty"`
	Branch string   `json:"branch,omitempty"`
	Name   string   `json:"name,omitempty"`   // new branch / new pool name / child branch
	Key    string   `json:"key,omitempty"`    // pool key
	Desc   bool     `json:"desc,omitempty"`   // pool order
	Thresh int64    `json:"thresh,omitempty"` // pool threshold
	Format string   `json:"format,omitempty"` // load content type or response format ("" = auto / default)
	Data   []string `json:"data,omitempty"`   // load: ZSON records
	Raw    string   `json:"raw,omitempty"`    // load: literal body instead of Data (for malformed bodies)
	Index  int      `json:"index,omitempty"`  // delete: k-th object of the branch; revert: k-th commit of the log; -1 = a random id that does not exist
	Src    string   `json:"src,omitempty"`    // deleteWhere predicate / query text
	Ctrl   bool     `json:"ctrl,omitempty"`   // query: ask for control frames
	// load: a body whose first records (Data) are fine and whose tail is damaged
	// ("tail": broken record / truncated second stream appended after the good ones)
	Damage  string `json:"damage,omitempty"`
	Gzip    bool   `json:"gzip,omitempty"`    // load: gzip the body
	Chunked bool   `json:"chunked,omitempty"` // load: send without Content-Length, a few bytes per read
	Vectors bool   `json:"vectors,omitempty"` // compact: write vectors
	Dryrun  bool   `json:"dryrun,omitempty"`  // vacuum
	Accept  string `json:"accept,omitempty"`  // query: raw Accept header (format negotiation); Format is what it must resolve to
}

// damaged appends a broken tail in the syntax of the format after the good records.
func damaged(format string, good []byte) ([]byte, error) {
	switch format {
	case "zson", "", "auto":
		return append(append([]byte{}, good...), []byte("{k:9999,s:\"unterminated")...), nil
	case "zjson":
		return append(append([]byte{}, good...), []byte("{\"type\":\"nonsense\"}\n")...), nil
	case "json":
		return append(append([]byte{}, good...), []byte("{\"k\":")...), nil
	case "csv":
		return append(append([]byte{}, good...), []byte("9999,\"unterminated,1\n")...), nil
	case "zng":
		more, err := encodeData("zng", []string{`{k:9998,s:"x",n:1}`, `{k:9999,s:"y",n:2}`})
		if err != nil {
			return nil, err
		}
		return append(append([]byte{}, good...), more[:len(more)-4]...), nil
	case "vng":
		return append([]byte{}, good[:len(good)*2/3]...), nil
	}
	return nil, fmt.Errorf("harness: no damage recipe for %q", format)
}

type slowReader struct {
	r io.Reader
	n int
}

func (s *slowReader) Read(p []byte) (int, error) {
	if len(p) > s.n {
		p = p[:s.n]
	}
	return s.r.Read(p)
}

func gz(b []byte) []byte {
	var buf bytes.Buffer
	w := gzip.NewWriter(&buf)
	w.Write(b)
	w.Close()
	return buf.Bytes()
}

type opResult struct {
	Class  string   // error class
	Err    string   // message (never compared)
	Values []string // query: canonical ZSON of the values after a round trip through the response format
	Body   string   // query: raw body (text formats), with control lines removed
	CType  string   // query: Content-Type of the response (remote only)
}

var msg = api.CommitMessage{Author: "verif", Body: "c19"}

func (s *side) poolID(name string) (ksuid.KSUID, error) {
	ctx, cancel := ctxT()
	defer cancel()
	return s.lk.PoolID(ctx, name)
}

func queryStrings(lk lakeapi.Interface, head *lakeparse.Commitish, q string) (out []string, err error) {
	e, _ := Protect(func() error {
		ctx, cancel := ctxT()
		defer cancel()
		sc, err := lk.Query(ctx, head, q)
		if err != nil {
			return err
		}
		defer sc.Pull(true)
		out, err = PullAll(sc)
		return err
	})
	return out, e
}

func pullValues(p zbuf.Puller) ([]zed.Value, error) {
	var out []zed.Value
	for {
		b, err := p.Pull(false)
		if err != nil {
			return out, err
		}
		if b == nil {
			return out, nil
		}
		for _, v := range b.Values() {
			out = append(out, v.Copy())
		}
		b.Unref()
	}
}

// encodeData serializes ZSON records in a load format.
func encodeData(format string, recs []string) ([]byte, error) {
	zctx := zed.NewContext()
	var buf bytes.Buffer
	f := format
	if f == "" || f == "auto" {
		f = "zson"
	}
	w, err := anyio.NewWriter(zio.NopCloser(&buf), anyio.WriterOpts{Format: f})
	if err != nil {
		return nil, err
	}
	for _, r := range recs {
		v, err := zson.ParseValue(zctx, r)
		if err != nil {
			return nil, err
		}
		if err := w.Write(v); err != nil {
			return nil, err
		}
	}
	if err := w.Close(); err != nil {
		return nil, err
	}
	return buf.Bytes(), nil
}

func mediaType(format string) string {
	if format == "" || format == "auto" {
		return ""
	}
	t, err := api.FormatToMediaType(format)
	if err != nil {
		return "application/x-" + format
	}
	return t
}

// roundTrip writes values in a format with the writer the service uses for it and reads the
// bytes back with the reader of that format, yielding canonical ZSON per value.
func decodeBody(format string, body []byte) ([]string, error) {
	zctx := zed.NewContext()
	r, err := anyio.NewReaderWithOpts(zctx, bytes.NewReader(body), nil, anyio.ReaderOpts{Format: format})
	if err != nil {
		return nil, err
	}
	defer r.Close()
	var out []string
	for {
		v, err := r.Read()
		if err != nil {
			return out, err
		}
		if v == nil {
			return out, nil
		}
		out = append(out, zson.FormatValue(*v))
	}
}

func (s *side) exec(op Op) (res opResult) {
	err, panicked := Protect(func() error { return s.exec1(op, &res) })
	if panicked {
		res.Class = "panic"
		res.Err = err.Error()
		return
	}
	res.Class = classify(err)
	if err != nil {
		res.Err = err.Error()
	}
	return
}

func (s *side) exec1(op Op, res *opResult) error {
	ctx, cancel := ctxT()
	defer cancel()
	switch op.Kind {
	case "createPool":
		o := order.Asc
		if op.Desc {
			o = order.Desc
		}
		sk, err := order.ParseSortKeys(op.Key + ":" + o.String())
		if err != nil {
			return err
		}
		_, err = s.lk.CreatePool(ctx, op.Pool, sk, 0, op.Thresh)
		return err
	case "removePool":
		id, err := s.poolID(op.Pool)
		if err != nil {
			return err
		}
		return s.lk.RemovePool(ctx, id)
	case "renamePool":
		id, err := s.poolID(op.Pool)
		if err != nil {
			return err
		}
		return s.lk.RenamePool(ctx, id, op.Name)
	case "load":
		id, err := s.poolID(op.Pool)
		if err != nil {
			return err
		}
		var body []byte
		if op.Raw != "" {
			body = []byte(op.Raw)
		} else if body, err = encodeData(op.Format, op.Data); err != nil {
			return fmt.Errorf("harness: cannot encode load data: %w", err)
		}
		if op.Damage != "" {
			if body, err = damaged(op.Format, body); err != nil {
				return err
			}
		}
		if op.Gzip {
			body = gz(body)
		}
		if s.remote() {
			var rd io.Reader = bytes.NewReader(body)
			if op.Chunked {
				rd = &slowReader{r: rd, n: 7} // not a *bytes.Reader: no Content-Length, chunked transfer
			}
			_, err := s.conn.Load(ctx, id, op.Branch, mediaType(op.Format), rd, msg)
			return err
		}
		// direct access: the same bytes decoded by the same reader the service would use
		format := op.Format
		if format == "" {
			format = "auto"
		}
		zctx := zed.NewContext()
		src, err := anyio.GzipReader(bytes.NewReader(body)) // as handleBranchLoad does
		if err != nil {
			return err
		}
		if format == "vng" || format == "parquet" {
			b, err := io.ReadAll(src)
			if err != nil {
				return err
			}
			src = bytes.NewReader(b)
		}
		zr, err := anyio.NewReaderWithOpts(zctx, src, nil, anyio.ReaderOpts{Format: format, ZNG: zngio.ReaderOpts{Validate: true}})
		if err != nil {
			return err
		}
		defer zr.Close()
		_, err = s.lk.Load(ctx, zctx, id, op.Branch, zr, msg)
		return err
	case "delete":
		id, err := s.poolID(op.Pool)
		if err != nil {
			return err
		}
		var oid ksuid.KSUID
		if op.Index < 0 {
			oid = ksuid.New()
		} else {
			ids, err := queryStrings(s.lk, nil, fmt.Sprintf("from %s@%s:objects | sort min, max, count | yield ksuid(id)", op.Pool, op.Branch))
			if err != nil {
				return err
			}
			if len(ids) == 0 {
				return errors.New("harness: no object to delete (not found)")
			}
			oid, err = ksuid.Parse(strings.Trim(ids[op.Index%len(ids)], `"`))
			if err != nil {
				return err
			}
		}
		_, err = s.lk.Delete(ctx, id, op.Branch, []ksuid.KSUID{oid}, msg)
		return err
	case "deleteWhere":
		id, err := s.poolID(op.Pool)
		if err != nil {
			return err
		}
		_, err = s.lk.DeleteWhere(ctx, id, op.Branch, op.Src, msg)
		return err
	case "branch":
		id, err := s.poolID(op.Pool)
		if err != nil {
			return err
		}
		at, err := s.lk.CommitObject(ctx, id, op.Branch)
		if err != nil {
			return err
		}
		return s.lk.CreateBranch(ctx, id, op.Name, at)
	case "merge":
		id, err := s.poolID(op.Pool)
		if err != nil {
			return err
		}
		_, err = s.lk.MergeBranch(ctx, id, op.Name, op.Branch, msg)
		return err
	case "revert":
		id, err := s.poolID(op.Pool)
		if err != nil {
			return err
		}
		var cid ksuid.KSUID
		if op.Index < 0 {
			cid = ksuid.New()
		} else {
			ids, err := queryStrings(s.lk, nil, fmt.Sprintf("from %s@%s:log | yield ksuid(id)", op.Pool, op.Branch))
			if err != nil {
				return err
			}
			if len(ids) == 0 {
				return errors.New("harness: no commit to revert (not found)")
			}
			cid, err = ksuid.Parse(strings.Trim(ids[op.Index%len(ids)], `"`))
			if err != nil {
				return err
			}
		}
		_, err = s.lk.Revert(ctx, id, op.Branch, cid, msg)
		return err
	case "compact":
		id, err := s.poolID(op.Pool)
		if err != nil {
			return err
		}
		ids, err := s.objectIDs(op.Pool, op.Branch)
		if err != nil {
			return err
		}
		n := 2 + op.Index%3
		if n > len(ids) {
			n = len(ids)
		}
		_, err = s.lk.Compact(ctx, id, op.Branch, ids[:n], op.Vectors, msg)
		return err
	case "addVectors", "delVectors":
		ids, err := s.objectIDs(op.Pool, op.Branch)
		if err != nil {
			return err
		}
		if len(ids) == 0 {
			return errors.New("harness: no object (not found)")
		}
		one := []ksuid.KSUID{ids[op.Index%len(ids)]}
		if op.Kind == "addVectors" {
			_, err = s.lk.AddVectors(ctx, op.Pool, op.Branch, one, msg)
		} else {
			_, err = s.lk.DeleteVectors(ctx, op.Pool, op.Branch, one, msg)
		}
		return err
	case "vacuum":
		ids, err := s.lk.Vacuum(ctx, op.Pool, op.Branch, op.Dryrun)
		if err != nil {
			return err
		}
		res.Values = []string{fmt.Sprintf("vacuumed:%d", len(ids))}
		return nil
	case "query":
		return s.query(ctx, op, res)
	}
	return fmt.Errorf("harness: unknown op %q", op.Kind)
}

func (s *side) objectIDs(pool, branch string) ([]ksuid.KSUID, error) {
	strs, err := queryStrings(s.lk, nil, fmt.Sprintf("from %s@%s:objects | sort min, max, count | yield ksuid(id)", pool, branch))
	if err != nil {
		return nil, err
	}
	var out []ksuid.KSUID
	for _, x := range strs {
		id, err := ksuid.Parse(strings.Trim(x, `"`))
		if err != nil {
			return nil, err
		}
		out = append(out, id)
	}
	return out, nil
}

// query runs op.Src and renders the result in op.Format: remotely through POST /query with
// the Accept header of that format; locally by pulling the values and writing them with the
// writer the service uses for that format.
func (s *side) query(ctx context.Context, op Op, res *opResult) error {
	format := op.Format
	if format == "" {
		format = "zng"
	}
	var body []byte
	if s.remote() {
		path := "/query?ctrl=F"
		if op.Ctrl {
			path = "/query?ctrl=T"
		}
		req := s.conn.NewRequest(ctx, http.MethodPost, path, api.QueryRequest{Query: op.Src})
		if op.Accept != "" {
			req.Header.Set("Accept", op.Accept)
		} else {
			req.Header.Set("Accept", mediaType(format))
		}
		r, err := s.conn.Do(req)
		if err != nil {
			return err
		}
		defer r.Body.Close()
		res.CType = r.Header.Get("Content-Type")
		b, err := io.ReadAll(r.Body)
		if err != nil {
			return err
		}
		body = b
	} else {
		sc, err := s.lk.Query(ctx, nil, op.Src)
		if err != nil {
			return err
		}
		vals, err := pullValues(sc)
		sc.Pull(true)
		if err != nil {
			return err
		}
		var buf bytes.Buffer
		w, err := queryio.NewWriter(zio.NopCloser(&buf), format, nil, false)
		if err != nil {
			return err
		}
		if len(vals) > 0 {
			if err := w.WriteBatch("main", zbuf.NewArray(vals)); err != nil {
				return fmt.Errorf("render: %w", err)
			}
		}
		if err := w.Close(); err != nil {
			return fmt.Errorf("render: %w", err)
		}
		body = buf.Bytes()
	}
	vals, text, lateErr, err := decodeResponse(ctx, format, body)
	res.Body = text
	res.Values = vals
	if lateErr != nil {
		return lateErr
	}
	return err
}

// decodeResponse is the client side of a query response: for zng the real api/queryio
// scanner (control frames interpreted, a QueryError returned as lateErr); for zjson the
// control lines are taken out and a QueryError line is returned as lateErr; other formats
// have no control channel.  Values come back as canonical ZSON (a JSON response is one array:
// its elements are the values).  err reports a body that does not read back at all.
func decodeResponse(ctx context.Context, format string, body []byte) (vals []string, text string, lateErr, err error) {
	switch format {
	case "zng":
		sc, err := queryio.NewScanner(ctx, io.NopCloser(bytes.NewReader(body)))
		if err != nil {
			return nil, "", nil, err
		}
		vals, lateErr = PullAll(sc)
		return vals, "", lateErr, nil
	case "zjson":
		body, lateErr = stripControl(format, body)
	case "json":
		var elems []json.RawMessage
		if len(bytes.TrimSpace(body)) == 0 {
			return nil, string(body), nil, nil
		}
		if err := json.Unmarshal(body, &elems); err != nil {
			return nil, string(body), nil, fmt.Errorf("harness: json response is not an array: %w", err)
		}
		for _, e := range elems {
			var buf bytes.Buffer
			json.Compact(&buf, e)
			vals = append(vals, buf.String())
		}
		return vals, string(body), nil, nil
	case "csv":
		if len(body) == 0 {
			return nil, "", nil, nil
		}
	}
	vals, err = decodeBody(format, body)
	if err != nil {
		return vals, string(body), lateErr, fmt.Errorf("harness: response body does not read back as %s: %w", format, err)
	}
	return vals, string(body), lateErr, nil
}

// stripControl removes in-band control messages from a query response and returns the
// QueryError among them, if any: ZNG control frames for zng, {"type":"Query…"} lines for zjson.
func stripControl(format string, b []byte) ([]byte, error) {
	if format != "zjson" {
		return b, nil
	}
	var out bytes.Buffer
	var late error
	for _, line := range bytes.SplitAfter(b, []byte("\n")) {
		if len(bytes.TrimSpace(line)) == 0 {
			continue
		}
		var probe struct {
			Type  json.RawMessage `json:"type"`
			Value json.RawMessage `json:"value"`
		}
		if json.Unmarshal(line, &probe) == nil && len(probe.Type) > 0 && probe.Type[0] == '"' {
			var name string
			json.Unmarshal(probe.Type, &name)
			if name == "QueryError" && late == nil {
				var qe api.QueryError
				json.Unmarshal(probe.Value, &qe)
				late = errors.New(qe.Error)
			}
			continue
		}
		if late == nil {
			out.Write(line)
		}
	}
	return out.Bytes(), late
}
