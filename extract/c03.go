package main

// Fact set C03 — VNG column encodings and the vector-cache loader (also imported by C09).
//
//   * parameters of vng/primitive.go used by the model: MaxDictSize, the operator of the
//     dictionary overflow test, the type ids excluded from dictionaries, the dictionary size
//     at which a Const is produced, the selector width;
//   * the initial polarity of vng.NullsBuilder;
//   * the type switch of vng.NewEncoder (which encoder wraps which) and of vng.NewBuilder,
//     and the metadata Template list;
//   * the case sets of runtime/vcache/loader.go loadVals / loadDict / empty, with, per
//     loadVals case, whether the value slice is allocated before it is indexed;
//   * the primitive types LookupPrimitiveByID implements (type.go);
//   * a digest of the normalised source of every small function the model mirrors by hand
//     ("pinned sources"): an edit of one of them re-opens the obligation
//     `modelled_sources_unchanged` and sends the check into the thorough search.

import (
	"crypto/sha256"
	"fmt"
	"go/ast"
	"go/token"
	"sort"
	"strings"
)

func init() { register("C03", genC03) }

// vxTypeSwitchCases returns, for the first type switch in body whose tag renders as tag
// ("" = any), one entry per clause: the rendered case types (nil = default) and the clause.
type vxClause struct {
	types []string
	node  *ast.CaseClause
}

func vxTypeSwitch(f *file, body *ast.BlockStmt, tag string) ([]vxClause, error) {
	var ts *ast.TypeSwitchStmt
	ast.Inspect(body, func(n ast.Node) bool {
		if ts != nil {
			return false
		}
		if t, ok := n.(*ast.TypeSwitchStmt); ok {
			if tag == "" || strings.Contains(renderNode(f, t.Assign), tag) {
				ts = t
				return false
			}
		}
		return true
	})
	if ts == nil {
		return nil, fmt.Errorf("%s: no type switch on %q", f.path, tag)
	}
	var out []vxClause
	for _, s := range ts.Body.List {
		cc := s.(*ast.CaseClause)
		c := vxClause{node: cc}
		for _, t := range cc.List {
			c.types = append(c.types, renderExpr(f, t))
		}
		out = append(out, c)
	}
	return out, nil
}

func vxRenderStmts(f *file, stmts []ast.Stmt) []string {
	var out []string
	for _, s := range stmts {
		if _, ok := s.(*ast.EmptyStmt); ok {
			continue
		}
		out = append(out, renderStmt(f, s))
	}
	return out
}

func vxShort(t string) string {
	t = strings.TrimPrefix(t, "*")
	t = strings.TrimPrefix(t, "zed.")
	t = strings.TrimPrefix(t, "vector.")
	t = strings.TrimPrefix(t, "vng.")
	t = strings.TrimPrefix(t, "dag.")
	return t
}

func vxDigest(f *file, fd *ast.FuncDecl) string {
	h := sha256.Sum256([]byte(renderNode(f, fd.Body)))
	return fmt.Sprintf("%x", h[:6])
}

type vxPin struct{ file, recv, name string }

// vxPins appends "(file:recv.name, digest)" rows.
func vxPins(repo string, pins []vxPin) ([]string, error) {
	files := map[string]*file{}
	var rows []string
	for _, p := range pins {
		f := files[p.file]
		if f == nil {
			var err error
			f, err = parseFile(repo, p.file)
			if err != nil {
				return nil, err
			}
			files[p.file] = f
		}
		fd, err := f.funcDecl(p.recv, p.name)
		if err != nil {
			return nil, err
		}
		n := p.name
		if p.recv != "" {
			n = p.recv + "." + p.name
		}
		rows = append(rows, fmt.Sprintf("(%s, %s)", leanStr(p.file+":"+n), leanStr(vxDigest(f, fd))))
	}
	return rows, nil
}

func genC03(repo string) (string, error) {
	var b strings.Builder
	var consts constTable
	tf, err := parseFile(repo, "type.go")
	if err != nil {
		return "", err
	}
	readConsts(tf, &consts)

	// ---- vng/primitive.go ---------------------------------------------------------------
	pf, err := parseFile(repo, "vng/primitive.go")
	if err != nil {
		return "", err
	}
	var pc constTable
	readConsts(pf, &pc)
	mds, err := pc.get("MaxDictSize")
	if err != nil {
		return "", err
	}
	fmt.Fprintf(&b, "def maxDictSize : Nat := %d\n", mds)

	// NewPrimitiveEncoder: if useDict { if id := typ.ID(); id != A && id != B ... { dict = make(map[string]uint32) } }
	fd, err := pf.funcDecl("", "NewPrimitiveEncoder")
	if err != nil {
		return "", err
	}
	var excl []string
	found := false
	ast.Inspect(fd.Body, func(n ast.Node) bool {
		ifs, ok := n.(*ast.IfStmt)
		if !ok || ifs.Init == nil {
			return true
		}
		if renderStmt(pf, ifs.Init) != "id := typ.ID()" {
			return true
		}
		found = true
		var walk func(e ast.Expr) bool
		walk = func(e ast.Expr) bool {
			be, ok := e.(*ast.BinaryExpr)
			if !ok {
				return false
			}
			if be.Op == token.LAND {
				return walk(be.X) && walk(be.Y)
			}
			if be.Op != token.NEQ {
				return false
			}
			if id, ok := identName(be.X); !ok || id != "id" {
				return false
			}
			n, ok := selName(be.Y)
			if !ok {
				return false
			}
			excl = append(excl, n)
			return true
		}
		if !walk(ifs.Cond) {
			excl = nil
			found = false
		}
		return false
	})
	if !found {
		return "", fmt.Errorf("vng/primitive.go: NewPrimitiveEncoder: dictionary exclusion test `id != … && …` not recognised")
	}
	var exclIDs []string
	for _, n := range excl {
		v, err := consts.get(n)
		if err != nil {
			return "", err
		}
		exclIDs = append(exclIDs, fmt.Sprint(v))
	}
	fmt.Fprintf(&b, "def dictExcludedIDs : List Nat := [%s]\n", strings.Join(exclIDs, ", "))

	// update: `p.dict[string(body)]++` followed by `if len(p.dict) OP MaxDictSize { p.dict = nil }`
	fd, err = pf.funcDecl("PrimitiveEncoder", "update")
	if err != nil {
		return "", err
	}
	op := ""
	ast.Inspect(fd.Body, func(n ast.Node) bool {
		ifs, ok := n.(*ast.IfStmt)
		if !ok {
			return true
		}
		be, ok := ifs.Cond.(*ast.BinaryExpr)
		if !ok {
			return true
		}
		if renderExpr(pf, be.X) == "len(p.dict)" && renderExpr(pf, be.Y) == "MaxDictSize" {
			if len(ifs.Body.List) == 1 && renderStmt(pf, ifs.Body.List[0]) == "p.dict = nil" && ifs.Else == nil {
				op = be.Op.String()
			}
		}
		return true
	})
	if op != ">" && op != ">=" {
		return "", fmt.Errorf("vng/primitive.go: update: overflow test `if len(p.dict) > MaxDictSize { p.dict = nil }` not recognised (op %q)", op)
	}
	fmt.Fprintf(&b, "def dictOverflowOp : String := %s\n", leanStr(op))

	// Metadata: `if cnt == N { … return off, p.Const() }`
	fd, err = pf.funcDecl("PrimitiveEncoder", "Metadata")
	if err != nil {
		return "", err
	}
	constAt := int64(-1)
	ast.Inspect(fd.Body, func(n ast.Node) bool {
		ifs, ok := n.(*ast.IfStmt)
		if !ok {
			return true
		}
		be, ok := ifs.Cond.(*ast.BinaryExpr)
		if !ok || be.Op != token.EQL {
			return true
		}
		if id, ok := identName(be.X); ok && id == "cnt" {
			if v, ok := intLit(be.Y); ok && strings.Contains(renderNode(pf, ifs.Body), "p.Const()") {
				constAt = v
			}
		}
		return true
	})
	if constAt < 0 {
		return "", fmt.Errorf("vng/primitive.go: Metadata: `if cnt == 1 { … p.Const() }` not recognised")
	}
	fmt.Fprintf(&b, "def constAtDictSize : Nat := %d\n", constAt)

	// makeDictVector: pos := make(map[string]byte) — the selector type
	fd, err = pf.funcDecl("PrimitiveEncoder", "makeDictVector")
	if err != nil {
		return "", err
	}
	selType := ""
	ast.Inspect(fd.Body, func(n ast.Node) bool {
		as, ok := n.(*ast.AssignStmt)
		if !ok || len(as.Lhs) != 1 || len(as.Rhs) != 1 {
			return true
		}
		if id, ok := identName(as.Lhs[0]); ok && id == "pos" {
			if args, ok := callTo(as.Rhs[0], "make"); ok && len(args) >= 1 {
				if mt, ok := args[0].(*ast.MapType); ok {
					selType = renderExpr(pf, mt.Value)
				}
			}
		}
		return true
	})
	bits := map[string]int{"byte": 8, "uint8": 8, "uint16": 16, "uint32": 32}[selType]
	if bits == 0 {
		return "", fmt.Errorf("vng/primitive.go: makeDictVector: selector type %q not recognised", selType)
	}
	fmt.Fprintf(&b, "def selectorBits : Nat := %d\n", bits)

	// ---- vng/nulls.go --------------------------------------------------------------------
	nf, err := parseFile(repo, "vng/nulls.go")
	if err != nil {
		return "", err
	}
	fd, err = nf.funcDecl("", "NewNullsBuilder")
	if err != nil {
		return "", err
	}
	initNull := ""
	ast.Inspect(fd.Body, func(n ast.Node) bool {
		kv, ok := n.(*ast.KeyValueExpr)
		if !ok {
			return true
		}
		if k, ok := identName(kv.Key); ok && k == "null" {
			initNull, _ = identName(kv.Value)
		}
		return true
	})
	if initNull != "true" && initNull != "false" {
		return "", fmt.Errorf("vng/nulls.go: NewNullsBuilder: initial `null:` not a boolean literal")
	}
	fmt.Fprintf(&b, "def nullsBuilderInitialNull : Bool := %s\n", initNull)

	// ---- vng/encoder.go: NewEncoder type switch ----------------------------------------------
	ef, err := parseFile(repo, "vng/encoder.go")
	if err != nil {
		return "", err
	}
	fd, err = ef.funcDecl("", "NewEncoder")
	if err != nil {
		return "", err
	}
	cls, err := vxTypeSwitch(ef, fd.Body, "")
	if err != nil {
		return "", err
	}
	var rows []string
	for _, c := range cls {
		// the returned constructor expression (last return statement of the clause)
		ret := ""
		for _, s := range c.node.Body {
			if r, ok := s.(*ast.ReturnStmt); ok && len(r.Results) == 1 {
				ret = renderExpr(ef, r.Results[0])
			}
		}
		if ret == "" {
			return "", fmt.Errorf("%s: NewEncoder: clause without a return", ef.pos(c.node))
		}
		if c.types == nil {
			rows = append(rows, fmt.Sprintf("(%s, %s)", leanStr("default"), leanStr(ret)))
			continue
		}
		for _, t := range c.types {
			rows = append(rows, fmt.Sprintf("(%s, %s)", leanStr(vxShort(t)), leanStr(ret)))
		}
	}
	fmt.Fprintf(&b, "def encoderSwitch : List (String × String) :=\n  [%s]\n", strings.Join(rows, ",\n   "))

	// ---- vng/builder.go: NewBuilder type switch ----------------------------------------------
	bf, err := parseFile(repo, "vng/builder.go")
	if err != nil {
		return "", err
	}
	fd, err = bf.funcDecl("", "NewBuilder")
	if err != nil {
		return "", err
	}
	cls, err = vxTypeSwitch(bf, fd.Body, "")
	if err != nil {
		return "", err
	}
	rows = nil
	for _, c := range cls {
		body := strings.Join(vxRenderStmts(bf, c.node.Body), " ; ")
		if c.types == nil {
			rows = append(rows, fmt.Sprintf("(%s, %s)", leanStr("default"), leanStr(body)))
			continue
		}
		for _, t := range c.types {
			rows = append(rows, fmt.Sprintf("(%s, %s)", leanStr(vxShort(t)), leanStr(body)))
		}
	}
	fmt.Fprintf(&b, "def builderSwitch : List (String × String) :=\n  [%s]\n", strings.Join(rows, ",\n   "))

	// ---- vng/metadata.go: Template -----------------------------------------------------------
	mf, err := parseFile(repo, "vng/metadata.go")
	if err != nil {
		return "", err
	}
	var tmpl []string
	for _, d := range mf.f.Decls {
		gd, ok := d.(*ast.GenDecl)
		if !ok || gd.Tok != token.VAR {
			continue
		}
		for _, s := range gd.Specs {
			vs := s.(*ast.ValueSpec)
			if len(vs.Names) == 1 && vs.Names[0].Name == "Template" && len(vs.Values) == 1 {
				cl, ok := vs.Values[0].(*ast.CompositeLit)
				if !ok {
					return "", fmt.Errorf("vng/metadata.go: Template is not a composite literal")
				}
				for _, e := range cl.Elts {
					el, ok := e.(*ast.CompositeLit)
					if !ok {
						return "", fmt.Errorf("%s: Template element not recognised", mf.pos(e))
					}
					tmpl = append(tmpl, renderExpr(mf, el.Type))
				}
			}
		}
	}
	if tmpl == nil {
		return "", fmt.Errorf("vng/metadata.go: Template not found")
	}
	fmt.Fprintf(&b, "def metadataTemplate : List String := %s\n", leanStrList(tmpl))

	// ---- type.go: implemented primitives --------------------------------------------------------
	fd, err = tf.funcDecl("", "LookupPrimitiveByID")
	if err != nil {
		return "", err
	}
	sw := firstSwitch(fd.Body, "id")
	if sw == nil {
		return "", fmt.Errorf("type.go: LookupPrimitiveByID: no `switch id`")
	}
	type prim struct {
		id   int64
		name string
	}
	var prims []prim
	for _, s := range sw.Body.List {
		cc := s.(*ast.CaseClause)
		if cc.List == nil {
			continue
		}
		if len(cc.List) != 1 || len(cc.Body) != 1 {
			return "", fmt.Errorf("%s: LookupPrimitiveByID: clause not recognised", tf.pos(cc))
		}
		idn, ok := identName(cc.List[0])
		if !ok {
			return "", fmt.Errorf("%s: LookupPrimitiveByID: case not an identifier", tf.pos(cc))
		}
		v, err := consts.get(idn)
		if err != nil {
			return "", err
		}
		r, ok := cc.Body[0].(*ast.ReturnStmt)
		if !ok || len(r.Results) != 2 {
			return "", fmt.Errorf("%s: LookupPrimitiveByID: body not `return TypeX, nil`", tf.pos(cc))
		}
		tn, ok := identName(r.Results[0])
		if !ok || !strings.HasPrefix(tn, "Type") {
			return "", fmt.Errorf("%s: LookupPrimitiveByID: return not recognised", tf.pos(cc))
		}
		// var TypeUint8 = &TypeOfUint8{} : the loader switches on the struct type
		prims = append(prims, prim{v, "TypeOf" + strings.TrimPrefix(tn, "Type")})
	}
	sort.Slice(prims, func(i, j int) bool { return prims[i].id < prims[j].id })
	rows = nil
	for _, p := range prims {
		rows = append(rows, fmt.Sprintf("(%d, %s)", p.id, leanStr(p.name)))
	}
	fmt.Fprintf(&b, "def primitiveTypes : List (Nat × String) :=\n  [%s]\n", strings.Join(rows, ", "))

	// ---- runtime/vcache/loader.go ------------------------------------------------------------
	lf, err := parseFile(repo, "runtime/vcache/loader.go")
	if err != nil {
		return "", err
	}
	// loadVals: per case: types, "alloc" (values := make(…)/offs := make(…)/NewBoolEmpty/NewConst),
	// or "nil-slice" (var values []T then values[slot] = …).
	fd, err = lf.funcDecl("loader", "loadVals")
	if err != nil {
		return "", err
	}
	cls, err = vxTypeSwitch(lf, fd.Body, "typ")
	if err != nil {
		return "", err
	}
	rows = nil
	var kindRows []string
	for _, c := range cls {
		if c.types == nil {
			return "", fmt.Errorf("%s: loadVals: unexpected default clause", lf.pos(c.node))
		}
		alloc := vxAllocClass(lf, c.node)
		if alloc == "" {
			return "", fmt.Errorf("%s: loadVals: cannot classify how the value slice of case %v is allocated", lf.pos(c.node), c.types)
		}
		kind := vxReturnedVectorKind(lf, c.node)
		if kind == "" {
			return "", fmt.Errorf("%s: loadVals: cannot find the vector constructor returned by case %v", lf.pos(c.node), c.types)
		}
		for _, t := range c.types {
			rows = append(rows, fmt.Sprintf("(%s, %s)", leanStr(vxShort(t)), leanStr(alloc)))
			kindRows = append(kindRows, fmt.Sprintf("(%s, %s)", leanStr(vxShort(t)), leanStr(kind)))
		}
	}
	fmt.Fprintf(&b, "def loadValsCases : List (String × String) :=\n  [%s]\n", strings.Join(rows, ",\n   "))
	fmt.Fprintf(&b, "def loadValsKinds : List (String × String) :=\n  [%s]\n", strings.Join(kindRows, ", "))
	// what follows the switch: must be the "unknown type" error return
	last := fd.Body.List[len(fd.Body.List)-1]
	fmt.Fprintf(&b, "def loadValsFallthrough : String := %s\n", leanStr(vxFallthrough(renderStmt(lf, last))))

	for _, fn := range []string{"loadDict", "empty"} {
		recv := "loader"
		if fn == "empty" {
			recv = ""
		}
		fd, err = lf.funcDecl(recv, fn)
		if err != nil {
			return "", err
		}
		cls, err = vxTypeSwitch(lf, fd.Body, "typ")
		if err != nil {
			return "", err
		}
		var types []string
		deflt := "none"
		for _, c := range cls {
			if c.types == nil {
				deflt = vxFallthrough(strings.Join(vxRenderStmts(lf, c.node.Body), " ; "))
				continue
			}
			for _, t := range c.types {
				types = append(types, vxShort(t))
			}
		}
		fmt.Fprintf(&b, "def %sCases : List String := %s\n", fn, leanStrList(types))
		fmt.Fprintf(&b, "def %sDefault : String := %s\n", fn, leanStr(deflt))
	}

	// shadow / loader / project: the shadow kinds each of the recursive walks handles
	for _, w := range []struct{ file, recv, fn, tag, name string }{
		{"runtime/vcache/shadow.go", "", "newShadow", "m", "newShadowCases"},
		{"runtime/vcache/loader.go", "loader", "loadVector", "s", "loadVectorCases"},
		{"runtime/vcache/loader.go", "loader", "fetchNulls", "s", "fetchNullsCases"},
		{"runtime/vcache/loader.go", "", "flattenNulls", "s", "flattenNullsCases"},
		{"runtime/vcache/project.go", "", "project", "s", "projectCases"},
	} {
		wf, err := parseFile(repo, w.file)
		if err != nil {
			return "", err
		}
		fd, err = wf.funcDecl(w.recv, w.fn)
		if err != nil {
			return "", err
		}
		cls, err = vxTypeSwitch(wf, fd.Body, w.tag)
		if err != nil {
			return "", err
		}
		var types []string
		for _, c := range cls {
			for _, t := range c.types {
				types = append(types, vxShort(t))
			}
		}
		fmt.Fprintf(&b, "def %s : List String := %s\n", w.name, leanStrList(types))
	}

	// ---- pinned sources --------------------------------------------------------------------------
	pins, err := vxPins(repo, []vxPin{
		{"vng/nulls.go", "NullsEncoder", "Write"},
		{"vng/nulls.go", "NullsEncoder", "touchValue"},
		{"vng/nulls.go", "NullsEncoder", "touchNull"},
		{"vng/nulls.go", "NullsEncoder", "Encode"},
		{"vng/nulls.go", "NullsEncoder", "Metadata"},
		{"vng/nulls.go", "NullsEncoder", "Emit"},
		{"vng/nulls.go", "NullsBuilder", "Build"},
		{"vng/primitive.go", "PrimitiveEncoder", "Write"},
		{"vng/primitive.go", "PrimitiveEncoder", "update"},
		{"vng/primitive.go", "PrimitiveEncoder", "Encode"},
		{"vng/primitive.go", "PrimitiveEncoder", "makeDictVector"},
		{"vng/primitive.go", "PrimitiveEncoder", "Const"},
		{"vng/primitive.go", "PrimitiveEncoder", "Metadata"},
		{"vng/primitive.go", "PrimitiveEncoder", "Emit"},
		{"vng/primitive.go", "PrimitiveEncoder", "makeDict"},
		{"vng/primitive.go", "PrimitiveBuilder", "ReadBytes"},
		{"vng/primitive.go", "DictBuilder", "ReadBytes"},
		{"vng/primitive.go", "ConstBuilder", "Build"},
		{"vng/dynamic.go", "DynamicEncoder", "Write"},
		{"vng/dynamic.go", "DynamicEncoder", "Encode"},
		{"vng/dynamic.go", "DynamicEncoder", "Emit"},
		{"vng/dynamic.go", "dynamicBuilder", "Read"},
		{"vng/dynamic.go", "", "NewZedReader"},
		{"vng/dynamic.go", "vectorBuilder", "Read"},
		{"vng/record.go", "RecordEncoder", "Write"},
		{"vng/record.go", "RecordEncoder", "Metadata"},
		{"vng/record.go", "RecordEncoder", "Emit"},
		{"vng/record.go", "RecordBuilder", "Build"},
		{"vng/array.go", "ArrayEncoder", "Write"},
		{"vng/array.go", "ArrayEncoder", "Metadata"},
		{"vng/array.go", "ArrayEncoder", "Emit"},
		{"vng/array.go", "ArrayBuilder", "Build"},
		{"vng/array.go", "SetEncoder", "Metadata"},
		{"vng/map.go", "MapEncoder", "Write"},
		{"vng/map.go", "MapEncoder", "Metadata"},
		{"vng/map.go", "MapEncoder", "Emit"},
		{"vng/map.go", "MapBuilder", "Build"},
		{"vng/union.go", "UnionEncoder", "Write"},
		{"vng/union.go", "UnionEncoder", "Metadata"},
		{"vng/union.go", "UnionEncoder", "Emit"},
		{"vng/union.go", "UnionBuilder", "Build"},
		{"vng/encoder.go", "NamedEncoder", "Metadata"},
		{"vng/encoder.go", "ErrorEncoder", "Metadata"},
		{"vng/int.go", "Int64Encoder", "Write"},
		{"vng/int.go", "Int64Decoder", "Next"},
		{"runtime/vcache/nulls.go", "nulls", "fetch"},
		{"runtime/vcache/nulls.go", "nulls", "flatten"},
		{"runtime/vcache/nulls.go", "", "convolve"},
		{"runtime/vcache/loader.go", "loader", "load"},
		{"runtime/vcache/loader.go", "loader", "loadPrimitive"},
		{"runtime/vcache/loader.go", "loader", "loadVals"},
		{"runtime/vcache/loader.go", "", "empty"},
		{"runtime/vcache/loader.go", "loader", "loadOffsets"},
		{"runtime/vcache/loader.go", "loader", "loadUint32"},
		{"runtime/vcache/loader.go", "loader", "loadRecord"},
		{"runtime/vcache/loader.go", "loader", "loadUnion"},
		{"runtime/vcache/loader.go", "", "flattenNulls"},
		{"runtime/vcache/shadow.go", "", "newShadow"},
		{"runtime/vcache/project.go", "", "project"},
		{"runtime/vcache/project.go", "", "projectRecord"},
		{"runtime/vcache/project.go", "", "projectDynamic"},
		{"runtime/vcache/project.go", "", "projectUnion"},
		{"runtime/vcache/path.go", "", "insertPath"},
		{"runtime/vcache/path.go", "", "addToFork"},
		{"runtime/vam/materialize.go", "Materializer", "Pull"},
		{"vector/record.go", "Record", "Serialize"},
		{"vector/array.go", "Array", "Serialize"},
		{"vector/set.go", "Set", "Serialize"},
		{"vector/map.go", "Map", "Serialize"},
		{"vector/union.go", "Union", "Serialize"},
		{"vector/dynamic.go", "Dynamic", "Serialize"},
		{"vector/dynamic.go", "Dynamic", "TypeOf"},
		{"vector/tagmap.go", "", "NewTagMapFromLens"},
		{"vector/const.go", "Const", "Serialize"},
		{"vector/dict.go", "Dict", "Serialize"},
		{"vector/error.go", "Error", "Serialize"},
		{"vector/string.go", "String", "Serialize"},
		{"vector/bool.go", "Bool", "Value"},
	})
	if err != nil {
		return "", err
	}
	fmt.Fprintf(&b, "def pinnedSources : List (String × String) :=\n  [%s]\n", strings.Join(pins, ",\n   "))
	return b.String(), nil
}

// vxAllocClass classifies how a loadVals clause obtains the slice it indexes by slot.
func vxAllocClass(f *file, cc *ast.CaseClause) string {
	indexed := map[string]bool{} // names written as name[slot] = …
	made := map[string]bool{}    // name := make(…)
	nilDecl := map[string]bool{} // var name []T
	other := false
	ast.Inspect(cc, func(n ast.Node) bool {
		switch n := n.(type) {
		case *ast.AssignStmt:
			for i, l := range n.Lhs {
				if ix, ok := l.(*ast.IndexExpr); ok {
					if id, ok := identName(ix.X); ok {
						indexed[id] = true
					}
				}
				if id, ok := identName(l); ok && n.Tok == token.DEFINE && i < len(n.Rhs) {
					if _, ok := callTo(n.Rhs[i], "make"); ok {
						made[id] = true
					}
				}
			}
		case *ast.DeclStmt:
			if gd, ok := n.Decl.(*ast.GenDecl); ok && gd.Tok == token.VAR {
				for _, s := range gd.Specs {
					vs := s.(*ast.ValueSpec)
					if len(vs.Values) == 0 {
						for _, nm := range vs.Names {
							nilDecl[nm.Name] = true
						}
					}
				}
			}
		case *ast.CallExpr:
			if name, ok := selName(n.Fun); ok && (name == "vector.NewBoolEmpty" || name == "vector.NewConst") {
				other = true
			}
		}
		return true
	})
	if len(indexed) == 0 {
		if other {
			return "alloc"
		}
		return ""
	}
	for id := range indexed {
		if made[id] {
			continue
		}
		if nilDecl[id] {
			return "nil-slice"
		}
		return ""
	}
	return "alloc"
}

// vxReturnedVectorKind: the X of the `vector.NewX(…)` a loadVals clause returns (a Bool
// vector is built with NewBoolEmpty and returned through a variable).
func vxReturnedVectorKind(f *file, cc *ast.CaseClause) string {
	kind := ""
	ast.Inspect(cc, func(n ast.Node) bool {
		if c, ok := n.(*ast.CallExpr); ok {
			if name, ok := selName(c.Fun); ok && strings.HasPrefix(name, "vector.New") {
				kind = strings.TrimSuffix(strings.TrimPrefix(name, "vector.New"), "Empty")
			}
		}
		return true
	})
	return kind
}

func vxFallthrough(s string) string {
	switch {
	case strings.HasPrefix(s, "panic("):
		return "panic"
	case strings.HasPrefix(s, "return nil, fmt.Errorf("):
		return "error"
	}
	return "other: " + s
}
