import Zed.Model.VngSexp
import Zed.Model.VecProject
import Zed.Model.VecLoad
import Zed.Model.VecGuard
/-!
  Driver glue for C03.
  `(C03 enc (types t…) (seq (k v)…))`   → model `encTop` as a `top` s-expression
  `(C03 dec <top>)`                      → model `readRows` of a column tree (the dump of a real
                                           VNG object or a model encoding): `((type value)…)` | `error`
  `(C03 guard (types t…) (seq (k v)…))` → `1` when the object is inside the guard `seqOK` of the
                                           vector-path theorems (outside the recorded defect classes)
  `(C03 wf (types t…) (seq (k v)…))`    → `1` when every value conforms to its type, else `0`
  `(C03 vec (paths (hex…)…) <top>)`    → model vector path (loader + projection + materializer) over a
                                           column tree: `((type value)…)` | `fail` (error or panic)
  `(C03 projcrash (paths …) <top>)`    → `1` when the model predicts the nil-vector panic of a record
                                           nested below a container that was loaded only partially
  `(C03 restrict (paths (hex…)…) (types t…) (seq (k v)…))` → the specified projection of every value
-/
namespace Zed.Drv.C03
open Zed Zed.Vng

def parseInput : Sexp → Sexp → Option (List (Ty × Val))
  | .list (.atom "types" :: ts), .list (.atom "seq" :: xs) => do
    let types ← ts.mapM tyOfSexp
    seqOfSexp types xs
  | _, _ => none

def pathOf : Sexp → Option (List Bytes)
  | .list xs => xs.mapM fun | .atom h => Sexp.bytesOfHex h | _ => none
  | _ => none

def handle : List Sexp → String
  | [.atom "enc", ts, xs] =>
    match parseInput ts xs with
    | none => "bad-op"
    | some vs => toString (topSexp (encTop vs))
  | [.atom "dec", top] =>
    match topOfSexp top with
    | none => "bad-op"
    | some t =>
      match readRows t with
      | none => "error"
      | some rows => toString (rowsSexp rows)
  | [.atom "guard", ts, xs] =>
    match parseInput ts xs with
    | none => "bad-op"
    | some vs => if seqOK vs then "1" else "0"
  | [.atom "wf", ts, xs] =>
    match parseInput ts xs with
    | none => "bad-op"
    | some vs => if vs.all fun p => conforms p.1 p.2 then "1" else "0"
  | [.atom "vec", .list (.atom "paths" :: ps), top] =>
    match ps.mapM pathOf, topOfSexp top with
    | some paths, some t =>
      match readVec paths t with
      | none => "fail"
      | some rows => toString (rowsSexp rows)
    | _, _ => "bad-op"
  | [.atom "projcrash", .list (.atom "paths" :: ps), top] =>
    match ps.mapM pathOf, topOfSexp top with
    | some paths, some (.single c) => if projCrashes (mkProj paths) c then "1" else "0"
    | some paths, some (.dynamic _ cols _) => if cols.any (projCrashes (mkProj paths)) then "1" else "0"
    | _, _ => "bad-op"
  | [.atom "restrict", .list (.atom "paths" :: ps), ts, xs] =>
    match ps.mapM pathOf, parseInput ts xs with
    | some paths, some vs => toString (rowsSexp (vs.map (restrict paths)))
    | _, _ => "bad-op"
  | _ => "bad-op"

end Zed.Drv.C03
