import Zed.Model.CompareTypes
import Zed.Proofs.Order
/-!
  Order lemmas for `cmpTy` (`zed.CompareTypes`): reflexive and antisymmetric on all types; a
  total order (zero only on equal types, transitive) on types satisfying `nnn`.
-/
namespace Zed
open Zed.Ord

/-! ### bytes and name lists -/

theorem cmpBytes_refl (a : Bytes) : cmpBytes a a = .eq := by
  induction a with
  | nil => rfl
  | cons x xs ih => simp [cmpBytes, ih, Ordering.then]

theorem cmpBytes_swap (a b : Bytes) : cmpBytes b a = (cmpBytes a b).swap := by
  induction a generalizing b with
  | nil => cases b <;> rfl
  | cons x xs ih =>
    cases b with
    | nil => rfl
    | cons y ys => simp [cmpBytes, ih ys, Ordering.swap_then, compare_nat_swap x.toNat y.toNat]

theorem cmpBytes_eq_iff (a b : Bytes) : cmpBytes a b = .eq ↔ a = b := by
  induction a generalizing b with
  | nil => cases b <;> simp [cmpBytes]
  | cons x xs ih =>
    cases b with
    | nil => simp [cmpBytes]
    | cons y ys =>
      simp only [cmpBytes, Ordering.then_eq_eq, Nat.compare_eq_eq, ih ys, List.cons.injEq]
      constructor
      · rintro ⟨h1, h2⟩; exact ⟨UInt8.toNat_inj.mp h1, h2⟩
      · rintro ⟨h1, h2⟩; exact ⟨by rw [h1], h2⟩

theorem cmpBytes_STr (a b c : Bytes) : STr (cmpBytes a b) (cmpBytes b c) (cmpBytes a c) := by
  induction a generalizing b c with
  | nil =>
    cases b with
    | nil => cases c <;> simp [cmpBytes, STr]
    | cons y ys =>
      cases c with
      | nil => simp [cmpBytes, STr]
      | cons z zs => simp only [cmpBytes]; cases (compare y.toNat z.toNat).then (cmpBytes ys zs) <;> simp [STr]
  | cons x xs ih =>
    cases b with
    | nil => cases c <;> simp [cmpBytes, STr]
    | cons y ys =>
      cases c with
      | nil => simp only [cmpBytes]; cases (compare x.toNat y.toNat).then (cmpBytes xs ys) <;> simp [STr]
      | cons z zs =>
        simp only [cmpBytes]
        exact STr.then (STr_compare_nat _ _ _) (fun _ _ => ih ys zs)

theorem cmpNames_refl (a : List Name) : cmpNames a a = .eq := by
  induction a with
  | nil => rfl
  | cons x xs ih => simp [cmpNames, ih, cmpBytes_refl, Ordering.then]

theorem cmpNames_swap (a b : List Name) : cmpNames b a = (cmpNames a b).swap := by
  induction a generalizing b with
  | nil => cases b <;> rfl
  | cons x xs ih =>
    cases b with
    | nil => rfl
    | cons y ys => simp [cmpNames, ih ys, Ordering.swap_then, cmpBytes_swap x y]

theorem cmpNames_eq_iff (a b : List Name) (h : a.length = b.length) : cmpNames a b = .eq ↔ a = b := by
  induction a generalizing b with
  | nil => cases b <;> simp_all [cmpNames]
  | cons x xs ih =>
    cases b with
    | nil => simp at h
    | cons y ys =>
      simp only [List.length_cons, Nat.add_right_cancel_iff] at h
      simp [cmpNames, Ordering.then_eq_eq, cmpBytes_eq_iff, ih ys h]

theorem cmpNames_STr (a b c : List Name) (h1 : a.length = b.length) (h2 : b.length = c.length) :
    STr (cmpNames a b) (cmpNames b c) (cmpNames a c) := by
  induction a generalizing b c with
  | nil => cases b <;> cases c <;> simp_all [cmpNames, STr]
  | cons x xs ih =>
    cases b with
    | nil => simp at h1
    | cons y ys =>
      cases c with
      | nil => simp at h2
      | cons z zs =>
        simp only [List.length_cons, Nat.add_right_cancel_iff] at h1 h2
        simp only [cmpNames]
        exact STr.then (cmpBytes_STr _ _ _) (fun _ _ => ih ys zs h1 h2)

theorem cmpFieldNames_eq : (fs gs : Fields) → cmpFieldNames fs gs = cmpNames fs.names gs.names
  | .nil, .nil => rfl
  | .nil, .cons _ _ _ => rfl
  | .cons _ _ _, .nil => rfl
  | .cons n _ r, .cons m _ s => by simp [cmpFieldNames, cmpNames, Fields.names, cmpFieldNames_eq r s]

theorem Fields.names_length : (fs : Fields) → fs.names.length = fs.length
  | .nil => rfl
  | .cons _ _ r => by simp [Fields.names, Fields.length, Fields.names_length r]

/-! ### `under`, rank -/

theorem Ty.under_not_named : (t : Ty) → t.under.isNamed = false
  | .named _ x => by simpa [Ty.under] using Ty.under_not_named x
  | .prim _ | .record _ | .array _ | .set _ | .map _ _ | .union _ | .enum _ | .error _ => rfl

theorem Ty.under_under : (t : Ty) → t.under.under = t.under
  | .named _ x => by simpa [Ty.under] using Ty.under_under x
  | .prim _ | .record _ | .array _ | .set _ | .map _ _ | .union _ | .enum _ | .error _ => rfl

theorem Ty.under_of_not_named {t : Ty} (h : t.isNamed = false) : t.under = t := by
  cases t <;> simp_all [Ty.under, Ty.isNamed]

theorem cmpRank_refl (a : Ty) : cmpRank a a = .eq := by
  cases a <;> simp [cmpRank, cmpBytes_refl]


/-- the outermost name, if any -/
def Ty.rk : Ty → Option Name
  | .named n _ => some n
  | _ => none

def cmpON : Option Name → Option Name → Ordering
  | some n, some m => cmpBytes n m
  | some _, none => .gt
  | none, some _ => .lt
  | none, none => .eq

theorem cmpRank_eq (a b : Ty) : cmpRank a b = cmpON a.rk b.rk := by
  cases a <;> cases b <;> rfl

theorem cmpON_STr : (a b c : Option Name) → STr (cmpON a b) (cmpON b c) (cmpON a c)
  | some n, some m, some k => cmpBytes_STr n m k
  | some n, some m, none => by simp only [cmpON]; cases cmpBytes n m <;> simp [STr]
  | some n, none, some k => by simp [cmpON, STr]
  | some n, none, none => by simp [cmpON, STr]
  | none, some m, some k => by simp only [cmpON]; cases cmpBytes m k <;> simp [STr]
  | none, some m, none => by simp [cmpON, STr]
  | none, none, some k => by simp [cmpON, STr]
  | none, none, none => by simp [cmpON, STr]

theorem cmpON_swap : (a b : Option Name) → cmpON b a = (cmpON a b).swap
  | some n, some m => cmpBytes_swap n m
  | some _, none => rfl
  | none, some _ => rfl
  | none, none => rfl

theorem cmpRank_swap (a b : Ty) : cmpRank b a = (cmpRank a b).swap := by
  simp only [cmpRank_eq]; exact cmpON_swap _ _

theorem cmpRank_STr (a b c : Ty) : STr (cmpRank a b) (cmpRank b c) (cmpRank a c) := by
  simp only [cmpRank_eq]; exact cmpON_STr _ _ _

/-! ### `cmpS` only looks at the underlying type of its first argument -/

theorem cmpS_under : (a ub : Ty) → cmpS a ub = cmpS a.under ub
  | .named _ x, ub => by simp [cmpS, Ty.under, cmpS_under x ub]
  | .prim _, _ | .record _, _ | .array _, _ | .set _, _ | .map _ _, _ | .union _, _ | .enum _, _ | .error _, _ => rfl

theorem cmpTy_def (a b : Ty) :
    cmpTy a b = if a.under = b.under then cmpRank a b else cmpS a.under b.under := by
  unfold cmpTy cmpCombine
  rw [cmpS_under]

theorem cmpTy_refl (a : Ty) : cmpTy a a = .eq := by
  simp [cmpTy_def, cmpRank_refl]

end Zed
