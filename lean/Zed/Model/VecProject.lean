/-
  Model of vector-cache projections (C03): the path tree built by `vcache.NewProjection`
  (runtime/vcache/path.go insertPath / addToFork) and the specification `restrict` of what a
  projection of a value is (the data at the requested paths, `error("missing")` for absent
  paths) — runtime/vcache/project.go project / projectRecord.
-/
import Zed.Model.VngColumns
namespace Zed.Vng

mutual
/-- `vcache.Path`: `all` = the empty path (whole value); `fields` = a field name (one entry)
    or a `Fork` (several entries), each with the rest of its path. -/
inductive Proj where
  | all
  | fields (fs : PFields)
  deriving Repr
inductive PFields where
  | nil
  | cons (name : Bytes) (p : Proj) (rest : PFields)
  deriving Repr
end

deriving instance DecidableEq for Proj, PFields

/-- `convertFieldPath`. -/
def Proj.ofPath : List Bytes → Proj
  | [] => .all
  | a :: r => .fields (.cons a (Proj.ofPath r) .nil)

mutual
/-- `insertPath(existing, addition)` on the tree form.  Note the code's treatment of an
    exhausted existing path as "nothing yet": inserting `a.b` after `a` narrows `a`. -/
def Proj.insert : Proj → List Bytes → Proj
  | p, [] => p
  | .all, a :: r => Proj.ofPath (a :: r)
  | .fields fs, a :: r => .fields (PFields.insert fs a r)
/-- `addToFork` / the string case of `insertPath`. -/
def PFields.insert : PFields → Bytes → List Bytes → PFields
  | .nil, a, r => .cons a (Proj.ofPath r) .nil
  | .cons n p rest, a, r =>
    if n = a then .cons n (Proj.insert p r) rest else .cons n p (PFields.insert rest a r)
end

/-- `vcache.NewProjection(paths)`. -/
def mkProj (paths : List (List Bytes)) : Proj := paths.foldl Proj.insert .all

def Fields.lookup : Fields → Bytes → Option (Nat × Ty)
  | .nil, _ => none
  | .cons n t rest, a => if n = a then some (0, t) else (rest.lookup a).map fun (i, t) => (i + 1, t)

/-- `"missing"` -/
def missingBytes : Bytes := [109, 105, 115, 115, 105, 110, 103]
/-- `vector.NewMissing`: `error("missing")`, type `error(string)`. -/
def missingTy : Ty := .error (.prim 25)
def missingVal : Val := .prim missingBytes

/-- a `named` / `error` type wrapper (a projection passes through them). -/
inductive TWrap where
  | named (name : Bytes)
  | error
  deriving Repr, DecidableEq

def Ty.peel : Ty → List TWrap × Ty
  | .named n t => let (ws, c) := t.peel; (.named n :: ws, c)
  | .error t => let (ws, c) := t.peel; (.error :: ws, c)
  | t => ([], t)

def Ty.rewrap : List TWrap → Ty → Ty
  | [], t => t
  | .named n :: ws, t => .named n (Ty.rewrap ws t)
  | .error :: ws, t => .error (Ty.rewrap ws t)

mutual
/-- type of the projection of a value of type `t`. -/
def projTy : Proj → Ty → Ty
  | .all, t => t
  | .fields fs, t =>
    Ty.rewrap t.peel.1 (match t.peel.2 with
      | .record rfs => .record (projFieldTys fs rfs)
      | .prim _ => missingTy
      | .enum _ => missingTy
      | c => c)                              -- arrays, sets, maps, unions: always whole
def projFieldTys : PFields → Fields → Fields
  | .nil, _ => .nil
  | .cons a p rest, rfs =>
    .cons a (match rfs.lookup a with
      | some (_, t) => projTy p t
      | none => missingTy) (projFieldTys rest rfs)
end

mutual
/-- the data of `v : t` at the projected paths (named and error wrappers are transparent
    for bodies). -/
def projVal : Proj → Ty → Val → Val
  | .all, _, v => v
  | .fields fs, t, v =>
    match t.peel.2 with
    | .record rfs =>
      (match v with
        | .cont xs => .cont (Vals.ofList (projFieldVals fs rfs xs.toList))
        | _ => .null)
    | .prim _ => missingVal
    | .enum _ => missingVal
    | _ => v
def projFieldVals : PFields → Fields → List Val → List Val
  | .nil, _, _ => []
  | .cons a p rest, rfs, items =>
    (match rfs.lookup a with
      | some (i, t) => projVal p t (items.getD i .null)
      | none => missingVal) :: projFieldVals rest rfs items
end

/-- **restrict**: what reading only `paths` must yield for the value `(t, v)`. -/
def restrict (paths : List (List Bytes)) (p : Ty × Val) : Ty × Val :=
  (projTy (mkProj paths) p.1, projVal (mkProj paths) p.1 p.2)

end Zed.Vng
