/-
  C15 — merge and revert have exact, conflict-safe semantics.
  Property theorems only (model: Zed/Model/LakePatch.lean, LakeOps.lean — `Patch`, `Diff`,
  `Revert` exactly as coded; lemmas: Zed/Proofs/Lake*.lean).
-/
import Zed.Proofs.LakeRevert
import Zed.Proofs.LakeReplay
import Zed.Proofs.LakeCompact
namespace Zed.Props.C15
open Zed.Lake

variable {K V : Type} [DecidableEq V]

/-- **merge_conflict_untouched / failed operations are invisible.**  An operation that returns
    an error — a merge conflict, an empty difference, a missing common ancestor, an empty
    revert, an unknown commit, … — leaves the whole pool state (commit store, data objects,
    every branch pointer) exactly as it was. -/
theorem merge_conflict_untouched (cfg : Cfg K V) (s : State K V) (op : Op V) (e : Err)
    (h : apply cfg s op = .error e) : step cfg s op = s := by
  unfold step; rw [h]

/-! ### merge -/

/-- guard of `merge_exact_partial`: every object the child deleted since the common ancestor
    is still in the parent tip (decidable) -/
def NoCommonDeletes (pc : Patch K) (Sp : Snap K) : Bool := pc.delObjs.all Sp.hasObj

omit [DecidableEq V] in
/-- the commit object a successful `merge` appends is exactly `Diff(parentPatch, childPatch)`
    of the two `PatchOfPath`s from the common ancestor, committed on the parent's tip -/
theorem merge_commit (s s' : State K V) (child parent : Nat) (h : merge s child parent = .ok s') :
    ∃ ctip ptip acts, s.tip child = some ctip ∧ s.tip parent = some ptip ∧
      mergeActions s.commits ctip ptip = .ok acts ∧ s' = s.commit parent ptip acts := by
  unfold merge at h
  split at h
  · rename_i ctip ptip hc hp
    split at h
    · cases h
    · rename_i acts ha
      cases h
      exact ⟨ctip, ptip, acts, hc, hp, ha, rfl⟩
  · cases h

/-- **merge_exact_partial** (guard `NoCommonDeletes`).
    Full statement `merge_exact`: *a successful merge makes the parent contain its previous
    objects plus everything the child added since the common ancestor minus everything the
    child deleted since then, and the parent stays readable* — FALSE of the current code without
    the guard (`not_merge_result_replayable`).

    Setting: `B` is the snapshot of the common ancestor; `Ap` / `Ac` are the actions of the
    commits on the parent / child path since then, so that `Sp = play B Ap`, `Sc = play B Ac`
    are the two tip snapshots (`Store.Snapshot` is this fold) and `pp`, `pc` the two
    `PatchOfPath`s; `d = Diff(pp, pc)` is what `buildMergeObject` commits.  Then the commit
    object replays on the parent tip and the new parent snapshot holds exactly
    `(Sp \ childDeleted) ∪ childAdded`, with `childAdded = Sc \ B`, `childDeleted = B \ Sc`.
    Vectors of the parent are untouched.  Holds for every base, every pair of action
    sequences, every outcome of earlier merges (objects the parent already took over). -/
theorem merge_exact_partial (B Sp Sc : Snap K) (Ap Ac : List (Action K)) (pp pc d : Patch K)
    (hpp : (Patch.new (.snap B)).play Ap = .ok pp) (hpc : (Patch.new (.snap B)).play Ac = .ok pc)
    (hSp : play B Ap = .ok Sp) (hSc : play B Ac = .ok Sc)
    (hd : diff pp pc = .ok d) (guard : NoCommonDeletes pc Sp = true) :
    ∃ S', play Sp d.commitActions = .ok S' ∧ S'.vecs = Sp.vecs ∧
      ∀ id, S'.hasObj id =
        ((Sp.hasObj id && !(B.hasObj id && !Sc.hasObj id)) || (Sc.hasObj id && !B.hasObj id)) := by
  obtain ⟨S', h1, h2, h3⟩ := merge_play B Sp Sc Ap Ac pp pc d hpp hpc hSp hSc hd guard
  have rc := sim B Ac _ pc B Sc (Rel.init B) hpc hSc
  refine ⟨S', h1, h2, ?_⟩
  intro id
  rw [h3 id, rc.mem id]
  cases hB : B.hasObj id <;> cases hD : pc.diff.hasObj id <;> cases hC : pc.delObjs.contains id <;> simp
  all_goals first
    | (have h := rc.diffOut id hD; rw [hB] at h; exact absurd h (by decide))
    | (have h := rc.delIn id hC; rw [hB] at h; exact absurd h (by decide))

/-- **readable_after** (merge): under the guard the parent's new tip replays — this is the
    first component of `merge_exact_partial`; without the guard it does not
    (`not_merge_result_replayable`). -/
theorem readable_after_merge (B Sp Sc : Snap K) (Ap Ac : List (Action K)) (pp pc d : Patch K)
    (hpp : (Patch.new (.snap B)).play Ap = .ok pp) (hpc : (Patch.new (.snap B)).play Ac = .ok pc)
    (hSp : play B Ap = .ok Sp) (hSc : play B Ac = .ok Sc)
    (hd : diff pp pc = .ok d) (guard : NoCommonDeletes pc Sp = true) :
    (play Sp d.commitActions).toBool = true := by
  obtain ⟨S', h1, _, _⟩ := merge_exact_partial B Sp Sc Ap Ac pp pc d hpp hpc hSp hSc hd guard
  rw [h1]; rfl

/-- **merge_exact_partial, on pool states** (no hypotheses about patches or action sequences).
    If `merge child → parent` is acknowledged in a state where both tips are readable
    (`Sc`, `Sp`), `B` is the snapshot of the common ancestor the code picks, and every object of
    `B` that the child no longer has is still in the parent (`NoCommonDeletes`, the guard), then
    the parent's new tip is readable and holds exactly `Sp \ (B \ Sc) ∪ (Sc \ B)`; the
    parent's vectors are unchanged.  Derived from `merge_exact_partial` by the path-replay lemma
    (`Store.Snapshot` of a tip = snapshot of the ancestor + the actions `PatchOfPath` plays). -/
theorem merge_exact_state_partial (s s' : State K V) (child parent ctip ptip : Nat) (Sc Sp : Snap K)
    (h : merge s child parent = .ok s')
    (hc : s.tip child = some ctip) (hp : s.tip parent = some ptip)
    (hSc : snapAt s.commits ctip = .ok Sc) (hSp : snapAt s.commits ptip = .ok Sp) :
    ∃ B, snapAt s.commits (commonAncestor (pathAt s.commits ptip) (pathAt s.commits ctip)) = .ok B ∧
      ((∀ id, B.hasObj id = true → Sc.hasObj id = false → Sp.hasObj id = true) →
        ∃ S', snapAt s'.commits (s.commits.length + 1) = .ok S' ∧ S'.vecs = Sp.vecs ∧
          ∀ id, S'.hasObj id =
            ((Sp.hasObj id && !(B.hasObj id && !Sc.hasObj id)) || (Sc.hasObj id && !B.hasObj id))) := by
  unfold merge at h
  rw [hc, hp] at h
  simp only [] at h
  cases hm : mergeActions s.commits ctip ptip with
  | error e => simp [hm] at h
  | ok acts =>
    simp only [hm, Except.ok.injEq] at h
    subst h
    unfold mergeActions at hm
    split at hm
    · cases hm
    · simp only [] at hm
      split at hm
      · cases hm
      · rename_i hanc0
        have hanc := commonAncestor_mem _ _ hanc0
        obtain ⟨Bc, hBc, Ac, hplayc, hpatchc⟩ := patchOfPath_replay s.commits ctip _ hanc.2 Sc hSc
        obtain ⟨Bp, hBp, Ap, hplayp, hpatchp⟩ := patchOfPath_replay s.commits ptip _ hanc.1 Sp hSp
        rw [hBc] at hBp; cases hBp
        refine ⟨Bc, hBc, ?_⟩
        intro guard
        simp only [hBc] at hm
        rw [hpatchc, hpatchp] at hm
        cases hpc : (Patch.new (View.snap Bc)).play Ac with
        | error e => simp [hpc] at hm
        | ok pc =>
          simp only [hpc] at hm
          cases hpp : (Patch.new (View.snap Bc)).play Ap with
          | error e => simp [hpp] at hm
          | ok pp =>
            simp only [hpp] at hm
            cases hd : diff pp pc with
            | error e => simp [hd] at hm
            | ok d =>
              simp only [hd, Except.ok.injEq] at hm
              subst hm
              have rc := sim Bc Ac _ pc Bc Sc (Rel.init Bc) hpc hplayc
              have hguard : NoCommonDeletes pc Sp = true := by
                unfold NoCommonDeletes
                rw [List.all_eq_true]
                intro id hid
                have hcont : pc.delObjs.contains id = true := by simpa using hid
                have hB := rc.delIn id hcont
                have hnd : pc.diff.hasObj id = false := by
                  cases hdh : pc.diff.hasObj id with
                  | false => rfl
                  | true => rw [rc.diffOut id hdh] at hB; cases hB
                have hScid : Sc.hasObj id = false := by rw [rc.mem id, hB, hcont, hnd]; rfl
                exact guard id hB hScid
              obtain ⟨S', h1, h2, h3⟩ := merge_exact_partial Bc Sp Sc Ap Ac pp pc d hpp hpc hplayp hplayc hd hguard
              exact ⟨S', by rw [commit_snap_ s parent ptip _ Sp hSp]; exact h1, h2, h3⟩

/-! ### merge racing with other commits -/

private theorem run_append (cfg : Cfg K V) (s : State K V) (a b : List (Op V)) :
    run cfg s (a ++ b) = run cfg (run cfg s a) b := by simp [run, List.foldl_append]

/-- **merge_keeps_concurrent.**  `mergeLoop` is `Branch.mergeInto` inside the commit retry loop
    of `Branch.commit`, with `others[i]` = what other clients commit (on any branch, any
    operations) between the i-th attempt's tip lookup and its branch-pointer update.  If the
    merge is acknowledged, then for some attempt `k`: `sk` is the state after everything the
    others did before that attempt, `sstar` the state after what they did during it; the
    parent's tip is the same (`seen`) in both, the merge object was built by `buildMergeObject`
    against exactly that tip (`mergeActions sk.commits ctip seen`), and the result is `sstar`
    with that object committed on top of `seen`.  Hence every commit of every other client —
    before or during the merge, on the parent, the child or elsewhere — is still there, the
    parent's previous tip is the merge commit's parent, and `merge_exact_partial` applies with
    the LATEST parent tip: nothing committed after the merge started is lost or overwritten. -/
theorem merge_keeps_concurrent (cfg : Cfg K V) (fuel : Nat) (s : State K V) (ctip parent : Nat)
    (others : List (List (Op V))) (sf : State K V)
    (h : mergeLoop cfg fuel s ctip parent others = .ok sf) :
    ∃ (k : Nat) (seen : Nat) (acts : List (Action K)),
      let sk := run cfg s (others.take k).flatten
      let sstar := run cfg sk (others.getD k [])
      sk.tip parent = some seen ∧ sstar.tip parent = some seen ∧
      mergeActions sk.commits ctip seen = .ok acts ∧ sf = sstar.commit parent seen acts ∧
      sf.commits = sstar.commits ++ [{ parent := seen, acts := acts }] ∧ sf.files = sstar.files := by
  induction fuel generalizing s others with
  | zero => simp [mergeLoop] at h
  | succ n ih =>
    unfold mergeLoop at h
    cases ht : s.tip parent with
    | none => simp [ht] at h
    | some seen =>
      simp only [ht] at h
      cases hm : mergeActions s.commits ctip seen with
      | error e => simp [hm] at h
      | ok acts =>
        simp only [hm] at h
        split at h
        · rename_i hc
          simp only [Except.ok.injEq] at h
          refine ⟨0, seen, acts, ?_⟩
          simp only [List.take_zero, List.flatten_nil, run, List.foldl_nil]
          have e0 : others.getD 0 [] = others.headD [] := by cases others <;> rfl
          rw [e0]
          refine ⟨ht, by simpa [run] using hc, hm, h.symm, by rw [← h]; rfl, by rw [← h]; rfl⟩
        · obtain ⟨k, seen', acts', h1, h2, h3, h4, h5, h6⟩ := ih (run cfg s (others.headD [])) others.tail h
          refine ⟨k + 1, seen', acts', ?_⟩
          cases others with
          | nil =>
            simp only [List.headD_nil, List.tail_nil, List.take_nil, List.flatten_nil, List.getD_nil] at *
            simp only [run, List.foldl_nil] at *
            exact ⟨h1, h2, h3, h4, h5, h6⟩
          | cons o os =>
            simp only [List.headD_cons, List.tail_cons, List.take_succ_cons, List.flatten_cons,
              List.getD_cons_succ] at *
            rw [run_append]
            exact ⟨h1, h2, h3, h4, h5, h6⟩

/-- without interference the loop is the plain merge -/
example (cfg : Cfg K V) (s : State K V) (ctip ptip child parent : Nat) (hc : s.tip child = some ctip)
    (hp : s.tip parent = some ptip) :
    mergeLoop cfg 10 s ctip parent [] = merge s child parent := by
  simp only [mergeLoop, hp, merge, hc, run, List.headD_nil, List.foldl_nil, beq_self_eq_true, if_true]

/-! ### revert -/

/-- **revert_exact.**  Let `B` be the snapshot of commit `c`'s parent, `A` the actions of `c`
    (so `pc = PatchOfCommit(c)`, `Sc = play B A` = `c`'s snapshot) and `T` the snapshot of the
    branch tip, whatever happened since.  If `Patch.Revert` returns a commit object, it replays
    on the tip (the branch stays readable) and the new snapshot is
    `(T \ added(c)) ∪ deleted(c)`: what `c` added is removed if still present, what it deleted
    is restored if still absent, everything else is untouched. -/
theorem revert_exact (B Sc T : Snap K) (A : List (Action K)) (pc : Patch K) (acts : List (Action K))
    (hpc : (Patch.new (.snap B)).play A = .ok pc) (hSc : play B A = .ok Sc)
    (hr : pc.revert T = .ok acts) :
    ∃ T', play T acts = .ok T' ∧ T'.vecs = T.vecs ∧
      ∀ id, T'.hasObj id =
        ((T.hasObj id && !(Sc.hasObj id && !B.hasObj id)) || (B.hasObj id && !Sc.hasObj id)) := by
  obtain ⟨T', h1, h2, h3⟩ := revert_play B Sc T A pc acts hpc hSc hr
  have rc := sim B A _ pc B Sc (Rel.init B) hpc hSc
  refine ⟨T', h1, h2, ?_⟩
  intro id
  rw [h3 id, rc.mem id]
  cases hB : B.hasObj id <;> cases hD : pc.diff.hasObj id <;> cases hC : pc.delObjs.contains id <;> simp
  all_goals first
    | (have h := rc.diffOut id hD; rw [hB] at h; exact absurd h (by decide))
    | (have h := rc.delIn id hC; rw [hB] at h; exact absurd h (by decide))

/-- **revert_revert_id.**  Reverting a commit at the tip it created restores the previous
    object set exactly; in particular reverting a revert restores the contents the branch had
    before the revert.  (`T`: snapshot before the commit, `acts`: its actions, `T'`: the tip.) -/
theorem revert_revert_id (T T' : Snap K) (acts acts2 : List (Action K)) (pr : Patch K)
    (hpr : (Patch.new (.snap T)).play acts = .ok pr) (hT' : play T acts = .ok T')
    (h2 : pr.revert T' = .ok acts2) :
    ∃ T'', play T' acts2 = .ok T'' ∧ ∀ id, T''.hasObj id = T.hasObj id := by
  obtain ⟨T'', h1, _, h3⟩ := revert_exact T T' T' acts pr acts2 hpr hT' h2
  refine ⟨T'', h1, ?_⟩
  intro id
  rw [h3 id]
  cases T'.hasObj id <;> cases T.hasObj id <;> rfl

/-- **readable_after** (revert): whenever `Revert` produces a commit object it replays on the tip. -/
theorem readable_after_revert (B Sc T : Snap K) (A : List (Action K)) (pc : Patch K) (acts : List (Action K))
    (hpc : (Patch.new (.snap B)).play A = .ok pc) (hSc : play B A = .ok Sc)
    (hr : pc.revert T = .ok acts) : (play T acts).toBool = true := by
  obtain ⟨T', h1, _, _⟩ := revert_exact B Sc T A pc acts hpc hSc hr
  rw [h1]; rfl

/-- **revert_exact, on pool states.**  If `revert(b, c)` is acknowledged, `c`'s snapshot `Sc` and
    its parent's snapshot `B` exist and the tip of `b` is readable (`T`), then the new tip is
    readable and holds `(T \ (Sc \ B)) ∪ (B \ Sc)`; vectors unchanged. -/
theorem revert_exact_state (s s' : State K V) (b c t : Nat) (co : Commit K) (Sc T : Snap K)
    (h : revert s b c = .ok s') (ht : s.tip b = some t) (hco : getCommit s.commits c = some co)
    (hSc : snapAt s.commits c = .ok Sc) (hT : snapAt s.commits t = .ok T) :
    ∃ B, snapAt s.commits co.parent = .ok B ∧
      ∃ T', snapAt s'.commits (s.commits.length + 1) = .ok T' ∧ T'.vecs = T.vecs ∧
        ∀ id, T'.hasObj id =
          ((T.hasObj id && !(Sc.hasObj id && !B.hasObj id)) || (B.hasObj id && !Sc.hasObj id)) := by
  unfold revert at h
  rw [ht] at h
  simp only [] at h
  cases hp : patchOfCommit s.commits c with
  | error e => simp [hp] at h
  | ok patch =>
    simp only [hp, hT] at h
    cases hr : patch.revert T with
    | error e => simp [hr] at h
    | ok acts =>
      simp only [hr, Except.ok.injEq] at h
      subst h
      unfold patchOfCommit at hp
      simp only [hco] at hp
      cases hB : snapAt s.commits co.parent with
      | error e => simp [hB] at hp
      | ok B =>
        simp only [hB] at hp
        refine ⟨B, rfl, ?_⟩
        have hplay : play B co.acts = .ok Sc := by
          rw [snapAt_unfold s.commits c co hco] at hSc
          split at hSc
          · simpa [hB] using hSc
          · cases hSc
        obtain ⟨T', h1, h2, h3⟩ := revert_exact B Sc T co.acts patch acts hp hplay hr
        exact ⟨T', by rw [commit_snap_ s b t _ T hT]; exact h1, h2, h3⟩

/-! ### non-vacuity of the hypotheses (a concrete base, two divergent sides) -/

private def exB : Snap Nat := { objs := [{ id := 1, min := 1, max := 1, count := 1 }, { id := 2, min := 2, max := 2, count := 1 }] }
private def exAc : List (Action Nat) := [.del 1, .add { id := 3, min := 3, max := 3, count := 1 }]
private def exAp : List (Action Nat) := [.add { id := 4, min := 4, max := 4, count := 1 }]

example : ∃ pp pc d Sp Sc, (Patch.new (.snap exB)).play exAp = .ok pp ∧ (Patch.new (.snap exB)).play exAc = .ok pc ∧
    play exB exAp = .ok Sp ∧ play exB exAc = .ok Sc ∧ diff pp pc = .ok d ∧ NoCommonDeletes pc Sp = true :=
  ⟨_, _, _, _, _, rfl, rfl, rfl, rfl, rfl, rfl⟩

example : ∃ pc Sc acts, (Patch.new (.snap exB)).play exAc = .ok pc ∧ play exB exAc = .ok Sc ∧
    pc.revert Sc = .ok acts := ⟨_, _, _, rfl, rfl, rfl⟩

/-! ### the 4-step witness: both sides delete the same object -/

/-- two loads on main (commits 1, 2), branch `1` created at commit 2, `delete [1]` on the
    branch (commit 3) and on main (commit 4) -/
def commonDelete : State Nat Nat :=
  { commits := [{ parent := 0, acts := [.add { id := 1, min := 1, max := 1, count := 1 }] },
                { parent := 1, acts := [.add { id := 2, min := 2, max := 2, count := 1 }] },
                { parent := 2, acts := [.del 1] },
                { parent := 2, acts := [.del 1] }],
    branches := [(0, 4), (1, 3)], files := [(1, [1]), (2, [2])], nextObj := 3 }

/-- both branches are readable before the merge -/
example : (snapAt commonDelete.commits 4).toBool = true ∧ (snapAt commonDelete.commits 3).toBool = true :=
  ⟨rfl, rfl⟩

/-- **not_merge_result_replayable.**  The full statement `merge_result_replayable` ("the commit
    object a successful merge emits replays on the parent tip") is FALSE of the current code:
    in `commonDelete` the merge of branch 1 into main is acknowledged, main's new tip is commit
    5, and commit 5 cannot be replayed (`delete of a non-existent data object`) — main is
    unreadable from then on.  Cause: `Patch.Lookup` consults the base snapshot without
    subtracting `deletedObjects`, so `Diff` finds the object "present" in the parent and emits a
    second `Delete`.  Replayed on the real code by the harness (witness:common-delete). -/
theorem not_merge_result_replayable :
    ∃ s', merge commonDelete 1 0 = .ok s' ∧ s'.tip 0 = some 5 ∧
      snapAt s'.commits 5 = .error .noObject := ⟨_, rfl, rfl, rfl⟩

/-- the same child merged twice: the first merge is fine, the second one re-emits the child's
    delete and leaves main unreadable (witness:repeated-merge). -/
def repeatedMerge : State Nat Nat :=
  { commits := [{ parent := 0, acts := [.add { id := 1, min := 1, max := 1, count := 1 }] },
                { parent := 1, acts := [.add { id := 2, min := 2, max := 2, count := 1 }] },
                { parent := 2, acts := [.del 1] }],
    branches := [(0, 2), (1, 3)], files := [(1, [1]), (2, [2])], nextObj := 3 }

theorem not_repeated_merge_replayable :
    ∃ s1 s2 snap, merge repeatedMerge 1 0 = .ok s1 ∧ snapAt s1.commits 4 = .ok snap ∧
      snap.ids = [2] ∧ merge s1 1 0 = .ok s2 ∧ s2.tip 0 = some 5 ∧
      snapAt s2.commits 5 = .error .noObject := ⟨_, _, _, rfl, rfl, rfl, rfl, rfl, rfl⟩

/-! ### the child deletes an object the parent took over in an earlier merge -/

/-- main: c1 adds o1; branch 1 created at c1; child c2 adds X (= 2); first merge: c3 on main adds
    X; child c4 deletes X, c5 adds Y (= 3) -/
def mergedDelete : State Nat Nat :=
  { commits := [{ parent := 0, acts := [.add { id := 1, min := 1, max := 1, count := 1 }] },
                { parent := 1, acts := [.add { id := 2, min := 2, max := 2, count := 1 }] },
                { parent := 1, acts := [.add { id := 2, min := 2, max := 2, count := 1 }] },
                { parent := 2, acts := [.del 2] },
                { parent := 4, acts := [.add { id := 3, min := 3, max := 3, count := 1 }] }],
    branches := [(0, 3), (1, 5)], files := [(1, [1]), (2, [2]), (3, [3])], nextObj := 4 }

/-- **not_merge_removes_child_deleted.**  Read literally ("minus everything the child deleted
    since the common ancestor"), a merge must remove X from main: the child deleted it after the
    ancestor (commit 1).  In the code the child's add and delete of X cancel inside its patch and
    the common ancestor stays commit 1 after the first merge, so the second merge only adds Y:
    main ends with {o1, X, Y} while the child holds {o1, Y}.  (`merge_exact_partial` states the
    NET reading — childAdded = Sc \ B, childDeleted = B \ Sc — which the code does satisfy.)
    Replayed on the real code by the harness (witness:delete-of-merged-object). -/
theorem not_merge_removes_child_deleted :
    ∃ s' main child, merge mergedDelete 1 0 = .ok s' ∧ snapAt s'.commits 6 = .ok main ∧
      main.ids = [1, 2, 3] ∧ snapAt mergedDelete.commits 5 = .ok child ∧ child.ids = [1, 3] :=
  ⟨_, _, _, rfl, rfl, rfl, rfl, rfl⟩

/-- non-vacuity of `merge_exact_state_partial` / `revert_exact_state`: in `repeatedMerge` the first
    merge satisfies all hypotheses, incl. the guard (the only base object the child lacks, 1, is
    still on main); reverting commit 2 on main satisfies those of the revert theorem -/
example : ∃ s' Sc Sp B, merge repeatedMerge 1 0 = .ok s' ∧ repeatedMerge.tip 1 = some 3 ∧
    repeatedMerge.tip 0 = some 2 ∧ snapAt repeatedMerge.commits 3 = .ok Sc ∧
    snapAt repeatedMerge.commits 2 = .ok Sp ∧
    snapAt repeatedMerge.commits (commonAncestor (pathAt repeatedMerge.commits 2) (pathAt repeatedMerge.commits 3)) = .ok B ∧
    B.ids = [1, 2] ∧ Sc.ids = [2] ∧ Sp.ids = [1, 2] := ⟨_, _, _, _, rfl, rfl, rfl, rfl, rfl, rfl, rfl, rfl, rfl⟩
example : ∃ s' co Sc T, revert repeatedMerge 0 2 = .ok s' ∧ getCommit repeatedMerge.commits 2 = some co ∧
    snapAt repeatedMerge.commits 2 = .ok Sc ∧ snapAt repeatedMerge.commits 2 = .ok T :=
  ⟨_, _, _, _, rfl, rfl, rfl, rfl⟩

end Zed.Props.C15
