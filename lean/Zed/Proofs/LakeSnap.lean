/-
  Elementary facts about `Snap.addObj / delObj` and about playing lists of deletes / adds.
  Helper lemmas for C14 / C15.
-/
import Zed.Proofs.LakeStable
namespace Zed.Lake
variable {K : Type}

theorem hasObj_append (s : Snap K) (os : List (Obj K)) (id : Nat) :
    ({ s with objs := s.objs ++ os } : Snap K).hasObj id = (s.hasObj id || os.any (·.id == id)) := by
  simp [Snap.hasObj, List.any_append]

theorem addObj_ok (s s' : Snap K) (o : Obj K) (h : s.addObj o = .ok s') :
    s.hasObj o.id = false ∧ s' = { s with objs := s.objs ++ [o] } := by
  unfold Snap.addObj at h
  split at h
  · cases h
  · rename_i hn
    cases h
    exact ⟨by simpa using hn, rfl⟩

theorem addObj_of (s : Snap K) (o : Obj K) (h : s.hasObj o.id = false) :
    s.addObj o = .ok { s with objs := s.objs ++ [o] } := by
  unfold Snap.addObj; simp [h]

theorem hasObj_addObj (s s' : Snap K) (o : Obj K) (h : s.addObj o = .ok s') (id : Nat) :
    s'.hasObj id = (s.hasObj id || o.id == id) := by
  rw [(addObj_ok s s' o h).2, hasObj_append]; simp

theorem delObj_ok (s s' : Snap K) (x : Nat) (h : s.delObj x = .ok s') :
    s.hasObj x = true ∧ s' = { s with objs := s.objs.filter (·.id != x) } := by
  unfold Snap.delObj at h
  split at h
  · rename_i hy; cases h; exact ⟨hy, rfl⟩
  · cases h

theorem delObj_of (s : Snap K) (x : Nat) (h : s.hasObj x = true) :
    s.delObj x = .ok { s with objs := s.objs.filter (·.id != x) } := by
  unfold Snap.delObj; simp [h]

theorem hasObj_filter (s : Snap K) (x id : Nat) :
    ({ s with objs := s.objs.filter (·.id != x) } : Snap K).hasObj id = (s.hasObj id && x != id) := by
  simp only [Snap.hasObj, List.any_filter]
  induction s.objs with
  | nil => simp
  | cons o os ih =>
    simp only [List.any_cons, ih]
    by_cases h1 : o.id = id
    · by_cases h2 : x = id
      · subst h1; subst h2; simp
      · have e1 : (id != x) = true := by simpa using fun h => h2 h.symm
        have e2 : (x != id) = true := by simpa using h2
        simp [h1, e1, e2]
    · have : (o.id == id) = false := by simpa using h1
      simp [this]

theorem hasObj_delObj (s s' : Snap K) (x : Nat) (h : s.delObj x = .ok s') (id : Nat) :
    s'.hasObj id = (s.hasObj id && x != id) := by
  rw [(delObj_ok s s' x h).2, hasObj_filter]

theorem play_append (s : Snap K) (as bs : List (Action K)) :
    play s (as ++ bs) = match play s as with
      | .ok s' => play s' bs
      | .error e => .error e := by
  induction as generalizing s with
  | nil => simp [play]
  | cons a as ih =>
    simp only [List.cons_append, play]
    cases playAction s a with
    | error e => rfl
    | ok s1 => exact ih s1

/-- playing `Delete` for distinct ids that are all present removes exactly them -/
theorem play_dels (s : Snap K) (ids : List Nat) (hn : ids.Nodup) (hin : ∀ id ∈ ids, s.hasObj id = true) :
    ∃ s', play s (ids.map .del) = .ok s' ∧ s'.vecs = s.vecs ∧
      ∀ id, s'.hasObj id = (s.hasObj id && !ids.contains id) := by
  induction ids generalizing s with
  | nil => exact ⟨s, rfl, rfl, by simp⟩
  | cons x xs ih =>
    have hx := hin x (by simp)
    simp only [List.map_cons, play, playAction, delObj_of s x hx]
    have hn' := List.nodup_cons.mp hn
    obtain ⟨s', h1, h2, h3⟩ := ih { s with objs := s.objs.filter (·.id != x) } hn'.2 (by
      intro id hid
      rw [hasObj_filter, hin id (by simp [hid])]
      have : x ≠ id := fun h => hn'.1 (h ▸ hid)
      simpa using this)
    refine ⟨s', h1, h2, ?_⟩
    intro id
    rw [h3 id, hasObj_filter]
    by_cases hxi : x = id
    · subst hxi; simp
    · have e1 : (x != id) = true := by simpa using hxi
      have e2 : (id == x) = false := by simpa using fun h => hxi h.symm
      rw [e1, List.contains_cons, e2]; simp

/-- playing `Add` for objects with distinct ids that are all absent appends them -/
theorem play_adds (s : Snap K) (os : List (Obj K)) (hn : (os.map (·.id)).Nodup)
    (hout : ∀ o ∈ os, s.hasObj o.id = false) :
    play s (os.map .add) = .ok { s with objs := s.objs ++ os } := by
  induction os generalizing s with
  | nil => simp [play]
  | cons o os ih =>
    simp only [List.map_cons, play, playAction, addObj_of s o (hout o (by simp))]
    have hn' := List.nodup_cons.mp hn
    rw [ih { s with objs := s.objs ++ [o] } hn'.2 (by
      intro o' ho'
      rw [hasObj_append, hout o' (by simp [ho'])]
      have : o.id ≠ o'.id := fun h => hn'.1 (by
        show o.id ∈ List.map (fun x => x.id) os
        rw [h]; exact List.mem_map_of_mem (f := fun x : Obj K => x.id) ho')
      simpa using this)]
    simp

end Zed.Lake

namespace Zed.Lake
variable {K : Type}

/-- the object list after playing deletes: the remaining objects in their original order -/
theorem play_dels_objs (s s' : Snap K) (ids : List Nat) (h : play s (ids.map .del) = .ok s') :
    s'.objs = s.objs.filter (fun o => !ids.contains o.id) ∧ s'.vecs = s.vecs := by
  induction ids generalizing s with
  | nil =>
    simp only [List.map_nil, play, Except.ok.injEq] at h
    subst h
    exact ⟨(List.filter_eq_self.mpr (by intros; rfl)).symm, rfl⟩
  | cons x xs ih =>
    simp only [List.map_cons, play, playAction] at h
    cases hd : s.delObj x with
    | error e => simp [hd] at h
    | ok s1 =>
      simp only [hd] at h
      obtain ⟨h1, h2⟩ := ih s1 h
      have hs1 := (delObj_ok s s1 x hd).2
      rw [h1, h2, hs1]
      refine ⟨?_, rfl⟩
      simp only [List.filter_filter]
      congr 1
      funext o
      simp only [List.contains_cons]
      cases hx : (o.id == x) <;> simp [hx, bne]

end Zed.Lake

/-! ### `uniqueIDs` -/
namespace Zed.Lake

theorem mem_uniqueIds (l : List Nat) (a : Nat) : a ∈ uniqueIds l ↔ a ∈ l := by
  induction l with
  | nil => simp [uniqueIds]
  | cons x xs ih =>
    simp only [uniqueIds, List.mem_cons, List.mem_filter, ih]
    constructor
    · rintro (h | ⟨h, _⟩)
      · exact Or.inl h
      · exact Or.inr h
    · rintro (h | h)
      · exact Or.inl h
      · by_cases hax : a = x
        · exact Or.inl hax
        · exact Or.inr ⟨h, by simpa using hax⟩

theorem nodup_uniqueIds (l : List Nat) : (uniqueIds l).Nodup := by
  induction l with
  | nil => simp [uniqueIds]
  | cons x xs ih =>
    simp only [uniqueIds, List.nodup_cons, List.mem_filter]
    refine ⟨?_, ih.filter _⟩
    rintro ⟨_, h⟩
    simp at h

theorem contains_uniqueIds (l : List Nat) (a : Nat) : (uniqueIds l).contains a = l.contains a := by
  cases h : l.contains a with
  | true =>
    have : a ∈ l := by simpa using h
    simpa using (mem_uniqueIds l a).mpr this
  | false =>
    cases h2 : (uniqueIds l).contains a with
    | false => rfl
    | true =>
      have : a ∈ uniqueIds l := by simpa using h2
      have := (mem_uniqueIds l a).mp this
      have : l.contains a = true := by simpa using this
      rw [h] at this; cases this
end Zed.Lake
