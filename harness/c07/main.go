package main

// C07 — the optimizer preserves program meaning.
//
// Sub-checks:
//   struct  (T2, correspondence)  programs (grammar + the repo's ztest/valid.zed corpus) compiled
//                                 by the real compiler; DAG dumped before and after Job.Optimize
//                                 (and Parallelize for pool scans); the Lean model's `optimize`
//                                 applied to the "before" DAG must give the "after" DAG
//   behav   (S, oracle)           plan as analyzed (NewJob+Build) vs optimized plan on generated
//                                 stream inputs, without and with a declared sort key
//   corpus  (S, oracle)           the same for the repo's own programs on their own inputs
//   lake    (S, oracle)           the same for pool scans, optimized plan at parallelism 1..4
//   join    (S, oracle)           two file readers feeding a join of every style, each side
//                                 independently pre-sorted (asc/desc) or not: sort-key propagation
//                                 into LeftDir/RightDir
//   known   (S, oracle)           the witnesses of the recorded defects, replayed on the real code

import (
	"encoding/json"
	"fmt"
	"os"
	"sort"
	"strings"
	"time"

	"github.com/brimdata/super/compiler/ast/dag"
	"github.com/brimdata/super/order"
	. "verifharness/hlib"
)

func main() { Main("C07", runC07) }

type c07Case struct {
	Check    string   `json:"check"`
	Prog     OptProg  `json:"prog"`
	Input    []string `json:"input"`
	SortKey  string   `json:"sortkey,omitempty"`  // declared on the default scan, e.g. "k:asc"
	PoolKey  string   `json:"poolkey,omitempty"`  // lake: pool key, e.g. "k:desc"
	Parallel int      `json:"parallel,omitempty"` // lake: parallelism of the optimized plan
	Loads    int      `json:"loads,omitempty"`    // lake: number of load operations (objects)
	Strict   bool     `json:"strict,omitempty"`   // treat float sums as order dependent
	// Force overrides the order analysis ("bag"): used by recorded witnesses whose input makes the
	// multiset schedule independent although the analysis cannot see it.
	Force string `json:"force,omitempty"`
}

func parseSortKey(s string) *order.SortKey {
	if s == "" {
		return nil
	}
	ks, err := order.ParseSortKeys(s)
	if err != nil || len(ks) == 0 {
		return nil
	}
	return &ks[0]
}

// ---- running a case --------------------------------------------------------------------

type c07Outcome struct {
	Un, Op PlanResult
	State  ordState
	Diff   string
}

func (c *c07Case) run(l *TLake) c07Outcome {
	t0 := time.Now()
	defer func() {
		if d := time.Since(t0); d > 5*time.Second && os.Getenv("C07_SLOW") != "" {
			fmt.Fprintf(os.Stderr, "SLOW %v: %s (%d values, key %q)\n", d, c.Prog.Text(), len(c.Input), c.SortKey)
		}
	}()
	if os.Getenv("C07_TRACE") != "" {
		fmt.Fprintf(os.Stderr, "TRACE %s | %s | %d\n", c.Check, c.Prog.Text(), len(c.Input))
	}
	text := strings.Join(c.Input, "\n")
	var un, op PlanResult
	q := c.Prog.Text()
	cfgUn := PlanCfg{Query: q, SortKey: parseSortKey(c.SortKey), Readers: ZSONReaders(text), Timeout: c07ShortTimeout}
	if c.Check == "lake" {
		cfgUn = PlanCfg{Query: q, Lake: l, Timeout: c07ShortTimeout}
	}
	cfgOp := cfgUn
	cfgOp.Optimize, cfgOp.Parallel = true, c.Parallel
	un, op = RunPlan(cfgUn), RunPlan(cfgOp)
	// The runtime can deadlock on nested fork/merge shapes in either plan; a deadlock in both is
	// an agreement.  A one-sided timeout is re-run with a long timeout before it counts.
	if isTimeout(un) != isTimeout(op) {
		cfgUn.Timeout, cfgOp.Timeout = c07LongTimeout, c07LongTimeout
		if isTimeout(un) {
			un = RunPlan(cfgUn)
		} else {
			op = RunPlan(cfgOp)
		}
	}
	o := c07Outcome{Un: un, Op: op}
	o.State = c.orderState(l)
	o.Diff = compareRuns(o.State, un, op)
	return o
}

const (
	c07ShortTimeout = 6 * time.Second
	c07LongTimeout  = 30 * time.Second
)

func isTimeout(r PlanResult) bool {
	return strings.Contains(r.Err, "context deadline exceeded") || strings.Contains(r.Err, "context canceled")
}

// orderState analyses the plan as analyzed.
func (c *c07Case) orderState(l *TLake) ordState {
	src := l
	if c.Check != "lake" {
		src = nil
	}
	seq, err := CompileDAG(c.Prog.Text(), src)
	if err != nil {
		return ordState{Kind: ordBag}
	}
	strictFloat = c.Strict
	st := ordState{Kind: ordSeq}
	if c.Check == "lake" {
		st = ordState{Kind: ordSorted, Spec: SortSpec{Scan: true}}
		if k := parseSortKey(c.PoolKey); k != nil {
			st.Spec.Keys = []SortSpecKey{{Path: k.Key, Desc: k.Order == order.Desc}}
		}
	}
	r := ordSeqOf(seq, st)
	if c.Force == "bag" {
		r = ordState{Kind: ordBag}
	}
	return r
}

var strictFloat bool

func compareRuns(st ordState, un, op PlanResult) string {
	if un.Panicked || op.Panicked {
		if un.Panicked && op.Panicked {
			return ""
		}
		return fmt.Sprintf("panic: unoptimized=%v optimized=%v: %s%s", un.Panicked, op.Panicked, firstLine(un.Err), firstLine(op.Err))
	}
	if un.Failed() || op.Failed() {
		if un.Failed() && op.Failed() {
			return ""
		}
		return fmt.Sprintf("error mismatch: unoptimized=%q (%s) optimized=%q (%s)", firstLine(un.Err), un.ErrStage, firstLine(op.Err), op.ErrStage)
	}
	switch st.Kind {
	case ordSeq:
		if !SameSeq(un.Out, op.Out) {
			return fmt.Sprintf("sequences differ: unoptimized %s optimized %s", clip(un.Out), clip(op.Out))
		}
	case ordSorted, ordBag:
		if !SameMultiset(un.Out, op.Out) {
			return fmt.Sprintf("multisets differ: only unoptimized %v, only optimized %v (of %d / %d values)",
				MsDiff(un.Out, op.Out, 3), MsDiff(op.Out, un.Out, 3), len(un.Out), len(op.Out))
		}
		if st.Kind == ordSorted {
			if i, err := FirstUnsorted(op.Out, st.Spec); err == nil && i >= 0 {
				if j, _ := FirstUnsorted(un.Out, st.Spec); j < 0 {
					return fmt.Sprintf("optimized output is not in the order the program defines (%s): … %s, %s …; unoptimized output is",
						specText(st.Spec), op.Out[i], op.Out[i+1])
				}
			}
		}
	case ordNondetLen:
		if len(un.Out) != len(op.Out) {
			return fmt.Sprintf("output sizes differ: unoptimized %d optimized %d values", len(un.Out), len(op.Out))
		}
	}
	return ""
}

func specText(s SortSpec) string {
	b, _ := json.Marshal(s)
	return string(b)
}

func firstLine(s string) string {
	if i := strings.IndexByte(s, '\n'); i >= 0 {
		s = s[:i]
	}
	if len(s) > 200 {
		s = s[:200]
	}
	return s
}

func clip(xs []string) string {
	if len(xs) > 6 {
		return fmt.Sprintf("%v… (%d values)", xs[:6], len(xs))
	}
	return fmt.Sprint(xs)
}

// ---- shrinking and classification --------------------------------------------------------

func (c *c07Case) shrink(l *TLake, fails func(*c07Case) bool) *c07Case {
	cur := *c
	// stages
	for changed := true; changed; {
		changed = false
		for i := range cur.Prog.Stages {
			if len(cur.Prog.Stages) == 1 {
				break
			}
			t := cur
			t.Prog.Stages = append(append([]string{}, cur.Prog.Stages[:i]...), cur.Prog.Stages[i+1:]...)
			if fails(&t) {
				cur = t
				changed = true
				break
			}
		}
	}
	if c.Check == "lake" {
		return &cur
	}
	// input values: halves, then single values (bounded)
	budget := 60
	for n := len(cur.Input) / 2; n >= 1 && budget > 0; {
		removed := false
		for i := 0; i+n <= len(cur.Input) && budget > 0; i += n {
			t := cur
			t.Input = append(append([]string{}, cur.Input[:i]...), cur.Input[i+n:]...)
			budget--
			if fails(&t) {
				cur = t
				removed = true
				break
			}
		}
		if !removed {
			n /= 2
		}
	}
	return &cur
}

// parSortFlags looks for `<parallel> [merge|combine] sort` with a flagged sort, the shape
// liftIntoParPaths rewrites into per-leg sorts plus a merge.
func findLifted(seq dag.Seq, pred func(next dag.Op) string) string {
	for i, op := range seq {
		var paths []dag.Seq
		switch op := op.(type) {
		case *dag.Fork:
			paths = op.Paths
		case *dag.Scatter:
			paths = op.Paths
		case *dag.Scope:
			if r := findLifted(op.Body, pred); r != "" {
				return r
			}
		case *dag.Over:
			if r := findLifted(op.Body, pred); r != "" {
				return r
			}
		}
		for _, p := range paths {
			if r := findLifted(p, pred); r != "" {
				return r
			}
		}
		if paths != nil {
			j := i + 1
			if j < len(seq) {
				switch seq[j].(type) {
				case *dag.Merge, *dag.Combine:
					j++
				}
			}
			if j < len(seq) {
				if r := pred(seq[j]); r != "" {
					return r
				}
			}
		}
	}
	return ""
}

// liftedSortFlag looks in the optimized plan for parallel legs ending in a sort whose flags the
// merge that follows does not honour (`-r`, `-nulls first`, a descending key): the shape
// liftIntoParPaths produces from `<parallel> … | sort`.
func liftedSortFlag(seq dag.Seq) string {
	for i, op := range seq {
		var paths []dag.Seq
		switch op := op.(type) {
		case *dag.Fork:
			paths = op.Paths
		case *dag.Scatter:
			paths = op.Paths
		case *dag.Scope:
			if r := liftedSortFlag(op.Body); r != "" {
				return r
			}
		case *dag.Over:
			if r := liftedSortFlag(op.Body); r != "" {
				return r
			}
		}
		for _, p := range paths {
			if r := liftedSortFlag(p); r != "" {
				return r
			}
		}
		if len(paths) == 0 || i+1 >= len(seq) {
			continue
		}
		if _, ok := seq[i+1].(*dag.Merge); !ok {
			continue
		}
		for _, p := range paths {
			if len(p) == 0 {
				continue
			}
			s, ok := p[len(p)-1].(*dag.Sort)
			if !ok || len(s.Args) != 1 {
				continue
			}
			switch {
			case s.Reverse:
				return "C07:lift:sort-reverse"
			case s.NullsFirst:
				return "C07:lift:sort-nullsfirst"
			case s.Args[0].Order == order.Desc:
				return "C07:lift:sort-desc"
			}
		}
	}
	return ""
}

// sortedSummarizeOnCall: a summarize told its input is sorted (InputSortDir) on a key computed
// by a function call (the orderPreservingCall list: floor, ceil, round, bucket, every).
func sortedSummarizeOnCall(seq dag.Seq) bool {
	for _, op := range seq {
		switch op := op.(type) {
		case *dag.Summarize:
			if op.InputSortDir != 0 {
				for _, k := range op.Keys {
					if _, ok := k.RHS.(*dag.Call); ok {
						return true
					}
				}
			}
		case *dag.Fork:
			for _, p := range op.Paths {
				if sortedSummarizeOnCall(p) {
					return true
				}
			}
		case *dag.Scatter:
			for _, p := range op.Paths {
				if sortedSummarizeOnCall(p) {
					return true
				}
			}
		case *dag.Scope:
			if sortedSummarizeOnCall(op.Body) {
				return true
			}
		}
	}
	return false
}

// allErrorKeyed: every row has an error-valued field (the group key the call could not compute).
func allErrorKeyed(rows []string) bool {
	for _, r := range rows {
		if !strings.Contains(r, ":error(") {
			return false
		}
	}
	return len(rows) > 0
}

// joinDeclaredDesc: a join whose input the optimizer declared sorted descending (LeftDir /
// RightDir < 0), so that the join skips its own sort of that side.
func joinDeclaredDesc(seq dag.Seq) bool {
	for _, op := range seq {
		switch op := op.(type) {
		case *dag.Join:
			if op.LeftDir < 0 || op.RightDir < 0 {
				return true
			}
		case *dag.Fork:
			for _, p := range op.Paths {
				if joinDeclaredDesc(p) {
					return true
				}
			}
		case *dag.Scatter:
			for _, p := range op.Paths {
				if joinDeclaredDesc(p) {
					return true
				}
			}
		case *dag.Scope:
			if joinDeclaredDesc(op.Body) {
				return true
			}
		}
	}
	return false
}

// sortedSummarizeBelowFanIn: a summarize told that its input is sorted (InputSortDir) although
// it reads the unordered combine of several parallel legs.
func sortedSummarizeBelowFanIn(seq dag.Seq) bool {
	for i, op := range seq {
		var paths []dag.Seq
		switch op := op.(type) {
		case *dag.Fork:
			paths = op.Paths
		case *dag.Scatter:
			paths = op.Paths
		case *dag.Scope:
			if sortedSummarizeBelowFanIn(op.Body) {
				return true
			}
		}
		for _, p := range paths {
			if sortedSummarizeBelowFanIn(p) {
				return true
			}
		}
		if len(paths) < 2 {
			continue
		}
		for j := i + 1; j < len(seq); j++ {
			if _, ok := seq[j].(*dag.Merge); ok {
				break
			}
			if s, ok := seq[j].(*dag.Summarize); ok {
				if s.InputSortDir != 0 {
					return true
				}
				break
			}
		}
	}
	return false
}

// mergeWhereText rewrites every `where A | where B` of the program text into
// `where (A) and (B)` (what mergeFilters does to the DAG), at any nesting depth.
func mergeWhereText(q string) string {
	for {
		changed := false
		for i := 0; i+6 <= len(q); i++ {
			if !strings.HasPrefix(q[i:], "where ") || (i > 0 && q[i-1] != ' ' && q[i-1] != '(') {
				continue
			}
			aStart := i + 6
			aEnd := predEnd(q, aStart)
			if !strings.HasPrefix(q[aEnd:], " | where ") {
				continue
			}
			bStart := aEnd + len(" | where ")
			bEnd := predEnd(q, bStart)
			q = q[:i] + "where (" + q[aStart:aEnd] + ") and (" + q[bStart:bEnd] + ")" + q[bEnd:]
			changed = true
			break
		}
		if !changed {
			return q
		}
	}
}

// predEnd: the end of a predicate starting at i: the next " | " or " =>" at parenthesis depth 0, an
// unmatched ")", or the end of the text (string literals are skipped).
func predEnd(q string, i int) int {
	depth := 0
	for j := i; j < len(q); j++ {
		switch q[j] {
		case '"':
			for j++; j < len(q) && q[j] != '"'; j++ {
				if q[j] == '\\' {
					j++
				}
			}
		case '(':
			depth++
		case ')':
			if depth == 0 {
				return j
			}
			depth--
		case ' ':
			if depth == 0 && (strings.HasPrefix(q[j:], " | ") || strings.HasPrefix(q[j:], " =>")) {
				return j
			}
		}
	}
	return len(q)
}

// adjacentFilters: two filters in a row anywhere mergeFilters looks.
func adjacentFilters(seq dag.Seq) bool {
	for i, op := range seq {
		if _, ok := op.(*dag.Filter); ok && i+1 < len(seq) {
			if _, ok := seq[i+1].(*dag.Filter); ok {
				return true
			}
		}
		switch op := op.(type) {
		case *dag.Fork:
			for _, p := range op.Paths {
				if adjacentFilters(p) {
					return true
				}
			}
		case *dag.Scope:
			if adjacentFilters(op.Body) {
				return true
			}
		case *dag.Over:
			if adjacentFilters(op.Body) {
				return true
			}
		}
	}
	return false
}

func onlyErrorValues(xs []string) bool {
	for _, x := range xs {
		if !strings.HasPrefix(x, "error(") {
			return false
		}
	}
	return len(xs) > 0
}

func scanFilterPresent(seq dag.Seq) bool {
	for _, op := range seq {
		switch op := op.(type) {
		case *dag.DefaultScan:
			if op.Filter != nil {
				return true
			}
		case *dag.SeqScan:
			if op.Filter != nil {
				return true
			}
		case *dag.Fork:
			for _, p := range op.Paths {
				if scanFilterPresent(p) {
					return true
				}
			}
		case *dag.Scatter:
			for _, p := range op.Paths {
				if scanFilterPresent(p) {
					return true
				}
			}
		}
	}
	return false
}

// classify names the failing input class of a minimized case.
func (c *c07Case) classify(l *TLake, o c07Outcome) string {
	if o.Op.Panicked && strings.Contains(o.Op.Err, "Duplicate op value") && !o.Un.Panicked {
		return "C07:panic:duplicate-op"
	}
	if o.Op.Panicked || o.Un.Panicked {
		return "C07:panic:" + shapeOf(c.Prog)
	}
	if isTimeout(o.Un) != isTimeout(o.Op) {
		// a fork whose legs are read by a merge or a join (written in the program or inserted by
		// the optimizer when it lifts a sort into the legs)
		if t := c.Prog.Text(); strings.Contains(t, "fork") && (strings.Contains(t, "merge") || strings.Contains(t, "join")) {
			return "C07:hang:fork-fanin"
		}
		if _, after, _, _ := OptimizeOnly(PlanCfg{Query: c.Prog.Text(), SortKey: parseSortKey(c.SortKey), Optimize: true}); strings.Contains(after, "(Fork") &&
			(strings.Contains(after, "(Merge") || strings.Contains(after, "(Join")) {
			return "C07:hang:fork-fanin"
		}
		return "C07:hang:" + shapeOf(c.Prog)
	}
	src := l
	if c.Check != "lake" {
		src = nil
	}
	before, _ := CompileDAG(c.Prog.Text(), src)
	if !o.Un.Failed() && !o.Op.Failed() {
		onlyUn, onlyOp := MsDiffAll(o.Un.Out, o.Op.Out), MsDiffAll(o.Op.Out, o.Un.Out)
		if len(onlyOp) == 0 && onlyErrorValues(onlyUn) && scanFilterPresent(o.Op.After) {
			return "C07:pushdown:filter-error-value"
		}
		if (len(onlyUn) == 0 || onlyErrorValues(onlyUn)) && (len(onlyOp) == 0 || onlyErrorValues(onlyOp)) && adjacentFilters(before) {
			return "C07:mergeFilters:error-value"
		}
	}
	if c.Check != "lake" && before != nil && adjacentFilters(before) && !o.Un.Failed() && !o.Op.Failed() {
		// the difference is exactly what merging adjacent filters by hand produces in the plan as
		// analyzed (an error value emitted by the first filter survives in `A and B` and feeds the
		// operators downstream, e.g. as a group of a summarize)
		if merged := mergeWhereText(c.Prog.Text()); merged != c.Prog.Text() {
			text := strings.Join(c.Input, "\n")
			um := RunPlan(PlanCfg{Query: merged, SortKey: parseSortKey(c.SortKey), Readers: ZSONReaders(text), Timeout: c07LongTimeout})
			if !um.Failed() && compareRuns(o.State, um, o.Op) == "" && compareRuns(o.State, o.Un, um) != "" {
				return "C07:mergeFilters:error-value"
			}
		}
	}
	if !o.Un.Failed() && o.Op.Failed() && o.Op.ErrStage == "build" && strings.Contains(o.Op.Err, "join requires two upstream") {
		if findLifted(before, func(next dag.Op) string { return "x" }) != "" {
			return "C07:lift:join-parents"
		}
	}
	if r := liftedSortFlag(o.Op.After); r != "" {
		return r
	}
	if sortedSummarizeBelowFanIn(o.Op.After) {
		return "C07:sortkey:fanin-combine"
	}
	if !o.Un.Failed() && !o.Op.Failed() && sortedSummarizeOnCall(o.Op.After) {
		onlyUn, onlyOp := MsDiffAll(o.Un.Out, o.Op.Out), MsDiffAll(o.Op.Out, o.Un.Out)
		if allErrorKeyed(onlyUn) && allErrorKeyed(onlyOp) {
			return "C07:sortkey:order-preserving-call:error-key"
		}
	}
	if joinDeclaredDesc(o.Op.After) {
		return "C07:join:declared-desc-nulls"
	}
	if before != nil {
		if r := findLifted(before, func(next dag.Op) string {
			switch next.(type) {
			case *dag.Cut, *dag.Put, *dag.Filter, *dag.Rename, *dag.Drop:
				if hasAggCall(next) {
					return "C07:lift:stateful-expr"
				}
			}
			return ""
		}); r != "" {
			return r
		}
	}
	kind := "diff"
	if o.Un.Failed() != o.Op.Failed() {
		kind = "error"
	}
	return "C07:" + kind + ":" + o.State.Kind.String() + ":" + shapeOf(c.Prog)
}

// shapeOf: the operator keywords of the (minimized) program.
func shapeOf(p OptProg) string {
	var ks []string
	for _, s := range p.Stages {
		f := strings.Fields(s)
		if len(f) == 0 {
			continue
		}
		k := f[0]
		if strings.Contains(s, " by ") || strings.HasSuffix(k, ")") {
			k = "summarize"
		}
		ks = append(ks, k)
	}
	return strings.Join(ks, ",")
}

// c07Report is the evaluated (and, on a disagreement, minimized and classified) case.
type c07Report struct {
	c     *c07Case
	o     c07Outcome
	min   *c07Case
	mo    c07Outcome
	key   string
	kind  string
	stats []string
}

// evaluate runs one case and on a disagreement shrinks and classifies it (no Ctx access: cases
// are evaluated concurrently and reported in generation order).
func (c *c07Case) evaluate(l *TLake) *c07Report {
	o := c.run(l)
	r := &c07Report{c: c, o: o}
	r.stats = append(r.stats, c.Check+":order-"+o.State.Kind.String())
	switch {
	case o.Un.Failed() && o.Op.Failed():
		st := o.Un.ErrStage
		if isTimeout(o.Un) {
			st = "timeout"
		}
		r.stats = append(r.stats, c.Check+":both-error-"+st)
	case o.Diff == "":
		r.stats = append(r.stats, c.Check+":agree")
		if len(o.Un.Out) > 0 {
			r.stats = append(r.stats, c.Check+":agree-nonempty")
		}
	}
	if o.Op.AfterS != "" && o.Op.AfterS != o.Op.BeforeS {
		r.stats = append(r.stats, c.Check+":plan-changed")
	}
	if o.Diff == "" {
		return r
	}
	if isTimeout(o.Un) || isTimeout(o.Op) {
		// a one-sided hang (confirmed with the long timeout): reported as is, shrinking would cost
		// half a minute per step
		r.min, r.mo = c, o
		r.key = c.classify(l, o)
		r.kind = "oracle"
		return r
	}
	runs := 0
	wasTimeout := false
	min := c.shrink(l, func(t *c07Case) bool {
		if runs++; runs > 40 {
			return false
		}
		to := t.run(l)
		return to.Diff != "" && (isTimeout(to.Un) || isTimeout(to.Op)) == wasTimeout
	})
	mo := min.run(l)
	if mo.Diff == "" {
		min, mo = c, o
	}
	r.min, r.mo = min, mo
	r.key = min.classify(l, mo)
	r.kind = "oracle"
	if mo.Op.Panicked || mo.Un.Panicked {
		r.kind = "panic"
	}
	return r
}

func (r *c07Report) emit(ctx *Ctx) {
	c := r.c
	ctx.Eval(c.Check + ":" + c.SortKey + c.PoolKey + ":" + c.Prog.Text() + ":" + fmt.Sprint(len(c.Input)))
	for _, s := range r.stats {
		ctx.Stat(s)
	}
	if r.min == nil {
		return
	}
	ctx.Fail(r.kind, r.key, fmt.Sprintf("`%s` %s on %d input values: %s", r.min.Prog.Text(), srcText(r.min), len(r.min.Input), r.mo.Diff), r.min)
}

// check evaluates and reports one case.
func (c *c07Case) check(ctx *Ctx, l *TLake) { c.evaluate(l).emit(ctx) }

// checkAll evaluates the cases concurrently and reports them in order.
func checkAll(ctx *Ctx, l *TLake, cases []*c07Case) {
	reps := make([]*c07Report, len(cases))
	ParallelDo(len(cases), 10, func(i int) { reps[i] = cases[i].evaluate(l) })
	for _, r := range reps {
		r.emit(ctx)
	}
}

func srcText(c *c07Case) string {
	switch {
	case c.Check == "lake":
		return fmt.Sprintf("(pool key %s, %d loads, parallelism %d)", c.PoolKey, c.Loads, c.Parallel)
	case c.SortKey != "":
		return "(declared sort key " + c.SortKey + ")"
	}
	return ""
}

// ---- struct: model optimize(before) == real after -------------------------------------------

type structCase struct {
	Query   string
	SortKey string
	Lake    bool
	Par     int
}

func c07Struct(ctx *Ctx, l *TLake, pools map[string]order.SortKeys, cases []structCase) {
	var reqs, real, errs []string
	var kept []structCase
	poolS := OptPoolsSexp(pools)
	for _, sc := range cases {
		cfg := PlanCfg{Query: sc.Query, SortKey: parseSortKey(sc.SortKey), Optimize: true, Parallel: sc.Par}
		if sc.Lake {
			cfg.Lake = l
		}
		before, after, err, panicked := OptimizeOnly(cfg)
		if before == "" {
			ctx.Stat("struct:not-compiled")
			continue
		}
		var r string
		switch {
		case panicked && strings.Contains(err, "Duplicate op value"):
			r = "panic-duplicate-op"
		case panicked:
			r = "panic:" + firstLine(err)
		case err != "":
			r = "error"
		default:
			r = "(ok " + after + ")"
		}
		if sc.Par > 1 {
			reqs = append(reqs, fmt.Sprintf("(C07 parallelize %s %d %s)", poolS, sc.Par, before))
		} else {
			reqs = append(reqs, fmt.Sprintf("(C07 optimize %s %s)", poolS, before))
		}
		real = append(real, r)
		errs = append(errs, err)
		kept = append(kept, sc)
	}
	if len(reqs) == 0 {
		return
	}
	ans := ctx.Model().Batch(reqs)
	for i := range reqs {
		ctx.Res.ModelCases++
		ctx.Eval("struct:" + kept[i].SortKey + ":" + fmt.Sprint(kept[i].Par) + ":" + kept[i].Query)
		switch {
		case real[i] == "error":
			ctx.Stat("struct:optimize-error")
		case strings.HasPrefix(real[i], "panic"):
			ctx.Stat("struct:optimize-panic")
		case "(ok "+strings.TrimSuffix(strings.SplitN(reqs[i], " (seq", 2)[1], ")") == real[i]:
			ctx.Stat("struct:unchanged")
		default:
			ctx.Stat("struct:rewritten")
		}
		if ans[i] != real[i] {
			ctx.Fail("correspondence", "C07:struct:"+diffOps(ans[i], real[i]),
				fmt.Sprintf("model optimize(before) differs from the real optimizer's result for `%s` (sort key %q, parallel %d): real=%s model=%s %s",
					kept[i].Query, kept[i].SortKey, kept[i].Par, clipS(real[i]), clipS(ans[i]), firstLine(errs[i])),
				map[string]any{"check": "struct", "query": kept[i].Query, "sortkey": kept[i].SortKey, "lake": kept[i].Lake, "parallel": kept[i].Par, "real": real[i], "model": ans[i]})
		}
	}
}

func clipS(s string) string {
	if len(s) > 600 {
		return s[:600] + "…"
	}
	return s
}

// diffOps: the operator names around the first difference (a short classifier).
func diffOps(a, b string) string {
	i := 0
	for i < len(a) && i < len(b) && a[i] == b[i] {
		i++
	}
	j := strings.LastIndexByte(a[:i], '(')
	if j < 0 {
		return "?"
	}
	w := strings.FieldsFunc(a[j:], func(r rune) bool { return r == ' ' || r == '(' || r == ')' })
	if len(w) == 0 {
		return "?"
	}
	return w[0]
}

// ---- main -----------------------------------------------------------------------------------

// hangProne: a fork feeding a merge or a join deadlocks in the runtime once its input spans
// several batches (in whichever plan pulls the legs unevenly; recorded as C07:hang:fork-fanin and
// replayed in the thorough tier); such programs get inputs of one batch.
func hangProne(q string) bool {
	return strings.Contains(q, "fork") && (strings.Contains(q, "merge") || strings.Contains(q, "join"))
}

var declaredKeys = []string{"", "", "k:asc", "k:desc", "a:asc", "n.x:asc"}

// sortedInput orders generated values the way a source declared `key` would deliver them:
// by the real sort operator on the plan as analyzed (nulls last), reversed for desc.
func sortedInput(vals []string, key string) []string {
	k := parseSortKey(key)
	if k == nil {
		return vals
	}
	r := RunPlan(PlanCfg{Query: "sort " + strings.Join(k.Key, "."), Readers: ZSONReaders(strings.Join(vals, "\n"))})
	if r.Failed() {
		return nil
	}
	out := r.Out
	if k.Order == order.Desc {
		rev := make([]string, len(out))
		for i, v := range out {
			rev[len(out)-1-i] = v
		}
		out = rev
	}
	return out
}

func runC07(c *Ctx) {
	c.Rule("programs from a grammar over {where/search, cut, drop, put, rename, yield, sort(-r,-nulls,desc), head, tail, uniq, fuse, " +
		"summarize(by, -limit), fork(+merge/join), switch, over, top, pass} and the repo's ztests/valid.zed corpus; inputs are heterogeneous " +
		"records (nulls, missing and duplicate keys, cross-type keys, nested containers, type values, named types); struct: model " +
		"optimize(before)==real after; behav/corpus/lake: plan as analyzed vs optimized plan, compared as sequence / sorted multiset / " +
		"multiset / size by the order the program defines; a case is distinct by (sub-check, declared order, program text, input size)")
	l, err := NewTLake()
	if err != nil {
		panic(err)
	}
	defer l.Close()

	if c.Replay != nil {
		c07Replay(c, l)
		return
	}
	for _, raw := range c.CorpusCases() {
		c.Replay = raw
		c07Replay(c, l)
		c.Replay = nil
	}

	if c.Want("known") {
		c07Known(c, l)
	}

	var progs []OptProg
	for i := 0; i < c.N(260, 2600); i++ {
		progs = append(progs, OptGenProg(c.Rng))
	}
	for _, p := range progs[:4] {
		c.Sample(map[string]any{"program": p.Text()})
	}
	corpus := OptLoadCorpus()
	c.StatN("corpus:programs", len(corpus))

	if c.Want("struct") {
		var cases []structCase
		for i, p := range progs {
			cases = append(cases, structCase{Query: p.Text(), SortKey: declaredKeys[i%len(declaredKeys)]})
		}
		for _, cc := range corpus {
			cases = append(cases, structCase{Query: cc.Zed})
			cases = append(cases, structCase{Query: cc.Zed, SortKey: "ts:asc"})
		}
		for _, q := range c07StructSeeds {
			for _, k := range []string{"", "k:asc", "k:desc"} {
				cases = append(cases, structCase{Query: q, SortKey: k})
			}
		}
		for _, q := range c07StructOnlySeeds {
			cases = append(cases, structCase{Query: q})
		}
		c07Struct(c, l, nil, cases)
	}

	if c.Want("behav") {
		var behav []*c07Case
		for i, p := range progs {
			n := []int{0, 1, 3, 12, 40, 260}[c.Rng.Intn(6)]
			if hangProne(p.Text()) && n > 40 {
				n = 40
			}
			vals := OptGenInput(c.Rng, n)
			key := declaredKeys[i%len(declaredKeys)]
			if in := sortedInput(vals, key); in != nil {
				vals = in
			} else {
				key = ""
			}
			behav = append(behav, &c07Case{Check: "behav", Prog: p, Input: vals, SortKey: key})
		}
		// the shapes every rewrite must be seen on, behaviourally as well: small inputs, and inputs
		// spanning several batches (sorted-input release of summarize, merge of many values)
		for i, q := range c07StructSeeds {
			for j, key := range []string{"", "k:asc", "k:desc"} {
				n := []int{3, 12, 260}[(i+j)%3]
				if hangProne(q) && n > 40 {
					n = 40
				}
				vals := OptGenInput(c.Rng, n)
				if in := sortedInput(vals, key); in != nil {
					vals = in
				} else {
					key = ""
				}
				behav = append(behav, &c07Case{Check: "behav", Prog: OptProg{Stages: strings.Split(q, " | ")}, Input: vals, SortKey: key})
			}
		}
		checkAll(c, l, behav)
	}

	if c.Want("corpus") {
		var cc07 []*c07Case
		n := 0
		for _, cc := range corpus {
			if cc.Input == "" {
				continue
			}
			if c.Tier == "quick" && n >= 150 && c.Rng.Intn(3) != 0 {
				continue
			}
			n++
			cc07 = append(cc07, &c07Case{Check: "corpus", Prog: OptProg{Stages: []string{cc.Zed}}, Input: []string{cc.Input}, Strict: true})
		}
		checkAll(c, l, cc07)
	}

	if c.Want("join") {
		c07Join(c)
	}

	if c.Want("lake") {
		c07Lake(c, l, progs)
	}
}

// c07StructOnlySeeds are compiled and optimized but never run (their sources do not exist): joins
// fed by two file sources, for the directions the optimizer attaches to the join.
var c07StructOnlySeeds = []string{
	"file /nonexistent/l.zson | sort a | join (file /nonexistent/r.zson) on a=b", "file /nonexistent/l.zson | sort a | right join (file /nonexistent/r.zson) on a=b x:=c",
	"file /nonexistent/l.zson | right join (file /nonexistent/r.zson | sort -r b) on a=b", "file /nonexistent/l.zson | sort a desc | left join (file /nonexistent/r.zson | sort b) on a=b",
	"file /nonexistent/l.zson | sort a | anti join (file /nonexistent/r.zson | sort b) on a=b", "file /nonexistent/l.zson | sort x | inner join (file /nonexistent/r.zson | sort y) on a=b",
}

// c07StructSeeds: shapes every rewrite must be seen on, whatever the random draw.
var c07StructSeeds = []string{
	"where a==1 | where b==2 | where s==\"foo\"",
	"pass | where a==1 | pass | pass | head 1",
	"fork (=> pass => pass)",
	"fork (=> where a==1 | where b==1 => pass | pass) | where k==1",
	"fork (=> pass => pass) | sort k",
	"fork (=> pass => pass) | sort k | head 2",
	"fork (=> pass => pass) | sort -r k", "fork (=> pass => pass) | sort -nulls first k", "fork (=> pass => pass) | sort k desc",
	"fork (=> pass => pass) | sort -r k | head 2", "fork (=> pass => pass) | merge k | sort k desc",
	"fork (=> pass => pass) | merge k | sort k",
	"fork (=> pass => pass) | merge k | sort a",
	"fork (=> pass => pass) | merge k | where a==1",
	"fork (=> pass => pass) | merge k | head 1",
	"fork (=> pass => pass) | head 3",
	"fork (=> pass => pass) | tail 3",
	"fork (=> pass => pass) | count() by k",
	"fork (=> pass => pass) | sum(a) by k:=floor(k)",
	"fork (=> pass => pass) | cut k | put x:=1 | rename y:=x | drop y",
	"fork (=> sort k => sort k) | merge k | put k:=1",
	"count() by k", "count() by k:=floor(k)", "count() by k:=round(a)", "count() by a,k", "count() by x:=k",
	"put k:=a | count() by k", "put x:=a | count() by k", "cut k | count() by k", "cut k:=a | count() by k", "cut x:=k | count() by x",
	"cut x:=k,y:=x | count() by y", "cut k,x:=k | count() by k", "rename x:=k | count() by x", "drop k | count() by k", "drop a | count() by k",
	"cut x:=k+1 | count() by x", "cut k:=a+1 | count() by k", "cut a:=b+1 | count() by k", "cut a:=b+1,k | count() by k",
	"sort a | count() by a", "sort -r a | count() by a", "sort a, b | count() by a", "sort a desc | count() by a",
	"uniq | head 2 | tail 1 | fuse | count() by k", "yield this | count() by k", "where a==1 | count() by k",
	"fork (=> sort k => sort k) | join on k=k", "fork (=> pass => sort a) | join on k=a", "fork (=> pass => pass) | right join on k=k x:=b",
	"over arr => (where this==1 | where this==1 | pass)", "switch (case a==1 => pass | pass case a==2 => where b==1 | where b==2)",
	"fork (=> count() by k => pass) | where a==1",
	"fork (=> pass => pass) | where a==1 | fork (=> pass => pass) | where b==2",
	"fork (=> fork (=> pass => pass) | head 1 => pass) | head 1",
}

func c07Replay(c *Ctx, l *TLake) {
	var probe struct {
		Check string `json:"check"`
	}
	if json.Unmarshal(c.Replay, &probe) == nil && probe.Check == "join" {
		var j joinCase
		if json.Unmarshal(c.Replay, &j) == nil {
			c.Eval("replay")
			if d, prog, _ := j.diff(); d != "" {
				c.Fail("oracle", "C07:join:"+j.Style+":"+strings.ReplaceAll(j.LPrep, " ", "_")+":"+strings.ReplaceAll(j.RPrep, " ", "_"), fmt.Sprintf("`%s`: %s", prog, d), &j)
			}
		}
		return
	}
	var cs c07Case
	if err := json.Unmarshal(c.Replay, &cs); err != nil || len(cs.Prog.Stages) == 0 {
		var sr struct {
			Check   string `json:"check"`
			Query   string `json:"query"`
			SortKey string `json:"sortkey"`
			Lake    bool   `json:"lake"`
			Par     int    `json:"parallel"`
		}
		if json.Unmarshal(c.Replay, &sr) == nil && sr.Query != "" {
			c07Struct(c, l, nil, []structCase{{Query: sr.Query, SortKey: sr.SortKey, Par: sr.Par, Lake: sr.Lake}})
			return
		}
		c.Note("replay not understood: %v", err)
		return
	}
	if cs.Check == "lake" {
		c07LakeReplay(c, l, &cs)
		return
	}
	if cs.Check == "join" {
		var j joinCase
		if json.Unmarshal(c.Replay, &j) == nil {
			c.Eval("replay")
			if d, prog, _ := j.diff(); d != "" {
				c.Fail("oracle", "C07:join:"+j.Style+":"+strings.ReplaceAll(j.LPrep, " ", "_")+":"+strings.ReplaceAll(j.RPrep, " ", "_"), fmt.Sprintf("`%s`: %s", prog, d), &j)
			}
		}
		return
	}
	cs.check(c, l)
}

func sortedKeys(m map[string]int) []string {
	var ks []string
	for k := range m {
		ks = append(ks, k)
	}
	sort.Strings(ks)
	return ks
}
