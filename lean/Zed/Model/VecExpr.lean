/-
  Semantic model of the `runtime/vam/expr` subset reachable from `compiler/kernel/vexpr.go`
  (field access, literals, arithmetic, comparison, logic) over Const / Dict / flat vectors
  with null bitmaps, and of the vam operators of `compiler/kernel/vop.go` as far as they are
  implemented for one record type (yield, filter, head, tail, cut), next to the sequential
  (sam) semantics of the same programs (C09).

  Anchors: runtime/vam/expr/{arith,compare,logic,coerce,dot,literal}.go, the generated
  arithfuncs.go / comparefuncs.go (via genarithfuncs.go / gencomparefuncs.go), vector/kind.go
  (KindOf / FormOf), runtime/vam/op/{filter,yield,head,tail}.go, vector/view.go;
  runtime/sam/expr/eval.go (numeric / Compare / Equal / Add …), coerce.ToNumeric.

  Scope: columns of type int64, string and bool of ONE record type; everything else is
  `other` (only its presence is modelled).  The vector functions read the value stored at a
  slot and never consult the null bitmap: a flat vector stores the zero value at a null slot,
  a dictionary vector the entry its selector 0 points to (the smallest value: the writer sorts
  the entries), a Const vector its constant.  The results carry no nulls.  These are the
  null-bitmap defects of the current code; they are modelled as they are.

  Sequential side: a comparison whose right operand evaluates at compile time
  (`compileConstCompare`) is `expr.Comparison(op, literal)` — a null left operand is never in
  relation with the literal, a left operand of another type neither — every other comparison is
  `coerce.Equal` / `Compare.Eval` (null == null, null != value; Booleans ordered false < true
  since /repo 6484058b0).  "Evaluates at compile time" is modelled as "reads no field and is not an
  error"; a right operand that reads a field but still evaluates without it (`p or true`) is
  outside the model (and outside the generator's grammar).
-/
import Zed.Generated.C03
namespace Zed.VExpr

abbrev Bytes := List UInt8

inductive Form where
  | flat | dict | const
  deriving DecidableEq, Repr

/-- a column of the input batch (one record type). -/
inductive Col where
  | int (xs : List (Option Int))       -- int64
  | str (xs : List (Option Bytes))
  | bool (xs : List (Option Bool))
  | other (n : Nat)                    -- any other type
  deriving DecidableEq, Repr

def Col.len : Col → Nat
  | .int xs => xs.length
  | .str xs => xs.length
  | .bool xs => xs.length
  | .other n => n

/-- two's complement int64. -/
def wrap64 (x : Int) : Int := (x + 2 ^ 63) % 2 ^ 64 - 2 ^ 63

/-- a vector as the expression evaluators see it: the form, the value READ at each slot, the
    null bitmap (which they ignore). -/
inductive XV where
  | int (form : Form) (vals : List Int) (nulls : List Bool)
  | str (form : Form) (vals : List Bytes) (nulls : List Bool)
  | bool (form : Form) (vals : List Bool) (nulls : List Bool)
  | err (msg : String) (n : Nat)       -- vector.Error: every slot is error(msg)
  | other (n : Nat)                    -- a vector of some other kind
  deriving DecidableEq, Repr

def XV.len : XV → Nat
  | .int _ v _ => v.length
  | .str _ v _ => v.length
  | .bool _ v _ => v.length
  | .err _ n => n
  | .other n => n

/-- lexicographic order of byte strings (the dictionary sort order of strings). -/
def bytesLt : Bytes → Bytes → Bool
  | [], [] => false
  | [], _ :: _ => true
  | _ :: _, [] => false
  | a :: as, b :: bs => if a < b then true else if b < a then false else bytesLt as bs

def minInt : List Int → Int
  | [] => 0
  | x :: xs => xs.foldl (fun m y => if y < m then y else m) x

def minBytes : List Bytes → Bytes
  | [] => []
  | x :: xs => xs.foldl (fun m y => if bytesLt y m then y else m) x

/-- all values equal the first one (exactly one distinct value). -/
def allSame {α : Type} [BEq α] : List α → Bool
  | [] => false
  | x :: xs => xs.all (· == x)

open Zed.Generated.C03 in
/-- the encoding the writer's statistics select for the non-null values (see C03): const for
    one distinct value, dictionary up to MaxDictSize, plain otherwise or when empty. -/
def formOf {α : Type} [BEq α] (nn : List α) : Form :=
  if nn.isEmpty then .flat
  else if allSame nn then .const
  else if dictOverflowOp == ">" && nn.eraseDups.length ≤ maxDictSize then .dict
  else if dictOverflowOp == ">=" && nn.eraseDups.length < maxDictSize then .dict
  else .flat

/-- the vector the cache loader builds for a column (value READ at each slot). -/
def loadCol : Col → XV
  | .int xs =>
    let nn := xs.filterMap id
    let nulls := xs.map Option.isNone
    match formOf nn with
    | .flat => .int .flat (xs.map (·.getD 0)) nulls
    | .dict => .int .dict (xs.map (·.getD (minInt nn))) nulls
    | .const => .int .const (xs.map fun _ => nn.headD 0) nulls
  | .str xs =>
    let nn := xs.filterMap id
    let nulls := xs.map Option.isNone
    match formOf nn with
    | .flat => .str .flat (xs.map (·.getD [])) nulls
    | .dict => .str .dict (xs.map (·.getD (minBytes nn))) nulls
    | .const => .str .const (xs.map fun _ => nn.headD []) nulls
  | .bool xs => .bool .flat (xs.map (·.getD false)) (xs.map Option.isNone)   -- 8-bit: never dict / const
  | .other n => .other n

/-! ### expressions -/

inductive ArOp where
  | add | sub | mul | div | mod
  deriving DecidableEq, Repr

inductive CmpOp where
  | eq | ne | lt | le | gt | ge
  deriving DecidableEq, Repr

inductive Expr where
  | field (name : Bytes)
  | litInt (i : Int)
  | litStr (s : Bytes)
  | arith (op : ArOp) (a b : Expr)
  | cmp (op : CmpOp) (a b : Expr)
  | and (a b : Expr)
  | or (a b : Expr)
  | not (a : Expr)
  deriving DecidableEq, Repr

/-- a batch: the columns of the record type, all of length `n`. -/
structure Batch where
  n : Nat
  cols : List (Bytes × Col)
  deriving Repr, DecidableEq

def Batch.col (b : Batch) (name : Bytes) : Option Col :=
  (b.cols.find? (·.1 == name)).map (·.2)

def arInt : ArOp → Int → Int → Int
  | .add, a, b => wrap64 (a + b)
  | .sub, a, b => wrap64 (a - b)
  | .mul, a, b => wrap64 (a * b)
  | .div, a, b => wrap64 (Int.tdiv a b)
  | .mod, a, b => Int.tmod a b

def cmpInt : CmpOp → Int → Int → Bool
  | .eq, a, b => a == b
  | .ne, a, b => a != b
  | .lt, a, b => a < b
  | .le, a, b => a ≤ b
  | .gt, a, b => b < a
  | .ge, a, b => b ≤ a

def cmpBytes : CmpOp → Bytes → Bytes → Bool
  | .eq, a, b => a == b
  | .ne, a, b => a != b
  | .lt, a, b => bytesLt a b
  | .le, a, b => !bytesLt b a
  | .gt, a, b => bytesLt b a
  | .ge, a, b => !bytesLt a b

def bothConst (f g : Form) : Bool := f == .const && g == .const

/-- result form: a Const when both operands are Const, a fresh flat vector otherwise. -/
def outForm (f g : Form) : Form := if bothConst f g then .const else .flat

def noNulls (n : Nat) : List Bool := List.replicate n false

def incompatible (n : Nat) : XV := .err "incompatible types" n

/-- `Arith.eval` after `coerceVals` for the modelled kinds.  `Except.error` = Go panic. -/
def evalArith (op : ArOp) (l r : XV) : Except String XV :=
  match l, r with
  | .int f v _, .int g w _ =>
    if (op == .div || op == .mod) && w.any (· == 0) && v.length > 0 then
      .error "runtime error: integer divide by zero"
    else .ok (.int (outForm f g) (List.zipWith (arInt op) v w) (noNulls v.length))
  | .str f v _, .str g w _ =>
    if op == .add then .ok (.str (outForm f g) (List.zipWith (· ++ ·) v w) (noNulls v.length))
    else .ok (incompatible v.length)                     -- no function for the kind
  | l, _ => .ok (incompatible l.len)

/-- `Compare.eval`. -/
def evalCmp (op : CmpOp) (l r : XV) : Except String XV :=
  match l, r with
  | .int f v _, .int g w _ => .ok (.bool (outForm f g) (List.zipWith (cmpInt op) v w) (noNulls v.length))
  | .str f v _, .str g w _ => .ok (.bool (outForm f g) (List.zipWith (cmpBytes op) v w) (noNulls v.length))
  | l, _ => .ok (incompatible l.len)                     -- bool has no Form: incompatible types

/-- `EvalBool`: only a flat `*vector.Bool` is accepted. -/
def asBool (n : Nat) : XV → Except XV (List Bool × List Bool)
  | .bool .flat v nulls => .ok (v, nulls)
  | _ => .error (.err "not type bool" n)

def evalX (b : Batch) : Expr → Except String XV
  | .field name =>
    match b.col name with
    | some c => .ok (loadCol c)
    | none => .ok (.err "missing" b.n)
  | .litInt i => .ok (.int .const (List.replicate b.n i) (noNulls b.n))
  | .litStr s => .ok (.str .const (List.replicate b.n s) (noNulls b.n))
  | .arith op x y => do
    let l ← evalX b x
    let r ← evalX b y
    evalArith op l r
  | .cmp op x y => do
    let l ← evalX b x
    let r ← evalX b y
    evalCmp op l r
  | .and x y => do
    let l ← evalX b x
    match asBool b.n l with
    | .error e => pure e
    | .ok (v, nulls) =>
      let r ← evalX b y
      match asBool b.n r with
      | .error e => pure e
      | .ok (w, _) => pure (.bool .flat (List.zipWith (· && ·) v w) nulls)
  | .or x y => do
    let l ← evalX b x
    match asBool b.n l with
    | .error e => pure e
    | .ok (v, nulls) =>
      let r ← evalX b y
      match asBool b.n r with
      | .error e => pure e
      | .ok (w, _) => pure (.bool .flat (List.zipWith (· || ·) v w) nulls)
  | .not x => do
    let l ← evalX b x
    match asBool b.n l with
    | .error e => pure e
    | .ok (v, nulls) => pure (.bool .flat (v.map (!·)) nulls)

/-- the type of a null. -/
inductive NT where
  | int | str | bool
  deriving DecidableEq, Repr

/-- a value as it is serialised at a slot. -/
inductive SV where
  | int (i : Int)
  | str (s : Bytes)
  | bool (b : Bool)
  | null (t : NT)
  | err (msg : String)
  | other
  deriving DecidableEq, Repr

/-- `vec.Serialize(slot)`: here the null bitmap IS consulted. -/
def XV.at : XV → Nat → SV
  | .int _ v nulls, k => if nulls.getD k false then .null .int else (v[k]?.map SV.int).getD .other
  | .str _ v nulls, k => if nulls.getD k false then .null .str else (v[k]?.map SV.str).getD .other
  | .bool _ v nulls, k => if nulls.getD k false then .null .bool else (v[k]?.map SV.bool).getD .other
  | .err msg _, _ => .err msg
  | .other _, _ => .other

/-! ### sequential semantics (runtime/sam/expr) for the same expressions -/

def Col.at : Col → Nat → SV
  | .int xs, k => match xs[k]? with | some (some i) => .int i | some none => .null .int | none => .other
  | .str xs, k => match xs[k]? with | some (some s) => .str s | some none => .null .str | none => .other
  | .bool xs, k => match xs[k]? with | some (some b) => .bool b | some none => .null .bool | none => .other
  | .other _, _ => .other

/-- `coerce.ToNumeric[int64]`: null counts as 0. -/
def toIntS : SV → Option Int
  | .int i => some i
  | .null .int => some 0
  | _ => none

/-- `zed.DecodeString`: a null string reads as "". -/
def toStrS : SV → Option Bytes
  | .str s => some s
  | .null .str => some []
  | _ => none

/-- `EvalBool` + `val.Bool()`: a null bool reads as false. -/
def boolS : SV → Option Bool
  | .bool b => some b
  | .null .bool => some false
  | _ => none

def SV.isNull : SV → Bool
  | .null _ => true
  | _ => false

/-- does the expression read a field of `this` (through `DotExpr`)? -/
def Expr.usesField : Expr → Bool
  | .field _ => true
  | .litInt _ => false
  | .litStr _ => false
  | .arith _ a b => a.usesField || b.usesField
  | .cmp _ a b => a.usesField || b.usesField
  | .and a b => a.usesField || b.usesField
  | .or a b => a.usesField || b.usesField
  | .not a => a.usesField

/-- the batch a compile-time evaluation sees (`this` = error("missing")). -/
def emptyBatch : Batch := { n := 0, cols := [] }

/-- `expr.CompareBool` (comparison with a Boolean literal) and, since /repo 6484058b0,
    `Compare.Eval` on two Boolean operands: false < true. -/
def cmpBoolLit : CmpOp → Bool → Bool → Bool
  | .eq, a, b => a == b
  | .ne, a, b => a != b
  | .lt, a, b => !a && b
  | .le, a, b => !a || b
  | .gt, a, b => a && !b
  | .ge, a, b => a || !b

def evalS (b : Batch) (k : Nat) : Expr → SV
  | .field name => match b.col name with | some c => c.at k | none => .err "missing"
  | .litInt i => .int i
  | .litStr s => .str s
  | .arith op x y =>
    match evalS b k x, evalS b k y with
    | .err m, _ => .err m
    | _, .err m => .err m
    | l, r =>
      match toIntS l, toIntS r with
      | some i, some j =>
        if (op == .div || op == .mod) && j == 0 then .err "divide by zero" else .int (arInt op i j)
      | _, _ =>
        match toStrS l, toStrS r with
        | some s, some t => if op == .add then .str (s ++ t) else .err "incompatible"
        | _, _ => .err "incompatible"
  | .cmp op x y =>
    -- `compileConstCompare`: a right operand that evaluates at compile time (here: one that
    -- reads no field and is not an error) turns the comparison into `expr.Comparison(op, literal)`
    let c : Option SV :=
      if y.usesField then none
      else match evalS emptyBatch 0 y with
        | .int j => some (.int j)
        | .str t => some (.str t)
        | .bool q => some (.bool q)
        | _ => none
    match c with
    | some c =>
      match evalS b k x with
      | .err m => .err m
      | l =>
        if l.isNull then .bool false           -- a null is never in relation with a literal
        else match l, c with
          | .int i, .int j => .bool (cmpInt op i j)
          | .str s, .str t => .bool (cmpBytes op s t)
          | .bool p, .bool q => .bool (cmpBoolLit op p q)
          | _, _ => .bool false
    | none =>
    match evalS b k x, evalS b k y with
    | .err m, _ => .err m
    | _, .err m => .err m
    | l, r =>
      if l.isNull && r.isNull then .bool (op == .eq || op == .le || op == .ge)
      else if l.isNull || r.isNull then .bool (op == .ne)
      else match l, r with
        | .int i, .int j => .bool (cmpInt op i j)
        | .str s, .str t => .bool (cmpBytes op s t)
        | .bool p, .bool q => .bool (cmpBoolLit op p q)
        | _, _ => .bool (op == .ne)
  | .and x y =>                       -- short circuit: a false lhs hides the rhs
    match boolS (evalS b k x) with
    | none => .err "not type bool"
    | some false => .bool false
    | some true =>
      match boolS (evalS b k y) with
      | none => .err "not type bool"
      | some q => .bool q
  | .or x y =>
    match boolS (evalS b k x) with
    | some true => .bool true
    | lx =>
      if lx.isNone && !(evalS b k x == .err "missing") then .err "not type bool"
      else match boolS (evalS b k y) with
        | none => .err "not type bool"
        | some q => .bool q
  | .not x =>
    match boolS (evalS b k x) with
    | some p => .bool (!p)
    | none => .err "not type bool"

/-! ### operators on one batch -/

/-- an output value: an expression value or (the index of) an input record. -/
inductive Out where
  | val (v : SV)
  | row (k : Nat)
  deriving DecidableEq, Repr

inductive Op where
  | yieldE (e : Expr)       -- yield <expr>
  | filter (e : Expr)       -- where <expr>
  | head (n : Nat)
  | tail (n : Nat)
  deriving DecidableEq, Repr

/-- the state between vector operators: the batch and, after a filter / head kept only part
    of it, the `vector.View` index. -/
structure VState where
  batch : Batch
  view : Option (List Nat) := none
  deriving Repr, DecidableEq

def VState.slots (s : VState) : List Nat := s.view.getD (List.range s.batch.n)

/-- `vector.BoolValue(mask, k)`: non-Boolean mask slots count as false. -/
def maskAt : XV → Nat → Bool
  | .bool _ v _, k => v.getD k false
  | _, _ => false

/-- every field access of `e` replaced by a missing field (what `DotExpr.eval` yields when
    `this` is a `vector.View`: its type switch has no View case). -/
def Expr.blind : Expr → Expr
  | .field _ => .field [0, 0, 0]       -- a name no record has (the driver never uses it)
  | .litInt i => .litInt i
  | .litStr s => .litStr s
  | .arith o a b => .arith o a.blind b.blind
  | .cmp o a b => .cmp o a.blind b.blind
  | .and a b => .and a.blind b.blind
  | .or a b => .or a.blind b.blind
  | .not a => .not a.blind

/-- the vector pipeline after the scan: the final operator decides what is emitted. -/
def runV : List Op → VState → Except String (List Out)
  | [], s => .ok (s.slots.map Out.row)
  | .head n :: rest, s => runV rest { s with view := if n ≤ s.slots.length then some (s.slots.take n) else s.view }
  | .tail n :: rest, s => runV rest { s with view := if n < s.slots.length then some (s.slots.drop (s.slots.length - n)) else s.view }
  | .filter e :: rest, s =>
    -- on a View the field accesses see nothing (missing), so the mask is all false unless the
    -- expression reads no field
    let b' := { s.batch with n := s.slots.length }
    match (if s.view.isSome then evalX b' e.blind else evalX s.batch e) with
    | .error p => .error p
    | .ok mask =>
      let kept := (List.range s.slots.length).filter (maskAt mask)
      if kept.length = 0 then .ok []
      else if kept.length = s.slots.length then runV rest s
      else runV rest { s with view := some (kept.map fun i => s.slots.getD i 0) }
  | .yieldE e :: _, s =>
    let b' := { s.batch with n := s.slots.length }
    match (if s.view.isSome then evalX b' e.blind else evalX s.batch e) with
    | .error p => .error p
    | .ok v => .ok ((List.range s.slots.length).map fun k => Out.val (v.at k))

/-- the sequential pipeline. -/
def runS (b : Batch) : List Op → List Nat → List Out
  | [], rows => rows.map Out.row
  | .head n :: rest, rows => runS b rest (rows.take n)
  | .tail n :: rest, rows => runS b rest (rows.drop (rows.length - n))
  | .filter e :: rest, rows => runS b rest (rows.filter fun k => evalS b k e == .bool true)
  | .yieldE e :: _, rows => rows.map fun k => Out.val (evalS b k e)

end Zed.VExpr
