package main

// JSON ⊂ ZSON: grammar-directed JSON documents through jsonio.NewReader and through
// zsonio.NewReader, compared with each other (oracle) and with the Lean model (`json` op).

import (
	"fmt"
	"math/big"
	"strconv"
	"strings"
	h "verifharness/hlib"

	zed "github.com/brimdata/super"
	"github.com/brimdata/super/zio/jsonio"
	"github.com/brimdata/super/zio/zsonio"
	"github.com/brimdata/super/zson"
	"golang.org/x/text/unicode/norm"
)

// jdoc is a JSON document as a tree, so that text and model term are produced together.
type jdoc struct {
	Kind  string   `json:"k"`             // null true false num str arr obj
	Src   string   `json:"src,omitempty"` // num: spelling; str: the JSON string token without quotes
	Elems []*jdoc  `json:"elems,omitempty"`
	Keys  []string `json:"keys,omitempty"` // obj: JSON string tokens without quotes
}

var jsonNums = []string{
	"0", "-0", "1", "-1", "42", "9223372036854775807", "9223372036854775808", "18446744073709551615", "18446744073709551616",
	"-9223372036854775808", "-9223372036854775809", "1.0", "1.5", "-1.5e-7", "1e3", "1E3", "1e+3", "1E-2", "0.1", "0e0", "0.0", "-0.0",
	"123456789012345678901234567890", "1e22", "1e23", "1e308", "5e-324", "2.2250738585072014e-308", "1.7976931348623157e308", "0.30000000000000004",
	"100", "1e0", "10e-1", "9007199254740993", "1E400", "1e-400",
}

var jsonStrs = []string{
	``, `a`, `hello world`, `\"`, `\\`, `\/`, `/`, `\b\f\n\r\t`, `A`, `é`, `é`, `日本`, `日本`, `😀`, `😀`, `a😀`,
	`é😀`, `😀😀`, `x\u0000y`, `\u001f`, `\u007f`, ` `, `null`, `true`, `1`, `{"a":1}`, ` `, `'`, "`", `<int64>`, `%a`,
	`é\ud83d\ude00`, `a\ud83d\ude00`, `\u00e9\ud83d\ude00`, `日\ud83d\ude00!`, `\ud800`, `\udc00`, `\ud800x`, `\ud83dA`, `😀`, `é`, "tab\\tnew\\n", `ÅÅ`, `é`,
}

var jsonKeys = []string{`a`, `b`, `c`, `a`, ``, `a b`, `true`, `null`, `error`, `1`, `é`, `a`, `日本`, `a\"b`, `type`, `x`}

func genJSON(c *h.Ctx, depth int) *jdoc {
	r := c.Rng
	k := r.Intn(10)
	if depth <= 0 && k >= 7 {
		k = r.Intn(7)
	}
	switch k {
	case 0:
		return &jdoc{Kind: "null"}
	case 1:
		return &jdoc{Kind: []string{"true", "false"}[r.Intn(2)]}
	case 2, 3:
		if r.Intn(4) == 0 {
			return &jdoc{Kind: "num", Src: strconv.FormatInt(r.Int63()-r.Int63(), 10)}
		}
		if r.Intn(6) == 0 {
			return &jdoc{Kind: "num", Src: strconv.FormatFloat(r.NormFloat64()*1e6, 'g', -1, 64)}
		}
		return &jdoc{Kind: "num", Src: jsonNums[r.Intn(len(jsonNums))]}
	case 4, 5, 6:
		return &jdoc{Kind: "str", Src: jsonStrs[r.Intn(len(jsonStrs))]}
	case 7, 8:
		d := &jdoc{Kind: "arr"}
		n := []int{0, 1, 2, 2, 3, 4}[r.Intn(6)]
		for i := 0; i < n; i++ {
			d.Elems = append(d.Elems, genJSON(c, depth-1))
		}
		return d
	default:
		d := &jdoc{Kind: "obj"}
		n := []int{0, 1, 2, 2, 3}[r.Intn(5)]
		for i := 0; i < n; i++ {
			d.Keys = append(d.Keys, jsonKeys[r.Intn(len(jsonKeys))])
			d.Elems = append(d.Elems, genJSON(c, depth-1))
		}
		return d
	}
}

func (d *jdoc) text(c *h.Ctx, b *strings.Builder) {
	ws := func() {
		if c != nil && c.Rng.Intn(6) == 0 {
			b.WriteString([]string{" ", "\n", "\t", "\r\n", "  "}[c.Rng.Intn(5)])
		}
	}
	switch d.Kind {
	case "null", "true", "false":
		b.WriteString(d.Kind)
	case "num":
		b.WriteString(d.Src)
	case "str":
		b.WriteString(`"` + d.Src + `"`)
	case "arr":
		b.WriteString("[")
		for i, e := range d.Elems {
			if i > 0 {
				b.WriteString(",")
			}
			ws()
			e.text(c, b)
			ws()
		}
		b.WriteString("]")
	case "obj":
		b.WriteString("{")
		for i, e := range d.Elems {
			if i > 0 {
				b.WriteString(",")
			}
			ws()
			b.WriteString(`"` + d.Keys[i] + `"`)
			ws()
			b.WriteString(":")
			ws()
			e.text(c, b)
		}
		b.WriteString("}")
	}
}

// features that the recorded JSON defects are about
type jfeat struct {
	dupKey, bigInt, surrogate, loneSurrogate bool
}

func (d *jdoc) features(f *jfeat) {
	switch d.Kind {
	case "num":
		if n, ok := new(big.Int).SetString(d.Src, 10); ok {
			if n.Cmp(big.NewInt(0).SetUint64(1<<63-1)) > 0 && n.Cmp(new(big.Int).SetUint64(^uint64(0))) <= 0 {
				f.bigInt = true
			}
		}
	case "str":
		strFeatures(d.Src, f)
	case "obj":
		seen := map[string]bool{}
		for _, k := range d.Keys {
			strFeatures(k, f)
			dk, _ := strconv.Unquote(`"` + k + `"`)
			if seen[dk] {
				f.dupKey = true
			}
			seen[dk] = true
		}
	}
	for _, e := range d.Elems {
		e.features(f)
	}
}

// surrogateAt: is there a \uXXXX escape of a UTF-16 surrogate at s[i:]; high = leading half.
func surrogateAt(s string, i int) (is, high bool) {
	if i+6 > len(s) || s[i] != '\\' || s[i+1] != 'u' {
		return false, false
	}
	v, err := strconv.ParseUint(s[i+2:i+6], 16, 32)
	if err != nil || v < 0xd800 || v > 0xdfff {
		return false, false
	}
	return true, v < 0xdc00
}

func strFeatures(s string, f *jfeat) {
	for i := 0; i < len(s); i++ {
		if s[i] != '\\' {
			continue
		}
		is, high := surrogateAt(s, i)
		if !is {
			i++ // skip the escaped character
			continue
		}
		f.surrogate = true
		if is2, high2 := surrogateAt(s, i+6); high && is2 && !high2 {
			i += 11
		} else {
			f.loneSurrogate = true
			i += 5
		}
	}
}

// modelJ renders the document for the driver.  Strings travel decoded (by strconv.Unquote,
// which agrees with JSON on the escapes generated here except for surrogates: documents
// with surrogate escapes are not sent to the model).
func (d *jdoc) modelJ() (string, bool) {
	switch d.Kind {
	case "null", "true", "false":
		return d.Kind, true
	case "num":
		ci := ""
		if n, ok := new(big.Int).SetString(d.Src, 10); ok {
			ci = n.String()
		}
		f, err := strconv.ParseFloat(d.Src, 64)
		if err != nil {
			return "", false
		}
		cf := zson.FormatPrimitive(zed.TypeFloat64, zed.EncodeFloat64(f))
		return "(n " + HexAtom([]byte(d.Src)) + " " + HexAtom([]byte(ci)) + " " + HexAtom([]byte(cf)) + ")", true
	case "str":
		s, ok := jsonUnquote(d.Src)
		if !ok {
			return "", false
		}
		return "(s " + HexAtom([]byte(s)) + ")", true
	case "arr":
		var b strings.Builder
		b.WriteString("(a")
		for _, e := range d.Elems {
			x, ok := e.modelJ()
			if !ok {
				return "", false
			}
			b.WriteString(" " + x)
		}
		b.WriteString(")")
		return b.String(), true
	case "obj":
		var b strings.Builder
		b.WriteString("(o")
		for i, e := range d.Elems {
			k, ok := jsonUnquote(d.Keys[i])
			if !ok {
				return "", false
			}
			x, ok := e.modelJ()
			if !ok {
				return "", false
			}
			b.WriteString(" (" + HexAtom([]byte(k)) + " " + x + ")")
		}
		b.WriteString(")")
		return b.String(), true
	}
	return "", false
}

func jsonUnquote(tok string) (string, bool) {
	f := &jfeat{}
	strFeatures(tok, f)
	if f.surrogate {
		return "", false
	}
	s, err := strconv.Unquote(`"` + strings.ReplaceAll(tok, `\/`, `/`) + `"`)
	if err != nil {
		return "", false
	}
	// both readers normalise strings to NFC (a parameter of the model)
	return norm.NFC.String(s), true
}

func jsonCheck(c *h.Ctx) {
	m := c.Model()
	n := c.N(1500, 20000)
	for i := 0; i < n; i++ {
		d := genJSON(c, 1+c.Rng.Intn(3))
		var b strings.Builder
		d.text(c, &b)
		c.Eval("json" + b.String())
		jsonCase(c, m, d, b.String())
	}
}

func readOne(read func() (*zed.Value, error)) (v *zed.Value, err error, panicked bool) {
	e, p := h.Protect(func() error {
		var e2 error
		v, e2 = read()
		err = e2
		return nil
	})
	if p {
		return nil, e, true
	}
	return v, err, false
}

func jsonCase(c *h.Ctx, m *h.Model, d *jdoc, text string) {
	replay := map[string]any{"check": "json", "doc": d, "text": text}
	zj := zed.NewContext()
	jv, jerr, jp := readOne(jsonio.NewReader(zj, strings.NewReader(text)).Read)
	if jp {
		c.Fail("panic", "C02:json:json-reader-panics", jerr.Error(), replay)
		return
	}
	if jerr != nil || jv == nil {
		c.Stat("json:skipped:json-reader-rejects")
		return
	}
	jc, err := canonValue(zj, *jv, textPrim)
	if err != nil {
		c.Stat("json:skipped:malformed")
		return
	}
	zz := zed.NewContext()
	zv, zerr, zp := readOne(zsonio.NewReader(zz, strings.NewReader(text)).Read)
	f := &jfeat{}
	d.features(f)
	classify := func() string {
		switch {
		case f.loneSurrogate:
			return "C02:json:lone-surrogate-escape"
		case f.surrogate:
			return "C02:json:surrogate-pair-escape"
		case f.dupKey:
			return "C02:json:duplicate-key"
		case f.bigInt:
			return "C02:json:integer-above-int64"
		}
		return "C02:json:unexplained"
	}
	if zp {
		c.Fail("panic", classify(), "the ZSON reader panics on a JSON document: "+clip(zerr.Error(), 300)+"; text="+clip(text, 200), replay)
		return
	}
	var zc string
	if zerr != nil || zv == nil {
		c.Fail("oracle", classify(), fmt.Sprintf("valid JSON rejected as ZSON: %v; text=%q; JSON reader: %s", zerr, clip(text, 200), clip(jc, 200)), replay)
	} else {
		zc, err = canonValue(zz, *zv, textPrim)
		if err != nil {
			c.Fail("oracle", classify(), "ZSON reading is malformed: "+err.Error(), replay)
		} else if zc != jc {
			c.Fail("oracle", classify(), fmt.Sprintf("JSON reader %s, ZSON reader %s; text=%q", clip(jc, 250), clip(zc, 250), clip(text, 200)), replay)
		} else {
			c.Stat("json:agree")
		}
	}
	// model
	mj, ok := d.modelJ()
	if !ok {
		c.Stat("json:model-skipped")
		return
	}
	ans := splitSexps(m.Call("(C02 json " + mj + ")"))
	c.Res.ModelCases++
	if len(ans) != 2 {
		c.Fail("correspondence", "C02:corr:json:driver", "driver answer not understood", replay)
		return
	}
	if ans[0] != jc {
		c.Fail("correspondence", "C02:corr:json:jsonBuild", fmt.Sprintf("real JSON reader %s, model %s; text=%q", clip(jc, 300), clip(ans[0], 300), clip(text, 200)), replay)
		return
	}
	if zc != "" && ans[1] != "(ok "+zc+")" {
		c.Fail("correspondence", "C02:corr:json:zson", fmt.Sprintf("real ZSON reader %s, model %s; text=%q", clip(zc, 300), clip(ans[1], 300), clip(text, 200)), replay)
	}
}

// jsonText runs the oracle on a literal document (no model term).
func jsonText(c *h.Ctx, text string) {
	d, ok := parseJDoc(text)
	if !ok {
		c.Fail("harness", "C02:bad-json-witness", text, nil)
		return
	}
	jsonCase(c, c.Model(), d, text)
}

// parseJDoc: a tiny reader for the witness documents (scalars, flat objects of scalars).
func parseJDoc(text string) (*jdoc, bool) {
	t := strings.TrimSpace(text)
	switch {
	case t == "null" || t == "true" || t == "false":
		return &jdoc{Kind: t}, true
	case strings.HasPrefix(t, `"`) && strings.HasSuffix(t, `"`) && len(t) >= 2:
		return &jdoc{Kind: "str", Src: t[1 : len(t)-1]}, true
	case strings.HasPrefix(t, "{") && strings.HasSuffix(t, "}"):
		d := &jdoc{Kind: "obj"}
		body := strings.TrimSpace(t[1 : len(t)-1])
		if body == "" {
			return d, true
		}
		for _, kv := range strings.Split(body, ",") {
			i := strings.Index(kv, ":")
			if i < 0 {
				return nil, false
			}
			k := strings.TrimSpace(kv[:i])
			if len(k) < 2 {
				return nil, false
			}
			e, ok := parseJDoc(kv[i+1:])
			if !ok {
				return nil, false
			}
			d.Keys = append(d.Keys, k[1:len(k)-1])
			d.Elems = append(d.Elems, e)
		}
		return d, true
	default:
		if _, err := strconv.ParseFloat(t, 64); err == nil {
			return &jdoc{Kind: "num", Src: t}, true
		}
	}
	return nil, false
}
