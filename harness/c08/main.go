package main

// C08 — lake query results are independent of the degree of parallelism.
//
// Sub-checks:
//   par   (S, oracle)          generated pools (many small objects, overlapping/disjoint key
//                              ranges, asc/desc, int/float/string/null/missing/mixed keys) ×
//                              generated programs; parallelism 1 vs {2,3,8,16} under
//                              GOMAXPROCS {1,2,16}, repeated; sequences modulo ties where the
//                              program defines an order, multisets otherwise
//   meta  (T2, correspondence) real lister order / slicer partitions / scatter+merge /
//                              partial aggregation vs the Lean model
//   conc  (S, oracle)          real meta.Lister / meta.Slicer pulled by G goroutines:
//                              exactly-once, per-goroutine order, same partitions
//   sched (S + T2)             the real scatter under scripted (adversarial, reproducible)
//                              assignments of objects to legs: gating storage engine (sched.go)

import (
	"encoding/json"
	"fmt"
	"math/rand"
	"os"
	"runtime"
	"strings"
	"sync/atomic"
	"time"
	. "verifharness/hlib"

	"github.com/brimdata/super/compiler"
	"github.com/segmentio/ksuid"
)

func main() { Main("C08", run) }

var poolCounter int64
var debugPlans = os.Getenv("C08_PLANS") != ""

func newPoolName() string { return fmt.Sprintf("p%d", atomic.AddInt64(&poolCounter, 1)) }

// buildPool creates a pool from the spec: one load (= one object) per inner list.
// Every pool lives in a lake of its own (concurrent pool creation in one lake contends on the
// lake's pool-config journal).  The caller closes the lake.
func buildPool(spec *poolSpec) (*TLake, string, ksuid.KSUID, error) {
	l, err := NewTLake()
	if err != nil {
		return nil, "", ksuid.Nil, err
	}
	name, id, err := buildPoolOn(l, spec)
	if err != nil {
		l.Close()
		return nil, "", ksuid.Nil, err
	}
	return l, name, id, nil
}

// buildPoolOn creates the pool of the spec in the given lake.
func buildPoolOn(l *TLake, spec *poolSpec) (string, ksuid.KSUID, error) {
	name := newPoolName()
	var id ksuid.KSUID
	err, _ := Protect(func() error {
		var err error
		id, err = l.CreatePool(name, spec.Key, spec.Desc, 0, 1<<30)
		if err != nil {
			return err
		}
		for _, recs := range spec.loadTexts() {
			if _, err := l.LoadZSON(id, "main", strings.Join(recs, "\n")); err != nil {
				return fmt.Errorf("load: %w", err)
			}
		}
		return nil
	})
	return name, id, err
}

type refRes struct {
	out      []outRec
	err      error
	panicked bool
	full     []outRec // result of Base at parallelism 1 (head/tail programs)
	fullErr  error
}

type runSpec struct {
	Prog, Par, GMP, Reps int
}

type runResult struct {
	run      runSpec
	how      string // "" = agree
	what     string
	panicked bool
	bothErr  string
	outLen   int
	class    string // narrowed program class of a failure
}

type poolCase struct {
	lake     *TLake
	spec     *poolSpec
	name     string
	progs    []prog
	refs     []refRes
	runs     []runSpec
	buildErr error
	results  []runResult
	tieFree  bool
	idPos    map[int64]int // record id -> position of its key in the pool's key order
	shapes   []string      // parallel plan shape per program (coverage statistics)
}

func computeRef(l *TLake, pool string, q prog, idPos map[int64]int) refRes {
	var r refRes
	r.out, r.err, r.panicked = queryRecs(l, q.query(pool, q.Body), 1, q.Tie, idPos)
	if q.HT != "" {
		r.full, r.fullErr, _ = queryRecs(l, q.query(pool, q.Base), 1, q.Tie, idPos)
	}
	return r
}

// judge compares one result with the parallelism-1 reference under the rules of the property.
func judge(tieFree bool, q prog, ref refRes, out []outRec, outErr error) (how, what, bothErr string) {
	if ref.err != nil || outErr != nil {
		if ref.err != nil && outErr != nil {
			return "", "", errClass(ref.err)
		}
		return "error", fmt.Sprintf("error at one parallelism only: parallelism 1: %v; here: %v", ref.err, outErr), ""
	}
	switch {
	case q.HT != "" && q.Mode == "sub":
		if ref.fullErr != nil {
			return "", "", "full:" + errClass(ref.fullErr)
		}
		want := min(q.N, len(ref.full))
		if len(out) != want {
			return "length", fmt.Sprintf("got %d values, want min(%d, %d)", len(out), q.N, len(ref.full)), ""
		}
		if !subMultiset(canon(out, q.Collect), canon(ref.full, q.Collect)) {
			return "multiset", "output is not a sub-multiset of the full result: extra=" + short(MsDiff(canon(out, q.Collect), canon(ref.full, q.Collect), 3)), ""
		}
	case q.HT != "":
		if ref.fullErr != nil {
			return "", "", "full:" + errClass(ref.fullErr)
		}
		what, how := cmpHead(ref.full, out, q.N, q.HT == "tail")
		return how, what, ""
	case q.Mode == "seq":
		what, how := cmpSeqModTies(ref.out, out)
		return how, what, ""
	case q.Mode == "set":
		if tieFree {
			if !SameSeq(texts(ref.out), texts(out)) {
				return "seq", fmt.Sprintf("sequences differ (pool without key ties): parallelism 1 %s, here %s", short(texts(ref.out)), short(texts(out))), ""
			}
		} else if a, b := distinctSet(texts(ref.out)), distinctSet(texts(out)); !SameSeq(a, b) {
			return "multiset", fmt.Sprintf("distinct values differ: parallelism 1 %s, here %s", short(a), short(b)), ""
		}
	default:
		if d := cmpMultiset(canon(ref.out, q.Collect), canon(out, q.Collect)); d != "" {
			return "multiset", d, ""
		}
	}
	return "", "", ""
}

// failClass narrows the program class of a failing case: a descending sort over input in
// which the (first) sort field is null or missing for some record is its own class.
func failClass(q prog, ref refRes) string {
	if !strings.Contains(q.Body, "sort -r ") {
		return q.Class
	}
	for _, rs := range [][]outRec{ref.out, ref.full} {
		for _, r := range rs {
			if r.Tie == "null" || strings.HasPrefix(r.Tie, "null\x00") {
				return q.Class + "-desc-nulls"
			}
		}
	}
	return q.Class
}

func runOne(pc *poolCase, rs runSpec) runResult {
	l := pc.lake
	q := pc.progs[rs.Prog]
	res := runResult{run: rs}
	for rep := 0; rep < rs.Reps; rep++ {
		out, err, panicked := queryRecs(l, q.query(pc.name, q.Body), rs.Par, q.Tie, pc.idPos)
		res.outLen = len(out)
		if panicked && !pc.refs[rs.Prog].panicked {
			res.panicked, res.how, res.what, res.class = true, "panic", err.Error(), q.Class
			return res
		}
		how, what, both := judge(pc.tieFree, q, pc.refs[rs.Prog], out, err)
		res.bothErr = both
		if how != "" {
			res.how, res.what = how, what
			res.class = failClass(q, pc.refs[rs.Prog])
			return res
		}
	}
	return res
}

type parReplay struct {
	Check string     `json:"check"`
	Pool  *poolSpec  `json:"pool"`
	Loads [][]string `json:"loads"`
	Prog  prog       `json:"prog"`
	Par   int        `json:"parallelism"`
	GMP   int        `json:"gomaxprocs"`
	Query string     `json:"query"`
}

func mkReplay(spec *poolSpec, q prog, par, gmp int) parReplay {
	return parReplay{Check: "par", Pool: spec, Loads: spec.loadTexts(), Prog: q, Par: par, GMP: gmp, Query: q.query("POOL", q.Body)}
}

// tryCase builds the pool and runs one program at parallelism 1 and par (reps times);
// returns the first disagreement.
func tryCase(spec *poolSpec, q prog, par, reps int) (how, what string, panicked bool, ok bool) {
	l, name, _, err := buildPool(spec)
	if err != nil {
		return "", "", false, false
	}
	defer l.Close()
	if debugPlans {
		s1, _ := planShape(l, q.query(name, q.Body), 1)
		sp, _ := planShape(l, q.query(name, q.Body), par)
		fmt.Printf("plan p=1: %s\nplan p=%d: %s\n", s1, par, sp)
	}
	pc := &poolCase{lake: l, spec: spec, name: name, progs: []prog{q}, tieFree: spec.tieFree(), idPos: spec.idPos()}
	pc.refs = []refRes{computeRef(l, name, q, pc.idPos)}
	if pc.refs[0].panicked {
		return q.Class + ":panic", pc.refs[0].err.Error(), true, true
	}
	r := runOne(pc, runSpec{Prog: 0, Par: par, Reps: reps})
	if r.how != "" && r.class != "" {
		r.how = r.class + ":" + r.how
	}
	return r.how, r.what, r.panicked, true
}

// shrink drops loads and records while the case still fails (within a time budget).
func shrink(spec *poolSpec, q prog, par int, class string, budget time.Duration) *poolSpec {
	deadline := time.Now().Add(budget)
	fails := func(s *poolSpec) bool {
		if time.Now().After(deadline) || len(s.Recs) == 0 {
			return false
		}
		how, _, _, ok := tryCase(s, q, par, 4)
		return ok && strings.HasPrefix(how, class+":")
	}
	cur := spec
	clone := func(s *poolSpec) *poolSpec {
		c := *s
		c.Recs = make([][]rec, len(s.Recs))
		for i := range s.Recs {
			c.Recs[i] = append([]rec(nil), s.Recs[i]...)
		}
		return &c
	}
	// loads: halves, then one by one
	for chunk := len(cur.Recs) / 2; chunk >= 1; chunk /= 2 {
		for i := 0; i+chunk <= len(cur.Recs); {
			c := clone(cur)
			c.Recs = append(c.Recs[:i], c.Recs[i+chunk:]...)
			if fails(c) {
				cur = c
			} else {
				i += chunk
			}
		}
	}
	// records inside loads
	for i := 0; i < len(cur.Recs); i++ {
		for j := 0; j < len(cur.Recs[i]) && len(cur.Recs[i]) > 1; {
			c := clone(cur)
			c.Recs[i] = append(c.Recs[i][:j], c.Recs[i][j+1:]...)
			if fails(c) {
				cur = c
			} else {
				j++
			}
		}
	}
	return cur
}

var allPars = []int{2, 3, 8, 16}
var allGMP = []int{16, 2, 1}

func runPar(c *Ctx) {
	npools := c.N(18, 30)
	nprogs := c.N(8, 28)
	cases := make([]*poolCase, npools)
	rngs := make([]*rand.Rand, npools)
	for i := range cases {
		rngs[i] = rand.New(rand.NewSource(c.Rng.Int63()))
	}
	for i := range cases {
		r := rngs[i]
		pc := &poolCase{spec: genPool(r, false)}
		pc.tieFree = pc.spec.tieFree()
		pc.idPos = pc.spec.idPos()
		pc.progs = newProgGen(r, pc.spec).programs(nprogs)
		for pi := range pc.progs {
			if c.Thorough() {
				for _, par := range allPars {
					for _, g := range allGMP {
						reps := map[int]int{16: 2, 2: 2, 1: 1}[g]
						pc.runs = append(pc.runs, runSpec{Prog: pi, Par: par, GMP: g, Reps: reps})
					}
				}
			} else {
				perm := r.Perm(len(allPars))
				for _, k := range perm[:2+r.Intn(2)] {
					g := []int{16, 16, 16, 2, 2, 1}[r.Intn(6)]
					pc.runs = append(pc.runs, runSpec{Prog: pi, Par: allPars[k], GMP: g, Reps: 1 + r.Intn(2)})
				}
			}
		}
		cases[i] = pc
	}
	workers := 12
	// phase A: build pools, references at parallelism 1
	t0 := time.Now()
	ParallelDo(npools, workers, func(i int) {
		pc := cases[i]
		pc.lake, pc.name, _, pc.buildErr = buildPool(pc.spec)
		if pc.buildErr != nil {
			return
		}
		pc.refs = make([]refRes, len(pc.progs))
		pc.shapes = make([]string, len(pc.progs))
		for pi, q := range pc.progs {
			pc.refs[pi] = computeRef(pc.lake, pc.name, q, pc.idPos)
			if pc.refs[pi].err == nil {
				pc.shapes[pi], _ = planShape(pc.lake, q.query(pc.name, q.Body), 2)
			}
		}
	})
	c.Note("par: %d pools built and referenced in %.1fs", npools, time.Since(t0).Seconds())
	// phase B: one phase per GOMAXPROCS value over all pools
	old := runtime.GOMAXPROCS(0)
	for _, g := range allGMP {
		t1 := time.Now()
		runtime.GOMAXPROCS(g)
		w := workers
		if g < 4 {
			w = 4
		}
		ParallelDo(npools, w, func(i int) {
			pc := cases[i]
			if pc.buildErr != nil {
				return
			}
			for _, rs := range pc.runs {
				if rs.GMP == g {
					pc.results = append(pc.results, runOne(pc, rs))
				}
			}
		})
		runtime.GOMAXPROCS(old)
		c.Note("par: GOMAXPROCS=%d phase %.1fs", g, time.Since(t1).Seconds())
	}
	// merge (single-threaded: Ctx is not concurrency-safe)
	type failure struct {
		pc *poolCase
		r  runResult
	}
	var fails []failure
	noted := map[string]int{}
	for i, pc := range cases {
		sp := pc.spec
		ord := "asc"
		if sp.Desc {
			ord = "desc"
		}
		c.Stat("par:keyclass:" + sp.Class)
		c.Stat("par:order:" + ord)
		c.Stat("par:key:" + sp.Key)
		c.Stat("par:shape:" + sp.Shape)
		c.Stat(fmt.Sprintf("par:objects:%s", bucket(len(sp.Recs))))
		c.Stat(fmt.Sprintf("par:records:%s", bucket(sp.nrecs())))
		if pc.tieFree {
			c.Stat("par:pool-tie-free")
		}
		if pc.buildErr != nil {
			c.Fail("oracle", "C08:par:setup", "cannot build pool: "+pc.buildErr.Error(), map[string]any{"check": "par", "pool": sp})
			continue
		}
		if i < 3 {
			c.Sample(map[string]any{"key": sp.Key, "order": ord, "class": sp.Class, "shape": sp.Shape, "objects": len(sp.Recs),
				"first_load": sp.loadTexts()[0], "programs": progTexts(pc.progs)})
		}
		for pi, q := range pc.progs {
			ref := pc.refs[pi]
			if pc.shapes[pi] != "" {
				c.Stat("par:plan:" + strings.TrimPrefix(pc.shapes[pi], "lister|"))
			}
			if ref.panicked {
				c.Fail("panic", "C08:par:"+q.Class+":panic-p1", ref.err.Error(), mkReplay(sp, q, 1, 0))
			}
			if ref.err != nil {
				c.Stat("par:ref-error:" + errClass(ref.err))
				if k := "ref-error:" + errClass(ref.err); noted[k] == 0 {
					noted[k]++
					c.Note("par: example of %s: `%s`: %v", k, q.query("POOL", q.Body), ref.err)
				}
			}
			// self-consistency of head/tail at parallelism 1 (a failure here means the tie
			// reasoning of this harness is wrong, or head/tail are wrong sequentially)
			if q.HT != "" && ref.err == nil && !ref.panicked {
				if how, what, _ := judge(pc.tieFree, q, ref, ref.out, nil); how != "" {
					c.Fail("oracle", "C08:par:"+q.Class+":p1-inconsistent", fmt.Sprintf("`%s` at parallelism 1 is inconsistent with its own full result: %s", q.query("POOL", q.Body), what), mkReplay(sp, q, 1, 0))
				}
			}
		}
		for _, r := range pc.results {
			q := pc.progs[r.run.Prog]
			c.Eval(fmt.Sprintf("par:%s:%s:%s:%s:%s:p%d", sp.Class, ord, sp.Key, sp.Shape, q.Class, r.run.Par))
			c.Stat("par:prog:" + q.Class)
			c.Stat(fmt.Sprintf("par:parallelism:%d", r.run.Par))
			c.Stat(fmt.Sprintf("par:gomaxprocs:%d", r.run.GMP))
			c.StatN("par:runs", r.run.Reps)
			if q.Mode == "seq" {
				c.Stat("par:compare:ordered")
			} else {
				c.Stat("par:compare:" + q.Mode)
			}
			if r.bothErr != "" {
				c.Stat("par:error-both:" + r.bothErr)
			}
			if r.outLen == 0 {
				c.Stat("par:empty-result")
			}
			if r.how != "" {
				fails = append(fails, failure{pc, r})
			}
		}
	}
	for _, pc := range cases {
		if pc.lake != nil {
			pc.lake.Close()
		}
	}
	// report, shrinking the first few
	shrunk := 0
	seen := map[string]int{}
	for _, f := range fails {
		q := f.pc.progs[f.r.run.Prog]
		class := f.r.class
		if class == "" {
			class = q.Class
		}
		key := "C08:par:" + class + ":" + f.r.how
		seen[key]++
		spec, what := f.pc.spec, f.r.what
		if seen[key] == 1 && shrunk < c.N(2, 6) && !f.r.panicked {
			shrunk++
			runtime.GOMAXPROCS(f.r.run.GMP)
			spec = shrink(f.pc.spec, q, f.r.run.Par, class, time.Duration(c.N(6, 25))*time.Second)
			if spec != f.pc.spec {
				if _, w, _, ok := tryCase(spec, q, f.r.run.Par, 6); ok && w != "" {
					what = w
				}
			}
			runtime.GOMAXPROCS(old)
		}
		kind := "oracle"
		if f.r.panicked {
			kind = "panic"
		}
		ord := "asc"
		if spec.Desc {
			ord = "desc"
		}
		c.Fail(kind, key, fmt.Sprintf("`%s` on a pool (key %s %s, %d objects, %d records) at parallelism %d, GOMAXPROCS %d: %s",
			q.query("POOL", q.Body), spec.Key, ord, len(spec.Recs), spec.nrecs(), f.r.run.Par, f.r.run.GMP, what),
			mkReplay(spec, q, f.r.run.Par, f.r.run.GMP))
	}
}

func progTexts(ps []prog) []string {
	var out []string
	for _, p := range ps {
		out = append(out, p.Body)
	}
	return out
}

func bucket(n int) string {
	switch {
	case n <= 5:
		return "1-5"
	case n <= 10:
		return "6-10"
	case n <= 20:
		return "11-20"
	case n <= 50:
		return "21-50"
	case n <= 150:
		return "51-150"
	}
	return ">150"
}

// replayPar re-runs one recorded case: several repetitions under the recorded GOMAXPROCS.
func replayPar(c *Ctx, raw json.RawMessage) bool {
	var r parReplay
	if err := json.Unmarshal(raw, &r); err != nil || r.Pool == nil || r.Check != "par" {
		return false
	}
	old := runtime.GOMAXPROCS(0)
	defer runtime.GOMAXPROCS(old)
	gmps := []int{r.GMP}
	if r.GMP == 0 {
		gmps = []int{old}
	}
	pars := []int{r.Par}
	if r.Par <= 1 {
		pars = allPars
	}
	for _, g := range gmps {
		runtime.GOMAXPROCS(g)
		for _, par := range pars {
			c.Eval(fmt.Sprintf("replay:%s:p%d", r.Prog.Body, par))
			how, what, panicked, ok := tryCase(r.Pool, r.Prog, par, 8)
			if !ok {
				c.Note("replay: cannot build pool")
				continue
			}
			if how != "" {
				kind := "oracle"
				if panicked {
					kind = "panic"
				}
				if !strings.Contains(how, ":") {
					how = r.Prog.Class + ":" + how
				}
				c.Fail(kind, "C08:par:"+how, fmt.Sprintf("replayed `%s` at parallelism %d: %s", r.Prog.query("POOL", r.Prog.Body), par, what), mkReplay(r.Pool, r.Prog, par, g))
			}
		}
	}
	return true
}

func run(c *Ctx) {
	c.Rule("par: pools with key k or a.k, asc/desc, 3..40 single-object loads of 1..25 records whose key ranges are disjoint / touching / nested / chained / identical / single-key / random / mixtures, " +
		"key classes int, float(n/4), int+float+uint64 representations of equal numbers, string, int+null/missing, mixed (numbers<strings<null/missing); every record has unique id, group g (<=4 values, sometimes null/missing, str/int/mixed), exactly summable v (small ints or n/8), bool b, string s; " +
		"programs from ~55 template classes (filters on v/key/g, cut/drop/put/rename keeping or destroying the key, head/tail N in {0,1,2,3,5,9,50,>pool}, sorts, uniq, fuse, yield key, aggregations with and without keys incl. the pool key, where-clauses, two-stage) run at parallelism 1 and {2,3,8,16} under GOMAXPROCS {1,2,16}; " +
		"ordered programs are compared as sequences modulo ties of the order key, head/tail against the full parallelism-1 result, others as multisets (collect arrays sorted); distinct = (key class, order, key path, shape, program class, parallelism). " +
		"meta: real :objects/:partitions vs model lister/slice/span, model scatter+merge and partial sums under random schedules vs real results at parallelism n. conc: real Lister/Slicer pulled by 2..16 goroutines. " +
		"sched: the lake on a gating storage.Engine; scripts (hold-first, reverse, evens-then-odds, swap-pairs, hold-every-pth, hold-first-half, random) fix the order in which data-object opens may complete, forcing the assignment of objects/partitions to scatter legs; result vs parallelism 1, exactly-once opens, per-leg lister order, partitions unsplit, model scatter/partials under the realised assignment")
	defer runtime.GOMAXPROCS(runtime.GOMAXPROCS(0))

	if c.Replay != nil {
		if !replayPar(c, c.Replay) && !replayMeta(c, c.Replay) && !replayConc(c, c.Replay) && !replaySched(c, c.Replay) {
			c.Note("replay not understood")
		}
		return
	}
	for _, raw := range c.CorpusCases() {
		if replayPar(c, raw) || replayMeta(c, raw) || replaySched(c, raw) {
			c.Stat("corpus-cases")
		}
	}
	if c.Only["parse"] {
		// harness self-test: every template must parse
		bad := map[string]bool{}
		for i := 0; i < 300; i++ {
			r := rand.New(rand.NewSource(int64(i)))
			sp := genPool(r, false)
			for _, q := range newProgGen(r, sp).programs(60) {
				if _, _, err := compiler.Parse(q.query("p", q.Body)); err != nil && !bad[q.Body] {
					bad[q.Body] = true
					c.Note("does not parse: %s: %v", q.Body, err)
				}
			}
		}
		return
	}
	if c.Want("par") {
		runWitnesses(c)
		runPar(c)
	}
	if c.Want("meta") {
		runMeta(c)
	}
	if c.Want("conc") {
		runConc(c)
	}
	if c.Want("sched") {
		runSched(c)
	}
}
