package main

import (
	"fmt"
	. "verifharness/hlib"
)

// c07KnownWitnesses are the recorded defects' witnesses (findings/C07.json); each is replayed on
// the real code on every run, so the KNOWN-FINDING lines do not depend on the random draw and a
// repaired defect shows up as "no longer fails".
var c07KnownWitnesses = []c07Case{
	{Check: "behav", Prog: OptProg{Stages: []string{"where a"}}, Input: []string{"{a:1,b:2}", "{a:true,b:2}"}},
	{Check: "behav", Prog: OptProg{Stages: []string{"fork (=> pass => pass)", "put n:=count()"}}, Input: []string{"{a:1}", "{a:1}"}, Force: "bag"},
	{Check: "behav", Prog: OptProg{Stages: []string{"put x:=1", "where a", "where b==2"}}, Input: []string{"{a:1,b:2}"}},
	{Check: "behav", Prog: OptProg{Stages: []string{"fork (=> fork (=> pass => pass) | where a==1 => pass)", "join on a=a"}}, Input: []string{"{a:1}"}},
	{Check: "behav", Prog: OptProg{Stages: []string{"fork (=> pass => pass)", "count() by k"}}, Input: []string{"{k:1}", "{k:2}"}, SortKey: "k:asc"},
	{Check: "behav", Prog: OptProg{Stages: []string{"fork (=> pass => sort a)", "join on k=a"}}, Input: []string{"{k:null,a:null}", "{k:1,a:1}"}, SortKey: "k:desc"},
}

func c07Known(c *Ctx, l *TLake) {
	{
		// null and missing keys tie in the declared order and interleave; floor() maps them to
		// two different error values; three batches of input
		var vals []string
		for i := 0; i < 240; i++ {
			if i%2 == 0 {
				vals = append(vals, fmt.Sprintf("{k:null,i:%d}", i))
			} else {
				vals = append(vals, fmt.Sprintf("{i:%d}", i))
			}
		}
		cs := c07Case{Check: "behav", Prog: OptProg{Stages: []string{"count() by k:=floor(k)"}}, Input: vals, SortKey: "k:asc"}
		before := len(c.Res.Failures)
		cs.check(c, l)
		if len(c.Res.Failures) == before {
			c.Stat("known:no-longer-fails")
			c.Note("recorded witness no longer fails: `count() by k:=floor(k)` over interleaved null/missing keys")
		}
	}
	if c.Thorough() {
		// costs the long timeout: a fork whose legs a join pulls unevenly deadlocks beyond one batch
		var vals []string
		for i := 0; i < 130; i++ {
			vals = append(vals, fmt.Sprintf("{k:%d,a:%d}", i, i))
		}
		cs := c07Case{Check: "behav", Prog: OptProg{Stages: []string{"fork (=> pass => sort a)", "join on k=a"}}, Input: vals, SortKey: "k:asc"}
		cs.check(c, l)
		// a sort lifted into fork legs one of which ends in fuse: the inserted merge never sees
		// the end of the stream, even on empty input
		cs2 := c07Case{Check: "behav", Prog: OptProg{Stages: []string{"fork (=> fuse => pass)", "sort s"}}}
		cs2.check(c, l)
	}
	for i := range c07KnownWitnesses {
		cs := c07KnownWitnesses[i]
		before := len(c.Res.Failures)
		cs.check(c, l)
		if len(c.Res.Failures) == before {
			c.Stat("known:no-longer-fails")
			c.Note("recorded witness no longer fails: `%s`", cs.Prog.Text())
		}
	}
}
