package hlib

// S-expression transport of the VNG model objects (syntax of lean/Zed/Model/VngSexp.lean):
// typed rendering of values, a small parser, and conversion of parsed types back to TSpec.

import (
	"encoding/hex"
	"fmt"
	"strconv"
	"strings"

	zed "github.com/brimdata/super"
)

// SexpT renders the value in the model syntax, type-directed: a union body [tag, v] becomes
// (u tag v); named / error wrappers are transparent.
func (v *VVal) SexpT(t *TSpec) string {
	var sb strings.Builder
	v.sexpT(t, &sb)
	return sb.String()
}

func (v *VVal) sexpT(t *TSpec, sb *strings.Builder) {
	for t.Kind == "named" || t.Kind == "error" {
		t = t.Elems[0]
	}
	switch {
	case v.Null:
		sb.WriteString("n")
	case !v.Cont:
		sb.WriteString("(p ")
		sb.WriteString(HexAtom(v.Prim))
		sb.WriteByte(')')
	case t.Kind == "union":
		tag := -1
		if len(v.Items) >= 1 && !v.Items[0].Null {
			tag = int(zed.DecodeInt(v.Items[0].Prim))
		}
		if tag < 0 || tag >= len(t.Elems) || len(v.Items) != 2 {
			sb.WriteString("(bad-union)")
			return
		}
		fmt.Fprintf(sb, "(u %d ", tag)
		v.Items[1].sexpT(t.Elems[tag], sb)
		sb.WriteByte(')')
	default:
		sb.WriteString("(c")
		for i, it := range v.Items {
			sb.WriteByte(' ')
			var et *TSpec
			switch t.Kind {
			case "record":
				if i < len(t.Fields) {
					et = t.Fields[i].Type
				}
			case "array", "set":
				et = t.Elems[0]
			case "map":
				et = t.Elems[i%2]
			}
			if et == nil {
				sb.WriteString("(bad-item)")
				continue
			}
			it.sexpT(et, sb)
		}
		sb.WriteByte(')')
	}
}

// ModelRow renders a real value as the model prints a row: (type value).
func ModelRow(v zed.Value) string {
	spec := SpecOf(v.Type())
	return "(" + spec.Descr() + " " + VValOfBody(spec, v.Bytes()).SexpT(spec) + ")"
}

// ---- parser ------------------------------------------------------------------------------

type SX struct {
	Atom string
	List []*SX
	IsL  bool
}

func ParseSX(s string) (*SX, error) {
	p := &sxParser{s: s}
	x, err := p.parse()
	if err != nil {
		return nil, err
	}
	p.skip()
	if p.i != len(p.s) {
		return nil, fmt.Errorf("trailing input at %d", p.i)
	}
	return x, nil
}

type sxParser struct {
	s string
	i int
}

func (p *sxParser) skip() {
	for p.i < len(p.s) && (p.s[p.i] == ' ' || p.s[p.i] == '\t' || p.s[p.i] == '\n') {
		p.i++
	}
}

func (p *sxParser) parse() (*SX, error) {
	p.skip()
	if p.i >= len(p.s) {
		return nil, fmt.Errorf("unexpected end")
	}
	if p.s[p.i] == '(' {
		p.i++
		x := &SX{IsL: true}
		for {
			p.skip()
			if p.i >= len(p.s) {
				return nil, fmt.Errorf("unclosed list")
			}
			if p.s[p.i] == ')' {
				p.i++
				return x, nil
			}
			e, err := p.parse()
			if err != nil {
				return nil, err
			}
			x.List = append(x.List, e)
		}
	}
	if p.s[p.i] == ')' {
		return nil, fmt.Errorf("unexpected )")
	}
	j := p.i
	for j < len(p.s) && p.s[j] != ' ' && p.s[j] != '(' && p.s[j] != ')' {
		j++
	}
	x := &SX{Atom: p.s[p.i:j]}
	p.i = j
	return x, nil
}

func (x *SX) Head() string {
	if x.IsL && len(x.List) > 0 && !x.List[0].IsL {
		return x.List[0].Atom
	}
	return ""
}

func (x *SX) Nat() (int, error) {
	if x.IsL {
		return 0, fmt.Errorf("not a number")
	}
	return strconv.Atoi(x.Atom)
}

func (x *SX) Nats() ([]int, error) {
	if !x.IsL {
		return nil, fmt.Errorf("not a list")
	}
	var out []int
	for _, e := range x.List {
		n, err := e.Nat()
		if err != nil {
			return nil, err
		}
		out = append(out, n)
	}
	return out, nil
}

func (x *SX) Hex() ([]byte, error) {
	if x.IsL {
		return nil, fmt.Errorf("not a hex atom")
	}
	if x.Atom == "-" {
		return []byte{}, nil
	}
	return hex.DecodeString(x.Atom)
}

// TSpecOfSX parses a type in Descr syntax.
func TSpecOfSX(x *SX) (*TSpec, error) {
	switch x.Head() {
	case "prim":
		if len(x.List) != 2 {
			break
		}
		n, err := x.List[1].Nat()
		if err != nil {
			return nil, err
		}
		return Prim(n), nil
	case "enum":
		t := &TSpec{Kind: "enum"}
		for _, s := range x.List[1:] {
			b, err := s.Hex()
			if err != nil {
				return nil, err
			}
			t.Syms = append(t.Syms, string(b))
		}
		return t, nil
	case "record":
		t := &TSpec{Kind: "record"}
		for _, f := range x.List[1:] {
			if !f.IsL || len(f.List) != 2 {
				return nil, fmt.Errorf("bad field")
			}
			nm, err := f.List[0].Hex()
			if err != nil {
				return nil, err
			}
			ft, err := TSpecOfSX(f.List[1])
			if err != nil {
				return nil, err
			}
			t.Fields = append(t.Fields, TField{string(nm), ft})
		}
		return t, nil
	case "named":
		if len(x.List) != 3 {
			break
		}
		nm, err := x.List[1].Hex()
		if err != nil {
			return nil, err
		}
		it, err := TSpecOfSX(x.List[2])
		if err != nil {
			return nil, err
		}
		return &TSpec{Kind: "named", Name: string(nm), Elems: []*TSpec{it}}, nil
	case "array", "set", "error", "map", "union":
		t := &TSpec{Kind: x.Head()}
		for _, e := range x.List[1:] {
			et, err := TSpecOfSX(e)
			if err != nil {
				return nil, err
			}
			t.Elems = append(t.Elems, et)
		}
		return t, nil
	}
	return nil, fmt.Errorf("bad type s-expression")
}
