import Zed.Model.Sexp
import Zed.Model.ZsonAnalyze
/-!
  C02 — JSON ⊂ ZSON.  A JSON document (grammar `J`) is read two ways:

  * `jsonBuild` mirrors `zio/jsonio/reader.go` + `builder.go`: numbers that are int64
    literals become `int64`, all other numbers `float64`; arrays take the union of the
    (non-null) element types; an object with a repeated key keeps the *last* value at the
    *first* position (`removeDuplicateItems`);
  * `toAst` is the abstract syntax the ZSON parser builds for the same text (`matchPrimitive`
    tries `ParseInt`, then `ParseUint`, then `ParseFloat`; `matchFields` keeps the *first*
    field of a repeated name), which then goes through the ZSON analyzer.

  Number and string *text* is a parameter: a number carries its source spelling (which
  decides the class) and the canonical spellings of the value both readers compute from it;
  a string carries the decoded characters.
-/
namespace Zed.Zson.Json
open Generated

mutual
inductive J where
  | null
  | bool (b : Bool)
  | num (src canonInt canonFloat : Bytes)
  | str (s : Bytes)
  | arr (xs : JList)
  | obj (fs : JFields)
inductive JList where
  | nil
  | cons (x : J) (rest : JList)
inductive JFields where
  | nil
  | cons (n : Name) (x : J) (rest : JFields)
end

deriving instance DecidableEq for J, JList, JFields
deriving instance Repr for J, JList, JFields

def idInt64 : Nat := (lookupPrimitive (ascii "int64")).getD 0
def idUint64 : Nat := (lookupPrimitive (ascii "uint64")).getD 0
def idFloat64 : Nat := (lookupPrimitive (ascii "float64")).getD 0
def idBool : Nat := (lookupPrimitive (ascii "bool")).getD 0
def idString : Nat := C02.idString

def isDigits : Bytes → Bool
  | [] => false
  | bs => bs.all isDigitB

def decVal : Bytes → Nat → Nat
  | [], acc => acc
  | b :: r, acc => decVal r (acc * 10 + (b.toNat - 48))

inductive NumClass where | int64 | uint64 | float
  deriving DecidableEq, Repr

/-- what `strconv.ParseInt(s,10,64)` / `ParseUint` accept among JSON number spellings. -/
def numClass (src : Bytes) : NumClass :=
  match src with
  | 45 :: r => if isDigits r ∧ decVal r 0 ≤ 9223372036854775808 then .int64 else .float
  | _ =>
    if isDigits src then
      if decVal src 0 ≤ 9223372036854775807 then .int64
      else if decVal src 0 ≤ 18446744073709551615 then .uint64
      else .float
    else .float

/-- `removeDuplicateItems` applied until no duplicates remain: for every name the last value,
    at the position of the first occurrence. -/
def lastOf (n : Name) : List (Name × TV) → Option TV
  | [] => none
  | (m, x) :: r => match lastOf n r with
    | some y => some y
    | none => if m = n then some x else none

def dedupLast : List (Name × TV) → List Name → List (Name × TV)
  | [], _ => []
  | (n, x) :: r, seen =>
    if seen.contains n then dedupLast r seen
    else (n, (lastOf n r).getD x) :: dedupLast r (n :: seen)

mutual
def jsonBuild : J → TV
  | .null => (tyNull, .null)
  | .bool b => (.prim idBool, .prim (ascii (if b then "true" else "false")))
  | .num src ci cf =>
    match numClass src with
    | .int64 => (.prim idInt64, .prim ci)
    | _ => (.prim idFloat64, .prim cf)
  | .str s => (.prim idString, .prim s)
  | .arr xs =>
    let tvs := jsonBuildList xs
    match normalizeElems tvs with
    | .ok (vals, inner) => (.array inner, .array (Vals.ofList vals))
    | .error _ => (.array tyNull, .array .nil)
  | .obj fs =>
    let items := dedupLast (jsonBuildFields fs) []
    (.record (mkFields (items.map (·.1)) (items.map (·.2.1))), .record (Vals.ofList (items.map (·.2.2))))
def jsonBuildList : JList → List TV
  | .nil => []
  | .cons x r => jsonBuild x :: jsonBuildList r
def jsonBuildFields : JFields → List (Name × TV)
  | .nil => []
  | .cons n x r => (n, jsonBuild x) :: jsonBuildFields r
end

def numAst (src ci cf : Bytes) : AAny :=
  match numClass src with
  | .int64 => .prim (ascii "int64") ci
  | .uint64 => .prim (ascii "uint64") ci
  | .float => .prim (ascii "float64") cf

mutual
/-- the abstract syntax the ZSON parser builds for the document. -/
def toAst : J → AVal
  | .null => .implied (.prim (ascii "null") (ascii "null"))
  | .bool b => .implied (.prim (ascii "bool") (ascii (if b then "true" else "false")))
  | .num src ci cf => .implied (numAst src ci cf)
  | .str s => .implied (.prim (ascii "string") s)
  | .arr xs => .implied (.array (toAstList xs))
  | .obj fs => .implied (.record (toAstFields fs []))
def toAstList : JList → AVals
  | .nil => .nil
  | .cons x r => .cons (toAst x) (toAstList r)
/-- `matchFields`: a field whose name was seen already is parsed and dropped. -/
def toAstFields : JFields → List Name → AVFields
  | .nil, _ => .nil
  | .cons n x r, seen =>
    if seen.contains n then toAstFields r seen
    else .cons n (toAst x) (toAstFields r (n :: seen))
end

def JFields.keys : JFields → List Name
  | .nil => []
  | .cons n _ r => n :: r.keys

mutual
/-- the JSON documents `json_subset_partial` covers: no integer literal in (2^63-1, 2^64-1],
    no object with a repeated key. -/
def jsonGuard : J → Bool
  | .num src _ _ => numClass src != .uint64
  | .arr xs => jsonGuardList xs
  | .obj fs => jsonGuardFields fs && fs.keys.Nodup
  | _ => true
def jsonGuardList : JList → Bool
  | .nil => true
  | .cons x r => jsonGuard x && jsonGuardList r
def jsonGuardFields : JFields → Bool
  | .nil => true
  | .cons _ x r => jsonGuard x && jsonGuardFields r
end

/-! driver transport: `null` `true` `false` `(n src ci cf)` `(s hex)` `(a J…)` `(o (hex J)…)` -/
mutual
partial def decJ : Sexp → Option J
  | .atom "null" => some .null
  | .atom "true" => some (.bool true)
  | .atom "false" => some (.bool false)
  | .list [.atom "n", .atom a, .atom b, .atom c] => do
    pure (.num (← Sexp.bytesOfHex a) (← Sexp.bytesOfHex b) (← Sexp.bytesOfHex c))
  | .list [.atom "s", .atom h] => do pure (.str (← Sexp.bytesOfHex h))
  | .list (.atom "a" :: xs) => do pure (.arr (← decJList xs))
  | .list (.atom "o" :: fs) => do pure (.obj (← decJFields fs))
  | _ => none
partial def decJList : List Sexp → Option JList
  | [] => some .nil
  | x :: r => do pure (.cons (← decJ x) (← decJList r))
partial def decJFields : List Sexp → Option JFields
  | [] => some .nil
  | .list [.atom n, x] :: r => do pure (.cons (← Sexp.bytesOfHex n) (← decJ x) (← decJFields r))
  | _ => none
end

end Zed.Zson.Json
