/-
  L4 — lake model, part 1: data objects, snapshots, commit actions.
  Anchors: lake/data/object.go (Object), lake/commits/snapshot.go (Snapshot,
  AddDataObject / DeleteObject / AddVector / DeleteVector, PlayAction, Play),
  lake/commits/actions.go.

  A data object's metadata (id, min, max, count) lives in commit actions; its payload
  (the sorted value sequence written once under a fresh id) lives in the file store
  (`LakeOps.lean`).  A Go `map[ksuid]*Object` is modelled as an association list in
  insertion order with the no-duplicate discipline the Go code enforces on every write
  (`add of a duplicate data object`, `delete of a non-existent data object`).
  Core Lean only.
-/
namespace Zed.Lake

/-- Error classes.  The first four are the `ErrWriteConflict` replay errors of
    `commits.Snapshot`; a commit whose actions raise one makes every branch through it
    unreadable. -/
inductive Err where
  | dupObject | noObject | dupVector | noVector      -- Snapshot write conflicts
  | exists_ | notFound                               -- Patch: ErrExists / ErrNotFound
  | badParent | noBranch | branchExists | noCommit
  | empty        -- ErrEmptyTransaction
  | tooFew       -- compact: two or more source objects required
  | badParts     -- harness-supplied object partition rejected by the model
  | addDelConflict | deleteConflict | emptyDiff | noAncestor | self
  | conflict     -- ErrCommitFailed: exceeded max update attempts to branch tip
  | revertEmpty
  | missingFile
  deriving DecidableEq, Repr, Inhabited

def Err.toStr : Err → String
  | .dupObject => "dup-object" | .noObject => "no-object" | .dupVector => "dup-vector"
  | .noVector => "no-vector" | .exists_ => "exists" | .notFound => "not-found"
  | .badParent => "bad-parent" | .noBranch => "no-branch" | .branchExists => "branch-exists"
  | .noCommit => "no-commit" | .empty => "empty" | .tooFew => "too-few" | .badParts => "bad-parts"
  | .addDelConflict => "add-del-conflict" | .deleteConflict => "delete-conflict"
  | .emptyDiff => "empty-diff" | .noAncestor => "no-ancestor" | .self => "self" | .conflict => "commit-failed"
  | .revertEmpty => "revert-empty" | .missingFile => "missing-file"

/-- Metadata of a data object (`data.Object` without `Size`). -/
structure Obj (K : Type) where
  id : Nat
  min : K
  max : K
  count : Nat
  deriving DecidableEq, Repr

/-- `commits.Snapshot`: objects and vector ids. -/
structure Snap (K : Type) where
  objs : List (Obj K) := []
  vecs : List Nat := []
  deriving Repr

variable {K : Type}

namespace Snap

def empty : Snap K := {}

def ids (s : Snap K) : List Nat := s.objs.map (·.id)

def find (s : Snap K) (id : Nat) : Option (Obj K) := s.objs.find? (·.id == id)

def hasObj (s : Snap K) (id : Nat) : Bool := s.objs.any (·.id == id)

def hasVec (s : Snap K) (id : Nat) : Bool := s.vecs.contains id

/-- `Snapshot.AddDataObject` -/
def addObj (s : Snap K) (o : Obj K) : Except Err (Snap K) :=
  if s.hasObj o.id then .error .dupObject else .ok { s with objs := s.objs ++ [o] }

/-- `Snapshot.DeleteObject` -/
def delObj (s : Snap K) (id : Nat) : Except Err (Snap K) :=
  if s.hasObj id then .ok { s with objs := s.objs.filter (·.id != id) } else .error .noObject

/-- `Snapshot.AddVector` -/
def addVec (s : Snap K) (id : Nat) : Except Err (Snap K) :=
  if s.hasVec id then .error .dupVector else .ok { s with vecs := s.vecs ++ [id] }

/-- `Snapshot.DeleteVector` -/
def delVec (s : Snap K) (id : Nat) : Except Err (Snap K) :=
  if s.hasVec id then .ok { s with vecs := s.vecs.filter (· != id) } else .error .noVector

end Snap

/-- Commit actions other than the `Commit` header (which `PlayAction` ignores). -/
inductive Action (K : Type) where
  | add (o : Obj K)
  | del (id : Nat)
  | addVec (id : Nat)
  | delVec (id : Nat)
  deriving Repr

/-- `commits.PlayAction` on a snapshot. -/
def playAction (s : Snap K) : Action K → Except Err (Snap K)
  | .add o => s.addObj o
  | .del id => s.delObj id
  | .addVec id => s.addVec id
  | .delVec id => s.delVec id

/-- `commits.Play` -/
def play (s : Snap K) : List (Action K) → Except Err (Snap K)
  | [] => .ok s
  | a :: as => match playAction s a with
    | .ok s' => play s' as
    | .error e => .error e

end Zed.Lake
