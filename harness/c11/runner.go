package main

import (
	"bufio"
	"encoding/json"
	"fmt"
	"io"
	"os"
	"os/exec"
	"strings"
	"sync"
	"time"
)

// tail keeps the last bytes written to it (the child's stderr).
type tail struct {
	mu  sync.Mutex
	buf []byte
}

func (t *tail) Write(p []byte) (int, error) {
	t.mu.Lock()
	t.buf = append(t.buf, p...)
	if len(t.buf) > 1<<16 {
		t.buf = t.buf[len(t.buf)-(1<<15):]
	}
	t.mu.Unlock()
	return len(p), nil
}

func (t *tail) String() string {
	t.mu.Lock()
	defer t.mu.Unlock()
	return string(t.buf)
}

func (t *tail) reset() { t.mu.Lock(); t.buf = nil; t.mu.Unlock() }

// runner owns one child process.
type runner struct {
	cmd    *exec.Cmd
	in     io.WriteCloser
	out    *bufio.Reader
	stderr *tail
	lines  chan []byte
}

func (r *runner) start() error {
	exe, err := os.Executable()
	if err != nil {
		return err
	}
	r.cmd = exec.Command(exe)
	r.cmd.Env = append(os.Environ(), "ZVH_C11_CHILD=1", "GOMEMLIMIT=6GiB", "GOTRACEBACK=single")
	r.stderr = &tail{}
	r.cmd.Stderr = r.stderr
	if r.in, err = r.cmd.StdinPipe(); err != nil {
		return err
	}
	so, err := r.cmd.StdoutPipe()
	if err != nil {
		return err
	}
	r.out = bufio.NewReaderSize(so, 1<<20)
	if err := r.cmd.Start(); err != nil {
		return err
	}
	r.lines = make(chan []byte, 1)
	go func(out *bufio.Reader, ch chan []byte) {
		for {
			line, err := out.ReadBytes('\n')
			if len(line) > 0 {
				ch <- line
			}
			if err != nil {
				close(ch)
				return
			}
		}
	}(r.out, r.lines)
	return nil
}

func (r *runner) stop() {
	if r.cmd != nil {
		r.in.Close()
		done := make(chan struct{})
		go func() { r.cmd.Wait(); close(done) }()
		select {
		case <-done:
		case <-time.After(2 * time.Second):
			r.cmd.Process.Kill()
			<-done
		}
		r.cmd = nil
	}
}

func (r *runner) kill() {
	if r.cmd != nil {
		r.cmd.Process.Kill()
		r.cmd.Wait()
		r.cmd = nil
	}
}

// outcome of one job as the parent sees it
type outcome struct {
	result
	Status  string // ok | crash | timeout
	Stderr  string // for crash
	Retried bool   // timed out under load, result is from the solitary re-run
}

func (r *runner) do(j *job, timeout time.Duration) outcome {
	if r.cmd == nil {
		if err := r.start(); err != nil {
			panic(fmt.Errorf("cannot start child: %w", err))
		}
	}
	b, _ := json.Marshal(j)
	b = append(b, '\n')
	if _, err := r.in.Write(b); err != nil {
		se := r.stderr.String()
		r.kill()
		return outcome{Status: "crash", Stderr: se}
	}
	select {
	case line, ok := <-r.lines:
		if !ok {
			r.cmd.Wait()
			se := r.stderr.String()
			r.cmd = nil
			return outcome{Status: "crash", Stderr: se}
		}
		var res result
		if err := json.Unmarshal(line, &res); err != nil || res.ID != j.ID {
			se := r.stderr.String()
			r.kill()
			return outcome{Status: "crash", Stderr: "bad answer from child: " + string(line) + "\n" + se}
		}
		return outcome{result: res, Status: "ok"}
	case <-time.After(timeout):
		se := r.stderr.String()
		r.kill()
		return outcome{Status: "timeout", Stderr: se}
	}
}

// pool runs jobs on n children in parallel; results come back in job order.
func runJobs(jobs []*job, n int, timeout time.Duration) []outcome {
	out := make([]outcome, len(jobs))
	var wg sync.WaitGroup
	ch := make(chan int)
	for w := 0; w < n; w++ {
		wg.Add(1)
		go func() {
			defer wg.Done()
			r := &runner{}
			defer r.stop()
			for i := range ch {
				out[i] = r.do(jobs[i], timeout)
			}
		}()
	}
	for i := range jobs {
		ch <- i
	}
	close(ch)
	wg.Wait()
	// a job that timed out while the machine was busy is run again, alone and with three times
	// the allowance, before it counts as a hang
	for i := range out {
		if out[i].Status == "timeout" {
			r := &runner{}
			o := r.do(jobs[i], 3*timeout)
			r.stop()
			o.Retried = true
			out[i] = o
		}
	}
	return out
}

// crashSignature extracts a short, stable description of why the child died.
func crashSignature(stderr string) (kind, fn string) {
	lines := strings.Split(stderr, "\n")
	for _, l := range lines {
		if strings.HasPrefix(l, "fatal error: ") {
			kind = strings.TrimPrefix(l, "fatal error: ")
			break
		}
		if strings.HasPrefix(l, "panic: ") {
			kind = strings.TrimPrefix(l, "panic: ")
			break
		}
	}
	fn = topRepoFrame(stderr)
	return
}

// topRepoFrame returns the first stack frame inside the repository (function name).
func topRepoFrame(stack string) string {
	for _, l := range strings.Split(stack, "\n") {
		l = strings.TrimSpace(l)
		if strings.HasPrefix(l, "github.com/brimdata/super") && strings.Contains(l, "(") {
			f := l[:strings.LastIndex(l, "(")]
			f = strings.TrimPrefix(f, "github.com/brimdata/super")
			f = strings.TrimPrefix(f, "/")
			f = strings.TrimPrefix(f, ".")
			if strings.Contains(f, "Protect") {
				continue
			}
			return f
		}
	}
	return "unknown"
}
