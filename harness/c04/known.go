package main

import (
	. "verifharness/hlib"
)

// the recorded defect's witnesses, replayed on the real code on every run.
func c04Known(c *Ctx) {
	// the two former defects (fixed by 2b0afda63 and 51d3101c2): their witnesses are replayed on
	// every run and must agree across encodings and pass the buffer filter
	cs := &encCase{Check: "enc", Prog: "search foo", Values: []string{"{a:[{foo:1}]}"},
		Encs: []encCfg{{Format: "zng", Compress: true, Threads: 1}, {Format: "zng", Thresh: 1, Threads: 4}}}
	cs.check(c)
	c04BF(c, []*bfCase{{Check: "bf", Pred: "foo", Frame: []string{"{a:[{foo:1}]}"}},
		{Check: "bf", Pred: `grep("ab", s+t)`, Frame: []string{`{s:"a",t:"b"}`}}})
	cs2 := &encCase{Check: "enc", Prog: `search grep("ab", s+t)`, Values: []string{`{s:"a",t:"b"}`},
		Encs: []encCfg{{Format: "zng", Compress: true, Threads: 1}}}
	cs2.check(c)
}
