import Zed.Model.ZngPeeker
/-! The chunked peeker and the whole-input view answer every request of a client identically. -/
namespace Zed.Zng.Peeker
open Zed.Zng

theorem fillLoop_spec (need : Nat) : ∀ (src : List Bytes) (cur : Bytes),
    (fillLoop need cur src).1 ++ (fillLoop need cur src).2.1.flatten = cur ++ src.flatten ∧
    ((fillLoop need cur src).2.2 = false → need ≤ (fillLoop need cur src).1.length) ∧
    ((fillLoop need cur src).2.2 = true → (fillLoop need cur src).2.1 = [] ∧ (fillLoop need cur src).1.length < need) := by
  intro src
  induction src with
  | nil => intro cur; simp [fillLoop]
  | cons c cs ih =>
    intro cur
    simp only [fillLoop]
    split
    · rename_i h; simp [h]
    · have := ih (cur ++ c)
      simpa [List.append_assoc] using this

/-- what the parser relies on between two successful requests -/
def Inv (s : PState) (bs : Bytes) : Prop := s.rest = bs ∧ s.eof = false

theorem take_append_of_le {a b : Bytes} {n : Nat} (h : n ≤ a.length) : (a ++ b).take n = a.take n := by
  rw [List.take_append_of_le_length h]

theorem drop_append_of_le {a b : Bytes} {n : Nat} (h : n ≤ a.length) : (a ++ b).drop n = a.drop n ++ b := by
  rw [List.drop_append_of_le_length h]

theorem read_sim (limit : Nat) (n : Int) (s : PState) (bs : Bytes) (hi : Inv s bs) (hn : n ≤ (limit : Int)) :
    (read limit n s).1 = (readL limit n bs).1 ∧
    (∀ b, (read limit n s).1 = .ok b → Inv (read limit n s).2 (readL limit n bs).2) := by
  obtain ⟨hrest, heof⟩ := hi
  unfold read readL peekRead
  by_cases hneg : n < 0
  · simp [hneg]
  · simp only [hneg, if_false, heof, Bool.false_eq_true, and_false]
    have hlim : n.toNat ≤ limit := by omega
    have hnl : ¬ (n.toNat > limit) := by omega
    by_cases hshort : s.cursor.length < n.toNat
    · -- a fill is needed
      simp only [hshort, true_and, hnl, if_false]
      have hf := fillLoop_spec n.toNat s.src s.cursor
      generalize fillLoop n.toNat s.cursor s.src = fr at hf
      obtain ⟨cur', src', e⟩ := fr
      simp only at hf
      obtain ⟨hcat, hok, hshortf⟩ := hf
      have hbs : bs = cur' ++ src'.flatten := by rw [← hrest, PState.rest, hcat]
      cases e with
      | false =>
        have hge := hok rfl
        have hlen : hasLen bs n.toNat = true := by rw [hasLen_iff, hbs]; simp; omega
        have hnt : ¬ (cur'.length < n.toNat) := by omega
        simp only [Bool.false_eq_true, and_false, if_false, hnt, hlim, hlen, and_self, if_true]
        refine ⟨by rw [hbs, take_append_of_le hge], ?_⟩
        intro b _
        exact ⟨by simp only [PState.rest]; rw [hbs, drop_append_of_le hge], rfl⟩
      | true =>
        obtain ⟨hsrc, hlt⟩ := hshortf rfl
        subst hsrc
        have hbs' : bs = cur' := by simpa using hbs
        have hnolen : hasLen bs n.toNat = false := by
          cases h : hasLen bs n.toNat with
          | false => rfl
          | true => rw [hasLen_iff, hbs'] at h; omega
        simp only [and_true, hlim, hnolen, Bool.false_eq_true, and_false, if_false, hnl]
        by_cases hemp : cur'.isEmpty
        · simp [hemp, hbs']
        · have hb2 : bs.isEmpty = false := by rw [hbs']; simpa using hemp
          simp [hemp, hlt, hb2]
    · -- enough bytes are buffered
      have hge : n.toNat ≤ s.cursor.length := by omega
      have hbs : bs = s.cursor ++ s.src.flatten := by rw [← hrest, PState.rest]
      have hlen : hasLen bs n.toNat = true := by rw [hasLen_iff, hbs]; simp; omega
      simp only [hshort, false_and, if_false, heof, Bool.false_eq_true, and_false, hlim, hlen, and_self, if_true]
      refine ⟨by rw [hbs, take_append_of_le hge], ?_⟩
      intro b _
      exact ⟨by simp only [PState.rest]; rw [hbs, drop_append_of_le hge], by simp⟩

theorem readL_one (limit : Nat) (hl : 1 ≤ limit) (bs : Bytes) :
    (readL limit 1 bs).1 = (readByteL bs).1 ∧ (∀ b, (readByteL bs).1 = .ok b → (readL limit 1 bs).2 = (readByteL bs).2) := by
  cases bs with
  | nil =>
    have h1 : ¬ (1 > limit) := by omega
    simp [readL, peekRead, readByteL, hasLen, h1]
  | cons b r => simp [readL, peekRead, readByteL, hasLen, hl]

theorem readByte_sim (limit : Nat) (hl : 1 ≤ limit) (s : PState) (bs : Bytes) (hi : Inv s bs) :
    (readByte limit s).1 = (readByteL bs).1 ∧
    (∀ b, (readByte limit s).1 = .ok b → Inv (readByte limit s).2 (readByteL bs).2) := by
  unfold readByte
  cases hc : s.cursor with
  | cons b r =>
    obtain ⟨hrest, heof⟩ := hi
    have hbs : bs = b :: (r ++ s.src.flatten) := by rw [← hrest, PState.rest, hc]; rfl
    simp only [hbs, readByteL]
    exact ⟨by simp, fun _ _ => ⟨by simp [PState.rest], by simp [heof]⟩⟩
  | nil =>
    simp only
    have h1 := read_sim limit 1 s bs hi (by omega)
    have h2 := readL_one limit hl bs
    refine ⟨by rw [h1.1, h2.1], ?_⟩
    intro b hb
    have hb' : (readByteL bs).1 = .ok b := by rw [← h2.1, ← h1.1]; exact hb
    rw [← h2.2 b hb']
    exact h1.2 b hb

/-- **simulation**: a client whose requests stay within the limit gets the same result from the
    chunked peeker as from the whole input, for every chunking. -/
theorem prog_sim {α : Type} (limit : Nat) (hl : 1 ≤ limit) : ∀ (p : Prog α) (s : PState) (bs : Bytes),
    Inv s bs → p.Bounded limit → p.runP limit s = p.runL limit bs := by
  intro p
  induction p with
  | done a => intro s bs _ _; rfl
  | readByte k fail ih =>
    intro s bs hi hb
    have h := readByte_sim limit hl s bs hi
    simp only [Prog.runP, Prog.runL]
    generalize hp : readByte limit s = rp at h
    generalize hq : readByteL bs = rq at h
    obtain ⟨r1, s1⟩ := rp
    obtain ⟨r2, b2⟩ := rq
    simp only at h
    obtain ⟨he, hinv⟩ := h
    subst he
    cases r1 with
    | ok b => exact ih b s1 b2 (hinv b rfl) (hb b)
    | eof => rfl
    | err => rfl
  | read n k fail ih =>
    intro s bs hi hb
    have h := read_sim limit n s bs hi hb.1
    simp only [Prog.runP, Prog.runL]
    generalize hp : read limit n s = rp at h
    generalize hq : readL limit n bs = rq at h
    obtain ⟨r1, s1⟩ := rp
    obtain ⟨r2, b2⟩ := rq
    simp only at h
    obtain ⟨he, hinv⟩ := h
    subst he
    cases r1 with
    | ok b => exact ih b s1 b2 (hinv b rfl) (hb.2 b)
    | eof => rfl
    | err => rfl

end Zed.Zng.Peeker

namespace Zed.Zng.Peeker
open Zed.Zng

/-- `binary.ReadUvarint(peeker)` as a client: one `ReadByte` per byte, at most `k`. -/
def uvProg {α : Type} : Nat → Bool → (Nat → Prog α) → (UvErr → α) → Prog α
  | 0, _, _, fail => .done (fail .overflow)
  | k + 1, first, cont, fail =>
    .readByte
      (fun b => match b with
        | [x] =>
          if x.toNat < 128 then (if k = 0 ∧ x.toNat > 1 then .done (fail .overflow) else cont x.toNat)
          else uvProg k false (fun v => cont (x.toNat - 128 + 128 * v)) fail
        | _ => .done (fail .overflow))
      (fun _ => fail (if first then .eof else .unexpectedEof))

/-- on the whole input this client computes `readUvarintAux` -/
theorem uvProg_runL {α : Type} (limit : Nat) : ∀ (k : Nat) (first : Bool) (cont : Nat → Prog α) (fail : UvErr → α) (bs : Bytes),
    (uvProg k first cont fail).runL limit bs =
      match readUvarintAux k first bs with
      | .ok (v, r) => (cont v).runL limit r
      | .error e => fail e := by
  intro k
  induction k with
  | zero => intro first cont fail bs; simp [uvProg, Prog.runL, readUvarintAux]
  | succ k ih =>
    intro first cont fail bs
    cases bs with
    | nil => simp [uvProg, Prog.runL, readByteL, readUvarintAux]
    | cons b r =>
      simp only [uvProg, Prog.runL, readByteL, readUvarintAux]
      split
      · split
        · simp [Prog.runL]
        · rfl
      · rw [ih]
        split <;> simp_all

theorem uvProg_bounded {α : Type} (limit : Nat) : ∀ (k : Nat) (first : Bool) (cont : Nat → Prog α) (fail : UvErr → α),
    (∀ v, (cont v).Bounded limit) → (uvProg k first cont fail).Bounded limit := by
  intro k
  induction k with
  | zero => intro first cont fail _; simp [uvProg, Prog.Bounded]
  | succ k ih =>
    intro first cont fail hc
    simp only [uvProg, Prog.Bounded]
    intro b
    split
    · split
      · split
        · simp [Prog.Bounded]
        · exact hc _
      · exact ih false _ fail (fun v => hc _)
    · simp [Prog.Bounded]

end Zed.Zng.Peeker

namespace Zed.Zng.Peeker
open Zed.Zng Zed.Generated.C01

/-- `parser.readFrame` as a client of the peeker: the length varint, the limit test, the payload -/
def plainFrameProg (o : ROpts) (code : Nat) : Prog (Except Outcome Bytes) :=
  uvProg 10 true
    (fun u =>
      if asInt (decodeLengthExpr u code) > Int.ofNat o.maxSize then .done (.error .err)
      else .read (asInt (decodeLengthExpr u code)) (fun b => .done (.ok b))
        (fun r => match r with
          | .eof => .error .eof
          | _ => .error .err))
    (fun e => match e with
      | .eof => .error .eof
      | _ => .error .err)

/-- payload or outcome of `readPlainFrame`, forgetting the rest and the allocation list -/
def frameAnswer : FrameRes → Except Outcome Bytes
  | .ok p _ _ => .ok p
  | .stop e _ => .error e

theorem plainFrameProg_runL (o : ROpts) (code : Nat) (bs : Bytes) :
    (plainFrameProg o code).runL o.maxSize bs = frameAnswer (readPlainFrame o code bs) := by
  unfold plainFrameProg readPlainFrame frameLen readUvarint
  rw [uvProg_runL]
  cases h : readUvarintAux 10 true bs with
  | error e => cases e <;> simp [frameAnswer]
  | ok vr =>
    obtain ⟨u, r⟩ := vr
    simp only
    split
    · simp [Prog.runL, frameAnswer]
    · simp only [Prog.runL, readL]
      cases peekRead o.maxSize (asInt (decodeLengthExpr u code)) r <;> simp [Prog.runL, frameAnswer]

theorem plainFrameProg_bounded (o : ROpts) (code : Nat) : (plainFrameProg o code).Bounded o.maxSize := by
  unfold plainFrameProg
  apply uvProg_bounded
  intro v
  split
  · simp [Prog.Bounded]
  · rename_i h
    simp only [Prog.Bounded, Int.ofNat_eq_natCast] at h ⊢
    exact ⟨by omega, fun _ => trivial⟩

end Zed.Zng.Peeker
