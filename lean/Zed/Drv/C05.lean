import Zed.Model.Sexp
import Zed.Model.TyContext
/-!
  Driver glue for C05.

  `(C05 hist <op>…)`        run a creation history on up to 4 model contexts; one answer per op
  `(C05 describe <tvhex>)`  decode a type value in an empty context, print the structure
  `(C05 cmptypes <tv> <tv>)` CompareTypes of two decoded type values (-1/0/1)
  `(C05 typematrix <tv>…)`  the whole CompareTypes matrix, rows separated by `/`
  `(C05 sortunion <tv>…)`   member order LookupTypeUnion gives (indices into the input)
-/
namespace Zed.Drv.C05
open Zed Zed.Sexp

partial def descr : Ty → Sexp
  | .prim id => .list [.atom "prim", .atom (toString id)]
  | .record fs => .list (.atom "record" :: fs.toList.map fun (n, t) => .list [.atom (hexOfBytes n), descr t])
  | .array t => .list [.atom "array", descr t]
  | .set t => .list [.atom "set", descr t]
  | .map k v => .list [.atom "map", descr k, descr v]
  | .union ts => .list (.atom "union" :: ts.toList.map descr)
  | .enum syms => .list (.atom "enum" :: syms.map fun s => .atom (hexOfBytes s))
  | .error t => .list [.atom "error", descr t]
  | .named n t => .list [.atom "named", .atom (hexOfBytes n), descr t]

structure St where
  ctxs : Array Ctx := #[{}, {}, {}, {}]
  results : Array (Option Ty) := #[]
  out : Array String := #[]

def refOf (st : St) (s : String) : Option Ty :=
  if s.startsWith "p" then (s.drop 1).toNat?.map Ty.prim
  else if s.startsWith "r" then
    match (s.drop 1).toNat? with
    | some k => match st.results[k]? with
      | some (some t) => some t
      | _ => none
    | none => none
  else none

def refsOf (st : St) : List Sexp → Option (List Ty)
  | [] => some []
  | .atom s :: rest => do
    let t ← refOf st s
    let r ← refsOf st rest
    pure (t :: r)
  | _ => none

def hexes : List Sexp → Option (List Bytes)
  | [] => some []
  | .atom s :: rest => do
    let b ← bytesOfHex s
    let r ← hexes rest
    pure (b :: r)
  | _ => none

def fieldsOf (st : St) : List Sexp → Option (List (Name × Ty))
  | [] => some []
  | .list [.atom n, .atom r] :: rest => do
    let n ← bytesOfHex n
    let t ← refOf st r
    let fs ← fieldsOf st rest
    pure ((n, t) :: fs)
  | _ => none

def answer (c : Ctx) (t : Ty) : String :=
  match c.idOf t with
  | some id => s!"{id},{hexOfBytes (encodeTV t)}"
  | none => s!"noid,{hexOfBytes (encodeTV t)}"

def push (st : St) (ci : Nat) (c : Ctx) (t : Option Ty) : St :=
  { ctxs := st.ctxs.set! ci c, results := st.results.push t,
    out := st.out.push (match t with | some t => answer c t | none => "err") }

/-- one op; `none` = malformed request -/
def step (st : St) (op : Sexp) : Option St :=
  match op with
  | .list (.atom kind :: .atom cs :: args) => do
    let ci ← cs.toNat?
    let c ← st.ctxs[ci]?
    match kind, args with
    | "rec", fs => do
      let fs ← fieldsOf st fs
      let r := c.lookupRecord fs
      pure (push st ci r.2 r.1)
    | "arr", [.atom r] => do let t ← refOf st r; let x := c.lookupArray t; pure (push st ci x.2 (some x.1))
    | "set", [.atom r] => do let t ← refOf st r; let x := c.lookupSet t; pure (push st ci x.2 (some x.1))
    | "err", [.atom r] => do let t ← refOf st r; let x := c.lookupError t; pure (push st ci x.2 (some x.1))
    | "map", [.atom k, .atom v] => do
      let k ← refOf st k; let v ← refOf st v
      let x := c.lookupMap k v; pure (push st ci x.2 (some x.1))
    | "union", rs => do
      let ts ← refsOf st rs
      let x := c.lookupUnion ts; pure (push st ci x.2 (some x.1))
    | "enum", hs => do
      let syms ← hexes hs
      let x := c.lookupEnum syms; pure (push st ci x.2 (some x.1))
    | "named", [.atom n, .atom r] => do
      let n ← bytesOfHex n; let t ← refOf st r
      let x := c.lookupNamed n t; pure (push st ci x.2 x.1)
    | "byvalue", [.atom h] => do
      let tv ← bytesOfHex h
      let x := c.lookupByValue tv; pure (push st ci x.2 x.1)
    | "translate", [.atom r] => do
      let t ← refOf st r
      let x := c.translate t; pure (push st ci x.2 x.1)
    | "typevalue", [.atom r] => do
      let t ← refOf st r
      let x := c.lookupTypeValue t
      pure { ctxs := st.ctxs.set! ci x.2, results := st.results.push none,
             out := st.out.push (match x.1 with | some b => s!"tv,{hexOfBytes b}" | none => "err") }
    | "typedef", [.atom n] => do
      let n ← bytesOfHex n
      pure (push st ci c (c.lookupTypeDef n))
    | "lookupid", [.atom n] => do
      let n ← n.toNat?
      pure (push st ci c (c.lookupType n))
    | _, _ => none
  | _ => none

def runHist (ops : List Sexp) : Option St := ops.foldlM step {}

def decodeHex (h : String) : Option Ty := do
  let b ← bytesOfHex h
  match Ctx.empty.decode b with
  | some (t, [], _) => some t
  | _ => none

def ordChar : Ordering → String
  | .lt => "-1"
  | .eq => "0"
  | .gt => "1"

def handle : List Sexp → String
  | .atom "hist" :: ops =>
    match runHist ops with
    | none => "bad-op"
    | some st =>
      let sizes := st.ctxs.toList.map fun c => toString c.byID.length
      " ".intercalate st.out.toList ++ " | " ++ " ".intercalate sizes
  | [.atom "describe", .atom h] =>
    match bytesOfHex h with
    | none => "bad-op"
    | some b =>
      match Ctx.empty.decode b with
      | some (t, rest, _) => toString (descr t) ++ " " ++ hexOfBytes rest
      | none => "undecodable"
  | [.atom "cmptypes", .atom a, .atom b] =>
    match decodeHex a, decodeHex b with
    | some a, some b => ordChar (cmpTy a b)
    | _, _ => "bad-op"
  | .atom "typematrix" :: hs =>
    match hs.mapM (fun | .atom h => decodeHex h | _ => none) with
    | none => "bad-op"
    | some ts =>
      "/".intercalate (ts.map fun a => String.join (ts.map fun b =>
        match cmpTy a b with | .lt => "<" | .eq => "=" | .gt => ">"))
  | .atom "sortunion" :: hs =>
    match hs.mapM (fun | .atom h => decodeHex h | _ => none) with
    | none => "bad-op"
    | some ts =>
      let tagged := ts.zipIdx
      let sorted := insertionSort (fun a b => tyLess a.1 b.1) tagged
      " ".intercalate (sorted.map fun p => toString p.2)
  | _ => "bad-op"

end Zed.Drv.C05
