/-
  C16 — pool-key pruning never changes a query's result.
  Property theorems only.  Tables come from Zed.Generated.C16 (regenerated from
  /repo/compiler/optimizer/optimizer.go on every check).
-/
import Zed.Model.Pruner
namespace Zed.Props.C16
open Zed.Pruner

variable {K : Type}

/-- Coherence hypothesis between the filter's own comparison and `compare()`:
    whenever the filter comparison `a op b` is *true*, the three-way comparison agrees. -/
def Coherent (O : KeyOrder K) (holds : CmpOp → K → K → Bool) : Prop :=
  ∀ op a b, holds op a b = true → op.sem (O.cmp a b) = true

def Prunable (op : CmpOp) : Prop := Zed.Generated.C16.prunableOps.contains op.toStr = true

/-- Decidable form of the obligation on the regenerated `reverseComparator` table: the
    table yields *some* prunable operator `op'` such that `lit op key` being true implies
    `key op' lit` is true (the exact mirror image, or anything weaker — a weaker operator only
    prunes less).  -/
def revOk (op : CmpOp) : Bool :=
  match reverseComparator op with
  | some op' =>
    Zed.Generated.C16.prunableOps.contains op'.toStr &&
      [Ordering.lt, Ordering.eq, Ordering.gt].all fun o => !(op.sem o) || op'.sem o.swap
  | none => false

/-- Obligation on the regenerated `reverseComparator` table (see `revOk`). -/
theorem reverseComparator_sound (op : CmpOp) (hp : Prunable op) : revOk op = true := by
  unfold Prunable at *
  cases op <;> first
    | (exfalso; revert hp; decide)
    | decide

theorem reverseComparator_spec (op : CmpOp) (hp : Prunable op) :
    ∃ op', reverseComparator op = some op' ∧ Prunable op' ∧
      ∀ o : Ordering, op.sem o = true → op'.sem o.swap = true := by
  have h := reverseComparator_sound op hp
  unfold revOk at h
  split at h
  · rename_i op' heq
    simp only [Bool.and_eq_true, List.all_cons, List.all_nil, Bool.and_true, Bool.or_eq_true,
      Bool.not_eq_true'] at h
    refine ⟨op', heq, h.1, ?_⟩
    intro o ho
    obtain ⟨_, h1, h2, h3⟩ := h
    cases o
    · cases h1 with | inl h => rw [h] at ho; exact absurd ho (by simp) | inr h => exact h
    · cases h2 with | inl h => rw [h] at ho; exact absurd ho (by simp) | inr h => exact h
    · cases h3 with | inl h => rw [h] at ho; exact absurd ho (by simp) | inr h => exact h
  · exact absurd h (by simp)

theorem rangePrunerPred_total (op : CmpOp) (hp : Prunable op) (lit : K) :
    (rangePrunerPred op lit).isSome = true := by
  unfold Prunable at *
  cases op <;> first
    | (exfalso; revert hp; decide)
    | rfl

/-- Obligation on the regenerated `rangePrunerPred` table: whenever the pruner expression for
    `key op lit` is true on `[lo,hi]`, no key in the range satisfies `key op lit`. -/
theorem rangePrunerPred_sound (O : KeyOrder K) (op : CmpOp) (hp : Prunable op)
    (lit lo hi k : K) (hlo : O.le lo k) (hhi : O.le k hi)
    (e : PExpr K) (he : rangePrunerPred op lit = some e) (hev : e.eval O lo hi = true) :
    op.sem (O.cmp k lit) = false := by
  have s1 := O.swap lit lo
  have s2 := O.swap lit hi
  have s3 := O.swap lit k
  have t1 := O.le_trans lo k lit
  have t2 := O.le_trans lit lo k
  have t3 := O.le_trans k hi lit
  have t4 := O.le_trans lit k hi
  unfold KeyOrder.le Prunable at *
  cases op <;> first
    | (exfalso; revert hp; decide)
    | (simp [rangePrunerPred, lookup, Zed.Generated.C16.rangePrunerPredTable, CmpOp.toStr,
            atomOf, argOf, combine, CmpOp.ofStr] at he
       subst he
       simp only [PExpr.eval, Arg.val, CmpOp.sem] at hev ⊢
       generalize O.cmp lit lo = a at *
       generalize O.cmp lit hi = b at *
       generalize O.cmp lit k = c at *
       generalize O.cmp lo k = d at *
       generalize O.cmp k hi = f at *
       generalize O.cmp k lit = g at *
       generalize O.cmp lo lit = h at *
       generalize O.cmp hi lit = i at *
       subst s1 s2 s3
       cases a <;> cases b <;> cases c <;> cases d <;> cases f <;> simp_all [Ordering.swap])

end Zed.Props.C16

namespace Zed.Props.C16
open Zed.Pruner
variable {K : Type}

private theorem combine_and_eval (O : KeyOrder K) (a b e : PExpr K) (lo hi : K)
    (h : combine Zed.Generated.C16.andCombiner a b = some e) :
    e.eval O lo hi = (a.eval O lo hi || b.eval O lo hi) := by
  simp [combine, Zed.Generated.C16.andCombiner] at h
  subst h; rfl

private theorem combine_or_eval (O : KeyOrder K) (a b e : PExpr K) (lo hi : K)
    (h : combine Zed.Generated.C16.orCombiner a b = some e) :
    e.eval O lo hi = (a.eval O lo hi && b.eval O lo hi) := by
  simp [combine, Zed.Generated.C16.orCombiner] at h
  subst h; rfl

/-- **pruner_sound** (the property, object level).  For every filter predicate `p` — any
    and/or/not tree over key comparisons in either orientation and arbitrary non-key
    predicates — if `buildRangePruner` produces an expression `e` and `e` evaluates to true
    on an object's inclusive key range `[lo,hi]`, then `p` is not true of any value whose
    key lies in that range.  So skipping the object never drops a matching value. -/
theorem pruner_sound (O : KeyOrder K) (holds : CmpOp → K → K → Bool)
    (coh : Coherent O holds) (env : Nat → Bool) (p : Pred K) :
    ∀ (e : PExpr K), build p = some e →
    ∀ (lo hi k : K), O.le lo k → O.le k hi → e.eval O lo hi = true →
      p.eval holds env k = false := by
  induction p with
  | cmp op keyLeft lit =>
    intro e hb lo hi k hlo hhi hev
    simp only [build] at hb
    split at hb
    · rename_i hp
      cases keyLeft with
      | true =>
        simp only [if_true, Option.bind] at hb
        have hs := rangePrunerPred_sound O op hp lit lo hi k hlo hhi e hb hev
        simp only [Pred.eval, if_true]
        cases hh : holds op k lit
        · rfl
        · rw [coh _ _ _ hh] at hs; exact absurd hs (by simp)
      | false =>
        obtain ⟨op', hr, hp', hsem⟩ := reverseComparator_spec op hp
        simp only [hr, Option.bind] at hb
        have hb' : rangePrunerPred op' lit = some e := by simpa using hb
        have hs := rangePrunerPred_sound O op' hp' lit lo hi k hlo hhi e hb' hev
        simp only [Pred.eval]
        cases hh : holds op lit k
        · simp
        · have := hsem _ (coh _ _ _ hh)
          rw [← O.swap] at this
          rw [this] at hs; exact absurd hs (by simp)
    · exact absurd hb (by simp)
  | and a b iha ihb =>
    intro e hb lo hi k hlo hhi hev
    simp only [build] at hb
    simp only [Pred.eval]
    cases ha : build a with
    | none =>
      simp only [ha] at hb
      rw [ihb e hb lo hi k hlo hhi hev]; simp
    | some ea =>
      cases hb2 : build b with
      | none =>
        simp only [ha, hb2] at hb
        have : ea = e := by simpa using hb
        subst this
        rw [iha ea ha lo hi k hlo hhi hev]; simp
      | some eb =>
        simp only [ha, hb2] at hb
        rw [combine_and_eval O ea eb e lo hi hb] at hev
        cases h1 : ea.eval O lo hi
        · simp [h1] at hev
          rw [ihb eb hb2 lo hi k hlo hhi hev]; simp
        · rw [iha ea ha lo hi k hlo hhi h1]; simp
  | or a b iha ihb =>
    intro e hb lo hi k hlo hhi hev
    simp only [build] at hb
    simp only [Pred.eval]
    cases ha : build a with
    | none => simp [ha] at hb
    | some ea =>
      cases hb2 : build b with
      | none => simp [ha, hb2] at hb
      | some eb =>
        simp only [ha, hb2] at hb
        rw [combine_or_eval O ea eb e lo hi hb] at hev
        simp at hev
        rw [iha ea ha lo hi k hlo hhi hev.1, ihb eb hb2 lo hi k hlo hhi hev.2]; simp
  | not a _ => intro e hb; simp [build] at hb
  | other n => intro e hb; simp [build] at hb

/-- **seek_sound**: the same pruner applied to seek-index entries.  Every entry whose key
    range contains a key for which the predicate is true is kept. -/
theorem seek_sound (O : KeyOrder K) (holds) (coh : Coherent O holds) (env : Nat → Bool)
    (p : Pred K) (e : PExpr K) (hb : build p = some e)
    (entries : List (K × K)) (r : K × K) (hr : r ∈ entries)
    (k : K) (hlo : O.le r.1 k) (hhi : O.le k r.2) (hk : p.eval holds env k = true) :
    r ∈ seekKeep O e entries := by
  unfold seekKeep
  rw [List.mem_filter]
  refine ⟨hr, ?_⟩
  cases hev : e.eval O r.1 r.2
  · rfl
  · have := pruner_sound O holds coh env p e hb r.1 r.2 k hlo hhi hev
    rw [this] at hk; exact absurd hk (by simp)

/-- **scan_pruned_equiv**: list-level statement.  Objects are (lo, hi, values) with every
    value's key inside `[lo,hi]`; scanning only the objects the pruner keeps and filtering
    yields the same values as scanning all objects and filtering. -/
theorem scan_pruned_equiv (O : KeyOrder K) (holds) (coh : Coherent O holds) (env : Nat → Bool)
    (p : Pred K) (e : PExpr K) (hb : build p = some e)
    (objs : List (K × K × List K))
    (hwf : ∀ o ∈ objs, ∀ k ∈ o.2.2, O.le o.1 k ∧ O.le k o.2.1) :
    ((objs.filter fun o => !(e.eval O o.1 o.2.1)).flatMap fun o =>
        o.2.2.filter (p.eval holds env)) =
    (objs.flatMap fun o => o.2.2.filter (p.eval holds env)) := by
  induction objs with
  | nil => rfl
  | cons o rest ih =>
    have hrest : ∀ o ∈ rest, ∀ k ∈ o.2.2, O.le o.1 k ∧ O.le k o.2.1 :=
      fun o' ho' => hwf o' (List.mem_cons_of_mem _ ho')
    simp only [List.filter_cons, List.flatMap_cons]
    cases hev : e.eval O o.1 o.2.1
    · simp [ih hrest]
    · have hnone : o.2.2.filter (p.eval holds env) = [] := by
        rw [List.filter_eq_nil_iff]
        intro k hk
        have := hwf o (List.mem_cons_self) k hk
        simp [pruner_sound O holds coh env p e hb o.1 o.2.1 k this.1 this.2 hev]
      simp [hnone, ih hrest]

/-- **delete_pruned_equiv**: predicate delete.  The deleter rewrites every object the pruner
    keeps with the values for which the predicate is not true and leaves pruned objects
    untouched; what remains is exactly "everything minus the values the predicate is true of",
    i.e. pruning never makes a predicate delete miss a value. -/
theorem delete_pruned_equiv (O : KeyOrder K) (holds) (coh : Coherent O holds) (env : Nat → Bool)
    (p : Pred K) (e : PExpr K) (hb : build p = some e)
    (objs : List (K × K × List K))
    (hwf : ∀ o ∈ objs, ∀ k ∈ o.2.2, O.le o.1 k ∧ O.le k o.2.1) :
    (objs.flatMap fun o =>
        if e.eval O o.1 o.2.1 then o.2.2 else o.2.2.filter fun k => !(p.eval holds env k)) =
    (objs.flatMap fun o => o.2.2.filter fun k => !(p.eval holds env k)) := by
  induction objs with
  | nil => rfl
  | cons o rest ih =>
    have hrest : ∀ o ∈ rest, ∀ k ∈ o.2.2, O.le o.1 k ∧ O.le k o.2.1 :=
      fun o' ho' => hwf o' (List.mem_cons_of_mem _ ho')
    simp only [List.flatMap_cons]
    rw [ih hrest]
    cases hev : e.eval O o.1 o.2.1
    · simp
    · have hall : o.2.2.filter (fun k => !(p.eval holds env k)) = o.2.2 := by
        rw [List.filter_eq_self]
        intro k hk
        have := hwf o (List.mem_cons_self) k hk
        simp [pruner_sound O holds coh env p e hb o.1 o.2.1 k this.1 this.2 hev]
      simp [hall]

/-! ### Object and seek-entry bounds really bound their keys -/

/-- Obligation on the regenerated writer facts: Min is taken from the first value only, Max
    from every value, and both Close and flushSeekIndex swap them for descending pools. -/
theorem writer_bound_facts : minOnFirstOnly = true ∧ maxAlways = true ∧ descSwapped = true := by
  decide

private theorem le_refl' (O : KeyOrder K) (a : K) : O.le a a := by
  unfold KeyOrder.le
  have h := O.swap a a
  cases hc : O.cmp a a <;> simp_all [Ordering.swap]

private theorem le_last (R : K → K → Prop) (hrefl : ∀ a, R a a) :
    ∀ (l : List K) (hne : l ≠ []), l.Pairwise R → ∀ x ∈ l, R x (l.getLast hne)
  | [a], _, _, x, hx => by
    have : x = a := by simpa using hx
    subst this; simpa using hrefl x
  | a :: b :: rest, _, hp, x, hx => by
    rw [List.getLast_cons (by simp)]
    rcases List.mem_cons.1 hx with rfl | hx'
    · have hab := (List.pairwise_cons.1 hp).1
      exact hab _ (List.getLast_mem _)
    · exact le_last R hrefl (b :: rest) (by simp) (List.pairwise_cons.1 hp).2 x hx'

/-- **object_bounds_sound**: for values written in pool order (ascending: non-decreasing keys;
    descending: non-increasing keys) the (min, max) the writer stores for an object — and, by
    the same code, for every seek-index entry — bound every key written:
    `min ≤ k ≤ max` in the ascending sense, whatever the pool order.  This discharges, for the
    writer model, the hypothesis `hwf` of `scan_pruned_equiv` / `delete_pruned_equiv` and the
    range hypotheses of `seek_sound`. -/
theorem object_bounds_sound (O : KeyOrder K) (desc : Bool) (keys : List K)
    (hsorted : if desc then keys.Pairwise (fun a b => O.le b a) else keys.Pairwise (fun a b => O.le a b))
    (lo hi : K) (hb : writerBounds desc keys = some (lo, hi)) :
    ∀ k ∈ keys, O.le lo k ∧ O.le k hi := by
  obtain ⟨f1, f2, f3⟩ := writer_bound_facts
  cases keys with
  | nil => simp [writerBounds] at hb
  | cons a rest =>
    simp only [writerBounds, f1, f2, f3, Bool.and_self, if_true] at hb
    intro k hk
    cases desc with
    | false =>
      simp only [Bool.false_eq_true, if_false, Option.some.injEq, Prod.mk.injEq] at hb hsorted
      obtain ⟨rfl, rfl⟩ := hb
      refine ⟨?_, le_last _ (le_refl' O) (a :: rest) (by simp) hsorted k hk⟩
      rcases List.mem_cons.1 hk with rfl | hk'
      · exact le_refl' O _
      · exact (List.pairwise_cons.1 hsorted).1 k hk'
    | true =>
      simp only [if_true, Option.some.injEq, Prod.mk.injEq] at hb hsorted
      obtain ⟨rfl, rfl⟩ := hb
      refine ⟨le_last (fun a b => O.le b a) (fun a => le_refl' O a) (a :: rest) (by simp) hsorted k hk, ?_⟩
      rcases List.mem_cons.1 hk with rfl | hk'
      · exact le_refl' O _
      · exact (List.pairwise_cons.1 hsorted).1 k hk'

/-- Non-vacuity: a descending object holding null, 9, 5 is recorded as [5, null]. -/
example : writerBounds true [none, some (9 : Int), some 5] = some (some 5, none) := by decide

/-! ### Non-vacuity: a concrete key order satisfying the hypotheses. -/

def optIntOrder : KeyOrder (Option Int) where
  cmp := optIntCmp
  swap := by
    intro a b
    cases a <;> cases b <;> simp [optIntCmp, Ordering.swap]
    exact Std.OrientedCmp.eq_swap
  le_trans := by
    intro a b c
    cases a <;> cases b <;> cases c <;> simp [optIntCmp, Int.compare_eq_gt] <;> omega

def optIntHolds (op : CmpOp) (a b : Option Int) : Bool :=
  match a, b with
  | some x, some y => op.sem (compare x y)
  | _, _ => false      -- a comparison with null is never *true* in the filter

theorem optIntCoherent : Coherent optIntOrder optIntHolds := by
  intro op a b h
  cases a <;> cases b <;> simp_all [optIntHolds, optIntOrder, optIntCmp]

/-- `5 <= key and key < 9 and other` over an object `[9, null]` is pruned; over `[5,8]` not. -/
example :
    (build (.and (.and (.cmp .le false (some 5)) (.cmp .lt true (some 9))) (.other 0))).map
      (fun e => (e.eval optIntOrder (some 9) none, e.eval optIntOrder (some 5) (some 8)))
    = some (true, false) := by decide

/-! ### A second instance: cross-type keys (numbers < strings < null), as the lake orders them
    with nullsMax, and a filter in which comparisons across types or with null are never true. -/

inductive XKey where
  | num (n : Int)
  | str (s : List UInt8)
  | null
  deriving DecidableEq, Repr

def xcmp : XKey → XKey → Ordering
  | .num a, .num b => compare a b
  | .num _, _ => .lt
  | .str _, .num _ => .gt
  | .str a, .str b => compare a b
  | .str _, .null => .lt
  | .null, .null => .eq
  | .null, _ => .gt

private theorem isLE_iff (o : Ordering) : o.isLE = true ↔ o ≠ .gt := by
  cases o <;> simp [Ordering.isLE]

def xOrder : KeyOrder XKey where
  cmp := xcmp
  swap := by
    intro a b
    cases a <;> cases b <;> simp [xcmp, Ordering.swap] <;> exact Std.OrientedCmp.eq_swap
  le_trans := by
    intro a b c
    cases a <;> cases b <;> cases c <;> simp [xcmp]
    · intro h1 h2
      exact (isLE_iff _).1 (Std.TransCmp.isLE_trans ((isLE_iff _).2 h1) ((isLE_iff _).2 h2))
    · intro h1 h2
      exact (isLE_iff _).1 (Std.TransCmp.isLE_trans ((isLE_iff _).2 h1) ((isLE_iff _).2 h2))

def xHolds (op : CmpOp) (a b : XKey) : Bool :=
  match a, b with
  | .num x, .num y => op.sem (compare x y)
  | .str x, .str y => op.sem (compare x y)
  | _, _ => false

theorem xCoherent : Coherent xOrder xHolds := by
  intro op a b h
  cases a <;> cases b <;> simp_all [xHolds, xOrder, xcmp]

/-- `"b" <= key` over an object whose keys run from the number 7 to the string "a" is pruned;
    over `[7, null]` it is not (strings may lie in between). -/
example :
    (build (.cmp .le false (XKey.str [98]))).map
      (fun e => (e.eval xOrder (.num 7) (.str [97]), e.eval xOrder (.num 7) .null))
    = some (true, false) := by decide

/-! ### Obligations on the remaining regenerated facts the model relies on -/

/-- The pruner compares with `compare(lhs, rhs, nullsMax = true) op 0` (the model's
    `PExpr.cmp` and `KeyOrder` assume exactly this shape). -/
theorem compare_shape :
    Zed.Generated.C16.compareCall = "compare(lhs,rhs,·)" ∧
    Zed.Generated.C16.compareNullsMax = "true" ∧
    Zed.Generated.C16.compareAgainst = "0" := by decide

/-- `literalComparison` recognises exactly `key op literal` (operator kept) and
    `literal op key` (operator passed through `reverseComparator`), as `build` does. -/
theorem literalComparison_shape :
    Zed.Generated.C16.literalComparisonShape =
      [("*dag.This", "*dag.Literal", "lhs,rhs,e.Op"),
       ("*dag.Literal", "*dag.This", "rhs,lhs,reverseComparator(e.Op)")] := by decide

/-- and/or combine the sub-pruners dually: `a and b` may be pruned when either side may
    (`or`), `a or b` only when both may (`and`). -/
theorem combiner_shape :
    Zed.Generated.C16.andCombiner = "or" ∧ Zed.Generated.C16.orCombiner = "and" := by decide

end Zed.Props.C16
