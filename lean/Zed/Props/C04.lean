/-
  C04 — query results do not depend on the physical encoding of the input.  Property theorems
  only.

  What can differ between encodings is what the binary (ZNG) scanner does before the runtime
  sees a value: it evaluates a *buffer filter* on the raw bytes of each frame and drops the frame
  when the filter says false (zio/zngio/scanner.go scanBatch).  The doc comment of
  `CompileBufferFilter` states the obligation: the buffer filter must be true for every frame
  holding a value the real filter accepts.  Model: `Zed.Bf.compile` / `BufFilter.eval`
  (lean/Zed/Model/BfFilter.lean) against `evalFilter` over typed value trees with their zcode
  serialisation and the evaluator's `Walk` (lean/Zed/Model/BfEval.lean); both are tied to the Go
  code by the differential harness on generated frames.
-/
import Zed.Proofs.BfLemmas
namespace Zed.Props.C04
open Zed.Bf
open Zed.Opt (Expr)

/-- every value of the frame has a type in which records are nested only in records. -/
def FrameRecOnly (ctx : Ctx) (frame : List (Nat × Val)) : Prop :=
  ∀ m ∈ frame, ∀ t, ctx m.1 = some t → recOnly t = true

/-- every search of the expression looks at `this` or at a field path (not at a computed
    value). -/
def searchOverPaths : Expr → Bool
  | .bin _ l r => searchOverPaths l && searchOverPaths r
  | .un _ a => searchOverPaths a
  | .search _ _ (.this _) => true
  | .search _ _ _ => false
  | _ => true

/-- some value of the frame makes the filter true. -/
def Accepts (lits : Lits) (atoms : Atoms) (ctx : Ctx) (e : Expr) (frame : List (Nat × Val)) : Prop :=
  ∃ m ∈ frame, ∃ t, ctx m.1 = some t ∧ evalFilter lits atoms e t m.2 = .tt

private theorem forString_some {pat : Bytes} {bf : BufFilter} (h : forString pat = some bf) : bf = .string pat := by
  unfold forString at h; split at h <;> simp_all

private theorem forLiteral_some {lit : Lit} {bf : BufFilter} (h : forLiteral lit = some bf) :
    bf = .string (enc lit.val) ∧ ∀ id, under lit.ty = .prim id → (isNumberId id || id == idNull) = false := by
  unfold forLiteral at h
  split at h
  · rename_i id hu
    split at h
    · simp at h
    · rename_i hn
      refine ⟨forString_some h, ?_⟩
      intro id' hid
      rw [hu] at hid; cases hid; simpa using hn
  · rename_i hu
    exact ⟨forString_some h, fun id hid => absurd hid (hu id)⟩

private theorem litEq_val {lt : Ty} {lv : Val} {t : Ty} {v : Val} (h : litEq lt lv t v = true) : lv = v := by
  simp only [litEq, Bool.and_eq_true, beq_iff_eq] at h; exact h.1.2

private theorem eqPath_sound (lit : Lit) (t : Ty) (v : Val) (p : List Bytes)
    (h : (match getPath t v p with
      | some (ft, fv) => ofBool (litEq lit.ty lit.val ft fv)
      | none => Tri.miss) = Tri.tt) : Infix (enc lit.val) (enc v) := by
  split at h
  · rename_i ft fv hg
    have := litEq_val (ofBool_eq_tt h)
    rw [this]; exact getPath_infix p t v ft fv hg
  · simp at h

private theorem inPath_sound (lit : Lit) (t : Ty) (v : Val) (p : List Bytes)
    (h : (match getPath t v p with
      | some (ft, fv) => ofBool (inEval lit.ty lit.val ft fv)
      | none => Tri.miss) = Tri.tt) : Infix (enc lit.val) (enc v) := by
  split at h
  · rename_i ft fv hg
    have hin := ofBool_eq_tt h
    unfold inEval at hin
    obtain ⟨t', v', hv, hi⟩ := walkAny_infix ft _ false fv hin
    have := litEq_val hv
    rw [this]; exact hi.trans (getPath_infix p t v ft fv hg)
  · simp at h

/-- `field == literal` / `literal in field` true on a value: the literal's tagged bytes occur in
    the value's serialisation. -/
theorem eq_in_sound (lits : Lits) (atoms : Atoms) (op : String) (l r : Expr) (lit : Lit) (bf : BufFilter)
    (hf : fieldEqualOrIn lits op l r = some lit) (hb : forLiteral lit = some bf)
    (t : Ty) (v : Val) (he : evalFilter lits atoms (.bin op l r) t v = .tt) :
    bf = .string (enc lit.val) ∧ Infix (enc lit.val) (enc v) := by
  obtain ⟨hbf, hnum⟩ := forLiteral_some hb
  refine ⟨hbf, ?_⟩
  unfold fieldEqualOrIn at hf
  split at hf
  · -- this p == lit lv
    rename_i p lv
    split at hf
    · rename_i hop
      have hop' : op = "==" := by simpa using hop
      subst hop'
      simp only [evalFilter, hf] at he
      rw [if_neg (by decide), if_neg (by decide)] at he
      split at he
      · rename_i id hu
        rw [if_neg (by simp [hnum id hu])] at he
        exact eqPath_sound lit t v _ he
      · exact eqPath_sound lit t v _ he
    · simp at hf
  · -- lit lv in this p
    rename_i lv p
    split at hf
    · rename_i hop
      have hop' : op = "in" := by simpa using hop
      subst hop'
      split at hf
      · rename_i lit' hl
        split at hf
        · simp at hf
        · simp only [Option.some.injEq] at hf
          subst hf
          simp only [evalFilter, hl] at he
          rw [if_neg (by decide), if_neg (by decide)] at he
          split at he
          · rename_i id hu
            rw [if_neg (by simp [hnum id hu])] at he
            exact inPath_sound lit' t v _ he
          · exact inPath_sound lit' t v _ he
      · simp at hf
    · simp at hf
  · simp at hf

private theorem forStringCase_some {pat : Bytes} {bf : BufFilter} (h : forStringCase pat = some bf) : bf = .stringCase pat := by
  unfold forStringCase at h
  split at h
  · simp at h
  · split at h
    · simpa using h.symm
    · simp at h

private theorem stringCase_eval_of_infix (ctx : Ctx) (frame : List (Nat × Val)) (term : Bytes) (m : Nat × Val)
    (hm : m ∈ frame) (h : findBy foldEq term (enc m.2) = true) :
    (BufFilter.stringCase term).eval ctx frame (encFrame frame) = true := by
  simp only [BufFilter.eval, findBy_lower]
  exact findBy_infix foldEq term (encFrame_infix frame m hm) h

private theorem string_eval_of_infix (ctx : Ctx) (frame : List (Nat × Val)) (pat : Bytes) (m : Nat × Val)
    (hm : m ∈ frame) (h : Infix pat (enc m.2)) :
    (BufFilter.string pat).eval ctx frame (encFrame frame) = true := by
  simp only [BufFilter.eval]
  exact findBy_infix byteEq pat (h.trans (encFrame_infix frame m hm)) (findBy_self byteEq (by simp [byteEq]) pat)

/-- a keyword / literal search over `this` or a field path. -/
theorem search_sound (lits : Lits) (atoms : Atoms) (ctx : Ctx) (frame : List (Nat × Val))
    (hfr : FrameRecOnly ctx frame) (text value : String) (p : Zed.Opt.Path) (bf : BufFilter)
    (hc : compile lits (.search text value (.this p)) = some bf)
    (m : Nat × Val) (hm : m ∈ frame) (t : Ty) (ht : ctx m.1 = some t)
    (he : evalFilter lits atoms (.search text value (.this p)) t m.2 = .tt) :
    bf.eval ctx frame (encFrame frame) = true := by
  simp only [compile] at hc
  split at hc
  · simp at hc
  · rename_i lit hl
    simp only [evalFilter, hl] at he
    split at he
    · simp at he
    · rename_i ft fv hg
      split at hc
      · rename_i id hu
        simp only [hu] at he
        split at hc
        · simp at hc
        · rename_i hnet
          rw [if_neg hnet] at he
          split at hc
          · -- string literal: case finder or field-name finder
            rename_i hstr
            rw [if_pos hstr] at he
            split at hc
            · simp at hc
            · rename_i left hl'
              simp only [Option.some.injEq] at hc
              subst hc
              have hleft := forStringCase_some hl'
              subst hleft
              have hev := ofBool_eq_tt he
              obtain ⟨hro, hst⟩ := getPath_guard (primBytes lit.val) (pathBytes p) t m.2 ft fv hg (hfr m hm t ht)
              simp only [BufFilter.eval, Bool.or_eq_true]
              rcases searchString_sound (primBytes lit.val) ft fv hro hev with h1 | h1
              · exact Or.inr (fieldNameFind_of_mem ctx _ frame m t hm ht (hst h1))
              · left
                have := stringCase_eval_of_infix ctx frame (primBytes lit.val) m hm
                  (findBy_infix foldEq _ (getPath_infix _ t m.2 ft fv hg) h1)
                simpa [BufFilter.eval] using this
          · -- another primitive literal: text in a string leaf, or a leaf equal to the literal
            rename_i hstr
            rw [if_neg hstr] at he
            split at hc
            · rename_i left right hl' hr'
              simp only [Option.some.injEq] at hc
              subst hc
              have hleft := forStringCase_some hl'
              subst hleft
              obtain ⟨hright, hnum⟩ := forLiteral_some hr'
              subst hright
              have hn : isNumberId id = false := by
                have := hnum id hu
                simp only [Bool.or_eq_false_iff] at this; exact this.1
              rw [if_neg (by simp [hn])] at he
              have hev := ofBool_eq_tt he
              unfold searchLitEval at hev
              obtain ⟨t', v', hv, hi⟩ := walkAny_infix ft _ false fv hev
              simp only [BufFilter.eval, Bool.or_eq_true]
              simp only [Bool.or_eq_true] at hv
              rcases hv with hv | hv
              · left
                split at hv
                · rename_i id' bs
                  simp only [Bool.and_eq_true] at hv
                  have h1 : findBy foldEq text.toUTF8.toList (enc (.prim bs)) = true :=
                    findBy_infix foldEq _ (enc_prim_infix bs) hv.2
                  have := stringCase_eval_of_infix ctx frame text.toUTF8.toList m hm
                    (findBy_infix foldEq _ (hi.trans (getPath_infix _ t m.2 ft fv hg)) h1)
                  simpa [BufFilter.eval] using this
                · simp at hv
              · right
                have hlv := litEq_val hv
                have := string_eval_of_infix ctx frame (enc lit.val) m hm
                  (by rw [hlv]; exact hi.trans (getPath_infix _ t m.2 ft fv hg))
                simpa [BufFilter.eval] using this
            · simp at hc
      · simp at hc

/-- The over-approximation, by induction over the filter expression. -/
theorem compile_sound (lits : Lits) (atoms : Atoms) (ctx : Ctx) (frame : List (Nat × Val))
    (hfr : FrameRecOnly ctx frame) :
    ∀ (e : Expr), searchOverPaths e = true → ∀ bf, compile lits e = some bf →
      Accepts lits atoms ctx e frame → bf.eval ctx frame (encFrame frame) = true
  | .bin op l r, hs, bf, hc, ⟨m, hm, t, ht, he⟩ => by
    simp only [searchOverPaths, Bool.and_eq_true] at hs
    simp only [compile] at hc
    split at hc
    · rename_i lit hf
      obtain ⟨hbf, hi⟩ := eq_in_sound lits atoms op l r lit bf hf hc t m.2 he
      subst hbf
      exact string_eval_of_infix ctx frame _ m hm hi
    · split at hc
      · rename_i hop
        have hop' : op = "and" := by simpa using hop
        subst hop'
        simp only [evalFilter] at he
        rw [if_pos (by decide)] at he
        obtain ⟨hl, hr⟩ := Tri.and_eq_tt he
        split at hc
        · exact compile_sound lits atoms ctx frame hfr r hs.2 bf hc ⟨m, hm, t, ht, hr⟩
        · exact compile_sound lits atoms ctx frame hfr l hs.1 bf hc ⟨m, hm, t, ht, hl⟩
        · rename_i a b ha hb
          simp only [Option.some.injEq] at hc
          subst hc
          simp only [BufFilter.eval, Bool.and_eq_true]
          exact ⟨compile_sound lits atoms ctx frame hfr l hs.1 a ha ⟨m, hm, t, ht, hl⟩,
                 compile_sound lits atoms ctx frame hfr r hs.2 b hb ⟨m, hm, t, ht, hr⟩⟩
      · split at hc
        · rename_i hop1 hop
          have hop' : op = "or" := by simpa using hop
          subst hop'
          simp only [evalFilter] at he
          rw [if_neg (by decide), if_pos (by decide)] at he
          split at hc
          · rename_i a b ha hb
            simp only [Option.some.injEq] at hc
            subst hc
            simp only [BufFilter.eval, Bool.or_eq_true]
            rcases Tri.or_eq_tt he with h | h
            · exact Or.inl (compile_sound lits atoms ctx frame hfr l hs.1 a ha ⟨m, hm, t, ht, h⟩)
            · exact Or.inr (compile_sound lits atoms ctx frame hfr r hs.2 b hb ⟨m, hm, t, ht, h⟩)
          · simp at hc
        · simp at hc
  | .search text value e', hs, bf, hc, ⟨m, hm, t, ht, he⟩ => by
    cases e' with
    | this p => exact search_sound lits atoms ctx frame hfr text value p bf hc m hm t ht he
    | _ => simp [searchOverPaths] at hs
  | .this _, _, _, hc, _ | .lit _, _, _, hc, _ | .un _ _, _, _, hc, _ | .call .., _, _, hc, _
  | .rmatch .., _, _, hc, _ | .rsearch .., _, _, hc, _ | .dot .., _, _, hc, _ | .record _, _, _, hc, _
  | .map _, _, _, hc, _ | .agg .., _, _, hc, _ | .none, _, _, hc, _ | .x .., _, _, hc, _ => by
    simp [compile] at hc

/-- Full statement (the doc comment of `CompileBufferFilter`): for every filter expression `e`,
    every frame and every type context,
      `(∃ v ∈ frame, evalFilter e v = true) → bufferFilter (compile e) frame = true`.
    It is FALSE of the current code in two ways, both reproduced on the real code by the harness:
    `not_bufferfilter_overapprox` (a field *name* matched below an array: `FieldNameFinder` only
    looks through directly nested records, the evaluator's `Walk` also through arrays, sets, maps,
    unions and errors) and `not_bufferfilter_overapprox_computed` (the operand of a search is
    ignored by the compiler).  Proved under the two decidable guards `FrameRecOnly` (records are
    nested only in records) and `searchOverPaths` (searches look at `this` or a field path), for
    every expression of the push-down grammar, every literal table, every interpretation of the
    unmodelled predicates, every frame and context. -/
theorem bufferfilter_overapprox_partial (lits : Lits) (atoms : Atoms) (ctx : Ctx) (e : Expr)
    (frame : List (Nat × Val)) (hfr : FrameRecOnly ctx frame) (hs : searchOverPaths e = true)
    (h : Accepts lits atoms ctx e frame) : bufferFilter ctx (compile lits e) frame = true := by
  unfold bufferFilter
  split
  · rfl
  · rename_i f hc
    exact compile_sound lits atoms ctx frame hfr e hs f hc h

/-- what the scanner delivers for one frame: nothing when the buffer filter says false, else the
    values the filter accepts. -/
def accepts1 (lits : Lits) (atoms : Atoms) (ctx : Ctx) (e : Expr) (m : Nat × Val) : Bool :=
  match ctx m.1 with
  | some t => evalFilter lits atoms e t m.2 == .tt
  | none => false

def scanFrame (lits : Lits) (atoms : Atoms) (ctx : Ctx) (e : Expr) (fr : List (Nat × Val)) : List (Nat × Val) :=
  if bufferFilter ctx (compile lits e) fr then fr.filter (accepts1 lits atoms ctx e) else []

/-- Full statement: scanning framed values with the pushed-down filter delivers exactly the
    accepted values, however the values are cut into frames (frame threshold, end-of-stream
    positions, compression do not matter: only the partition into frames does).  Proved under the
    same two guards; false without them for the same two witnesses. -/
theorem pushdown_equiv_partial (lits : Lits) (atoms : Atoms) (ctx : Ctx) (e : Expr)
    (hs : searchOverPaths e = true) (frames : List (List (Nat × Val)))
    (hfr : ∀ fr ∈ frames, FrameRecOnly ctx fr) :
    frames.flatMap (scanFrame lits atoms ctx e) = frames.flatten.filter (accepts1 lits atoms ctx e) := by
  induction frames with
  | nil => rfl
  | cons fr rest ih =>
    simp only [List.flatMap_cons, List.flatten_cons, List.filter_append]
    rw [ih (fun f hf => hfr f (List.mem_cons_of_mem _ hf))]
    congr 1
    unfold scanFrame
    split
    · rfl
    · rename_i hb
      symm
      rw [List.filter_eq_nil_iff]
      intro m hm hacc
      apply hb
      apply bufferfilter_overapprox_partial lits atoms ctx e fr (hfr fr (List.mem_cons_self)) hs
      unfold accepts1 at hacc
      split at hacc
      · rename_i t ht
        exact ⟨m, hm, t, ht, by simpa using hacc⟩
      · simp at hacc

/-! ## the full statement is false: two witnesses, both replayed on the real code -/

def fooBytes : Bytes := [102, 111, 111]      -- "foo"

def witLits : Lits := fun s => if s == "\"foo\"" then some ⟨.prim idString, .prim fooBytes⟩ else none

/-- `{a:[{foo:1}]}` -/
def witTy : Ty := .record (.cons [97] (.array (.record (.cons fooBytes (.prim 9) .nil))) .nil)
def witVal : Val := .cont (.cons (.cont (.cons (.cont (.cons (.prim [2]) .nil)) .nil)) .nil)
def witCtx : Ctx := fun id => if id == 30 then some witTy else none
def witFrame : List (Nat × Val) := [(30, witVal)]
def witSearch : Expr := .search "foo" "\"foo\"" (.this [])

/-- `search foo` over `{a:[{foo:1}]}`: the evaluator matches (the field name `foo` of the record
    inside the array), the buffer filter says the frame cannot match. -/
theorem not_bufferfilter_overapprox :
    Accepts witLits (fun _ _ _ => .ff) witCtx witSearch witFrame ∧
    bufferFilter witCtx (compile witLits witSearch) witFrame = false := by
  refine ⟨⟨(30, witVal), by simp [witFrame], witTy, by simp [witCtx], by decide⟩, by decide⟩

/-- the guard that excludes it is violated by that witness, and satisfiable. -/
example : recOnly witTy = false := by decide
example : FrameRecOnly witCtx [] := by intro m hm; simp at hm
example : recOnly (.record (.cons [97] (.record (.cons fooBytes (.prim 9) .nil)) .nil)) = true := by decide

def wit2Lits : Lits := fun s => if s == "\"ab\"" then some ⟨.prim idString, .prim [97, 98]⟩ else none
def wit2Expr : Expr := .search "ab" "\"ab\"" (.x "BinaryExpr" "s+t")
def wit2Ty : Ty := .record (.cons [115] (.prim idString) (.cons [116] (.prim idString) .nil))
def wit2Val : Val := .cont (.cons (.prim [97]) (.cons (.prim [98]) .nil))
def wit2Ctx : Ctx := fun id => if id == 30 then some wit2Ty else none

/-- `grep("ab", s+t)` over `{s:"a",t:"b"}`: the computed operand "ab" matches (here: the
    unmodelled operand is an atom evaluating to true), the buffer filter looks for "ab" in the raw
    frame and does not find it. -/
theorem not_bufferfilter_overapprox_computed :
    Accepts wit2Lits (fun _ _ _ => .tt) wit2Ctx wit2Expr [(30, wit2Val)] ∧
    bufferFilter wit2Ctx (compile wit2Lits wit2Expr) [(30, wit2Val)] = false := by
  refine ⟨⟨(30, wit2Val), by simp, wit2Ty, by simp [wit2Ctx], by decide⟩, by decide⟩

example : searchOverPaths wit2Expr = false := by decide
example : searchOverPaths witSearch = true := by decide

end Zed.Props.C04
