package main

// C11 — untrusted bytes never crash or hang the process; with validation on, values handed
// out are structurally consistent.
//
// Every input runs in a CHILD process (child.go) with a watchdog, an allocation meter
// (runtime.MemStats.TotalAlloc) and a goroutine-leak check, so the real reader's outcome is one of
//   values | error | recovered panic | process crash | timeout | excessive allocation | leaked goroutine
// Sub-checks:
//   witness   (S)  the known and the repaired defects, deterministically (ZNG negative ints, type
//                  value union, VNG header/segment/metadata, Validate gaps, parser panics)
//   zng       (T2) valid ZNG streams mutated (truncation at every offset, bit flips in headers /
//                  typedefs / tags / bodies, boundary integers spliced into every varint position,
//                  byte insert/delete), real outcome class + delivered values vs the Lean model
//                  reader (LZ4 answers supplied as an oracle table)
//   validate  (T2) (type, mutated body): zed.Value.Validate vs model `validate`; an accepted value
//                  must survive a full walk by a consumer (ZSON formatter)
//   typevalue (S)  mutated type values through Context.LookupByValue
//   vng       (S)  VNG objects with mutated header / metadata integers / truncation
//   text      (S)  fuzzing of the ZSON, ZJSON, JSON, CSV, TSV, Zeek, line readers and auto-detection
//   query     (S)  fuzzing of the query compiler (parser + semantic analysis + build)
// text, query, vng and typevalue have no Lean model: they are search, not proof.

import (
	"bytes"
	"encoding/binary"
	"encoding/hex"
	"encoding/json"
	"fmt"
	"math/rand"
	"os"
	"sort"
	"strings"
	"time"
	. "verifharness/hlib"

	zed "github.com/brimdata/super"
	"github.com/brimdata/super/vng"
	"github.com/brimdata/super/zcode"
	"github.com/brimdata/super/zio"
	"github.com/brimdata/super/zio/anyio"
	"github.com/brimdata/super/zio/vngio"
	"github.com/brimdata/super/zio/zngio"
	"github.com/brimdata/super/zson"
	"github.com/pierrec/lz4/v4"
)

func main() {
	if os.Getenv("ZVH_C11_CHILD") == "1" {
		childMain()
		return
	}
	Main("C11", run)
}

const nWorkers = 8

type nopCloser struct{ *bytes.Buffer }

func (nopCloser) Close() error { return nil }

// replay of one input
type replay struct {
	Sub  string `json:"sub"`
	Job  *job   `json:"job"`
	Note string `json:"note,omitempty"`
}

func jobTimeout(c *Ctx) time.Duration { return 40 * time.Second }

// ---- generic oracle on an outcome ---------------------------------------------------------------

// allocLimit is the allowance for one job: generous constant + proportional to the input and to
// the configured read limit.
func allocLimit(j *job, extra uint64) uint64 {
	lim := uint64(64<<20) + 256*uint64(len(j.Data)/2) + extra
	return lim
}

// judge applies the outcome-class oracle that needs no model.  predictedPanic is the model's
// panic site ("" if none predicted).  It returns true if the job survived (values or error).
func judge(c *Ctx, sub string, j *job, o *outcome, predictedPanic string, extraAlloc uint64, keyHint string) bool {
	rp := replay{Sub: sub, Job: j}
	site := predictedPanic
	switch o.Status {
	case "crash":
		kind, fn := crashSignature(o.Stderr)
		if site == "" {
			site = "at:" + fn
		}
		c.Fail("panic", fmt.Sprintf("C11:%s:crash:%s", sub, site+keyHint),
			fmt.Sprintf("the process died on untrusted input (%s in %s); %d input bytes", kind, fn, len(j.Data)/2), rp)
		c.Stat(sub + ":class:crash")
		return false
	case "timeout":
		c.Stat(sub + ":timeout-confirmed-alone")
		c.Fail("oracle", fmt.Sprintf("C11:%s:timeout%s", sub, keyHint), fmt.Sprintf("no answer within the time allowance on %d input bytes (at %s)", len(j.Data)/2, topRepoFrame(o.Stderr)), rp)
		c.Stat(sub + ":class:timeout")
		return false
	}
	if o.Retried {
		c.Stat(sub + ":slow-under-load-ok-alone")
	}
	ok := true
	if o.Class == "panic" {
		fn := topRepoFrame(o.Err)
		if site == "" {
			site = "at:" + fn
		}
		c.Fail("panic", fmt.Sprintf("C11:%s:panic:%s", sub, site+keyHint),
			fmt.Sprintf("panic escaped to the caller on untrusted input: %s", firstLine(o.Err)), rp)
		c.Stat(sub + ":class:panic")
		ok = false
	} else {
		c.Stat(sub + ":class:" + o.Class)
	}
	if lim := allocLimit(j, extraAlloc); o.Alloc > lim {
		c.Fail("oracle", fmt.Sprintf("C11:%s:alloc%s", sub, keyHint), fmt.Sprintf("allocated %d MiB for %d input bytes (allowance %d MiB)", o.Alloc>>20, len(j.Data)/2, lim>>20), rp)
		ok = false
	}
	if o.Leak > 0 {
		c.Fail("oracle", fmt.Sprintf("C11:%s:goroutine-leak", sub), fmt.Sprintf("%d goroutines left behind", o.Leak), rp)
		ok = false
	}
	return ok
}

func firstLine(s string) string {
	if i := strings.IndexByte(s, '\n'); i >= 0 {
		return s[:i]
	}
	return s
}

// ---- ZNG seeds and mutations --------------------------------------------------------------------

type zngSeed struct {
	data   []byte // as written by the real writer
	plain  []byte // LZ4 stripped
	frames []ZFrame
}

func makeSeed(r *rand.Rand, idx int) zngSeed {
	g := NewZGen(r, 1+r.Intn(2), 1+r.Intn(3))
	n := 1 + r.Intn(10)
	var buf bytes.Buffer
	w := zngio.NewWriterWithOpts(nopCloser{&buf}, zngio.WriterOpts{Compress: idx%2 == 0, FrameThresh: []int{1, 16, 64, 1000}[r.Intn(4)]})
	for i := 0; i < n; i++ {
		v, _ := g.Value()
		if len(v.Bytes()) > 2000 {
			continue
		}
		w.Write(v)
		if r.Intn(5) == 0 {
			w.EndStream()
		}
	}
	if idx%2 == 0 {
		// something LZ4 will actually compress
		w.Write(zed.NewString(strings.Repeat("abcd", 40+r.Intn(40))))
	}
	w.Close()
	data := append([]byte{}, buf.Bytes()...)
	plain, _, err := ZngStripLZ4(data)
	if err != nil {
		panic(err)
	}
	frames, _ := ZngFrames(plain)
	return zngSeed{data, plain, frames}
}

// varint positions (offset, length) inside a plain stream, with a label of what they are
type vpos struct {
	off, n int
	what   string
}

func uvAt(b []byte, off int) (uint64, int) {
	if off >= len(b) {
		return 0, 0
	}
	u, n := binary.Uvarint(b[off:])
	if n <= 0 {
		return 0, 0
	}
	return u, n
}

// varintPositions walks a well-formed plain stream.
func varintPositions(plain []byte) []vpos {
	var out []vpos
	off := 0
	for off < len(plain) {
		code := plain[off]
		off++
		if code == 0xff {
			continue
		}
		u, n := uvAt(plain, off)
		if n == 0 {
			return out
		}
		out = append(out, vpos{off, n, "framelen"})
		off += n
		length := int(u<<4) | int(code&0xf)
		end := off + length
		if end > len(plain) {
			return out
		}
		kind := int(code>>4) & 3
		p := off
		switch kind {
		case 0: // typedefs
			for p < end {
				tc := plain[p]
				p++
				rd := func(what string) uint64 {
					u, n := uvAt(plain[:end], p)
					if n == 0 {
						p = end
						return 0
					}
					out = append(out, vpos{p, n, what})
					p += n
					return u
				}
				str := func() {
					l := rd("strlen")
					p += int(l)
				}
				switch tc {
				case 0:
					k := rd("nfields")
					for i := uint64(0); i < k && p < end; i++ {
						str()
						rd("typeid")
					}
				case 1, 2, 6:
					rd("typeid")
				case 3:
					rd("typeid")
					rd("typeid")
				case 4:
					k := rd("ntypes")
					for i := uint64(0); i < k && p < end; i++ {
						rd("typeid")
					}
				case 5:
					k := rd("nsyms")
					for i := uint64(0); i < k && p < end; i++ {
						str()
					}
				case 7:
					str()
					rd("typeid")
				default:
					p = end
				}
			}
		case 1: // values
			for p < end {
				_, n := uvAt(plain[:end], p)
				if n == 0 {
					break
				}
				out = append(out, vpos{p, n, "valueid"})
				p += n
				t, n := uvAt(plain[:end], p)
				if n == 0 {
					break
				}
				out = append(out, vpos{p, n, "valuetag"})
				p += n
				if t > 0 {
					// first inner tag of the body, if any
					if t > 1 {
						if _, n2 := uvAt(plain[:end], p); n2 > 0 {
							out = append(out, vpos{p, n2, "innertag"})
						}
					}
					p += int(t - 1)
				}
			}
		}
		off = end
	}
	return out
}

var spliceVals = []uint64{0, 1, 29, 30, 31, 127, 128, 100001, 1 << 20, 1<<31 - 1, 1 << 31, 1 << 32, 1<<62 + 5, 1<<63 - 1, 1 << 63, 1<<63 + 7, 1<<64 - 1}

type mutant struct {
	data []byte
	how  string
}

func spliceAt(b []byte, off, n int, repl []byte) []byte {
	out := make([]byte, 0, len(b)+len(repl))
	out = append(out, b[:off]...)
	out = append(out, repl...)
	out = append(out, b[off+n:]...)
	return out
}

// mutants of one seed; budget bounds the number.
func mutate(r *rand.Rand, s zngSeed, budget int) []mutant {
	var out []mutant
	add := func(d []byte, how string) { out = append(out, mutant{d, how}) }
	add(s.data, "unmutated")
	// truncation at every offset of the stream as written (compressed frames included)
	step := 1
	if len(s.data) > 300 {
		step = len(s.data) / 300
	}
	for i := 0; i < len(s.data); i += step {
		add(s.data[:i], "truncate")
	}
	// header bit flips, on the stream as written
	off := 0
	for _, f := range s.frames0() {
		hl := f.HdrLen
		if f.EOS {
			hl = 1
		}
		for b := 0; b < hl*8; b++ {
			d := append([]byte{}, s.data...)
			d[off+b/8] ^= 1 << uint(b%8)
			add(d, "flip-header")
		}
		off += len(f.Raw)
	}
	// boundary integers in the headers of the frames as written: frame length and, for compressed
	// frames, the declared uncompressed size
	off = 0
	for _, f := range s.frames0() {
		if !f.EOS {
			_, n := uvAt(s.data, off+1)
			if n > 0 {
				how := "splice-framelen-raw"
				if f.Compressed {
					how = "splice-compframelen"
				}
				for _, v := range spliceVals {
					add(spliceAt(s.data, off+1, n, binary.AppendUvarint(nil, v)), how)
				}
				if f.Compressed {
					p := off + 1 + n + 1
					if _, n2 := uvAt(s.data, p); n2 > 0 {
						for _, v := range append([]uint64{65, 4097, 1<<20 + 1, 1<<22 + 1, 1 << 30, 1<<30 + 1, 1 << 40}, spliceVals...) {
							add(spliceAt(s.data, p, n2, binary.AppendUvarint(nil, v)), "splice-compsize")
						}
					}
				}
			}
		}
		off += len(f.Raw)
	}
	// boundary integers at every varint position of the plain stream; the result is sent plain
	// and, for some, re-compressed (mutated plaintext inside valid LZ4)
	vps := varintPositions(s.plain)
	for _, vp := range vps {
		for _, v := range spliceVals {
			if vp.what == "innertag" && r.Intn(3) != 0 {
				continue
			}
			d := spliceAt(s.plain, vp.off, vp.n, binary.AppendUvarint(nil, v))
			add(d, "splice-"+vp.what)
		}
		// keep the enclosing frame length consistent with a longer varint: also try fixing up
		// nothing — the inconsistent case above is the interesting one for framing; for
		// typedef/value ints re-frame so that the mutated int is actually decoded
		if vp.what != "framelen" {
			for _, v := range []uint64{1 << 63, 1<<64 - 1, 1 << 31, 100001, 31} {
				if d, ok := reframe(s.plain, vp, binary.AppendUvarint(nil, v)); ok {
					add(d, "reframe-"+vp.what)
					if r.Intn(4) == 0 {
						if fr, err := ZngFrames(d); err == nil {
							add(ZngAssemble(fr, func(int) bool { return true }), "reframe-lz4-"+vp.what)
						}
					}
				}
			}
		}
	}
	// random bit flips / inserts / deletes in payloads
	for i := 0; i < 40+len(s.plain)/4; i++ {
		src := s.plain
		if r.Intn(3) == 0 {
			src = s.data
		}
		if len(src) == 0 {
			break
		}
		d := append([]byte{}, src...)
		switch r.Intn(4) {
		case 0, 1:
			p := r.Intn(len(d))
			d[p] ^= 1 << uint(r.Intn(8))
			add(d, "flip-any")
		case 2:
			p := r.Intn(len(d))
			d = append(d[:p], d[p+1:]...)
			add(d, "delete-byte")
		default:
			p := r.Intn(len(d) + 1)
			d = spliceAt(d, p, 0, []byte{byte(r.Intn(256))})
			add(d, "insert-byte")
		}
	}
	if len(out) > budget {
		// keep the unmutated one, every mutant of a compressed frame's declared size, and a
		// seeded sample of the rest
		var keep, rest []mutant
		for i, m := range out {
			if i == 0 || m.how == "splice-compsize" || m.how == "splice-compframelen" {
				keep = append(keep, m)
			} else {
				rest = append(rest, m)
			}
		}
		r.Shuffle(len(rest), func(i, j int) { rest[i], rest[j] = rest[j], rest[i] })
		if n := budget - len(keep); n > 0 && n < len(rest) {
			rest = rest[:n]
		}
		out = append(keep, rest...)
	}
	return out
}

func (s zngSeed) frames0() []ZFrame {
	f, err := ZngFrames(s.data)
	if err != nil {
		return nil
	}
	return f
}

// reframe replaces the varint at vp inside its frame and rewrites the frame header so that the
// frame length is consistent again.
func reframe(plain []byte, vp vpos, repl []byte) ([]byte, bool) {
	off := 0
	for off < len(plain) {
		start := off
		code := plain[off]
		off++
		if code == 0xff {
			continue
		}
		u, n := uvAt(plain, off)
		if n == 0 {
			return nil, false
		}
		off += n
		length := int(u<<4) | int(code&0xf)
		end := off + length
		if vp.off >= off && vp.off < end {
			payload := spliceAt(plain[off:end], vp.off-off, vp.n, repl)
			hdr := []byte{byte(int(code&0xf0) | len(payload)&0xf)}
			hdr = binary.AppendUvarint(hdr, uint64(len(payload)>>4))
			out := append([]byte{}, plain[:start]...)
			out = append(out, hdr...)
			out = append(out, payload...)
			out = append(out, plain[end:]...)
			return out, true
		}
		off = end
	}
	return nil, false
}

// ---- zng sub-check ----------------------------------------------------------------------------------

type zngCase struct {
	m   mutant
	j   *job
	mod ModelRead
}

func pickOpts(r *rand.Rand, j *job, dataLen int) {
	j.Threads = []int{1, 1, 1, 2, 3, 8}[r.Intn(6)]
	j.Validate = r.Intn(2) == 0
	j.Scan = r.Intn(2) == 0
	// The read limit is always set for mutated inputs: with the default limit (1 GiB) a mutated
	// length makes the reader legitimately allocate hundreds of MiB, which says nothing and is
	// slow.  When the limit is small Size stays 0 so that the peeker's buffer equals the limit.
	switch r.Intn(10) {
	case 0, 1, 2:
		j.Max = 1 << 20
	case 3, 4:
		j.Max = 4096
	case 5, 6:
		j.Max = 64
	case 7:
		j.Max = 1 << 22
		j.Size = []int{1, 7, 512}[r.Intn(3)]
	default:
		j.Max = 1 << 22
	}
	if r.Intn(4) == 0 {
		j.Chunk = []int{1, 3, 64}[r.Intn(3)]
	}
}

func effMax(j *job) int {
	if j.Max == 0 {
		return zngio.MaxSize
	}
	return j.Max
}

// lz4Answer computes the oracle's answer for one (compressed bytes, size) request.
func lz4Answer(zhex string, size int) string {
	z, err := UnhexAtom(zhex)
	if err != nil || size < 0 || size > 1<<30 {
		return "fail"
	}
	ubuf := make([]byte, size)
	n, err := lz4.UncompressBlock(z, ubuf)
	if err != nil || n != size {
		return "fail"
	}
	return HexAtom(ubuf)
}

// modelRead asks the Lean model, answering its LZ4 requests.
func modelRead(c *Ctx, lines []string, datas []string, maxes []int, validates []bool) []ModelRead {
	m := c.ModelBigStack()
	tables := make([]string, len(lines))
	out := make([]ModelRead, len(lines))
	pending := make([]int, len(lines))
	for i := range pending {
		pending[i] = i
	}
	for round := 0; round < 6 && len(pending) > 0; round++ {
		var req []string
		for _, i := range pending {
			req = append(req, fmt.Sprintf("(C11 read %d %d 1 %s (%s))", maxes[i], b2i(validates[i]), datas[i], tables[i]))
		}
		ans := m.Batch(req)
		var next []int
		for k, i := range pending {
			mr, err := ParseModelRead(ans[k])
			if err != nil {
				out[i] = ModelRead{Outcome: "model-error:" + err.Error()}
				continue
			}
			if mr.Need != "" {
				// (need (zhex size) …)
				toks := strings.Fields(strings.NewReplacer("(", " ", ")", " ").Replace(mr.Need))
				for t := 1; t+1 < len(toks); t += 2 {
					var size int
					fmt.Sscan(toks[t+1], &size)
					tables[i] += fmt.Sprintf("(%s %d %s) ", toks[t], size, lz4Answer(toks[t], size))
				}
				next = append(next, i)
				continue
			}
			out[i] = mr
		}
		pending = next
	}
	for _, i := range pending {
		out[i] = ModelRead{Outcome: "model-error:lz4 rounds exhausted"}
	}
	return out
}

func b2i(b bool) int {
	if b {
		return 1
	}
	return 0
}

func valsOf(vs []valJ) []ZVal {
	out := make([]ZVal, len(vs))
	for i, v := range vs {
		b, _ := UnhexAtom(v.Body)
		out[i] = ZVal{Ty: v.Ty, Body: b, Null: v.Null}
	}
	return out
}

func isPrefix(a, b []ZVal) bool {
	if len(a) > len(b) {
		return false
	}
	_, ok := SameZVals(a, b[:len(a)])
	return ok
}

func runZNG(c *Ctx, only *replay) {
	r := c.Rng
	var cases []*zngCase
	if only != nil {
		cases = append(cases, &zngCase{m: mutant{how: "replay"}, j: only.Job})
	} else {
		nseeds := c.N(5, 40)
		per := c.N(220, 600)
		id := 0
		for s := 0; s < nseeds; s++ {
			seed := makeSeed(r, s)
			for _, m := range mutate(r, seed, per) {
				j := &job{ID: id, Kind: "zng", Data: hex.EncodeToString(m.data), WantVals: true}
				pickOpts(r, j, len(m.data))
				if m.how == "unmutated" {
					j.Max, j.Size = 0, 0
				}
				cases = append(cases, &zngCase{m: m, j: j})
				id++
			}
		}
	}
	jobs := make([]*job, len(cases))
	var lines, datas []string
	var maxes []int
	var vals []bool
	for i, cs := range cases {
		jobs[i] = cs.j
		datas = append(datas, HexAtom(mustUnhex(cs.j.Data)))
		maxes = append(maxes, effMax(cs.j))
		vals = append(vals, cs.j.Validate)
		lines = append(lines, "")
	}
	t0 := time.Now()
	mods := modelRead(c, lines, datas, maxes, vals)
	t1 := time.Now()
	outs := runJobs(jobs, nWorkers, jobTimeout(c))
	if only == nil {
		var sumMs, maxMs int64
		for i := range outs {
			sumMs += outs[i].Ms
			if outs[i].Ms > maxMs {
				maxMs = outs[i].Ms
			}
		}
		c.Note("zng: %d mutants; model %.1fs, real reader (child processes) %.1fs (sum of in-child job times %.1fs, max %dms)", len(cases), t1.Sub(t0).Seconds(), time.Since(t1).Seconds(), float64(sumMs)/1000, maxMs)
	}
	for i, cs := range cases {
		o := &outs[i]
		mod := mods[i]
		j := cs.j
		c.Eval(fmt.Sprintf("zng/%s/%x", cs.m.how, hashOf(j)))
		c.Stat("zng:mut:" + cs.m.how)
		if os.Getenv("C11_DEBUG") != "" && o.Ms > 300 {
			fmt.Fprintf(os.Stderr, "SLOW %dms %s threads=%d max=%d size=%d scan=%v chunk=%d class=%s alloc=%dMB leak=%d len=%d\n", o.Ms, cs.m.how, j.Threads, j.Max, j.Size, j.Scan, j.Chunk, o.Class, o.Alloc>>20, o.Leak, len(j.Data)/2)
		}
		c.Stat("zng:model:" + strings.SplitN(mod.Outcome, ":", 2)[0])
		c.Stat(fmt.Sprintf("zng:threads:%d", j.Threads))
		c.Res.ModelCases++
		rp := replay{Sub: "zng", Job: j, Note: cs.m.how}
		if strings.HasPrefix(mod.Outcome, "model-error") {
			c.Fail("correspondence", "C11:zng:model-error", mod.Outcome, rp)
			continue
		}
		predicted := ""
		if strings.HasPrefix(mod.Outcome, "panic:") {
			predicted = strings.TrimPrefix(mod.Outcome, "panic:")
		}
		var extra uint64
		for _, a := range mod.Allocs {
			if a < 512<<10 {
				a = 512 << 10
			}
			extra += uint64(a) * 2
		}
		// workers and read-ahead of the parser: a few buffers of up to the read limit each
		extra += uint64(j.Threads+2) * (2<<20 + 2*uint64(effMax(j)))
		survived := judge(c, "zng", j, o, predicted, extra, "")
		// model's own allocation claim
		for _, a := range mod.Allocs {
			if a > effMax(j) {
				c.Fail("correspondence", "C11:zng:model-alloc", fmt.Sprintf("model requests a buffer of %d > readmax %d", a, effMax(j)), rp)
			}
		}
		// ---- class correspondence
		real := o.Class
		if o.Status != "ok" {
			real = o.Status
		}
		got := valsOf(o.Vals)
		switch {
		case predicted != "":
			// the model says the code panics here: the real code must indeed panic (recovered
			// with one thread, process crash otherwise)
			if survived {
				if j.Threads == 1 {
					c.Fail("correspondence", "C11:zng:class:model-panic-real-"+real, fmt.Sprintf("model predicts a panic at %s, the real reader returned %s", predicted, real), rp)
				} else {
					c.Stat("zng:race:model-panic-real-" + real)
				}
			}
		case mod.Outcome == "eof":
			if !survived {
				if o.Status == "ok" && o.Class != "panic" {
					break
				}
				c.Fail("correspondence", "C11:zng:class:model-eof-real-"+real, "model reads the stream to the end, the real reader did not survive", rp)
				break
			}
			if real != "values" {
				c.Fail("correspondence", "C11:zng:class:model-eof-real-"+real, "model reads the stream to the end without error, the real reader returned: "+firstLine(o.Err), rp)
			} else if _, ok := SameZVals(mod.Vals, got); !ok {
				c.Fail("correspondence", "C11:zng:values", fmt.Sprintf("model and real reader both succeed but deliver different values (%d vs %d)", len(mod.Vals), len(got)), rp)
			}
		case mod.Outcome == "err":
			if !survived {
				break
			}
			if j.Threads == 1 {
				if real != "error" {
					c.Fail("correspondence", "C11:zng:class:model-err-real-"+real, fmt.Sprintf("model returns an error after %d values, the real reader returned %s with %d values", len(mod.Vals), real, len(got)), rp)
				} else if _, ok := SameZVals(mod.Vals, got); !ok {
					c.Fail("correspondence", "C11:zng:values-before-error", fmt.Sprintf("values delivered before the error differ (%d vs %d)", len(mod.Vals), len(got)), rp)
				}
			} else {
				// with several workers a frame that refers to a type defined only later can
				// be decoded after the parser has read that definition: error vs values is a race
				if real == "values" {
					c.Stat("zng:race:model-err-real-values")
				} else if !isPrefix(mod.Vals, got) && !isPrefix(got, mod.Vals) {
					c.Fail("correspondence", "C11:zng:values-before-error", "values delivered before the error are not a prefix of each other", rp)
				}
			}
		}
	}
}

func mustUnhex(s string) []byte {
	b, err := hex.DecodeString(s)
	if err != nil {
		panic(err)
	}
	return b
}

func hashOf(j *job) uint64 {
	var h uint64 = 1469598103934665603
	for _, s := range []string{j.Kind, j.Format, j.Data, j.TypeVal, fmt.Sprint(j.Threads, j.Size, j.Max, j.Validate, j.Scan, j.Chunk)} {
		for i := 0; i < len(s); i++ {
			h ^= uint64(s[i])
			h *= 1099511628211
		}
	}
	return h
}

// ---- validate sub-check -----------------------------------------------------------------------------

func typeHasSet(t zed.Type) bool {
	switch t := t.(type) {
	case *zed.TypeNamed:
		return typeHasSet(t.Type)
	case *zed.TypeError:
		return typeHasSet(t.Type)
	case *zed.TypeSet:
		return true
	case *zed.TypeArray:
		return typeHasSet(t.Type)
	case *zed.TypeMap:
		return typeHasSet(t.KeyType) || typeHasSet(t.ValType)
	case *zed.TypeRecord:
		for _, f := range t.Fields {
			if typeHasSet(f.Type) {
				return true
			}
		}
	case *zed.TypeUnion:
		for _, m := range t.Types {
			if typeHasSet(m) {
				return true
			}
		}
	}
	return false
}

func runValidate(c *Ctx, only *replay) {
	r := c.Rng
	type vcase struct {
		j      *job
		ty     string
		hasSet bool
	}
	var cases []*vcase
	if only != nil {
		tv := mustUnhex(only.Job.TypeVal)
		t, err := zed.NewContext().LookupByValue(tv)
		if err != nil {
			panic(err)
		}
		cases = append(cases, &vcase{only.Job, TySexp(t), typeHasSet(t)})
	} else {
		id := 0
		for s := 0; s < c.N(50, 600); s++ {
			g := NewZGen(r, 1, 1+r.Intn(3))
			zctx := g.Ctxs[0]
			t := g.Type(zctx, g.MaxDepth)
			if zed.TypeUnder(t).Kind() == zed.PrimitiveKind && r.Intn(4) != 0 {
				continue
			}
			body := g.Body(zctx, t, false)
			tvhex := hex.EncodeToString(zed.EncodeTypeValue(t))
			ty := TySexp(t)
			hs := typeHasSet(t)
			add := func(b []byte, null bool) {
				// a value of type `type` is a leaf Validate does not look at; the ZSON formatter
				// decodes it without limits (see the witness), so such values are not consumed here
				j := &job{ID: id, Kind: "validate", Data: hex.EncodeToString(b), TypeVal: tvhex, NoConsume: strings.Contains(ty, "(p 28)")}
				if null {
					j.Format = "null"
				}
				id++
				cases = append(cases, &vcase{j, ty, hs})
			}
			add(body, body == nil)
			if body == nil {
				continue
			}
			for i := 0; i < len(body) && i < 40; i++ {
				add(body[:i], false)
			}
			for k := 0; k < 25 && len(body) > 0; k++ {
				d := append([]byte{}, body...)
				switch r.Intn(4) {
				case 0, 1:
					d[r.Intn(len(d))] ^= 1 << uint(r.Intn(8))
				case 2:
					p := r.Intn(len(d))
					d = spliceAt(d, p, 1, binary.AppendUvarint(nil, spliceVals[r.Intn(len(spliceVals))]))
				default:
					p := r.Intn(len(d))
					d = append(d[:p], d[p+1:]...)
				}
				add(d, false)
			}
		}
	}
	jobs := make([]*job, len(cases))
	var lines []string
	for i, cs := range cases {
		jobs[i] = cs.j
		body := "null"
		if cs.j.Format != "null" {
			body = HexAtom(mustUnhex(cs.j.Data))
		}
		lines = append(lines, fmt.Sprintf("(C11 validate %s %s)", cs.ty, body))
	}
	ans := c.ModelBigStack().Batch(lines)
	outs := runJobs(jobs, nWorkers, jobTimeout(c))
	for i, cs := range cases {
		o := &outs[i]
		j := cs.j
		c.Eval(fmt.Sprintf("validate/%x", hashOf(j)))
		c.Res.ModelCases++
		rp := replay{Sub: "validate", Job: j, Note: cs.ty}
		if !judge(c, "validate", j, o, "", 0, "") {
			continue
		}
		realAccept := o.Accept
		modelAccept := ans[i] == "1"
		if ans[i] != "0" && ans[i] != "1" {
			c.Fail("correspondence", "C11:validate:model-error", "model answered "+ans[i], rp)
			continue
		}
		c.Stat(fmt.Sprintf("validate:accept=%v", realAccept))
		if realAccept != modelAccept {
			c.Fail("correspondence", "C11:validate:disagree", fmt.Sprintf("Validate accepts=%v, model validate=%v (%s)", realAccept, modelAccept, firstLine(o.Err)), rp)
			continue
		}
		if realAccept && strings.HasPrefix(o.After, "panic") {
			where := "other:" + o.AfterFn
			if cs.hasSet {
				where = "set-element"
			} else if strings.HasPrefix(o.AfterFn, "Decode") || strings.Contains(o.AfterFn, "formatPrimitive") {
				where = "leaf:" + o.AfterFn
			} else if strings.Contains(cs.ty, "(enum") && strings.Contains(o.AfterFn, "formatValue") && strings.Contains(o.After, "index out of range") {
				where = "enum-selector"
			}
			c.Fail("oracle", "C11:validate:unsound:"+where, "a value accepted by Validate is not structurally consistent: walking it panics: "+firstLine(o.After), rp)
		}
	}
}

// ---- typevalue sub-check ------------------------------------------------------------------------------

func tvKeyHint(o *outcome) string {
	s := o.Stderr + o.Err
	if strings.Contains(s, "LookupTypeUnion") {
		return ":union-nil-member"
	}
	return ""
}

func runTypeValue(c *Ctx, only *replay) {
	r := c.Rng
	var jobs []*job
	if only != nil {
		jobs = append(jobs, only.Job)
	} else {
		id := 0
		for s := 0; s < c.N(5, 40); s++ {
			g := NewZGen(r, 1, 1+r.Intn(3))
			t := g.Type(g.Ctxs[0], g.MaxDepth)
			tv := zed.EncodeTypeValue(t)
			add := func(b []byte) {
				jobs = append(jobs, &job{ID: id, Kind: "typevalue", Data: hex.EncodeToString(b)})
				id++
			}
			add(tv)
			for i := 0; i < len(tv) && i < 60; i++ {
				add(tv[:i])
			}
			for k := 0; k < 30 && len(tv) > 0; k++ {
				d := append([]byte{}, tv...)
				switch r.Intn(3) {
				case 0:
					d[r.Intn(len(d))] ^= 1 << uint(r.Intn(8))
				case 1:
					p := r.Intn(len(d))
					d = spliceAt(d, p, 1, binary.AppendUvarint(nil, spliceVals[r.Intn(len(spliceVals))]))
				default:
					p := r.Intn(len(d))
					d[p] = byte(30 + r.Intn(10))
				}
				add(d)
			}
		}
	}
	var lines []string
	for _, j := range jobs {
		lines = append(lines, "(C11 typevalue "+HexAtom(mustUnhex(j.Data))+")")
	}
	ans := c.ModelBigStack().Batch(lines)
	outs := runJobs(jobs, nWorkers, jobTimeout(c))
	for i, j := range jobs {
		o := &outs[i]
		c.Eval(fmt.Sprintf("typevalue/%x", hashOf(j)))
		c.Res.ModelCases++
		rp := replay{Sub: "typevalue", Job: j}
		predicted := ""
		if strings.HasPrefix(ans[i], "panic:") {
			predicted = strings.TrimPrefix(ans[i], "panic:")
		}
		c.Stat("typevalue:model:" + strings.SplitN(strings.Trim(ans[i], "()"), " ", 2)[0])
		survived := judge(c, "typevalue", j, o, predicted, 0, "")
		switch {
		case predicted != "":
			if survived {
				c.Fail("correspondence", "C11:typevalue:class:model-panic-real-"+o.Class, fmt.Sprintf("model predicts a panic at %s, LookupByValue returned %s", predicted, o.Class), rp)
			}
		case ans[i] == "fail":
			if survived && o.Class != "error" {
				c.Fail("correspondence", "C11:typevalue:class:model-fail-real-"+o.Class, "model rejects the type value, LookupByValue accepted it as "+o.After, rp)
			}
		case strings.HasPrefix(ans[i], "(ok "):
			want := strings.TrimSuffix(strings.TrimPrefix(ans[i], "(ok "), ")")
			if !survived {
				if o.Status == "ok" && o.Class == "panic" || o.Status != "ok" {
					c.Fail("correspondence", "C11:typevalue:class:model-ok-real-panic", "model decodes the type value, the real decoder did not survive", rp)
				}
			} else if o.Class != "values" {
				c.Fail("correspondence", "C11:typevalue:class:model-ok-real-error", "model decodes the type value to "+want+", LookupByValue rejected it: "+firstLine(o.Err), rp)
			} else if o.After != want {
				c.Fail("correspondence", "C11:typevalue:type", "decoded types differ: model "+want+" real "+o.After, rp)
			}
		default:
			c.Fail("correspondence", "C11:typevalue:model-error", "model answered "+ans[i], rp)
		}
	}
}

// ---- vng sub-check --------------------------------------------------------------------------------------

func vngSeedFile(r *rand.Rand, nvals int, distinct bool) []byte {
	zctx := zed.NewContext()
	var buf bytes.Buffer
	w := vngio.NewWriter(nopCloser{&buf})
	for i := 0; i < nvals; i++ {
		s := "x"
		if distinct {
			s = fmt.Sprintf("value-%d", i)
		}
		text := fmt.Sprintf(`{s:%q,n:%d,a:[%d,%d],u:%d((int64,string)),m:|{%q:%d}|,e:error(%q)}`, s, i, i, i+1, i, s, i, s)
		if i%3 == 1 {
			text = fmt.Sprintf(`{s:%q,t:%d.5}`, s, i)
		}
		v, err := zson.ParseValue(zctx, text)
		if err != nil {
			panic(err)
		}
		w.Write(v)
	}
	if err := w.Close(); err != nil {
		panic(err)
	}
	return buf.Bytes()
}

// vngSetMemLength rewrites the metadata so that the first plain primitive column claims the
// given in-memory length.
func vngSetMemLength(file []byte, memLength uint64) ([]byte, bool) {
	obj, err := vng.NewObject(bytes.NewReader(file))
	if err != nil {
		return nil, false
	}
	var hdr vng.Header
	hdr.Deserialize(file[:vng.HeaderSize])
	meta := obj.Metadata()
	done := false
	var walk func(m vng.Metadata)
	walk = func(m vng.Metadata) {
		if done {
			return
		}
		switch m := m.(type) {
		case *vng.Primitive:
			if len(m.Dict) == 0 && m.Location.MemLength > 0 {
				m.Location.MemLength = memLength
				done = true
			}
		case *vng.Record:
			for i := range m.Fields {
				walk(m.Fields[i].Values)
			}
		case *vng.Nulls:
			walk(m.Values)
		case *vng.Dynamic:
			for _, v := range m.Values {
				walk(v)
			}
		case *vng.Array:
			walk(m.Values)
		case *vng.Named:
			walk(m.Values)
		}
	}
	walk(meta)
	if !done {
		return nil, false
	}
	zctx := zed.NewContext()
	m := zson.NewZNGMarshalerWithContext(zctx)
	m.Decorate(zson.StyleSimple)
	val, err := m.Marshal(meta)
	if err != nil {
		return nil, false
	}
	var mb bytes.Buffer
	zw := zngio.NewWriter(zio.NopCloser(&mb))
	zw.Write(val)
	zw.EndStream()
	nh := vng.Header{Version: vng.Version, MetaSize: uint64(mb.Len()), DataSize: hdr.DataSize}
	out := append(nh.Serialize(), mb.Bytes()...)
	out = append(out, file[vng.HeaderSize+int(hdr.MetaSize):]...)
	return out, true
}

func vngKey(o *outcome) string {
	s := o.Stderr + o.Err
	switch {
	case strings.Contains(s, "makeslice"):
		return ":makeslice"
	}
	return ""
}

// runVngHdr: vng.Header.Deserialize vs the model on a grid of headers around every check.
func runVngHdr(c *Ctx) {
	r := c.Rng
	base := vng.Header{Version: vng.Version, MetaSize: 100, DataSize: 1000}.Serialize()
	var hs [][]byte
	hs = append(hs, base, base[:23], append(append([]byte{}, base...), 0), nil)
	for i := 0; i < 4; i++ {
		for _, v := range []byte{0, 1, 'V', 'N', 'G', 0xff} {
			d := append([]byte{}, base...)
			d[i] = v
			hs = append(hs, d)
		}
	}
	vals := []uint64{0, 1, 3, 4, 5, 1 << 8, vng.MaxMetaSize - 1, vng.MaxMetaSize, vng.MaxMetaSize + 1, vng.MaxDataSize - 1, vng.MaxDataSize, vng.MaxDataSize + 1, 1 << 32, 1 << 62, 1 << 63, 1<<64 - 1}
	for _, a := range vals {
		for _, b := range vals {
			for _, ver := range []uint32{vng.Version, vng.Version + 1, 0} {
				if ver != vng.Version && r.Intn(4) != 0 {
					continue
				}
				hs = append(hs, vng.Header{Version: ver, MetaSize: a, DataSize: b}.Serialize())
			}
		}
	}
	for i := 0; i < c.N(100, 3000); i++ {
		d := append([]byte{}, base...)
		for k := 0; k < 1+r.Intn(3); k++ {
			d[r.Intn(len(d))] = byte(r.Intn(256))
		}
		hs = append(hs, d)
	}
	var jobs []*job
	var lines []string
	for i, h := range hs {
		jobs = append(jobs, &job{ID: i, Kind: "vnghdr", Data: hex.EncodeToString(h)})
		lines = append(lines, "(C11 vnghdr "+HexAtom(h)+")")
	}
	ans := c.ModelBigStack().Batch(lines)
	outs := runJobs(jobs, nWorkers, jobTimeout(c))
	for i, j := range jobs {
		o := &outs[i]
		c.Eval(fmt.Sprintf("vnghdr/%x", hashOf(j)))
		c.Res.ModelCases++
		if !judge(c, "vnghdr", j, o, "", 0, "") {
			continue
		}
		want := "err"
		if o.Class == "values" {
			var m, d uint64
			fmt.Sscanf(o.After, "meta=%d data=%d", &m, &d)
			want = fmt.Sprintf("(ok %d %d)", m, d)
		}
		c.Stat("vnghdr:" + strings.SplitN(strings.Trim(want, "()"), " ", 2)[0])
		if ans[i] != want {
			c.Fail("correspondence", "C11:vnghdr:disagree", fmt.Sprintf("Header.Deserialize: real %s, model %s", want, ans[i]), replay{Sub: "vnghdr", Job: j})
		}
	}
}

func runVNG(c *Ctx, only *replay) {
	r := c.Rng
	if only == nil {
		runVngHdr(c)
	}
	var jobs []*job
	var hows []string
	if only != nil {
		jobs = append(jobs, only.Job)
		hows = append(hows, "replay")
	} else {
		id := 0
		add := func(b []byte, how string) {
			jobs = append(jobs, &job{ID: id, Kind: "vng", Data: hex.EncodeToString(b)})
			hows = append(hows, how)
			id++
		}
		for s := 0; s < c.N(2, 6); s++ {
			file := vngSeedFile(r, []int{3, 40, 700}[s%3], s%2 == 0)
			add(file, "unmutated")
			// header fields
			for _, off := range []int{4, 8, 16} {
				for _, v := range []uint64{0, 1, 23, 1 << 20, 1 << 31, 1 << 32, 1 << 40, 1 << 62, 1 << 63, 1<<64 - 1} {
					d := append([]byte{}, file...)
					if off == 4 {
						binary.LittleEndian.PutUint32(d[off:], uint32(v))
					} else {
						binary.LittleEndian.PutUint64(d[off:], v)
					}
					add(d, "header")
				}
			}
			// truncation
			stepT := 1 + len(file)/c.N(60, 400)
			for i := 0; i < len(file); i += stepT {
				add(file[:i], "truncate")
			}
		}
	}
	outs := runJobs(jobs, nWorkers, jobTimeout(c))
	for i, j := range jobs {
		o := &outs[i]
		c.Eval(fmt.Sprintf("vng/%x", hashOf(j)))
		c.Stat("vng:mut:" + hows[i])
		judge(c, "vng", j, o, "", 0, vngKey(o))
	}
}

// ---- text readers ---------------------------------------------------------------------------------------

// panicClass: a coarse class of a Go runtime panic message.
func panicClass(s string) string {
	switch {
	case strings.Contains(s, "index out of range"):
		return "index"
	case strings.Contains(s, "slice bounds out of range"):
		return "slice"
	case strings.Contains(s, "nil pointer dereference"):
		return "nil"
	case strings.Contains(s, "interface conversion"):
		return "conv"
	case strings.Contains(s, "stack overflow"), strings.Contains(s, "stack exceeds"):
		return "stack"
	case strings.Contains(s, "out of memory"), strings.Contains(s, "makeslice"):
		return "mem"
	}
	return "other"
}

var textSeeds = map[string][]string{
	"zson": {
		`{a:1,b:"s",c:[1,2,3],d:|[1,2]|,e:|{"k":1}|,f:<int64>,g:1.5,h:10.0.0.1,i:10.0.0.0/8,j:2020-01-01T00:00:00Z,k:1h,l:0x0102,m:null,n:error("x")}`,
		`{u:1((int64,string)),e:%a(enum(a,b)),n:80(port=uint16),t:<{a:int64}>}`,
		`1 "two" 3. {x:{y:{z:[{}]}}} |{1:2}| <port=uint16>`,
		`{a:1(=foo)} {a:2(foo)} {a:"x"(=foo)}`,
	},
	"zjson": {},
	"json": {
		`{"a":1,"b":[1,2,{"c":null}],"d":"x","e":1.5e10,"f":true}` + "\n" + `[1,2,3]` + "\n" + `"s"`,
		`{"a":{"b":{"c":{"d":[[[[1]]]]}}}}`,
	},
	"csv":  {"a,b,c\n1,2,3\nx,\"y,z\",\n", "a\n1\n"},
	"tsv":  {"a\tb\n1\t2\n"},
	"zeek": {"#separator \\x09\n#set_separator\t,\n#empty_field\t(empty)\n#unset_field\t-\n#path\tconn\n#fields\tts\tuid\tid.orig_h\tid.orig_p\tn\ts\n#types\ttime\tstring\taddr\tport\tcount\tset[string]\n1521911721.255387\tC8Tful1TvM3Zf5x8fl\t10.164.94.120\t39681\t5\ta,b\n"},
	"line": {"hello\nworld\n"},
}

func makeTextSeeds(r *rand.Rand) {
	// ZSON / ZJSON of generated values
	g := NewZGen(r, 1, 3)
	var zj bytes.Buffer
	w, err := anyio.NewWriter(nopCloser{&zj}, anyio.WriterOpts{Format: "zjson"})
	if err != nil {
		panic(err)
	}
	var zs []string
	for i := 0; i < 6; i++ {
		v, _ := g.Value()
		if len(v.Bytes()) > 400 {
			continue
		}
		zs = append(zs, zson.FormatValue(v))
		w.Write(v)
	}
	w.Close()
	textSeeds["zson"] = append(textSeeds["zson"], strings.Join(zs, "\n"))
	textSeeds["zjson"] = append(textSeeds["zjson"], zj.String())
}

var textTokens = []string{"{", "}", "[", "]", "(", ")", "|", "<", ">", "\"", "'", "\\", ",", ":", "=", "\n", "\t", "#", "-", ".", "e", "0x", "null", "error(", "|[", "]|", "|{", "}|", "\x00", "\xff", "1e999", "99999999999999999999", "((", "<<", "/*", "//"}

func mutateText(r *rand.Rand, s string) string {
	b := []byte(s)
	for k := 0; k < 1+r.Intn(3); k++ {
		if len(b) == 0 {
			b = []byte(textTokens[r.Intn(len(textTokens))])
			continue
		}
		switch r.Intn(6) {
		case 0:
			b = b[:r.Intn(len(b))]
		case 1:
			b[r.Intn(len(b))] ^= 1 << uint(r.Intn(8))
		case 2:
			p := r.Intn(len(b) + 1)
			b = spliceAt(b, p, 0, []byte(textTokens[r.Intn(len(textTokens))]))
		case 3:
			p := r.Intn(len(b))
			q := p + r.Intn(len(b)-p)
			b = append(b[:p], b[q:]...)
		case 4:
			p := r.Intn(len(b))
			q := p + r.Intn(len(b)-p)
			chunk := append([]byte{}, b[p:q]...)
			b = spliceAt(b, q, 0, chunk)
		default:
			// nesting amplification
			tok := []string{"[", "{a:", "(", "|[", "<[", "error("}[r.Intn(6)]
			b = append([]byte(strings.Repeat(tok, []int{10, 200, 2000}[r.Intn(3)])), b...)
		}
	}
	return string(b)
}

func runText(c *Ctx, only *replay) {
	r := c.Rng
	var jobs []*job
	if only != nil {
		jobs = append(jobs, only.Job)
	} else {
		makeTextSeeds(r)
		formats := []string{"zson", "zjson", "json", "csv", "tsv", "zeek", "line"}
		id := 0
		for i := 0; i < c.N(400, 8000); i++ {
			f := formats[r.Intn(len(formats))]
			seeds := textSeeds[f]
			s := seeds[r.Intn(len(seeds))]
			if i >= len(formats)*2 {
				s = mutateText(r, s)
			}
			format := f
			if r.Intn(3) == 0 {
				format = "auto"
			}
			jobs = append(jobs, &job{ID: id, Kind: "text", Format: format, Family: f, Data: hex.EncodeToString([]byte(s))})
			id++
		}
	}
	outs := runJobs(jobs, nWorkers, jobTimeout(c))
	for i, j := range jobs {
		o := &outs[i]
		c.Eval(fmt.Sprintf("text/%x", hashOf(j)))
		c.Stat("text:format:" + j.Format)
		judge(c, "text", j, o, "", 0, ":"+j.Family+":"+panicClass(o.Err+o.Stderr))
	}
}

// ---- query compiler ----------------------------------------------------------------------------------------

var querySeeds = []string{
	"count() by a | sort -r count", "yield {a:1,b:[1,2,3]} | over b => (yield this+1)", "where a > 1 and (b == 'x' or c in [1,2,3])",
	"put x:=a+b*2, y:=upper(s) | cut x,y | head 3", "fork (=> count() => sum(a))", "switch a (case 1 => yield 'one' default => yield 'other')",
	"from (pass => pass) | join on a=b c:=d", "type port=uint16 yield <port>(80)", "func f(x): (x+1) yield f(1)", "const K=1 yield K",
	"summarize c:=count(), u:=union(a) by k:=lower(s) | sort k", "yield |{1:2}|, |[1,2]|, 10.0.0.0/8, 2020-01-01T00:00:00Z, 1h, error('x')",
	"over a with b=c => (where this > b | sum(this))", "search foo and bar or not baz*", "yield a[1:2], a.b.c, this['x'], cast(a, <string>)",
	"sort -nulls first a desc, b | uniq -c | tail 2", "yield /re+x/ ? 1 : 2", "drop a | rename b:=c | fuse | shape(<{x:int64}>)",
}

func loadQuerySeeds() {
	if b, err := os.ReadFile("/repo/compiler/parser/valid.zed"); err == nil {
		for _, l := range strings.Split(string(b), "\n") {
			if strings.TrimSpace(l) != "" {
				querySeeds = append(querySeeds, l)
			}
		}
	}
}

var queryTokens = []string{"(", ")", "|", "=>", ":=", "==", "[", "]", "{", "}", ",", " by ", " and ", " or ", "not ", "over ", "yield ", "from ", "fork ", "switch ", "case ", "default ", "func ", "const ", "type ", "op ", "<", ">", "'", "\"", "/", "*", "...", "this", "1e999", "0x", "\\", "\x00"}

func mutateQuery(r *rand.Rand, s string) string {
	b := []byte(s)
	for k := 0; k < 1+r.Intn(3); k++ {
		if len(b) == 0 {
			b = []byte(queryTokens[r.Intn(len(queryTokens))])
			continue
		}
		switch r.Intn(6) {
		case 0:
			b = b[:r.Intn(len(b))]
		case 1:
			p := r.Intn(len(b) + 1)
			b = spliceAt(b, p, 0, []byte(queryTokens[r.Intn(len(queryTokens))]))
		case 2:
			p := r.Intn(len(b))
			q := p + r.Intn(len(b)-p)
			b = append(b[:p], b[q:]...)
		case 3:
			o := querySeeds[r.Intn(len(querySeeds))]
			b = append(append(b, []byte(" | ")...), []byte(o)...)
		case 4:
			b[r.Intn(len(b))] = byte(32 + r.Intn(95))
		default:
			tok := []string{"(", "[", "{a:", "not ", "-", "f(", "over a => (", "<["}[r.Intn(8)]
			b = append([]byte("yield "+strings.Repeat(tok, []int{10, 60, 250}[r.Intn(3)])), b...)
		}
	}
	return string(b)
}

func runQuery(c *Ctx, only *replay) {
	r := c.Rng
	var jobs []*job
	if only != nil {
		jobs = append(jobs, only.Job)
	} else {
		loadQuerySeeds()
		for i := 0; i < c.N(200, 3000); i++ {
			q := querySeeds[r.Intn(len(querySeeds))]
			if i >= len(querySeeds) {
				q = mutateQuery(r, q)
			} else {
				q = querySeeds[i]
			}
			jobs = append(jobs, &job{ID: i, Kind: "query", Data: hex.EncodeToString([]byte(q))})
		}
	}
	outs := runJobs(jobs, nWorkers, jobTimeout(c))
	for i, j := range jobs {
		o := &outs[i]
		c.Eval(fmt.Sprintf("query/%x", hashOf(j)))
		judge(c, "query", j, o, "", 0, ":"+panicClass(o.Err+o.Stderr))
	}
}

// ---- witnesses of the known defects -------------------------------------------------------------------------

func runWitness(c *Ctx) {
	big := binary.AppendUvarint(nil, 1<<63)
	frame := func(code byte, payload []byte) []byte {
		out := []byte{code | byte(len(payload)&0xf)}
		out = binary.AppendUvarint(out, uint64(len(payload)>>4))
		return append(out, payload...)
	}
	type w struct {
		name string
		j    *job
		site string
	}
	var ws []w
	id := 0
	addZ := func(name, site string, data []byte, threads int) {
		ws = append(ws, w{name, &job{ID: id, Kind: "zng", Data: hex.EncodeToString(data), Threads: threads, WantVals: true}, site})
		id++
	}
	// 1. a value whose type id is ≥ 2^63: MapperLookupCache.Lookup indexes with a negative int
	negID := frame(0x10, append(append([]byte{}, big...), 1))
	addZ("value type id 2^63", "mapper-lookup-negative-id", negID, 1)
	addZ("value type id 2^63", "mapper-lookup-negative-id", negID, 2)
	// 2. a compressed frame that declares an uncompressed size ≥ 2^63: newBuffer slices negative
	negSize := frame(0x50, append([]byte{0}, big...))
	addZ("compressed frame of declared size 2^63", "newbuffer-negative-length", negSize, 1)
	addZ("compressed frame of declared size 2^63", "newbuffer-negative-length", negSize, 2)
	// 3. a typedef whose name length is ≥ 2^63: buffer.read slices backwards
	negStr := frame(0x00, append([]byte{zngio.TypeDefName}, big...))
	addZ("typedef name length 2^63", "buffer-read-negative-length", negStr, 1)
	addZ("typedef name length 2^63", "buffer-read-negative-length", negStr, 2)
	jobs := make([]*job, len(ws))
	var datas []string
	var maxes []int
	var vals []bool
	for i, x := range ws {
		jobs[i] = x.j
		datas = append(datas, HexAtom(mustUnhex(x.j.Data)))
		maxes = append(maxes, zngio.MaxSize)
		vals = append(vals, false)
	}
	mods := modelRead(c, make([]string, len(ws)), datas, maxes, vals)
	outs := runJobs(jobs, 2, jobTimeout(c))
	for i, x := range ws {
		c.Eval("witness/" + x.name + fmt.Sprint(x.j.Threads))
		c.Res.ModelCases++
		rp := replay{Sub: "zng", Job: x.j, Note: x.name}
		// these inputs panicked (and killed the process with Threads>1) until repo commit 0b09f99cc
		// added the sign checks; model and code must now both return an ordinary error
		if mods[i].Outcome != "err" {
			c.Fail("correspondence", "C11:witness:model", fmt.Sprintf("%s: model outcome %s, expected err", x.name, mods[i].Outcome), rp)
		}
		if judge(c, "zng", x.j, &outs[i], "", 4<<20, ":former-"+x.site) && outs[i].Class != "error" {
			c.Fail("correspondence", "C11:witness:class", fmt.Sprintf("%s: the real reader returned %s, expected an error", x.name, outs[i].Class), rp)
		}
	}
	// 4. type value: a union that announces more members than it has
	tvs := []*job{
		{ID: 0, Kind: "typevalue", Data: hex.EncodeToString([]byte{zed.TypeValueUnion, 1})},
		{ID: 1, Kind: "typevalue", Data: hex.EncodeToString([]byte{zed.TypeValueUnion, 2, zed.IDInt64})},
		// a name / record whose length is ≥ 2^63: DecodeName slices, DecodeTypeValue makes, with a negative int
		{ID: 2, Kind: "typevalue", Data: hex.EncodeToString(append(append([]byte{zed.TypeValueNameDef}, big...), zed.IDInt64))},
		{ID: 3, Kind: "typevalue", Data: hex.EncodeToString(append([]byte{zed.TypeValueRecord}, big...))},
	}
	for i := range tvs {
		c.Eval(fmt.Sprintf("witness/typevalue/%d", i))
		runTypeValue(c, &replay{Sub: "typevalue", Job: tvs[i]})
	}
	// 5. Validate does not look inside set elements
	{
		zctx := zed.NewContext()
		rec := zctx.MustLookupTypeRecord([]zed.Field{zed.NewField("a", zed.TypeInt64)})
		set := zctx.LookupTypeSet(rec)
		var b zcode.Builder
		b.Append([]byte{5}) // an element whose body claims a 4-byte field and has none
		j := &job{ID: 0, Kind: "validate", Data: hex.EncodeToString(b.Bytes()), TypeVal: hex.EncodeToString(zed.EncodeTypeValue(set))}
		rp := &replay{Sub: "validate", Job: j}
		runValidate(c, rp)
	}
	// 5a. a `type` value is a leaf for Validate; the ZSON formatter then decodes a union type value
	//     that announces 2^31 members without any limit
	{
		zctx := zed.NewContext()
		et := zctx.LookupTypeError(zed.TypeType)
		j := &job{ID: 0, Kind: "validate", Data: "228080808008220106", TypeVal: hex.EncodeToString(zed.EncodeTypeValue(et))}
		r := &runner{}
		o := r.do(j, 8*time.Second)
		r.stop()
		c.Eval("witness/validate-typevalue-format")
		switch {
		case o.Status == "timeout" || (o.Status == "ok" && o.Alloc > 128<<20) || o.Status == "crash" || strings.HasPrefix(o.After, "panic"):
			c.Fail("oracle", "C11:validate:unsound:leaf:typevalue-format", fmt.Sprintf("a 9-byte value of type error(type) is accepted by Validate; formatting it does not finish in 8 s / allocates without bound (status %s, %d MiB): the type value announces a union of 2^31 members", o.Status, o.Alloc>>20), replay{Sub: "witness", Job: j})
		case o.Status == "ok" && !o.Accept:
			c.Note("witness validate-typevalue-format: Validate now rejects the value")
		}
	}
	// 5b. the query parser on a keyword / identifier that starts with an escape; ZJSON enum value
	//     outside its (empty) symbol list
	{
		js := []*job{
			{ID: 0, Kind: "query", Data: hex.EncodeToString([]byte(`\+`))},
			{ID: 1, Kind: "query", Data: hex.EncodeToString([]byte(`\Inf`))},
			{ID: 2, Kind: "text", Format: "zjson", Family: "zjson", Data: hex.EncodeToString([]byte(`{"type":{"kind":"enum","id":30,"symbols":[]},"value":"0"}`))},
		}
		for i, o := range runJobs(js, 2, jobTimeout(c)) {
			o := o
			c.Eval(fmt.Sprintf("witness/parser/%d", i))
			hint := ":" + panicClass(o.Err+o.Stderr)
			if js[i].Kind == "text" {
				hint = ":" + js[i].Family + hint
			}
			judge(c, js[i].Kind, js[i], &o, "", 0, hint)
		}
	}
	// 6. VNG header: DataSize is never checked (the check tests MetaSize twice)
	{
		h := vng.Header{Version: vng.Version, MetaSize: 10, DataSize: 1 << 62}
		j := &job{ID: 0, Kind: "vnghdr", Data: hex.EncodeToString(h.Serialize())}
		o := runJobs([]*job{j}, 1, jobTimeout(c))[0]
		c.Eval("witness/vnghdr")
		if judge(c, "vnghdr", j, &o, "", 0, "") && o.Class == "values" {
			c.Fail("oracle", "C11:vng:header:datasize-unchecked", fmt.Sprintf("vng.Header.Deserialize accepts DataSize = 2^62 > MaxDataSize (%d): the declared limit is not enforced (%s)", uint64(vng.MaxDataSize), o.After), replay{Sub: "vnghdr", Job: j})
		}
		h = vng.Header{Version: vng.Version, MetaSize: vng.MaxMetaSize + 1, DataSize: 1}
		j2 := &job{ID: 0, Kind: "vnghdr", Data: hex.EncodeToString(h.Serialize())}
		o = runJobs([]*job{j2}, 1, jobTimeout(c))[0]
		if o.Class != "error" {
			c.Fail("oracle", "C11:vng:header:metasize-unchecked", "vng.Header.Deserialize accepts MetaSize > MaxMetaSize", replay{Sub: "vnghdr", Job: j2})
		}
	}
	// 6b. VNG with an empty metadata section: readMetadata dereferences the nil value
	{
		h := vng.Header{Version: vng.Version, MetaSize: 0, DataSize: 0}
		j := &job{ID: 0, Kind: "vng", Data: hex.EncodeToString(h.Serialize())}
		o := runJobs([]*job{j}, 1, jobTimeout(c))[0]
		c.Eval("witness/vng-empty-meta")
		judge(c, "vng", j, &o, "", 0, "")
	}
	// 7. VNG segment MemLength is allocated unchecked
	{
		file := vngSeedFile(rand.New(rand.NewSource(7)), 700, true)
		for _, ml := range []uint64{768 << 20, 1 << 62} {
			d, ok := vngSetMemLength(file, ml)
			c.Eval(fmt.Sprintf("witness/vng-memlength/%d", ml))
			if !ok {
				c.Fail("correspondence", "C11:witness:vng-memlength", "harness could not rewrite the VNG metadata", nil)
				continue
			}
			j := &job{ID: 0, Kind: "vng", Data: hex.EncodeToString(d)}
			o := runJobs([]*job{j}, 1, 60*time.Second)[0]
			judge(c, "vng", j, &o, "", 0, ":segment-memlength")
		}
	}
}

// ---- main -----------------------------------------------------------------------------------------------------

func run(c *Ctx) {
	c.Rule("zng: valid streams written by the real writer from generated values (whole type system, compress on/off, thresh 1..1000, EOS) and mutated: " +
		"truncation at every offset, every bit of every frame header, boundary integers {0,1,29..31,127,128,100001,2^20,2^31±,2^32,2^62,2^63±,2^64-1} spliced into every varint position " +
		"(frame length, typedef counts/ids/string lengths, value ids, tags, first inner tag) with and without re-framing and re-compression, random flips/inserts/deletes; " +
		"reader options threads ∈ {1,2,3,8} × validate × Read/Scanner × readmax ∈ {64,4096,2^20,default} × readsize ∈ {1,7,512,default} × source chunking; " +
		"distinct = distinct (mutation, options) hash; the unmutated streams are the trivial cases. validate: generated (type, body) with truncations, flips, integer splices, deletions. " +
		"typevalue/vng/text/query: search without a model")
	if c.Replay != nil {
		var rp replay
		if err := json.Unmarshal(c.Replay, &rp); err != nil || rp.Job == nil {
			runWitness(c)
			return
		}
		switch rp.Sub {
		case "zng":
			runZNG(c, &rp)
		case "validate":
			runValidate(c, &rp)
		case "typevalue":
			runTypeValue(c, &rp)
		case "vng":
			runVNG(c, &rp)
		case "text":
			runText(c, &rp)
		case "query":
			runQuery(c, &rp)
		default:
			runWitness(c)
		}
		return
	}
	for _, raw := range c.CorpusCases() {
		var rp replay
		if json.Unmarshal(raw, &rp) == nil && rp.Job != nil {
			c.Stat("corpus")
			switch rp.Sub {
			case "zng":
				runZNG(c, &rp)
			case "validate":
				runValidate(c, &rp)
			case "typevalue":
				runTypeValue(c, &rp)
			case "vng":
				runVNG(c, &rp)
			case "text":
				runText(c, &rp)
			case "query":
				runQuery(c, &rp)
			}
		}
	}
	subs := []struct {
		name string
		fn   func()
	}{
		{"witness", func() { runWitness(c) }},
		{"zng", func() { runZNG(c, nil) }},
		{"validate", func() { runValidate(c, nil) }},
		{"typevalue", func() { runTypeValue(c, nil) }},
		{"vng", func() { runVNG(c, nil) }},
		{"text", func() { runText(c, nil) }},
		{"query", func() { runQuery(c, nil) }},
	}
	for _, s := range subs {
		if c.Want(s.name) {
			t0 := time.Now()
			s.fn()
			c.Note("sub-check %s: %.1fs", s.name, time.Since(t0).Seconds())
		}
	}
	c.Note("text readers, query compiler, VNG and type values have no Lean model: their runs are SEARCH (fuzzing), not proof")
	// a few samples
	keys := make([]string, 0)
	for k := range c.Res.Stats {
		if strings.HasPrefix(k, "zng:mut:") {
			keys = append(keys, k)
		}
	}
	sort.Strings(keys)
	c.Sample(map[string]any{"zng mutation kinds": keys})
}
