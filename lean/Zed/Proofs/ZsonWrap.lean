import Zed.Model.ZsonGuard
/-!
  C02 — `wrapAll t (strip v) = v`: putting the `named` wrappers back according to the type
  recovers a well-formed value (any type, named types included).
-/
namespace Zed.Zson

theorem wrapMember_get : (ts : Tys) → (tag : Nat) → (m : Ty) → (x : Val) → ts.get? tag = some m →
    wrapMember ts tag x = wrapAll m x
  | .cons t r, 0, m, x, h => by simp [Tys.get?] at h; subst h; simp [wrapMember]
  | .cons t r, n + 1, m, x, h => by
    simp only [Tys.get?] at h
    simp [wrapMember, wrapMember_get r n m x h]
  | .nil, _, _, _, h => by simp [Tys.get?] at h

theorem strip_ne_null : (v : Val) → (t : Ty) → wfVal t v = true → v ≠ .null → strip v ≠ .null
  | .null, _, _, h => absurd rfl h
  | .named v', t, hw, _ => by
    cases t with
    | named n u =>
      simp only [wfVal, Bool.and_eq_true, bne_iff_ne, ne_eq] at hw
      simp only [strip]
      exact strip_ne_null v' u hw.2 hw.1
    | _ => simp [wfVal] at hw
  | .prim _, _, _, _ => by simp [strip]
  | .record _, _, _, _ => by simp [strip]
  | .array _, _, _, _ => by simp [strip]
  | .set _, _, _, _ => by simp [strip]
  | .map _, _, _, _ => by simp [strip]
  | .union _ _, _, _, _ => by simp [strip]
  | .enum _, _, _, _ => by simp [strip]
  | .typeval _, _, _, _ => by simp [strip]
  | .error _, _, _, _ => by simp [strip]

theorem wrapAll_named (n : Name) (u : Ty) (x : Val) (h : x ≠ .null) :
    wrapAll (.named n u) x = .named (wrapAll u x) := by
  cases x <;> simp_all [wrapAll]

mutual
theorem wrapAll_strip : (v : Val) → (t : Ty) → wfVal t v = true → wrapAll t (strip v) = v
  | .null, t, _ => by cases t <;> simp [strip, wrapAll]
  | .named v', t, hw => by
    cases t with
    | named n u =>
      simp only [wfVal, Bool.and_eq_true, bne_iff_ne, ne_eq] at hw
      simp only [strip]
      rw [wrapAll_named n u _ (strip_ne_null v' u hw.2 hw.1), wrapAll_strip v' u hw.2]
    | _ => simp [wfVal] at hw
  | .prim text, t, hw => by cases t <;> simp_all [wfVal, strip, wrapAll]
  | .typeval ty, t, hw => by cases t <;> simp_all [wfVal, strip, wrapAll]
  | .enum sel, t, hw => by cases t <;> simp_all [wfVal, strip, wrapAll]
  | .record vs, t, hw => by
    cases t with
    | record fs =>
      simp only [wfVal] at hw
      simp [strip, wrapAll, wrapFields_strip vs fs hw]
    | _ => simp [wfVal] at hw
  | .array vs, t, hw => by
    cases t with
    | array et =>
      simp only [wfVal] at hw
      simp [strip, wrapAll, mapV_strip vs et hw]
    | _ => simp [wfVal] at hw
  | .set vs, t, hw => by
    cases t with
    | set et =>
      simp only [wfVal] at hw
      simp [strip, wrapAll, mapV_strip vs et hw]
    | _ => simp [wfVal] at hw
  | .map es, t, hw => by
    cases t with
    | map kt vt =>
      simp only [wfVal] at hw
      simp [strip, wrapAll, mapKV_strip es kt vt hw]
    | _ => simp [wfVal] at hw
  | .union tag inner, t, hw => by
    cases t with
    | union ts =>
      simp only [wfVal, Bool.and_eq_true, bne_iff_ne, ne_eq] at hw
      cases hg : ts.get? tag with
      | none => simp [hg] at hw
      | some m =>
        simp only [hg] at hw
        simp [strip, wrapAll, wrapMember_get ts tag m _ hg, wrapAll_strip inner m hw.2]
    | _ => simp [wfVal] at hw
  | .error v', t, hw => by
    cases t with
    | error u =>
      simp only [wfVal, Bool.and_eq_true] at hw
      simp [strip, wrapAll, wrapAll_strip v' u hw.2]
    | _ => simp [wfVal] at hw
theorem wrapFields_strip : (vs : Vals) → (fs : Fields) → wfVals fs vs = true → wrapFields fs (stripVals vs) = vs
  | .nil, fs, h => by cases fs <;> simp_all [wfVals, stripVals, wrapFields]
  | .cons v r, fs, h => by
    cases fs with
    | nil => simp [wfVals] at h
    | cons n t fr =>
      simp only [wfVals, Bool.and_eq_true] at h
      simp [stripVals, wrapFields, wrapAll_strip v t h.1, wrapFields_strip r fr h.2]
theorem mapV_strip : (vs : Vals) → (et : Ty) → wfElems et vs = true → (stripVals vs).mapV (wrapAll et) = vs
  | .nil, _, _ => by simp [stripVals, Vals.mapV]
  | .cons v r, et, h => by
    simp only [wfElems, Bool.and_eq_true] at h
    simp [stripVals, Vals.mapV, wrapAll_strip v et h.1, mapV_strip r et h.2]
theorem mapKV_strip : (es : Entries) → (kt vt : Ty) → wfEntries kt vt es = true →
    (stripEntries es).mapKV (wrapAll kt) (wrapAll vt) = es
  | .nil, _, _, _ => by simp [stripEntries, Entries.mapKV]
  | .cons k v r, kt, vt, h => by
    simp only [wfEntries, Bool.and_eq_true] at h
    simp [stripEntries, Entries.mapKV, wrapAll_strip k kt h.1.1, wrapAll_strip v vt h.1.2, mapKV_strip r kt vt h.2]
end

end Zed.Zson
