/-
  Model of the group-by Aggregator (C10, C08).
  Anchor: runtime/sam/op/groupby/groupby.go  (Consume, spillTable, nextResult, readSpills,
  nextResultFromSpills, readTable, updateMaxTableKey), runtime/sam/op/spill/merge.go.

  * `K`  — a group key as the in-memory table sees it: (flattened key bytes, key-type id),
           i.e. "same type and value".  Equality on `K` is the table's notion of "same group".
  * `le` — `keysComparator` (all keys, nullsMax, missing-as-null) as a Boolean `≤`;
           `eqv` is "Compare = 0".  It is the spill merge's notion of "same group".
  * `S`  — the row of aggregate states (`valRow`), an `Agg.Mon`; an input row contributes
           `s : S` (direct mode: `e • f(row)`; partials-in: the decoded partial).  Partials-out
           means the output `S` is emitted as is; otherwise its `Result` projection.

  Table: insertion-ordered association list (Go map order is unspecified; results are compared
  as maps).  Spill: the table, stably sorted by `le` (`Comparator.SortStableReader`), becomes a
  run.  The k-way merge of sorted runs with ordinal tie-break (spill.MergeSort) is modelled by
  the stable sort of the concatenated runs — both are *the* stable merge.  `regroup` is
  nextResultFromSpills: consecutive rows that compare equal to the first row of the group are
  combined, and the group is emitted under the first row's key.
-/
import Zed.Model.AggMonoid
import Zed.Model.AggOrder
namespace Zed.Agg

variable {K S P : Type}

def eqv (le : K → K → Bool) (a b : K) : Bool := le a b && le b a
def ltOf (le : P → P → Bool) (a b : P) : Bool := le a b && !le b a

/-! ### stable insertion sort (structural, so that concrete instances evaluate by `decide`) -/
def insertBy {α : Type} (le : α → α → Bool) (x : α) : List α → List α
  | [] => [x]
  | y :: ys => if le x y then x :: y :: ys else y :: insertBy le x ys
def isort {α : Type} (le : α → α → Bool) (l : List α) : List α := l.foldr (insertBy le) []

def rowLe (le : K → K → Bool) (a b : K × S) : Bool := le a.1 b.1

/-! ### the table -/
def hasKey [DecidableEq K] (t : List (K × S)) (k : K) : Bool := t.any (fun r => r.1 == k)

def upsert [DecidableEq K] (m : Mon S) : List (K × S) → K → S → List (K × S)
  | [], k, s => [(k, m.op m.e s)]
  | (k', s') :: rest, k, s =>
    if k' = k then (k', m.op s' s) :: rest else (k', s') :: upsert m rest k s

structure GB (K S : Type) where
  table : List (K × S) := []
  runs : List (List (K × S)) := []

/-- Aggregator.Consume for one input row (its key already evaluated, never missing). -/
def consume [DecidableEq K] (m : Mon S) (le : K → K → Bool) (limit : Nat)
    (st : GB K S) (r : K × S) : GB K S :=
  if hasKey st.table r.1 then { st with table := upsert m st.table r.1 r.2 }
  else if st.table.length ≥ limit then
    { table := [(r.1, m.op m.e r.2)], runs := st.runs ++ [isort (rowLe le) st.table] }
  else { st with table := st.table ++ [(r.1, m.op m.e r.2)] }

/-- nextResultFromSpills, iterated over the merged stream. -/
def regroup (m : Mon S) (le : K → K → Bool) : Option (K × S) → List (K × S) → List (K × S)
  | none, [] => []
  | some cur, [] => [cur]
  | none, r :: rest => regroup m le (some (r.1, m.op m.e r.2)) rest
  | some (k, acc), r :: rest =>
    if eqv le k r.1 then regroup m le (some (k, m.op acc r.2)) rest
    else (k, acc) :: regroup m le (some (r.1, m.op m.e r.2)) rest

/-- End of input: nextResult(eof) until nil. -/
def finish (m : Mon S) (le : K → K → Bool) (st : GB K S) : List (K × S) :=
  if st.runs.isEmpty then st.table
  else
    let runs := if st.table.isEmpty then st.runs else st.runs ++ [isort (rowLe le) st.table]
    regroup m le none (isort (rowLe le) runs.flatten)

def runGB [DecidableEq K] (m : Mon S) (le : K → K → Bool) (limit : Nat) (rows : List (K × S)) : GB K S :=
  rows.foldl (consume m le limit) {}

/-- The whole operator on unsorted input. -/
def groupby [DecidableEq K] (m : Mon S) (le : K → K → Bool) (limit : Nat) (rows : List (K × S)) :
    List (K × S) :=
  finish m le (runGB m le limit rows)

/-- number of spills before end of input -/
def spillCount [DecidableEq K] (m : Mon S) (le : K → K → Bool) (limit : Nat) (rows : List (K × S)) : Nat :=
  (runGB m le limit rows).runs.length

/-! ### naive evaluation -/

/-- the aggregate over exactly the input rows with key `k` -/
def total [DecidableEq K] (m : Mon S) (k : K) : List (K × S) → S
  | [] => m.e
  | r :: rest => if r.1 = k then m.op r.2 (total m k rest) else total m k rest

def dedupKeys [DecidableEq K] : List K → List K
  | [] => []
  | k :: ks => k :: (dedupKeys ks).filter (fun x => x ≠ k)

/-- one row per distinct key (first-occurrence order), holding the aggregate of its rows -/
def naiveGroup [DecidableEq K] (m : Mon S) (rows : List (K × S)) : List (K × S) :=
  (dedupKeys (rows.map (·.1))).map fun k => (k, total m k rows)

/-- "exactly one row per distinct key, each holding the aggregate over exactly the input
    values with that key" -/
structure GroupsAgree [DecidableEq K] (m : Mon S) (out rows : List (K × S)) : Prop where
  nodup : (out.map (·.1)).Nodup
  keys : ∀ k, k ∈ out.map (·.1) ↔ k ∈ rows.map (·.1)
  vals : ∀ k s, (k, s) ∈ out → s = total m k rows

/-! ### sorted-input mode (inputDir ≠ 0), early release from the table

  `prim k` is the first key component, `vle` is `valueCompare` in the declared direction.
  A row remembers `groupval` = maxTableKey at the time it was created; after every batch the
  rows with groupval < maxTableKey (strictly) are released.  (Release from spill files while
  the input is still running is not modelled: `groupbySorted` is the no-spill path.) -/

structure SRow (K S P : Type) where
  key : K
  st : S
  gv : P

structure SGB (K S P : Type) where
  table : List (SRow K S P) := []
  maxKey : Option P := none
  out : List (K × S) := []

def supsert [DecidableEq K] (m : Mon S) : List (SRow K S P) → K → S → P → List (SRow K S P)
  | [], k, s, g => [⟨k, m.op m.e s, g⟩]
  | r :: rest, k, s, g =>
    if r.key = k then { r with st := m.op r.st s } :: rest else r :: supsert m rest k s g

def sConsume [DecidableEq K] (m : Mon S) (prim : K → P) (vle : P → P → Bool)
    (st : SGB K S P) (r : K × S) : SGB K S P :=
  let p := prim r.1
  let mk := match st.maxKey with
    | none => p
    | some q => if ltOf vle q p then p else q
  { st with table := supsert m st.table r.1 r.2 mk, maxKey := some mk }

/-- readTable(flush = false) -/
def sRelease (vle : P → P → Bool) (st : SGB K S P) : SGB K S P :=
  match st.maxKey with
  | none => st
  | some mk =>
    { st with out := st.out ++ ((st.table.filter fun r => ltOf vle r.gv mk).map fun r => (r.key, r.st)),
              table := st.table.filter fun r => !ltOf vle r.gv mk }

def sBatch [DecidableEq K] (m : Mon S) (prim : K → P) (vle : P → P → Bool)
    (st : SGB K S P) (batch : List (K × S)) : SGB K S P :=
  sRelease vle (batch.foldl (sConsume m prim vle) st)

def groupbySorted [DecidableEq K] (m : Mon S) (prim : K → P) (vle : P → P → Bool)
    (batches : List (List (K × S))) : List (K × S) :=
  let st := batches.foldl (sBatch m prim vle) {}
  st.out ++ st.table.map fun r => (r.key, r.st)

end Zed.Agg
