import Zed.Model.TypeValue
import Zed.Model.CompareTypes
/-!
  L1 — `zed.Context` (context.go) as a deterministic state machine.

  State: `byID` (complex types in creation order; id = IDTypeComplex + index), `toType`
  (serialized type ↦ type), `toValue` (type ↦ serialized type), `typedefs` (name ↦ named type
  last bound).  Types are carried structurally: the *pointer* of the Go code is the structural
  `Ty`, its identity inside the context is its position in `byID`.  Every `Lookup*` below is one
  critical section of the Go code (the mutex is held from the `toType` probe to `enterWithLock`);
  `lookupByValue` is not atomic in Go (it releases the mutex around `DecodeTypeValue`), which is
  why `decodeTV` is written as a sequence of those atomic steps.
-/
namespace Zed
open Zcode Generated.C05

structure Ctx where
  byID : List Ty := []
  toType : List (Bytes × Ty) := []
  toValue : List (Ty × Bytes) := []
  typedefs : List (Name × Ty) := []
  deriving Repr

namespace Ctx

def empty : Ctx := {}

/-- `enterWithLock` -/
def enter (c : Ctx) (tv : Bytes) (t : Ty) : Ctx :=
  { c with toValue := (t, tv) :: c.toValue, toType := (tv, t) :: c.toType, byID := c.byID ++ [t] }

/-- common shape of LookupTypeArray/Set/Map/Union/Enum/Error: probe `toType` with the canonical
    serialization, else create and enter. -/
def lookupOrEnter (c : Ctx) (t : Ty) : Ty × Ctx :=
  let tv := encodeTV t
  match c.toType.lookup tv with
  | some t' => (t', c)
  | none => (t, c.enter tv t)

def lookupArray (c : Ctx) (t : Ty) : Ty × Ctx := c.lookupOrEnter (.array t)
def lookupSet (c : Ctx) (t : Ty) : Ty × Ctx := c.lookupOrEnter (.set t)
def lookupMap (c : Ctx) (k v : Ty) : Ty × Ctx := c.lookupOrEnter (.map k v)
def lookupError (c : Ctx) (t : Ty) : Ty × Ctx := c.lookupOrEnter (.error t)
def lookupEnum (c : Ctx) (syms : List Name) : Ty × Ctx := c.lookupOrEnter (.enum syms)

/-- `LookupTypeUnion`: the caller's slice is sorted with CompareTypes first. -/
def lookupUnion (c : Ctx) (ts : List Ty) : Ty × Ctx :=
  c.lookupOrEnter (.union (Tys.ofList (sortTys ts)))

/-- `duplicateField` -/
def hasDup : List Name → Bool
  | [] => false
  | n :: r => r.contains n || hasDup r

/-- `LookupTypeRecord`: the `toType` probe comes before the duplicate-field check. -/
def lookupRecord (c : Ctx) (fs : List (Name × Ty)) : Option Ty × Ctx :=
  let t := Ty.record (Fields.ofList fs)
  let tv := encodeTV t
  match c.toType.lookup tv with
  | some t' => (some t', c)
  | none =>
    if hasDup (fs.map (·.1)) then (none, c)
    else (some t, c.enter tv t)

/-- `utf8.ValidString` (RFC 3629: no overlong forms, no surrogates, ≤ U+10FFFF), on fuel. -/
def validUTF8F : Nat → Bytes → Bool
  | _, [] => true
  | 0, _ => false
  | f+1, b0 :: rest =>
    let cont (b : UInt8) : Bool := 0x80 ≤ b.toNat && b.toNat ≤ 0xBF
    let b := b0.toNat
    if b < 0x80 then validUTF8F f rest
    else if 0xC2 ≤ b && b ≤ 0xDF then
      match rest with
      | b1 :: r => cont b1 && validUTF8F f r
      | _ => false
    else if 0xE0 ≤ b && b ≤ 0xEF then
      match rest with
      | b1 :: b2 :: r =>
        let lo := if b = 0xE0 then 0xA0 else 0x80
        let hi := if b = 0xED then 0x9F else 0xBF
        (lo ≤ b1.toNat && b1.toNat ≤ hi) && cont b2 && validUTF8F f r
      | _ => false
    else if 0xF0 ≤ b && b ≤ 0xF4 then
      match rest with
      | b1 :: b2 :: b3 :: r =>
        let lo := if b = 0xF0 then 0x90 else 0x80
        let hi := if b = 0xF4 then 0x8F else 0xBF
        (lo ≤ b1.toNat && b1.toNat ≤ hi) && cont b2 && cont b3 && validUTF8F f r
      | _ => false
    else false

def validUTF8 (bs : Bytes) : Bool := validUTF8F bs.length bs

/-- `LookupPrimitive(name) != nil` over the regenerated name table -/
def isPrimitiveName (n : Name) : Bool := primitiveNames.any (fun e => e.2.1 == n)

def validTypeName (n : Name) : Bool := validUTF8 n && !isPrimitiveName n

def bind (defs : List (Name × Ty)) (n : Name) (t : Ty) : List (Name × Ty) := (n, t) :: defs

/-- `LookupTypeNamed`: also (re)binds `name` in `typedefs`, on a hit as well as on a miss. -/
def lookupNamed (c : Ctx) (n : Name) (t : Ty) : Option Ty × Ctx :=
  if !validTypeName n then (none, c)
  else
    let nt := Ty.named n t
    let tv := encodeTV nt
    match c.toType.lookup tv with
    | some t' => (some t', { c with typedefs := bind c.typedefs n t' })
    | none => (some nt, { c with typedefs := bind c.typedefs n nt }.enter tv nt)

/-- `LookupTypeDef` -/
def lookupTypeDef (c : Ctx) (n : Name) : Option Ty := c.typedefs.lookup n

/-- `LookupPrimitiveByID` over the regenerated table -/
def primitiveByID? (id : Nat) : Option Ty :=
  if id < idTypeComplex then
    match primitiveByID.lookup id with
    | some tid => some (.prim tid)
    | none => none
  else none

/-! #### DecodeTypeValue -/

def decodeSyms : Nat → Bytes → Option (List Name × Bytes)
  | 0, tv => some ([], tv)
  | n+1, tv =>
    match decodeName tv with
    | none => none
    | some (s, tv) =>
      match decodeSyms n tv with
      | none => none
      | some (ss, tv) => some (s :: ss, tv)

mutual
/-- `Context.DecodeTypeValue`; `none` = the `(nil, nil)` result. -/
def decodeTV : Nat → Ctx → Bytes → Option (Ty × Bytes × Ctx)
  | 0, _, _ => none
  | _, _, [] => none
  | f+1, c, id :: tv =>
    let id := id.toNat
    if id = tvNameDef then
      match decodeName tv with
      | none => none
      | some (name, tv) =>
        match decodeTV f c tv with
        | none => none
        | some (t, tv, c) =>
          match c.lookupNamed name t with
          | (none, _) => none
          | (some nt, c) => some (nt, tv, c)
    else if id = tvNameRef then
      match decodeName tv with
      | none => none
      | some (name, tv) =>
        match c.lookupTypeDef name with
        | none => none
        | some t => some (t, tv, c)
    else if id = tvRecord then
      match decodeLength tv with
      | none => none
      | some (n, tv) =>
        if n > maxRecordFields then none else
        match decodeFields f n c tv with
        | none => none
        | some (fs, tv, c) =>
          match c.lookupRecord fs with
          | (none, _) => none
          | (some t, c) => some (t, tv, c)
    else if id = tvArray then
      match decodeTV f c tv with
      | none => none
      | some (t, tv, c) => let r := c.lookupArray t; some (r.1, tv, r.2)
    else if id = tvSet then
      match decodeTV f c tv with
      | none => none
      | some (t, tv, c) => let r := c.lookupSet t; some (r.1, tv, r.2)
    else if id = tvMap then
      match decodeTV f c tv with
      | none => none
      | some (k, tv, c) =>
        match decodeTV f c tv with
        | none => none
        | some (v, tv, c) => let r := c.lookupMap k v; some (r.1, tv, r.2)
    else if id = tvUnion then
      match decodeLength tv with
      | none => none
      | some (n, tv) =>
        if n > maxUnionTypes then none else
        -- the Go loop does not check a failed member (it would call CompareTypes on nil and
        -- panic, C11); the model stops with `none`.
        match decodeTys f n c tv with
        | none => none
        | some (ts, tv, c) => let r := c.lookupUnion ts; some (r.1, tv, r.2)
    else if id = tvEnum then
      match decodeLength tv with
      | none => none
      | some (n, tv) =>
        if n > maxEnumSymbols then none else
        match decodeSyms n tv with
        | none => none
        | some (syms, tv) => let r := c.lookupEnum syms; some (r.1, tv, r.2)
    else if id = tvError then
      match decodeTV f c tv with
      | none => none
      | some (t, tv, c) => let r := c.lookupError t; some (r.1, tv, r.2)
    else
      match primitiveByID? id with
      | none => none
      | some t => some (t, tv, c)
def decodeFields : Nat → Nat → Ctx → Bytes → Option (List (Name × Ty) × Bytes × Ctx)
  | _, 0, c, tv => some ([], tv, c)
  | 0, _+1, _, _ => none
  | f+1, n+1, c, tv =>
    match decodeName tv with
    | none => none
    | some (name, tv) =>
      match decodeTV f c tv with
      | none => none
      | some (t, tv, c) =>
        match decodeFields f n c tv with
        | none => none
        | some (fs, tv, c) => some ((name, t) :: fs, tv, c)
def decodeTys : Nat → Nat → Ctx → Bytes → Option (List Ty × Bytes × Ctx)
  | _, 0, c, tv => some ([], tv, c)
  | 0, _+1, _, _ => none
  | f+1, n+1, c, tv =>
    match decodeTV f c tv with
    | none => none
    | some (t, tv, c) =>
      match decodeTys f n c tv with
      | none => none
      | some (ts, tv, c) => some (t :: ts, tv, c)
end

/-- fuel that always suffices: every recursive call consumes at least one byte -/
def decode (c : Ctx) (tv : Bytes) : Option (Ty × Bytes × Ctx) := decodeTV (tv.length + 1) c tv

/-- `LookupByValue`.  The caller's slice is stored as the type's serialized value (the Go code
    does `c.toValue[typ] = tv` without copying or canonicalising) and as a new `toType` key.
    The effects of a failing decode stay in the context. -/
def lookupByValue (c : Ctx) (tv : Bytes) : Option Ty × Ctx :=
  match c.toType.lookup tv with
  | some t => (some t, c)
  | none =>
    match c.decode tv with
    | none => (none, c)
    | some (t, _, c') => (some t, { c' with toValue := (t, tv) :: c'.toValue, toType := (tv, t) :: c'.toType })

/-- `TranslateType` -/
def translate (c : Ctx) (ext : Ty) : Option Ty × Ctx := c.lookupByValue (encodeTV ext)

/-- `LookupTypeValue` (the bytes of the returned `type` value) -/
def lookupTypeValue (c : Ctx) (t : Ty) : Option Bytes × Ctx :=
  match c.toValue.lookup t with
  | some b => (some b, c)
  | none =>
    match c.lookupByValue (encodeTV t) with
    | (none, c') => (none, c')
    | (some t', c') => (c'.toValue.lookup t', c')

/-- `zed.TypeID` of a type of this context -/
def idOf (c : Ctx) (t : Ty) : Option Nat :=
  match t with
  | .prim id => some id
  | t => if t ∈ c.byID then some (idTypeComplex + c.byID.idxOf t) else none

/-- `LookupType(id)` -/
def lookupType (c : Ctx) (id : Nat) : Option Ty :=
  if id < idTypeComplex then primitiveByID? id else c.byID[id - idTypeComplex]?

end Ctx
end Zed
