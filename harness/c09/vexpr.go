package main

// vexpr — the expression / operator model of lean/Zed/Model/VecExpr.lean against the real
// vector runtime (compiler.VectorCompile) and the real sequential runtime.
//
//   T2  model `runV`  == real vector output   (exact, panics by class)
//   T2  model `runS`  == real sequential output (error messages masked)
//   S   real vector   == real sequential; a failing program is shrunk and keyed by the modelled
//       mechanism that explains it.

import (
	"fmt"
	"regexp"
	"strconv"
	"strings"
	"time"

	. "verifharness/hlib"
)

// ---- expressions -------------------------------------------------------------------------------

type xexpr struct {
	Kind string `json:"k"` // f i s ar cmp and or not
	Name string `json:"n,omitempty"`
	Int  int    `json:"i,omitempty"`
	Str  string `json:"s,omitempty"`
	Op   string `json:"o,omitempty"`
	A    *xexpr `json:"a,omitempty"`
	B    *xexpr `json:"b,omitempty"`
}

var arSym = map[string]string{"add": "+", "sub": "-", "mul": "*", "div": "/", "mod": "%"}
var cmpSym = map[string]string{"eq": "==", "ne": "!=", "lt": "<", "le": "<=", "gt": ">", "ge": ">="}

func (e *xexpr) zed() string {
	switch e.Kind {
	case "f":
		return e.Name
	case "i":
		return strconv.Itoa(e.Int)
	case "s":
		return strconv.Quote(e.Str)
	case "ar":
		return "(" + e.A.zed() + arSym[e.Op] + e.B.zed() + ")"
	case "cmp":
		return "(" + e.A.zed() + cmpSym[e.Op] + e.B.zed() + ")"
	case "and":
		return "(" + e.A.zed() + " and " + e.B.zed() + ")"
	case "or":
		return "(" + e.A.zed() + " or " + e.B.zed() + ")"
	case "not":
		return "!(" + e.A.zed() + ")"
	}
	panic(e.Kind)
}

func (e *xexpr) sexp() string {
	switch e.Kind {
	case "f":
		return "(f " + HexAtom([]byte(e.Name)) + ")"
	case "i":
		return fmt.Sprintf("(i %d)", e.Int)
	case "s":
		return "(s " + HexAtom([]byte(e.Str)) + ")"
	case "ar", "cmp":
		return fmt.Sprintf("(%s %s %s %s)", e.Kind, e.Op, e.A.sexp(), e.B.sexp())
	case "and", "or":
		return fmt.Sprintf("(%s %s %s)", e.Kind, e.A.sexp(), e.B.sexp())
	case "not":
		return "(not " + e.A.sexp() + ")"
	}
	panic(e.Kind)
}

func (e *xexpr) walk(f func(*xexpr)) {
	if e == nil {
		return
	}
	f(e)
	e.A.walk(f)
	e.B.walk(f)
}

type xop struct {
	Kind string `json:"k"` // yield where head tail
	E    *xexpr `json:"e,omitempty"`
	N    int    `json:"n,omitempty"`
}

func (o xop) zed() string {
	switch o.Kind {
	case "yield":
		return "yield " + o.E.zed()
	case "where":
		return "where " + o.E.zed()
	}
	return fmt.Sprintf("%s %d", o.Kind, o.N)
}

func (o xop) sexp() string {
	switch o.Kind {
	case "yield", "where":
		return "(" + o.Kind + " " + o.E.sexp() + ")"
	}
	return fmt.Sprintf("(%s %d)", o.Kind, o.N)
}

// ---- batches -------------------------------------------------------------------------------------

// xcol: Kind int|str|bool; values as strings, "" with Null[i] = true for null.
type xcol struct {
	Name string   `json:"name"`
	Kind string   `json:"kind"`
	Ints []int    `json:"ints,omitempty"`
	Strs []string `json:"strs,omitempty"`
	Bool []bool   `json:"bools,omitempty"`
	Null []bool   `json:"null"`
}

type xcase struct {
	N    int    `json:"n"`
	Cols []xcol `json:"cols"`
	Ops  []xop  `json:"ops"`
}

func (c *xcase) record(k int) string {
	var fs []string
	for _, col := range c.Cols {
		v := ""
		switch {
		case col.Null[k] && col.Kind == "int":
			v = "null(int64)"
		case col.Null[k] && col.Kind == "str":
			v = "null(string)"
		case col.Null[k]:
			v = "null(bool)"
		case col.Kind == "int":
			v = strconv.Itoa(col.Ints[k])
		case col.Kind == "str":
			v = strconv.Quote(col.Strs[k])
		default:
			v = strconv.FormatBool(col.Bool[k])
		}
		fs = append(fs, col.Name+":"+v)
	}
	return "{" + strings.Join(fs, ",") + "}"
}

func (c *xcase) input() string {
	var rs []string
	for k := 0; k < c.N; k++ {
		rs = append(rs, c.record(k))
	}
	return strings.Join(rs, " ")
}

func (c *xcase) query() string {
	var qs []string
	for _, o := range c.Ops {
		qs = append(qs, o.zed())
	}
	return strings.Join(qs, " | ")
}

func (c *xcase) batchSexp() string {
	var sb strings.Builder
	fmt.Fprintf(&sb, "(batch %d", c.N)
	for _, col := range c.Cols {
		fmt.Fprintf(&sb, " (col %s %s", HexAtom([]byte(col.Name)), col.Kind)
		for k := 0; k < c.N; k++ {
			switch {
			case col.Null[k]:
				sb.WriteString(" n")
			case col.Kind == "int":
				fmt.Fprintf(&sb, " %d", col.Ints[k])
			case col.Kind == "str":
				sb.WriteString(" " + HexAtom([]byte(col.Strs[k])))
			case col.Bool[k]:
				sb.WriteString(" t")
			default:
				sb.WriteString(" f")
			}
		}
		sb.WriteByte(')')
	}
	sb.WriteByte(')')
	return sb.String()
}

func (c *xcase) opsSexp() string {
	var os []string
	for _, o := range c.Ops {
		os = append(os, o.sexp())
	}
	return "(ops " + strings.Join(os, " ") + ")"
}

// ---- rendering of model outputs in the real runtimes' syntax -----------------------------------------

var typedNull = regexp.MustCompile(`null\([a-z0-9]+\)`)
var errVal = regexp.MustCompile(`error\("[^"]*"\)`)

func canonReal(s string) string { return typedNull.ReplaceAllString(s, "null") }

func (c *xcase) renderModel(ans string) (string, bool) {
	if strings.HasPrefix(ans, "panic") {
		return "panic", true
	}
	if !strings.HasPrefix(ans, "ok") {
		return ans, false
	}
	var out []string
	for _, r := range splitRowsOrdered(strings.TrimPrefix(ans, "ok")) {
		f := strings.Fields(strings.Trim(r, "()"))
		switch {
		case len(f) == 2 && f[0] == "r":
			k, _ := strconv.Atoi(f[1])
			out = append(out, canonReal(c.record(k)))
		case len(f) == 3 && f[1] == "i":
			out = append(out, f[2])
		case len(f) == 3 && f[1] == "s":
			b, _ := UnhexAtom(f[2])
			out = append(out, strconv.Quote(string(b)))
		case len(f) == 3 && f[1] == "b":
			out = append(out, map[string]string{"1": "true", "0": "false"}[f[2]])
		case len(f) == 2 && f[1] == "n":
			out = append(out, "null")
		case len(f) == 3 && f[1] == "e":
			out = append(out, `error("`+strings.ReplaceAll(f[2], "_", " ")+`")`)
		default:
			out = append(out, "?"+r)
		}
	}
	return strings.Join(out, " "), true
}

func splitRowsOrdered(s string) []string {
	var out []string
	depth, start := 0, -1
	for i, ch := range s {
		switch ch {
		case '(':
			if depth == 0 {
				start = i
			}
			depth++
		case ')':
			depth--
			if depth == 0 && start >= 0 {
				out = append(out, s[start:i+1])
				start = -1
			}
		}
	}
	return out
}

// ---- generation ---------------------------------------------------------------------------------------

func (h *harness) genXCase() *xcase {
	r := h.c.Rng
	n := []int{1, 2, 3, 3, 5, 8}[r.Intn(6)]
	if r.Intn(25) == 0 {
		n = 300
	}
	c := &xcase{N: n}
	intCol := func(name string) xcol {
		d := []int{1, 2, 3, 300}[r.Intn(4)]
		np := []float64{0, 0, 0, 0.3}[r.Intn(4)]
		col := xcol{Name: name, Kind: "int", Ints: make([]int, n), Null: make([]bool, n)}
		for k := 0; k < n; k++ {
			col.Ints[k] = r.Intn(d)*3 - 2
			col.Null[k] = r.Float64() < np
		}
		return col
	}
	strCol := func(name string) xcol {
		d := []int{1, 2, 3}[r.Intn(3)]
		np := []float64{0, 0, 0.3}[r.Intn(3)]
		col := xcol{Name: name, Kind: "str", Strs: make([]string, n), Null: make([]bool, n)}
		for k := 0; k < n; k++ {
			col.Strs[k] = []string{"x", "", "Zed"}[r.Intn(d)]
			col.Null[k] = r.Float64() < np
		}
		return col
	}
	boolCol := func(name string) xcol {
		np := []float64{0, 0, 0.3}[r.Intn(3)]
		col := xcol{Name: name, Kind: "bool", Bool: make([]bool, n), Null: make([]bool, n)}
		for k := 0; k < n; k++ {
			col.Bool[k] = r.Intn(2) == 0
			col.Null[k] = r.Float64() < np
		}
		return col
	}
	c.Cols = []xcol{intCol("a"), intCol("b"), strCol("s"), strCol("t"), boolCol("p"), boolCol("q")}
	var intE, strE, boolE func(d int) *xexpr
	intE = func(d int) *xexpr {
		switch {
		case d == 0 || r.Intn(3) == 0:
			if r.Intn(3) == 0 {
				return &xexpr{Kind: "i", Int: r.Intn(4)}
			}
			return &xexpr{Kind: "f", Name: []string{"a", "b"}[r.Intn(2)]}
		default:
			op := []string{"add", "add", "sub", "mul", "div", "mod"}[r.Intn(6)]
			if (op == "div" || op == "mod") && r.Intn(3) != 0 {
				op = "add"
			}
			return &xexpr{Kind: "ar", Op: op, A: intE(d - 1), B: intE(d - 1)}
		}
	}
	strE = func(d int) *xexpr {
		switch {
		case d == 0 || r.Intn(2) == 0:
			if r.Intn(3) == 0 {
				return &xexpr{Kind: "s", Str: []string{"x", "", "q"}[r.Intn(3)]}
			}
			return &xexpr{Kind: "f", Name: []string{"s", "t"}[r.Intn(2)]}
		default:
			return &xexpr{Kind: "ar", Op: "add", A: strE(d - 1), B: strE(d - 1)}
		}
	}
	cmps := []string{"eq", "ne", "lt", "le", "gt", "ge"}
	boolE = func(d int) *xexpr {
		switch r.Intn(8) {
		case 0:
			if d > 0 {
				return &xexpr{Kind: "not", A: boolE(d - 1)}
			}
		case 1, 2:
			if d > 0 {
				return &xexpr{Kind: []string{"and", "or"}[r.Intn(2)], A: boolE(d - 1), B: boolE(d - 1)}
			}
		case 3:
			return &xexpr{Kind: "f", Name: []string{"p", "q"}[r.Intn(2)]}
		case 5:
			if r.Intn(3) == 0 { // Boolean operands of a comparison
				return &xexpr{Kind: "cmp", Op: cmps[r.Intn(6)], A: &xexpr{Kind: "f", Name: "p"}, B: &xexpr{Kind: "f", Name: []string{"p", "q"}[r.Intn(2)]}}
			}
		case 4:
			return &xexpr{Kind: "cmp", Op: cmps[r.Intn(6)], A: strE(1), B: strE(1)}
		}
		return &xexpr{Kind: "cmp", Op: cmps[r.Intn(6)], A: intE(1), B: intE(1)}
	}
	anyE := func() *xexpr {
		switch r.Intn(4) {
		case 0:
			return strE(2)
		case 1:
			return boolE(2)
		case 2:
			if r.Intn(6) == 0 { // ill-typed now and then
				return &xexpr{Kind: "ar", Op: "add", A: intE(0), B: strE(0)}
			}
		}
		return intE(2)
	}
	switch r.Intn(9) {
	case 0, 1, 2:
		c.Ops = []xop{{Kind: "yield", E: anyE()}}
	case 3, 4:
		c.Ops = []xop{{Kind: "where", E: boolE(2)}}
	case 5:
		c.Ops = []xop{{Kind: "where", E: boolE(1)}, {Kind: "yield", E: anyE()}}
	case 6:
		c.Ops = []xop{{Kind: []string{"head", "tail"}[r.Intn(2)], N: 1 + r.Intn(4)}}
	case 7:
		c.Ops = []xop{{Kind: "where", E: boolE(1)}, {Kind: []string{"head", "tail"}[r.Intn(2)], N: 1 + r.Intn(3)}}
	default:
		c.Ops = []xop{{Kind: []string{"head", "tail"}[r.Intn(2)], N: 1 + r.Intn(4)}, {Kind: "yield", E: anyE()}}
	}
	return c
}

// ---- the check ----------------------------------------------------------------------------------------------

type xoutcome struct {
	vec, seq, mvec, mseq string
	crashed              bool
}

func maskErrors(s string) string { return errVal.ReplaceAllString(s, "error") }

func (h *harness) runX(c *xcase) *xoutcome {
	o := &xoutcome{}
	req := wReq{Op: "vcompile", Input: c.input(), Queries: []string{c.query()}}
	var resp wResp
	crashed, msg := h.w.Call(&req, 40*time.Second, &resp)
	if crashed {
		o.crashed = true
		o.vec = "panic"
		o.seq = "?"
		_ = msg
	} else {
		seq, vec := resp.Before[0], resp.After[0]
		switch {
		case strings.HasPrefix(vec.Err, "panic"):
			o.vec = "panic"
		case vec.Err != "":
			o.vec = "error " + trunc(vec.Err, 100)
		default:
			o.vec = canonReal(strings.Join(vec.Out, " "))
		}
		if seq.Err != "" {
			o.seq = "error " + trunc(seq.Err, 100)
		} else {
			o.seq = canonReal(strings.Join(seq.Out, " "))
		}
	}
	ans := h.c.Model().Batch([]string{"(C09 vexpr " + c.batchSexp() + " " + c.opsSexp() + ")", "(C09 sexpr " + c.batchSexp() + " " + c.opsSexp() + ")"})
	o.mvec, _ = c.renderModel(ans[0])
	o.mseq, _ = c.renderModel(ans[1])
	return o
}

// xtags: the modelled mechanisms a program / batch exercises.
func (c *xcase) xtags() map[string]bool {
	tags := map[string]bool{}
	colOf := func(name string) *xcol {
		for i := range c.Cols {
			if c.Cols[i].Name == name {
				return &c.Cols[i]
			}
		}
		return nil
	}
	hasNull := func(e *xexpr) bool {
		found := false
		e.walk(func(x *xexpr) {
			if x.Kind == "f" {
				if col := colOf(x.Name); col != nil {
					for _, nl := range col.Null {
						found = found || nl
					}
				}
			}
		})
		return found
	}
	var constForm func(e *xexpr) bool
	constForm = func(e *xexpr) bool {
		switch e.Kind {
		case "i", "s":
			return true
		case "f":
			col := colOf(e.Name)
			if col == nil || col.Kind == "bool" {
				return false
			}
			seen := map[string]bool{}
			for k := 0; k < c.N; k++ {
				if !col.Null[k] {
					if col.Kind == "int" {
						seen[strconv.Itoa(col.Ints[k])] = true
					} else {
						seen["s"+col.Strs[k]] = true
					}
				}
			}
			return len(seen) == 1
		case "ar", "cmp":
			return constForm(e.A) && constForm(e.B)
		}
		return false
	}
	kindOf := func(e *xexpr) string { return "" }
	var kind func(e *xexpr) string
	kind = func(e *xexpr) string {
		switch e.Kind {
		case "i":
			return "int"
		case "s":
			return "str"
		case "f":
			if col := colOf(e.Name); col != nil {
				return col.Kind
			}
			return "missing"
		case "ar":
			a, b := kind(e.A), kind(e.B)
			if a == b && (a == "int" || (a == "str" && e.Op == "add")) {
				return a
			}
			return "bad"
		case "cmp", "and", "or", "not":
			return "bool"
		}
		return "bad"
	}
	_ = kindOf
	viewBefore := false
	for _, o := range c.Ops {
		if o.E != nil {
			usesField := false
			o.E.walk(func(x *xexpr) {
				usesField = usesField || x.Kind == "f"
				switch x.Kind {
				case "ar":
					if hasNull(x.A) || hasNull(x.B) {
						tags["arith-null-operand"] = true
					}
					if (x.Op == "div" || x.Op == "mod") && kind(x.A) == "int" && kind(x.B) == "int" {
						tags["divide"] = true
					}
					if kind(x) == "bad" {
						tags["ill-typed"] = true
					}
				case "cmp":
					if hasNull(x.A) || hasNull(x.B) {
						tags["compare-null-operand"] = true
					}
					ka, kb := kind(x.A), kind(x.B)
					if ka != kb || ka == "bad" {
						tags["ill-typed"] = true
					} else if ka == "bool" {
						tags["compare-bool"] = true
					}
				case "and", "or", "not":
					for _, y := range []*xexpr{x.A, x.B} {
						if y == nil {
							continue
						}
						if y.Kind == "cmp" && constForm(y) {
							tags["logic-const-operand"] = true
						}
						if kind(y) != "bool" {
							tags["ill-typed"] = true
						}
						if y.Kind == "f" && hasNull(y) {
							tags["logic-null-operand"] = true
						}
					}
				}
			})
			if o.Kind == "where" {
				if k := kind(o.E); k != "bool" {
					tags["ill-typed"] = true
				}
				if o.E.Kind == "cmp" && constForm(o.E) {
					tags["filter-const-mask"] = true
				}
			}
			if viewBefore && usesField {
				tags["field-access-on-view"] = true
			}
		}
		if o.Kind == "where" || o.Kind == "head" || o.Kind == "tail" {
			viewBefore = true
		}
	}
	return tags
}

var xPriority = []string{"field-access-on-view", "divide", "logic-const-operand", "ill-typed", "compare-bool", "logic-null-operand", "arith-null-operand", "compare-null-operand"}

func (h *harness) xfails(c *xcase) (string, *xoutcome) {
	o := h.runX(c)
	switch {
	case o.vec == "panic":
		if strings.HasPrefix(o.seq, "error") {
			// both fail: the sequential runtime reports an error value / error, the vector
			// runtime panics — still a crash of the query
			return "panic", o
		}
		return "panic", o
	case o.vec != o.seq:
		return "diff", o
	}
	return "", o
}

func (h *harness) xkey(c *xcase, class string) string {
	tags := c.xtags()
	for _, t := range xPriority {
		if tags[t] {
			switch t {
			case "divide":
				if class == "panic" {
					return "C09:vexpr:divide-by-zero-panic"
				}
				continue
			case "field-access-on-view":
				return "C09:vop:field-access-on-view"
			}
			return "C09:vexpr:" + t
		}
	}
	return "C09:vexpr:unexplained-" + class
}

func (h *harness) vexprCheck(c *xcase) {
	cx := h.c
	cx.Eval("vexpr:" + c.query() + "|" + c.input())
	cx.Stat("vexpr:programs")
	for _, o := range c.Ops {
		cx.Stat("vexpr:op:" + o.Kind)
	}
	o := h.runX(c)
	cx.Res.ModelCases++
	if o.mvec != o.vec {
		cx.Fail("correspondence", "C09:corr:vexpr", fmt.Sprintf("model of the vector runtime differs from the real one for `%s` over %s: model=%s real=%s", c.query(), trunc(c.input(), 200), trunc(o.mvec, 200), trunc(o.vec, 200)), map[string]any{"check": "vexpr", "xcase": c})
	} else {
		cx.Stat("vexpr:vector-model-agrees")
	}
	if !o.crashed {
		if maskErrors(o.mseq) != maskErrors(o.seq) && !strings.HasPrefix(o.seq, "error ") {
			cx.Fail("correspondence", "C09:corr:sexpr", fmt.Sprintf("model of the sequential runtime differs from the real one for `%s` over %s: model=%s real=%s", c.query(), trunc(c.input(), 200), trunc(o.mseq, 200), trunc(o.seq, 200)), map[string]any{"check": "vexpr", "xcase": c})
		} else {
			cx.Stat("vexpr:sequential-model-agrees")
		}
	}
	class, _ := h.xfails(c)
	if class == "" {
		cx.Stat("vexpr:runtimes-agree")
		return
	}
	key0 := h.xkey(c, class)
	if h.seen == nil {
		h.seen = map[string]bool{}
	}
	if h.seen[key0] && !strings.Contains(key0, "unexplained") {
		cx.Stat("vexpr:repeat:" + key0)
		return
	}
	h.seen[key0] = true
	min := h.shrinkX(c, class, key0)
	_, o2 := h.xfails(min)
	kind := "oracle"
	if class == "panic" {
		kind = "panic"
	}
	cx.Fail(kind, key0, fmt.Sprintf("`%s` over %s: vector=%s sequential=%s", min.query(), trunc(min.input(), 240), trunc(o2.vec, 160), trunc(o2.seq, 160)), map[string]any{"check": "vexpr", "xcase": min})
}

// shrinkX: fewer rows, smaller expressions, fewer operators — within the same class and key.
func (h *harness) shrinkX(c *xcase, class, key string) *xcase {
	budget := 40
	ok := func(x *xcase) bool {
		if budget <= 0 {
			return false
		}
		budget--
		cl, _ := h.xfails(x)
		return cl == class && h.xkey(x, cl) == key
	}
	cur := c
	for progress := true; progress && budget > 0; {
		progress = false
		// drop a row
		for k := 0; k < cur.N && cur.N > 1; k++ {
			x := cur.dropRow(k)
			if ok(x) {
				cur, progress = x, true
				break
			}
		}
		if progress {
			continue
		}
		// drop an operator
		for i := range cur.Ops {
			if len(cur.Ops) == 1 {
				break
			}
			x := *cur
			x.Ops = append(append([]xop{}, cur.Ops[:i]...), cur.Ops[i+1:]...)
			if ok(&x) {
				cur, progress = &x, true
				break
			}
		}
		if progress {
			continue
		}
		// replace an expression by one of its children
		for i, o := range cur.Ops {
			if o.E == nil {
				continue
			}
			for _, sub := range []*xexpr{o.E.A, o.E.B} {
				if sub == nil {
					continue
				}
				x := *cur
				x.Ops = append([]xop{}, cur.Ops...)
				x.Ops[i] = xop{Kind: o.Kind, E: sub}
				if ok(&x) {
					cur, progress = &x, true
					break
				}
			}
			if progress {
				break
			}
		}
	}
	return cur
}

func (c *xcase) dropRow(k int) *xcase {
	x := &xcase{N: c.N - 1, Ops: c.Ops}
	for _, col := range c.Cols {
		nc := xcol{Name: col.Name, Kind: col.Kind}
		for i := 0; i < c.N; i++ {
			if i == k {
				continue
			}
			nc.Null = append(nc.Null, col.Null[i])
			switch col.Kind {
			case "int":
				nc.Ints = append(nc.Ints, col.Ints[i])
			case "str":
				nc.Strs = append(nc.Strs, col.Strs[i])
			default:
				nc.Bool = append(nc.Bool, col.Bool[i])
			}
		}
		x.Cols = append(x.Cols, nc)
	}
	return x
}
