package main

// T1 fact set "C01" (shared by C01 and C11): the ZNG wire constants and the straight-line
// integer expressions of the frame header encoder/decoder, regenerated from
//
//	zio/zngio/frame.go  zio/zngio/types.go  zio/zngio/writer.go  zio/zngio/parser.go
//	zio/zngio/reader.go zcode/bytes.go      type.go              context.go
//
// Everything that is not a constant or a straight-line integer expression is refused.

import (
	"fmt"
	"go/ast"
	"go/token"
	"sort"
	"strconv"
	"strings"
)

func init() { register("C01", genC01) }

// ---- constant evaluation ------------------------------------------------------------

type c01Env map[string]int64

func c01EvalConst(f *file, e ast.Expr, env c01Env) (int64, error) {
	switch e := e.(type) {
	case *ast.BasicLit:
		if e.Kind == token.INT {
			n, err := strconv.ParseInt(strings.ReplaceAll(e.Value, "_", ""), 0, 64)
			if err != nil {
				return 0, fmt.Errorf("%s: %v", f.pos(e), err)
			}
			return n, nil
		}
		if e.Kind == token.CHAR {
			s, err := strconv.Unquote(e.Value)
			if err == nil && len(s) == 1 {
				return int64(s[0]), nil
			}
		}
	case *ast.Ident:
		if v, ok := env[e.Name]; ok {
			return v, nil
		}
	case *ast.ParenExpr:
		return c01EvalConst(f, e.X, env)
	case *ast.BinaryExpr:
		a, err := c01EvalConst(f, e.X, env)
		if err != nil {
			return 0, err
		}
		b, err := c01EvalConst(f, e.Y, env)
		if err != nil {
			return 0, err
		}
		switch e.Op {
		case token.MUL:
			return a * b, nil
		case token.ADD:
			return a + b, nil
		case token.SUB:
			return a - b, nil
		case token.SHL:
			return a << uint(b), nil
		case token.OR:
			return a | b, nil
		}
	}
	return 0, fmt.Errorf("%s: constant expression not recognised: %s", f.pos(e), renderNode(f, e))
}

// c01ConstBlocks collects every integer constant declared at top level of f (iota blocks
// included) into env.
func c01ConstBlocks(f *file, env c01Env) error {
	for _, d := range f.f.Decls {
		gd, ok := d.(*ast.GenDecl)
		if !ok || gd.Tok != token.CONST {
			continue
		}
		var lastExpr ast.Expr
		for i, sp := range gd.Specs {
			vs := sp.(*ast.ValueSpec)
			if len(vs.Names) != 1 {
				continue
			}
			var expr ast.Expr
			if len(vs.Values) == 1 {
				expr = vs.Values[0]
				lastExpr = expr
			} else if len(vs.Values) == 0 {
				expr = lastExpr
			}
			if expr == nil {
				continue
			}
			local := c01Env{}
			for k, v := range env {
				local[k] = v
			}
			local["iota"] = int64(i)
			v, err := c01EvalConst(f, expr, local)
			if err != nil {
				// string or other constants are skipped, not refused: only the
				// names asked for later must be present.
				continue
			}
			env[vs.Names[0].Name] = v
		}
	}
	return nil
}

// ---- integer expression translation --------------------------------------------------

// c01LeanExpr translates a Go integer expression over the given variables into a Lean Nat
// expression.  Conversions uint64(x)/int(x)/byte(x) are the identity on the (small,
// non-negative) arguments the model feeds; the model states that side condition.
func c01LeanExpr(f *file, e ast.Expr, vars map[string]string, env c01Env) (string, error) {
	switch e := e.(type) {
	case *ast.BasicLit:
		n, err := c01EvalConst(f, e, env)
		if err != nil {
			return "", err
		}
		return fmt.Sprint(n), nil
	case *ast.Ident:
		if v, ok := vars[e.Name]; ok {
			return v, nil
		}
		if v, ok := env[e.Name]; ok {
			return fmt.Sprint(v), nil
		}
	case *ast.ParenExpr:
		s, err := c01LeanExpr(f, e.X, vars, env)
		return s, err
	case *ast.CallExpr:
		name, _ := selName(e.Fun)
		if len(e.Args) == 1 {
			switch name {
			case "uint64", "int", "byte", "int64":
				return c01LeanExpr(f, e.Args[0], vars, env)
			case "zcode.SizeOfUvarint", "SizeOfUvarint":
				a, err := c01LeanExpr(f, e.Args[0], vars, env)
				if err != nil {
					return "", err
				}
				return "(sizeOfUvarint " + a + ")", nil
			case "len":
				if s, ok := selName(e.Args[0]); ok {
					if v, ok := vars["len("+s+")"]; ok {
						return v, nil
					}
				}
			}
		}
	case *ast.BinaryExpr:
		a, err := c01LeanExpr(f, e.X, vars, env)
		if err != nil {
			return "", err
		}
		b, err := c01LeanExpr(f, e.Y, vars, env)
		if err != nil {
			return "", err
		}
		op := map[token.Token]string{token.SHL: "<<<", token.SHR: ">>>", token.OR: "|||", token.AND: "&&&",
			token.ADD: "+", token.SUB: "-", token.MUL: "*"}[e.Op]
		if op != "" {
			return "(" + a + " " + op + " " + b + ")", nil
		}
		cmp := map[token.Token]string{token.GEQ: "≥", token.GTR: ">", token.LEQ: "≤", token.LSS: "<", token.EQL: "=", token.NEQ: "≠"}[e.Op]
		if cmp != "" {
			return "(decide (" + a + " " + cmp + " " + b + "))", nil
		}
		if e.Op == token.LOR {
			return "(" + a + " || " + b + ")", nil
		}
		if e.Op == token.LAND {
			return "(" + a + " && " + b + ")", nil
		}
	}
	return "", fmt.Errorf("%s: expression not recognised: %s", f.pos(e), renderNode(f, e))
}

// c01FindAssign finds the statement `name := expr` / `name = expr` / `name op= expr` in body.
func c01FindAssign(f *file, body *ast.BlockStmt, name string, tok token.Token) (ast.Expr, error) {
	var out ast.Expr
	n := 0
	ast.Inspect(body, func(nd ast.Node) bool {
		as, ok := nd.(*ast.AssignStmt)
		if !ok || as.Tok != tok || len(as.Lhs) < 1 {
			return true
		}
		if id, ok := as.Lhs[0].(*ast.Ident); ok && id.Name == name && len(as.Rhs) == 1 {
			out = as.Rhs[0]
			n++
		}
		return true
	})
	if n != 1 {
		return nil, fmt.Errorf("%s: expected exactly one `%s %s …`, found %d", f.path, name, tok, n)
	}
	return out, nil
}

// c01CallsIn returns, in source order, the rendered calls to fn found in body.
func c01CallsIn(f *file, body *ast.BlockStmt, fn string) [][]ast.Expr {
	var out [][]ast.Expr
	ast.Inspect(body, func(nd ast.Node) bool {
		if c, ok := nd.(*ast.CallExpr); ok {
			if n, ok := selName(c.Fun); ok && n == fn {
				out = append(out, c.Args)
			}
		}
		return true
	})
	return out
}

func genC01(repo string) (string, error) {
	var b strings.Builder
	env := c01Env{}
	files := map[string]*file{}
	for _, rel := range []string{"type.go", "context.go", "zcode/bytes.go", "zio/zngio/frame.go", "zio/zngio/types.go",
		"zio/zngio/reader.go", "zio/zngio/writer.go", "zio/zngio/parser.go", "mapper.go", "zio/zngio/scanner.go"} {
		f, err := parseFile(repo, rel)
		if err != nil {
			return "", err
		}
		files[rel] = f
		if rel == "mapper.go" || rel == "zio/zngio/scanner.go" {
			continue
		}
		if err := c01ConstBlocks(f, env); err != nil {
			return "", err
		}
	}
	need := func(names ...string) error {
		for _, n := range names {
			v, ok := env[n]
			if !ok {
				return fmt.Errorf("constant %s not found", n)
			}
			fmt.Fprintf(&b, "def %s : Nat := %d\n", c01LowerFirst(n), v)
		}
		return nil
	}
	b.WriteString("/-- bytes binary.AppendUvarint needs (zcode.SizeOfUvarint); defined here so that the\n    regenerated expressions below are closed terms. -/\n")
	b.WriteString("def sizeOfUvarint (u : Nat) : Nat := if u < 128 then 1 else sizeOfUvarint (u / 128) + 1\ndecreasing_by omega\n")
	if err := need("TypesFrame", "ValuesFrame", "ControlFrame", "EOS", "CompressionFormatLZ4",
		"TypeDefRecord", "TypeDefArray", "TypeDefSet", "TypeDefMap", "TypeDefUnion", "TypeDefEnum", "TypeDefError", "TypeDefName",
		"DefaultFrameThresh", "ReadSize", "MaxSize",
		"IDTypeComplex", "IDType", "IDNull",
		"TypeValueRecord", "TypeValueArray", "TypeValueSet", "TypeValueMap", "TypeValueUnion", "TypeValueEnum", "TypeValueError",
		"TypeValueNameDef", "TypeValueNameRef",
		"MaxEnumSymbols", "MaxRecordFields", "MaxUnionTypes",
		"PrimitiveKind", "RecordKind", "ArrayKind", "SetKind", "MapKind", "UnionKind", "EnumKind", "ErrorKind"); err != nil {
		return "", err
	}
	if v, ok := env["tagNull"]; ok {
		fmt.Fprintf(&b, "def tagNull : Nat := %d\n", v)
	} else {
		return "", fmt.Errorf("zcode.tagNull not found")
	}

	// --- primitive ids implemented by LookupPrimitiveByID, primitive names ---------------
	tf := files["type.go"]
	fd, err := tf.funcDecl("", "LookupPrimitiveByID")
	if err != nil {
		return "", err
	}
	sw := firstSwitch(fd.Body, "id")
	if sw == nil {
		return "", fmt.Errorf("%s: LookupPrimitiveByID: switch id not found", tf.path)
	}
	var ids []int
	for _, st := range sw.Body.List {
		cc := st.(*ast.CaseClause)
		if cc.List == nil {
			return "", fmt.Errorf("%s: LookupPrimitiveByID: unexpected default clause", tf.pos(cc))
		}
		for _, e := range cc.List {
			v, err := c01EvalConst(tf, e, env)
			if err != nil {
				return "", err
			}
			ids = append(ids, int(v))
		}
		if len(cc.Body) != 1 {
			return "", fmt.Errorf("%s: LookupPrimitiveByID: case body not a single return", tf.pos(cc))
		}
		if r, ok := cc.Body[0].(*ast.ReturnStmt); !ok || len(r.Results) != 2 || renderNode(tf, r.Results[1]) != "nil" {
			return "", fmt.Errorf("%s: LookupPrimitiveByID: case body not `return T, nil`", tf.pos(cc))
		}
	}
	sort.Ints(ids)
	strs := make([]string, len(ids))
	for i, v := range ids {
		strs[i] = fmt.Sprint(v)
	}
	fmt.Fprintf(&b, "def primitiveIDs : List Nat := [%s]\n", strings.Join(strs, ", "))
	fd, err = tf.funcDecl("", "LookupPrimitive")
	if err != nil {
		return "", err
	}
	sw = firstSwitch(fd.Body, "name")
	if sw == nil {
		return "", fmt.Errorf("%s: LookupPrimitive: switch name not found", tf.path)
	}
	var names []string
	for _, st := range sw.Body.List {
		cc := st.(*ast.CaseClause)
		for _, e := range cc.List {
			s, ok := strLit(e)
			if !ok {
				return "", fmt.Errorf("%s: LookupPrimitive: non-literal case", tf.pos(e))
			}
			names = append(names, s)
		}
	}
	sort.Strings(names)
	fmt.Fprintf(&b, "def primitiveNames : List String := %s\n", leanStrList(names))
	var nb []string
	for _, n := range names {
		var bs []string
		for _, c := range []byte(n) {
			bs = append(bs, fmt.Sprint(c))
		}
		nb = append(nb, "["+strings.Join(bs, ", ")+"]")
	}
	fmt.Fprintf(&b, "def primitiveNameBytes : List (List UInt8) := [%s]\n", strings.Join(nb, ", "))

	// --- zcode tag arithmetic ----------------------------------------------------------
	zf := files["zcode/bytes.go"]
	for _, fn := range []struct{ name, param, lean string }{{"toTag", "length", "toTag"}, {"tagLength", "t", "tagLength"}} {
		fd, err := zf.funcDecl("", fn.name)
		if err != nil {
			return "", err
		}
		var ret ast.Expr
		for _, st := range fd.Body.List {
			if r, ok := st.(*ast.ReturnStmt); ok && len(r.Results) == 1 {
				ret = r.Results[0]
			}
		}
		if ret == nil {
			return "", fmt.Errorf("%s: %s: no return expression", zf.path, fn.name)
		}
		s, err := c01LeanExpr(zf, ret, map[string]string{fn.param: fn.param}, env)
		if err != nil {
			return "", err
		}
		fmt.Fprintf(&b, "def %s (%s : Nat) : Nat := %s\n", fn.lean, fn.param, s)
	}

	// --- writer ------------------------------------------------------------------------
	wf := files["zio/zngio/writer.go"]
	fd, err = wf.funcDecl("Writer", "writeHeader")
	if err != nil {
		return "", err
	}
	e, err := c01FindAssign(wf, fd.Body, "code", token.DEFINE)
	if err != nil {
		return "", err
	}
	s, err := c01LeanExpr(wf, e, map[string]string{"blockType": "blockType", "size": "size"}, env)
	if err != nil {
		return "", err
	}
	fmt.Fprintf(&b, "def writeHeaderCode (blockType size : Nat) : Nat := %s\n", s)
	uv := c01CallsIn(wf, fd.Body, "binary.AppendUvarint")
	if len(uv) != 1 || len(uv[0]) != 2 {
		return "", fmt.Errorf("%s: writeHeader: expected one AppendUvarint", wf.path)
	}
	s, err = c01LeanExpr(wf, uv[0][1], map[string]string{"size": "size"}, env)
	if err != nil {
		return "", err
	}
	fmt.Fprintf(&b, "def writeHeaderLen (size : Nat) : Nat := %s\n", s)
	// layout of the header: code byte, then the uvarint
	lay, err := c01AppendLayout(wf, fd.Body)
	if err != nil {
		return "", err
	}
	fmt.Fprintf(&b, "def writeHeaderLayout : List String := %s\n", leanStrList(lay))

	fd, err = wf.funcDecl("Writer", "writeCompHeader")
	if err != nil {
		return "", err
	}
	e, err = c01FindAssign(wf, fd.Body, "zlen", token.ADD_ASSIGN)
	if err != nil {
		return "", err
	}
	s, err = c01LeanExpr(wf, e, map[string]string{"size": "size"}, env)
	if err != nil {
		return "", err
	}
	fmt.Fprintf(&b, "def writeCompExtra (size : Nat) : Nat := %s\n", s)
	e, err = c01FindAssign(wf, fd.Body, "code", token.DEFINE)
	if err != nil {
		return "", err
	}
	s, err = c01LeanExpr(wf, e, map[string]string{"blockType": "blockType", "zlen": "zlen"}, env)
	if err != nil {
		return "", err
	}
	fmt.Fprintf(&b, "def writeCompHeaderCode (blockType zlen : Nat) : Nat := %s\n", s)
	lay, err = c01AppendLayout(wf, fd.Body)
	if err != nil {
		return "", err
	}
	fmt.Fprintf(&b, "def writeCompHeaderLayout : List String := %s\n", leanStrList(lay))

	// flush condition of Writer.Write
	fd, err = wf.funcDecl("Writer", "Write")
	if err != nil {
		return "", err
	}
	var cond ast.Expr
	var condInit string
	ast.Inspect(fd.Body, func(nd ast.Node) bool {
		if is, ok := nd.(*ast.IfStmt); ok && is.Init != nil {
			if as, ok := is.Init.(*ast.AssignStmt); ok && len(as.Lhs) == 1 {
				if id, ok := as.Lhs[0].(*ast.Ident); ok && id.Name == "thresh" {
					cond = is.Cond
					condInit = renderNode(wf, as.Rhs[0])
				}
			}
		}
		return true
	})
	if cond == nil || condInit != "w.opts.FrameThresh" {
		return "", fmt.Errorf("%s: Writer.Write: `if thresh := w.opts.FrameThresh; …` not found", wf.path)
	}
	s, err = c01LeanExpr(wf, cond, map[string]string{"thresh": "thresh", "len(w.values)": "valuesLen", "len(w.types.bytes)": "typesLen"}, env)
	if err != nil {
		return "", err
	}
	fmt.Fprintf(&b, "def flushCond (valuesLen typesLen thresh : Nat) : Bool := %s\n", s)
	// the value record appended by Write: uvarint(id) then zcode.Append(bytes)
	var wl []string
	ast.Inspect(fd.Body, func(nd ast.Node) bool {
		if as, ok := nd.(*ast.AssignStmt); ok && len(as.Lhs) == 1 && renderNode(wf, as.Lhs[0]) == "w.values" {
			wl = append(wl, renderNode(wf, as.Rhs[0]))
		}
		return true
	})
	fmt.Fprintf(&b, "def writeValueLayout : List String := %s\n", leanStrList(wl))

	// flush: order of the two writeBlock calls
	fd, err = wf.funcDecl("Writer", "flush")
	if err != nil {
		return "", err
	}
	var order []string
	for _, args := range c01CallsIn(wf, fd.Body, "w.writeBlock") {
		if len(args) != 2 {
			return "", fmt.Errorf("%s: flush: writeBlock arity", wf.path)
		}
		order = append(order, renderNode(wf, args[0])+":"+renderNode(wf, args[1]))
	}
	fmt.Fprintf(&b, "def flushOrder : List String := %s\n", leanStrList(order))
	// writeBlock: empty blocks are skipped
	fd, err = wf.funcDecl("Writer", "writeBlock")
	if err != nil {
		return "", err
	}
	if len(fd.Body.List) == 0 {
		return "", fmt.Errorf("%s: writeBlock: empty body", wf.path)
	}
	fmt.Fprintf(&b, "def writeBlockFirstStmt : String := %s\n", leanStr(renderNode(wf, fd.Body.List[0])))
	// EndStream: statements, one per entry
	fd, err = wf.funcDecl("Writer", "EndStream")
	if err != nil {
		return "", err
	}
	fmt.Fprintf(&b, "def endStreamStmts : List String := %s\n", leanStrList(renderStmts(wf, fd.Body.List)))

	// --- parser ------------------------------------------------------------------------
	pf := files["zio/zngio/parser.go"]
	fd, err = pf.funcDecl("parser", "decodeLength")
	if err != nil {
		return "", err
	}
	var ret ast.Expr
	for _, st := range fd.Body.List {
		if r, ok := st.(*ast.ReturnStmt); ok && len(r.Results) == 2 {
			ret = r.Results[0]
		}
	}
	if ret == nil {
		return "", fmt.Errorf("%s: decodeLength: no return", pf.path)
	}
	s, err = c01LeanExpr(pf, ret, map[string]string{"v": "v", "code": "code"}, env)
	if err != nil {
		return "", err
	}
	fmt.Fprintf(&b, "def decodeLengthExpr (v code : Nat) : Nat := %s\n", s)
	fd, err = pf.funcDecl("parser", "read")
	if err != nil {
		return "", err
	}
	// version bit test and frame type extraction
	var versionMask, typExpr string
	var eosCase string
	ast.Inspect(fd.Body, func(nd ast.Node) bool {
		switch x := nd.(type) {
		case *ast.IfStmt:
			c := renderNode(pf, x.Cond)
			if strings.HasPrefix(c, "(code & ") && strings.HasSuffix(c, ") != 0") {
				versionMask = strings.TrimSuffix(strings.TrimPrefix(c, "(code & "), ") != 0")
			}
			if c == "code == EOS" {
				eosCase = strings.Join(renderStmts(pf, x.Body.List), "; ")
			}
		case *ast.SwitchStmt:
			if as, ok := x.Init.(*ast.AssignStmt); ok && len(as.Rhs) == 1 {
				if t, err := c01LeanExpr(pf, as.Rhs[0], map[string]string{"code": "code"}, env); err == nil {
					typExpr = t
				}
			}
		}
		return true
	})
	vm, perr := strconv.ParseInt(versionMask, 0, 64)
	if perr != nil || typExpr == "" {
		return "", fmt.Errorf("%s: parser.read: version test / frame type switch not recognised", pf.path)
	}
	fmt.Fprintf(&b, "def versionMask : Nat := %d\n", vm)
	fmt.Fprintf(&b, "def frameTypeOf (code : Nat) : Nat := %s\n", typExpr)
	fmt.Fprintf(&b, "def eosAction : String := %s\n", leanStr(eosCase))
	// compressed flag
	masks := map[string]bool{}
	for _, fn := range []string{"decodeTypes", "decodeValues", "decodeControl"} {
		fd, err = pf.funcDecl("parser", fn)
		if err != nil {
			return "", err
		}
		ast.Inspect(fd.Body, func(nd ast.Node) bool {
			if x, ok := nd.(*ast.IfStmt); ok {
				c := renderNode(pf, x.Cond)
				if strings.HasPrefix(c, "(code & ") {
					masks[strings.Fields(strings.TrimPrefix(c, "(code & "))[0]] = true
				}
			}
			return true
		})
	}
	if len(masks) != 1 {
		return "", fmt.Errorf("%s: compressed-flag mask not unique: %v", pf.path, masks)
	}
	for m := range masks {
		v, err := strconv.ParseInt(strings.TrimSuffix(m, ")"), 0, 64)
		if err != nil {
			return "", fmt.Errorf("%s: compressed-flag mask %q", pf.path, m)
		}
		fmt.Fprintf(&b, "def compressedMask : Nat := %d\n", v)
	}
	fd, err = pf.funcDecl("parser", "readCompressedFrame")
	if err != nil {
		return "", err
	}
	e, err = c01FindAssign(pf, fd.Body, "n", token.SUB_ASSIGN)
	if err != nil {
		return "", err
	}
	s, err = c01LeanExpr(pf, e, map[string]string{"size": "size"}, env)
	if err != nil {
		return "", err
	}
	fmt.Fprintf(&b, "def readCompExtra (size : Nat) : Nat := %s\n", s)
	// the size checks against maxSize, as rendered conditions
	var checks []string
	for _, fn := range []string{"readFrame", "readCompressedFrame"} {
		fd, err = pf.funcDecl("parser", fn)
		if err != nil {
			return "", err
		}
		ast.Inspect(fd.Body, func(nd ast.Node) bool {
			if x, ok := nd.(*ast.IfStmt); ok {
				c := renderNode(pf, x.Cond)
				if strings.Contains(c, "p.maxSize") {
					checks = append(checks, fn+": "+c)
				}
			}
			return true
		})
	}
	fmt.Fprintf(&b, "def maxSizeChecks : List String := %s\n", leanStrList(checks))
	return b.String(), nil
}

// c01AppendLayout renders, in order, what a header-building function appends to w.header.
func c01AppendLayout(f *file, body *ast.BlockStmt) ([]string, error) {
	var out []string
	for _, st := range body.List {
		as, ok := st.(*ast.AssignStmt)
		if !ok || len(as.Lhs) != 1 || renderNode(f, as.Lhs[0]) != "w.header" || len(as.Rhs) != 1 {
			continue
		}
		c, ok := as.Rhs[0].(*ast.CallExpr)
		if !ok || len(c.Args) != 2 {
			return nil, fmt.Errorf("%s: header append not recognised: %s", f.pos(st), renderNode(f, st))
		}
		fn, _ := selName(c.Fun)
		switch fn {
		case "append":
			out = append(out, "byte:"+renderNode(f, c.Args[1]))
		case "binary.AppendUvarint":
			out = append(out, "uvarint:"+renderNode(f, c.Args[1]))
		default:
			return nil, fmt.Errorf("%s: header append not recognised: %s", f.pos(st), renderNode(f, st))
		}
	}
	return out, nil
}

func c01LowerFirst(s string) string {
	// TypesFrame -> typesFrame, EOS -> eos, IDTypeComplex -> idTypeComplex
	i := 0
	for i < len(s) && s[i] >= 'A' && s[i] <= 'Z' {
		i++
	}
	if i == 0 {
		return s
	}
	if i == len(s) {
		return strings.ToLower(s)
	}
	if i == 1 {
		return strings.ToLower(s[:1]) + s[1:]
	}
	return strings.ToLower(s[:i-1]) + s[i-1:]
}
