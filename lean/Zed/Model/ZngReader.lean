import Zed.Model.ZngZcode
import Zed.Model.ZngTypes
import Zed.Model.ZngValidate
/-!
  The ZNG parser and value decoder (`zio/zngio/parser.go`, `types.go`, `scanner.go
  decodeVal/scanBatch`, `pkg/peeker`) as one **total** function from bytes to
  (values delivered, allocation requests, how the stream ended).  Every bound check of the
  Go code is here; where the Go code has none and panics, the model returns the panic site.
  LZ4 is a parameter `decomp zbytes size` (`none` = UncompressBlock fails or yields a
  different size).

  Sequential semantics: what `Reader.Read` delivers before it returns `nil`/an error.  The
  threaded scanner delivers the same sequence (`ZngScanner`, `scanner_order`).
-/
namespace Zed.Zng
open Zed.Generated.C01

structure ROpts where
  /-- `ReaderOpts.Max` (`parser.maxSize` and the peeker's limit) -/
  maxSize : Nat
  validate : Bool

inductive Outcome where
  | eof                    -- clean end of input
  | err                    -- an error is returned
  | panic (site : String)  -- the Go code panics (escapes unless the caller recovers)
  deriving DecidableEq, Repr

structure RVal where
  ty : ZTy
  body : Option Bytes
  deriving DecidableEq, Repr

structure RRes where
  vals : List RVal
  /-- buffer sizes requested from the allocator / buffer pool, in order -/
  allocs : List Nat
  out : Outcome
  deriving Repr

/-! ### peeker -/

inductive PeekRes where
  | ok (b rest : Bytes)
  | eof
  | err

/-- `peeker.Reader.Read(n)` at a point where the parser is still running (so the peeker has
    not yet seen EOF): negative → error; more than the limit → ErrBufferOverflow; nothing
    left → io.EOF; fewer than `n` left → ErrTruncated. -/
def peekRead (limit : Nat) (n : Int) (bs : Bytes) : PeekRes :=
  if n < 0 then .err
  else if n.toNat ≤ limit ∧ hasLen bs n.toNat then .ok (bs.take n.toNat) (bs.drop n.toNat)
  else if n.toNat > limit then .err
  else if bs.isEmpty then .eof
  else .err

/-! ### values frame: `scanBatch` / `decodeVal` -/

inductive ValRes where
  | ok (v : RVal) (rest : Bytes)
  | err
  | panic (site : String)
  deriving DecidableEq

/-- `buffer.read(n)` for `n > 0`; `io.EOF` (nothing left at all) is let through with
    `b = nil`, a negative `n` (null tag, or a length ≥ 2^63) leaves `b = nil`. -/
def readBody (n : Int) (r : Bytes) : Option (Option Bytes × Bytes) :=
  if n = 0 then some (some [], r)
  else if n < 0 then some (none, r)
  else if hasLen r n.toNat then some (some (r.take n.toNat), r.drop n.toNat)
  else if r.isEmpty then some (none, r)
  else none

theorem readBody_le {n : Int} {r r' : Bytes} {b : Option Bytes} (h : readBody n r = some (b, r')) :
    r'.length ≤ r.length := by
  unfold readBody at h
  split at h
  · cases h; exact Nat.le_refl _
  · split at h
    · cases h; exact Nat.le_refl _
    · split at h
      · cases h; simp
      · split at h
        · cases h; exact Nat.le_refl _
        · cases h

def decodeVal (o : ROpts) (ctx : Ctx) (bs : Bytes) : ValRes :=
  match readUvarintAsInt bs with
  | .error _ => .err
  | .ok (id, r1) =>
    match readUvarint r1 with            -- zcode.ReadTag
    | .error _ => .err
    | .ok (tag, r2) =>
      match readBody (if tag = tagNull then -1 else asInt (tagLength tag)) r2 with
      | none => .err
      | some (b, r3) =>
        -- `MapperLookupCache.Lookup` returns nil for a negative id (repo commit 0b09f99cc)
        if id < 0 then .err
        else match ctx.typeOfId id with
          | none => .err
          | some t =>
            if o.validate && !validate t b then .err else .ok ⟨t, b⟩ r3

theorem decodeVal_progress {o : ROpts} {ctx : Ctx} {bs r : Bytes} {v : RVal}
    (h : decodeVal o ctx bs = .ok v r) : r.length < bs.length := by
  unfold decodeVal at h
  split at h
  · cases h
  · rename_i id r1 h1
    have p1 := readUvarintAsInt_progress bs id r1 h1
    split at h
    · cases h
    · rename_i tag r2 h2
      have p2 := readUvarint_progress r1 tag r2 h2
      split at h
      · cases h
      · rename_i b r3 hb
        have p3 := readBody_le hb
        split at h
        · cases h
        · split at h
          · cases h
          · split at h
            · cases h
            · cases h; omega

/-- `scanBatch`: decode values until the buffer is empty; any error drops the whole frame. -/
def decodeVals (o : ROpts) (ctx : Ctx) (bs : Bytes) : Except Outcome (List RVal) :=
  if bs.isEmpty then .ok []
  else
    match h : decodeVal o ctx bs with
    | .err => .error .err
    | .panic s => .error (.panic s)
    | .ok v r =>
      have : r.length < bs.length := decodeVal_progress h
      match decodeVals o ctx r with
      | .ok vs => .ok (v :: vs)
      | .error e => .error e
termination_by bs.length

/-! ### frames: `parser.read` -/

/-- `parser.decodeLength`: `(v << 4) | (code & 0xf)` in 64-bit `int` arithmetic. -/
def frameLen (code : Nat) (bs : Bytes) : Except Outcome (Int × Bytes) :=
  match readUvarint bs with
  | .error .eof => .error .eof
  | .error _ => .error .err
  | .ok (u, r) => .ok (asInt (decodeLengthExpr u code), r)

theorem frameLen_progress {code : Nat} {bs r : Bytes} {n : Int} (h : frameLen code bs = .ok (n, r)) :
    r.length < bs.length := by
  unfold frameLen at h
  split at h
  · cases h
  · cases h
  · rename_i u r' heq; cases h; exact readUvarint_progress bs u _ heq

/-- what a frame reader hands on: payload (already decompressed), rest, allocation requests -/
inductive FrameRes where
  | ok (payload rest : Bytes) (allocs : List Nat)
  | stop (o : Outcome) (allocs : List Nat)

/-- `parser.readFrame` (uncompressed). -/
def readPlainFrame (o : ROpts) (code : Nat) (bs : Bytes) : FrameRes :=
  match frameLen code bs with
  | .error e => .stop e []
  | .ok (size, r) =>
    if size > Int.ofNat o.maxSize then .stop .err []
    else match peekRead o.maxSize size r with
      | .ok b rest => .ok b rest [size.toNat]
      | .eof => .stop .eof []
      | .err => .stop .err []

theorem peekRead_le {limit : Nat} {n : Int} {bs b rest : Bytes} (h : peekRead limit n bs = .ok b rest) :
    rest.length ≤ bs.length := by
  unfold peekRead at h
  split at h
  · cases h
  · split at h
    · cases h; simp
    · split at h
      · cases h
      · split at h <;> cases h

/-- what `parser.readCompressedFrame` returns (before decompression) -/
inductive CompRes where
  | ok (format : UInt8) (z : Bytes) (size : Int) (rest : Bytes)
  | stop (o : Outcome)

/-- `parser.readCompressedFrame`: length, format byte, declared uncompressed size, payload. -/
def readCompHeader (o : ROpts) (code : Nat) (bs : Bytes) : CompRes :=
  match frameLen code bs with
  | .error e => .stop e
  | .ok (n, r) =>
    match r with
    | [] => .stop .eof                       -- format byte: io.EOF
    | format :: r1 =>
      match readUvarint r1 with
      | .error .eof => .stop .eof
      | .error _ => .stop .err
      | .ok (usize, r2) =>
        let size := asInt usize
        -- `size < 0 || size > p.maxSize` (the sign test: repo commit 0b09f99cc)
        if size < 0 ∨ size > Int.ofNat o.maxSize then .stop .err
        else
          -- io.EOF from the peeker is let through with an empty compressed buffer
          match peekRead o.maxSize (wrapInt (n - (Int.ofNat (readCompExtra usize)))) r2 with
          | .ok b rest => .ok format b size rest
          | .eof => .ok format [] size r2
          | .err => .stop .err

/-- `parser.readCompressedFrame` followed by `frame.decompress`. -/
def readCompFrame (o : ROpts) (decomp : Bytes → Nat → Option Bytes) (code : Nat) (bs : Bytes) : FrameRes :=
  match readCompHeader o code bs with
  | .stop e => .stop e []
  | .ok format z size rest =>
    if format.toNat ≠ compressionFormatLZ4 then .stop .err [z.length, size.toNat]
    else match decomp z size.toNat with
      | none => .stop .err [z.length, size.toNat]
      | some ub => if ub.length ≠ size.toNat then .stop .err [z.length, size.toNat]
                   else .ok ub rest [z.length, size.toNat]

def readFrame (o : ROpts) (decomp : Bytes → Nat → Option Bytes) (code : Nat) (bs : Bytes) : FrameRes :=
  if code &&& compressedMask ≠ 0 then readCompFrame o decomp code bs else readPlainFrame o code bs

theorem readCompHeader_progress {o : ROpts} {code : Nat} {bs z rest : Bytes} {f : UInt8} {size : Int}
    (h : readCompHeader o code bs = .ok f z size rest) : rest.length < bs.length := by
  unfold readCompHeader at h
  split at h
  · cases h
  · rename_i n r hl
    have := frameLen_progress hl
    split at h
    · cases h
    · rename_i format r1
      split at h
      · cases h
      · cases h
      · rename_i usize r2 hu
        have := readUvarint_progress r1 usize r2 hu
        simp only at h
        split at h
        · cases h
        · split at h
          · rename_i hp; cases h; have := peekRead_le hp; simp at *; omega
          · cases h; simp at *; omega
          · cases h

theorem readPlainFrame_progress {o : ROpts} {code : Nat} {bs p rest : Bytes} {al : List Nat}
    (h : readPlainFrame o code bs = .ok p rest al) : rest.length < bs.length := by
  unfold readPlainFrame at h
  split at h
  · cases h
  · rename_i n r hl
    have := frameLen_progress hl
    split at h
    · cases h
    · split at h
      · rename_i hp; cases h; have := peekRead_le hp; omega
      · cases h
      · cases h

theorem readFrame_progress {o : ROpts} {decomp : Bytes → Nat → Option Bytes} {code : Nat}
    {bs p rest : Bytes} {al : List Nat} (h : readFrame o decomp code bs = .ok p rest al) :
    rest.length < bs.length := by
  unfold readFrame at h
  split at h
  · unfold readCompFrame at h
    split at h
    · cases h
    · rename_i hh
      have := readCompHeader_progress hh
      split at h
      · cases h
      · split at h
        · cases h
        · split at h
          · cases h
          · cases h; exact this
  · unfold readPlainFrame at h
    split at h
    · cases h
    · rename_i n r hl
      have := frameLen_progress hl
      split at h
      · cases h
      · split at h
        · rename_i hp; cases h; have := peekRead_le hp; omega
        · cases h
        · cases h

/-- one turn of `parser.read` plus what the scanner does with the frame -/
inductive Step where
  | done (o : Outcome) (allocs : List Nat)
  | cont (ctx : Ctx) (vals : List RVal) (allocs : List Nat) (rest : Bytes)

def step (o : ROpts) (decomp : Bytes → Nat → Option Bytes) (ctx : Ctx) (code : UInt8) (bs : Bytes) : Step :=
  let c := code.toNat
  if c = eos then .cont [] [] [] bs
  else if c &&& versionMask ≠ 0 then .done .err []
  else
    let kind := frameTypeOf c
    if kind = typesFrame then
      match readFrame o decomp c bs with
      | .stop e al => .done e al
      | .ok p rest al =>
        match decTypedefs ctx p with
        | .ok ctx' => .cont ctx' [] al rest
        | .error .bad => .done .err al
        | .error (.panic s) => .done (.panic s) al
    else if kind = valuesFrame then
      match readFrame o decomp c bs with
      | .stop e al => .done e al
      | .ok p rest al =>
        -- an uncompressed values frame is copied into a pooled buffer
        let al' := if c &&& compressedMask ≠ 0 then al else al ++ [p.length]
        match decodeVals o ctx p with
        | .ok vs => .cont ctx vs al' rest
        | .error e => .done e al'
    else if kind = controlFrame then
      match readFrame o decomp c bs with
      | .stop e al => .done e al
      | .ok p rest al => if p.isEmpty then .done .err al else .cont ctx [] al rest
    else .done .err []

theorem step_progress {o : ROpts} {decomp : Bytes → Nat → Option Bytes} {ctx ctx' : Ctx} {code : UInt8}
    {bs rest : Bytes} {vs : List RVal} {al : List Nat}
    (h : step o decomp ctx code bs = .cont ctx' vs al rest) : rest.length ≤ bs.length := by
  unfold step at h
  simp only at h
  split at h
  · cases h; exact Nat.le_refl _
  · split at h
    · cases h
    · split at h
      · split at h
        · cases h
        · rename_i hf
          have := readFrame_progress hf
          split at h
          · cases h; omega
          · cases h
          · cases h
      · split at h
        · split at h
          · cases h
          · rename_i hf
            have := readFrame_progress hf
            split at h
            · cases h; omega
            · cases h
        · split at h
          · split at h
            · cases h
            · rename_i hf
              have := readFrame_progress hf
              split at h
              · cases h
              · cases h; omega
          · cases h

/-- The whole stream: frames until the input ends or something fails.  Terminates because
    every frame consumes at least its code byte. -/
def readStream (o : ROpts) (decomp : Bytes → Nat → Option Bytes) (ctx : Ctx) (bs : Bytes) : RRes :=
  match bs with
  | [] => ⟨[], [], .eof⟩
  | code :: tl =>
    match h : step o decomp ctx code tl with
    | .done e al => ⟨[], al, e⟩
    | .cont ctx' vs al rest =>
      have : rest.length < (code :: tl).length := by
        have := step_progress h; simp; omega
      let r := readStream o decomp ctx' rest
      ⟨vs ++ r.vals, al ++ r.allocs, r.out⟩
termination_by bs.length

/-- The LZ4 blocks a stream asks to decompress, in order, found by walking the frames without
    decoding them (used by the driver to ask the harness for the oracle's answers). -/
def compRequests (o : ROpts) (bs : Bytes) : List (Bytes × Int) :=
  match bs with
  | [] => []
  | code :: tl =>
    let c := code.toNat
    if c = eos then
      have : tl.length < (code :: tl).length := by simp
      compRequests o tl
    else if c &&& versionMask ≠ 0 then []
    else if frameTypeOf c > controlFrame then []
    else if c &&& compressedMask ≠ 0 then
      match h : readCompHeader o c tl with
      | .stop _ => []
      | .ok _ z size rest =>
        have : rest.length < (code :: tl).length := by
          have := readCompHeader_progress h; simp; omega
        (z, size) :: compRequests o rest
    else
      match h : readPlainFrame o c tl with
      | .stop _ _ => []
      | .ok p rest al =>
        have : rest.length < (code :: tl).length := by
          have := readPlainFrame_progress h; simp; omega
        compRequests o rest
termination_by bs.length

/-- `Reader.Read` until it returns nil or an error, from the start of a stream. -/
def readAll (o : ROpts) (decomp : Bytes → Nat → Option Bytes) (bs : Bytes) : RRes :=
  readStream o decomp [] bs

end Zed.Zng
