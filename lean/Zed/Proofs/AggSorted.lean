/-
  Sorted-input mode of the group-by Aggregator (C10): early release from the table is safe when
  the input really is sorted on the primary key, and unsafe otherwise.
-/
import Zed.Model.AggGroupby
namespace Zed.Proofs.AggSorted
open Zed.Agg
variable {K S P : Type} [DecidableEq K]

/-! ### `total` -/

theorem total_append (m : Mon S) (hm : m.Laws) (k : K) (a b : List (K × S)) :
    total m k (a ++ b) = m.op (total m k a) (total m k b) := by
  induction a with
  | nil => simp [total, hm.left_id]
  | cons r a ih =>
    simp only [List.cons_append, total, ih]
    split
    · rw [hm.assoc]
    · rfl

theorem total_perm (m : Mon S) (hm : m.CommLaws) (k : K) {a b : List (K × S)} (h : a.Perm b) :
    total m k a = total m k b := by
  induction h with
  | nil => rfl
  | cons x _ ih => simp only [total, ih]
  | swap x y l =>
    simp only [total]
    split <;> split <;> try rfl
    rw [← hm.assoc, ← hm.assoc, hm.comm y.2 x.2]
  | trans _ _ ih1 ih2 => rw [ih1, ih2]

theorem total_not_mem (m : Mon S) (k : K) (l : List (K × S)) (h : k ∉ l.map (·.1)) :
    total m k l = m.e := by
  induction l with
  | nil => rfl
  | cons r l ih =>
    simp only [List.map_cons, List.mem_cons, not_or] at h
    simp only [total]
    rw [if_neg (fun e => h.1 e.symm), ih h.2]

theorem total_of_mem_nodup (m : Mon S) (hm : m.Laws) (k : K) (s : S) (l : List (K × S))
    (hn : (l.map (·.1)).Nodup) (hmem : (k, s) ∈ l) : total m k l = s := by
  induction l with
  | nil => cases hmem
  | cons r l ih =>
    simp only [List.map_cons, List.nodup_cons] at hn
    simp only [total]
    rcases List.mem_cons.1 hmem with h | h
    · subst h
      rw [if_pos rfl, total_not_mem m k l hn.1, hm.right_id]
    · have hk : k ∈ l.map (·.1) := List.mem_map.2 ⟨(k, s), h, rfl⟩
      have hne : r.1 ≠ k := fun e => hn.1 (e ▸ hk)
      rw [if_neg hne, ih hn.2 h]

/-! ### the sorted-mode table -/

/-- the rows of a sorted-mode table as (key, state) pairs -/
abbrev rowsOf (t : List (SRow K S P)) : List (K × S) := t.map fun r => (r.key, r.st)

/-- everything the operator will emit if the input ended now -/
def allRows (st : SGB K S P) : List (K × S) := st.out ++ rowsOf st.table

omit [DecidableEq K] in
theorem keys_rowsOf (t : List (SRow K S P)) : (rowsOf t).map (·.1) = t.map (·.key) := by
  simp [rowsOf, List.map_map, Function.comp_def]

theorem supsert_keys (m : Mon S) (t : List (SRow K S P)) (k : K) (s : S) (g : P) :
    (supsert m t k s g).map (·.key) =
      if k ∈ t.map (·.key) then t.map (·.key) else t.map (·.key) ++ [k] := by
  induction t with
  | nil => simp [supsert]
  | cons r t ih =>
    simp only [supsert]
    by_cases h : r.key = k
    · simp [h]
    · have h' : ¬ k = r.key := fun e => h e.symm
      simp only [if_neg h, List.map_cons, ih, List.mem_cons, h', false_or]
      split <;> simp

theorem total_supsert (m : Mon S) (hm : m.CommLaws) (t : List (SRow K S P)) (k k' : K) (s : S) (g : P) :
    total m k' (rowsOf (supsert m t k s g)) =
      if k = k' then m.op (total m k' (rowsOf t)) s else total m k' (rowsOf t) := by
  induction t with
  | nil =>
    simp only [supsert, rowsOf, List.map_cons, List.map_nil, total]
    split
    · rw [hm.left_id, hm.right_id]
    · rfl
  | cons r t ih =>
    simp only [supsert]
    by_cases h : r.key = k
    · simp only [if_pos h, rowsOf, List.map_cons, total]
      subst h
      split
      · rw [hm.assoc, hm.comm s, ← hm.assoc]
      · rfl
    · simp only [if_neg h, rowsOf, List.map_cons, total]
      simp only [rowsOf] at ih
      rw [ih]
      by_cases h2 : k = k'
      · subst h2
        simp only [if_neg h]
      · simp only [if_neg h2]

theorem supsert_mem (m : Mon S) (t : List (SRow K S P)) (k : K) (s : S) (g : P) (r' : SRow K S P)
    (h : r' ∈ supsert m t k s g) :
    (∃ r0 ∈ t, r0.key = r'.key ∧ r0.gv = r'.gv) ∨ (r'.key = k ∧ r'.gv = g) := by
  induction t with
  | nil =>
    simp only [supsert, List.mem_singleton] at h
    subst h
    exact Or.inr ⟨rfl, rfl⟩
  | cons r t ih =>
    simp only [supsert] at h
    by_cases hk : r.key = k
    · rw [if_pos hk] at h
      rcases List.mem_cons.1 h with h | h
      · subst h
        exact Or.inl ⟨r, List.mem_cons_self, rfl, rfl⟩
      · exact Or.inl ⟨r', List.mem_cons_of_mem _ h, rfl, rfl⟩
    · rw [if_neg hk] at h
      rcases List.mem_cons.1 h with h | h
      · subst h
        exact Or.inl ⟨r', List.mem_cons_self, rfl, rfl⟩
      · rcases ih h with ⟨r0, h0, h1⟩ | h1
        · exact Or.inl ⟨r0, List.mem_cons_of_mem _ h0, h1⟩
        · exact Or.inr h1

/-! ### the new maximum -/

/-- maxTableKey after consuming a row with primary key `p` -/
def newMax (vle : P → P → Bool) (mk : Option P) (p : P) : P :=
  match mk with
  | none => p
  | some q => if ltOf vle q p then p else q

theorem newMax_ge (vle : P → P → Bool) (hv : TotalPreorder vle) (mk : Option P) (p : P) :
    vle p (newMax vle mk p) = true := by
  unfold newMax
  cases mk with
  | none => exact hv.refl p
  | some q =>
    simp only []
    split
    · exact hv.refl p
    · rename_i h
      rcases hv.total p q with h1 | h1
      · exact h1
      · cases h2 : vle p q
        · exact absurd (by simp [ltOf, h1, h2]) h
        · rfl

theorem newMax_cases (vle : P → P → Bool) (mk : Option P) (p : P) :
    newMax vle mk p = p ∨ mk = some (newMax vle mk p) := by
  unfold newMax
  cases mk with
  | none => exact Or.inl rfl
  | some q =>
    simp only []
    split
    · exact Or.inl rfl
    · exact Or.inr rfl

theorem sConsume_eq (m : Mon S) (prim : K → P) (vle : P → P → Bool) (st : SGB K S P) (r : K × S) :
    sConsume m prim vle st r =
      { st with table := supsert m st.table r.1 r.2 (newMax vle st.maxKey (prim r.1)),
                maxKey := some (newMax vle st.maxKey (prim r.1)) } := by
  unfold sConsume newMax
  cases st.maxKey <;> rfl

/-! ### order part of the invariant (no monoid laws needed) -/

/-- `ys` is the input still to come -/
structure Past (prim : K → P) (vle : P → P → Bool) (st : SGB K S P) (ys : List (K × S)) : Prop where
  sorted : ys.Pairwise (fun a b => vle (prim a.1) (prim b.1) = true)
  /-- released keys are strictly in the past -/
  past : ∀ k ∈ st.out.map (·.1), ∀ y ∈ ys, ltOf vle (prim k) (prim y.1) = true
  /-- a row's groupval is at least its own primary key -/
  gvge : ∀ r ∈ st.table, vle (prim r.key) r.gv = true
  /-- maxTableKey is at most every primary key still to come -/
  mkle : ∀ mk, st.maxKey = some mk → ∀ y ∈ ys, vle mk (prim y.1) = true

omit [DecidableEq K] in
theorem past_init (prim : K → P) (vle : P → P → Bool) (ys : List (K × S))
    (hs : ys.Pairwise (fun a b => vle (prim a.1) (prim b.1) = true)) :
    Past prim vle ({} : SGB K S P) ys where
  sorted := hs
  past := by intro k hk; cases hk
  gvge := by intro r hr; cases hr
  mkle := by intro mk h; cases h

theorem past_consume (m : Mon S) (prim : K → P) (vle : P → P → Bool) (hv : TotalPreorder vle)
    (st : SGB K S P) (r : K × S) (ys : List (K × S)) (h : Past prim vle st (r :: ys)) :
    Past prim vle (sConsume m prim vle st r) ys := by
  rw [sConsume_eq]
  have hs := List.pairwise_cons.1 h.sorted
  refine ⟨hs.2, ?_, ?_, ?_⟩
  · intro k hk y hy
    exact h.past k hk y (List.mem_cons_of_mem _ hy)
  · intro r' hr'
    rcases supsert_mem m st.table r.1 r.2 _ r' hr' with ⟨r0, h0, hk, hg⟩ | ⟨hk, hg⟩
    · rw [← hk, ← hg]; exact h.gvge r0 h0
    · rw [hk, hg]; exact newMax_ge vle hv _ _
  · intro mk hmk y hy
    simp only [Option.some.injEq] at hmk
    subst hmk
    rcases newMax_cases vle st.maxKey (prim r.1) with e | e
    · rw [e]; exact hs.1 y hy
    · exact h.mkle _ e y (List.mem_cons_of_mem _ hy)

omit [DecidableEq K] in
theorem past_release (prim : K → P) (vle : P → P → Bool) (hv : TotalPreorder vle)
    (st : SGB K S P) (ys : List (K × S)) (h : Past prim vle st ys) :
    Past prim vle (sRelease vle st) ys := by
  unfold sRelease
  cases hmk : st.maxKey with
  | none => exact h
  | some mk =>
    simp only []
    refine ⟨h.sorted, ?_, ?_, ?_⟩
    · intro k hk y hy
      simp only [List.map_append, List.mem_append] at hk
      rcases hk with hk | hk
      · exact h.past k hk y hy
      · simp only [List.map_map, List.mem_map, List.mem_filter, Function.comp_def] at hk
        obtain ⟨r, ⟨hr, hlt⟩, rfl⟩ := hk
        have h1 := h.gvge r hr
        have h2 := h.mkle mk hmk y hy
        simp only [ltOf, Bool.and_eq_true, Bool.not_eq_true'] at hlt ⊢
        refine ⟨hv.trans _ _ _ h1 (hv.trans _ _ _ hlt.1 h2), ?_⟩
        cases h3 : vle (prim y.1) (prim r.key)
        · rfl
        · have := hv.trans _ _ _ h2 (hv.trans _ _ _ h3 h1)
          rw [hlt.2] at this
          cases this
    · intro r hr
      exact h.gvge r (List.mem_filter.1 hr).1
    · intro mk' hmk'
      exact h.mkle mk' (hmk.symm ▸ hmk')

theorem past_foldl_consume (m : Mon S) (prim : K → P) (vle : P → P → Bool) (hv : TotalPreorder vle)
    (b : List (K × S)) (st : SGB K S P) (ys : List (K × S)) (h : Past prim vle st (b ++ ys)) :
    Past prim vle (b.foldl (sConsume m prim vle) st) ys := by
  induction b generalizing st with
  | nil => exact h
  | cons r b ih => exact ih _ (past_consume m prim vle hv st r (b ++ ys) h)

theorem past_batch (m : Mon S) (prim : K → P) (vle : P → P → Bool) (hv : TotalPreorder vle)
    (b : List (K × S)) (st : SGB K S P) (ys : List (K × S)) (h : Past prim vle st (b ++ ys)) :
    Past prim vle (sBatch m prim vle st b) ys :=
  past_release prim vle hv _ ys (past_foldl_consume m prim vle hv b st ys h)

theorem past_batches (m : Mon S) (prim : K → P) (vle : P → P → Bool) (hv : TotalPreorder vle)
    (bs : List (List (K × S))) (st : SGB K S P) (ys : List (K × S))
    (h : Past prim vle st (bs.flatten ++ ys)) :
    Past prim vle (bs.foldl (sBatch m prim vle) st) ys := by
  induction bs generalizing st with
  | nil => exact h
  | cons b bs ih =>
    rw [List.flatten_cons, List.append_assoc] at h
    exact ih _ (past_batch m prim vle hv b st _ h)

theorem ltOf_irrefl (vle : P → P → Bool) (p : P) : ltOf vle p p = false := by
  simp [ltOf]

/-- a released key is strictly below every later input row on the primary key, for every way of
    cutting sorted input into batches `pre ++ post` -/
theorem released_key_is_strictly_past (m : Mon S) (prim : K → P) (vle : P → P → Bool)
    (hv : TotalPreorder vle) (pre post : List (List (K × S)))
    (hsorted : (pre ++ post).flatten.Pairwise (fun a b => vle (prim a.1) (prim b.1) = true)) :
    ∀ k ∈ (pre.foldl (sBatch m prim vle) {}).out.map (·.1), ∀ y ∈ post.flatten,
      ltOf vle (prim k) (prim y.1) = true := by
  rw [List.flatten_append] at hsorted
  exact (past_batches m prim vle hv pre {} post.flatten (past_init prim vle _ hsorted)).past

/-- a released key never occurs in later input (the reason the release is safe) -/
theorem released_key_is_past (m : Mon S) (prim : K → P) (vle : P → P → Bool)
    (hv : TotalPreorder vle) (pre post : List (List (K × S)))
    (hsorted : (pre ++ post).flatten.Pairwise (fun a b => vle (prim a.1) (prim b.1) = true)) :
    ∀ k ∈ (pre.foldl (sBatch m prim vle) {}).out.map (·.1), ∀ y ∈ post.flatten, y.1 ≠ k := by
  intro k hk y hy e
  have := released_key_is_strictly_past m prim vle hv pre post hsorted k hk y hy
  rw [e, ltOf_irrefl] at this
  cases this

/-! ### value part of the invariant -/

/-- `xs` is the input consumed so far -/
structure Agree (m : Mon S) (st : SGB K S P) (xs : List (K × S)) : Prop where
  nodup : ((allRows st).map (·.1)).Nodup
  keys : ∀ k, k ∈ (allRows st).map (·.1) ↔ k ∈ xs.map (·.1)
  tot : ∀ k, total m k (allRows st) = total m k xs

theorem agree_init (m : Mon S) : Agree m ({} : SGB K S P) [] where
  nodup := List.nodup_nil
  keys := by intro k; simp [allRows]
  tot := by intro k; rfl

theorem agree_consume (m : Mon S) (hm : m.CommLaws) (prim : K → P) (vle : P → P → Bool)
    (st : SGB K S P) (xs : List (K × S)) (r : K × S) (h : Agree m st xs)
    (hr : r.1 ∉ st.out.map (·.1)) :
    Agree m (sConsume m prim vle st r) (xs ++ [r]) := by
  rw [sConsume_eq]
  have hn := h.nodup
  have hk := h.keys
  have ht := h.tot
  simp only [allRows, List.map_append, keys_rowsOf] at hn hk
  refine ⟨?_, ?_, ?_⟩
  · simp only [allRows, List.map_append, keys_rowsOf, supsert_keys]
    split
    · exact hn
    · rename_i hnot
      rw [← List.append_assoc]
      refine List.nodup_append.2 ⟨hn, by simp, ?_⟩
      intro a ha b hb
      simp only [List.mem_singleton] at hb
      subst hb
      intro e
      subst e
      rcases List.mem_append.1 ha with ha | ha
      · exact hr ha
      · exact hnot ha
  · intro k
    simp only [allRows, List.map_append, keys_rowsOf, supsert_keys, List.map_cons, List.map_nil,
      List.mem_append, List.mem_singleton]
    have hk' := hk k
    simp only [List.mem_append] at hk'
    split
    · rename_i hin
      constructor
      · intro h1; exact Or.inl (hk'.1 h1)
      · rintro (h1 | h1)
        · exact hk'.2 h1
        · subst h1; exact Or.inr hin
    · simp only [List.mem_append, List.mem_singleton, ← or_assoc, hk']
  · intro k
    have ht' := ht k
    simp only [allRows] at ht' ⊢
    rw [total_append m hm.toLaws] at ht' ⊢
    rw [total_append m hm.toLaws, ← ht', total_supsert m hm]
    simp only [total]
    split
    · rw [hm.right_id, hm.assoc]
    · rw [hm.right_id]

theorem filter_split_perm {α : Type} (p : α → Bool) (l : List α) :
    (l.filter p ++ l.filter (fun a => !p a)).Perm l := by
  induction l with
  | nil => exact List.Perm.refl _
  | cons a l ih =>
    cases h : p a
    · simp only [List.filter_cons, h, Bool.not_false, if_true, Bool.false_eq_true, if_false]
      exact List.perm_middle.trans (List.Perm.cons a ih)
    · simp only [List.filter_cons, h, Bool.not_true, if_true, Bool.false_eq_true, if_false,
        List.cons_append]
      exact List.Perm.cons a ih

omit [DecidableEq K] in
theorem allRows_release_perm (vle : P → P → Bool) (st : SGB K S P) :
    (allRows (sRelease vle st)).Perm (allRows st) := by
  unfold sRelease
  cases st.maxKey with
  | none => exact List.Perm.refl _
  | some mk =>
    simp only [allRows, rowsOf, List.append_assoc, ← List.map_append]
    exact List.Perm.append_left _ ((filter_split_perm _ st.table).map _)

theorem agree_release (m : Mon S) (hm : m.CommLaws) (vle : P → P → Bool)
    (st : SGB K S P) (xs : List (K × S)) (h : Agree m st xs) :
    Agree m (sRelease vle st) xs := by
  have hp := allRows_release_perm vle st
  have hpk := hp.map (fun r : K × S => r.1)
  refine ⟨hpk.nodup_iff.2 h.nodup, ?_, ?_⟩
  · intro k; rw [hpk.mem_iff]; exact h.keys k
  · intro k; rw [total_perm m hm k hp]; exact h.tot k

/-! ### the whole run -/

theorem inv_foldl_consume (m : Mon S) (hm : m.CommLaws) (prim : K → P) (vle : P → P → Bool)
    (hv : TotalPreorder vle) (b : List (K × S)) (st : SGB K S P) (xs ys : List (K × S))
    (ha : Agree m st xs) (hp : Past prim vle st (b ++ ys)) :
    Agree m (b.foldl (sConsume m prim vle) st) (xs ++ b) ∧
      Past prim vle (b.foldl (sConsume m prim vle) st) ys := by
  induction b generalizing st xs with
  | nil => simpa using ⟨ha, hp⟩
  | cons r b ih =>
    have hr : r.1 ∉ st.out.map (·.1) := by
      intro hmem
      have := hp.past r.1 hmem r List.mem_cons_self
      rw [ltOf_irrefl] at this
      cases this
    have := ih (sConsume m prim vle st r) (xs ++ [r])
      (agree_consume m hm prim vle st xs r ha hr) (past_consume m prim vle hv st r (b ++ ys) hp)
    simpa [List.append_assoc] using this

theorem inv_batches (m : Mon S) (hm : m.CommLaws) (prim : K → P) (vle : P → P → Bool)
    (hv : TotalPreorder vle) (bs : List (List (K × S))) (st : SGB K S P) (xs : List (K × S))
    (ha : Agree m st xs) (hp : Past prim vle st bs.flatten) :
    Agree m (bs.foldl (sBatch m prim vle) st) (xs ++ bs.flatten) := by
  induction bs generalizing st xs with
  | nil => simpa using ha
  | cons b bs ih =>
    rw [List.flatten_cons] at hp
    obtain ⟨ha', hp'⟩ := inv_foldl_consume m hm prim vle hv b st xs bs.flatten ha hp
    have := ih (sBatch m prim vle st b) (xs ++ b) (agree_release m hm vle _ _ ha')
      (past_release prim vle hv _ _ hp')
    simpa [List.append_assoc] using this

/-- if the input really is sorted on the primary key (in the declared direction), then for every way of cutting it
    into batches the rows released early are never needed again: the output has exactly one row per distinct key,
    holding the aggregate of exactly that key's rows -/
theorem sorted_release_safe (m : Mon S) (hm : m.CommLaws) (prim : K → P) (vle : P → P → Bool)
    (hv : TotalPreorder vle) (batches : List (List (K × S)))
    (hsorted : batches.flatten.Pairwise (fun a b => vle (prim a.1) (prim b.1) = true)) :
    GroupsAgree m (groupbySorted m prim vle batches) batches.flatten := by
  have h := inv_batches m hm prim vle hv batches {} [] (agree_init m) (past_init prim vle _ hsorted)
  rw [List.nil_append] at h
  show GroupsAgree m (allRows (batches.foldl (sBatch m prim vle) {})) batches.flatten
  refine ⟨h.nodup, h.keys, ?_⟩
  intro k s hks
  rw [← h.tot k]
  exact (total_of_mem_nodup m hm.toLaws k s _ h.nodup hks).symm

/-! ### non-vacuity -/

theorem natLe_totalPreorder : TotalPreorder (fun (a b : Nat) => decide (a ≤ b)) :=
  ⟨fun a b => by simp only [decide_eq_true_eq]; omega,
   fun a b c => by simp only [decide_eq_true_eq]; omega⟩

theorem natAdd_commLaws : (⟨(· + ·), 0⟩ : Mon Nat).CommLaws where
  assoc a b c := Nat.add_assoc a b c
  left_id a := Nat.zero_add a
  right_id a := Nat.add_zero a
  comm a b := Nat.add_comm a b

/-- sorted batches: key 2 spans the first batch boundary, key 3 the second; key 1 is released
    after the first batch, key 2 after the second -/
def exBatches : List (List (Nat × Nat)) := [[(1, 1), (2, 1)], [(2, 1), (3, 1)], [(3, 1)]]

example : GroupsAgree (⟨(· + ·), 0⟩ : Mon Nat)
    (groupbySorted ⟨(· + ·), 0⟩ id (fun a b => decide (a ≤ b)) exBatches) exBatches.flatten :=
  sorted_release_safe _ natAdd_commLaws id _ natLe_totalPreorder exBatches (by decide)

/-- the early release really happens in the example, and the final output is as expected -/
example : (sBatch (⟨(· + ·), 0⟩ : Mon Nat) id (fun a b => decide (a ≤ b)) {} [(1, 1), (2, 1)]).out
    = [(1, 1)] := by decide
example : groupbySorted (⟨(· + ·), 0⟩ : Mon Nat) id (fun a b => decide (a ≤ b)) exBatches
    = [(1, 1), (2, 2), (3, 2)] := by decide

/-! ### the hypothesis is needed -/

/-- the hypothesis is needed: on input that is NOT sorted on the primary key the operator emits a key twice.
    (The real optimizer declares the input sorted when ANY group-by key is the sort key, while the operator
    treats the FIRST key as the sorted one — a confirmed defect; this is its model-level witness.) -/
theorem not_sorted_release_safe_unsorted :
    ∃ (batches : List (List ((Nat × Nat) × Nat))),
      ¬ GroupsAgree (⟨(· + ·), 0⟩ : Mon Nat) (groupbySorted ⟨(· + ·), 0⟩ (fun k => k.1) (fun a b => decide (a ≤ b)) batches) batches.flatten := by
  refine ⟨[[((1, 1), 1), ((2, 1), 1)], [((1, 1), 1), ((1, 2), 1)]], ?_⟩
  intro h
  have hn := h.nodup
  revert hn
  decide

end Zed.Proofs.AggSorted
