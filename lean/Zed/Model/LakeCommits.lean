/-
  L4 — lake model, part 2: the commit store.
  Anchors: lake/commits/object.go (Object{Commit,Parent,Actions}), lake/commits/store.go
  (Store.Snapshot = fold of PlayAction from the root to the leaf, Store.Path / PathRange),
  lake/branch.go commonAncestor.

  Commit objects are write-once under fresh ids.  The store is the list of commit objects
  in creation order; the commit id is the 1-based position (0 = `ksuid.Nil`).  A commit's
  parent is always an older commit, so the root-to-leaf fold of `Store.Snapshot` is
  computed for all commits at once by one left fold over the store (`snapsOf`), and
  likewise the leaf-to-root paths (`pathsOf`).  A parent reference that is not older
  (never produced by the code) yields `badParent`.
-/
import Zed.Model.LakeObjects
namespace Zed.Lake

structure Commit (K : Type) where
  parent : Nat
  acts : List (Action K)
  deriving Repr

variable {K : Type}

/-- snapshot of the parent reference `p` given the snapshots of all older commits -/
def parentSnap (acc : List (Except Err (Snap K))) (p : Nat) : Except Err (Snap K) :=
  if p = 0 then .ok Snap.empty
  else match acc[p - 1]? with
    | some r => r
    | none => .error .badParent

def commitSnap (acc : List (Except Err (Snap K))) (c : Commit K) : Except Err (Snap K) :=
  match parentSnap acc c.parent with
  | .ok s => play s c.acts
  | .error e => .error e

def stepSnaps (acc : List (Except Err (Snap K))) (c : Commit K) : List (Except Err (Snap K)) :=
  acc ++ [commitSnap acc c]

/-- snapshots of all commits of the store (`Store.Snapshot` for every id) -/
def snapsOf (cs : List (Commit K)) : List (Except Err (Snap K)) := cs.foldl stepSnaps []

/-- `Store.Snapshot(ctx, c)`; `c = 0` is the empty snapshot -/
def snapAt (cs : List (Commit K)) (c : Nat) : Except Err (Snap K) := parentSnap (snapsOf cs) c

def parentPath (acc : List (List Nat)) (p : Nat) : List Nat :=
  if p = 0 then [] else (acc[p - 1]?).getD []

def stepPaths (acc : List (List Nat)) (c : Commit K) : List (List Nat) :=
  acc ++ [(acc.length + 1) :: parentPath acc c.parent]

def pathsOf (cs : List (Commit K)) : List (List Nat) := cs.foldl stepPaths []

/-- `Store.Path`: leaf-to-root list of commit ids -/
def pathAt (cs : List (Commit K)) (c : Nat) : List Nat := parentPath (pathsOf cs) c

/-- `lake.commonAncestor(a, b)`: first element of `b` that occurs in `a` (0 = none) -/
def commonAncestor (a b : List Nat) : Nat :=
  match b.find? (a.contains ·) with
  | some id => id
  | none => 0

/-- `Store.PathRange(from, to)`: the prefix of the leaf-to-root path up to and including `to` -/
def pathRange (cs : List (Commit K)) (from_ to : Nat) : List Nat :=
  let p := pathAt cs from_
  match p.findIdx? (· == to) with
  | some i => p.take (i + 1)
  | none => p

def getCommit (cs : List (Commit K)) (c : Nat) : Option (Commit K) :=
  if c = 0 then none else cs[c - 1]?

end Zed.Lake
