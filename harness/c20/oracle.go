package main

// The direct oracle on the real code (S): count/order, uniformity, agreement with the
// fuse() aggregate, leaf-wise losslessness (a joint walk over input and output trees written
// here, independent of the Lean model), spill-invariance.

import (
	"fmt"
	"sort"
	"strings"
)

func sameT(a, b *T) bool { return a.Sexp() == b.Sexp() }

// allNull: the output position carries no information.
func allNull(v *V) bool { return v.Null }

// lossless walks input (it,iv) and output (ot,ov) jointly and returns "" when every
// non-null leaf of the input is found at the same path with the same primitive type and
// bytes, containers keep their lengths, and every output position that does not come from
// the input is null.  Unions and named types are transparent on both sides.
func lossless(it *T, iv *V, ot *T, ov *V, path string) string {
	it, ot = it.Under(), ot.Under()
	if iv.Null {
		if !ov.Null {
			return fmt.Sprintf("at %s: input is null, output is not", path)
		}
		return ""
	}
	if it.K == "u" {
		if iv.K != "u" || iv.Tag >= len(it.Elems) {
			return "harness: ill-typed input union at " + path
		}
		return lossless(it.Elems[iv.Tag], iv.Elems[0], ot, ov, path)
	}
	if ov.Null {
		return fmt.Sprintf("at %s: input value lost (output is null)", path)
	}
	if ot.K == "u" {
		if ov.K != "u" || ov.Tag >= len(ot.Elems) {
			return "ill-typed output union at " + path
		}
		return lossless(it, iv, ot.Elems[ov.Tag], ov.Elems[0], path)
	}
	switch it.K {
	case "p":
		if ot.K != "p" {
			return fmt.Sprintf("at %s: primitive became %s", path, ot.K)
		}
		if ot.ID != it.ID || ov.ID != iv.ID {
			return fmt.Sprintf("at %s: primitive type id %d became %d", path, it.ID, ot.ID)
		}
		if ov.Bytes != iv.Bytes {
			return fmt.Sprintf("at %s: value bytes %s became %s", path, iv.Bytes, ov.Bytes)
		}
		return ""
	case "e", "en":
		// opaque leaves: the same enum / error type and the same body
		if ot.K != it.K {
			return fmt.Sprintf("at %s: primitive became %s", path, ot.K)
		}
		if ot.Sexp() != it.Sexp() || ov.ID != iv.ID {
			return fmt.Sprintf("at %s: primitive type id %d became %d", path, iv.ID, ov.ID)
		}
		if ov.Bytes != iv.Bytes {
			return fmt.Sprintf("at %s: value bytes %s became %s", path, iv.Bytes, ov.Bytes)
		}
		return ""
	case "r":
		if ot.K != "r" {
			return fmt.Sprintf("at %s: record became %s", path, ot.K)
		}
		if len(iv.Elems) != len(it.Fields) || len(ov.Elems) != len(ot.Fields) {
			return "ill-typed record at " + path
		}
		used := make([]bool, len(ot.Fields))
		for i, f := range it.Fields {
			j := -1
			for k, g := range ot.Fields {
				if g.Name == f.Name {
					j = k
					break
				}
			}
			if j < 0 {
				if !deepNull(f.Type, iv.Elems[i]) {
					return fmt.Sprintf("at %s: field %q is missing in the output", path, f.Name)
				}
				continue
			}
			used[j] = true
			if e := lossless(f.Type, iv.Elems[i], ot.Fields[j].Type, ov.Elems[j], path+"."+f.Name); e != "" {
				return e
			}
		}
		for j, g := range ot.Fields {
			if !used[j] && !ov.Elems[j].Null {
				return fmt.Sprintf("at %s: output field %q is not in the input and is not null", path, g.Name)
			}
		}
		return ""
	case "a", "s":
		if ot.K != "a" && ot.K != "s" {
			return fmt.Sprintf("at %s: %s became %s", path, it.K, ot.K)
		}
		if len(iv.Elems) != len(ov.Elems) {
			return fmt.Sprintf("at %s: container length %d became %d", path, len(iv.Elems), len(ov.Elems))
		}
		ii, oi := order(it, iv, it.K == "s" || ot.K == "s"), order(ot, ov, it.K == "s" || ot.K == "s")
		for k := range ii {
			if e := lossless(it.Elems[0], iv.Elems[ii[k]], ot.Elems[0], ov.Elems[oi[k]], fmt.Sprintf("%s[%d]", path, k)); e != "" {
				return e
			}
		}
		return ""
	case "m":
		if ot.K != "m" {
			return fmt.Sprintf("at %s: map became %s", path, ot.K)
		}
		if len(iv.Elems) != len(ov.Elems) {
			return fmt.Sprintf("at %s: map length %d became %d", path, len(iv.Elems)/2, len(ov.Elems)/2)
		}
		ii, oi := orderMap(it, iv), orderMap(ot, ov)
		for k := range ii {
			if e := lossless(it.Elems[0], iv.Elems[2*ii[k]], ot.Elems[0], ov.Elems[2*oi[k]], fmt.Sprintf("%s{key %d}", path, k)); e != "" {
				return e
			}
			if e := lossless(it.Elems[1], iv.Elems[2*ii[k]+1], ot.Elems[1], ov.Elems[2*oi[k]+1], fmt.Sprintf("%s{val %d}", path, k)); e != "" {
				return e
			}
		}
		return ""
	}
	return "harness: unsupported input kind " + it.K
}

// deepNull: the value has no non-null leaf and no non-null container.
func deepNull(t *T, v *V) bool { return v.Null }

// leafString flattens the non-null leaves of a value (unions and names transparent, record
// fields sorted by name) into a string used only to order set elements / map entries the
// same way on both sides.
func leafString(t *T, v *V) string {
	t = t.Under()
	if v.Null {
		return "~"
	}
	switch t.K {
	case "u":
		if v.K != "u" || v.Tag >= len(t.Elems) {
			return "?"
		}
		return leafString(t.Elems[v.Tag], v.Elems[0])
	case "r":
		var parts []string
		for i, f := range t.Fields {
			if i < len(v.Elems) && !v.Elems[i].Null {
				parts = append(parts, f.Name+":"+leafString(f.Type, v.Elems[i]))
			}
		}
		sort.Strings(parts)
		return "{" + strings.Join(parts, ",") + "}"
	case "a", "s":
		var parts []string
		for _, e := range v.Elems {
			parts = append(parts, leafString(t.Elems[0], e))
		}
		// always as a multiset: the string only aligns elements of an unordered container on
		// the two sides, and a set on one side may be an array on the other
		sort.Strings(parts)
		return "[" + strings.Join(parts, ",") + "]"
	case "m":
		var parts []string
		for i := 0; i+1 < len(v.Elems); i += 2 {
			parts = append(parts, leafString(t.Elems[0], v.Elems[i])+"=>"+leafString(t.Elems[1], v.Elems[i+1]))
		}
		sort.Strings(parts)
		return "|{" + strings.Join(parts, ",") + "}|"
	case "p", "e", "en":
		return fmt.Sprintf("%d:%s", v.ID, v.Bytes)
	}
	return "?"
}

func order(t *T, v *V, unordered bool) []int {
	idx := make([]int, len(v.Elems))
	for i := range idx {
		idx[i] = i
	}
	if unordered {
		keys := make([]string, len(v.Elems))
		for i, e := range v.Elems {
			keys[i] = leafString(t.Elems[0], e)
		}
		sort.SliceStable(idx, func(a, b int) bool { return keys[idx[a]] < keys[idx[b]] })
	}
	return idx
}

func orderMap(t *T, v *V) []int {
	n := len(v.Elems) / 2
	idx := make([]int, n)
	keys := make([]string, n)
	for i := range idx {
		idx[i] = i
		keys[i] = leafString(t.Elems[0], v.Elems[2*i]) + "=>" + leafString(t.Elems[1], v.Elems[2*i+1])
	}
	sort.SliceStable(idx, func(a, b int) bool { return keys[idx[a]] < keys[idx[b]] })
	return idx
}

// ---- structural predicates used only to name failure classes narrowly ----------------

func walkT(t *T, f func(*T)) {
	f(t)
	for _, e := range t.Elems {
		walkT(e, f)
	}
	for _, fl := range t.Fields {
		walkT(fl.Type, f)
	}
}

func containsKind(t *T, k string) bool {
	found := false
	walkT(t, func(x *T) {
		if x.K == k {
			found = true
		}
	})
	return found
}

func containsSub(t *T, sub string) bool {
	found := false
	walkT(t, func(x *T) {
		if x.Sexp() == sub {
			found = true
		}
	})
	return found
}

// unionRecordMembers lists (as sexps) the record members of the unions inside t.
func unionRecordMembers(t *T) []string {
	var out []string
	walkT(t, func(x *T) {
		if x.K == "u" {
			for _, m := range x.Elems {
				if m.Under().K == "r" {
					out = append(out, m.Sexp())
				}
			}
		}
	})
	return out
}

// unionMiss walks the input type a and the fused type t jointly and returns the kind ("r",
// "m", "a", "s", "p") of an input component that has to go into a union of the fused type
// but is not one of its members (neither exactly nor up to names) — "" if there is none.
func unionMiss(a, t *T) string {
	au, tu := a.Under(), t.Under()
	if au.K == "p" && au.ID == idNull {
		return ""
	}
	if au.Sexp() == tu.Sexp() {
		return ""
	}
	if au.K == "u" {
		for _, m := range au.Elems {
			if k := unionMiss(m, t); k != "" {
				return k
			}
		}
		return ""
	}
	if tu.K == "u" {
		for _, m := range tu.Elems {
			if m.Under().Sexp() == au.Sexp() {
				return ""
			}
		}
		return au.K
	}
	switch {
	case au.K == "r" && tu.K == "r":
		for _, f := range au.Fields {
			for _, g := range tu.Fields {
				if g.Name == f.Name {
					if k := unionMiss(f.Type, g.Type); k != "" {
						return k
					}
				}
			}
		}
	case (au.K == "a" || au.K == "s") && (tu.K == "a" || tu.K == "s"):
		return unionMiss(au.Elems[0], tu.Elems[0])
	}
	return ""
}

func hasDupUnion(t *T) bool {
	dup := false
	walkT(t, func(x *T) {
		if x.K == "u" {
			seen := map[string]bool{}
			for _, m := range x.Elems {
				s := m.Sexp()
				if seen[s] {
					dup = true
				}
				seen[s] = true
			}
		}
	})
	return dup
}

type finding struct {
	Key  string
	What string
}

// judge applies the property to one run of the real code.  fused is the type reported by
// the fuse() aggregate (nil if it failed).
func judge(ins []In, res realRes, fused *T, aggErr string) []finding {
	var fs []finding
	add := func(k, w string) { fs = append(fs, finding{k, w}) }
	if res.Panic != "" {
		add("C20:panic", "fuse panicked: "+firstLine(res.Panic))
		return fs
	}
	if res.Err != "" {
		add("C20:query-error", "fuse failed: "+res.Err)
		return fs
	}
	if aggErr != "" {
		add("C20:agg-error", "fuse() aggregate failed: "+aggErr)
	}
	if len(res.Outs) != len(ins) {
		add("C20:count", fmt.Sprintf("%d inputs, %d outputs", len(ins), len(res.Outs)))
		return fs
	}
	if len(ins) == 0 {
		return fs
	}
	if fused != nil && hasDupUnion(fused) {
		add("C20:uniform:union-of-identical-types", "the fused type contains a union with two identical members: "+fused.Sexp())
	}
	for i, o := range res.Outs {
		in := ins[i]
		if o.ErrMsg != "" && !(in.T.Under().K == "e") {
			switch {
			case strings.Contains(o.ErrMsg, "cannot yet use maps in shaping functions") && containsKind(in.T, "m"):
				add("C20:lossless:map-reshape", fmt.Sprintf("output %d is error(%q) instead of the shaped input", i, o.ErrMsg))
			case strings.Contains(o.ErrMsg, "createStep: incompatible types") && fused != nil && unionMiss(in.T, fused) != "":
				add("C20:lossless:createStep:reshape-into-union-member:"+unionMiss(in.T, fused), fmt.Sprintf("output %d is error(%q) instead of the shaped input", i, o.ErrMsg))
			default:
				add("C20:lossless:error-value", fmt.Sprintf("output %d is error(%q) instead of the shaped input", i, o.ErrMsg))
			}
			continue
		}
		if fused != nil && !sameT(o.T, fused) {
			switch {
			case in.T.Under().K == "e" && sameT(o.T, in.T) && o.V.Sexp() == in.V.Sexp():
				add("C20:uniform:error-value-passthrough", fmt.Sprintf("output %d is the input error value unchanged (type %s); the fused type is %s", i, o.T.Sexp(), fused.Sexp()))
				continue
			case unionMiss(in.T, fused) != "":
				add("C20:uniform:reshape-into-union-member:"+unionMiss(in.T, fused), fmt.Sprintf("output %d has type %s; the fused type is %s", i, o.T.Sexp(), fused.Sexp()))
			default:
				add("C20:uniform:type-differs", fmt.Sprintf("output %d has type %s; the fuse() aggregate reports %s", i, o.T.Sexp(), fused.Sexp()))
			}
		}
		if i > 0 && !sameT(o.T, res.Outs[0].T) && res.Outs[0].ErrMsg == "" && fused == nil {
			add("C20:uniform:outputs-differ", fmt.Sprintf("outputs 0 and %d have different types", i))
		}
		if e := lossless(in.T, in.V, o.T, o.V, "this"); e != "" {
			add("C20:lossless:"+lossClass(e), fmt.Sprintf("output %d does not carry input %d: %s", i, i, e))
		}
	}
	return fs
}

func lossClass(e string) string {
	switch {
	case strings.Contains(e, "input is null, output is not"):
		return "null-became-value"
	case strings.Contains(e, "input value lost"):
		return "value-lost"
	case strings.Contains(e, "primitive type id"), strings.Contains(e, "primitive became"):
		return "leaf-type-changed"
	case strings.Contains(e, "value bytes"):
		return "leaf-value-changed"
	case strings.Contains(e, "is missing in the output"):
		return "field-dropped"
	case strings.Contains(e, "is not in the input and is not null"):
		return "spurious-value"
	case strings.Contains(e, "length"):
		return "container-length"
	case strings.Contains(e, "became"):
		return "kind-changed"
	}
	return "other"
}
