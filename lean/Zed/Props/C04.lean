/-
  C04 — query results do not depend on the physical encoding of the input.  Property theorems
  only.

  What can differ between encodings is what the binary (ZNG) scanner does before the runtime
  sees a value: it evaluates a *buffer filter* on the raw bytes of each frame and drops the frame
  when the filter says false (zio/zngio/scanner.go scanBatch).  The doc comment of
  `CompileBufferFilter` states the obligation: the buffer filter must be true for every frame
  holding a value the real filter accepts.  Model: `Zed.Bf.compile` / `BufFilter.eval`
  (lean/Zed/Model/BfFilter.lean) against `evalFilter` over typed value trees with their zcode
  serialisation and the evaluator's `Walk` (lean/Zed/Model/BfEval.lean); both are tied to the Go
  code by the differential harness on generated frames.
-/
import Zed.Proofs.BfLemmas
namespace Zed.Props.C04
open Zed.Bf
open Zed.Opt (Expr)

/-- some value of the frame makes the filter true. -/
def Accepts (lits : Lits) (atoms : Atoms) (ctx : Ctx) (e : Expr) (frame : List (Nat × Val)) : Prop :=
  ∃ m ∈ frame, ∃ t, ctx m.1 = some t ∧ evalFilter lits atoms e t m.2 = .tt

private theorem forString_some {pat : Bytes} {bf : BufFilter} (h : forString pat = some bf) : bf = .string pat := by
  unfold forString at h; split at h <;> simp_all

private theorem forLiteral_some {lit : Lit} {bf : BufFilter} (h : forLiteral lit = some bf) :
    bf = .string (enc lit.val) ∧ ∀ id, under lit.ty = .prim id → (isNumberId id || id == idNull) = false := by
  unfold forLiteral at h
  split at h
  · rename_i id hu
    split at h
    · simp at h
    · rename_i hn
      refine ⟨forString_some h, ?_⟩
      intro id' hid
      rw [hu] at hid; cases hid; simpa using hn
  · rename_i hu
    exact ⟨forString_some h, fun id hid => absurd hid (hu id)⟩

private theorem litEq_val {lt : Ty} {lv : Val} {t : Ty} {v : Val} (h : litEq lt lv t v = true) : lv = v := by
  simp only [litEq, Bool.and_eq_true, beq_iff_eq] at h; exact h.1.2

private theorem eqPath_sound (lit : Lit) (t : Ty) (v : Val) (p : List Bytes)
    (h : withField t v p (fun ft fv => ofBool (litEq lit.ty lit.val ft fv)) = Tri.tt) :
    Infix (enc lit.val) (enc v) := by
  obtain ⟨ft, fv, hg, hk⟩ := withField_tt h
  have := litEq_val (ofBool_eq_tt hk)
  rw [this]; exact getPath_infix p t v ft fv hg

private theorem inPath_sound (lit : Lit) (t : Ty) (v : Val) (p : List Bytes)
    (h : withField t v p (fun ft fv => ofBool (inEval lit.ty lit.val ft fv)) = Tri.tt) :
    Infix (enc lit.val) (enc v) := by
  obtain ⟨ft, fv, hg, hk⟩ := withField_tt h
  have hin := ofBool_eq_tt hk
  unfold inEval at hin
  obtain ⟨t', v', hv, hi⟩ := walkAny_infix ft _ false fv hin
  have := litEq_val hv
  rw [this]; exact hi.trans (getPath_infix p t v ft fv hg)

/-- `field == literal` / `literal in field` true on a value: the literal's tagged bytes occur in
    the value's serialisation. -/
theorem eq_in_sound (lits : Lits) (atoms : Atoms) (op : String) (l r : Expr) (lit : Lit) (bf : BufFilter)
    (hf : fieldEqualOrIn lits op l r = some lit) (hb : forLiteral lit = some bf)
    (t : Ty) (v : Val) (he : evalFilter lits atoms (.bin op l r) t v = .tt) :
    bf = .string (enc lit.val) ∧ Infix (enc lit.val) (enc v) := by
  obtain ⟨hbf, hnum⟩ := forLiteral_some hb
  refine ⟨hbf, ?_⟩
  unfold fieldEqualOrIn at hf
  split at hf
  · -- this p == lit lv
    rename_i p lv
    split at hf
    · rename_i hop
      have hop' : op = "==" := by simpa using hop
      subst hop'
      simp only [evalFilter, hf] at he
      rw [if_neg (by decide), if_neg (by decide)] at he
      split at he
      · rename_i id hu
        rw [if_neg (by simp [hnum id hu])] at he
        exact eqPath_sound lit t v _ he
      · exact eqPath_sound lit t v _ he
    · simp at hf
  · -- lit lv in this p
    rename_i lv p
    split at hf
    · rename_i hop
      have hop' : op = "in" := by simpa using hop
      subst hop'
      split at hf
      · rename_i lit' hl
        split at hf
        · simp at hf
        · simp only [Option.some.injEq] at hf
          subst hf
          simp only [evalFilter, hl] at he
          rw [if_neg (by decide), if_neg (by decide)] at he
          split at he
          · rename_i id hu
            rw [if_neg (by simp [hnum id hu])] at he
            exact inPath_sound lit' t v _ he
          · exact inPath_sound lit' t v _ he
      · simp at hf
    · simp at hf
  · simp at hf

private theorem forStringCase_some {pat : Bytes} {bf : BufFilter} (h : forStringCase pat = some bf) : bf = .stringCase pat := by
  unfold forStringCase at h
  split at h
  · simp at h
  · split at h
    · simpa using h.symm
    · simp at h

private theorem stringCase_eval_of_infix (ctx : Ctx) (frame : List (Nat × Val)) (term : Bytes) (m : Nat × Val)
    (hm : m ∈ frame) (h : findBy foldEq term (enc m.2) = true) :
    (BufFilter.stringCase term).eval ctx frame (encFrame frame) = true := by
  simp only [BufFilter.eval, findBy_lower]
  exact findBy_infix foldEq term (encFrame_infix frame m hm) h

private theorem string_eval_of_infix (ctx : Ctx) (frame : List (Nat × Val)) (pat : Bytes) (m : Nat × Val)
    (hm : m ∈ frame) (h : Infix pat (enc m.2)) :
    (BufFilter.string pat).eval ctx frame (encFrame frame) = true := by
  simp only [BufFilter.eval]
  exact findBy_infix byteEq pat (h.trans (encFrame_infix frame m hm)) (findBy_self byteEq (by simp [byteEq]) pat)

/-- a keyword / literal search over `this` or a field path. -/
theorem search_sound (lits : Lits) (atoms : Atoms) (ctx : Ctx) (frame : List (Nat × Val))
    (text value : String) (p : Zed.Opt.Path) (bf : BufFilter)
    (hc : compile lits (.search text value (.this p)) = some bf)
    (m : Nat × Val) (hm : m ∈ frame) (t : Ty) (ht : ctx m.1 = some t)
    (he : evalFilter lits atoms (.search text value (.this p)) t m.2 = .tt) :
    bf.eval ctx frame (encFrame frame) = true := by
  simp only [compile] at hc
  split at hc
  · simp at hc
  · rename_i lit hl
    simp only [evalFilter, hl] at he
    obtain ⟨ft, fv, hg, he⟩ := withSearched_tt he
    split at hc
    · rename_i id hu
      simp only [hu] at he
      split at hc
      · simp at hc
      · rename_i hnet
        rw [if_neg hnet] at he
        split at hc
        · -- string literal: case finder or field-name finder
          rename_i hstr
          rw [if_pos hstr] at he
          split at hc
          · simp at hc
          · rename_i left hl'
            simp only [Option.some.injEq] at hc
            subst hc
            have hleft := forStringCase_some hl'
            subst hleft
            have hev := ofBool_eq_tt he
            simp only [BufFilter.eval, Bool.or_eq_true]
            rcases searchString_sound (primBytes lit.val) ft fv hev with h1 | h1
            · exact Or.inr (fieldNameFind_of_mem ctx _ frame m t hm ht
                (getPath_match _ (pathBytes p) t m.2 ft fv hg h1))
            · left
              have := stringCase_eval_of_infix ctx frame (primBytes lit.val) m hm
                (findBy_infix foldEq _ (getPath_infix _ t m.2 ft fv hg) h1)
              simpa [BufFilter.eval] using this
        · -- another primitive literal: text in a string leaf, or a leaf equal to the literal
          rename_i hstr
          rw [if_neg hstr] at he
          split at hc
          · rename_i left right hl' hr'
            simp only [Option.some.injEq] at hc
            subst hc
            have hleft := forStringCase_some hl'
            subst hleft
            obtain ⟨hright, hnum⟩ := forLiteral_some hr'
            subst hright
            have hn : isNumberId id = false := by
              have := hnum id hu
              simp only [Bool.or_eq_false_iff] at this; exact this.1
            rw [if_neg (by simp [hn])] at he
            have hev := ofBool_eq_tt he
            unfold searchLitEval at hev
            obtain ⟨t', v', hv, hi⟩ := walkAny_infix ft _ false fv hev
            simp only [BufFilter.eval, Bool.or_eq_true]
            simp only [Bool.or_eq_true] at hv
            rcases hv with hv | hv
            · left
              split at hv
              · rename_i id' bs
                simp only [Bool.and_eq_true] at hv
                have h1 : findBy foldEq text.toUTF8.toList (enc (.prim bs)) = true :=
                  findBy_infix foldEq _ (enc_prim_infix bs) hv.2
                have := stringCase_eval_of_infix ctx frame text.toUTF8.toList m hm
                  (findBy_infix foldEq _ (hi.trans (getPath_infix _ t m.2 ft fv hg)) h1)
                simpa [BufFilter.eval] using this
              · simp at hv
            · right
              have hlv := litEq_val hv
              have := string_eval_of_infix ctx frame (enc lit.val) m hm
                (by rw [hlv]; exact hi.trans (getPath_infix _ t m.2 ft fv hg))
              simpa [BufFilter.eval] using this
          · simp at hc
    · simp at hc

/-- The over-approximation, by induction over the filter expression. -/
theorem compile_sound (lits : Lits) (atoms : Atoms) (ctx : Ctx) (frame : List (Nat × Val)) :
    ∀ (e : Expr) (bf : BufFilter), compile lits e = some bf →
      Accepts lits atoms ctx e frame → bf.eval ctx frame (encFrame frame) = true
  | .bin op l r, bf, hc, ⟨m, hm, t, ht, he⟩ => by
    simp only [compile] at hc
    split at hc
    · rename_i lit hf
      obtain ⟨hbf, hi⟩ := eq_in_sound lits atoms op l r lit bf hf hc t m.2 he
      subst hbf
      exact string_eval_of_infix ctx frame _ m hm hi
    · split at hc
      · rename_i hop
        have hop' : op = "and" := by simpa using hop
        subst hop'
        simp only [evalFilter] at he
        rw [if_pos (by decide)] at he
        obtain ⟨hl, hr⟩ := Tri.and_eq_tt he
        split at hc
        · exact compile_sound lits atoms ctx frame r bf hc ⟨m, hm, t, ht, hr⟩
        · exact compile_sound lits atoms ctx frame l bf hc ⟨m, hm, t, ht, hl⟩
        · rename_i a b ha hb
          simp only [Option.some.injEq] at hc
          subst hc
          simp only [BufFilter.eval, Bool.and_eq_true]
          exact ⟨compile_sound lits atoms ctx frame l a ha ⟨m, hm, t, ht, hl⟩,
                 compile_sound lits atoms ctx frame r b hb ⟨m, hm, t, ht, hr⟩⟩
      · split at hc
        · rename_i hop1 hop
          have hop' : op = "or" := by simpa using hop
          subst hop'
          simp only [evalFilter] at he
          rw [if_neg (by decide), if_pos (by decide)] at he
          split at hc
          · rename_i a b ha hb
            simp only [Option.some.injEq] at hc
            subst hc
            simp only [BufFilter.eval, Bool.or_eq_true]
            rcases Tri.or_eq_tt he with h | h
            · exact Or.inl (compile_sound lits atoms ctx frame l a ha ⟨m, hm, t, ht, h⟩)
            · exact Or.inr (compile_sound lits atoms ctx frame r b hb ⟨m, hm, t, ht, h⟩)
          · simp at hc
        · simp at hc
  | .search text value e', bf, hc, ⟨m, hm, t, ht, he⟩ => by
    cases e' with
    | this p => exact search_sound lits atoms ctx frame text value p bf hc m hm t ht he
    | _ => simp [compile] at hc
  | .this _, _, hc, _ | .lit _, _, hc, _ | .un _ _, _, hc, _ | .call .., _, hc, _
  | .rmatch .., _, hc, _ | .rsearch .., _, hc, _ | .dot .., _, hc, _ | .record _, _, hc, _
  | .map _, _, hc, _ | .agg .., _, hc, _ | .none, _, hc, _ | .x .., _, hc, _ => by
    simp [compile] at hc

/-- The statement of the doc comment of `CompileBufferFilter`, at full strength: for every filter
    expression `e`, every literal table, every interpretation of the predicates the model does not
    look into, every type context and every frame,
      `(∃ v ∈ frame, evalFilter e v = true) → bufferFilter (compile e) frame = true`.
    (Before the fixes 2b0afda63 — FieldNameFinder descends into arrays, sets, maps, unions and
    errors — and 51d3101c2 — no buffer filter for a search over a computed operand — the statement
    was false in exactly these two ways; the witnesses are kept below as regression examples and
    in the harness.) -/
theorem bufferfilter_overapprox (lits : Lits) (atoms : Atoms) (ctx : Ctx) (e : Expr)
    (frame : List (Nat × Val)) (h : Accepts lits atoms ctx e frame) :
    bufferFilter ctx (compile lits e) frame = true := by
  unfold bufferFilter
  split
  · rfl
  · rename_i f hc
    exact compile_sound lits atoms ctx frame e f hc h

/-- what the scanner delivers for one frame: nothing when the buffer filter says false, else the
    values the filter accepts. -/
def accepts1 (lits : Lits) (atoms : Atoms) (ctx : Ctx) (e : Expr) (m : Nat × Val) : Bool :=
  match ctx m.1 with
  | some t => evalFilter lits atoms e t m.2 == .tt
  | none => false

def scanFrame (lits : Lits) (atoms : Atoms) (ctx : Ctx) (e : Expr) (fr : List (Nat × Val)) : List (Nat × Val) :=
  if bufferFilter ctx (compile lits e) fr then fr.filter (accepts1 lits atoms ctx e) else []

/-- Scanning framed values with the pushed-down filter delivers exactly the accepted values,
    however the values are cut into frames (frame threshold, end-of-stream positions, compression
    do not matter: only the partition into frames does). -/
theorem pushdown_equiv (lits : Lits) (atoms : Atoms) (ctx : Ctx) (e : Expr)
    (frames : List (List (Nat × Val))) :
    frames.flatMap (scanFrame lits atoms ctx e) = frames.flatten.filter (accepts1 lits atoms ctx e) := by
  induction frames with
  | nil => rfl
  | cons fr rest ih =>
    simp only [List.flatMap_cons, List.flatten_cons, List.filter_append]
    rw [ih]
    congr 1
    unfold scanFrame
    split
    · rfl
    · rename_i hb
      symm
      rw [List.filter_eq_nil_iff]
      intro m hm hacc
      apply hb
      apply bufferfilter_overapprox lits atoms ctx e fr
      unfold accepts1 at hacc
      split at hacc
      · rename_i t ht
        exact ⟨m, hm, t, ht, by simpa using hacc⟩
      · simp at hacc

/-! ## the two former counterexamples (fixed by 2b0afda63 and 51d3101c2), as regression examples -/

def fooBytes : Bytes := [102, 111, 111]      -- "foo"

def witLits : Lits := fun s => if s == "\"foo\"" then some ⟨.prim idString, .prim fooBytes⟩ else none

/-- `{a:[{foo:1}]}` -/
def witTy : Ty := .record (.cons [97] (.array (.record (.cons fooBytes (.prim 9) .nil))) .nil)
def witVal : Val := .cont (.cons (.cont (.cons (.cont (.cons (.prim [2]) .nil)) .nil)) .nil)
def witCtx : Ctx := fun id => if id == 30 then some witTy else none
def witFrame : List (Nat × Val) := [(30, witVal)]
def witSearch : Expr := .search "foo" "\"foo\"" (.this [])

/-- `search foo` over `{a:[{foo:1}]}`: the evaluator matches through the field name inside the
    array, and the buffer filter now lets the frame through. -/
theorem fieldname_under_array_passes :
    Accepts witLits (fun _ _ _ => .ff) witCtx witSearch witFrame ∧
    bufferFilter witCtx (compile witLits witSearch) witFrame = true := by
  refine ⟨⟨(30, witVal), by simp [witFrame], witTy, by simp [witCtx], by decide⟩, by decide⟩

/-- non-vacuity of `bufferfilter_overapprox`: its hypothesis holds for that witness. -/
example : Accepts witLits (fun _ _ _ => .ff) witCtx witSearch witFrame := fieldname_under_array_passes.1

/-- `grep("ab", s+t)`: a search over a computed operand has no buffer filter. -/
theorem computed_search_has_no_bufferfilter (lits : Lits) (text value kind json : String) :
    compile lits (.search text value (.x kind json)) = none := by
  simp [compile]

end Zed.Props.C04
