/-
  Model of VNG column shredding and of the row-reconstructing reader (C03).
  Anchors: vng/encoder.go NewEncoder; vng/{record,array,map,union,dynamic}.go (encoders,
           Metadata, builders); vng/builder.go NewBuilder; vng/metadata.go (Len, Type);
           vng/dynamic.go NewZedReader / vectorBuilder / dynamicBuilder.

  Every encoder is modelled as a pure function of the list of bodies written to it; the
  result (`Col`) is the metadata tree with the decoded contents of its segments.  The
  builders are modelled reading a column to exhaustion (`dec`), the number of `Build` calls
  of a `NullsBuilder` being `Nulls.Len()` as in the code.

  Parameters (identity in the model, listed in the trusted base): LZ4 segments, the ZNG
  marshalling of the metadata, the int64 codec of run / length / tag vectors (`List Nat`
  here), and the counted-varint tag inside a union body (`Val.union tag v` here).
-/
import Zed.Model.VngNulls
import Zed.Model.VngPrimitive
namespace Zed.Vng
open Zed.Generated.C03

/-! ### Values and types -/

mutual
/-- A zcode body as the encoders see it.  `union tag v` is the container `[tag, v]`. -/
inductive Val where
  | null
  | prim (b : Bytes)
  | cont (xs : Vals)
  | union (tag : Nat) (v : Val)
  deriving Repr
inductive Vals where
  | nil
  | cons (v : Val) (vs : Vals)
  deriving Repr
end

deriving instance DecidableEq for Val, Vals

def Vals.toList : Vals → List Val
  | .nil => []
  | .cons v vs => v :: vs.toList

def Vals.ofList : List Val → Vals
  | [] => .nil
  | v :: vs => .cons v (Vals.ofList vs)

/-- items of a container body (`body.Iter()`); `[]` for anything else. -/
def Val.items : Val → List Val
  | .cont xs => xs.toList
  | _ => []

def Val.isNull : Val → Bool
  | .null => true
  | _ => false

def Val.toOpt : Val → Option Val
  | .null => none
  | v => some v

def Val.ofOpt : Option Val → Val
  | none => .null
  | some v => v

def Val.primBytes : Val → Bytes
  | .prim b => b
  | _ => []

def Val.utag : Val → Nat
  | .union t _ => t
  | _ => 0

def Val.uval : Val → Val
  | .union _ v => v
  | _ => .null

mutual
inductive Ty where
  | prim (id : Nat)
  | enum (syms : List Bytes)
  | record (fs : Fields)
  | array (t : Ty)
  | set (t : Ty)
  | map (k v : Ty)
  | union (ts : Tys)
  | named (name : Bytes) (t : Ty)
  | error (t : Ty)
  deriving Repr
inductive Fields where
  | nil
  | cons (name : Bytes) (t : Ty) (rest : Fields)
  deriving Repr
inductive Tys where
  | nil
  | cons (t : Ty) (rest : Tys)
  deriving Repr
end

deriving instance DecidableEq for Ty, Fields, Tys

def Tys.length : Tys → Nat
  | .nil => 0
  | .cons _ r => r.length + 1

def Tys.get? : Tys → Nat → Option Ty
  | .nil, _ => none
  | .cons t _, 0 => some t
  | .cons _ r, n + 1 => r.get? n

def Fields.length : Fields → Nat
  | .nil => 0
  | .cons _ _ r => r.length + 1

/-- key / value items of a map body (`it.Next()` alternately). -/
def evens : List Val → List Val
  | [] => []
  | [a] => [a]
  | a :: _ :: r => a :: evens r

def odds : List Val → List Val
  | [] => []
  | [_] => []
  | _ :: b :: r => b :: odds r

/-! ### Well-formedness of a body for a type (`Value.Validate`) -/

mutual
def conforms : Ty → Val → Bool
  | .named _ t, v => conforms t v
  | .error t, v => conforms t v
  | .prim id, .prim _ => id != 29          -- a value of type null is always null
  | .prim _, .null => true
  | .enum _, .prim _ => true
  | .enum _, .null => true
  | .record _, .null => true
  | .record fs, .cont xs => conformsRow fs xs.toList
  | .array _, .null => true
  | .array t, .cont xs => xs.toList.all (conforms t)
  | .set _, .null => true
  | .set t, .cont xs => xs.toList.all (conforms t)
  | .map _ _, .null => true
  | .map k v, .cont xs =>
    xs.toList.length % 2 == 0 && (evens xs.toList).all (conforms k) && (odds xs.toList).all (conforms v)
  | .union _, .null => true
  | .union ts, .union tag v => conformsTag ts tag v
  | _, _ => false
def conformsRow : Fields → List Val → Bool
  | .nil, [] => true
  | .cons _ t rest, x :: xs => conforms t x && conformsRow rest xs
  | _, _ => false
def conformsTag : Tys → Nat → Val → Bool
  | .nil, _, _ => false
  | .cons t _, 0, v => conforms t v
  | .cons _ rest, n + 1, v => conformsTag rest n v
end

/-! ### Columns: the metadata tree with the contents of its segments -/

mutual
inductive Col where
  | prim (t : Ty) (p : PCol)                                   -- vng.Primitive / vng.Const
  | nulls (runs : List Nat) (count : Nat) (inner : Col)         -- vng.Nulls
  | record (len : Nat) (fs : FCols)                             -- vng.Record
  | array (len : Nat) (lengths : List Nat) (vals : Col)         -- vng.Array
  | set (len : Nat) (lengths : List Nat) (vals : Col)           -- vng.Set
  | map (len : Nat) (lengths : List Nat) (keys vals : Col)      -- vng.Map
  | union (len : Nat) (tags : List Nat) (vals : Cols)           -- vng.Union
  | named (name : Bytes) (c : Col)                              -- vng.Named
  | error (c : Col)                                             -- vng.Error
  deriving Repr
inductive FCols where
  | nil
  | cons (name : Bytes) (c : Col) (rest : FCols)
  deriving Repr
inductive Cols where
  | nil
  | cons (c : Col) (rest : Cols)
  deriving Repr
end

deriving instance DecidableEq for Col, FCols, Cols

def Cols.toList : Cols → List Col
  | .nil => []
  | .cons c r => c :: r.toList

/-- the values a `NullsEncoder` passes on to the encoder it wraps. -/
def nonNull (vs : List Val) : List Val := vs.filterMap Val.toOpt

/-- `NullsEncoder.Metadata`: the `Nulls` node is omitted when no null was written. -/
def nullsWrap (vs : List Val) (c : Col) : Col :=
  let nc := nullsEncode (vs.map Val.toOpt)
  if nc.count = 0 then c else .nulls nc.runs nc.count c

/-- `it.Next()` on a record body: the next item (null when the body is exhausted). -/
def headV : List Val → Val
  | [] => .null
  | v :: _ => v

/-- the bodies a `UnionEncoder` / `DynamicEncoder` routes to its `k`-th child. -/
def partitionBy {α : Type} (k : Nat) (ps : List (Nat × α)) : List α :=
  (ps.filter fun p => p.1 == k).map (·.2)

/-- id for the dictionary exclusion test: `typ.ID()` (enums have a complex-type id ≥ 30). -/
def leafID : Ty → Nat
  | .prim id => id
  | _ => 30

mutual
/-- `NewEncoder(typ)` fed with the bodies `vs`, after `Encode` and `Metadata`. -/
def enc : Ty → List Val → Col
  | .named n t, vs => .named n (enc t vs)
  | .error t, vs => .error (enc t vs)
  | .prim id, vs =>
    nullsWrap vs (.prim (.prim id) (primEncode id true ((nonNull vs).map Val.primBytes)))
  | .enum syms, vs =>
    nullsWrap vs (.prim (.enum syms) (primEncode 30 true ((nonNull vs).map Val.primBytes)))
  | .record fs, vs =>
    nullsWrap vs (.record (nonNull vs).length (encFields fs ((nonNull vs).map Val.items)))
  | .array t, vs =>
    nullsWrap vs (.array (nonNull vs).length ((nonNull vs).map fun v => v.items.length)
      (enc t ((nonNull vs).flatMap Val.items)))
  | .set t, vs =>
    nullsWrap vs (.set (nonNull vs).length ((nonNull vs).map fun v => v.items.length)
      (enc t ((nonNull vs).flatMap Val.items)))
  | .map k v, vs =>
    nullsWrap vs (.map (nonNull vs).length ((nonNull vs).map fun x => (odds x.items).length)
      (enc k ((nonNull vs).flatMap fun x => evens x.items))
      (enc v ((nonNull vs).flatMap fun x => odds x.items)))
  | .union ts, vs =>
    nullsWrap vs (.union (nonNull vs).length ((nonNull vs).map Val.utag)
      (encTys ts 0 ((nonNull vs).map fun x => (x.utag, x.uval))))
/-- `RecordEncoder`: field `i` receives the `i`-th item of every row. -/
def encFields : Fields → List (List Val) → FCols
  | .nil, _ => .nil
  | .cons n t rest, rows => .cons n (enc t (rows.map headV)) (encFields rest (rows.map List.tail))
/-- `UnionEncoder`: child `k` receives the inner bodies tagged `k`. -/
def encTys : Tys → Nat → List (Nat × Val) → Cols
  | .nil, _, _ => .nil
  | .cons t rest, k, ps => .cons (enc t (partitionBy k ps)) (encTys rest (k + 1) ps)
end

/-! ### Metadata.Len / Metadata.Type -/

def colLen : Col → Nat
  | .prim _ p => p.len
  | .nulls _ count inner => count + colLen inner
  | .record len _ => len
  | .array len _ _ => len
  | .set len _ _ => len
  | .map len _ _ _ => len
  | .union len _ _ => len
  | .named _ c => colLen c
  | .error c => colLen c

mutual
def colType : Col → Ty
  | .prim t _ => t
  | .nulls _ _ inner => colType inner
  | .record _ fs => .record (fcolTypes fs)
  | .array _ _ vals => .array (colType vals)
  | .set _ _ vals => .set (colType vals)
  | .map _ _ keys vals => .map (colType keys) (colType vals)
  | .union _ _ vals => .union (colTypes vals)
  | .named n c => .named n (colType c)
  | .error c => .error (colType c)
def fcolTypes : FCols → Fields
  | .nil => .nil
  | .cons n c rest => .cons n (colType c) (fcolTypes rest)
def colTypes : Cols → Tys
  | .nil => .nil
  | .cons c rest => .cons (colType c) (colTypes rest)
end

/-! ### Builders (row path), reading a column to exhaustion -/

/-- `ArrayBuilder.Build` repeated: cut `elems` into pieces of the given lengths. -/
def splitLens : List Nat → List Val → Option (List (List Val))
  | [], _ => some []
  | n :: ns, elems =>
    if elems.length < n then none
    else (splitLens ns (elems.drop n)).map (elems.take n :: ·)

/-- `MapBuilder.Build`: key and value alternately. -/
def interleaveKV : List Val → List Val → List Val
  | k :: ks, v :: vs => k :: v :: interleaveKV ks vs
  | _, _ => []

/-- `UnionBuilder.Build` / `dynamicBuilder.Read` repeated: each tag pops the next value of
    its child.  `none`: bad tag or exhausted child. -/
def mergeTags {α : Type} : List Nat → List (List α) → Option (List (Nat × α))
  | [], _ => some []
  | t :: ts, cols =>
    match cols[t]? with
    | none => none
    | some [] => none
    | some (a :: r) => (mergeTags ts (cols.set t r)).map ((t, a) :: ·)

mutual
def dec : Col → Option (List Val)
  | .prim _ p => p.build.map (·.map Val.prim)
  | .nulls runs count inner =>
    match dec inner with
    | none => none
    | some vals =>
      (nullsBuild (count + colLen inner) nullsBuilderInitialNull 0 runs vals).map (·.map Val.ofOpt)
  | .record len fs => (decFields fs len).map (·.map fun r => Val.cont (Vals.ofList r))
  | .array _ lengths vals =>
    match dec vals with
    | none => none
    | some elems => (splitLens lengths elems).map (·.map fun r => Val.cont (Vals.ofList r))
  | .set _ lengths vals =>
    match dec vals with
    | none => none
    | some elems => (splitLens lengths elems).map (·.map fun r => Val.cont (Vals.ofList r))
  | .map _ lengths keys vals =>
    match dec keys, dec vals with
    | some ks, some vs =>
      match splitLens lengths ks, splitLens lengths vs with
      | some kss, some vss =>
        some (List.zipWith (fun a b => Val.cont (Vals.ofList (interleaveKV a b))) kss vss)
      | _, _ => none
    | _, _ => none
  | .union _ tags vals =>
    match decCols vals with
    | none => none
    | some cols => (mergeTags tags cols).map (·.map fun p => Val.union p.1 p.2)
  | .named _ c => dec c
  | .error c => dec c
/-- `RecordBuilder.Build` repeated `n` times: rows of the field columns. -/
def decFields : FCols → Nat → Option (List (List Val))
  | .nil, n => some (List.replicate n [])
  | .cons _ c rest, n =>
    match dec c, decFields rest n with
    | some col, some rows =>
      if col.length = n then some (List.zipWith (· :: ·) col rows) else none
    | _, _ => none
def decCols : Cols → Option (List (List Val))
  | .nil => some []
  | .cons c rest =>
    match dec c, decCols rest with
    | some col, some cols => some (col :: cols)
    | _, _ => none
end

/-! ### Top level: DynamicEncoder / NewZedReader -/

/-- What `DynamicEncoder.Encode` returns: the single child's metadata when exactly one type
    was written, a `Dynamic` node otherwise (also for zero types). -/
inductive Top where
  | single (c : Col)
  | dynamic (tags : List Nat) (vals : List Col) (len : Nat)
  deriving Repr, DecidableEq

/-- `d.which`: types in first-seen order. -/
def seenTypes : List Ty → List (Ty × Val) → List Ty
  | seen, [] => seen
  | seen, (t, _) :: r => if seen.contains t then seenTypes seen r else seenTypes (seen ++ [t]) r

def tagOf (types : List Ty) (t : Ty) : Nat := types.findIdx (· == t)

/-- one encoder per seen type; encoder `k` receives the bodies tagged `k`. -/
def encTypes : List Ty → Nat → List (Nat × Val) → List Col
  | [], _, _ => []
  | t :: rest, k, ps => enc t (partitionBy k ps) :: encTypes rest (k + 1) ps

def encTop (vs : List (Ty × Val)) : Top :=
  let types := seenTypes [] vs
  let tagged := vs.map fun p => (tagOf types p.1, p.2)
  match encTypes types 0 tagged with
  | [c] => .single c
  | cols => .dynamic (tagged.map (·.1)) cols vs.length

def decAll : List Col → Option (List (List Val))
  | [] => some []
  | c :: rest =>
    match dec c, decAll rest with
    | some col, some cols => some (col :: cols)
    | _, _ => none

/-- `vectorBuilder.Read` (count = `meta.Len()`) / `dynamicBuilder.Read` until the tags end. -/
def readRows : Top → Option (List (Ty × Val))
  | .single c =>
    match dec c with
    | none => none
    | some vals => if vals.length = colLen c then some (vals.map fun v => (colType c, v)) else none
  | .dynamic tags cols _ =>
    match decAll cols with
    | none => none
    | some dcols =>
      (mergeTags tags dcols).map (·.map fun p => ((cols[p.1]?.map colType).getD (.prim 29), p.2))

end Zed.Vng
