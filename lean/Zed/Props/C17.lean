import Zed.Model.BranchCommit
namespace Zed.Props.C17
end Zed.Props.C17
