/-
  Aggregate functions as (init, step, partial, combine, result)  — layer L3 of DESIGN §4,
  shared by C10 and C08.
  Anchors: runtime/sam/expr/agg/*.go (Function = Consume / ConsumeAsPartial / Result /
  ResultAsPartial), runtime/sam/expr/agg.go (Aggregator.Apply: where-clause, missing skipped).

  An aggregate is modelled by a carrier `M` with a binary operation and a unit (`Mon M`) and
  an embedding `f : input value → M`:
      newFunction            = e
      Consume v              = state • f v
      ResultAsPartial        = state            (the partial value carries the whole state)
      ConsumeAsPartial p     = state • p
      Result                 = a projection of the state (printed by the driver)
  The laws (associativity, commutativity, unit) are *not* part of this file: they are proved
  per instance in Zed/Props/C10.lean, and the generic theorems there take them as hypotheses.

  Numbers: the accumulator of sum/min/max/avg is carried as an exact integer (the value
  scaled by `scale`, so that dyadic rationals k/8 are integers).  This is the real code's
  behaviour on the exactly-summable class only (no int64/uint64 wrap beyond 2^63, floats whose
  partial sums are representable); IEEE rounding is modelled separately by `fadd rnd`
  (exact when the exact result is representable, otherwise an arbitrary rounding `rnd`).
-/
namespace Zed.Agg

/-- carrier operation + unit -/
structure Mon (M : Type) where
  op : M → M → M
  e : M

namespace Mon
variable {M α : Type}

/-- `Consume` applied to the values of one input chunk, starting from a fresh function. -/
def fold (m : Mon M) (f : α → M) (xs : List α) : M := xs.foldl (fun s a => m.op s (f a)) m.e

/-- `ConsumeAsPartial` applied to a sequence of partial values, starting from a fresh function. -/
def combineAll (m : Mon M) (ps : List M) : M := ps.foldl m.op m.e

/-- monoid laws (stated here, proved per instance in Zed/Proofs/AggMonoid.lean) -/
structure Laws (m : Mon M) : Prop where
  assoc : ∀ a b c, m.op (m.op a b) c = m.op a (m.op b c)
  left_id : ∀ a, m.op m.e a = a
  right_id : ∀ a, m.op a m.e = a

structure CommLaws (m : Mon M) : Prop extends Laws m where
  comm : ∀ a b, m.op a b = m.op b a

/-- product of two aggregates' carriers (a row of aggregates is an iterated product) -/
def prod {N : Type} (m : Mon M) (n : Mon N) : Mon (M × N) :=
  ⟨fun a b => (m.op a.1 b.1, n.op a.2 b.2), (m.e, n.e)⟩
end Mon

/-! ### input values as the aggregates see them -/

/-- accumulator class of `mathReducer` (math.go: Uint64 < Int64 < Float64 by type id;
    `coerce.Promote` takes the larger). `none`: no numeric type seen. -/
inductive Kind where
  | none | uint | int | float
  deriving DecidableEq, Repr, Inhabited

namespace Kind
def rank : Kind → Nat
  | none => 0 | uint => 1 | int => 2 | float => 3
def max (a b : Kind) : Kind := if a.rank ≤ b.rank then b else a
def toStr : Kind → String
  | none => "n" | uint => "u" | int => "i" | float => "f"
def ofStr : String → Option Kind
  | "n" => some none | "u" => some uint | "i" => some int | "f" => some float | _ => Option.none
end Kind

/-- One evaluated aggregate argument (never `missing`: Apply drops those). -/
structure AVal where
  tok : String          -- identity of (type, value) — opaque, chosen by the harness
  typ : String          -- identity of the type — opaque
  isNull : Bool
  kind : Kind           -- numeric class of the type (`none` for non-numeric types and for type null)
  num : Int             -- numeric value × scale (0 when null / non-numeric)
  bool : Option Bool    -- `some b` for non-null values whose type is (named) bool
  avg : Option Int      -- what coerce.ToFloat yields (× scale) for a non-null value, if anything
  deriving Repr, Inhabited

/-! ### count -/
def countMon : Mon Nat := ⟨(· + ·), 0⟩
def countF (_ : AVal) : Nat := 1

/-! ### sum / min / max  (mathReducer) -/

/-- state of a mathReducer: accumulator class, hasval, accumulator. -/
structure MathSt where
  kind : Kind := .none
  acc : Option Int := none      -- none = !hasval
  deriving DecidableEq, Repr, Inhabited

def optOp (g : Int → Int → Int) : Option Int → Option Int → Option Int
  | none, b => b
  | a, none => a
  | some a, some b => some (g a b)

def mathMon (g : Int → Int → Int) : Mon MathSt :=
  ⟨fun a b => ⟨Kind.max a.kind b.kind, optOp g a.acc b.acc⟩, {}⟩

/-- consumeVal: values of non-numeric type (and of type null) are ignored; a typed null only
    fixes the accumulator class. -/
def mathF (v : AVal) : MathSt :=
  if v.kind = .none then {} else
  if v.isNull then { kind := v.kind } else { kind := v.kind, acc := some v.num }

def sumMon : Mon MathSt := mathMon (· + ·)
def minMon : Mon MathSt := mathMon (fun a b => if a ≤ b then a else b)
def maxMon : Mon MathSt := mathMon (fun a b => if a ≤ b then b else a)

/-! ### avg -/
def avgMon : Mon (Int × Nat) := ⟨fun a b => (a.1 + b.1, a.2 + b.2), (0, 0)⟩
def avgF (v : AVal) : Int × Nat :=
  if v.isNull then (0, 0) else
  match v.avg with
  | some n => (n, 1)
  | none => (0, 0)

/-! ### and / or -/
def optBool (g : Bool → Bool → Bool) : Option Bool → Option Bool → Option Bool
  | none, b => b
  | a, none => a
  | some a, some b => some (g a b)
def andMon : Mon (Option Bool) := ⟨optBool (· && ·), none⟩
def orMon : Mon (Option Bool) := ⟨optBool (· || ·), none⟩
def boolF (v : AVal) : Option Bool := if v.isNull then none else v.bool

/-! ### collect (ordered; not commutative) -/
def collectMon : Mon (List String) := ⟨(· ++ ·), []⟩
def collectF (v : AVal) : List String := if v.isNull then [] else [v.tok]

/-! ### union / dcount / fuse: finite sets as characteristic functions
    (so that the carrier is a commutative idempotent monoid up to *equality*). -/
abbrev TokSet := String → Bool
def setMon : Mon TokSet := ⟨fun a b x => a x || b x, fun _ => false⟩
def unionF (v : AVal) : TokSet := if v.isNull then fun _ => false else fun x => x == v.tok
/-- dcount hashes (type id, bytes) of every value, nulls included. -/
def dcountF (v : AVal) : TokSet := fun x => x == v.tok
/-- fuse remembers the set of types seen (the merge of the set into one type is
    `agg.Schema.Mixin`, a parameter here — it is C20's subject). -/
def fuseF (v : AVal) : TokSet := fun x => x == v.typ

/-- the members of a set state among a finite universe, sorted and duplicate-free -/
def insertTok (x : String) : List String → List String
  | [] => [x]
  | y :: ys => if x < y then x :: y :: ys else if x == y then y :: ys else y :: insertTok x ys
def members (s : TokSet) (univ : List String) : List String :=
  (univ.filter s).foldr insertTok []

/-! ### IEEE addition as far as the property needs it -/

/-- `2^53`: integers of smaller magnitude (at the fixed scale) are exactly representable. -/
def exactBound : Nat := 9007199254740992

/-- float addition on scaled integers: exact when the exact result is representable,
    otherwise some rounding `rnd` of the exact result. -/
def fadd (rnd : Int → Int) (a b : Int) : Int :=
  if (a + b).natAbs < exactBound then a + b else rnd (a + b)

def fsum (rnd : Int → Int) (xs : List Int) : Int := xs.foldl (fadd rnd) 0

/-- sum of magnitudes; `ExactlySummable xs := absSum xs < 2^53` guarantees that every partial
    sum of every sub-multiset is representable. -/
def absSum (xs : List Int) : Nat := (xs.map Int.natAbs).sum
def ExactlySummable (xs : List Int) : Prop := absSum xs < exactBound
instance (xs : List Int) : Decidable (ExactlySummable xs) := by unfold ExactlySummable; exact inferInstance

/-- avg with IEEE accumulation: (float sum, count). -/
def favgStep (rnd : Int → Int) (s : Int × Nat) (x : Int) : Int × Nat := (fadd rnd s.1 x, s.2 + 1)
def favg (rnd : Int → Int) (xs : List Int) : Int × Nat := xs.foldl (favgStep rnd) (0, 0)
def favgCombine (rnd : Int → Int) (a b : Int × Nat) : Int × Nat := (fadd rnd a.1 b.1, a.2 + b.2)

/-! ### the aggregate table the model covers (compared with the T1 facts in Props/C10) -/

/-- (name, needs argument, implementing type, constructor argument,
     ResultAsPartial = "result" | "custom", ConsumeAsPartial = "consume" | "custom") -/
def modelTable : List (String × Bool × String × String × String × String) :=
  [("count", false, "Count", "", "result", "custom"),
   ("any", true, "Any", "", "result", "consume"),
   ("avg", true, "Avg", "", "custom", "custom"),
   ("dcount", true, "DCount", "", "custom", "custom"),
   ("fuse", true, "fuse", "", "result", "custom"),
   ("sum", true, "mathReducer", "anymath.Add", "result", "consume"),
   ("collect_map", true, "CollectMap", "", "result", "consume"),
   ("min", true, "mathReducer", "anymath.Min", "result", "consume"),
   ("max", true, "mathReducer", "anymath.Max", "result", "consume"),
   ("union", true, "Union", "", "result", "custom"),
   ("collect", true, "Collect", "", "result", "custom"),
   ("and", true, "And", "", "result", "consume"),
   ("or", true, "Or", "", "result", "consume")]

/-- aggregates of the table with a model instance here -/
def modelled : List String :=
  ["count", "sum", "min", "max", "avg", "and", "or", "collect", "union", "dcount", "fuse"]
/-- aggregates deliberately outside the property (`any` picks an arbitrary value;
    `collect_map` is not in the property's list) -/
def excluded : List String := ["any", "collect_map"]

end Zed.Agg
