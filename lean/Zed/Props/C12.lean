/-
  C12 — branch and metadata updates are linearizable; accepted commits stay replayable.
  Property theorems only.  Model: Zed/Model/{StoreEngine,JournalQueue,BranchCommit}.lean — the
  labelled transition system of DESIGN.md §4 L5 (one `step c` = one storage operation of client c,
  atomic puts).  All theorems quantify over every label sequence, i.e. every number of clients,
  every history of started procedures and every interleaving; nothing is bounded.
  `Reach j s`: s is reachable from a state where journal j is freshly created by labels that do
  not delete pool j (for the lake-level `pools/` journal, j = 0, every label sequence qualifies:
  `reach_pools`).
-/
import Zed.Proofs.StoreBranch
import Zed.Proofs.StoreFillRef
namespace Zed.Props.C12
open Zed.Store

/-! ### T1 obligations: the call order of the source is the call order of the model

  `Zed.Generated.C12` is regenerated from lake/journal/{queue,store}.go, lake/branch.go and
  lake/root.go on every check.  The model's procedures were written for exactly these call
  sequences; if the source changes them these theorems stop checking. -/

/-- `Queue.CommitAt`: the entry is put (if absent) *before* HEAD is written (`jstep`: putx → putHead). -/
theorem t1_commitAt_order :
    Zed.Generated.C12.commitAtCalls = ["q.uri", "q.engine.PutIfNotExists", "q.engine.Put", "q.writeHead"] := rfl

/-- `Store.commit`: load, then the constraint, then CommitAt, retry on "exists" (`jstep`, `afterLoad`). -/
theorem t1_storeCommit_order :
    Zed.Generated.C12.storeCommitCalls = ["s.load", "fn", "s.journal.CommitAt", "os.IsExist"] := rfl

/-- `Branch.commit`: lookup tip, build, Put object, Update, Remove on failure (`BPhase`). -/
theorem t1_branchCommit_order :
    Zed.Generated.C12.branchCommitCalls =
      ["b.pool.branches.LookupByName", "create", "b.pool.commits.Put", "b.pool.branches.Update",
       "b.pool.commits.Remove"] := rfl

/-- `Root.CreatePool` registers the name last and removes the directory on failure;
    `Root.RemovePool` unregisters first and deletes the directory last (`StoreApi.advance`). -/
theorem t1_pool_order :
    Zed.Generated.C12.createPoolCalls =
      ["r.pools.LookupByName", "CreatePool", "r.openPool", "RemovePool", "r.pools.Add", "RemovePool"] ∧
    Zed.Generated.C12.removePoolCalls =
      ["r.pools.LookupByID", "r.pools.Remove", "r.poolCache.Remove", "RemovePool"] := ⟨rfl, rfl⟩

/-- Every state a lake can get into is `Reach 0` (pools journal): no hypothesis on the labels. -/
theorem reach_pools (ls : List Label) : Reach 0 (Sys.init.run ls) :=
  ⟨Sys.init, ls, init_fresh, noReset_zero ls, rfl⟩

/-- **journal_linear** — in every reachable state the entries of journal j are exactly the
    positions 1..e (contiguous, none missing, none beyond), and HEAD is e or e-1. -/
theorem journal_linear (j : Nat) (s : Sys) (h : Reach j s) :
    ∃ e, (∀ n, (s.store (.ent j n)).isSome ↔ (1 ≤ n ∧ n ≤ e)) ∧
      headOf s.store j ≤ e ∧ e ≤ headOf s.store j + 1 := by
  obtain ⟨e, he⟩ := h.inv1
  exact ⟨e, he.range, he.he, he.eh⟩

/-- **entry_created_once** — an entry, once created, is never created again or changed: it
    keeps its value in every later state (so entry n+1 is created exactly once; the loser of the
    put-if-absent race writes nothing). -/
theorem entry_created_once (j : Nat) (s : Sys) (h : Reach j s) (ls : List Label) (hn : NoReset j ls)
    (n : Nat) (v : SVal) (hv : s.store (.ent j n) = some v) : (s.run ls).store (.ent j n) = some v := by
  obtain ⟨e, he⟩ := h.inv1
  obtain ⟨_, _, _, _, hent⟩ := inv1_run ls he hn
  exact hent n v hv

/-- **head_monotone** — HEAD never regresses. -/
theorem head_monotone (j : Nat) (s : Sys) (h : Reach j s) (ls : List Label) (hn : NoReset j ls) :
    headOf s.store j ≤ headOf (s.run ls).store j := by
  obtain ⟨e, he⟩ := h.inv1
  obtain ⟨_, _, _, hh, _⟩ := inv1_run ls he hn
  exact hh

/-- **head_writer_is_creator** — the causality behind `head_monotone`: a client about to write
    HEAD = n is the (unique) creator of entry n, entry n is the last one, and HEAD is still n-1.
    A change that writes HEAD before the entry, or lets the loser of the race write it, breaks
    this proof. -/
theorem head_writer_is_creator (j : Nat) (s : Sys) (h : Reach j s) (c n : Nat)
    (hc : (s.cl c).pcOn j = some (.putHead n)) :
    (s.store (.ent j n)).isSome ∧ s.store (.ent j (n + 1)) = none ∧ headOf s.store j + 1 = n ∧
      ∀ c' n', (s.cl c').pcOn j = some (.putHead n') → c' = c := by
  obtain ⟨e, he⟩ := h.inv1
  obtain ⟨hne, hH⟩ := he.ph c n hc
  subst hne
  refine ⟨(he.range n).mpr (by omega), ?_, hH, fun c' n' hc' => he.uniq c' c n' n hc' hc⟩
  have := (he.range (n + 1))
  cases hx : s.store (.ent j (n + 1)) with
  | none => rfl
  | some v => rw [hx] at this; simp at this; omega

/-- **constraint_exact** — every entry n+1 was written by one of the four journal.Store
    operations whose constraint held under *exactly* the table replayed from entries 1..n —
    never under a stale table: the loser of a put-if-absent race re-loads and re-checks.  (So a
    key is inserted only when absent — names stay unique —, a branch tip is updated only from
    the parent it was checked against, a delete removes the very value it was checked against.)
    A change that checks the constraint against a stale table, or retries without reloading,
    breaks this proof. -/
theorem constraint_exact (j : Nat) (s : Sys) (h : Reach j s) (n : Nat)
    (hn : (s.store (.ent j (n + 1))).isSome) :
    ∃ (op : JOp) (t : Table), tableAt s.store j n = some t ∧ op.check t = none ∧
      s.store (.ent j (n + 1)) = some (.entry op.acts) := by
  obtain ⟨e, h1, h2⟩ := h.inv12
  exact h2.wf n (by have := (h1.range (n + 1)).mp hn; omega)

/-- **names_unique** — a name table (pools: name ↦ pool, branches: name ↦ tip) replayed from a
    journal never holds a name twice, at any position, whatever the entries are: the table is keyed
    by name, Add/Update replace and Delete removes.  Together with `constraint_exact` (an insert or
    the target of a move is accepted only when the name is absent in exactly the preceding table)
    no create / rename can take a name that is in use.  (That a *handle's* cached copy of the table
    also stays duplicate-free is outside the model: harness sub-check `warm`.) -/
theorem names_unique (s : Sys) (j n : Nat) (t : Table) (h : tableAt s.store j n = some t) :
    (t.map (·.1)).Nodup :=
  tableAt_keys s.store j n t h

/-- **journal_replayable** — at every moment the journal replays without error, both up to
    HEAD (what readers see) and up to its end. -/
theorem journal_replayable (j : Nat) (s : Sys) (h : Reach j s) :
    (∃ t, visibleTable s.store j = some t) ∧
      ∀ n, (s.store (.ent j n)).isSome → ∃ t, tableAt s.store j n = some t := by
  obtain ⟨e, h1, h2⟩ := h.inv12
  refine ⟨h2.wf.tableAt_some _ h1.he, fun n hn => h2.wf.tableAt_some n ((h1.range n).mp hn).2⟩

/-- **failed_op_invisible** (journal level) — a journal procedure step that ends in failure
    (constraint, key exists, no such key, retries exceeded, I/O) writes neither an entry nor
    HEAD; and a procedure that *has* created its entry can only go on to write HEAD and end
    with `ok` (see `commit_at_end_succeeds`), so a failed operation has created no entry. -/
theorem failed_op_invisible (s : Store) (j : Nat) (jc : JCache) (k : JKind) (pc : JPc)
    (st : Store) (jc' : JCache) (r : Res) (ev : Ev)
    (h : jstep s j jc k pc = .done st jc' r ev) (hr : r ≠ .ok) :
    (∀ n, st (.ent j n) = s (.ent j n)) ∧ st (.head j) = s (.head j) :=
  jstep_fail_quiet s j jc k pc st jc' r ev h hr

/-! ### Branch commits (`lake.Branch.commit`)

  `ReachB j s`: s is reachable from a state in which pool j has just been created (empty branches
  journal, no commit objects, nothing working on it) by any labels that do not delete pool j and do
  not remove or rename its branches (`NoDrop`: no raw delete/move on journal j) — any number of
  clients, any interleaving of branch commits, branch creations, loads, and anything at all on
  other pools and on the pools journal. -/

/-- **ack_exactly_once_partial** — full statement (`ack_exactly_once`): in every reachable state every
    acknowledged commit whose branch still exists appears exactly once in the chain from that
    branch's tip.  Proved under the guard `ReachB j s`: pool j is not deleted (`NoReset`; without it
    the statement is false of the code, `not_ack_exactly_once_if_pool_removed`) and none of its
    branches is removed or renamed during the run (`NoDrop`; branch removal is covered at the
    journal level by `constraint_exact` / `names_unique`, by the trace tie and by the
    linearizability oracle, not by this chain theorem).  Every acknowledged branch commit appears exactly once in the parent
    chain from the tip of its branch, as a cold reader sees it (table replayed up to HEAD).  The
    proof rests on: the update's constraint was checked under exactly the preceding table
    (`constraint_exact`), the commit object is written before its journal entry and has the checked
    tip as parent, commit ids are fresh, and the object of a *failed* attempt — the only thing
    `Branch.commit` ever deletes — is referenced by nothing.  A change that deletes the object
    after a successful update, retries without re-reading the tip, or builds the object against
    another tip than the one checked breaks it. -/
theorem ack_exactly_once_partial (j : Nat) (hj : j ≠ 0) (s : Sys) (h : ReachB j s) (x : Ack)
    (hx : x ∈ s.acks) (hxj : x.pool = j) :
    ∃ t tip, visibleTable s.store j = some t ∧ Table.get t x.branch = some tip ∧
      (chain s.store j tip).count x.id = 1 := by
  obtain ⟨e, h1, _, h3⟩ := h.inv hj
  obtain ⟨t, tip, a1, a2, a3⟩ := h3.paths x hx hxj (headOf s.store j) (Nat.le_refl _) h1.he
  exact ⟨t, tip, a1, a2, a3.count_chain (objsDecr_of_inv3 h3)⟩

/-- **no_lost_update_partial** (same guard as `ack_exactly_once_partial`) — an acknowledged commit is never lost: it stays acknowledged and stays
    exactly once on its branch's chain in every later state, whatever other clients do (commit on
    the same or other branches, fail, retry, stop in the middle of any procedure). -/
theorem no_lost_update_partial (j : Nat) (hj : j ≠ 0) (s : Sys) (h : ReachB j s) (x : Ack)
    (hx : x ∈ s.acks) (hxj : x.pool = j) (ls : List Label) (hn : NoReset j ls) (hd : NoDrop j ls) :
    x ∈ (s.run ls).acks ∧
    ∃ t tip, visibleTable (s.run ls).store j = some t ∧ Table.get t x.branch = some tip ∧
      (chain (s.run ls).store j tip).count x.id = 1 :=
  ⟨run_acks_mono ls s x hx,
   ack_exactly_once_partial j hj (s.run ls) (h.run ls hn hd) x (run_acks_mono ls s x hx) hxj⟩

/-- **failed_attempt_unreferenced** — while a branch commit has not created its journal entry
    (object being written, update in progress or failed, cleanup pending), its commit id occurs in
    no journal entry: removing the object of a failed attempt (`commits.Remove`) cannot be seen by
    anyone.  Together with `failed_op_invisible` this is "an operation that reports failure leaves
    no visible trace" for branch commits. -/
theorem failed_attempt_unreferenced (j : Nat) (hj : j ≠ 0) (s : Sys) (h : ReachB j s) (c : Nat) (p : Proc)
    (id : Nat) (hp : (s.cl c).proc = some p) (hid : p.pendingId j = some id) :
    ∀ n acts, s.store (.ent j n) = some (.entry acts) → ∀ k, JAct.add k id ∉ acts ∧ JAct.update k id ∉ acts := by
  obtain ⟨e, _, _, h3⟩ := h.inv hj
  obtain ⟨_, hnr⟩ := pending_facts hid (h3.bc c p hp)
  intro n acts hent k
  exact ⟨fun hm => hnr ⟨n, acts, _, hent, hm, rfl⟩, fun hm => hnr ⟨n, acts, _, hent, hm, rfl⟩⟩

/-- **commit_object_before_entry** — every `update` entry of the branches journal points to an
    existing commit object whose parent is the tip the entry replaced: the branch is replayable
    along its updates (the object is put before the entry and never removed afterwards). -/
theorem acked_chain_objects (j : Nat) (hj : j ≠ 0) (s : Sys) (h : ReachB j s) (x : Ack)
    (hx : x ∈ s.acks) (hxj : x.pool = j) :
    ∃ t tip, visibleTable s.store j = some t ∧ Table.get t x.branch = some tip ∧ CPath s.store j tip x.id := by
  obtain ⟨e, h1, _, h3⟩ := h.inv hj
  exact h3.paths x hx hxj (headOf s.store j) (Nat.le_refl _) h1.he

/-- **not_ack_exactly_once_if_pool_removed** — the hypothesis `NoReset` (the pool is not deleted
    during the run) cannot be dropped, and this is a defect of the code, not of the model
    (harness key C12:lin:commit-into-removed-pool): `Root.RemovePool` deletes the pool directory
    under a commit that is in flight; the commit's put-if-absent then succeeds in the emptied
    directory and the commit is acknowledged although nothing of the branch can be read any more
    (on the real code: two conflicting commits are both acknowledged).  Witness: the run
    `removedPoolLabels` is free of branch removals, contains one `delPool 1`, ends with an
    acknowledged commit on pool 1 — and the pool's journal does not replay. -/
theorem not_ack_exactly_once_if_pool_removed :
    let s := poolCreated.run removedPoolLabels
    (∃ x ∈ s.acks, x.pool = 1 ∧ x.id = 2) ∧ (s.cl 1).res = some (.committed 2) ∧
      visibleTable s.store 1 = none ∧ NoDrop 1 removedPoolLabels ∧ ¬ NoReset 1 removedPoolLabels := by
  refine ⟨by decide, by decide, by decide, noDrop_of_all (by decide), ?_⟩
  intro h
  have := h (.start 2 (.delPool 1)) (by decide)
  simp [Label.resets, Start.resets] at this

/-! ### The create-then-fill put discipline (local file engine)

  `FSys` (Zed/Model/StoreFill.lean): every put is two transitions — the file is created /
  truncated and can be read empty, then its content is written.  `FReach j f`: f is reachable from
  a fresh journal j by any create-then-fill labels that do not delete pool j.  Which safety
  theorems survive: all of them, because the discipline refines the atomic system and the files
  that can be read half-written are never the ones a reader relies on. -/

/-- **fill_refines** — every create-then-fill transition is, on the atomic component, a
    stutter, the atomic transition of the same client, or the truncation of a snapshot file; so
    the atomic component of every run is a reachable atomic state and `journal_linear`,
    `entry_created_once`, `head_monotone`, `constraint_exact`, `journal_replayable`,
    `ack_exactly_once`, `no_lost_update`, … hold of it (`fill_reach`, `fill_reachB`). -/
theorem fill_refines (f : FSys) (c : Nat) :
    (f.step c).1.a = f.a ∨ (f.step c).1.a = (f.a.step c).1 ∨ ∃ j, (f.step c).1.a = f.a.exec (.truncSnap j) :=
  fill_step_refines f c

/-- **fill_journal_linear** — with create-then-fill puts the entry *files* of journal j are
    still exactly 1..e with HEAD's last complete value in {e-1, e}; a file that is still empty can
    only be entry e while HEAD is e-1 (its creator has won the exclusive create and has not
    written HEAD), and every entry at or below HEAD is complete and replays. -/
theorem fill_journal_linear (j : Nat) (f : FSys) (h : FReach j f) :
    ∃ e, (∀ n, (f.a.store (.ent j n)).isSome ↔ (1 ≤ n ∧ n ≤ e)) ∧
      headOf f.a.store j ≤ e ∧ e ≤ headOf f.a.store j + 1 ∧
      (∀ n, f.half (.ent j n) = true → n = e ∧ headOf f.a.store j + 1 = e) ∧
      (∀ n, n ≤ headOf f.a.store j → f.half (.ent j n) = false) ∧
      ∃ t, visibleTable f.a.store j = some t := by
  obtain ⟨hr, hi⟩ := h.inv
  obtain ⟨e, h1, h2⟩ := hr.inv12
  refine ⟨e, h1.range, h1.he, h1.eh, fun n hh => fill_half_entry_is_end h1 hi n hh, ?_, h2.wf.tableAt_some _ h1.he⟩
  intro n hn
  cases hx : f.half (.ent j n) with
  | false => rfl
  | true => have := fill_half_entry_is_end h1 hi n hx; omega

/-- **fill_no_empty_entry_read** — no client ever reads a journal entry file between its
    exclusive create and its filling: readers trust HEAD, and HEAD is written only after the entry
    is complete.  (This is the theorem a reader that probes past HEAD — `Exists(HEAD+1)` — breaks:
    it would take the created-but-empty entry for a committed "no change".) -/
theorem fill_no_empty_entry_read (j : Nat) (f : FSys) (h : FReach j f) (c n : Nat) (ev : Ev)
    (hev : (f.a.step c).2 = some ev) (hop : ev.op = .get) (hpath : ev.path = .ent j n) :
    f.half (.ent j n) = false :=
  fill_entry_reads_complete h.inv.1 h.inv.2 c n ev hev hop hpath

/-- **fill_head_monotone** — HEAD, whenever it can be read (it is empty while being rewritten:
    `readID` then retries), never regresses. -/
theorem fill_head_monotone (j : Nat) (f : FSys) (h : FReach j f) (ls : List FLabel) (hn : NoResetF j ls)
    (v v' : Nat) (hv : f.reads (.head j) = some (some (.num v)))
    (hv' : (f.run ls).reads (.head j) = some (some (.num v'))) : v ≤ v' := by
  have hr := h.inv.1
  have key : ∀ (g : FSys) (w : Nat), g.reads (.head j) = some (some (.num w)) → headOf g.a.store j = w := by
    intro g w hg
    simp only [FSys.reads] at hg
    split at hg
    · cases hg
    · cases hx : g.a.store (.head j) with
      | none => simp [hx] at hg
      | some y => simp [hx] at hg; subst hg; simp [headOf, hx]
  obtain ⟨ls', h1, r1, _⟩ := fill_run_refines ls f
  have hm := head_monotone j f.a hr ls' (r1 j hn)
  rw [← h1] at hm
  rw [key f v hv, key _ v' hv'] at hm
  exact hm

/-- **fill_ack_exactly_once_partial** (guard as `ack_exactly_once_partial`) — branch commits under create-then-fill puts: every acknowledged
    commit is exactly once on the chain from its branch's visible tip (atomic component; the
    entries at or below HEAD it is replayed from are complete files by `fill_journal_linear`). -/
theorem fill_ack_exactly_once_partial (j : Nat) (hj : j ≠ 0) (f0 : FSys) (h0 : ReachB j f0.a) (ls : List FLabel)
    (hn : NoResetF j ls) (hd : NoDropF j ls) (x : Ack) (hx : x ∈ (f0.run ls).a.acks) (hxj : x.pool = j) :
    ∃ t tip, visibleTable (f0.run ls).a.store j = some t ∧ Table.get t x.branch = some tip ∧
      (chain (f0.run ls).a.store j tip).count x.id = 1 :=
  ack_exactly_once_partial j hj _ (fill_reachB h0 ls hn hd) x hx hxj

/-- Non-vacuity: a create-then-fill run on the pools journal in which client 1 reads HEAD while
    client 0 is rewriting it (empty), retries, and both inserts end up in the journal. -/
def fillDemo : List FLabel :=
  [.start 0 (.commit 0 0 (.insert 1 7)), .start 1 (.commit 0 0 (.insert 2 8)),
   .step 0, .step 0, .step 0, .step 0, .step 1, .step 1, .step 0] ++ List.replicate 8 (.step 1)

example : FReach 0 (FSys.init.run fillDemo) := ⟨Sys.init, fillDemo, init_fresh, fun l _ => by
  cases l with
  | start c st => cases st <;> simp [FLabel.resets, Start.resets]
  | step c => rfl, rfl⟩
example : headOf (FSys.init.run fillDemo).a.store 0 = 2 ∧ (FSys.init.run fillDemo).broken = false := by decide

/-! Non-vacuity: the hypotheses are satisfiable and the system does move. -/

/-- A concrete run on the pools journal: client 0 inserts key 1, client 1 inserts key 2,
    interleaved so that client 1 loses the put-if-absent race once and retries. -/
def demoLabels : List Label :=
  [.start 0 (.commit 0 0 (.insert 1 7)), .start 1 (.commit 0 0 (.insert 2 8)),
   .step 0, .step 1, .step 0, .step 1, .step 0, .step 1, .step 1, .step 1, .step 1, .step 1, .step 1, .step 1]

example : headOf (Sys.init.run demoLabels).store 0 = 2 := by decide
example : Reach 0 (Sys.init.run demoLabels) := reach_pools _

/-- Non-vacuity of the branch-commit theorems: pool 1 is created, branch 0 is created at Nil, two
    clients commit to it concurrently; client 2 loses the race once (its first object, id 3, is
    removed) and retries.  Both are acknowledged and the chain from the tip is [4, 2]. -/
example : ReachB 1 (poolCreated.run twoCommits) := twoCommits_reach
example : (poolCreated.run twoCommits).acks.map (·.id) = [4, 2] ∧
    (poolCreated.run twoCommits).failed = [(1, 3)] ∧
    chain (poolCreated.run twoCommits).store 1 4 = [4, 2] ∧
    (poolCreated.run twoCommits).store (.cobj 1 3) = none := by decide

end Zed.Props.C12
