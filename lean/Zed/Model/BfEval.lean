/-
  C04 — typed values with their ZNG (zcode) serialisation, the evaluator's `Walk`, and the
  search / equality / membership predicates of the filter subset that can be pushed into the
  binary scanner.

  Anchors: zcode/bytes.go (tag = length+1, 0 = null), walk.go (Walk: visit, then named → inner,
  record fields, array / set / map / union / error members; sets and maps walk the types under
  their names), runtime/sam/expr/filter.go (searchString: memoised field-name match per record
  type + case-insensitive substring match on string leaves; search: literal comparison on
  leaves), runtime/sam/expr/fieldnameiter (FieldNameIter: dotted paths of the leaves of
  directly nested records), runtime/sam/expr/eval.go (In: coerce.Equal against every walked
  member), runtime/sam/expr/coerce (Equal: for non-numbers same type id and same bytes).
-/
namespace Zed.Bf

abbrev Bytes := List UInt8

mutual
inductive Ty where
  | prim (id : Nat)
  | record (fs : Fields)
  | array (t : Ty)
  | set (t : Ty)
  | map (k v : Ty)
  | union (ts : Tys)
  | named (name : Bytes) (t : Ty)
  | error (t : Ty)
  | enum (syms : Nat)
  deriving DecidableEq, Repr
inductive Fields where
  | nil
  | cons (name : Bytes) (t : Ty) (r : Fields)
  deriving DecidableEq, Repr
inductive Tys where
  | nil
  | cons (t : Ty) (r : Tys)
  deriving DecidableEq, Repr
end

mutual
/-- the body of a value: null, the bytes of a primitive, or the members of a container
    (record fields, array / set elements, map keys and values alternating, union tag + value). -/
inductive Val where
  | null
  | prim (b : Bytes)
  | cont (items : Vals)
  deriving DecidableEq, Repr
inductive Vals where
  | nil
  | cons (v : Val) (r : Vals)
  deriving DecidableEq, Repr
end

instance : Inhabited Ty := ⟨.prim 29⟩
instance : Inhabited Val := ⟨.null⟩

def idString : Nat := 25
def idNet : Nat := 27
def idNull : Nat := 29
/-- `zed.IsNumber`: ids up to IDDecimal256. -/
def isNumberId (id : Nat) : Bool := id ≤ 22

/-! ## zcode -/

/-- `binary.AppendUvarint`, by structural recursion on a fuel of 10 groups (exact below 2^70;
    lengths and type ids are far smaller), so that the kernel can evaluate it. -/
def uvarintAux : Nat → Nat → Bytes
  | 0, n => [UInt8.ofNat n]
  | f + 1, n => if n < 128 then [UInt8.ofNat n] else UInt8.ofNat (n % 128 + 128) :: uvarintAux f (n / 128)

def uvarint (n : Nat) : Bytes := uvarintAux 10 n

mutual
/-- `zcode.Append`: tag (uvarint of length+1; 0 for null) followed by the body. -/
def enc : Val → Bytes
  | .null => [0]
  | .prim b => uvarint (b.length + 1) ++ b
  | .cont items => uvarint ((encs items).length + 1) ++ encs items
def encs : Vals → Bytes
  | .nil => []
  | .cons v r => enc v ++ encs r
end

/-- one values-frame message: type id, then the tagged value. -/
def encMsg (id : Nat) (v : Val) : Bytes := uvarint id ++ enc v

def encFrame : List (Nat × Val) → Bytes
  | [] => []
  | (id, v) :: r => encMsg id v ++ encFrame r

/-! ## byte search -/

def prefixBy (eq : UInt8 → UInt8 → Bool) : Bytes → Bytes → Bool
  | [], _ => true
  | _ :: _, [] => false
  | p :: ps, x :: xs => eq p x && prefixBy eq ps xs

/-- does `pat` occur in `s` (bytes compared with `eq`)? -/
def findBy (eq : UInt8 → UInt8 → Bool) (pat : Bytes) : Bytes → Bool
  | [] => prefixBy eq pat []
  | x :: xs => prefixBy eq pat (x :: xs) || findBy eq pat xs

def lowerAscii (b : UInt8) : UInt8 := if 65 ≤ b.toNat ∧ b.toNat ≤ 90 then b + 32 else b

/-- ASCII case folding (`strings.EqualFold` on an all-ASCII pattern; `CaseFinder`). -/
def foldEq (p x : UInt8) : Bool := lowerAscii p == lowerAscii x

/-- `stringSearch(a, term)`: case-insensitive substring. -/
def stringSearch (term a : Bytes) : Bool := findBy foldEq term a

def isAscii (bs : Bytes) : Bool := bs.all fun b => b.toNat < 128

/-! ## types -/

def under : Ty → Ty
  | .named _ t => under t
  | t => t

def Fields.isEmpty : Fields → Bool
  | .nil => true
  | _ => false

def dot : UInt8 := 46

mutual
/-- `FieldNameIter`: the dotted paths of the leaves reached through directly nested, non-empty
    records (named types are looked through). -/
def fieldNames : Fields → List Bytes
  | .nil => []
  | .cons name t r =>
    (match nestedNames t with
     | some ns => ns.map fun n => name ++ dot :: n
     | none => [name]) ++ fieldNames r
/-- the leaf names of a field type that is (under its names) a non-empty record. -/
def nestedNames : Ty → Option (List Bytes)
  | .named _ t => nestedNames t
  | .record fs => if fs.isEmpty then none else some (fieldNames fs)
  | _ => none
end

/-- `TypeRecordOf(typ)` and its leaf names. -/
def recordNames : Ty → Option (List Bytes)
  | .named _ t => recordNames t
  | .record fs => some (fieldNames fs)
  | _ => none

/-- `searchString.searchType`: some leaf name of the (record) type contains the term. -/
def searchType (term : Bytes) (t : Ty) : Bool :=
  match recordNames t with
  | some ns => ns.any (stringSearch term)
  | none => false

mutual
/-- `FieldNameFinder.matchType`: the term occurs in a leaf name of the type's record type or of a
    record type anywhere inside it (records inside arrays, sets, maps, unions and errors count:
    the evaluator's Walk reaches them). -/
def matchType (term : Bytes) : Ty → Bool
  | .named _ t => matchType term t
  | .record fs => (fieldNames fs).any (stringSearch term) || matchFields term fs
  | .array t => matchType term t
  | .set t => matchType term t
  | .error t => matchType term t
  | .map k v => matchType term k || matchType term v
  | .union ts => matchTys term ts
  | .prim _ => false
  | .enum _ => false
def matchFields (term : Bytes) : Fields → Bool
  | .nil => false
  | .cons _ t r => matchType term t || matchFields term r
def matchTys (term : Bytes) : Tys → Bool
  | .nil => false
  | .cons t r => matchType term t || matchTys term r
end

/-! ## Walk -/

def Vals.any : Vals → (Val → Bool) → Bool
  | .nil, _ => false
  | .cons v r, f => f v || r.any f

/-- key/value alternation of a map body. -/
def Vals.anyKV : Vals → (Val → Bool) → (Val → Bool) → Bool
  | .cons k (.cons v r), fk, fv => fk k || fv v || r.anyKV fk fv
  | _, _, _ => false

/-- zigzag-decoded non-negative integer of a union tag (`DecodeInt`), little-endian bytes. -/
def decodeUint : Bytes → Nat
  | [] => 0
  | b :: r => b.toNat + 256 * decodeUint r

def decodeTag (b : Bytes) : Option Nat :=
  let u := decodeUint b
  if u % 2 == 0 then some (u / 2) else none

mutual
/-- `zed.Walk`: is there a visited (type, body) pair satisfying `visit`?  `skip` = the walk
    starts under the type's names (sets and maps call `TypeUnder` on their member types). -/
def walkAny (visit : Ty → Val → Bool) : (skip : Bool) → Ty → Val → Bool
  | true, .named _ t, v => walkAny visit true t v
  | false, .named n t, v => visit (.named n t) v || walkAny visit false t v
  | _, .record fs, v =>
    visit (.record fs) v ||
      (match v with
       | .cont items => walkFields visit fs items
       | _ => false)
  | _, .array t, v =>
    visit (.array t) v ||
      (match v with
       | .cont items => items.any (walkAny visit false t)
       | _ => false)
  | _, .set t, v =>
    visit (.set t) v ||
      (match v with
       | .cont items => items.any (walkAny visit true t)
       | _ => false)
  | _, .map k e, v =>
    visit (.map k e) v ||
      (match v with
       | .cont items => items.anyKV (walkAny visit true k) (walkAny visit true e)
       | _ => false)
  | _, .union ts, v =>
    visit (.union ts) v ||
      (match v with
       | .cont (.cons (.prim tag) (.cons x .nil)) =>
         (match decodeTag tag with
          | some i => walkUnion visit ts i x
          | none => false)
       | _ => false)
  | _, .error t, v => visit (.error t) v || walkAny visit false t v
  | _, .prim id, v => visit (.prim id) v
  | _, .enum n, v => visit (.enum n) v
def walkFields (visit : Ty → Val → Bool) : Fields → Vals → Bool
  | .cons _ t r, .cons v vs => walkAny visit false t v || walkFields visit r vs
  | _, _ => false
def walkUnion (visit : Ty → Val → Bool) : Tys → Nat → Val → Bool
  | .cons t _, 0, v => walkAny visit false t v
  | .cons _ r, n + 1, v => walkUnion visit r n v
  | .nil, _, _ => false
end

/-! ## the predicates -/

/-- a string leaf containing the term (`typ.ID() == IDString`; a named string has that id). -/
def strLeaf (term : Bytes) (t : Ty) (v : Val) : Bool :=
  match under t, v with
  | .prim id, .prim b => id == idString && stringSearch term b
  | _, _ => false

/-- `searchString.Eval` on a value (the `expr` operand already applied). -/
def searchStringEval (term : Bytes) (t : Ty) (v : Val) : Bool :=
  searchType term t || walkAny (fun ty b => searchType term ty || strLeaf term ty b) false t v

/-- type id as `coerce.Equal` sees it: a named type has the id of what it names. -/
def idKey (t : Ty) : Ty := under t

/-- `coerce.Equal` for a non-number literal: same type id, same bytes, neither null. -/
def litEq (lt : Ty) (lv : Val) (t : Ty) (v : Val) : Bool :=
  idKey lt == idKey t && lv == v && !(v == .null)

/-- `search <non-string literal>`: a string leaf containing the text, or a leaf equal to the
    literal. -/
def searchLitEval (text : Bytes) (lt : Ty) (lv : Val) (t : Ty) (v : Val) : Bool :=
  walkAny (fun ty b => (match ty, b with
      | .prim id, .prim bs => id == idString && stringSearch text bs
      | _, _ => false) || litEq lt lv ty b) false t v

/-- `literal in container`. -/
def inEval (lt : Ty) (lv : Val) (t : Ty) (v : Val) : Bool :=
  walkAny (fun ty b => litEq lt lv ty b) false t v

/-- field access through records (named types looked through); `none` = error("missing"). -/
def getField : Fields → Vals → Bytes → Option (Ty × Val)
  | .cons n t r, .cons v vs, name => if n == name then some (t, v) else getField r vs name
  | _, _, _ => none

def getPath : Ty → Val → List Bytes → Option (Ty × Val)
  | t, v, [] => some (t, v)
  | t, v, name :: rest =>
    match under t, v with
    | .record fs, .cont items =>
      match getField fs items name with
      | some (t', v') => getPath t' v' rest
      | none => none
    | _, _ => none

end Zed.Bf
