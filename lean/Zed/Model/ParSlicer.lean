/-
  Model of the object lister order and the slicer (C08).
  Anchors: runtime/sam/op/meta/lister.go  sortObjects;
           runtime/sam/op/meta/slicer.go  Slicer.Pull / stash / nextPartition.

  Pool-key values are carried as integer ranks in the value order (`expr.NewValueCompareFn(
  order.Asc, nullsMax = true)`, which is what Slicer.cmp always is, whatever the pool's order);
  `minId`/`maxId` identify the value's bytes (sortObjects falls back to bytes equality).
-/
namespace Zed.Par

structure Obj where
  id : Nat
  min : Int
  max : Int
  minId : Nat := 0
  maxId : Nat := 0
  deriving DecidableEq, Repr, Inhabited

/-- sortObjects' lessFunc for a pool order (`desc = true`: from = Max, to = Min, comparison
    reversed by NewValueCompareFn(o, true)). -/
def listerLess (desc : Bool) (a b : Obj) : Bool :=
  let (aFrom, aTo, bFrom, bTo, aFromId, aToId, bFromId, bToId) :=
    if desc then (a.max, a.min, b.max, b.min, a.maxId, a.minId, b.maxId, b.minId)
    else (a.min, a.max, b.min, b.max, a.minId, a.maxId, b.minId, b.maxId)
  let lt := fun (x y : Int) => if desc then y < x else x < y
  if lt aFrom bFrom then true
  else if aFromId != bFromId then false
  else if aToId == bToId then false
  else lt aTo bTo

/-- Slicer.Pull over the whole lister output: `cur` = s.objects, `lo`/`hi` = s.min/s.max. -/
def sliceAux : List Obj → Int → Int → List Obj → List (List Obj)
  | cur, _, _, [] => if cur.isEmpty then [] else [cur]
  | cur, lo, hi, o :: rest =>
    if cur.isEmpty then sliceAux [o] o.min o.max rest
    else if o.max < lo ∨ o.min > hi then cur :: sliceAux [o] o.min o.max rest
    else sliceAux (cur ++ [o]) (if o.min < lo then o.min else lo) (if hi < o.max then o.max else hi) rest

def slice (objs : List Obj) : List (List Obj) := sliceAux [] 0 0 objs

/-- span of a partition as nextPartition computes it -/
def spanMin : List Obj → Int
  | [] => 0
  | o :: rest => rest.foldl (fun m x => if x.min < m then x.min else m) o.min
def spanMax : List Obj → Int
  | [] => 0
  | o :: rest => rest.foldl (fun m x => if m < x.max then x.max else m) o.max

end Zed.Par
