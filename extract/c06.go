package main

// Fact set C06: the id-class predicates of type.go (IsNumber, IsSigned, ...), the null
// branches and the case list of expr.compareValues, and the guard and sentinels of the
// int64 fast path of Comparator.sortStableIndices.

import (
	"fmt"
	"go/ast"
	"io/fs"
	"path/filepath"
	"sort"
	"strings"
)

func init() { register("C06", genC06) }

func genC06(repo string) (string, error) {
	tf, err := parseFile(repo, "type.go")
	if err != nil {
		return "", err
	}
	sf, err := parseFile(repo, "runtime/sam/expr/sort.go")
	if err != nil {
		return "", err
	}
	var ct constTable
	readConsts(tf, &ct)
	var b strings.Builder
	for _, n := range []string{"IsInteger", "IsNumber", "IsFloat", "IsSigned", "IsUnsigned"} {
		bs, err := predicateFunc(tf, n, &ct)
		if err != nil {
			return "", err
		}
		fmt.Fprintf(&b, "def %s%s : List (String × Int) := %s\n", strings.ToLower(n[:1]), n[1:], leanBounds(bs))
	}

	// ---- compareValues ----------------------------------------------------------------
	fd, err := sf.funcDecl("", "compareValues")
	if err != nil {
		return "", err
	}
	if got := renderParams(sf, fd.Type.Params); got != "a, b zed.Value; nullsMax bool" {
		return "", fmt.Errorf("%s: compareValues: parameters %s not recognised", sf.pos(fd), got)
	}
	stmts := fd.Body.List
	if len(stmts) < 6 {
		return "", fmt.Errorf("%s: compareValues: body too short", sf.pos(fd))
	}
	want := []string{"nullA := a.IsNull()", "nullB := b.IsNull()"}
	for i, w := range want {
		if got := renderStmt(sf, stmts[i]); got != w {
			return "", fmt.Errorf("%s: compareValues: statement %d is `%s`, expected `%s`", sf.pos(stmts[i]), i, got, w)
		}
	}
	// if nullA && nullB { return 0 }
	is, ok := stmts[2].(*ast.IfStmt)
	if !ok || renderExpr(sf, is.Cond) != "nullA && nullB" || is.Else != nil {
		return "", fmt.Errorf("%s: compareValues: `if nullA && nullB` not recognised", sf.pos(stmts[2]))
	}
	both, ok := intReturn(is.Body.List)
	if !ok {
		return "", fmt.Errorf("%s: compareValues: both-null branch is not `return n`", sf.pos(is))
	}
	fmt.Fprintf(&b, "def bothNull : Int := %d\n", both)
	nullBranch := func(s ast.Stmt, v string) (int64, int64, error) {
		is, ok := s.(*ast.IfStmt)
		if !ok || renderExpr(sf, is.Cond) != v || is.Else != nil || len(is.Body.List) != 1 {
			return 0, 0, fmt.Errorf("%s: compareValues: `if %s {…}` not recognised", sf.pos(s), v)
		}
		in, ok := is.Body.List[0].(*ast.IfStmt)
		if !ok || renderExpr(sf, in.Cond) != "nullsMax" || in.Else == nil {
			return 0, 0, fmt.Errorf("%s: compareValues: `if nullsMax {…} else {…}` not recognised", sf.pos(is))
		}
		eb, ok := in.Else.(*ast.BlockStmt)
		if !ok {
			return 0, 0, fmt.Errorf("%s: compareValues: else branch not a block", sf.pos(in))
		}
		x, ok1 := intReturn(in.Body.List)
		y, ok2 := intReturn(eb.List)
		if !ok1 || !ok2 {
			return 0, 0, fmt.Errorf("%s: compareValues: null branches are not integer returns", sf.pos(in))
		}
		return x, y, nil
	}
	x, y, err := nullBranch(stmts[3], "nullA")
	if err != nil {
		return "", err
	}
	fmt.Fprintf(&b, "/-- a null, b not: result when nullsMax, result when not -/\ndef nullA : Int × Int := (%d, %d)\n", x, y)
	x, y, err = nullBranch(stmts[4], "nullB")
	if err != nil {
		return "", err
	}
	fmt.Fprintf(&b, "def nullB : Int × Int := (%d, %d)\n", x, y)
	sw, ok := stmts[5].(*ast.SwitchStmt)
	if !ok || sw.Tag != nil || sw.Init == nil || renderStmt(sf, sw.Init) != "aid, bid := a.Type().ID(), b.Type().ID()" {
		return "", fmt.Errorf("%s: compareValues: `switch aid, bid := a.Type().ID(), b.Type().ID(); {` not recognised", sf.pos(stmts[5]))
	}
	var cases []string
	var special []string
	for _, s := range sw.Body.List {
		cc := s.(*ast.CaseClause)
		if len(cc.List) != 1 {
			return "", fmt.Errorf("%s: compareValues: case with %d expressions", sf.pos(cc), len(cc.List))
		}
		txt := renderExpr(sf, cc.List[0])
		cases = append(cases, txt)
		if strings.HasPrefix(txt, "aid == ") {
			bs, err := boundsOf(sf, cc.List[0], "aid", &ct)
			if err != nil {
				return "", err
			}
			special = append(special, bs[0][1])
		}
	}
	fmt.Fprintf(&b, "def compareCases : List String := %s\n", leanStrList(cases))
	fmt.Fprintf(&b, "def specialIds : List Nat := [%s]\n", strings.Join(special, ", "))
	var tail []string
	for _, s := range stmts[6:] {
		r := renderStmt(sf, s)
		if i := strings.Index(r, "{"); i >= 0 {
			r = strings.TrimSpace(r[:i])
		}
		tail = append(tail, r)
	}
	fmt.Fprintf(&b, "def compareTail : List String := %s\n", leanStrList(tail))

	// ---- compareNumbers: case order ------------------------------------------------------
	ef, err := parseFile(repo, "runtime/sam/expr/eval.go")
	if err != nil {
		return "", err
	}
	fd, err = ef.funcDecl("", "compareNumbers")
	if err != nil {
		return "", err
	}
	var ncases []string
	if len(fd.Body.List) != 2 {
		return "", fmt.Errorf("%s: compareNumbers: expected a switch and a return", ef.pos(fd))
	}
	nsw, ok := fd.Body.List[0].(*ast.SwitchStmt)
	if !ok || nsw.Tag != nil {
		return "", fmt.Errorf("%s: compareNumbers: tagless switch not found", ef.pos(fd))
	}
	for _, s := range nsw.Body.List {
		cc := s.(*ast.CaseClause)
		if len(cc.List) != 1 {
			return "", fmt.Errorf("%s: compareNumbers: case with %d expressions", ef.pos(cc), len(cc.List))
		}
		ncases = append(ncases, renderExpr(ef, cc.List[0]))
	}
	ncases = append(ncases, "default: "+renderStmt(ef, fd.Body.List[1]))
	fmt.Fprintf(&b, "def compareNumbersCases : List String := %s\n", leanStrList(ncases))

	// ---- sortStableIndices fast path -------------------------------------------------------
	fd, err = sf.funcDecl("Comparator", "sortStableIndices")
	if err != nil {
		return "", err
	}
	var guard *ast.IfStmt
	ast.Inspect(fd.Body, func(n ast.Node) bool {
		if is, ok := n.(*ast.IfStmt); ok && guard == nil && is.Init != nil &&
			renderStmt(sf, is.Init) == "id := val.Type().ID()" {
			guard = is
			return false
		}
		return true
	})
	if guard == nil {
		return "", fmt.Errorf("%s: sortStableIndices: `if id := val.Type().ID(); …` not found", sf.pos(fd))
	}
	gb, err := boundsOf(sf, guard.Cond, "id", &ct)
	if err != nil {
		return "", err
	}
	fmt.Fprintf(&b, "def fastPathGuard : List (String × Int) := %s\n", leanBounds(gb))
	// if val.IsNull() { if c.nullsMax { i64s[i] = math.MaxInt64 } else { i64s[i] = math.MinInt64 } } else if zed.IsSigned(id) {…} else {…clamp…}
	if len(guard.Body.List) != 1 {
		return "", fmt.Errorf("%s: sortStableIndices: fast-path body not recognised", sf.pos(guard))
	}
	in, ok := guard.Body.List[0].(*ast.IfStmt)
	if !ok || renderExpr(sf, in.Cond) != "val.IsNull()" || len(in.Body.List) != 1 {
		return "", fmt.Errorf("%s: sortStableIndices: `if val.IsNull()` not recognised", sf.pos(guard))
	}
	nm, ok := in.Body.List[0].(*ast.IfStmt)
	if !ok || renderExpr(sf, nm.Cond) != "c.nullsMax" || nm.Else == nil {
		return "", fmt.Errorf("%s: sortStableIndices: `if c.nullsMax` not recognised", sf.pos(in))
	}
	sentinel := func(stmts []ast.Stmt) (string, error) {
		if len(stmts) != 1 {
			return "", fmt.Errorf("sentinel branch not a single assignment")
		}
		r := renderStmt(sf, stmts[0])
		if !strings.HasPrefix(r, "i64s[i] = math.") {
			return "", fmt.Errorf("sentinel assignment `%s` not recognised", r)
		}
		return strings.TrimPrefix(r, "i64s[i] = math."), nil
	}
	s1, err := sentinel(nm.Body.List)
	if err != nil {
		return "", fmt.Errorf("%s: %v", sf.pos(nm), err)
	}
	eb, ok := nm.Else.(*ast.BlockStmt)
	if !ok {
		return "", fmt.Errorf("%s: sortStableIndices: else not a block", sf.pos(nm))
	}
	s2, err := sentinel(eb.List)
	if err != nil {
		return "", fmt.Errorf("%s: %v", sf.pos(nm), err)
	}
	fmt.Fprintf(&b, "/-- fast path: sentinel of a null key when nullsMax / when not -/\ndef fastNullSentinel : String × String := (%s, %s)\n", leanStr(s1), leanStr(s2))
	// else-if chain: `zed.IsSigned(id)` then the clamp
	ei, ok := in.Else.(*ast.IfStmt)
	if !ok || renderExpr(sf, ei.Cond) != "zed.IsSigned(id)" || ei.Else == nil {
		return "", fmt.Errorf("%s: sortStableIndices: `else if zed.IsSigned(id)` not recognised", sf.pos(in))
	}
	var signed, unsigned []string
	for _, s := range ei.Body.List {
		signed = append(signed, renderStmt(sf, s))
	}
	ub, ok := ei.Else.(*ast.BlockStmt)
	if !ok {
		return "", fmt.Errorf("%s: sortStableIndices: unsigned branch not a block", sf.pos(ei))
	}
	for _, s := range ub.List {
		unsigned = append(unsigned, renderStmt(sf, s))
	}
	fmt.Fprintf(&b, "def fastSigned : List String := %s\n", leanStrList(signed))
	fmt.Fprintf(&b, "def fastUnsigned : List String := %s\n", leanStrList(unsigned))
	if err := genC06Merge(repo, &b); err != nil {
		return "", err
	}
	if err := genC06NullsSites(repo, &b); err != nil {
		return "", err
	}
	return b.String(), nil
}

// genC06NullsSites: every place of the repository (non-test Go files) that constructs a value
// comparator — expr.NewComparator / NewCompareFn / NewValueCompareFn, zbuf.NewComparator /
// NewComparatorNullsMax, lake.ImportComparator — with the expression passed for nullsMax; when that
// is a local variable, the statements of the enclosing function that assign it (with the guarding
// `if` condition).
func genC06NullsSites(repo string, b *strings.Builder) error {
	argIndex := map[string]int{"NewComparator": 0, "NewCompareFn": 0, "NewValueCompareFn": 1}
	type site struct{ where, callee, nullsMax string }
	var sites []site
	var files []string
	err := filepath.WalkDir(repo, func(path string, d fs.DirEntry, err error) error {
		if err != nil {
			return err
		}
		if d.IsDir() {
			if n := d.Name(); n == ".git" || n == "vendor" || n == "node_modules" || n == "testdata" {
				return filepath.SkipDir
			}
			return nil
		}
		if strings.HasSuffix(path, ".go") && !strings.HasSuffix(path, "_test.go") {
			rel, _ := filepath.Rel(repo, path)
			files = append(files, rel)
		}
		return nil
	})
	if err != nil {
		return err
	}
	sort.Strings(files)
	for _, rel := range files {
		f, err := parseFile(repo, rel)
		if err != nil {
			return err
		}
		pkg := f.f.Name.Name
		for _, d := range f.f.Decls {
			fd, ok := d.(*ast.FuncDecl)
			if !ok || fd.Body == nil {
				continue
			}
			fname := fd.Name.Name
			if fd.Recv != nil && len(fd.Recv.List) == 1 {
				t := fd.Recv.List[0].Type
				if st, ok := t.(*ast.StarExpr); ok {
					t = st.X
				}
				if id, ok := t.(*ast.Ident); ok {
					fname = id.Name + "." + fname
				}
			}
			// assignments to local identifiers, with the condition of a directly enclosing if
			assigns := map[string][]string{}
			var walk func(n ast.Node, cond string)
			walk = func(n ast.Node, cond string) {
				ast.Inspect(n, func(n ast.Node) bool {
					switch x := n.(type) {
					case *ast.IfStmt:
						if x.Init != nil {
							walk(x.Init, cond)
						}
						walk(x.Body, "if "+renderExpr(f, x.Cond)+" ")
						if x.Else != nil {
							walk(x.Else, "if !("+renderExpr(f, x.Cond)+") ")
						}
						return false
					case *ast.AssignStmt:
						for _, l := range x.Lhs {
							if id, ok := l.(*ast.Ident); ok {
								assigns[id.Name] = append(assigns[id.Name], cond+renderStmt(f, x))
							}
						}
					}
					return true
				})
			}
			walk(fd.Body, "")
			ast.Inspect(fd.Body, func(n ast.Node) bool {
				call, ok := n.(*ast.CallExpr)
				if !ok {
					return true
				}
				var q, name string
				switch fn := call.Fun.(type) {
				case *ast.SelectorExpr:
					if x, ok := fn.X.(*ast.Ident); ok {
						q, name = x.Name, fn.Sel.Name
					}
				case *ast.Ident:
					q, name = pkg, fn.Name
				}
				callee := q + "." + name
				switch {
				case q == "expr" && (name == "NewComparator" || name == "NewCompareFn" || name == "NewValueCompareFn"):
					i := argIndex[name]
					if i >= len(call.Args) {
						return true
					}
					arg := renderExpr(f, call.Args[i])
					if id, ok := call.Args[i].(*ast.Ident); ok && id.Name != "true" && id.Name != "false" {
						if as := assigns[id.Name]; len(as) > 0 {
							arg = strings.Join(as, "; ")
						} else {
							arg = "parameter " + id.Name
						}
					}
					sites = append(sites, site{rel + ":" + fname, callee, arg})
				case callee == "zbuf.NewComparator" || callee == "zbuf.NewComparatorNullsMax" || callee == "lake.ImportComparator":
					sites = append(sites, site{rel + ":" + fname, callee, "(by callee)"})
				}
				return true
			})
		}
	}
	var rows []string
	for _, s := range sites {
		rows = append(rows, fmt.Sprintf("(%s, %s, %s)", leanStr(s.where), leanStr(s.callee), leanStr(s.nullsMax)))
	}
	fmt.Fprintf(b, "/-- every construction of a value comparator: (file:function, constructor, what is passed for nullsMax) -/\ndef comparatorSites : List (String × String × String) :=\n  [%s]\n", strings.Join(rows, ",\n   "))

	// sort.Op.setComparator from `nullsMax := …` on: -r flips the directions first
	sf, err := parseFile(repo, "runtime/sam/op/sort/sort.go")
	if err != nil {
		return err
	}
	fd, err := sf.funcDecl("Op", "setComparator")
	if err != nil {
		return err
	}
	var tail []string
	on := false
	for _, s := range fd.Body.List {
		if strings.HasPrefix(renderStmt(sf, s), "nullsMax :=") {
			on = true
		}
		if on {
			tail = append(tail, renderStmt(sf, s))
		}
	}
	fmt.Fprintf(b, "def sortSetComparator : List String := %s\n", leanStrList(tail))
	// the compare() function: default of the third argument and the choice of the comparator
	cf, err := parseFile(repo, "runtime/sam/expr/function/compare.go")
	if err != nil {
		return err
	}
	fd, err = cf.funcDecl("Compare", "Call")
	if err != nil {
		return err
	}
	var call []string
	for _, s := range fd.Body.List {
		r := renderStmt(cf, s)
		if is, ok := s.(*ast.IfStmt); ok && !strings.Contains(r, "cmp = ") {
			r = "if " + renderExpr(cf, is.Cond) + " { … nullsMax = args[2].Bool() }"
			if !strings.Contains(renderStmt(cf, s), "nullsMax = args[2].Bool()") {
				r = renderStmt(cf, s)
			}
		}
		call = append(call, r)
	}
	fmt.Fprintf(b, "def compareFuncCall : List String := %s\n", leanStrList(call))
	// the optimizer's range pruning calls compare(lhs, rhs, <literal>)
	of, err := parseFile(repo, "compiler/optimizer/optimizer.go")
	if err != nil {
		return err
	}
	fd, err = of.funcDecl("", "compare")
	if err != nil {
		return err
	}
	fmt.Fprintf(b, "def optimizerCompare : List String := %s\n", leanStrList(renderStmts(of, fd.Body.List)))
	// lake.ImportComparator and the parallelizer's guard for replacing a sort by a merge
	lf, err := parseFile(repo, "lake/writer.go")
	if err != nil {
		return err
	}
	fd, err = lf.funcDecl("", "ImportComparator")
	if err != nil {
		return err
	}
	fmt.Fprintf(b, "def importComparator : List String := %s\n", leanStrList(renderStmts(lf, fd.Body.List)))
	pf, err := parseFile(repo, "compiler/optimizer/parallelize.go")
	if err != nil {
		return err
	}
	guard := ""
	ast.Inspect(pf.f, func(n ast.Node) bool {
		cc, ok := n.(*ast.CaseClause)
		if !ok || len(cc.List) != 1 || renderExpr(pf, cc.List[0]) != "*dag.Sort" || guard != "" {
			return true
		}
		for _, s := range cc.Body {
			if is, ok := s.(*ast.IfStmt); ok && strings.Contains(renderExpr(pf, is.Cond), "NullsFirst") {
				guard = renderExpr(pf, is.Cond) + " => " + strings.Join(renderStmts(pf, is.Body.List), "; ")
			}
		}
		return true
	})
	fmt.Fprintf(b, "/-- parallelize.go, case *dag.Sort: when the sort is NOT replaced by per-leg sorts and a merge -/\ndef parallelSortGuard : String := %s\n", leanStr(guard))
	return nil
}

// genC06Merge: the shape of merge.Op (what Pull pops, the whole-batch emission rule, the fall back to
// a zbuf puller over Read, what Read takes, the heap order) and the value limit of that puller.
func genC06Merge(repo string, b *strings.Builder) error {
	mf, err := parseFile(repo, "runtime/sam/op/merge/merge.go")
	if err != nil {
		return err
	}
	pull, err := mf.funcDecl("Op", "Pull")
	if err != nil {
		return err
	}
	// the statements from `min := heap.Pop(o).(*puller)` on
	var tail []ast.Stmt
	for i, s := range pull.Body.List {
		if renderStmt(mf, s) == "min := heap.Pop(o).(*puller)" {
			tail = pull.Body.List[i:]
			break
		}
	}
	if len(tail) != 4 {
		return fmt.Errorf("%s: merge.Op.Pull: expected `min := heap.Pop(o).(*puller)` followed by three statements", mf.pos(pull))
	}
	is, ok := tail[1].(*ast.IfStmt)
	if !ok || is.Else != nil || is.Init != nil {
		return fmt.Errorf("%s: merge.Op.Pull: emission rule `if` not recognised", mf.pos(tail[1]))
	}
	fmt.Fprintf(b, "def mergeBatchRule : String := %s\n", leanStr(renderExpr(mf, is.Cond)))
	var body []string
	for _, s := range is.Body.List {
		if _, isIf := s.(*ast.IfStmt); isIf {
			x := s.(*ast.IfStmt)
			body = append(body, "if "+renderExpr(mf, x.Cond))
			continue
		}
		body = append(body, renderStmt(mf, s))
	}
	fmt.Fprintf(b, "def mergeBatchBody : List String := %s\n", leanStrList(body))
	fmt.Fprintf(b, "def mergeReadPath : List String := %s\n", leanStrList([]string{renderStmt(mf, tail[2]), renderStmt(mf, tail[3])}))
	// the guard before the pop: EOS exactly when the heap is empty
	var eos string
	for _, s := range pull.Body.List {
		if x, ok := s.(*ast.IfStmt); ok && renderExpr(mf, x.Cond) == "o.Len() == 0" {
			var rs []string
			for _, y := range x.Body.List {
				rs = append(rs, renderStmt(mf, y))
			}
			eos = strings.Join(rs, "; ")
		}
	}
	fmt.Fprintf(b, "def mergeEos : String := %s\n", leanStr(eos))
	read, err := mf.funcDecl("Op", "Read")
	if err != nil {
		return err
	}
	var reads []string
	for _, s := range read.Body.List {
		if x, ok := s.(*ast.IfStmt); ok {
			reads = append(reads, "if "+renderExpr(mf, x.Cond))
			continue
		}
		reads = append(reads, renderStmt(mf, s))
	}
	fmt.Fprintf(b, "def mergeRead : List String := %s\n", leanStrList(reads))
	less, err := mf.funcDecl("Op", "Less")
	if err != nil {
		return err
	}
	le, ok := singleReturn(less.Body.List)
	if !ok {
		return fmt.Errorf("%s: merge.Op.Less is not a single return", mf.pos(less))
	}
	fmt.Fprintf(b, "def mergeLess : String := %s\n", leanStr(renderExpr(mf, le)))
	// zbuf: value limit of NewPuller batches
	zf, err := parseFile(repo, "zbuf/batch.go")
	if err != nil {
		return err
	}
	limit := int64(-1)
	for _, d := range zf.f.Decls {
		gd, ok := d.(*ast.GenDecl)
		if !ok {
			continue
		}
		for _, sp := range gd.Specs {
			vs, ok := sp.(*ast.ValueSpec)
			if !ok {
				continue
			}
			for i, n := range vs.Names {
				if n.Name == "PullerBatchValues" && i < len(vs.Values) {
					if v, ok := intLit(vs.Values[i]); ok {
						limit = v
					}
				}
			}
		}
	}
	if limit < 0 {
		return fmt.Errorf("%s: PullerBatchValues is not an integer literal", zf.path)
	}
	fmt.Fprintf(b, "def pullerBatchValues : Nat := %d\n", limit)
	av, err := zf.funcDecl("pullerBatch", "appendVal")
	if err != nil {
		return err
	}
	full, ok := singleReturn(av.Body.List[len(av.Body.List)-1:])
	if !ok {
		return fmt.Errorf("%s: appendVal does not end in a return", zf.pos(av))
	}
	fmt.Fprintf(b, "def pullerBatchFull : String := %s\n", leanStr(renderExpr(zf, full)))
	np, err := zf.funcDecl("", "newPullerBatch")
	if err != nil {
		return err
	}
	capExpr := ""
	ast.Inspect(np, func(n ast.Node) bool {
		if kv, ok := n.(*ast.KeyValueExpr); ok {
			if k, ok := identName(kv.Key); ok && k == "vals" {
				capExpr = renderExpr(zf, kv.Value)
			}
		}
		return true
	})
	fmt.Fprintf(b, "def pullerBatchCap : String := %s\n", leanStr(capExpr))
	return nil
}
