import Zed.Model.FuseShape
/-!
  C20 model, layer 4 — the decidable guard of `fuse_lossless_partial` / `fuse_uniform_partial`:
  `goodStep a s` says the plan `s` built for input type `a` is free of primitive casts, reads
  every input field / member / element exactly where it writes it, and lands in the types it
  announces.  It is computed on the plan the model builds (the same plan the Go code builds,
  by the correspondence tie), not assumed.
-/
namespace Zed.Fuse

def RSteps.length : RSteps → Nat
  | .nil => 0
  | .cons _ _ r => r.length + 1

/-- the input-field indices a record step reads -/
def RSteps.indices : RSteps → List Nat
  | .nil => []
  | .cons none _ r => r.indices
  | .cons (some i) _ r => i :: r.indices

mutual
def goodStep : Ty → Step → Bool
  | a, .copy to => a.under == to.under
  | a, .null _ => a.under == tyNull
  | _, .castPrim _ _ => false
  | a, .toUnion tag to =>
    match to.members.get? tag with
    | some m => m.under == a.under
    | none => false
  | a, .fromUnion to cs => a.isUnion && goodMembers a.members cs to
  | a, .array to c =>
    match a.inner?, to.inner? with
    | some i, some oi => goodStep i c && c.toType.under == oi.under
    | _, _ => false
  | a, .set to c =>
    match a.inner?, to.inner? with
    | some i, some oi => goodStep i c && c.toType.under == oi.under
    | _, _ => false
  | a, .record to cs =>
    a.isRecord && to.isRecord && goodFields a.fields to.fields cs &&
      (List.range a.fields.length).all fun i => cs.indices.contains i
/-- one good child per member, each landing in `to` -/
def goodMembers : Tys → Steps → Ty → Bool
  | .nil, .nil, _ => true
  | .cons m ms, .cons s ss, to => goodStep m s && s.toType == to && goodMembers ms ss to
  | _, _, _ => false
/-- children aligned with the output fields `fo`; a reading child reads a same-named input
    field with a good step landing in the output field's type -/
def goodFields (fa : Fields) : Fields → RSteps → Bool
  | .nil, .nil => true
  | .cons _ _ fo, .cons none s cs => s.isNull && goodFields fa fo cs
  | .cons n t fo, .cons (some i) s cs =>
    (match fa.get? i with
     | some (n', ti) => n' == n && goodStep ti s && s.toType.under == t.under
     | none => false) && goodFields fa fo cs
  | _, _ => false
end

/-- The guard for one input under the cache state the shaper is in when it arrives. -/
def evalGuard (shapeTo : Ty) (c : Cache) (inT : Ty) (v : Val) : Bool :=
  if inT.isError then inT == shapeTo
  else if v = .null then true
  else if inT.under = shapeTo.under then true
  else
    match c.find inT.under with
    | some (_, s) => s.toType == shapeTo && goodStep inT s
    | none =>
      match newShaper inT shapeTo with
      | .error _ => false
      | .ok (_, s) => s.toType == shapeTo && goodStep inT s

def guardsFrom (shapeTo : Ty) : Cache → List Input → List Bool
  | _, [] => []
  | c, x :: xs =>
    evalGuard shapeTo c x.ty x.val :: guardsFrom shapeTo (evalShaper shapeTo c x.ty x.val).2 xs

def guardAll (schema : Option Ty) (xs : List Input) : List Bool :=
  match schema with
  | none => []
  | some t => guardsFrom t [] xs

end Zed.Fuse
