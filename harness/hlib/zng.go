package hlib

// ZNG helpers shared by the C01 and C11 harnesses: a generator over the whole Zed type
// system (several zed.Contexts, rebound names, nulls of every type, empty containers,
// boundary primitives), the structural type rendering the Lean model reads, an independent
// frame walker that strips or applies LZ4, and runners for the real reader.

import (
	"bufio"
	"bytes"
	"context"
	"encoding/binary"
	"encoding/hex"
	"errors"
	"fmt"
	"io"
	"math"
	"math/rand"
	"net/netip"
	"os"
	"os/exec"
	"strings"

	zed "github.com/brimdata/super"
	"github.com/brimdata/super/pkg/nano"
	"github.com/brimdata/super/zbuf"
	"github.com/brimdata/super/zcode"
	"github.com/brimdata/super/zio/zngio"
	"github.com/pierrec/lz4/v4"
)

// ---- model session with a large stack ------------------------------------------------

// ModelBigStack is like Ctx.Model but starts the Lean driver with a large stack limit: the
// model's decoders recurse once per value of a frame.
func (c *Ctx) ModelBigStack() *Model {
	if c.model != nil {
		return c.model
	}
	cmd := exec.Command("/bin/sh", "-c", "ulimit -s 4000000 2>/dev/null || ulimit -s unlimited 2>/dev/null; exec \"$0\"", c.driver)
	cmd.Stderr = os.Stderr
	in, err := cmd.StdinPipe()
	if err != nil {
		panic(err)
	}
	out, err := cmd.StdoutPipe()
	if err != nil {
		panic(err)
	}
	if err := cmd.Start(); err != nil {
		panic(fmt.Errorf("cannot start Lean driver %s: %w", c.driver, err))
	}
	c.model = &Model{cmd: cmd, in: in, w: bufio.NewWriterSize(in, 1<<20), out: bufio.NewReaderSize(out, 1<<20)}
	return c.model
}

// HexAtom (bytes → hex atom, "-" = empty) lives in ztypes.go.

func UnhexAtom(s string) ([]byte, error) {
	if s == "-" {
		return []byte{}, nil
	}
	return hex.DecodeString(s)
}

// ---- values ----------------------------------------------------------------------------

// ZVal is a value at the level C01 talks about: structural type, body bytes, null flag.
type ZVal struct {
	Ty   string // structural rendering (TySexp)
	Body []byte
	Null bool
}

func (v ZVal) BodyAtom() string {
	if v.Null {
		return "null"
	}
	return HexAtom(v.Body)
}

func (v ZVal) String() string { return v.Ty + ":" + v.BodyAtom() }

func ZValOf(val zed.Value) ZVal {
	b := val.Bytes()
	return ZVal{Ty: TySexp(val.Type()), Body: append([]byte{}, b...), Null: b == nil}
}

func SameZVals(a, b []ZVal) (int, bool) {
	n := len(a)
	if len(b) < n {
		n = len(b)
	}
	for i := 0; i < n; i++ {
		if a[i].Ty != b[i].Ty || a[i].Null != b[i].Null || !bytes.Equal(a[i].Body, b[i].Body) {
			return i, false
		}
	}
	if len(a) != len(b) {
		return n, false
	}
	return -1, true
}

// TySexp renders a type structurally, in the syntax of the Lean driver (Drv/ZngGlue.lean).
func TySexp(t zed.Type) string {
	var sb strings.Builder
	tySexp(&sb, t)
	return sb.String()
}

func tySexp(sb *strings.Builder, t zed.Type) {
	switch t := t.(type) {
	case *zed.TypeNamed:
		sb.WriteString("(nam " + HexAtom([]byte(t.Name)) + " ")
		tySexp(sb, t.Type)
		sb.WriteString(")")
	case *zed.TypeRecord:
		sb.WriteString("(rec")
		for _, f := range t.Fields {
			sb.WriteString(" (" + HexAtom([]byte(f.Name)) + " ")
			tySexp(sb, f.Type)
			sb.WriteString(")")
		}
		sb.WriteString(")")
	case *zed.TypeArray:
		sb.WriteString("(arr ")
		tySexp(sb, t.Type)
		sb.WriteString(")")
	case *zed.TypeSet:
		sb.WriteString("(set ")
		tySexp(sb, t.Type)
		sb.WriteString(")")
	case *zed.TypeMap:
		sb.WriteString("(map ")
		tySexp(sb, t.KeyType)
		sb.WriteString(" ")
		tySexp(sb, t.ValType)
		sb.WriteString(")")
	case *zed.TypeUnion:
		sb.WriteString("(uni")
		for _, m := range t.Types {
			sb.WriteString(" ")
			tySexp(sb, m)
		}
		sb.WriteString(")")
	case *zed.TypeEnum:
		sb.WriteString("(enum")
		for _, s := range t.Symbols {
			sb.WriteString(" " + HexAtom([]byte(s)))
		}
		sb.WriteString(")")
	case *zed.TypeError:
		sb.WriteString("(err ")
		tySexp(sb, t.Type)
		sb.WriteString(")")
	default:
		fmt.Fprintf(sb, "(p %d)", t.ID())
	}
}

// ---- generator -------------------------------------------------------------------------

type ZGen struct {
	R    *rand.Rand
	Ctxs []*zed.Context
	// MaxDepth bounds type nesting.
	MaxDepth int
	Names    []string
	Fields   []string
	// BigBody makes an occasional long bytes/string body of about this size.
	BigBody int
}

func NewZGen(r *rand.Rand, nctx, depth int) *ZGen {
	g := &ZGen{R: r, MaxDepth: depth,
		Names:  []string{"a", "b", "port", "ünï", "a.b", "t"},
		Fields: []string{"a", "b", "c", "", "x y", "ключ", "a", "ts"}}
	for i := 0; i < nctx; i++ {
		g.Ctxs = append(g.Ctxs, zed.NewContext())
	}
	return g
}

var ZPrims = []zed.Type{zed.TypeUint8, zed.TypeUint16, zed.TypeUint32, zed.TypeUint64, zed.TypeInt8, zed.TypeInt16,
	zed.TypeInt32, zed.TypeInt64, zed.TypeDuration, zed.TypeTime, zed.TypeFloat16, zed.TypeFloat32, zed.TypeFloat64,
	zed.TypeBool, zed.TypeBytes, zed.TypeString, zed.TypeIP, zed.TypeNet, zed.TypeType, zed.TypeNull}

// Type makes a random type in zctx.
func (g *ZGen) Type(zctx *zed.Context, depth int) zed.Type {
	r := g.R
	if depth <= 0 || r.Intn(4) == 0 {
		return ZPrims[r.Intn(len(ZPrims))]
	}
	switch r.Intn(9) {
	case 0, 1:
		n := r.Intn(5)
		var fields []zed.Field
		seen := map[string]bool{}
		for i := 0; i < n; i++ {
			name := g.Fields[r.Intn(len(g.Fields))]
			if seen[name] {
				continue
			}
			seen[name] = true
			fields = append(fields, zed.NewField(name, g.Type(zctx, depth-1)))
		}
		t, err := zctx.LookupTypeRecord(fields)
		if err != nil {
			panic(err)
		}
		return t
	case 2:
		return zctx.LookupTypeArray(g.Type(zctx, depth-1))
	case 3:
		return zctx.LookupTypeSet(g.Type(zctx, depth-1))
	case 4:
		return zctx.LookupTypeMap(g.Type(zctx, depth-1), g.Type(zctx, depth-1))
	case 5:
		n := 1 + r.Intn(4)
		var types []zed.Type
		for i := 0; i < n; i++ {
			types = append(types, g.Type(zctx, depth-1))
		}
		types = zed.UniqueTypes(types)
		return zctx.LookupTypeUnion(types)
	case 6:
		n := r.Intn(4)
		var syms []string
		for i := 0; i < n; i++ {
			syms = append(syms, []string{"a", "b", "", "é", "zz"}[r.Intn(5)])
		}
		return zctx.LookupTypeEnum(syms)
	case 7:
		return zctx.LookupTypeError(g.Type(zctx, depth-1))
	default:
		// named; the small name pool makes the same name get rebound to different
		// types inside one context and shadowed inside one type
		t, err := zctx.LookupTypeNamed(g.Names[r.Intn(len(g.Names))], g.Type(zctx, depth-1))
		if err != nil {
			panic(err)
		}
		return t
	}
}

var zInts = []int64{0, 1, -1, 127, -128, 255, 256, 65535, math.MaxInt32, math.MinInt32, math.MaxInt64, math.MinInt64, 1 << 53, 42}
var zUints = []uint64{0, 1, 127, 128, 255, 256, 65535, math.MaxUint32, math.MaxUint64, 1 << 63, 42}
var zFloats = []float64{0, math.Copysign(0, -1), 1, -1.5, math.NaN(), math.Inf(1), math.Inf(-1), math.MaxFloat64, math.SmallestNonzeroFloat64, 65504, 1e-8}
var zStrings = []string{"", "a", "hello world", "ünïcödé", "\x00", "日本語", "a\nb\"c\\", strings.Repeat("x", 130), strings.Repeat("y", 20000)}

// Body makes a random well-formed body for typ (nil = null).
func (g *ZGen) Body(zctx *zed.Context, typ zed.Type, top bool) zcode.Bytes {
	r := g.R
	if typ == zed.TypeNull {
		return nil
	}
	if r.Intn(8) == 0 {
		return nil
	}
	switch t := typ.(type) {
	case *zed.TypeNamed:
		return g.Body(zctx, t.Type, false)
	case *zed.TypeError:
		return g.Body(zctx, t.Type, false)
	case *zed.TypeRecord:
		var b zcode.Builder
		for _, f := range t.Fields {
			b.Append(g.Body(zctx, f.Type, false))
		}
		return nonNil(b.Bytes())
	case *zed.TypeArray:
		var b zcode.Builder
		for i, n := 0, g.count(); i < n; i++ {
			b.Append(g.Body(zctx, t.Type, false))
		}
		return nonNil(b.Bytes())
	case *zed.TypeSet:
		var b zcode.Builder
		for i, n := 0, g.count(); i < n; i++ {
			b.Append(g.Body(zctx, t.Type, false))
		}
		return nonNil(zed.NormalizeSet(nonNil(b.Bytes())))
	case *zed.TypeMap:
		var b zcode.Builder
		for i, n := 0, g.count(); i < n; i++ {
			b.Append(g.Body(zctx, t.KeyType, false))
			b.Append(g.Body(zctx, t.ValType, false))
		}
		return nonNil(zed.NormalizeMap(nonNil(b.Bytes())))
	case *zed.TypeUnion:
		tag := r.Intn(len(t.Types))
		var b zcode.Builder
		b.Append(zed.EncodeInt(int64(tag)))
		b.Append(g.Body(zctx, t.Types[tag], false))
		return nonNil(b.Bytes())
	case *zed.TypeEnum:
		if len(t.Symbols) == 0 {
			return nil
		}
		return nonNil(zed.EncodeUint(uint64(r.Intn(len(t.Symbols)))))
	}
	switch typ.ID() {
	case zed.IDUint8, zed.IDUint16, zed.IDUint32, zed.IDUint64:
		return nonNil(zed.EncodeUint(zUints[r.Intn(len(zUints))]))
	case zed.IDInt8, zed.IDInt16, zed.IDInt32, zed.IDInt64, zed.IDDuration, zed.IDTime:
		return nonNil(zed.EncodeInt(zInts[r.Intn(len(zInts))]))
	case zed.IDFloat16:
		return zed.EncodeFloat16(float32(zFloats[r.Intn(len(zFloats))]))
	case zed.IDFloat32:
		return zed.EncodeFloat32(float32(zFloats[r.Intn(len(zFloats))]))
	case zed.IDFloat64:
		return zed.EncodeFloat64(zFloats[r.Intn(len(zFloats))])
	case zed.IDBool:
		return zed.EncodeBool(r.Intn(2) == 0)
	case zed.IDBytes:
		if g.BigBody > 0 && top && r.Intn(6) == 0 {
			b := make([]byte, g.BigBody+r.Intn(64))
			r.Read(b)
			return b
		}
		b := make([]byte, []int{0, 1, 3, 127, 128, 300}[r.Intn(6)])
		r.Read(b)
		return b
	case zed.IDString:
		if g.BigBody > 0 && top && r.Intn(6) == 0 {
			return []byte(strings.Repeat("z", g.BigBody+r.Intn(64)))
		}
		return nonNil([]byte(zStrings[r.Intn(len(zStrings))]))
	case zed.IDIP:
		if r.Intn(2) == 0 {
			return zed.EncodeIP(netip.AddrFrom4([4]byte{10, 0, byte(r.Intn(256)), 1}))
		}
		return zed.EncodeIP(netip.MustParseAddr("2001:db8::" + fmt.Sprint(r.Intn(100))))
	case zed.IDNet:
		if r.Intn(2) == 0 {
			return zed.EncodeNet(netip.MustParsePrefix("10.1.0.0/16"))
		}
		return zed.EncodeNet(netip.MustParsePrefix("2001:db8::/32"))
	case zed.IDType:
		return zed.EncodeTypeValue(g.Type(zctx, 2))
	}
	_ = nano.Ts(0)
	panic(fmt.Sprintf("ZGen.Body: unhandled type %T", typ))
}

func (g *ZGen) count() int { return []int{0, 0, 1, 2, 3, 5}[g.R.Intn(6)] }

func nonNil(b []byte) []byte {
	if b == nil {
		return []byte{}
	}
	return b
}

// Value makes a random value whose type lives in one of the generator's contexts; it
// returns the context index as well.
func (g *ZGen) Value() (zed.Value, int) {
	ci := g.R.Intn(len(g.Ctxs))
	zctx := g.Ctxs[ci]
	t := g.Type(zctx, g.MaxDepth)
	return zed.NewValue(t, g.Body(zctx, t, true)), ci
}

// ---- frames ----------------------------------------------------------------------------

// ZFrame is one item of a ZNG byte stream as the independent walker sees it.
type ZFrame struct {
	EOS        bool
	Kind       int
	Compressed bool
	Payload    []byte // uncompressed payload
	Raw        []byte // the frame as it appeared (header + body)
	HdrLen     int
}

var ErrZFrame = errors.New("frame walker: malformed stream")

// ZngFrames splits a well-formed stream into frames (decompressing LZ4 payloads).
func ZngFrames(b []byte) ([]ZFrame, error) {
	var out []ZFrame
	for off := 0; off < len(b); {
		start := off
		code := b[off]
		off++
		if code == 0xff {
			out = append(out, ZFrame{EOS: true, Raw: b[start:off]})
			continue
		}
		if code&0x80 != 0 {
			return nil, ErrZFrame
		}
		u, n := binary.Uvarint(b[off:])
		if n <= 0 {
			return nil, ErrZFrame
		}
		off += n
		length := int(u<<4) | int(code&0xf)
		f := ZFrame{Kind: int(code>>4) & 3, Compressed: code&0x40 != 0}
		if !f.Compressed {
			if off+length > len(b) {
				return nil, ErrZFrame
			}
			f.HdrLen = off - start
			f.Payload = b[off : off+length]
			off += length
		} else {
			if off >= len(b) || b[off] != 0 {
				return nil, ErrZFrame
			}
			hdr := off
			off++
			size, n := binary.Uvarint(b[off:])
			if n <= 0 {
				return nil, ErrZFrame
			}
			off += n
			zlen := length - (off - hdr)
			if zlen < 0 || off+zlen > len(b) {
				return nil, ErrZFrame
			}
			f.HdrLen = off - start
			ubuf := make([]byte, size)
			got, err := lz4.UncompressBlock(b[off:off+zlen], ubuf)
			if err != nil || got != int(size) {
				return nil, fmt.Errorf("%w: lz4: %v", ErrZFrame, err)
			}
			f.Payload = ubuf
			off += zlen
		}
		f.Raw = b[start:off]
		out = append(out, f)
	}
	return out, nil
}

func zPlainHeader(kind, size int) []byte {
	h := []byte{byte(kind<<4 | size&0xf)}
	return binary.AppendUvarint(h, uint64(size>>4))
}

func uvarintLen(u uint64) int { return len(binary.AppendUvarint(nil, u)) }

// ZngAssemble writes frames back; compress(i) asks for LZ4 on frame i (used only when the
// compressor produces something smaller, like the real writer).
func ZngAssemble(frames []ZFrame, compress func(i int) bool) []byte {
	var out []byte
	var c lz4.Compressor
	for i, f := range frames {
		if f.EOS {
			out = append(out, 0xff)
			continue
		}
		if compress != nil && compress(i) && len(f.Payload) > 0 {
			zbuf := make([]byte, len(f.Payload))
			zlen, err := c.CompressBlock(f.Payload, zbuf)
			if err == nil && zlen > 0 {
				total := zlen + 1 + uvarintLen(uint64(len(f.Payload)))
				out = append(out, byte(f.Kind<<4|total&0xf|0x40))
				out = binary.AppendUvarint(out, uint64(total>>4))
				out = append(out, 0)
				out = binary.AppendUvarint(out, uint64(len(f.Payload)))
				out = append(out, zbuf[:zlen]...)
				continue
			}
		}
		out = append(out, zPlainHeader(f.Kind, len(f.Payload))...)
		out = append(out, f.Payload...)
	}
	return out
}

// ZngStripLZ4 rewrites every compressed frame as an uncompressed one.
func ZngStripLZ4(b []byte) ([]byte, int, error) {
	frames, err := ZngFrames(b)
	if err != nil {
		return nil, 0, err
	}
	n := 0
	for _, f := range frames {
		if f.Compressed {
			n++
		}
	}
	return ZngAssemble(frames, nil), n, nil
}

// ---- running the real reader ------------------------------------------------------------

// ChunkReader hands out at most Chunk bytes per Read and, if EOFWithData, returns io.EOF
// together with the last bytes.
type ChunkReader struct {
	B           []byte
	Chunk       int
	EOFWithData bool
}

func (c *ChunkReader) Read(p []byte) (int, error) {
	if len(c.B) == 0 {
		return 0, io.EOF
	}
	n := len(p)
	if c.Chunk > 0 && n > c.Chunk {
		n = c.Chunk
	}
	if n > len(c.B) {
		n = len(c.B)
	}
	copy(p, c.B[:n])
	c.B = c.B[n:]
	if len(c.B) == 0 && c.EOFWithData {
		return n, io.EOF
	}
	return n, nil
}

type ZReadOpts struct {
	Opts  zngio.ReaderOpts
	Scan  bool // use NewScanner + Pull instead of Read
	Chunk int
	EOFWD bool
	Ctx   context.Context
}

// ZngReadAll runs the real reader over data in the calling goroutine.  Values delivered
// before an error are returned together with the error.
func ZngReadAll(zctx *zed.Context, data []byte, o ZReadOpts) (vals []ZVal, err error) {
	var src io.Reader = bytes.NewReader(data)
	if o.Chunk > 0 || o.EOFWD {
		src = &ChunkReader{B: data, Chunk: o.Chunk, EOFWithData: o.EOFWD}
	}
	r := zngio.NewReaderWithOpts(zctx, src, o.Opts)
	defer r.Close()
	if !o.Scan {
		for {
			v, err := r.Read()
			if err != nil {
				return vals, err
			}
			if v == nil {
				return vals, nil
			}
			vals = append(vals, ZValOf(*v))
		}
	}
	ctx := o.Ctx
	if ctx == nil {
		ctx = context.Background()
	}
	s, err := r.NewScanner(ctx, nil)
	if err != nil {
		return nil, err
	}
	defer s.Pull(true)
	for {
		b, err := s.Pull(false)
		if err != nil {
			if _, ok := err.(*zbuf.Control); ok {
				continue
			}
			return vals, err
		}
		if b == nil {
			return vals, nil
		}
		for _, v := range b.Values() {
			vals = append(vals, ZValOf(v))
		}
		b.Unref()
	}
}

// ---- parsing the model's answers ----------------------------------------------------------

// ModelRead is the model reader's answer: (<outcome> (allocs n…) (vals (ty body)…)).
type ModelRead struct {
	Outcome string
	Allocs  []int
	Vals    []ZVal
	NVals   int
	Need    string // C11: "(need zhex size)" request for the LZ4 oracle
}

// ParseModelRead parses the answer line; types are kept as their rendering.
func ParseModelRead(s string) (ModelRead, error) {
	var m ModelRead
	toks := sexpTokens(s)
	p := &sexpParser{toks: toks}
	top, err := p.parse()
	if err != nil {
		return m, fmt.Errorf("model answer %q: %v", trunc(s, 200), err)
	}
	if top.atom != "" || len(top.list) < 1 {
		return m, fmt.Errorf("model answer %q", trunc(s, 200))
	}
	if top.list[0].atom == "need" {
		m.Need = s
		return m, nil
	}
	if len(top.list) != 3 {
		return m, fmt.Errorf("model answer %q", trunc(s, 200))
	}
	m.Outcome = top.list[0].atom
	for _, a := range top.list[1].list[1:] {
		var n int
		fmt.Sscan(a.atom, &n)
		m.Allocs = append(m.Allocs, n)
	}
	vs := top.list[2].list
	if len(vs) == 2 && vs[1].atom != "" {
		fmt.Sscan(vs[1].atom, &m.NVals)
		return m, nil
	}
	for _, v := range vs[1:] {
		if len(v.list) != 2 {
			return m, fmt.Errorf("model value %q", v.String())
		}
		zv := ZVal{Ty: v.list[0].String()}
		if v.list[1].atom == "null" {
			zv.Null = true
		} else {
			b, err := UnhexAtom(v.list[1].atom)
			if err != nil {
				return m, err
			}
			zv.Body = b
		}
		m.Vals = append(m.Vals, zv)
	}
	m.NVals = len(m.Vals)
	return m, nil
}

func trunc(s string, n int) string {
	if len(s) > n {
		return s[:n] + "…"
	}
	return s
}

type sexpNode struct {
	atom string
	list []*sexpNode
}

func (n *sexpNode) String() string {
	if n.list == nil && n.atom != "" {
		return n.atom
	}
	parts := make([]string, len(n.list))
	for i, c := range n.list {
		parts[i] = c.String()
	}
	return "(" + strings.Join(parts, " ") + ")"
}

func sexpTokens(s string) []string {
	var out []string
	cur := 0
	flush := func(i int) {
		if i > cur {
			out = append(out, s[cur:i])
		}
	}
	for i := 0; i < len(s); i++ {
		switch s[i] {
		case '(', ')':
			flush(i)
			out = append(out, s[i:i+1])
			cur = i + 1
		case ' ', '\t', '\n', '\r':
			flush(i)
			cur = i + 1
		}
	}
	flush(len(s))
	return out
}

type sexpParser struct {
	toks []string
	pos  int
}

func (p *sexpParser) parse() (*sexpNode, error) {
	if p.pos >= len(p.toks) {
		return nil, errors.New("unexpected end")
	}
	t := p.toks[p.pos]
	p.pos++
	if t == ")" {
		return nil, errors.New("unexpected )")
	}
	if t != "(" {
		return &sexpNode{atom: t}, nil
	}
	n := &sexpNode{list: []*sexpNode{}}
	for {
		if p.pos >= len(p.toks) {
			return nil, errors.New("unclosed (")
		}
		if p.toks[p.pos] == ")" {
			p.pos++
			return n, nil
		}
		c, err := p.parse()
		if err != nil {
			return nil, err
		}
		n.list = append(n.list, c)
	}
}
