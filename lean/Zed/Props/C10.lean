/-
  C10 — aggregation and join agree with naive evaluation at any memory limit, input order,
  declared sortedness and partial decomposition.

  Property theorems only; the proofs' helper lemmas are in Zed/Proofs/Agg*.lean, the models in
  Zed/Model/Agg*.lean, the aggregate table in Zed.Generated.C10 (regenerated from
  runtime/sam/expr/agg/*.go and runtime/sam/expr/agg.go on every check).

  What is full, what is partial, what is negated
  * `agg_partial_hom*`, `agg_perm_*`: every aggregate of the regenerated table that the property
    names, over its model monoid — full for count, sum/min/max (exact integers: the
    accumulator classes uint < int < float with promotion, typed nulls, skipped values), avg
    (exact), and, or, union, dcount, fuse (set states), collect (ordered, chunk order).
  * IEEE addition (sum and avg over floats) is NOT a monoid: `…_fsum_partial`,
    `…_favg_partial` under the guard `ExactlySummable`, for every rounding function; the
    unguarded statement is refuted (`not_agg_partial_hom_fsum`).
  * collect under a permutation of the input: only the multiset is fixed
    (`agg_perm_collect_partial`; `not_agg_perm_collect` refutes equality).
  * `groupby_naive` is FALSE of the current code (and of the model, which keeps the defect):
    the in-memory table separates keys by type and bytes, the spill merge joins rows whose
    keys compare equal.  `not_groupby_naive` proves the negation on the confirmed witness
    (keys 1, 1(uint64), 1. with limit 2); `groupby_naive_partial` holds under the guard
    `KeysTypeHomogeneousOrNoSpill`.
  * `sorted_release_safe_partial`: the early release of the sorted-input mode WITH spills
    (maxTableKey / maxSpillKey gating, release from the merged spill files), for every batching,
    every limit and every row maxSpillKey may be taken from; guard: comparator faithful on the
    keys present (the spill-merge defect again); `sorted_release_safe_nospill` is the unguarded
    statement for the in-memory path.  The hypothesis — sorted on the FIRST key — is needed
    (`not_sorted_release_safe_unsorted`), and the code establishes it: since fix 32e95e058 the
    optimizer declares a summarize's input sorted only when the sort key is its first key;
    `sorted_declared_on_first_key_only` re-checks that on the regenerated facts.
  * `join_naive`: full for keys present, both inputs sorted under the join's comparator;
    `not_join_naive_unsorted`: false otherwise (the model-level witness of the confirmed
    defect with null keys under a descending order: the sort operator puts nulls last, the
    join's comparator expects them first).
-/
import Zed.Model.AggMonoid
import Zed.Model.AggGroupby
import Zed.Model.AggJoin
import Zed.Generated.C10
import Zed.Proofs.AggMonoid
import Zed.Proofs.AggGroupby
import Zed.Proofs.AggSorted
import Zed.Proofs.AggSortedSpill
import Zed.Model.AggSortedSpill
import Zed.Proofs.AggJoin
import Zed.Proofs.AggJoinPlan
import Zed.Model.AggJoinPlan
namespace Zed.Props.C10
open Zed.Agg
open Zed.Proofs

/-! ### T1: obligations on the regenerated aggregate table -/

/-- The regenerated aggregate table (name, needs-argument, implementing type, constructor
    argument, shape of ResultAsPartial, shape of ConsumeAsPartial) is exactly the table the
    model was written against. -/
theorem agg_table_matches_model : Zed.Generated.C10.aggs = modelTable := by decide

/-- Every aggregate the code offers is either modelled here or deliberately excluded. -/
theorem agg_table_covered :
    ∀ a ∈ Zed.Generated.C10.aggs, a.1 ∈ modelled ∨ a.1 ∈ excluded := by decide

/-- Every aggregate the property names exists in the code. -/
theorem modelled_exist : ∀ n ∈ modelled, n ∈ Zed.Generated.C10.aggs.map (·.1) := by decide

/-- Aggregator.Apply feeds every non-missing argument value to Consume (and only those). -/
theorem apply_skips_missing : Zed.Generated.C10.applySkipsMissing = true := by decide

/-- The optimizer tells a summarize that its input is sorted only by looking at the FIRST
    group-by key (both places that decide it) — the hypothesis of `sorted_release_safe_partial`
    is about the first key (`prim`).  Before fix 32e95e058 both loops ranged over all keys. -/
theorem sorted_declared_on_first_key_only :
    Zed.Generated.C10.sortedInputKeyRanges =
      ["op.Keys[:min(1, len(op.Keys))]", "summarize.Keys[:min(1, len(summarize.Keys))]"] := by decide

/-! ### aggregates: partial composition and input-order independence -/

variable {M α : Type}

/-- **agg_partial_hom** (generic).  For a monoid: combining the partials of the chunks, in
    chunk order, equals aggregating the concatenation — for every chunking. -/
theorem agg_partial_hom (m : Mon M) (hm : m.Laws) (f : α → M) (chunks : List (List α)) :
    m.combineAll (chunks.map (m.fold f)) = m.fold f chunks.flatten :=
  AggMonoid.partial_hom m hm f chunks

/-- For a commutative monoid the input order is irrelevant. -/
theorem agg_perm (m : Mon M) (hm : m.CommLaws) (f : α → M) {xs ys : List α} (h : xs.Perm ys) :
    m.fold f xs = m.fold f ys :=
  AggMonoid.fold_perm m hm f h

/-- … and the partials may be produced from any permutation of the input cut into any chunks
    and combined in any order (scatter legs finish in any order). -/
theorem agg_partial_hom_any_order (m : Mon M) (hm : m.CommLaws) (f : α → M)
    (chunks : List (List α)) (ps : List M) (xs : List α)
    (hps : ps.Perm (chunks.map (m.fold f))) (hxs : xs.Perm chunks.flatten) :
    m.combineAll ps = m.fold f xs :=
  AggMonoid.partial_hom_perm m hm f chunks ps xs hps hxs

/-- A row of aggregates (valRow) is the product of its aggregates' monoids. -/
theorem agg_row_laws {N : Type} (m : Mon M) (n : Mon N) (hm : m.CommLaws) (hn : n.CommLaws) :
    (m.prod n).CommLaws :=
  AggMonoid.prod_commLaws m n hm hn

theorem agg_partial_hom_count (chunks : List (List AVal)) :
    countMon.combineAll (chunks.map (countMon.fold countF)) = countMon.fold countF chunks.flatten :=
  agg_partial_hom _ AggMonoid.countMon_laws.toLaws _ _
theorem agg_partial_hom_sum (chunks : List (List AVal)) :
    sumMon.combineAll (chunks.map (sumMon.fold mathF)) = sumMon.fold mathF chunks.flatten :=
  agg_partial_hom _ AggMonoid.sumMon_laws.toLaws _ _
theorem agg_partial_hom_min (chunks : List (List AVal)) :
    minMon.combineAll (chunks.map (minMon.fold mathF)) = minMon.fold mathF chunks.flatten :=
  agg_partial_hom _ AggMonoid.minMon_laws.toLaws _ _
theorem agg_partial_hom_max (chunks : List (List AVal)) :
    maxMon.combineAll (chunks.map (maxMon.fold mathF)) = maxMon.fold mathF chunks.flatten :=
  agg_partial_hom _ AggMonoid.maxMon_laws.toLaws _ _
theorem agg_partial_hom_avg (chunks : List (List AVal)) :
    avgMon.combineAll (chunks.map (avgMon.fold avgF)) = avgMon.fold avgF chunks.flatten :=
  agg_partial_hom _ AggMonoid.avgMon_laws.toLaws _ _
theorem agg_partial_hom_and (chunks : List (List AVal)) :
    andMon.combineAll (chunks.map (andMon.fold boolF)) = andMon.fold boolF chunks.flatten :=
  agg_partial_hom _ AggMonoid.andMon_laws.toLaws _ _
theorem agg_partial_hom_or (chunks : List (List AVal)) :
    orMon.combineAll (chunks.map (orMon.fold boolF)) = orMon.fold boolF chunks.flatten :=
  agg_partial_hom _ AggMonoid.orMon_laws.toLaws _ _
theorem agg_partial_hom_union (chunks : List (List AVal)) :
    setMon.combineAll (chunks.map (setMon.fold unionF)) = setMon.fold unionF chunks.flatten :=
  agg_partial_hom _ AggMonoid.setMon_laws.toLaws _ _
theorem agg_partial_hom_dcount (chunks : List (List AVal)) :
    setMon.combineAll (chunks.map (setMon.fold dcountF)) = setMon.fold dcountF chunks.flatten :=
  agg_partial_hom _ AggMonoid.setMon_laws.toLaws _ _
theorem agg_partial_hom_fuse (chunks : List (List AVal)) :
    setMon.combineAll (chunks.map (setMon.fold fuseF)) = setMon.fold fuseF chunks.flatten :=
  agg_partial_hom _ AggMonoid.setMon_laws.toLaws _ _
/-- collect: exact and ordered when partials are combined in chunk order (append is a monoid). -/
theorem agg_partial_hom_collect (chunks : List (List AVal)) :
    collectMon.combineAll (chunks.map (collectMon.fold collectF)) = collectMon.fold collectF chunks.flatten :=
  agg_partial_hom _ AggMonoid.collectMon_laws _ _

/-- Input-order independence of every commutative aggregate. -/
theorem agg_perm_all {xs ys : List AVal} (h : xs.Perm ys) :
    countMon.fold countF xs = countMon.fold countF ys ∧
    sumMon.fold mathF xs = sumMon.fold mathF ys ∧
    minMon.fold mathF xs = minMon.fold mathF ys ∧
    maxMon.fold mathF xs = maxMon.fold mathF ys ∧
    avgMon.fold avgF xs = avgMon.fold avgF ys ∧
    andMon.fold boolF xs = andMon.fold boolF ys ∧
    orMon.fold boolF xs = orMon.fold boolF ys ∧
    setMon.fold unionF xs = setMon.fold unionF ys ∧
    setMon.fold dcountF xs = setMon.fold dcountF ys ∧
    setMon.fold fuseF xs = setMon.fold fuseF ys :=
  ⟨agg_perm _ AggMonoid.countMon_laws _ h, agg_perm _ AggMonoid.sumMon_laws _ h,
   agg_perm _ AggMonoid.minMon_laws _ h, agg_perm _ AggMonoid.maxMon_laws _ h,
   agg_perm _ AggMonoid.avgMon_laws _ h, agg_perm _ AggMonoid.andMon_laws _ h,
   agg_perm _ AggMonoid.orMon_laws _ h, agg_perm _ AggMonoid.setMon_laws _ h,
   agg_perm _ AggMonoid.setMon_laws _ h, agg_perm _ AggMonoid.setMon_laws _ h⟩

/-- FULL statement (false): collect xs = collect ys for permuted inputs.
    Proved: the same multiset.  Guard: compared as a multiset. -/
theorem agg_perm_collect_partial {xs ys : List AVal} (h : xs.Perm ys) :
    (collectMon.fold collectF xs).Perm (collectMon.fold collectF ys) :=
  AggMonoid.collect_perm h

theorem not_agg_perm_collect :
    ∃ xs ys : List AVal, xs.Perm ys ∧ collectMon.fold collectF xs ≠ collectMon.fold collectF ys := by
  let a : AVal := { tok := "a", typ := "t", isNull := false, kind := .none, num := 0, bool := none, avg := none }
  let b : AVal := { tok := "b", typ := "t", isNull := false, kind := .none, num := 0, bool := none, avg := none }
  exact ⟨[a, b], [b, a], List.Perm.swap _ _ _, by decide⟩

/-- union/dcount/fuse states are idempotent: duplicates in the input (or the same value
    reaching two partials) change nothing. -/
theorem agg_set_idempotent (a : TokSet) : setMon.op a a = a := AggMonoid.setMon_idem a

/-! ### floats -/

/-- FULL statement (false): float sums compose for every chunking.  Proved under
    `ExactlySummable` (every partial sum representable), for EVERY rounding function. -/
theorem agg_partial_hom_fsum_partial (rnd : Int → Int) (chunks : List (List Int))
    (h : ExactlySummable chunks.flatten) :
    (chunks.map (fsum rnd)).foldl (fadd rnd) 0 = fsum rnd chunks.flatten :=
  AggMonoid.fsum_partial_hom rnd chunks h

theorem agg_perm_fsum_partial (rnd : Int → Int) {xs ys : List Int} (hp : xs.Perm ys)
    (h : ExactlySummable xs) : fsum rnd xs = fsum rnd ys :=
  AggMonoid.fsum_perm rnd hp h

theorem agg_partial_hom_favg_partial (rnd : Int → Int) (chunks : List (List Int))
    (h : ExactlySummable chunks.flatten) :
    (chunks.map (favg rnd)).foldl (favgCombine rnd) (0, 0) = favg rnd chunks.flatten :=
  AggMonoid.favg_partial_hom rnd chunks h

theorem not_agg_partial_hom_fsum : ∃ (rnd : Int → Int) (chunks : List (List Int)),
    (chunks.map (fsum rnd)).foldl (fadd rnd) 0 ≠ fsum rnd chunks.flatten :=
  AggMonoid.not_fsum_partial_hom

example : ExactlySummable [1, -2, 3] := by decide

/-! ### group-by -/

section groupby
variable {K S T : Type} [DecidableEq K]

/-- Guard of `groupby_naive_partial`: no spill happens, or all keys present have one type
    vector (`ty`); the comparator is assumed to identify only identical keys within one type
    vector (`CompareFaithfulWithinType`, C06's subject; false for −0./+0. and NaN payloads). -/
def KeysTypeHomogeneousOrNoSpill (m : Mon S) (le : K → K → Bool) (limit : Nat) (ty : K → T)
    (rows : List (K × S)) : Prop :=
  spillCount m le limit rows = 0 ∨
    ∀ a ∈ rows.map (·.1), ∀ b ∈ rows.map (·.1), ty a = ty b

def CompareFaithfulWithinType (le : K → K → Bool) (ty : K → T) : Prop :=
  ∀ a b, ty a = ty b → eqv le a b = true → a = b

/-- FULL statement `groupby_naive` (false, see `not_groupby_naive`): for every limit and every
    input order the output is the naive grouping.
    **groupby_naive_partial**: under the guard, exactly one output row per distinct key, holding
    the aggregate of exactly the rows with that key; i.e. a permutation of `naiveGroup`. -/
theorem groupby_naive_partial (m : Mon S) (hm : m.CommLaws) (le : K → K → Bool)
    (hle : TotalPreorder le) (ty : K → T) (hty : CompareFaithfulWithinType le ty)
    (limit : Nat) (rows : List (K × S))
    (guard : KeysTypeHomogeneousOrNoSpill m le limit ty rows) :
    GroupsAgree m (groupby m le limit rows) rows ∧
    (groupby m le limit rows).Perm (naiveGroup m rows) := by
  have h : GroupsAgree m (groupby m le limit rows) rows := by
    apply AggGroupby.groupby_agrees m hm le hle
    rcases guard with g | g
    · exact Or.inl g
    · exact Or.inr fun a ha b hb hab => hty a b (g a ha b hb) hab
  exact ⟨h, AggGroupby.agree_perm m _ _ rows h (AggGroupby.naive_agrees m hm rows)⟩

/-- the naive evaluator meets the specification, so `GroupsAgree out rows` pins `out` down -/
theorem naive_is_spec (m : Mon S) (hm : m.CommLaws) (rows : List (K × S)) :
    GroupsAgree m (naiveGroup m rows) rows :=
  AggGroupby.naive_agrees m hm rows

/-- Partial decomposition at the group-by level: partials-out per chunk (scatter leg), then
    partials-in over the concatenated partial rows.  Guard: as above on every stage (stated
    with the semantic form of the guard, comparator faithful on the keys present). -/
theorem groupby_partials_compose_partial (m : Mon S) (hm : m.CommLaws) (le : K → K → Bool)
    (hle : TotalPreorder le) (limit₁ limit₂ : Nat) (chunks : List (List (K × S)))
    (guard : AggGroupby.CompareFaithful le chunks.flatten ∨
      ((∀ c ∈ chunks, spillCount m le limit₁ c = 0) ∧
        spillCount m le limit₂ (chunks.map (groupby m le limit₁)).flatten = 0)) :
    GroupsAgree m (groupby m le limit₂ (chunks.map (groupby m le limit₁)).flatten) chunks.flatten :=
  AggGroupby.groupby_partials_compose m hm le hle limit₁ limit₂ chunks guard

end groupby

/-- keys: (type id, value); the comparator looks at the value only — numeric comparison
    across types, as `compareValues` does. -/
def witnessLe (a b : Nat × Int) : Bool := decide (a.2 ≤ b.2)
def witnessRows : List ((Nat × Int) × Nat) := [((0, 1), 10), ((1, 1), 12), ((2, 1), 1000)]
def natAdd : Mon Nat := ⟨(· + ·), 0⟩

theorem witnessLe_totalPreorder : TotalPreorder witnessLe :=
  ⟨fun a b => by simp only [witnessLe, decide_eq_true_eq]; omega,
   fun a b c => by simp only [witnessLe, decide_eq_true_eq]; omega⟩

/-- **not_groupby_naive** — DESIGN §11 item 8, reproduced on the real code by the harness:
    `sum(v) by k` over k = 1, 1(uint64), 1. gives three groups when the table fits and ONE
    merged group (sum 1022) with limit 2. -/
theorem not_groupby_naive :
    TotalPreorder witnessLe ∧
    groupby natAdd witnessLe 2 witnessRows = [((0, 1), 1022)] ∧
    ¬ GroupsAgree natAdd (groupby natAdd witnessLe 2 witnessRows) witnessRows ∧
    GroupsAgree natAdd (groupby natAdd witnessLe 3 witnessRows) witnessRows := by
  refine ⟨witnessLe_totalPreorder, by decide, ?_, ?_⟩
  · intro h
    have := (h.keys (1, 1)).2 (by decide)
    revert this
    decide
  · exact AggGroupby.groupby_agrees natAdd AggGroupby.addMon_commLaws witnessLe
      witnessLe_totalPreorder 3 witnessRows (Or.inl (by decide))

/-- non-vacuity of the guard with spills: homogeneous keys, limit 1, three keys -/
example : KeysTypeHomogeneousOrNoSpill natAdd witnessLe 1 (fun k : Nat × Int => k.1)
    [((0, 1), 1), ((0, 2), 1), ((0, 3), 1), ((0, 1), 5)] :=
  Or.inr (by decide)
example : spillCount natAdd witnessLe 1 [((0, 1), 1), ((0, 2), 1), ((0, 3), 1), ((0, 1), 5)] = 3 := by
  decide

/-! ### sorted-input mode -/

section sorted
variable {K S P : Type} [DecidableEq K]

/-- **sorted_release_safe_partial** — sorted-input mode WITH spills: for every batching, every
    table limit (every spill pattern) and every choice of the row maxSpillKey is taken from
    (`pick`: the real code takes the last row of the spilled table in Go map order): if the input
    is sorted on the primary key, early release — from the table before the first spill, from
    the front of the merged spill files afterwards, gated by maxSpillKey — never loses or
    duplicates a group: exactly one output row per distinct key, holding the aggregate of exactly
    its rows.
    FULL statement: the same without `hfaith`.  It is false for the same reason as
    `groupby_naive` (the spill merge re-combines rows whose keys merely compare equal: known
    finding); the guard is the semantic form of KeysTypeHomogeneous: the comparator identifies
    only identical keys among the keys present. -/
theorem sorted_release_safe_partial (m : Mon S) (hm : m.CommLaws)
    (le : K → K → Bool) (hle : TotalPreorder le)
    (prim : K → P) (vle : P → P → Bool) (hv : TotalPreorder vle)
    (hprim : ∀ a b, le a b = true → vle (prim a) (prim b) = true)
    (pick : List (K × S) → Option (K × S)) (hpick : ∀ l x, pick l = some x → x ∈ l)
    (limit : Nat) (batches : List (List (K × S)))
    (hsorted : batches.flatten.Pairwise (fun a b => vle (prim a.1) (prim b.1) = true))
    (hfaith : AggGroupby.CompareFaithful le batches.flatten) :
    GroupsAgree m (groupbySortedSpill m le prim vle pick limit batches) batches.flatten :=
  AggSortedSpill.sorted_spill_release_safe m hm le hle prim vle hv hprim pick hpick limit batches hsorted hfaith

/-- **sorted_release_safe_nospill** — full strength (no guard on the comparator) on the in-memory
    path: when no spill happens the release from the table is safe for every batching. -/
theorem sorted_release_safe_nospill (m : Mon S) (hm : m.CommLaws) (prim : K → P) (vle : P → P → Bool)
    (hv : TotalPreorder vle) (batches : List (List (K × S)))
    (hsorted : batches.flatten.Pairwise (fun a b => vle (prim a.1) (prim b.1) = true)) :
    GroupsAgree m (groupbySorted m prim vle batches) batches.flatten :=
  AggSorted.sorted_release_safe m hm prim vle hv batches hsorted

/-- the reason: a released key is strictly in the past of everything still to come -/
theorem released_key_is_past (m : Mon S) (prim : K → P) (vle : P → P → Bool)
    (hv : TotalPreorder vle) (pre post : List (List (K × S)))
    (hsorted : (pre ++ post).flatten.Pairwise (fun a b => vle (prim a.1) (prim b.1) = true)) :
    ∀ k ∈ (pre.foldl (sBatch m prim vle) {}).out.map (·.1), ∀ y ∈ post.flatten, y.1 ≠ k :=
  AggSorted.released_key_is_past m prim vle hv pre post hsorted

end sorted

/-- Sortedness on the FIRST key is needed: keys (a, k), data sorted on k, the operator
    watching a — the group (1,1) is released after the first batch and emitted again.
    (A statement about the model on input that violates the hypothesis; the optimizer used to
    produce exactly this situation, see `sorted_declared_on_first_key_only`.) -/
theorem not_sorted_release_safe_unsorted :
    ∃ (batches : List (List ((Nat × Nat) × Nat))),
      ¬ GroupsAgree (⟨(· + ·), 0⟩ : Mon Nat)
        (groupbySorted ⟨(· + ·), 0⟩ (fun k => k.1) (fun a b => decide (a ≤ b)) batches) batches.flatten :=
  AggSorted.not_sorted_release_safe_unsorted

/-! ### join -/

section join
open Zed.Join
variable {K A B : Type}

/-- **join_naive**: the merge join over inputs sorted under the join's comparator emits
    exactly the pairs (and bare left rows) of the nested-loop join with the same match
    relation, in the same order — inner, left, anti (right = left with the sides swapped). -/
theorem join_naive (le : K → K → Bool) (hle : TotalPreorder le) (kind : Zed.Join.Kind)
    (l : List (K × A)) (r : List (K × B))
    (hl : l.Pairwise (fun a b => le a.1 b.1 = true))
    (hr : r.Pairwise (fun a b => le a.1 b.1 = true)) :
    mergeJoin le kind l r = nestedLoop le kind l r :=
  AggJoin.join_naive le hle kind l r hl hr

end join

/-- Without sortedness under the join's own comparator the merge join loses pairs: left keys
    2, 1 (descending) against right keys 1, 2. -/
theorem not_join_naive_unsorted :
    ∃ (l r : List (Int × Unit)),
      r.Pairwise (fun a b => decide (a.1 ≤ b.1) = true) ∧
      Zed.Join.mergeJoin (fun a b : Int => decide (a ≤ b)) .inner l r ≠
        Zed.Join.nestedLoop (fun a b : Int => decide (a ≤ b)) .inner l r :=
  ⟨[(2, ()), (1, ())], [(1, ()), (2, ())], by decide, by decide⟩

/-! ### join planning: sides, directions, inserted sorts -/

section joinplan
open Zed.Join

/-- T1: for a right join the kernel swaps keys, parents AND declared directions before join.New
    (the model's `joinFull .right` does exactly that). -/
theorem right_style_swaps : Zed.Generated.C10.rightStyleSwaps = Zed.Join.rightStyleSwaps := by decide

/-- **join_right_left_symmetry**: a right join is the left join of the swapped inputs with the
    swapped legs (declared directions included), row by row. -/
theorem join_right_left_symmetry {A B : Type} (lleg rleg : Leg) (l : List (JKey × A)) (r : List (JKey × B)) :
    joinFull .right lleg rleg l r = (joinFull .left rleg lleg r l).map AggJoinPlan.flipRow :=
  AggJoinPlan.join_right_left_symmetry lleg rleg l r

/-- FULL statement (false, see `not_join_plan_naive_desc_nulls`): for every combination of declared
    directions and inserted sorts the planned join equals the nested loop.
    **join_plan_naive_partial**: proved for ascending plans (no side declared descending): whatever
    is declared ascending really is, the other sides get the inserted ascending sort. -/
theorem join_plan_naive_partial {A B : Type} (kind : Zed.Join.Kind) (ld rd : Int)
    (l : List (JKey × A)) (r : List (JKey × B))
    (hld : ld = 0 ∨ ld = 1) (hrd : rd = 0 ∨ rd = 1)
    (hl : ld = 1 → l.Pairwise (fun a b => jle false a.1 b.1 = true))
    (hr : rd = 1 → r.Pairwise (fun a b => jle false a.1 b.1 = true)) :
    joinRun kind ld rd l r =
      nestedLoop (jle false) kind (if ld = 1 then l else sortOp false l) (if rd = 1 then r else sortOp false r) :=
  AggJoinPlan.join_plan_naive_asc kind ld rd l r hld hrd hl hr

/-- The confirmed defect at plan level (known finding C10:join:null-keys-declared-desc): with both
    legs sorted by a descending sort operator (nulls last) the join, whose comparator expects nulls
    first, loses the pair of null keys that the ascending plan finds. -/
theorem not_join_plan_naive_desc_nulls :
    joinFull .inner .sortDesc .sortDesc [(some 2, 0), (some 1, 1), (none, 2)] [(some 2, 10), (none, 11)]
      = [.both (some 2, 0) (some 2, 10)] ∧
    joinFull .inner .sortAsc .sortAsc [(some 2, 0), (some 1, 1), (none, 2)] [(some 2, 10), (none, 11)]
      = [.both (some 2, 0) (some 2, 10), .both (none, 2) (none, 11)] := by
  constructor <;> decide

end joinplan

example : ([(1, ()), (2, ()), (2, ())] : List (Int × Unit)).Pairwise
    (fun a b => decide (a.1 ≤ b.1) = true) := by decide

end Zed.Props.C10
