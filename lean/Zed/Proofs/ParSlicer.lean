/-
  Proofs about the slicer model (C08): `slice` partitions the lister output into non-empty,
  pairwise strictly separated runs, for ascending (by `min`) and descending (by `max`) lister
  orders; the span reported by nextPartition is the hull of the partition.
-/
import Zed.Model.ParSlicer
namespace Zed.Proofs.ParSlicer
open Zed.Par

/-! ### cover -/

theorem sliceAux_flatten (rest : List Obj) : ∀ (cur : List Obj) (lo hi : Int),
    (sliceAux cur lo hi rest).flatten = cur ++ rest := by
  induction rest with
  | nil =>
    intro cur lo hi
    cases cur <;> simp [sliceAux]
  | cons o rest ih =>
    intro cur lo hi
    unfold sliceAux
    split
    · rename_i hc
      have : cur = [] := by simpa using hc
      subst this
      simp [ih]
    · split
      · simp [ih]
      · simp [ih]

/-- the cover part needs no hypothesis at all -/
theorem slice_flatten (objs : List Obj) : (slice objs).flatten = objs := by
  simp [slice, sliceAux_flatten]

/-! ### non-empty partitions -/

theorem sliceAux_nonempty (rest : List Obj) : ∀ (cur : List Obj) (lo hi : Int),
    ∀ p ∈ sliceAux cur lo hi rest, p ≠ [] := by
  induction rest with
  | nil =>
    intro cur lo hi p hp
    unfold sliceAux at hp
    split at hp
    · simp at hp
    · rename_i hc
      simp only [List.mem_singleton] at hp
      subst hp
      simpa using hc
  | cons o rest ih =>
    intro cur lo hi p hp
    unfold sliceAux at hp
    split at hp
    · exact ih _ _ _ p hp
    · rename_i hc
      split at hp
      · rcases List.mem_cons.1 hp with h | h
        · subst h; simpa using hc
        · exact ih _ _ _ p h
      · exact ih _ _ _ p hp

theorem slice_nonempty (objs : List Obj) : ∀ p ∈ slice objs, p ≠ [] :=
  sliceAux_nonempty objs [] 0 0

/-- every object of every partition produced is an object of `cur ++ rest` -/
theorem mem_of_mem_sliceAux {cur rest : List Obj} {lo hi : Int} {q : List Obj} {b : Obj}
    (hq : q ∈ sliceAux cur lo hi rest) (hb : b ∈ q) : b ∈ cur ++ rest := by
  rw [← sliceAux_flatten rest cur lo hi]
  exact List.mem_flatten.2 ⟨q, hq, hb⟩

/-! ### separation, ascending lister order -/

theorem sliceAux_sep_asc (rest : List Obj) : ∀ (cur : List Obj) (lo hi : Int),
    (∀ c ∈ cur, lo ≤ c.min ∧ c.max ≤ hi) →
    (cur ≠ [] → ∃ c ∈ cur, c.min = lo) →
    (∀ o ∈ rest, o.min ≤ o.max) →
    (∀ c ∈ cur, ∀ o ∈ rest, c.min ≤ o.min) →
    rest.Pairwise (fun a b => a.min ≤ b.min) →
    (sliceAux cur lo hi rest).Pairwise (fun p q => ∀ a ∈ p, ∀ b ∈ q, a.max < b.min) := by
  induction rest with
  | nil =>
    intro cur lo hi _ _ _ _ _
    unfold sliceAux
    split <;> simp
  | cons o rest ih =>
    intro cur lo hi hb hatt hwf hle hs
    have hs' := List.pairwise_cons.1 hs
    have hwfo : o.min ≤ o.max := hwf o (by simp)
    have hwfr : ∀ x ∈ rest, x.min ≤ x.max := fun x hx => hwf x (by simp [hx])
    -- the fresh-partition call
    have fresh : (sliceAux [o] o.min o.max rest).Pairwise
        (fun p q => ∀ a ∈ p, ∀ b ∈ q, a.max < b.min) := by
      apply ih [o] o.min o.max
      · intro c hc
        have : c = o := by simpa using hc
        subst this; omega
      · intro _; exact ⟨o, by simp, rfl⟩
      · exact hwfr
      · intro c hc x hx
        have : c = o := by simpa using hc
        subst this; exact hs'.1 x hx
      · exact hs'.2
    unfold sliceAux
    split
    · exact fresh
    · rename_i hc
      have hne : cur ≠ [] := by simpa using hc
      split
      · rename_i hsplit
        obtain ⟨c, hcm, hclo⟩ := hatt hne
        have h1 : lo ≤ o.min := by
          have := hle c hcm o (by simp); omega
        have hgt : hi < o.min := by
          rcases hsplit with h | h
          · omega
          · omega
        refine List.pairwise_cons.2 ⟨?_, fresh⟩
        intro q hq a ha b hbq
        have hbm : b ∈ [o] ++ rest := mem_of_mem_sliceAux hq hbq
        have hamax : a.max ≤ hi := (hb a ha).2
        have hbmin : o.min ≤ b.min := by
          rcases List.mem_append.1 hbm with h | h
          · have : b = o := by simpa using h
            subst this; omega
          · exact hs'.1 b h
        omega
      · apply ih
        · intro c hcm
          rcases List.mem_append.1 hcm with h | h
          · have := hb c h
            constructor <;> split <;> omega
          · have : c = o := by simpa using h
            subst this
            constructor <;> split <;> omega
        · intro _
          by_cases hlt : o.min < lo
          · exact ⟨o, by simp, by simp [hlt]⟩
          · obtain ⟨c, hcm, hclo⟩ := hatt hne
            exact ⟨c, by simp [hcm], by simp [hlt, hclo]⟩
        · exact hwfr
        · intro c hcm x hx
          rcases List.mem_append.1 hcm with h | h
          · exact hle c h x (by simp [hx])
          · have : c = o := by simpa using h
            subst this; exact hs'.1 x hx
        · exact hs'.2

/-- ascending pools: lister order is by `min` ascending -/
theorem slicer_partitions_asc (objs : List Obj)
    (hwf : ∀ o ∈ objs, o.min ≤ o.max)
    (hsorted : objs.Pairwise (fun a b => a.min ≤ b.min)) :
    (slice objs).flatten = objs ∧ (∀ p ∈ slice objs, p ≠ []) ∧
    (slice objs).Pairwise (fun p q => ∀ a ∈ p, ∀ b ∈ q, a.max < b.min) := by
  refine ⟨slice_flatten objs, slice_nonempty objs, ?_⟩
  apply sliceAux_sep_asc objs [] 0 0
  · intro c hc; simp at hc
  · intro h; exact absurd rfl h
  · exact hwf
  · intro c hc; simp at hc
  · exact hsorted

/-! ### separation, descending lister order -/

theorem sliceAux_sep_desc (rest : List Obj) : ∀ (cur : List Obj) (lo hi : Int),
    (∀ c ∈ cur, lo ≤ c.min ∧ c.max ≤ hi) →
    (cur ≠ [] → ∃ c ∈ cur, c.max = hi) →
    (∀ o ∈ rest, o.min ≤ o.max) →
    (∀ c ∈ cur, ∀ o ∈ rest, o.max ≤ c.max) →
    rest.Pairwise (fun a b => b.max ≤ a.max) →
    (sliceAux cur lo hi rest).Pairwise (fun p q => ∀ a ∈ p, ∀ b ∈ q, b.max < a.min) := by
  induction rest with
  | nil =>
    intro cur lo hi _ _ _ _ _
    unfold sliceAux
    split <;> simp
  | cons o rest ih =>
    intro cur lo hi hb hatt hwf hle hs
    have hs' := List.pairwise_cons.1 hs
    have hwfo : o.min ≤ o.max := hwf o (by simp)
    have hwfr : ∀ x ∈ rest, x.min ≤ x.max := fun x hx => hwf x (by simp [hx])
    have fresh : (sliceAux [o] o.min o.max rest).Pairwise
        (fun p q => ∀ a ∈ p, ∀ b ∈ q, b.max < a.min) := by
      apply ih [o] o.min o.max
      · intro c hc
        have : c = o := by simpa using hc
        subst this; omega
      · intro _; exact ⟨o, by simp, rfl⟩
      · exact hwfr
      · intro c hc x hx
        have : c = o := by simpa using hc
        subst this; exact hs'.1 x hx
      · exact hs'.2
    unfold sliceAux
    split
    · exact fresh
    · rename_i hc
      have hne : cur ≠ [] := by simpa using hc
      split
      · rename_i hsplit
        obtain ⟨c, hcm, hchi⟩ := hatt hne
        have h1 : o.max ≤ hi := by
          have := hle c hcm o (by simp); omega
        have hgt : o.max < lo := by
          rcases hsplit with h | h
          · omega
          · omega
        refine List.pairwise_cons.2 ⟨?_, fresh⟩
        intro q hq a ha b hbq
        have hbm : b ∈ [o] ++ rest := mem_of_mem_sliceAux hq hbq
        have hamin : lo ≤ a.min := (hb a ha).1
        have hbmax : b.max ≤ o.max := by
          rcases List.mem_append.1 hbm with h | h
          · have : b = o := by simpa using h
            subst this; omega
          · exact hs'.1 b h
        omega
      · apply ih
        · intro c hcm
          rcases List.mem_append.1 hcm with h | h
          · have := hb c h
            constructor <;> split <;> omega
          · have : c = o := by simpa using h
            subst this
            constructor <;> split <;> omega
        · intro _
          by_cases hlt : hi < o.max
          · exact ⟨o, by simp, by simp [hlt]⟩
          · obtain ⟨c, hcm, hchi⟩ := hatt hne
            exact ⟨c, by simp [hcm], by simp [hlt, hchi]⟩
        · exact hwfr
        · intro c hcm x hx
          rcases List.mem_append.1 hcm with h | h
          · exact hle c h x (by simp [hx])
          · have : c = o := by simpa using h
            subst this; exact hs'.1 x hx
        · exact hs'.2

/-- descending pools: lister order is by `max` descending -/
theorem slicer_partitions_desc (objs : List Obj)
    (hwf : ∀ o ∈ objs, o.min ≤ o.max)
    (hsorted : objs.Pairwise (fun a b => b.max ≤ a.max)) :
    (slice objs).flatten = objs ∧ (∀ p ∈ slice objs, p ≠ []) ∧
    (slice objs).Pairwise (fun p q => ∀ a ∈ p, ∀ b ∈ q, b.max < a.min) := by
  refine ⟨slice_flatten objs, slice_nonempty objs, ?_⟩
  apply sliceAux_sep_desc objs [] 0 0
  · intro c hc; simp at hc
  · intro h; exact absurd rfl h
  · exact hwf
  · intro c hc; simp at hc
  · exact hsorted

/-! ### span = hull -/

theorem foldl_min_spec (rest : List Obj) : ∀ (m : Int),
    rest.foldl (fun m x => if x.min < m then x.min else m) m ≤ m ∧
    (∀ x ∈ rest, rest.foldl (fun m x => if x.min < m then x.min else m) m ≤ x.min) ∧
    (rest.foldl (fun m x => if x.min < m then x.min else m) m = m ∨
      ∃ x ∈ rest, rest.foldl (fun m x => if x.min < m then x.min else m) m = x.min) := by
  induction rest with
  | nil => intro m; simp
  | cons o rest ih =>
    intro m
    simp only [List.foldl_cons]
    by_cases hlt : o.min < m
    · simp only [hlt, if_true]
      obtain ⟨h1, h2, h3⟩ := ih o.min
      refine ⟨by omega, ?_, ?_⟩
      · intro x hx
        rcases List.mem_cons.1 hx with hx | hx
        · subst hx; exact h1
        · exact h2 x hx
      · rcases h3 with h3 | ⟨x, hx, h3⟩
        · right; exact ⟨o, by simp, h3⟩
        · right; exact ⟨x, by simp [hx], h3⟩
    · simp only [hlt, if_false]
      obtain ⟨h1, h2, h3⟩ := ih m
      refine ⟨h1, ?_, ?_⟩
      · intro x hx
        rcases List.mem_cons.1 hx with hx | hx
        · subst hx; omega
        · exact h2 x hx
      · rcases h3 with h3 | ⟨x, hx, h3⟩
        · left; exact h3
        · right; exact ⟨x, by simp [hx], h3⟩

theorem foldl_max_spec (rest : List Obj) : ∀ (m : Int),
    m ≤ rest.foldl (fun m x => if m < x.max then x.max else m) m ∧
    (∀ x ∈ rest, x.max ≤ rest.foldl (fun m x => if m < x.max then x.max else m) m) ∧
    (rest.foldl (fun m x => if m < x.max then x.max else m) m = m ∨
      ∃ x ∈ rest, rest.foldl (fun m x => if m < x.max then x.max else m) m = x.max) := by
  induction rest with
  | nil => intro m; simp
  | cons o rest ih =>
    intro m
    simp only [List.foldl_cons]
    by_cases hlt : m < o.max
    · simp only [hlt, if_true]
      obtain ⟨h1, h2, h3⟩ := ih o.max
      refine ⟨by omega, ?_, ?_⟩
      · intro x hx
        rcases List.mem_cons.1 hx with hx | hx
        · subst hx; exact h1
        · exact h2 x hx
      · rcases h3 with h3 | ⟨x, hx, h3⟩
        · right; exact ⟨o, by simp, h3⟩
        · right; exact ⟨x, by simp [hx], h3⟩
    · simp only [hlt, if_false]
      obtain ⟨h1, h2, h3⟩ := ih m
      refine ⟨h1, ?_, ?_⟩
      · intro x hx
        rcases List.mem_cons.1 hx with hx | hx
        · subst hx; omega
        · exact h2 x hx
      · rcases h3 with h3 | ⟨x, hx, h3⟩
        · left; exact h3
        · right; exact ⟨x, by simp [hx], h3⟩

/-- the span nextPartition reports is the hull of the partition -/
theorem span_hull (p : List Obj) (hp : p ≠ []) :
    (∀ o ∈ p, spanMin p ≤ o.min) ∧ (∃ o ∈ p, spanMin p = o.min) ∧
    (∀ o ∈ p, o.max ≤ spanMax p) ∧ (∃ o ∈ p, spanMax p = o.max) := by
  cases p with
  | nil => exact absurd rfl hp
  | cons o rest =>
    have hmin := foldl_min_spec rest o.min
    have hmax := foldl_max_spec rest o.max
    obtain ⟨a1, a2, a3⟩ := hmin
    obtain ⟨b1, b2, b3⟩ := hmax
    refine ⟨?_, ?_, ?_, ?_⟩
    · intro x hx
      rcases List.mem_cons.1 hx with hx | hx
      · subst hx; exact a1
      · exact a2 x hx
    · rcases a3 with h | ⟨x, hx, h⟩
      · exact ⟨o, by simp, h⟩
      · exact ⟨x, by simp [hx], h⟩
    · intro x hx
      rcases List.mem_cons.1 hx with hx | hx
      · subst hx; exact b1
      · exact b2 x hx
    · rcases b3 with h | ⟨x, hx, h⟩
      · exact ⟨o, by simp, h⟩
      · exact ⟨x, by simp [hx], h⟩

/-! ### non-vacuity -/

private def o1 : Obj := { id := 1, min := 1, max := 5 }
private def o2 : Obj := { id := 2, min := 2, max := 3 }
private def o3 : Obj := { id := 3, min := 6, max := 9 }

/-- the ascending hypotheses are satisfiable, and the slicer output on the instance is the
    expected one: [(1,5),(2,3)] (overlapping) then [(6,9)]. -/
example : (∀ o ∈ [o1, o2, o3], o.min ≤ o.max) ∧
    [o1, o2, o3].Pairwise (fun a b => a.min ≤ b.min) ∧
    slice [o1, o2, o3] = [[o1, o2], [o3]] := by
  refine ⟨by decide, by decide, by decide⟩

example : (slice [o1, o2, o3]).Pairwise (fun p q => ∀ a ∈ p, ∀ b ∈ q, a.max < b.min) :=
  (slicer_partitions_asc [o1, o2, o3] (by decide) (by decide)).2.2

/-- the descending hypotheses are satisfiable: [(6,9),(1,5),(2,3)] is sorted by max descending -/
example : (∀ o ∈ [o3, o1, o2], o.min ≤ o.max) ∧
    [o3, o1, o2].Pairwise (fun a b => b.max ≤ a.max) ∧
    slice [o3, o1, o2] = [[o3], [o1, o2]] := by
  refine ⟨by decide, by decide, by decide⟩

example : (slice [o3, o1, o2]).Pairwise (fun p q => ∀ a ∈ p, ∀ b ∈ q, b.max < a.min) :=
  (slicer_partitions_desc [o3, o1, o2] (by decide) (by decide)).2.2

example : spanMin [o1, o2] = 1 ∧ spanMax [o1, o2] = 5 := by decide

/-- the sortedness hypothesis matters: on an unsorted input the slicer output is not separated
    ([(6,9)] is cut off before (1,5), then (7,8) overlaps nothing in its own run but overlaps
    the first partition). -/
example : ¬ (slice [o3, o1, { id := 4, min := 7, max := 8 }]).Pairwise
    (fun p q => ∀ a ∈ p, ∀ b ∈ q, a.max < b.min) := by decide

end Zed.Proofs.ParSlicer
