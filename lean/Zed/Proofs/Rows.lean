import Zed.Proofs.CompareVal3
import Zed.Proofs.SortOn
namespace Zed
open Zed.Ord List

theorem STr_comm {a b c : Ordering} (h : STr a b c) : STr b a c := by
  revert h; cases a <;> cases b <;> cases c <;> simp [STr]

theorem pairOK_of_mixGuard (m : Bool) (a b : Val) (ha : mixGuard m a = true) (hb : mixGuard m b = true) :
    PairOK a b := by
  unfold PairOK
  unfold mixGuard at ha hb
  cases hx : a.num? <;> cases hy : b.num? <;> simp only [hx, hy] at ha hb ⊢ <;> try trivial
  intro hf
  cases m
  · simp at ha hb; rcases hf with h | h <;> simp_all
  · simp at ha hb; exact ⟨ha, hb⟩

theorem cmpKeys_cons (nm : Bool) (d : Bool) (ds : List Bool) (x y : Val) (xs ys : List Val) :
    cmpKeys nm (d :: ds) (x :: xs) (y :: ys) =
      (if d then cmpVal nm y x else cmpVal nm x y).then (cmpKeys nm ds xs ys) := by
  simp only [cmpKeys]
  cases (if d = true then cmpVal nm y x else cmpVal nm x y) <;> simp [Ordering.then]

theorem cmpKeys_refl (nm : Bool) : (dirs : List Bool) → (xs : List Val) → cmpKeys nm dirs xs xs = .eq
  | [], _ => by simp [cmpKeys]
  | _ :: _, [] => by simp [cmpKeys]
  | d :: ds, x :: xs => by
    rw [cmpKeys_cons, cmpKeys_refl nm ds xs]; cases d <;> simp [cmpVal_refl, Ordering.then]

theorem cmpKeys_swap (nm : Bool) : (dirs : List Bool) → (xs ys : List Val) →
    cmpKeys nm dirs ys xs = (cmpKeys nm dirs xs ys).swap
  | [], _, _ => by simp [cmpKeys]
  | _ :: _, [], _ => by simp [cmpKeys]
  | _ :: _, _ :: _, [] => by simp [cmpKeys]
  | d :: ds, x :: xs, y :: ys => by
    rw [cmpKeys_cons, cmpKeys_cons, Ordering.swap_then, cmpKeys_swap nm ds xs ys]
    cases d
    · simp only [Bool.false_eq_true, if_false]; rw [cmpVal_swap nm x y]
    · simp only [if_true]; rw [cmpVal_swap nm y x]

theorem cmpKeys_STr (nm : Bool) (m : Bool) : (dirs : List Bool) → (xs ys zs : List Val) →
    xs.length = dirs.length → ys.length = dirs.length → zs.length = dirs.length →
    (∀ k ∈ xs, k.ok = true ∧ mixGuard m k = true) → (∀ k ∈ ys, k.ok = true ∧ mixGuard m k = true) →
    (∀ k ∈ zs, k.ok = true ∧ mixGuard m k = true) →
    STr (cmpKeys nm dirs xs ys) (cmpKeys nm dirs ys zs) (cmpKeys nm dirs xs zs)
  | [], _, _, _, _, _, _, _, _, _ => by simp [cmpKeys, STr]
  | _ :: _, [], _, _, h, _, _, _, _, _ => by simp at h
  | _ :: _, _ :: _, [], _, _, h, _, _, _, _ => by simp at h
  | _ :: _, _ :: _, _ :: _, [], _, _, h, _, _, _ => by simp at h
  | d :: ds, x :: xs, y :: ys, z :: zs, h1, h2, h3, gx, gy, gz => by
    simp only [length_cons, Nat.add_right_cancel_iff] at h1 h2 h3
    have hx := gx x (by simp); have hy := gy y (by simp); have hz := gz z (by simp)
    rw [cmpKeys_cons, cmpKeys_cons, cmpKeys_cons]
    refine STr.then ?_ (fun _ _ => cmpKeys_STr nm m ds xs ys zs h1 h2 h3
      (fun k hk => gx k (by simp [hk])) (fun k hk => gy k (by simp [hk])) (fun k hk => gz k (by simp [hk])))
    have pxy := pairOK_of_mixGuard m x y hx.2 hy.2
    have pyz := pairOK_of_mixGuard m y z hy.2 hz.2
    have pxz := pairOK_of_mixGuard m x z hx.2 hz.2
    cases d
    · simp only [Bool.false_eq_true, if_false]
      exact cmpVal_STr nm x y z hx.1 hy.1 hz.1 pxy pyz pxz
    · simp only [if_true]
      exact (cmpVal_STr nm z y x hz.1 hy.1 hx.1 (pairOK_of_mixGuard m z y hz.2 hy.2)
        (pairOK_of_mixGuard m y x hy.2 hx.2) (pairOK_of_mixGuard m z x hz.2 hx.2)) |> STr_comm

/-- `le` of the stable sort: `¬ less b a` -/
def leRow (nm : Bool) (dirs : List Bool) (a b : Row) : Bool := !lessSlow nm dirs b a

theorem leRow_iff (nm : Bool) (dirs : List Bool) (a b : Row) : leRow nm dirs a b = true ↔ cmpRow nm dirs a b ≠ .gt := by
  unfold leRow lessSlow cmpRow
  rw [cmpKeys_swap nm dirs a.keys b.keys]
  cases cmpKeys nm dirs a.keys b.keys <;> simp [Ordering.swap]

theorem leRow_total (nm : Bool) (dirs : List Bool) (a b : Row) : (leRow nm dirs a b || leRow nm dirs b a) = true := by
  rw [Bool.or_eq_true, leRow_iff, leRow_iff]
  unfold cmpRow
  rw [cmpKeys_swap nm dirs a.keys b.keys]
  cases cmpKeys nm dirs a.keys b.keys <;> simp [Ordering.swap]

theorem leRow_trans (nm : Bool) (dirs : List Bool) (m : Bool) (a b c : Row)
    (ha : a.okFor dirs m) (hb : b.okFor dirs m) (hc : c.okFor dirs m) :
    leRow nm dirs a b = true → leRow nm dirs b c = true → leRow nm dirs a c = true := by
  rw [leRow_iff, leRow_iff, leRow_iff]
  exact (cmpKeys_STr nm m dirs a.keys b.keys c.keys ha.1 hb.1 hc.1 ha.2 hb.2 hc.2).le

end Zed
namespace Zed
open List

def batchRows (batches : List (List (Row × Nat))) : List Row := (batches.map (map (·.1))).flatten

theorem formRuns_flatten (limit : Nat) : (batches : List (List (Row × Nat))) → (out : List Row) → (nb : Nat) →
    (runs : List (List Row)) →
    (formRuns limit batches out nb runs).1.flatten ++ (formRuns limit batches out nb runs).2 =
      runs.flatten ++ out ++ batchRows batches
  | [], out, nb, runs => by simp [formRuns, batchRows]
  | b :: rest, out, nb, runs => by
    simp only [formRuns]
    split
    · rw [formRuns_flatten limit rest]; simp [batchRows, append_assoc]
    · rw [formRuns_flatten limit rest]; simp [batchRows, append_assoc]

theorem sortRows_ok_eq (nm : Bool) (dirs : List Bool) (m : Bool) (rows : List Row)
    (h : ∀ r ∈ rows, r.okFor dirs m) : sortRows nm dirs rows = mergeSort rows (leRow nm dirs) :=
  (sortRows_eq_ref nm dirs rows (fun r hr k hk => (((h r hr).2) k hk).1)).trans rfl

theorem sortSpill_eq (nm : Bool) (dirs : List Bool) (m : Bool) (chunks : List (List Row))
    (h : ∀ c ∈ chunks, ∀ r ∈ c, r.okFor dirs m) :
    sortSpill nm dirs chunks = sortRows nm dirs chunks.flatten := by
  have hall : ∀ r ∈ chunks.flatten, r.okFor dirs m := by
    intro r hr; obtain ⟨c, hc, hrc⟩ := mem_flatten.mp hr; exact h c hc r hrc
  rw [sortRows_ok_eq nm dirs m _ hall]
  unfold sortSpill
  have e : chunks.map (sortRows nm dirs) = chunks.map (fun c => mergeSort c (leRow nm dirs)) :=
    map_congr_left (fun c hc => sortRows_ok_eq nm dirs m c (h c hc))
  rw [e]
  exact spill_on (fun r => r.okFor dirs m) (leRow nm dirs)
    (fun a b c ha hb hc => leRow_trans nm dirs m a b c ha hb hc)
    (fun a b _ _ => leRow_total nm dirs a b) chunks h

theorem sortOp_eq (nf rev : Bool) (dirs : List Bool) (m : Bool) (limit : Nat) (batches : List (List (Row × Nat)))
    (h : ∀ r ∈ batchRows batches, r.okFor (sortConfig nf rev dirs).2 m) :
    sortOp nf rev dirs limit batches = sortRows (sortConfig nf rev dirs).1 (sortConfig nf rev dirs).2 (batchRows batches) := by
  unfold sortOp
  generalize sortConfig nf rev dirs = cfg at *
  obtain ⟨nm, ds⟩ := cfg
  simp only
  have hf := formRuns_flatten limit batches [] 0 []
  simp only [flatten_nil, nil_append] at hf
  generalize formRuns limit batches [] 0 [] = r at *
  obtain ⟨runs, out⟩ := r
  simp only at hf ⊢
  cases runs with
  | nil => simp only [flatten_nil, nil_append] at hf; rw [hf]
  | cons r0 rs =>
    simp only
    split
    · rename_i he
      have : out = [] := by simpa using he
      subst this
      rw [append_nil] at hf
      rw [← hf]
      exact sortSpill_eq nm ds m _ (fun c hc r hr => h r (by rw [← hf]; exact mem_flatten.mpr ⟨c, hc, hr⟩))
    · have hf' : ((r0 :: rs) ++ [out]).flatten = batchRows batches := by
        rw [flatten_append]; simpa using hf
      rw [← hf']
      exact sortSpill_eq nm ds m _ (fun c hc r hr => h r (by rw [← hf']; exact mem_flatten.mpr ⟨c, hc, hr⟩))

end Zed
