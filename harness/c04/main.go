package main

// C04 — query results do not depend on the physical encoding of the input.
//
// Sub-checks:
//   bf     (T2 + S)  generated (filter expression, frame) pairs: the Lean model's
//                    compile / BufferFilter.Eval / evalFilter / frame serialisation vs the real
//                    kernel.CompileBufferFilter, expr.BufferFilter.Eval, the compiled filter and
//                    zcode; and, on the real code alone, the over-approximation itself: a frame
//                    holding a value the filter accepts must pass the buffer filter
//   enc    (S)       the same program over the same values read as ZSON, ZJSON, VNG and ZNG
//                    (compression on/off, frame threshold 1 byte … default, end-of-stream
//                    positions, 1..16 reader threads, read sizes) through the optimized runtime
//   big    (S)       values of several KiB to > 512 KiB (every reader's batch byte buffer is crossed)
//                    under operators that keep their input batches (sort, tail, collect, fuse)
//   alias  (S)       buffer recycling: thousands of values in tiny frames, many reader threads,
//                    type values and strings held across batches by aggregations, GC percent 1
//   known  (S)       the recorded defect's witness

import (
	"bytes"
	"context"
	"encoding/binary"
	"encoding/json"
	"fmt"
	"os"
	"strings"

	zed "github.com/brimdata/super"
	"github.com/brimdata/super/compiler/ast/dag"
	"github.com/brimdata/super/compiler/data"
	"github.com/brimdata/super/compiler/kernel"
	"github.com/brimdata/super/runtime"
	"github.com/brimdata/super/runtime/sam/expr"
	"github.com/brimdata/super/zson"
	. "verifharness/hlib"
)

func main() { Main("C04", runC04) }

// ---- filter expressions of the push-down grammar ----------------------------------------------

var c04Terms = []string{"foo", "bar", "fo", "oba", "FOO", "Foo", `"x y"`, "a.b", "n.x", "x", "föo", "oo", "n", "y", `"foo"`}

func c04GenAtom(c *Ctx) string {
	r := c.Rng
	switch r.Intn(14) {
	case 0, 1, 2, 3:
		return c04Terms[r.Intn(len(c04Terms))]
	case 4:
		return fmt.Sprintf("%s==%s", []string{"s", "v", "n.y", "v.x"}[r.Intn(4)], []string{`"foo"`, `"bar"`, `"Foo"`, `""`, `"b"`}[r.Intn(5)])
	case 5:
		return fmt.Sprintf("%s in %s", []string{`"foo"`, `"x"`, `"bar"`, `"fo"`}[r.Intn(4)], []string{"arr", "v", "this"}[r.Intn(3)])
	case 6:
		return fmt.Sprintf("v==%s", []string{"<int64>", "<string>", "<{foo:int64}>", "true", "10.0.0.1", "80", "1.5", "null", `[1,2]`, `{foo:1}`}[r.Intn(10)])
	case 7:
		return fmt.Sprintf("%s in v", []string{"<int64>", "true", "10.0.0.1", "1", `{foo:1}`, "10.0.0.0/8"}[r.Intn(6)])
	case 8:
		return []string{"10.0.0.1", "80", "true", "1.5", "10.0.0.0/8", "<int64>"}[r.Intn(6)]
	case 9:
		return fmt.Sprintf("grep(%q, %s)", []string{"foo", "bar", "oo", "x"}[r.Intn(4)], []string{"s", "v", "n", "arr"}[r.Intn(4)])
	case 10:
		return []string{"a==1", "b>0", "grep(/fo+/)", "len(arr)>0", "has(v)", "grep(/^f/, s)"}[r.Intn(6)] // no push-down
	case 11:
		return []string{"b==true", `grep("ab", s+t)`, `grep("12", string(k))`, `grep("foo", lower(s))`, `grep("int64", string(typeof(v)))`}[r.Intn(5)]
	default:
		return []string{"foo", "bar", "oo"}[r.Intn(3)]
	}
}

func c04GenPred(c *Ctx, depth int) string {
	if depth > 0 && c.Rng.Intn(3) == 0 {
		switch c.Rng.Intn(5) {
		case 0:
			return "!(" + c04GenPred(c, depth-1) + ")"
		case 1, 2:
			return "(" + c04GenPred(c, depth-1) + ") and (" + c04GenPred(c, depth-1) + ")"
		default:
			return "(" + c04GenPred(c, depth-1) + ") or (" + c04GenPred(c, depth-1) + ")"
		}
	}
	return c04GenAtom(c)
}

// ---- values -----------------------------------------------------------------------------------

var c04Special = []string{
	`{a:[{foo:1}]}`, `{a:[{bar:1},{foo:2}]}`, `{m:|{"x":{foo:1}}|}`, `{m:|{{foo:1}:"x"}|}`, `{u:[{foo:1},"s"]}`,
	`{e:error({foo:1})}`, `{st:|[{foo:1}]|}`, `{n:{foo:{bar:1}}}`, `{n:{x:{foo:1}(=r)}}`, `{foo:1}(=rec)`,
	`{s:"xFoOy"}`, `{s:"fo",t:"o"}`, `{v:"foo"}`, `{v:["bar","foo"]}`, `{v:|["foo"]|}`, `{v:|{"foo":"bar"}|}`,
	`{v:10.0.0.1}`, `{v:[10.0.0.1]}`, `{v:true,b:true}`, `{v:<int64>}`, `{v:<{foo:int64}>}`, `{v:80(port=uint16)}`,
	`{v:"foo"(=str)}`, `{v:"foo"((int64,string))}`, `{arr:["foo","x"]}`, `{arr:[["foo"]]}`, `{v:{x:"foo"}}`, `{n:{x:1,y:"foo"}}`,
	`{a:[]([{foo:int64}])}`, `{a:null([{foo:int64}])}`, `[{foo:1}]`, `"foo"`, `{v:{foo:1}}`, `{v:[1,2]}`, `{v:null}`, `{OO:1}`, `{a:{b:1}}`, `{"a.b":1}`,
	`{s:"a",t:"b"}`, `{k:12}`, `{s:"FOO"}`, `{v:"föo"}`, `{"föo":1}`, `{x:[{"x y":1}]}`, `{s:"x y"}`,
}

func c04GenFrame(c *Ctx) []string {
	n := 1 + c.Rng.Intn(4)
	var out []string
	for i := 0; i < n; i++ {
		if c.Rng.Intn(2) == 0 {
			out = append(out, c04Special[c.Rng.Intn(len(c04Special))])
		} else {
			out = append(out, OptGenValue(c.Rng))
		}
	}
	return out
}

// ---- bf: model vs real, and the over-approximation on the real code ------------------------------

type bfCase struct {
	Check string   `json:"check"`
	Pred  string   `json:"pred"`
	Frame []string `json:"frame"`
}

type bfReal struct {
	exprS   string
	lits    map[string]string // literal text → "(hex ty val)"
	types   map[int]string
	frame   []string // "(id val)"
	bytes   []byte
	bf      string // none | 0 | 1
	ev      string // 0 | 1
	matched []int
	err     string
}

func filterExprOf(pred string) (dag.Expr, error) {
	seq, err := CompileDAG("search "+pred, nil)
	if err != nil {
		return nil, err
	}
	for _, op := range seq {
		if f, ok := op.(*dag.Filter); ok {
			return f.Expr, nil
		}
	}
	return nil, fmt.Errorf("no filter")
}

func collectLits(e dag.Expr, out map[string]bool) {
	switch e := e.(type) {
	case *dag.Literal:
		out[e.Value] = true
	case *dag.BinaryExpr:
		collectLits(e.LHS, out)
		collectLits(e.RHS, out)
	case *dag.UnaryExpr:
		collectLits(e.Operand, out)
	case *dag.Search:
		out[e.Value] = true
		collectLits(e.Expr, out)
	}
}

func bfRunReal(cs *bfCase) (res bfReal) {
	err, _ := Protect(func() error {
		e, err := filterExprOf(cs.Pred)
		if err != nil {
			return err
		}
		res.exprS = OptExprSexp(e)
		zctx := zed.NewContext()
		rctx := runtime.NewContext(context.Background(), zctx)
		defer rctx.Cancel()
		b := kernel.NewBuilder(rctx, data.NewSource(nil, nil))
		pd := b.PushdownOf(e)
		bf, err := pd.AsBufferFilter()
		if err != nil {
			return fmt.Errorf("AsBufferFilter: %w", err)
		}
		ev, err := pd.AsEvaluator()
		if err != nil {
			return fmt.Errorf("AsEvaluator: %w", err)
		}
		// literals, parsed by the real ZSON parser in a scratch context
		res.lits = map[string]string{}
		ls := map[string]bool{}
		collectLits(e, ls)
		for l := range ls {
			lctx := zed.NewContext()
			v, err := zson.ParseValue(lctx, l)
			if err != nil {
				return fmt.Errorf("literal %q: %w", l, err)
			}
			vs, err := BfValueSexp(v.Type(), v.Bytes())
			if err != nil {
				return err
			}
			res.lits[l] = fmt.Sprintf("(%s %s %s)", OptHex(l), BfTypeSexp(v.Type()), vs)
		}
		res.types = map[int]string{}
		ectx := expr.NewContext()
		any := false
		for i, text := range cs.Frame {
			v, err := zson.ParseValue(zctx, text)
			if err != nil {
				return fmt.Errorf("value %q: %w", text, err)
			}
			id := zed.TypeID(v.Type())
			res.types[id] = BfTypeSexp(v.Type())
			vs, err := BfValueSexp(v.Type(), v.Bytes())
			if err != nil {
				return err
			}
			res.frame = append(res.frame, fmt.Sprintf("(%d %s)", id, vs))
			res.bytes = binary.AppendUvarint(res.bytes, uint64(id))
			res.bytes = v.Encode(res.bytes)
			r := ev.Eval(ectx, v)
			if r.Type() == zed.TypeBool && r.Bool() {
				any = true
				res.matched = append(res.matched, i)
			}
		}
		res.ev = "0"
		if any {
			res.ev = "1"
		}
		switch {
		case bf == nil:
			res.bf = "none"
		case bf.Eval(zctx, res.bytes):
			res.bf = "1"
		default:
			res.bf = "0"
		}
		return nil
	})
	if err != nil {
		res.err = err.Error()
	}
	return res
}

func (r *bfReal) request() string {
	var sb strings.Builder
	sb.WriteString("(C04 eval " + r.exprS + " (lits")
	for _, k := range sortedStrKeys(r.lits) {
		sb.WriteString(" " + r.lits[k])
	}
	sb.WriteString(") (types")
	for id, t := range r.types {
		fmt.Fprintf(&sb, " (%d %s)", id, t)
	}
	sb.WriteString(") (frame")
	for _, m := range r.frame {
		sb.WriteString(" " + m)
	}
	sb.WriteString(") " + OptHex(string(r.bytes)) + ")")
	return sb.String()
}

func sortedStrKeys(m map[string]string) []string {
	var ks []string
	for k := range m {
		ks = append(ks, k)
	}
	for i := range ks {
		for j := i + 1; j < len(ks); j++ {
			if ks[j] < ks[i] {
				ks[i], ks[j] = ks[j], ks[i]
			}
		}
	}
	return ks
}

// hiddenFieldName: does typ hold, below an array / set / map / union / error, a record with a
// field whose name contains term (ASCII case-insensitively)?  This is the recorded defect's class.
func hiddenFieldName(typ zed.Type, term string, hidden bool) bool {
	switch t := typ.(type) {
	case *zed.TypeNamed:
		return hiddenFieldName(t.Type, term, hidden)
	case *zed.TypeRecord:
		for _, f := range t.Fields {
			if hidden && strings.Contains(strings.ToLower(f.Name), strings.ToLower(term)) {
				return true
			}
			if hiddenFieldName(f.Type, term, hidden) {
				return true
			}
		}
	case *zed.TypeArray:
		return hiddenFieldName(t.Type, term, true)
	case *zed.TypeSet:
		return hiddenFieldName(t.Type, term, true)
	case *zed.TypeMap:
		return hiddenFieldName(t.KeyType, term, true) || hiddenFieldName(t.ValType, term, true)
	case *zed.TypeUnion:
		for _, m := range t.Types {
			if hiddenFieldName(m, term, true) {
				return true
			}
		}
	case *zed.TypeError:
		return hiddenFieldName(t.Type, term, true)
	}
	return false
}

// computedSearch: a search whose operand is not `this` or a field path.
func computedSearch(e dag.Expr) bool {
	switch e := e.(type) {
	case *dag.BinaryExpr:
		return computedSearch(e.LHS) || computedSearch(e.RHS)
	case *dag.UnaryExpr:
		return computedSearch(e.Operand)
	case *dag.Search:
		_, ok := e.Expr.(*dag.This)
		return !ok
	}
	return false
}

func searchTerms(e dag.Expr, out *[]string) {
	switch e := e.(type) {
	case *dag.BinaryExpr:
		searchTerms(e.LHS, out)
		searchTerms(e.RHS, out)
	case *dag.UnaryExpr:
		searchTerms(e.Operand, out)
	case *dag.Search:
		if strings.HasPrefix(e.Value, `"`) {
			v, err := zson.ParseValue(zed.NewContext(), e.Value)
			if err == nil {
				*out = append(*out, string(v.Bytes()))
			}
		}
	}
}

// classifyUnder names the class of an under-approximating buffer filter.
func classifyUnder(pred string, frame []string) string {
	e, err := filterExprOf(pred)
	if err != nil {
		return "C04:bufferfilter:unclassified"
	}
	var terms []string
	searchTerms(e, &terms)
	if computedSearch(e) {
		// the buffer filter looks for the term in the frame although the searched value is computed
		only := true
		for _, text := range frame {
			v, err := zson.ParseValue(zed.NewContext(), text)
			if err != nil {
				continue
			}
			for _, t := range terms {
				if hiddenFieldName(v.Type(), t, false) {
					only = false
				}
			}
		}
		if only {
			return "C04:bufferfilter:search-computed-expr"
		}
	}
	for _, text := range frame {
		v, err := zson.ParseValue(zed.NewContext(), text)
		if err != nil {
			continue
		}
		if _, ok := zed.TypeUnder(v.Type()).(*zed.TypeRecord); !ok {
			continue
		}
		for _, t := range terms {
			if hiddenFieldName(v.Type(), t, false) {
				return "C04:bufferfilter:fieldname-under-container"
			}
		}
	}
	return "C04:bufferfilter:under-approximation:" + exprShape(e)
}

func exprShape(e dag.Expr) string {
	switch e := e.(type) {
	case *dag.BinaryExpr:
		if e.Op == "and" || e.Op == "or" {
			return e.Op + "(" + exprShape(e.LHS) + "," + exprShape(e.RHS) + ")"
		}
		return e.Op
	case *dag.UnaryExpr:
		return e.Op + exprShape(e.Operand)
	case *dag.Search:
		return "search"
	}
	return strings.TrimPrefix(fmt.Sprintf("%T", e), "*dag.")
}

func c04BF(c *Ctx, cases []*bfCase) {
	reals := make([]bfReal, len(cases))
	ParallelDo(len(cases), 8, func(i int) { reals[i] = bfRunReal(cases[i]) })
	var reqs []string
	var idx []int
	for i := range cases {
		if reals[i].err != "" {
			c.Stat("bf:skipped-" + firstWord(reals[i].err))
			if os.Getenv("C04_DEBUG") != "" {
				fmt.Fprintln(os.Stderr, "SKIP", cases[i].Pred, reals[i].err)
			}
			continue
		}
		reqs = append(reqs, reals[i].request())
		idx = append(idx, i)
	}
	ans := c.Model().Batch(reqs)
	for k, i := range idx {
		cs, r := cases[i], &reals[i]
		c.Res.ModelCases++
		c.Eval("bf:" + cs.Pred + ":" + strings.Join(cs.Frame, " "))
		c.Stat("bf:filter-" + r.bf)
		c.Stat("bf:match-" + r.ev)
		var mbf, mev, menc string
		if n, _ := fmt.Sscanf(ans[k], "(r %s %s %s", &mbf, &mev, &menc); n != 3 {
			c.Fail("correspondence", "C04:bf:model-answer", fmt.Sprintf("model answered %q for `%s` over %v", ans[k], cs.Pred, cs.Frame), cs)
			continue
		}
		menc = strings.TrimSuffix(menc, ")")
		// S: the over-approximation on the real code
		if r.ev == "1" && r.bf == "0" {
			min := c04ShrinkBF(cs)
			c.Fail("oracle", classifyUnder(min.Pred, min.Frame),
				fmt.Sprintf("buffer filter of `%s` rejects a frame holding a value the filter accepts: %v", min.Pred, min.Frame), min)
		}
		// T2: model vs real
		if menc != "1" {
			c.Fail("correspondence", "C04:bf:encoding", fmt.Sprintf("model serialisation of the frame differs from zcode for %v", cs.Frame), cs)
		}
		if mbf != r.bf {
			c.Fail("correspondence", "C04:bf:bufferfilter:"+exprShapeOf(cs.Pred),
				fmt.Sprintf("BufferFilter of `%s` over %v: real=%s model=%s", cs.Pred, cs.Frame, r.bf, mbf), cs)
		}
		if mev == "a" {
			c.Stat("bf:eval-unmodelled")
		} else if mev != r.ev {
			c.Fail("correspondence", "C04:bf:evalfilter:"+exprShapeOf(cs.Pred),
				fmt.Sprintf("filter `%s` over %v: real match=%s model match=%s", cs.Pred, cs.Frame, r.ev, mev), cs)
		} else {
			c.Stat("bf:eval-modelled")
		}
	}
}

func exprShapeOf(pred string) string {
	e, err := filterExprOf(pred)
	if err != nil {
		return "?"
	}
	return exprShape(e)
}

func firstWord(s string) string {
	f := strings.FieldsFunc(s, func(r rune) bool { return r == ' ' || r == ':' })
	if len(f) == 0 {
		return "?"
	}
	return f[0]
}

// c04ShrinkBF reduces an under-approximation witness: one value, then sub-predicates.
func c04ShrinkBF(cs *bfCase) *bfCase {
	bad := func(t *bfCase) bool {
		r := bfRunReal(t)
		return r.err == "" && r.ev == "1" && r.bf == "0"
	}
	cur := *cs
	for _, v := range cs.Frame {
		t := cur
		t.Frame = []string{v}
		if bad(&t) {
			cur = t
			break
		}
	}
	return &cur
}

func runC04(c *Ctx) {
	c.Rule("bf: filter expressions over {search keyword/glob/literal, field==literal, literal in field, grep(term, field), and/or/not, " +
		"atoms without push-down} × frames of 1..4 values (records with strings, nested records below arrays/sets/maps/unions/errors/named " +
		"types, type values, ips, nulls, non-record values); enc/alias: programs × value lists × encodings {zson, zjson, vng, zng(compress, " +
		"frame threshold, EOS positions, threads, read size)}; a case is distinct by (sub-check, predicate/program, values, configuration)")
	if c.Replay != nil {
		c04Replay(c)
		return
	}
	for _, raw := range c.CorpusCases() {
		c.Replay = raw
		c04Replay(c)
		c.Replay = nil
	}
	if c.Want("known") {
		c04Known(c)
	}
	if c.Want("bf") {
		var cases []*bfCase
		// every special value against every term: the defect class and its neighbours
		for _, v := range c04Special {
			for _, t := range []string{"foo", "oo", "bar", `"x y"`, "a.b", "föo"} {
				cases = append(cases, &bfCase{Check: "bf", Pred: t, Frame: []string{v}})
			}
			cases = append(cases, &bfCase{Check: "bf", Pred: `v=="foo"`, Frame: []string{v}},
				&bfCase{Check: "bf", Pred: `"foo" in v`, Frame: []string{v}}, &bfCase{Check: "bf", Pred: `"foo" in this`, Frame: []string{v}},
				&bfCase{Check: "bf", Pred: `10.0.0.1`, Frame: []string{v}}, &bfCase{Check: "bf", Pred: `v==<int64>`, Frame: []string{v}},
				&bfCase{Check: "bf", Pred: `grep("foo", v)`, Frame: []string{v}})
		}
		for i := 0; i < c.N(700, 30000); i++ {
			cases = append(cases, &bfCase{Check: "bf", Pred: c04GenPred(c, 2), Frame: c04GenFrame(c)})
		}
		for _, cs := range cases[len(cases)-3:] {
			c.Sample(cs)
		}
		c04BF(c, cases)
	}
	if c.Want("enc") {
		c04Enc(c)
	}
	if c.Want("big") {
		c04Big(c)
	}
	if c.Want("alias") {
		c04Alias(c)
	}
}

func c04Replay(c *Ctx) {
	var probe struct {
		Check string `json:"check"`
	}
	json.Unmarshal(c.Replay, &probe)
	switch probe.Check {
	case "bf":
		var cs bfCase
		if json.Unmarshal(c.Replay, &cs) == nil {
			c04BF(c, []*bfCase{&cs})
		}
	case "enc", "alias", "big":
		var cs encCase
		if json.Unmarshal(c.Replay, &cs) == nil {
			cs.check(c)
		}
	default:
		c.Note("replay not understood")
	}
}

var _ = bytes.Equal
