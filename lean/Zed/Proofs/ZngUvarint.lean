import Zed.Model.ZngUvarint
/-! Lemmas about the varint codec: round trip, progress, size. -/
namespace Zed.Zng

/-- The rest returned by `readUvarintAux` is a suffix of the input. -/
theorem readUvarintAux_suffix : ∀ (k : Nat) (f : Bool) (bs : Bytes) (v : Nat) (r : Bytes),
    readUvarintAux k f bs = .ok (v, r) → ∃ p, bs = p ++ r ∧ p.length ≤ k := by
  intro k
  induction k with
  | zero => intro f bs v r h; simp [readUvarintAux] at h
  | succ k ih =>
    intro f bs v r h
    cases bs with
    | nil => simp [readUvarintAux] at h
    | cons b bs =>
      simp only [readUvarintAux] at h
      split at h
      · split at h
        · cases h
        · cases h; exact ⟨[b], rfl, by simp⟩
      · split at h
        · rename_i v' r' heq
          obtain ⟨p, hp, hl⟩ := ih false bs v' r' heq
          cases h
          exact ⟨b :: p, by simp [hp], by simp; omega⟩
        · cases h

theorem readUvarintAux_lt : ∀ (k : Nat) (f : Bool) (bs : Bytes) (v : Nat) (r : Bytes),
    readUvarintAux k f bs = .ok (v, r) → v < 2 ^ (7 * (k - 1) + 1) := by
  intro k
  induction k with
  | zero => intro f bs v r h; simp [readUvarintAux] at h
  | succ k ih =>
    intro f bs v r h
    cases bs with
    | nil => simp [readUvarintAux] at h
    | cons b bs =>
      simp only [readUvarintAux] at h
      split at h
      · rename_i hb
        split at h
        · cases h
        · rename_i hnot
          cases h
          by_cases hk0 : k = 0
          · subst hk0
            have : ¬ b.toNat > 1 := fun hc => hnot ⟨rfl, hc⟩
            simp; omega
          · have : b.toNat < 2 ^ 7 := by simpa using hb
            calc b.toNat < 2 ^ 7 := this
              _ ≤ 2 ^ (7 * (k + 1 - 1) + 1) := Nat.pow_le_pow_right (by decide) (by omega)
      · split at h
        · rename_i v' r' heq
          have hv := ih false bs v' r' heq
          cases h
          have hb : b.toNat < 256 := b.toNat_lt
          by_cases hk0 : k = 0
          · subst hk0; simp [readUvarintAux] at heq
          · have e2 : 7 * (k + 1 - 1) + 1 = 7 + (7 * (k - 1) + 1) := by omega
            rw [e2, Nat.pow_add]
            have : (2:Nat) ^ 7 = 128 := by decide
            omega
        · cases h

theorem readUvarint_lt (bs : Bytes) (v : Nat) (r : Bytes) (h : readUvarint bs = .ok (v, r)) :
    v < two64 := by
  have := readUvarintAux_lt 10 true bs v r h
  simpa [two64] using this

/-- Round trip, `k` bytes allowed: every `n` that fits is read back. -/
theorem readUvarintAux_uvarint : ∀ (k : Nat) (n : Nat) (f : Bool) (rest : Bytes),
    n < 2 ^ (7 * (k - 1) + 1) → 0 < k →
    readUvarintAux k f (uvarint n ++ rest) = .ok (n, rest) := by
  intro k
  induction k with
  | zero => intro n f rest _ h; omega
  | succ k ih =>
    intro n f rest hn _
    rw [uvarint]
    split
    · rename_i h128
      have hmod : (UInt8.ofNat n).toNat = n := by
        simp [UInt8.toNat_ofNat']; omega
      simp only [List.cons_append, List.nil_append, readUvarintAux, hmod, h128, if_true]
      split
      · rename_i hc
        obtain ⟨hk, hgt⟩ := hc
        subst hk
        simp at hn; omega
      · rfl
    · rename_i h128
      have hb : (UInt8.ofNat (n % 128 + 128)).toNat = n % 128 + 128 := by
        simp [UInt8.toNat_ofNat']; omega
      have hk0 : k ≠ 0 := by
        intro hk; subst hk; simp at hn; omega
      have hn' : n / 128 < 2 ^ (7 * (k - 1) + 1) := by
        have e2 : 7 * (k + 1 - 1) + 1 = 7 + (7 * (k - 1) + 1) := by omega
        rw [e2, Nat.pow_add] at hn
        have : (2:Nat) ^ 7 = 128 := by decide
        rw [this] at hn
        exact Nat.div_lt_of_lt_mul hn
      simp only [List.cons_append, readUvarintAux, hb]
      have hnlt : ¬ (n % 128 + 128 < 128) := by omega
      simp only [hnlt, if_false]
      rw [ih (n / 128) false rest hn' (by omega)]
      simp only [Except.ok.injEq, Prod.mk.injEq, and_true]
      omega

theorem readUvarint_uvarint (n : Nat) (rest : Bytes) (hn : n < two64) :
    readUvarint (uvarint n ++ rest) = .ok (n, rest) :=
  readUvarintAux_uvarint 10 n true rest (by simpa [two64] using hn) (by decide)

theorem asInt_small (n : Nat) (h : n < two63) : asInt n = (n : Int) := by
  unfold asInt
  have : n % two64 = n := Nat.mod_eq_of_lt (by unfold two63 two64 at *; omega)
  simp [this, h]

theorem readUvarintAsInt_uvarint (n : Nat) (rest : Bytes) (hn : n < two63) :
    readUvarintAsInt (uvarint n ++ rest) = .ok ((n : Int), rest) := by
  unfold readUvarintAsInt
  rw [readUvarint_uvarint n rest (by unfold two63 two64 at *; omega)]
  simp only [asInt_small n hn]

theorem uvarint_small (n : Nat) (h : n < 128) : uvarint n = [UInt8.ofNat n] := by
  rw [uvarint]; simp [h]

theorem uvarint_ne_nil (n : Nat) : uvarint n ≠ [] := by
  rw [uvarint]; split <;> simp

end Zed.Zng
