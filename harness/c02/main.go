package main

import (
	"encoding/json"
	"fmt"
	"hash/fnv"
	"math/rand"
	"os"
	h "verifharness/hlib"
)

func main() { h.Main("C02", runC02) }

func caseKey(x any) string {
	b, _ := json.Marshal(x)
	hh := fnv.New64a()
	hh.Write(b)
	return fmt.Sprintf("%x", hh.Sum64())
}

func runC02(c *h.Ctx) {
	c.Rule("witness: the recorded defect witnesses, replayed. oracle: sequences of 1-4 values over the whole type system " +
		"(depth ≤ 3; 40% from the plain fragment of the Lean theorem, 30% with named/error types steered away from the recorded defects, " +
		"30% unrestricted incl. hostile names and boundary primitives: -0, ±Inf, NaN, float16/32, int/uint extremes, time/duration extremes, IPv6, v4-mapped, " +
		"empty containers, nulls of every type, partially populated unions, one name bound to several types) × mode {FormatValue, same context, FormatRecord, zsonio.Writer, Format without reset} " +
		"× pretty {0,2,4} × persist regexp; a case is distinct by (mode, settings, types, values); failing cases are shrunk structurally and classified. " +
		"corr: the same cases, real AST vs model AST, real analysis vs model analysis, model round trip vs real round trip. guarded: plain-fragment values whose Lean guard (evaluated by the driver) holds must round-trip. " +
		"quote: strings/names/type names incl. every escape class, keywords, digits-first, non-ASCII. type: FormatType/ParseType and the type AST. json: grammar-directed JSON documents (number spellings, escapes, surrogates, duplicate keys, mixed arrays) through both readers and the model.")
	if c.Replay != nil {
		replayC02(c)
		return
	}
	for _, raw := range c.CorpusCases() {
		replayOne(c, raw)
	}
	if c.Want("witness") {
		witnessRT(c)
	}
	if c.Want("guarded") {
		guardedRT(c)
		guardedNamedRT(c)
		guardedStreamRT(c)
		guardedNestedRT(c)
	}
	if c.Want("quote") {
		quoteCheck(c)
	}
	if c.Want("type") {
		typeCheckRT(c)
	}
	if c.Want("floats") {
		floatsCheck(c)
	}
	if c.Want("interleave") {
		interleaveCheck(c)
	}
	if c.Want("json") {
		jsonCheck(c)
	}
	if c.Want("corr") {
		corrRT(c)
	}
	if c.Want("oracle") {
		oracleRT(c)
	}
}

func corrRT(c *h.Ctx) {
	n := c.N(1500, 15000)
	for i := 0; i < n; i++ {
		g := &gen{r: c.Rng, noHostle: i%2 == 0}
		cs := genRTCase(c, g)
		c.Eval("corr" + caseKey(cs))
		c.Stat("corr:mode:" + cs.Mode)
		corrCase(c, cs)
	}
}

type replayObj struct {
	Check string  `json:"check"`
	RT    *rtCase `json:"rt,omitempty"`
	Kind  string  `json:"kind,omitempty"`
	S     string  `json:"s,omitempty"`
	T     *TSpec  `json:"t,omitempty"`
	Doc   *jdoc   `json:"doc,omitempty"`
	IL    *ilCase `json:"il,omitempty"`
	Text  string  `json:"text,omitempty"`
}

func replayC02(c *h.Ctx) { replayOne(c, c.Replay) }

func replayOne(c *h.Ctx, raw json.RawMessage) {
	var ro replayObj
	if err := json.Unmarshal(raw, &ro); err != nil {
		c.Fail("harness", "C02:bad-replay", err.Error(), nil)
		return
	}
	switch ro.Check {
	case "oracle":
		checkRT(c, ro.RT, false)
	case "corr":
		corrCase(c, ro.RT)
	case "quote":
		replayQuote(c, ro.Kind, ro.S)
	case "type":
		typeCase(c, c.Model(), ro.T, true)
	case "json":
		jsonCase(c, c.Model(), ro.Doc, ro.Text)
	case "interleave":
		ilCase1(c, ro.IL)
	}
}

func genRTCase(c *h.Ctx, g *gen) *rtCase {
	r := c.Rng
	cs := &rtCase{Mode: rtModes[r.Intn(len(rtModes))], Pretty: []int{0, 0, 2, 4}[r.Intn(4)]}
	n := 1
	if cs.Mode == "writer" || cs.Mode == "format" || cs.Mode == "record" {
		n = 1 + r.Intn(4)
		if (cs.Mode == "writer" || cs.Mode == "format") && r.Intn(2) == 0 {
			cs.Persist = []string{".*", "^x$", "^(x|y|port)$", "é", "^$"}[r.Intn(5)]
		}
	}
	if !g.plain && r.Intn(2) == 0 {
		// the same named types again and again: later occurrences are written by bare name
		names := []string{"x", "y", "z", "port", "conn"}
		r.Shuffle(len(names), func(i, j int) { names[i], names[j] = names[j], names[i] })
		g.makePool(1+r.Intn(3), names)
		if n > 1 || r.Intn(2) == 0 {
			n += r.Intn(3)
		}
	}
	for i := 0; i < n; i++ {
		var t *TSpec
		var v *VSpec
		if len(g.pool) > 0 && r.Intn(3) == 0 {
			t = cloneT(g.pool[r.Intn(len(g.pool))])
			v = g.genVal(t, 2, []int{0, 1, 3}[r.Intn(3)])
		} else {
			t, v = g.genCase(1 + r.Intn(3))
		}
		cs.Vals = append(cs.Vals, tv{t, v})
	}
	g.pool = nil
	return cs
}

// knownTrigger: the case contains a construct one of the recorded defects is about.
func knownTrigger(cs *rtCase) bool {
	if caseHazards(cs).any() {
		return true
	}
	f := caseFeatures(cs)
	return f.bareEmpty || f.namedEnum || f.namedOverSameName || f.namedUnionContainer || f.sameNameTwoTypes ||
		f.namedInsideContainer || f.unionField || f.namedUnionMember || f.typeValueRebinds || f.namedOverNamed
}

func oracleRT(c *h.Ctx) {
	n := c.N(2000, 30000)
	for i := 0; i < n; i++ {
		var cs *rtCase
		switch i % 10 {
		case 0, 1, 2, 3:
			// the fragment the theorem covers: must round-trip, whatever the settings
			cs = genRTCase(c, &gen{r: c.Rng, plain: true, tame: true})
			c.Stat("rt:gen:plain")
		case 4, 5, 6:
			// named and error types, steering clear of the recorded defects
			for k := 0; k < 20; k++ {
				cs = genRTCase(c, &gen{r: c.Rng, noHostle: true, tame: true})
				if !knownTrigger(cs) {
					break
				}
			}
			c.Stat("rt:gen:steered")
		default:
			cs = genRTCase(c, &gen{r: c.Rng, noHostle: i%3 == 0})
			c.Stat("rt:gen:wild")
		}
		checkRT(c, cs, true)
	}
	if buildErrSample != "" {
		c.Note("example of a generated case skipped because the value could not be built: %s", buildErrSample)
	}
}

func checkRT(c *h.Ctx, cs *rtCase, shrink bool) {
	res := runRT(cs)
	c.Eval(caseKey(cs))
	c.Stat("rt:mode:" + cs.Mode)
	if c.Rng.Intn(400) == 0 {
		c.Sample(map[string]any{"check": "oracle", "case": cs, "ok": res.ok, "text": clip(res.text, 200)})
	}
	if res.ok {
		if res.class != "" {
			c.Stat("rt:skipped:" + res.class)
		}
		return
	}
	min := cs
	if shrink {
		min = shrinkCase(cs, res.class, func(x *rtCase) string {
			r := runRT(x)
			if r.ok {
				return ""
			}
			return r.class
		}, 800)
		res = runRT(min)
	}
	key := classifyRT(min, res)
	kind := "oracle"
	if res.panic {
		kind = "panic"
	}
	c.Fail(kind, key, fmt.Sprintf("%s: %s; text=%q", res.class, res.detail, clip(res.text, 300)), replayObj{Check: "oracle", RT: min})
}

func clip(s string, n int) string {
	if len(s) > n {
		return s[:n] + "…"
	}
	return s
}

// shape: structure with names classified.
func shape(t *TSpec, v *VSpec) string {
	b, _ := json.Marshal(struct {
		T *TSpec
		V *VSpec
	}{t, v})
	return string(b)
}

var _ = rand.New
var _ = os.Exit
