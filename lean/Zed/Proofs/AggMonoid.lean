/-
  Proofs about aggregate carriers (C10 / C08): partial-aggregate homomorphism, permutation
  invariance for commutative carriers, the per-instance laws, and the IEEE-addition guard.
-/
import Zed.Model.AggMonoid
namespace Zed.Proofs.AggMonoid
open Zed.Agg
variable {M N α : Type}

/-! ### generic fold lemmas -/

theorem foldl_op_acc (m : Mon M) (hm : m.Laws) (f : α → M) (a : M) (xs : List α) :
    xs.foldl (fun s x => m.op s (f x)) a = m.op a (m.fold f xs) := by
  unfold Mon.fold
  induction xs generalizing a with
  | nil => simp [hm.right_id]
  | cons x xs ih =>
    simp only [List.foldl_cons]
    rw [ih (m.op a (f x)), ih (m.op m.e (f x)), hm.left_id, hm.assoc]

theorem fold_nil (m : Mon M) (f : α → M) : m.fold f [] = m.e := rfl

theorem fold_cons (m : Mon M) (hm : m.Laws) (f : α → M) (x : α) (xs : List α) :
    m.fold f (x :: xs) = m.op (f x) (m.fold f xs) := by
  show List.foldl _ (m.op m.e (f x)) xs = _
  rw [foldl_op_acc m hm, hm.left_id]

theorem fold_append (m : Mon M) (hm : m.Laws) (f : α → M) (xs ys : List α) :
    m.fold f (xs ++ ys) = m.op (m.fold f xs) (m.fold f ys) := by
  induction xs with
  | nil => simp [fold_nil, hm.left_id]
  | cons x xs ih => rw [List.cons_append, fold_cons m hm, fold_cons m hm, ih, hm.assoc]

theorem combineAll_eq_fold (m : Mon M) (ps : List M) : m.combineAll ps = m.fold id ps := rfl

theorem combineAll_cons (m : Mon M) (hm : m.Laws) (p : M) (ps : List M) :
    m.combineAll (p :: ps) = m.op p (m.combineAll ps) := by
  rw [combineAll_eq_fold, combineAll_eq_fold, fold_cons m hm]; rfl

/-- combining per-chunk partials (in chunk order) = aggregating the concatenation; monoid laws only -/
theorem partial_hom (m : Mon M) (hm : m.Laws) (f : α → M) (chunks : List (List α)) :
    m.combineAll (chunks.map (m.fold f)) = m.fold f chunks.flatten := by
  induction chunks with
  | nil => rfl
  | cons c cs ih =>
    rw [List.map_cons, combineAll_cons m hm, ih, List.flatten_cons, fold_append m hm]

/-- input order does not matter for a commutative monoid -/
theorem fold_perm (m : Mon M) (hm : m.CommLaws) (f : α → M) {xs ys : List α} (h : xs.Perm ys) :
    m.fold f xs = m.fold f ys := by
  induction h with
  | nil => rfl
  | cons x _ ih => rw [fold_cons m hm.toLaws, fold_cons m hm.toLaws, ih]
  | swap x y l =>
    simp only [fold_cons m hm.toLaws]
    rw [← hm.assoc, ← hm.assoc, hm.comm (f y) (f x)]
  | trans _ _ ih1 ih2 => rw [ih1, ih2]

/-- partials may be combined in any order, chunks may come from any permutation of the input -/
theorem partial_hom_perm (m : Mon M) (hm : m.CommLaws) (f : α → M) (chunks : List (List α))
    (ps : List M) (xs : List α) (hps : ps.Perm (chunks.map (m.fold f))) (hxs : xs.Perm chunks.flatten) :
    m.combineAll ps = m.fold f xs := by
  rw [combineAll_eq_fold, fold_perm m hm id hps, ← combineAll_eq_fold, partial_hom m hm.toLaws,
    fold_perm m hm f hxs]

theorem prod_laws (m : Mon M) (n : Mon N) (hm : m.Laws) (hn : n.Laws) : (m.prod n).Laws where
  assoc a b c := by simp [Mon.prod, hm.assoc, hn.assoc]
  left_id a := by simp [Mon.prod, hm.left_id, hn.left_id]
  right_id a := by simp [Mon.prod, hm.right_id, hn.right_id]

theorem prod_commLaws (m : Mon M) (n : Mon N) (hm : m.CommLaws) (hn : n.CommLaws) : (m.prod n).CommLaws where
  toLaws := prod_laws m n hm.toLaws hn.toLaws
  comm a b := by
    show (m.op a.1 b.1, n.op a.2 b.2) = (m.op b.1 a.1, n.op b.2 a.2)
    rw [hm.comm, hn.comm]

/-! ### instances -/

theorem countMon_laws : countMon.CommLaws where
  assoc a b c := Nat.add_assoc a b c
  left_id a := Nat.zero_add a
  right_id a := Nat.add_zero a
  comm a b := Nat.add_comm a b

theorem kind_max_assoc (a b c : Kind) : Kind.max (Kind.max a b) c = Kind.max a (Kind.max b c) := by
  cases a <;> cases b <;> cases c <;> rfl
theorem kind_max_comm (a b : Kind) : Kind.max a b = Kind.max b a := by
  cases a <;> cases b <;> rfl
theorem kind_max_none_left (a : Kind) : Kind.max .none a = a := by cases a <;> rfl
theorem kind_max_none_right (a : Kind) : Kind.max a .none = a := by cases a <;> rfl

theorem optOp_assoc (g : Int → Int → Int) (hg : ∀ a b c, g (g a b) c = g a (g b c)) (a b c : Option Int) :
    optOp g (optOp g a b) c = optOp g a (optOp g b c) := by
  cases a <;> cases b <;> cases c <;> simp [optOp, hg]
theorem optOp_comm (g : Int → Int → Int) (hg : ∀ a b, g a b = g b a) (a b : Option Int) :
    optOp g a b = optOp g b a := by
  cases a <;> cases b <;> simp [optOp, hg _ _]
theorem optOp_none_left (g : Int → Int → Int) (a : Option Int) : optOp g none a = a := by
  cases a <;> rfl
theorem optOp_none_right (g : Int → Int → Int) (a : Option Int) : optOp g a none = a := by
  cases a <;> rfl

theorem mathMon_laws (g : Int → Int → Int) (hga : ∀ a b c, g (g a b) c = g a (g b c))
    (hgc : ∀ a b, g a b = g b a) : (mathMon g).CommLaws where
  assoc a b c := by
    show MathSt.mk (Kind.max (Kind.max a.kind b.kind) c.kind) (optOp g (optOp g a.acc b.acc) c.acc) =
      MathSt.mk (Kind.max a.kind (Kind.max b.kind c.kind)) (optOp g a.acc (optOp g b.acc c.acc))
    rw [kind_max_assoc, optOp_assoc g hga]
  left_id a := by
    show MathSt.mk (Kind.max .none a.kind) (optOp g none a.acc) = a
    rw [kind_max_none_left, optOp_none_left]
  right_id a := by
    show MathSt.mk (Kind.max a.kind .none) (optOp g a.acc none) = a
    rw [kind_max_none_right, optOp_none_right]
  comm a b := by
    show MathSt.mk (Kind.max a.kind b.kind) (optOp g a.acc b.acc) =
      MathSt.mk (Kind.max b.kind a.kind) (optOp g b.acc a.acc)
    rw [kind_max_comm, optOp_comm g hgc]

theorem sumMon_laws : sumMon.CommLaws :=
  mathMon_laws _ (fun a b c => Int.add_assoc a b c) (fun a b => Int.add_comm a b)

theorem minMon_laws : minMon.CommLaws :=
  mathMon_laws _ (fun a b c => by grind) (fun a b => by grind)

theorem maxMon_laws : maxMon.CommLaws :=
  mathMon_laws _ (fun a b c => by grind) (fun a b => by grind)

theorem avgMon_laws : avgMon.CommLaws where
  assoc a b c := by simp [avgMon, Int.add_assoc, Nat.add_assoc]
  left_id a := by simp [avgMon]
  right_id a := by simp [avgMon]
  comm a b := by
    show (a.1 + b.1, a.2 + b.2) = (b.1 + a.1, b.2 + a.2)
    rw [Int.add_comm, Nat.add_comm]

theorem andMon_laws : andMon.CommLaws where
  assoc a b c := by
    rcases a with _ | a <;> rcases b with _ | b <;> rcases c with _ | c <;>
      simp [andMon, optBool, Bool.and_assoc]
  left_id a := by cases a <;> rfl
  right_id a := by cases a <;> rfl
  comm a b := by
    rcases a with _ | a <;> rcases b with _ | b <;> simp [andMon, optBool, Bool.and_comm]

theorem orMon_laws : orMon.CommLaws where
  assoc a b c := by
    rcases a with _ | a <;> rcases b with _ | b <;> rcases c with _ | c <;>
      simp [orMon, optBool, Bool.or_assoc]
  left_id a := by cases a <;> rfl
  right_id a := by cases a <;> rfl
  comm a b := by
    rcases a with _ | a <;> rcases b with _ | b <;> simp [orMon, optBool, Bool.or_comm]

theorem setMon_laws : setMon.CommLaws where
  assoc a b c := by funext x; simp [setMon, Bool.or_assoc]
  left_id a := by funext x; simp [setMon]
  right_id a := by funext x; simp [setMon]
  comm a b := by funext x; simp [setMon, Bool.or_comm]

theorem collectMon_laws : collectMon.Laws where
  assoc a b c := List.append_assoc a b c
  left_id a := List.nil_append a
  right_id a := List.append_nil a

theorem not_collectMon_comm : ¬ (∀ a b, collectMon.op a b = collectMon.op b a) := by
  intro h
  have := h ["a"] ["b"]
  simp [collectMon] at this

/-- collect under a permutation of the input: same multiset -/
theorem collect_perm {xs ys : List AVal} (h : xs.Perm ys) :
    (collectMon.fold collectF xs).Perm (collectMon.fold collectF ys) := by
  induction h with
  | nil => exact List.Perm.refl _
  | cons x _ ih =>
    rw [fold_cons _ collectMon_laws, fold_cons _ collectMon_laws]
    exact List.Perm.append_left _ ih
  | swap x y l =>
    simp only [fold_cons _ collectMon_laws]
    show ((collectF y) ++ ((collectF x) ++ _)).Perm ((collectF x) ++ ((collectF y) ++ _))
    rw [← List.append_assoc, ← List.append_assoc]
    exact List.Perm.append_right _ List.perm_append_comm
  | trans _ _ ih1 ih2 => exact ih1.trans ih2

/-- set states are idempotent: consuming a value twice changes nothing (union/dcount/fuse) -/
theorem setMon_idem (a : TokSet) : setMon.op a a = a := by
  funext x; simp [setMon]

/-! ### IEEE addition (`fadd rnd`) -/

theorem absSum_nil : absSum [] = 0 := rfl
theorem absSum_cons (x : Int) (xs : List Int) : absSum (x :: xs) = x.natAbs + absSum xs := by
  simp [absSum]
theorem absSum_append (xs ys : List Int) : absSum (xs ++ ys) = absSum xs + absSum ys := by
  simp [absSum]

theorem natAbs_sum_le (xs : List Int) : xs.sum.natAbs ≤ absSum xs := by
  induction xs with
  | nil => simp [absSum]
  | cons x xs ih =>
    rw [List.sum_cons, absSum_cons]
    have := Int.natAbs_add_le x xs.sum
    omega

theorem fadd_exact (rnd : Int → Int) (a b : Int) (h : a.natAbs + b.natAbs < exactBound) :
    fadd rnd a b = a + b := by
  unfold fadd
  have := Int.natAbs_add_le a b
  rw [if_pos (by omega)]

/-- generalised accumulator form -/
theorem foldl_fadd_exact (rnd : Int → Int) (acc : Int) (xs : List Int)
    (h : acc.natAbs + absSum xs < exactBound) : xs.foldl (fadd rnd) acc = acc + xs.sum := by
  induction xs generalizing acc with
  | nil => simp
  | cons x xs ih =>
    rw [absSum_cons] at h
    rw [List.foldl_cons, fadd_exact rnd acc x (by omega), ih, List.sum_cons, Int.add_assoc]
    have := Int.natAbs_add_le acc x
    omega

/-- under ExactlySummable every chunked float sum equals the exact integer sum, for ANY rounding function -/
theorem fsum_exact (rnd : Int → Int) (xs : List Int) (h : ExactlySummable xs) : fsum rnd xs = xs.sum := by
  unfold fsum
  rw [foldl_fadd_exact rnd 0 xs (by simpa [ExactlySummable] using h)]
  simp

theorem foldl_fadd_chunks (rnd : Int → Int) (acc : Int) (chunks : List (List Int))
    (h : acc.natAbs + absSum chunks.flatten < exactBound) :
    (chunks.map (fsum rnd)).foldl (fadd rnd) acc = acc + chunks.flatten.sum := by
  induction chunks generalizing acc with
  | nil => simp
  | cons c cs ih =>
    rw [List.flatten_cons, absSum_append] at h
    have hc : fsum rnd c = c.sum := fsum_exact rnd c (by unfold ExactlySummable; omega)
    have hcs := natAbs_sum_le c
    rw [List.map_cons, List.foldl_cons, hc, fadd_exact rnd acc c.sum (by omega), ih,
      List.flatten_cons, List.sum_append, Int.add_assoc]
    have := Int.natAbs_add_le acc c.sum
    omega

theorem fsum_partial_hom (rnd : Int → Int) (chunks : List (List Int)) (h : ExactlySummable chunks.flatten) :
    (chunks.map (fsum rnd)).foldl (fadd rnd) 0 = fsum rnd chunks.flatten := by
  rw [foldl_fadd_chunks rnd 0 chunks (by simpa [ExactlySummable] using h), fsum_exact rnd _ h]
  simp

theorem absSum_perm {xs ys : List Int} (hp : xs.Perm ys) : absSum xs = absSum ys := by
  unfold absSum
  exact (hp.map _).sum_nat

theorem sum_perm_int {xs ys : List Int} (hp : xs.Perm ys) : xs.sum = ys.sum := by
  induction hp with
  | nil => rfl
  | cons x _ ih => simp [ih]
  | swap x y l => simp only [List.sum_cons]; omega
  | trans _ _ ih1 ih2 => rw [ih1, ih2]

theorem fsum_perm (rnd : Int → Int) {xs ys : List Int} (hp : xs.Perm ys) (h : ExactlySummable xs) :
    fsum rnd xs = fsum rnd ys := by
  have h' : ExactlySummable ys := by unfold ExactlySummable at *; rw [← absSum_perm hp]; exact h
  rw [fsum_exact rnd xs h, fsum_exact rnd ys h', sum_perm_int hp]

theorem foldl_favgStep (rnd : Int → Int) (s : Int × Nat) (xs : List Int) :
    xs.foldl (favgStep rnd) s = (xs.foldl (fadd rnd) s.1, s.2 + xs.length) := by
  induction xs generalizing s with
  | nil => simp
  | cons x xs ih =>
    rw [List.foldl_cons, ih]
    simp [favgStep]
    omega

theorem favg_eq (rnd : Int → Int) (xs : List Int) : favg rnd xs = (fsum rnd xs, xs.length) := by
  unfold favg fsum
  rw [foldl_favgStep]
  simp

theorem foldl_favgCombine (rnd : Int → Int) (s : Int × Nat) (ps : List (Int × Nat)) :
    ps.foldl (favgCombine rnd) s =
      ((ps.map (·.1)).foldl (fadd rnd) s.1, s.2 + (ps.map (·.2)).sum) := by
  induction ps generalizing s with
  | nil => simp
  | cons p ps ih =>
    rw [List.foldl_cons, ih]
    simp [favgCombine]
    omega

theorem favg_partial_hom (rnd : Int → Int) (chunks : List (List Int)) (h : ExactlySummable chunks.flatten) :
    (chunks.map (favg rnd)).foldl (favgCombine rnd) (0, 0) = favg rnd chunks.flatten := by
  rw [foldl_favgCombine, favg_eq]
  have h1 : (chunks.map (favg rnd)).map (·.1) = chunks.map (fsum rnd) := by
    simp [favg_eq]
  have h2 : ((chunks.map (favg rnd)).map (·.2)).sum = chunks.flatten.length := by
    simp [favg_eq, List.length_flatten, Function.comp_def]
  rw [h1, h2, fsum_partial_hom rnd chunks h]
  simp

/-- without the guard the homomorphism fails for some rounding: exhibit rnd, chunks -/
theorem not_fsum_partial_hom : ∃ (rnd : Int → Int) (chunks : List (List Int)),
    (chunks.map (fsum rnd)).foldl (fadd rnd) 0 ≠ fsum rnd chunks.flatten :=
  ⟨fun _ => 0, [[9007199254740991], [1, -1]], by decide⟩

end Zed.Proofs.AggMonoid
