/-
  Helper lemmas for C12 / C17: the journal invariant (Layer 1).
  For one journal j: entries are contiguous 1..e, HEAD ∈ {e-1, e}, the only client that may
  write HEAD is the creator of entry e while HEAD = e-1, and every position a client knows
  was read from HEAD (≤ HEAD).
-/
import Zed.Model.BranchCommit
namespace Zed.Store

def JOut.store : JOut → Store
  | .cont s _ _ _ _ => s
  | .done s _ _ _ => s
def JOut.cache : JOut → JCache
  | .cont _ c _ _ _ => c
  | .done _ c _ _ => c
def JOut.pc? : JOut → Option JPc
  | .cont _ _ _ pc _ => some pc
  | .done _ _ _ _ => none
def JOut.kind (k : JKind) : JOut → JKind
  | .cont _ _ k' _ _ => k'
  | .done _ _ _ _ => k
@[simp] theorem JOut.store_cont (s c k pc ev) : (JOut.cont s c k pc ev).store = s := rfl
@[simp] theorem JOut.store_done (s c r ev) : (JOut.done s c r ev).store = s := rfl
@[simp] theorem JOut.cache_cont (s c k pc ev) : (JOut.cont s c k pc ev).cache = c := rfl
@[simp] theorem JOut.cache_done (s c r ev) : (JOut.done s c r ev).cache = c := rfl
@[simp] theorem JOut.pc_cont (s c k pc ev) : (JOut.cont s c k pc ev).pc? = some pc := rfl
@[simp] theorem JOut.pc_done (s c r ev) : (JOut.done s c r ev).pc? = none := rfl

/-- Journal positions a program counter carries (all were read from HEAD). -/
def JPc.known : JPc → List Nat
  | .rdHead => []
  | .rdSnap h => [h]
  | .rdTail h => [h]
  | .rdEnt h _ _ _ => [h]
  | .putSnap h _ => [h]
  | .putx p => [p]
  | .putHead _ => []

def JPc.isPutHead : JPc → Bool
  | .putHead _ => true
  | _ => false

/-- Entries of journal j are exactly the positions 1..e. -/
def EntRange (s : Store) (j e : Nat) : Prop :=
  ∀ n, (s (.ent j n)).isSome ↔ (1 ≤ n ∧ n ≤ e)

theorem headOf_put_head (s : Store) (j n) : headOf (s.put (.head j) (.num n)) j = n := by
  simp [headOf, Store.put]

theorem headOf_put_other (s : Store) (j p v) (h : p ≠ .head j) : headOf (s.put p v) j = headOf s j := by
  simp [headOf, Store.put, Ne.symm h]

theorem headOf_congr (s s' : Store) (j) (h : s' (.head j) = s (.head j)) : headOf s' j = headOf s j := by
  simp [headOf, h]

@[simp] theorem afterLoad_store (s c k ev) : (afterLoad s c k ev).store = s := by
  unfold afterLoad; split <;> try split
  all_goals simp
@[simp] theorem afterLoad_cache (s c k ev) : (afterLoad s c k ev).cache = c := by
  unfold afterLoad; split <;> try split
  all_goals simp

theorem afterLoad_pc (s c k ev) (pc) (h : (afterLoad s c k ev).pc? = some pc) : pc = .putx c.pos := by
  unfold afterLoad at h; split at h <;> try split at h
  all_goals simp_all

/-- A journal step on journal j touches only paths under j. -/
theorem jstep_frame (s : Store) (j : Nat) (jc k pc) (q : Path) (hq : q.pool ≠ j) :
    (jstep s j jc k pc).store q = s q := by
  cases pc <;> simp only [jstep]
  all_goals (repeat' split)
  all_goals simp_all [Store.put]
  all_goals (intro h; subst h; simp [Path.pool] at hq)

/-- A journal step never touches commit objects. -/
theorem jstep_cobj (s : Store) (j : Nat) (jc k pc) (p c : Nat) :
    (jstep s j jc k pc).store (.cobj p c) = s (.cobj p c) := by
  cases pc <;> simp only [jstep]
  all_goals (repeat' split)
  all_goals simp_all [Store.put]

/-- Effect of one journal step on the journal's own HEAD / entries. -/
inductive JEffect (s : Store) (j : Nat) (jc : JCache) (k : JKind) (pc : JPc) (out : JOut) (H : Nat) : Prop
  | quiet (hent : ∀ n, out.store (.ent j n) = s (.ent j n)) (hhead : out.store (.head j) = s (.head j))
      (hpc : ∀ pc', out.pc? = some pc' → pc'.isPutHead = false ∧ ∀ p ∈ pc'.known, p ≤ H)
      (hcache : out.cache.pos ≤ H) (hnot : pc.isPutHead = false)
  | newEnt (pos : Nat) (op : JOp) (attempt : Nat) (hk : k = .commit op attempt) (hpc : pc = .putx pos)
      (hnone : s (.ent j (pos + 1)) = none)
      (hst : out.store = s.put (.ent j (pos + 1)) (.entry op.acts))
      (hpc' : out.pc? = some (.putHead (pos + 1))) (hcache : out.cache = jc)
  | newHead (n : Nat) (hpc : pc = .putHead n) (hst : out.store = s.put (.head j) (.num n))
      (hpc' : out.pc? = none) (hcache : out.cache.pos = 0)

theorem jstep_effect (s : Store) (j : Nat) (jc : JCache) (k : JKind) (pc : JPc)
    (hknown : ∀ p ∈ pc.known, p ≤ headOf s j) (hcache : jc.pos ≤ headOf s j) :
    JEffect s j jc k pc (jstep s j jc k pc) (headOf s j) := by
  cases pc with
  | rdHead =>
    simp only [jstep]
    split
    · rename_i h heq
      have hh : headOf s j = h := by simp [headOf, heq]
      split
      · apply JEffect.quiet <;> simp [JPc.isPutHead]
        · intro pc' hp; have := afterLoad_pc _ _ _ _ _ hp; subst this; simp [JPc.isPutHead, JPc.known]; omega
        · exact hcache
      · split
        · apply JEffect.quiet <;> simp [JPc.isPutHead]; exact hcache
        · apply JEffect.quiet <;> simp [JPc.isPutHead, JPc.known]
          · omega
          · exact hcache
    · apply JEffect.quiet <;> simp [JPc.isPutHead]; exact hcache
  | rdSnap h =>
    simp only [jstep]
    simp [JPc.known] at hknown
    split
    · split
      · apply JEffect.quiet <;> simp [JPc.isPutHead, JPc.known, hknown, hcache]
      · apply JEffect.quiet <;> simp [JPc.isPutHead, hknown]
        intro pc' hp; have := afterLoad_pc _ _ _ _ _ hp; subst this; simp [JPc.isPutHead, JPc.known, hknown]
    · apply JEffect.quiet <;> simp [JPc.isPutHead, JPc.known, hknown, hcache]
    · apply JEffect.quiet <;> simp [JPc.isPutHead, JPc.known, hknown, hcache]
  | rdTail h =>
    simp only [jstep]
    simp [JPc.known] at hknown
    split <;> (apply JEffect.quiet <;> simp [JPc.isPutHead, JPc.known, hknown, hcache])
  | rdEnt h n t a =>
    simp only [jstep]
    simp [JPc.known] at hknown
    split
    · split
      · apply JEffect.quiet <;> simp [JPc.isPutHead, hcache]
      · split
        · apply JEffect.quiet <;> simp [JPc.isPutHead, JPc.known, hknown, hcache]
        · split
          · apply JEffect.quiet <;> simp [JPc.isPutHead, JPc.known, hknown]
          · apply JEffect.quiet <;> simp [JPc.isPutHead, hknown]
            intro pc' hp; have := afterLoad_pc _ _ _ _ _ hp; subst this; simp [JPc.isPutHead, JPc.known, hknown]
    · apply JEffect.quiet <;> simp [JPc.isPutHead, hcache]
  | putSnap h t =>
    simp only [jstep]
    apply JEffect.quiet <;> simp [JPc.isPutHead, Store.put, hcache]
    intro pc' hp; have := afterLoad_pc _ _ _ _ _ hp; subst this; simp [JPc.isPutHead, JPc.known, hcache]
  | putx pos =>
    simp only [jstep]
    simp [JPc.known] at hknown
    split
    · apply JEffect.quiet <;> simp [JPc.isPutHead, hcache]
    · split
      · split <;> (apply JEffect.quiet <;> simp [JPc.isPutHead, JPc.known, hcache])
      · rename_i op attempt _ hnone
        exact JEffect.newEnt pos op attempt rfl rfl hnone rfl (by simp) (by simp)
  | putHead n =>
    simp only [jstep]
    exact JEffect.newHead n rfl rfl (by simp) (by simp)

def Proc.onJ (j : Nat) : Proc → Option (Nat × JPc)
  | .jp j' slot _ pc => if j' = j then some (slot, pc) else none
  | .bc b (.lookup pc) => if b.pool = j then some (b.slot, pc) else none
  | .bc b (.update _ _ _ pc) => if b.pool = j then some (b.slot, pc) else none
  | _ => none

/-- The journal procedure kind (load / commit op attempt) a procedure is running on journal j. -/
def Proc.kindOn (j : Nat) : Proc → Option JKind
  | .jp j' _ k _ => if j' = j then some k else none
  | .bc b (.lookup _) => if b.pool = j then some .load else none
  | .bc b (.update tip id attempt _) =>
    if b.pool = j then some (.commit (.update b.branch tip id) attempt) else none
  | _ => none

def Proc.resets (j : Nat) : Proc → Bool
  | .create j' _ => j' == j
  | .delPool p => p == j
  | _ => false

def Client.onJ (x : Client) (j : Nat) : Option (Nat × JPc) :=
  match x.proc with
  | some p => p.onJ j
  | none => none

def Client.pcOn (x : Client) (j : Nat) : Option JPc := (x.onJ j).map (·.2)

def Client.kindOn (x : Client) (j : Nat) : Option JKind :=
  match x.proc with
  | some p => p.kindOn j
  | none => none

/-- A journal step keeps the procedure kind, except that a commit moves on to its next attempt. -/
theorem afterLoad_kind (s c k ev st jc k' pc' ev') (h : afterLoad s c k ev = .cont st jc k' pc' ev') : k' = k := by
  unfold afterLoad at h
  split at h
  · cases h
  · split at h
    · cases h
    · cases h; rfl

theorem jstep_kind (s j jc k pc st jc' k' pc' ev)
    (h : jstep s j jc k pc = .cont st jc' k' pc' ev) :
    k' = k ∨ ∃ op a, k = .commit op a ∧ k' = .commit op (a + 1) := by
  cases pc <;> simp only [jstep] at h
  all_goals (repeat' split at h)
  all_goals (first
    | (cases h; done)
    | (left; exact afterLoad_kind _ _ _ _ _ _ _ _ _ h)
    | (cases h; left; rfl)
    | (cases h; right; exact ⟨_, _, rfl, rfl⟩))

theorem jstep_kind_load (s j jc pc st jc' k' pc' ev)
    (h : jstep s j jc .load pc = .cont st jc' k' pc' ev) : k' = .load := by
  rcases jstep_kind _ _ _ _ _ _ _ _ _ _ h with h1 | ⟨op, a, h1, _⟩
  · exact h1
  · cases h1

theorem jstep_kind_commit (s j jc op a pc st jc' k' pc' ev)
    (h : jstep s j jc (.commit op a) pc = .cont st jc' k' pc' ev) : ∃ a', k' = .commit op a' := by
  rcases jstep_kind _ _ _ _ _ _ _ _ _ _ h with h1 | ⟨op', a', h1, h2⟩
  · exact ⟨a, h1⟩
  · cases h1; exact ⟨_, h2⟩

@[simp] theorem setClient_same (s : Sys) (c x) : (s.setClient c x).cl c = x := by simp [Sys.setClient]
theorem setClient_other (s : Sys) (c c' x) (h : c' ≠ c) : (s.setClient c x).cl c' = s.cl c' := by
  simp [Sys.setClient, h]
@[simp] theorem setClient_store (s : Sys) (c x) : (s.setClient c x).store = s.store := rfl
@[simp] theorem setClient_next (s : Sys) (c x) : (s.setClient c x).next = s.next := rfl

@[simp] theorem setCache_proc (x : Client) (j slot jc) : (x.setCache j slot jc).proc = x.proc := rfl
@[simp] theorem setCache_res (x : Client) (j slot jc) : (x.setCache j slot jc).res = x.res := rfl

/-- What one step of client c means for journal j. -/
inductive StepJ (j : Nat) (s : Sys) (c : Nat) (s' : Sys) : Prop
  | frame (hhead : s'.store (.head j) = s.store (.head j))
      (hent : ∀ n, s'.store (.ent j n) = s.store (.ent j n))
      (hold : (s.cl c).onJ j = none)
      (hnew : (s'.cl c).pcOn j = none ∨ (s'.cl c).pcOn j = some .rdHead)
      (hcache : ∀ slot, (s'.cl c).cache j slot = (s.cl c).cache j slot)
      (hsnap : s'.store (.snap j) = s.store (.snap j))
      (htail : s'.store (.tail j) = s.store (.tail j))
  | jrun (slot : Nat) (k : JKind) (pc : JPc) (hold : (s.cl c).onJ j = some (slot, pc))
      (hst : s'.store = (jstep s.store j ((s.cl c).cache j slot) k pc).store)
      (hpc : (s'.cl c).pcOn j = (jstep s.store j ((s.cl c).cache j slot) k pc).pc?)
      (hcache : ∀ sl, (s'.cl c).cache j sl =
        if sl = slot then (jstep s.store j ((s.cl c).cache j slot) k pc).cache else (s.cl c).cache j sl)
      (hkind : (s.cl c).kindOn j = some k)
      (hkind' : ∀ st jc k' pc' ev, jstep s.store j ((s.cl c).cache j slot) k pc = .cont st jc k' pc' ev →
        (s'.cl c).kindOn j = some k' ∧ (s'.cl c).onJ j = some (slot, pc'))
  | reset (p : Proc) (hp : (s.cl c).proc = some p) (hr : p.resets j = true)

theorem Client.setCache_get (x : Client) (j slot jc j' sl) :
    (x.setCache j slot jc).cache j' sl = if j' = j ∧ sl = slot then jc else x.cache j' sl := by
  simp [Client.setCache]

theorem step_others (s : Sys) (c c' : Nat) (h : c' ≠ c) : ((s.step c).1).cl c' = s.cl c' := by
  unfold Sys.step
  simp only []
  repeat' split
  all_goals simp [setClient_other, h, bcAfterLookup]
  all_goals (repeat' split)
  all_goals simp [setClient_other, h]



theorem step_next (s : Sys) (c : Nat) : s.next ≤ ((s.step c).1).next := by
  unfold Sys.step
  simp only []
  repeat' split
  all_goals simp [bcAfterLookup]
  all_goals (repeat' split)
  all_goals simp

theorem step_summary (s : Sys) (c j : Nat) : StepJ j s c (s.step c).1 := by
  unfold Sys.step
  simp only []
  split
  · -- none
    rename_i hp
    apply StepJ.frame <;> simp [Client.onJ, Client.pcOn, hp]
  · -- jp
    rename_i j' slot k pc hp
    by_cases hj : j' = j
    · subst hj
      apply StepJ.jrun slot k pc
      · simp [Client.onJ, hp, Proc.onJ]
      · split <;> simp_all
      · split <;> simp_all [Client.pcOn, Client.onJ, Proc.onJ, Client.setCache]
      · intro sl; split <;> simp_all [Client.setCache]
      · simp [Client.kindOn, hp, Proc.kindOn]
      · intro st jc k' pc' ev heq; rw [heq]; simp [Client.kindOn, Client.onJ, Proc.kindOn, Proc.onJ]
    · apply StepJ.frame
      · split <;> (rename_i heq; have := jstep_frame s.store j' ((s.cl c).cache j' slot) k pc (.head j) (by simp [Path.pool]; omega); simp_all)
      · intro n; split <;> (rename_i heq; have := jstep_frame s.store j' ((s.cl c).cache j' slot) k pc (.ent j n) (by simp [Path.pool]; omega); simp_all)
      · simp [Client.onJ, hp, Proc.onJ, hj]
      · split <;> simp_all [Client.pcOn, Client.onJ, Proc.onJ, Client.setCache]
      · intro sl; split <;> simp_all [Client.setCache, Ne.symm hj]
      · split <;> (rename_i heq; have := jstep_frame s.store j' ((s.cl c).cache j' slot) k pc (.snap j) (by simp [Path.pool]; omega); simp_all)
      · split <;> (rename_i heq; have := jstep_frame s.store j' ((s.cl c).cache j' slot) k pc (.tail j) (by simp [Path.pool]; omega); simp_all)
  · -- bc lookup
    rename_i b pc hp
    by_cases hj : b.pool = j
    · subst hj
      apply StepJ.jrun b.slot .load pc
      · simp [Client.onJ, hp, Proc.onJ]
      · split <;> simp_all [bcAfterLookup]
        repeat' split
        all_goals simp
      · split
        · simp_all [Client.pcOn, Client.onJ, Proc.onJ, Client.setCache]
        · simp_all [bcAfterLookup]
          repeat' split
          all_goals simp_all [Client.pcOn, Client.onJ, Proc.onJ, Client.setCache]
      · intro sl; split
        · simp_all [Client.setCache]
        · simp_all [bcAfterLookup]
          repeat' split
          all_goals simp_all [Client.setCache]
      · simp [Client.kindOn, hp, Proc.kindOn]
      · intro st jc k' pc' ev heq
        have := jstep_kind_load _ _ _ _ _ _ _ _ _ heq
        subst this
        rw [heq]; simp [Client.kindOn, Client.onJ, Proc.kindOn, Proc.onJ]
    · apply StepJ.frame
      · have := jstep_frame s.store b.pool ((s.cl c).cache b.pool b.slot) .load pc (.head j) (by simp [Path.pool]; omega)
        split
        · simp_all
        · simp_all [bcAfterLookup]
          repeat' split
          all_goals simp_all
      · intro n
        have := jstep_frame s.store b.pool ((s.cl c).cache b.pool b.slot) .load pc (.ent j n) (by simp [Path.pool]; omega)
        split
        · simp_all
        · simp_all [bcAfterLookup]
          repeat' split
          all_goals simp_all
      · simp [Client.onJ, hp, Proc.onJ, hj]
      · split
        · simp_all [Client.pcOn, Client.onJ, Proc.onJ, Client.setCache]
        · simp_all [bcAfterLookup]
          repeat' split
          all_goals simp_all [Client.pcOn, Client.onJ, Proc.onJ, Client.setCache]
      · intro sl; split
        · simp_all [Client.setCache, Ne.symm hj]
        · simp_all [bcAfterLookup]
          repeat' split
          all_goals simp_all [Client.setCache, Ne.symm hj]
      · have := jstep_frame s.store b.pool ((s.cl c).cache b.pool b.slot) .load pc (.snap j) (by simp [Path.pool]; omega)
        split
        · simp_all
        · simp_all [bcAfterLookup]
          repeat' split
          all_goals simp_all
      · have := jstep_frame s.store b.pool ((s.cl c).cache b.pool b.slot) .load pc (.tail j) (by simp [Path.pool]; omega)
        split
        · simp_all
        · simp_all [bcAfterLookup]
          repeat' split
          all_goals simp_all
  · -- bc putObj
    rename_i b tip id hp
    apply StepJ.frame
    · simp [Store.put]
    · intro n; simp [Store.put]
    · simp [Client.onJ, hp, Proc.onJ]
    · by_cases hj : b.pool = j <;> simp [Client.pcOn, Client.onJ, Proc.onJ, hj]
    · intro sl; simp
    · simp [Store.put]
    · simp [Store.put]
  · -- bc update
    rename_i b tip id attempt pc hp
    by_cases hj : b.pool = j
    · subst hj
      apply StepJ.jrun b.slot (.commit (.update b.branch tip id) attempt) pc
      · simp [Client.onJ, hp, Proc.onJ]
      · split
        · simp_all
        · rename_i heq; rw [heq]; split <;> simp
      · split
        · simp_all [Client.pcOn, Client.onJ, Proc.onJ, Client.setCache]
        · rename_i heq; rw [heq]; split <;> simp_all [Client.pcOn, Client.onJ, Proc.onJ, Client.setCache]
      · intro sl; split
        · simp_all [Client.setCache]
        · rename_i heq; rw [heq]; split <;> simp_all [Client.setCache]
      · simp [Client.kindOn, hp, Proc.kindOn]
      · intro st jc k' pc' ev heq
        obtain ⟨a', ha'⟩ := jstep_kind_commit _ _ _ _ _ _ _ _ _ _ _ heq
        subst ha'
        rw [heq]; simp [Client.kindOn, Client.onJ, Proc.kindOn, Proc.onJ]
    · apply StepJ.frame
      · have := jstep_frame s.store b.pool ((s.cl c).cache b.pool b.slot) (.commit (.update b.branch tip id) attempt) pc (.head j) (by simp [Path.pool]; omega)
        split
        · simp_all
        · simp_all; split <;> simp_all
      · intro n
        have := jstep_frame s.store b.pool ((s.cl c).cache b.pool b.slot) (.commit (.update b.branch tip id) attempt) pc (.ent j n) (by simp [Path.pool]; omega)
        split
        · simp_all
        · simp_all; split <;> simp_all
      · simp [Client.onJ, hp, Proc.onJ, hj]
      · split
        · simp_all [Client.pcOn, Client.onJ, Proc.onJ, Client.setCache]
        · split <;> simp_all [Client.pcOn, Client.onJ, Proc.onJ, Client.setCache]
      · intro sl; split
        · simp_all [Client.setCache, Ne.symm hj]
        · split <;> simp_all [Client.setCache, Ne.symm hj]
      · have := jstep_frame s.store b.pool ((s.cl c).cache b.pool b.slot) (.commit (.update b.branch tip id) attempt) pc (.snap j) (by simp [Path.pool]; omega)
        split
        · simp_all
        · simp_all; split <;> simp_all
      · have := jstep_frame s.store b.pool ((s.cl c).cache b.pool b.slot) (.commit (.update b.branch tip id) attempt) pc (.tail j) (by simp [Path.pool]; omega)
        split
        · simp_all
        · simp_all; split <;> simp_all
  · -- bc cleanup
    rename_i b id err hp
    apply StepJ.frame
    · repeat' split
      all_goals simp [Store.del]
    · intro n; repeat' split
      all_goals simp [Store.del]
    · simp [Client.onJ, hp, Proc.onJ]
    · repeat' split
      all_goals (by_cases hj : b.pool = j <;> simp [Client.pcOn, Client.onJ, Proc.onJ, hj])
    · intro sl; repeat' split
      all_goals simp
    · repeat' split
      all_goals simp [Store.del]
    · repeat' split
      all_goals simp [Store.del]
  · -- create
    rename_i j' stage hp
    by_cases hj : j' = j
    · exact StepJ.reset _ hp (by simp [Proc.resets, hj])
    · apply StepJ.frame
      · split <;> simp [Store.put, Ne.symm hj]
      · intro n; split <;> simp [Store.put]
      · simp [Client.onJ, hp, Proc.onJ]
      · split <;> simp [Client.pcOn, Client.onJ, Proc.onJ]
      · intro sl; split <;> simp
      · split <;> simp [Store.put]
      · split <;> simp [Store.put, Ne.symm hj]
  · -- openJ
    rename_i j' hp
    apply StepJ.frame <;> simp [Client.onJ, Client.pcOn, hp, Proc.onJ]
  · -- delPool
    rename_i p hp
    by_cases hj : p = j
    · exact StepJ.reset _ hp (by simp [Proc.resets, hj])
    · apply StepJ.frame
      · simp [Store.delPool, Path.pool, Ne.symm hj]
      · intro n; simp [Store.delPool, Path.pool, Ne.symm hj]
      · simp [Client.onJ, hp, Proc.onJ]
      · simp [Client.pcOn, Client.onJ]
      · intro sl; simp
      · simp [Store.delPool, Path.pool, Ne.symm hj]
      · simp [Store.delPool, Path.pool, Ne.symm hj]

/-- Labels that destroy journal j: DeleteByPrefix of pool j (refused by `start` for j = 0). -/
def Start.resets (j : Nat) : Start → Bool
  | .delPool p => p == j && p != 0
  | _ => false

def Label.resets (j : Nat) : Label → Bool
  | .start _ st => st.resets j
  | .step _ => false
  | .truncSnap _ => false

structure Inv1 (j : Nat) (s : Sys) (e : Nat) : Prop where
  range : EntRange s.store j e
  he : headOf s.store j ≤ e
  eh : e ≤ headOf s.store j + 1
  ph : ∀ c n, (s.cl c).pcOn j = some (.putHead n) → n = e ∧ headOf s.store j + 1 = e
  uniq : ∀ c c' n n', (s.cl c).pcOn j = some (.putHead n) → (s.cl c').pcOn j = some (.putHead n') → c = c'
  known : ∀ c pc p, (s.cl c).pcOn j = some pc → p ∈ pc.known → p ≤ headOf s.store j
  cache : ∀ c slot, ((s.cl c).cache j slot).pos ≤ headOf s.store j
  alloc : j < s.next
  noreset : ∀ c p, (s.cl c).proc = some p → p.resets j = false
  typed : ∀ n v, s.store (.ent j n) = some v → ∃ acts, v = .entry acts
  pend : headOf s.store j + 1 = e → ∃ c, (s.cl c).pcOn j = some (.putHead e)

/-- What `start` means for journal j. -/
theorem start_summary (s : Sys) (c : Nat) (st : Start) (j : Nat) (hst : st.resets j = false) (hj : j < s.next) :
    let s' := s.start c st
    s'.store = s.store ∧ s.next ≤ s'.next ∧ (∀ c', c' ≠ c → s'.cl c' = s.cl c') ∧
    ((s'.cl c = s.cl c) ∨
     ((s.cl c).proc = none ∧ ((s'.cl c).pcOn j = none ∨ (s'.cl c).pcOn j = some .rdHead) ∧
      (∀ sl, (s'.cl c).cache j sl = (s.cl c).cache j sl ∨ (s'.cl c).cache j sl = JCache.empty) ∧
      (∀ p, (s'.cl c).proc = some p → p.resets j = false))) := by
  simp only [Sys.start]
  split
  · simp
  · rename_i hnone
    cases st with
    | load j' slot =>
      refine ⟨rfl, Nat.le_refl _, fun c' h => setClient_other _ _ _ _ h, Or.inr ⟨hnone, ?_, ?_, ?_⟩⟩
      · by_cases h : j' = j <;> simp [Client.pcOn, Client.onJ, Proc.onJ, h]
      · intro sl; simp
      · simp [Proc.resets]
    | commit j' slot op =>
      simp only []
      split
      · refine ⟨rfl, Nat.le_refl _, fun c' h => setClient_other _ _ _ _ h, Or.inr ⟨hnone, ?_, ?_, ?_⟩⟩
        · by_cases h : j' = j <;> simp [Client.pcOn, Client.onJ, Proc.onJ, h]
        · intro sl; simp
        · simp [Proc.resets]
      · simp
    | bcommit pool slot branch adds dels =>
      simp only []
      split
      · simp
      · refine ⟨rfl, Nat.le_refl _, fun c' h => setClient_other _ _ _ _ h, Or.inr ⟨hnone, ?_, ?_, ?_⟩⟩
        · by_cases h : pool = j <;> simp [Client.pcOn, Client.onJ, Proc.onJ, h]
        · intro sl; simp
        · simp [Proc.resets]
    | create =>
      refine ⟨rfl, by simp, fun c' h => by simp [setClient_other _ _ _ _ h], Or.inr ⟨hnone, ?_, ?_, ?_⟩⟩
      · simp [Client.pcOn, Client.onJ, Proc.onJ]
      · intro sl; simp
      · simp [Proc.resets]; omega
    | openJ j' =>
      refine ⟨rfl, Nat.le_refl _, fun c' h => setClient_other _ _ _ _ h, Or.inr ⟨hnone, ?_, ?_, ?_⟩⟩
      · simp [Client.pcOn, Client.onJ, Proc.onJ]
      · intro sl; simp
      · simp [Proc.resets]
    | delPool p =>
      simp only []
      split
      · simp
      · refine ⟨rfl, Nat.le_refl _, fun c' h => setClient_other _ _ _ _ h, Or.inr ⟨hnone, ?_, ?_, ?_⟩⟩
        · simp [Client.pcOn, Client.onJ, Proc.onJ]
        · intro sl; simp
        · rename_i hp0; simp [Start.resets] at hst; simp [Proc.resets]; intro hpj; exact hp0 (hst hpj)
    | resetSlot j' slot =>
      refine ⟨rfl, Nat.le_refl _, fun c' h => setClient_other _ _ _ _ h, Or.inr ⟨hnone, ?_, ?_, ?_⟩⟩
      · simp [Client.pcOn, Client.onJ, Client.setCache, hnone]
      · intro sl; simp only [setClient_same, Client.setCache]; by_cases h : j = j' ∧ sl = slot <;> simp [h]
      · simp [Client.setCache, hnone]




theorem step_noreset (s : Sys) (c j : Nat) (h : ∀ p, (s.cl c).proc = some p → p.resets j = false) :
    ∀ p', (((s.step c).1).cl c).proc = some p' → p'.resets j = false := by
  unfold Sys.step
  simp only []
  split
  · rename_i hp; simp [hp]
  all_goals (rename_i hp; have h0 := h _ hp)
  all_goals (repeat' split)
  all_goals simp_all [Proc.resets, bcAfterLookup]
  all_goals (repeat' split)
  all_goals simp_all [Proc.resets]

theorem pcOn_of_onJ {x : Client} {j slot pc} (h : x.onJ j = some (slot, pc)) : x.pcOn j = some pc := by
  simp [Client.pcOn, h]

theorem pcOn_none_of_onJ {x : Client} {j} (h : x.onJ j = none) : x.pcOn j = none := by
  simp [Client.pcOn, h]



theorem isPutHead_false_of {pc : JPc} (h : pc.isPutHead = false) (n : Nat) : pc ≠ .putHead n := by
  intro hh; subst hh; simp [JPc.isPutHead] at h

theorem inv1_quiet {j : Nat} {s s' : Sys} {e : Nat} (h : Inv1 j s e)
    (hhead : s'.store (.head j) = s.store (.head j)) (hent : ∀ n, s'.store (.ent j n) = s.store (.ent j n))
    (hnext : s.next ≤ s'.next)
    (hpc : ∀ c, (s'.cl c).pcOn j = (s.cl c).pcOn j ∨
      ∀ pc, (s'.cl c).pcOn j = some pc → pc.isPutHead = false ∧ ∀ p ∈ pc.known, p ≤ headOf s.store j)
    (hcache : ∀ c sl, ((s'.cl c).cache j sl).pos ≤ headOf s.store j)
    (hres : ∀ c p, (s'.cl c).proc = some p → p.resets j = false)
    (hkeep : ∀ c n, (s.cl c).pcOn j = some (.putHead n) → (s'.cl c).pcOn j = some (.putHead n)) : Inv1 j s' e := by
  have hH : headOf s'.store j = headOf s.store j := headOf_congr _ _ _ hhead
  have hput : ∀ c n, (s'.cl c).pcOn j = some (.putHead n) → (s.cl c).pcOn j = some (.putHead n) := by
    intro c n hc
    rcases hpc c with h1 | h1
    · rw [← h1]; exact hc
    · have := (h1 _ hc).1; simp [JPc.isPutHead] at this
  constructor
  · intro n; rw [hent n]; exact h.range n
  · rw [hH]; exact h.he
  · rw [hH]; exact h.eh
  · intro c n hc; rw [hH]; exact h.ph c n (hput c n hc)
  · intro c c' n n' hc hc'; exact h.uniq c c' n n' (hput c n hc) (hput c' n' hc')
  · intro c pc p hc hp
    rw [hH]
    rcases hpc c with h1 | h1
    · rw [h1] at hc; exact h.known c pc p hc hp
    · exact (h1 pc hc).2 p hp
  · intro c sl; rw [hH]; exact hcache c sl
  · exact Nat.lt_of_lt_of_le h.alloc hnext
  · exact hres
  · intro n v hv; rw [hent n] at hv; exact h.typed n v hv
  · intro hp; rw [hH] at hp
    obtain ⟨c, hc⟩ := h.pend hp
    exact ⟨c, hkeep c e hc⟩



theorem inv1_exec {j : Nat} {s : Sys} {e : Nat} (l : Label) (h : Inv1 j s e) (hl : l.resets j = false) :
    ∃ e', Inv1 j (s.exec l) e' ∧ e ≤ e' ∧ headOf s.store j ≤ headOf (s.exec l).store j ∧
      (∀ n v, s.store (.ent j n) = some v → (s.exec l).store (.ent j n) = some v) := by
  cases l with
  | truncSnap j' =>
    simp only [Sys.exec]
    refine ⟨e, ?_, Nat.le_refl _, ?_, ?_⟩
    · exact inv1_quiet h (by simp [Store.del]) (by intro n; simp [Store.del]) (Nat.le_refl _) (fun c => Or.inl rfl)
        (fun c sl => h.cache c sl) (fun c p hp => h.noreset c p hp) (fun c n hc => hc)
    · rw [headOf_congr (s.store) (s.store.del (.snap j')) j (by simp [Store.del])]; exact Nat.le_refl _
    · intro n v hv; simpa [Store.del] using hv
  | start c st =>
    have hsum := start_summary s c st j (by simpa [Label.resets] using hl) h.alloc
    simp only [Sys.exec]
    obtain ⟨hst, hnext, hoth, hc⟩ := hsum
    refine ⟨e, ?_, Nat.le_refl _, ?_, ?_⟩
    · apply inv1_quiet h (by rw [hst]) (by intro n; rw [hst]) hnext
      · intro c'
        by_cases hcc : c' = c
        · subst hcc
          rcases hc with hc | ⟨_, hpc, _, _⟩
          · left; rw [hc]
          · right; intro pc hpc'
            rcases hpc with hpc | hpc
            · rw [hpc] at hpc'; cases hpc'
            · rw [hpc] at hpc'; cases hpc'; simp [JPc.isPutHead, JPc.known]
        · left; rw [hoth c' hcc]
      · intro c' sl
        by_cases hcc : c' = c
        · subst hcc
          rcases hc with hc | ⟨_, _, hca, _⟩
          · rw [hc]; exact h.cache _ _
          · rcases hca sl with hca | hca
            · rw [hca]; exact h.cache _ _
            · rw [hca]; simp [JCache.empty]
        · rw [hoth c' hcc]; exact h.cache _ _
      · intro c' p hp
        by_cases hcc : c' = c
        · subst hcc
          rcases hc with hc | ⟨_, _, _, hr⟩
          · rw [hc] at hp; exact h.noreset _ _ hp
          · exact hr p hp
        · rw [hoth c' hcc] at hp; exact h.noreset _ _ hp
      · intro c' n hc'
        by_cases hcc : c' = c
        · subst hcc
          rcases hc with hc | ⟨hnone, _, _, _⟩
          · rw [hc]; exact hc'
          · simp [Client.pcOn, Client.onJ, hnone] at hc'
        · rw [hoth c' hcc]; exact hc'
    · rw [hst]; exact Nat.le_refl _
    · intro n v hv; rw [hst]; exact hv
  | step c =>
    simp only [Sys.exec]
    have hoth := step_others s c
    have hnext := step_next s c
    have hnr := step_noreset s c j (h.noreset c)
    have hres : ∀ c' p, (((s.step c).1).cl c').proc = some p → p.resets j = false := by
      intro c' p hp
      by_cases hcc : c' = c
      · subst hcc; exact hnr p hp
      · rw [hoth c' hcc] at hp; exact h.noreset _ _ hp
    cases step_summary s c j with
    | reset p hp hr => rw [h.noreset c p hp] at hr; cases hr
    | frame hhead hent hold hnew hcache =>
      refine ⟨e, ?_, Nat.le_refl _, ?_, ?_⟩
      · apply inv1_quiet h hhead hent hnext
        · intro c'
          by_cases hcc : c' = c
          · subst hcc; right; intro pc hpc
            rcases hnew with hn | hn
            · rw [hn] at hpc; cases hpc
            · rw [hn] at hpc; cases hpc; simp [JPc.isPutHead, JPc.known]
          · left; rw [hoth c' hcc]
        · intro c' sl
          by_cases hcc : c' = c
          · subst hcc; rw [hcache]; exact h.cache _ _
          · rw [hoth c' hcc]; exact h.cache _ _
        · exact hres
        · intro c' n hc'
          by_cases hcc : c' = c
          · subst hcc; rw [pcOn_none_of_onJ hold] at hc'; cases hc'
          · rw [hoth c' hcc]; exact hc'
      · rw [headOf_congr _ _ _ hhead]; exact Nat.le_refl _
      · intro n v hv; rw [hent]; exact hv
    | jrun slot k pc hold hst hpc hcache =>
      have hpcOn := pcOn_of_onJ hold
      have eff := jstep_effect s.store j ((s.cl c).cache j slot) k pc (fun p hp => h.known c pc p hpcOn hp) (h.cache c slot)
      cases eff with
      | quiet qent qhead qpc qcache qnot =>
        refine ⟨e, ?_, Nat.le_refl _, ?_, ?_⟩
        · apply inv1_quiet h (by rw [hst]; exact qhead) (by intro n; rw [hst]; exact qent n) hnext
          · intro c'
            by_cases hcc : c' = c
            · subst hcc; right; intro pc' hpc'; rw [hpc] at hpc'; exact qpc pc' hpc'
            · left; rw [hoth c' hcc]
          · intro c' sl
            by_cases hcc : c' = c
            · subst hcc; rw [hcache]; split
              · exact qcache
              · exact h.cache _ _
            · rw [hoth c' hcc]; exact h.cache _ _
          · exact hres
          · intro c' n hc'
            by_cases hcc : c' = c
            · subst hcc; rw [hpcOn] at hc'; cases hc'; simp [JPc.isPutHead] at qnot
            · rw [hoth c' hcc]; exact hc'
        · have hh : ((s.step c).1).store (.head j) = s.store (.head j) := by rw [hst]; exact qhead
          rw [headOf_congr _ _ _ hh]; exact Nat.le_refl _
        · intro n v hv; rw [hst, qent]; exact hv
      | newEnt pos op attempt hk hpc0 hnone hst' hpc' hcache' =>
        subst hpc0
        have hposH : pos ≤ headOf s.store j := h.known c _ pos hpcOn (by simp [JPc.known])
        have hpose : pos = e := by
          have h1 := h.range (pos + 1)
          rw [hnone] at h1
          have := h.he
          simp at h1
          omega
        have hHe : headOf s.store j = e := by have := h.he; omega
        have hstore : ((s.step c).1).store = s.store.put (.ent j (pos + 1)) (.entry op.acts) := by rw [hst, hst']
        have hH' : headOf ((s.step c).1).store j = headOf s.store j := by
          rw [hstore]; exact headOf_put_other _ _ _ _ (by simp)
        have hnoput : ∀ c' n, (s.cl c').pcOn j ≠ some (.putHead n) := by
          intro c' n hc'; have := (h.ph c' n hc').2; omega
        refine ⟨e + 1, ?_, by omega, by rw [hH']; exact Nat.le_refl _, ?_⟩
        · constructor
          · intro n
            rw [hstore]
            by_cases hn : n = pos + 1
            · subst hn; simp; omega
            · rw [Store.put_other _ _ _ _ (by simp [hn])]
              rw [h.range n]; omega
          · rw [hH']; omega
          · rw [hH']; omega
          · intro c' n hc'
            by_cases hcc : c' = c
            · subst hcc; rw [hpc, hpc'] at hc'; cases hc'; rw [hH']; omega
            · rw [hoth c' hcc] at hc'; exact absurd hc' (hnoput c' n)
          · intro c1 c2 n1 n2 h1 h2
            by_cases hc1 : c1 = c
            · by_cases hc2 : c2 = c
              · rw [hc1, hc2]
              · rw [hoth c2 hc2] at h2; exact absurd h2 (hnoput c2 n2)
            · rw [hoth c1 hc1] at h1; exact absurd h1 (hnoput c1 n1)
          · intro c' pc' p hc' hp
            rw [hH']
            by_cases hcc : c' = c
            · subst hcc; rw [hpc, hpc'] at hc'; cases hc'; simp [JPc.known] at hp
            · rw [hoth c' hcc] at hc'; exact h.known c' pc' p hc' hp
          · intro c' sl
            rw [hH']
            by_cases hcc : c' = c
            · subst hcc; rw [hcache]; split
              · rw [hcache']; exact h.cache _ _
              · exact h.cache _ _
            · rw [hoth c' hcc]; exact h.cache _ _
          · exact Nat.lt_of_lt_of_le h.alloc hnext
          · exact hres
          · intro n v hv
            rw [hstore] at hv
            by_cases hn : n = pos + 1
            · subst hn; simp at hv; exact ⟨_, hv.symm⟩
            · rw [Store.put_other _ _ _ _ (by simp [hn])] at hv; exact h.typed n v hv
          · intro _; exact ⟨c, by rw [hpc, hpc', hpose]⟩
        · intro n v hv
          rw [hstore]
          by_cases hn : n = pos + 1
          · subst hn; rw [hnone] at hv; cases hv
          · rw [Store.put_other _ _ _ _ (by simp [hn])]; exact hv
      | newHead n hpc0 hst' hpc' hcache' =>
        subst hpc0
        obtain ⟨hne, hHe⟩ := h.ph c n hpcOn
        have hstore : ((s.step c).1).store = s.store.put (.head j) (.num n) := by rw [hst, hst']
        have hH' : headOf ((s.step c).1).store j = n := by rw [hstore]; exact headOf_put_head _ _ _
        have hent : ∀ m, ((s.step c).1).store (.ent j m) = s.store (.ent j m) := by
          intro m; rw [hstore]; exact Store.put_other _ _ _ _ (by simp)
        have hnoput : ∀ c' m, c' ≠ c → (s.cl c').pcOn j ≠ some (.putHead m) := by
          intro c' m hcc hc'; exact hcc (h.uniq c' c m n hc' hpcOn)
        have hnoput' : ∀ c' m, (((s.step c).1).cl c').pcOn j ≠ some (.putHead m) := by
          intro c' m hc'
          by_cases hcc : c' = c
          · subst hcc; rw [hpc, hpc'] at hc'; cases hc'
          · rw [hoth c' hcc] at hc'; exact hnoput c' m hcc hc'
        refine ⟨e, ?_, Nat.le_refl _, by rw [hH']; omega, ?_⟩
        · constructor
          · intro m; rw [hent]; exact h.range m
          · rw [hH']; omega
          · rw [hH']; omega
          · intro c' m hc'; exact absurd hc' (hnoput' c' m)
          · intro c1 c2 n1 n2 h1 _; exact absurd h1 (hnoput' c1 n1)
          · intro c' pc' p hc' hp
            rw [hH']
            by_cases hcc : c' = c
            · subst hcc; rw [hpc, hpc'] at hc'; cases hc'
            · rw [hoth c' hcc] at hc'; have := h.known c' pc' p hc' hp; omega
          · intro c' sl
            rw [hH']
            by_cases hcc : c' = c
            · subst hcc; rw [hcache]; split
              · rw [hcache']; omega
              · have := h.cache c' sl; omega
            · rw [hoth c' hcc]; have := h.cache c' sl; omega
          · exact Nat.lt_of_lt_of_le h.alloc hnext
          · exact hres
          · intro m v hv; rw [hent] at hv; exact h.typed m v hv
          · intro hp; rw [hH'] at hp; omega
        · intro m v hv; rw [hent]; exact hv



/-- The run contains no DeleteByPrefix of pool j. -/
def NoReset (j : Nat) (ls : List Label) : Prop := ∀ l ∈ ls, l.resets j = false

theorem noReset_zero (ls : List Label) : NoReset 0 ls := by
  intro l _
  cases l with
  | start c st => cases st <;> simp [Label.resets, Start.resets]
  | step c => rfl
  | truncSnap j' => rfl

theorem inv1_run {j : Nat} (ls : List Label) : ∀ {s : Sys} {e : Nat}, Inv1 j s e → NoReset j ls →
    ∃ e', Inv1 j (s.run ls) e' ∧ e ≤ e' ∧ headOf s.store j ≤ headOf (s.run ls).store j ∧
      (∀ n v, s.store (.ent j n) = some v → (s.run ls).store (.ent j n) = some v) := by
  induction ls with
  | nil => intro s e h _; exact ⟨e, h, Nat.le_refl _, Nat.le_refl _, fun _ _ hv => hv⟩
  | cons l ls ih =>
    intro s e h hn
    obtain ⟨e1, h1, he1, hh1, hent1⟩ := inv1_exec l h (hn l (by simp))
    obtain ⟨e2, h2, he2, hh2, hent2⟩ := ih h1 (fun l' hl' => hn l' (by simp [hl']))
    exact ⟨e2, h2, by omega, by simp only [Sys.run]; omega, fun n v hv => hent2 n v (hent1 n v hv)⟩

/-- Journal j exists, is empty, and no client has started anything on it (the state right after
    `journal.Create`; for j = 0 the state right after `lake.Create`). -/
structure JFresh (j : Nat) (s : Sys) : Prop where
  head : s.store (.head j) = some (.num 0)
  noent : ∀ n, s.store (.ent j n) = none
  idle : ∀ c, (s.cl c).pcOn j = none
  cache : ∀ c sl, (s.cl c).cache j sl = JCache.empty
  tail : s.store (.tail j) = some (.tailv 1 0)
  nosnap : s.store (.snap j) = none
  alloc : j < s.next
  noreset : ∀ c p, (s.cl c).proc = some p → p.resets j = false

theorem JFresh.inv1 {j s} (h : JFresh j s) : Inv1 j s 0 := by
  have hH : headOf s.store j = 0 := by simp [headOf, h.head]
  constructor
  · intro n; simp [h.noent n]; omega
  · omega
  · omega
  · intro c n hc; rw [h.idle c] at hc; cases hc
  · intro c c' n n' hc; rw [h.idle c] at hc; cases hc
  · intro c pc p hc; rw [h.idle c] at hc; cases hc
  · intro c sl; rw [h.cache c sl]; simp [JCache.empty]
  · exact h.alloc
  · exact h.noreset
  · intro n v hv; rw [h.noent n] at hv; cases hv
  · intro hp; omega

theorem init_fresh : JFresh 0 Sys.init := by
  constructor <;> simp [Sys.init, Store.put, Store.empty, Client.idle, Client.pcOn, Client.onJ, JCache.empty]

/-- States reachable from a fresh journal j by any labels that do not delete pool j. -/
def Reach (j : Nat) (s : Sys) : Prop := ∃ s0 ls, JFresh j s0 ∧ NoReset j ls ∧ s = s0.run ls

theorem Sys.run_append (s : Sys) (l1 l2 : List Label) : s.run (l1 ++ l2) = (s.run l1).run l2 := by
  induction l1 generalizing s with
  | nil => rfl
  | cons l ls ih => simp [Sys.run, ih]

theorem Reach.run {j s} (h : Reach j s) (ls : List Label) (hn : NoReset j ls) : Reach j (s.run ls) := by
  obtain ⟨s0, l0, hf, hn0, rfl⟩ := h
  refine ⟨s0, l0 ++ ls, hf, ?_, (Sys.run_append _ _ _).symm⟩
  intro l hl
  rcases List.mem_append.mp hl with h1 | h1
  · exact hn0 l h1
  · exact hn l h1

theorem Reach.inv1 {j s} (h : Reach j s) : ∃ e, Inv1 j s e := by
  obtain ⟨s0, l0, hf, hn0, rfl⟩ := h
  obtain ⟨e, he, _⟩ := inv1_run l0 hf.inv1 hn0
  exact ⟨e, he⟩



/-! ### The wedge: HEAD behind the journal end while its writer is stopped -/

/-- journal j is wedged on client c0: entry e exists, HEAD = e-1, and c0 — the creator of
    entry e — is stopped just before its HEAD write. -/
structure Wedged (j : Nat) (s : Sys) (e c0 : Nat) : Prop where
  inv : Inv1 j s e
  behind : headOf s.store j + 1 = e
  who : (s.cl c0).pcOn j = some (.putHead e)

theorem wedged_exec {j : Nat} {s : Sys} {e c0 : Nat} (l : Label) (h : Wedged j s e c0)
    (hl : l.resets j = false) (hc0 : l ≠ .step c0) :
    Wedged j (s.exec l) e c0 ∧ headOf (s.exec l).store j = headOf s.store j := by
  obtain ⟨e', hinv', hee', hmono, hkeep⟩ := inv1_exec l h.inv hl
  -- it suffices to show HEAD and the entry set did not move and c0 is still where it was
  suffices hs : headOf (s.exec l).store j = headOf s.store j ∧ (s.exec l).store (.ent j (e + 1)) = none ∧
      ((s.exec l).cl c0).pcOn j = some (.putHead e) by
    obtain ⟨hH, hnone, hwho⟩ := hs
    have hee : e' = e := by
      have h1 := (hinv'.range (e + 1))
      rw [hnone] at h1; simp at h1
      omega
    subst hee
    exact ⟨⟨hinv', by rw [hH]; exact h.behind, hwho⟩, hH⟩
  have hnone : s.store (.ent j (e + 1)) = none := by
    have h1 := h.inv.range (e + 1)
    cases hx : s.store (.ent j (e + 1)) with
    | none => rfl
    | some v => rw [hx] at h1; simp at h1; omega
  cases l with
  | truncSnap j' =>
    simp only [Sys.exec]
    exact ⟨headOf_congr _ _ _ (by simp [Store.del]), by simpa [Store.del] using hnone, h.who⟩
  | start c st =>
    have hsum := start_summary s c st j (by simpa [Label.resets] using hl) h.inv.alloc
    simp only [Sys.exec]
    obtain ⟨hst, _, hoth, hc⟩ := hsum
    refine ⟨by rw [hst], by rw [hst]; exact hnone, ?_⟩
    by_cases hcc : c0 = c
    · subst hcc
      rcases hc with hc | ⟨hn, _, _, _⟩
      · rw [hc]; exact h.who
      · have := h.who; simp [Client.pcOn, Client.onJ, hn] at this
    · rw [hoth c0 hcc]; exact h.who
  | step c =>
    have hcc : c0 ≠ c := by intro hh; subst hh; exact hc0 rfl
    simp only [Sys.exec]
    have hwho : (((s.step c).1).cl c0).pcOn j = some (.putHead e) := by
      rw [step_others s c c0 hcc]; exact h.who
    cases step_summary s c j with
    | reset p hp hr => rw [h.inv.noreset c p hp] at hr; cases hr
    | frame hhead hent hold hnew hcache =>
      exact ⟨headOf_congr _ _ _ hhead, by rw [hent]; exact hnone, hwho⟩
    | jrun slot k pc hold hst hpc hcache =>
      have hpcOn := pcOn_of_onJ hold
      have eff := jstep_effect s.store j ((s.cl c).cache j slot) k pc
        (fun p hp => h.inv.known c pc p hpcOn hp) (h.inv.cache c slot)
      cases eff with
      | quiet qent qhead qpc qcache qnot =>
        exact ⟨headOf_congr _ _ _ (by rw [hst]; exact qhead), by rw [hst, qent]; exact hnone, hwho⟩
      | newEnt pos op attempt hk hpc0 hnone' hst' hpc' hcache' =>
        subst hpc0
        have hposH : pos ≤ headOf s.store j := h.inv.known c _ pos hpcOn (by simp [JPc.known])
        have h1 := h.inv.range (pos + 1)
        rw [hnone'] at h1; simp at h1
        have := h.behind
        omega
      | newHead n hpc0 hst' hpc' hcache' =>
        subst hpc0
        exact absurd (h.inv.uniq c0 c e n h.who hpcOn) hcc

theorem wedged_run {j : Nat} {e c0 : Nat} (ls : List Label) : ∀ {s : Sys}, Wedged j s e c0 →
    NoReset j ls → (∀ l ∈ ls, l ≠ .step c0) →
    Wedged j (s.run ls) e c0 ∧ headOf (s.run ls).store j = headOf s.store j := by
  induction ls with
  | nil => intro s h _ _; exact ⟨h, rfl⟩
  | cons l ls ih =>
    intro s h hn hc
    obtain ⟨h1, hH1⟩ := wedged_exec l h (hn l (by simp)) (hc l (by simp))
    obtain ⟨h2, hH2⟩ := ih h1 (fun l' hl' => hn l' (by simp [hl'])) (fun l' hl' => hc l' (by simp [hl']))
    exact ⟨h2, by simp only [Sys.run]; rw [hH2, hH1]⟩

end Zed.Store
