package main

// C05 — types are canonical within a context and portable across contexts.
//
// Sub-checks:
//   hist       (T2) random creation histories on up to 3 real zed.Contexts vs the Lean context
//              model: type ids, serialized type values, LookupTypeValue bytes, context sizes;
//              crossed codec checks (real-encode → model-decode, model-encode → real-decode);
//              (S) after every history: no two ids with the same structure, ids dense, and the
//              bytes LookupTypeValue returned for a type never change afterwards
//   cmptypes   (T2) zed.CompareTypes matrix over a universe of types vs the model; (S) reflexive,
//              antisymmetric, transitive, zero only for the same type
//   union      (S) LookupTypeUnion gives the same type for every member order; (T2) the member
//              order chosen vs the model's insertion sort (also when members compare equal)
//   translate  (S) translate to another context and back is the identity; type values equal
//   alias      (S) bytes handed to LookupByValue and changed afterwards do not change the
//              context's type values
//   concurrent (S) goroutines creating the same types in different orders on one context
//              obtain the same pointers; no duplicates; ids dense
//   nameref    (S, deterministic schedule of the atomic steps of two decoders) a NameRef
//              resolves to the decoder's own preceding NameDef
//   interleave (T2) a schedule of the atomic steps of 2-5 LookupByValue threads replayed through the
//              public API on one real context vs the model's runSched (types by id, every thread's
//              result); (S) the type assembled step by step is what the context returns for the
//              bytes; the same lookups by real goroutines give the model's results and type set

import (
	"bytes"
	"encoding/hex"
	"encoding/json"
	"fmt"
	"strings"
	"sync"
	. "verifharness/hlib"

	zed "github.com/brimdata/super"
	"github.com/brimdata/super/zcode"
)

func main() { Main("C05", runC05) }

// ---- histories ----------------------------------------------------------------------------

type hOp struct {
	Kind  string   `json:"kind"`
	Ctx   int      `json:"ctx"`
	Refs  []string `json:"refs,omitempty"`  // p<N> primitive id, r<K> result of op K
	Names []string `json:"names,omitempty"` // field names / symbols / type name
	Hex   string   `json:"hex,omitempty"`   // byvalue
	Class string   `json:"class,omitempty"` // byvalue: how the bytes were made
}

func (o hOp) sexp() string {
	var b strings.Builder
	fmt.Fprintf(&b, "(%s %d", o.Kind, o.Ctx)
	switch o.Kind {
	case "rec":
		for i, r := range o.Refs {
			fmt.Fprintf(&b, " (%s %s)", HexAtom([]byte(o.Names[i])), r)
		}
	case "enum":
		for _, n := range o.Names {
			b.WriteString(" " + HexAtom([]byte(n)))
		}
	case "named":
		fmt.Fprintf(&b, " %s %s", HexAtom([]byte(o.Names[0])), o.Refs[0])
	case "typedef":
		b.WriteString(" " + HexAtom([]byte(o.Names[0])))
	case "byvalue":
		b.WriteString(" " + o.Hex)
	default:
		for _, r := range o.Refs {
			b.WriteString(" " + r)
		}
	}
	b.WriteString(")")
	return b.String()
}

type histRun struct {
	ctxs    []*zed.Context
	results []zed.Type
	resCtx  []int
	answers []string
	// tvstable oracle
	seenTV map[zed.Type][]byte
	seenAt map[zed.Type]int
}

func newHistRun() *histRun {
	h := &histRun{seenTV: map[zed.Type][]byte{}, seenAt: map[zed.Type]int{}}
	for i := 0; i < 4; i++ {
		h.ctxs = append(h.ctxs, zed.NewContext())
	}
	return h
}

func (h *histRun) ref(r string) zed.Type {
	var n int
	if _, err := fmt.Sscanf(r, "p%d", &n); err == nil {
		t, _ := zed.LookupPrimitiveByID(n)
		return t
	}
	if _, err := fmt.Sscanf(r, "r%d", &n); err == nil && n < len(h.results) {
		return h.results[n]
	}
	return nil
}

func answerOf(t zed.Type) string {
	if t == nil {
		return "err"
	}
	return fmt.Sprintf("%d,%s", zed.TypeID(t), HexAtom(zed.EncodeTypeValue(t)))
}

// exec runs one op on the real contexts.  buf receives the slice handed to LookupByValue.
func (h *histRun) exec(o hOp) (ans string, err error) {
	c := h.ctxs[o.Ctx]
	var t zed.Type
	var args []zed.Type
	for _, r := range o.Refs {
		a := h.ref(r)
		if a == nil {
			return "", fmt.Errorf("dangling ref %s", r)
		}
		args = append(args, a)
	}
	ans = ""
	e, panicked := Protect(func() error {
		switch o.Kind {
		case "rec":
			var fs []zed.Field
			for i, a := range args {
				fs = append(fs, zed.NewField(o.Names[i], a))
			}
			rt, err := c.LookupTypeRecord(fs)
			if err == nil {
				t = rt
			}
			// the caller reuses its slice (the context must have copied it)
			for i := range fs {
				fs[i] = zed.NewField("scribbled", zed.TypeNull)
			}
		case "arr":
			t = c.LookupTypeArray(args[0])
		case "set":
			t = c.LookupTypeSet(args[0])
		case "err":
			t = c.LookupTypeError(args[0])
		case "map":
			t = c.LookupTypeMap(args[0], args[1])
		case "union":
			members := append([]zed.Type(nil), args...)
			t = c.LookupTypeUnion(members)
			for i := range members {
				members[i] = zed.TypeNull
			}
		case "enum":
			syms := append([]string(nil), o.Names...)
			t = c.LookupTypeEnum(syms)
			for i := range syms {
				syms[i] = "scribbled"
			}
		case "named":
			nt, err := c.LookupTypeNamed(o.Names[0], args[0])
			if err == nil {
				t = nt
			}
		case "byvalue":
			b, _ := hex.DecodeString(strings.TrimPrefix(o.Hex, "-"))
			rt, err := c.LookupByValue(zcode.Bytes(b))
			if err == nil {
				t = rt
			}
		case "translate":
			rt, err := c.TranslateType(args[0])
			if err == nil {
				t = rt
			}
		case "typevalue":
			v := c.LookupTypeValue(args[0])
			ans = "tv," + HexAtom(v.Bytes())
			if _, ok := h.seenTV[args[0]]; !ok {
				h.seenTV[args[0]] = bytes.Clone(v.Bytes())
				h.seenAt[args[0]] = o.Ctx
			}
		case "typedef":
			if nt := c.LookupTypeDef(o.Names[0]); nt != nil {
				t = nt
			}
		default:
			return fmt.Errorf("bad op kind %s", o.Kind)
		}
		return nil
	})
	if panicked {
		return "", e
	}
	if e != nil {
		return "", e
	}
	if ans == "" {
		ans = answerOf(t)
	}
	if o.Kind == "typevalue" {
		t = nil
	}
	h.results = append(h.results, t)
	h.resCtx = append(h.resCtx, o.Ctx)
	h.answers = append(h.answers, ans)
	return ans, nil
}

// genHist generates a history; it executes it on scratch contexts while generating so that
// references are always to successful earlier results of the right context.
func genHist(c *Ctx, n int) []hOp {
	r := c.Rng
	g := &TypeGen{Rng: r, Names: DefaultNames}
	h := newHistRun()
	var ops []hOp
	nctx := 1 + r.Intn(3)
	pick := func(ctx int) string {
		var cands []string
		for i, t := range h.results {
			if t != nil && h.resCtx[i] == ctx {
				cands = append(cands, fmt.Sprintf("r%d", i))
			}
		}
		if len(cands) == 0 || r.Intn(3) == 0 {
			return fmt.Sprintf("p%d", ImplementedPrims[r.Intn(len(ImplementedPrims))])
		}
		return cands[r.Intn(len(cands))]
	}
	pickAny := func() (string, bool) {
		var cands []string
		for i, t := range h.results {
			if t != nil {
				cands = append(cands, fmt.Sprintf("r%d", i))
			}
		}
		if len(cands) == 0 {
			return "", false
		}
		return cands[r.Intn(len(cands))], true
	}
	for len(ops) < n {
		ctx := r.Intn(nctx)
		var o hOp
		switch k := r.Intn(20); {
		case k < 3:
			o = hOp{Kind: "rec", Ctx: ctx}
			for i, m := 0, r.Intn(4); i < m; i++ {
				o.Refs = append(o.Refs, pick(ctx))
				o.Names = append(o.Names, DefaultNames[r.Intn(len(DefaultNames))]) // duplicates possible: error path
			}
		case k < 4:
			o = hOp{Kind: "arr", Ctx: ctx, Refs: []string{pick(ctx)}}
		case k < 5:
			o = hOp{Kind: "set", Ctx: ctx, Refs: []string{pick(ctx)}}
		case k < 6:
			o = hOp{Kind: "err", Ctx: ctx, Refs: []string{pick(ctx)}}
		case k < 7:
			o = hOp{Kind: "map", Ctx: ctx, Refs: []string{pick(ctx), pick(ctx)}}
		case k < 10:
			o = hOp{Kind: "union", Ctx: ctx}
			for i, m := 0, 1+r.Intn(5); i < m; i++ {
				o.Refs = append(o.Refs, pick(ctx))
			}
		case k < 11:
			o = hOp{Kind: "enum", Ctx: ctx}
			for i, m := 0, r.Intn(4); i < m; i++ {
				o.Names = append(o.Names, DefaultNames[r.Intn(len(DefaultNames))])
			}
		case k < 14:
			names := append([]string{"int64", "\xff\xfe", "a\xc0\x80"}, DefaultTypeNames...)
			nm := DefaultTypeNames[r.Intn(len(DefaultTypeNames))]
			if r.Intn(8) == 0 {
				nm = names[r.Intn(3)]
			}
			o = hOp{Kind: "named", Ctx: ctx, Refs: []string{pick(ctx)}, Names: []string{nm}}
		case k < 16:
			ref, ok := pickAny()
			if !ok {
				continue
			}
			o = hOp{Kind: "translate", Ctx: ctx, Refs: []string{ref}}
		case k < 18:
			// bytes: a fresh spec or an existing type, canonical or not
			var spec *TSpec
			if ref, ok := pickAny(); ok && r.Intn(2) == 0 {
				spec = SpecOf(h.ref(ref))
			} else {
				scratch := zed.NewContext()
				t, err := g.Gen(1 + r.Intn(3)).Build(scratch)
				if err != nil {
					continue
				}
				spec = SpecOf(t)
			}
			classes := []string{"canonical", "reverse-unions", "expand-refs", "long-lengths", "trailing", "truncated", "bare-nameref"}
			cl := classes[r.Intn(len(classes))]
			if cl == "truncated" && spec.HasKind("union") {
				// a truncated union member makes DecodeTypeValue hand nil to LookupTypeUnion; the
				// panic unwinds through LookupByValue's deferred Unlock of an unlocked mutex, which
				// is a fatal (unrecoverable) runtime error.  That is C11's subject, not C05's.
				cl = "canonical"
			}
			var b []byte
			switch cl {
			case "canonical":
				b = spec.Wire(WireOpts{})
			case "reverse-unions":
				b = spec.Wire(WireOpts{ReverseUnions: true})
			case "expand-refs":
				b = spec.Wire(WireOpts{ExpandRefs: true})
			case "long-lengths":
				b = spec.Wire(WireOpts{LongLengths: true})
			case "trailing":
				b = spec.Wire(WireOpts{Trailing: []byte{byte(r.Intn(256)), 7}})
			case "truncated":
				b = spec.Wire(WireOpts{})
				if len(b) > 1 {
					b = b[:1+r.Intn(len(b)-1)]
				}
			case "bare-nameref":
				nm := DefaultTypeNames[r.Intn(len(DefaultTypeNames))]
				b = append([]byte{zed.TypeValueNameRef, byte(len(nm))}, nm...)
			}
			o = hOp{Kind: "byvalue", Ctx: ctx, Hex: HexAtom(b), Class: cl}
		case k < 19:
			o = hOp{Kind: "typevalue", Ctx: ctx, Refs: []string{pick(ctx)}}
		default:
			o = hOp{Kind: "typedef", Ctx: ctx, Names: []string{DefaultTypeNames[r.Intn(len(DefaultTypeNames))]}}
		}
		if unionHasNil(h, o) {
			continue
		}
		if _, err := h.exec(o); err != nil {
			// a panic of the real code while generating: keep the op, the checked run reports it
			ops = append(ops, o)
			return ops
		}
		ops = append(ops, o)
	}
	return ops
}

func unionHasNil(h *histRun, o hOp) bool {
	for _, r := range o.Refs {
		if h.ref(r) == nil {
			return true
		}
	}
	return false
}

// tvClass: whether a byvalue op handed non-canonical bytes for the type it resolved to.
func histKey(ops []hOp, i int) string {
	o := ops[i]
	if o.Kind == "byvalue" {
		return "byvalue-" + o.Class
	}
	return o.Kind
}

// checkHist runs the history on fresh real contexts and on the model.
func checkHist(c *Ctx, ops []hOp, replay bool) {
	h := newHistRun()
	var req strings.Builder
	req.WriteString("(C05 hist")
	for _, o := range ops {
		req.WriteString(" " + o.sexp())
	}
	req.WriteString(")")
	rp := map[string]any{"check": "hist", "ops": ops}
	for i, o := range ops {
		_, err := h.exec(o)
		if err != nil {
			c.Fail("panic", "C05:hist:panic:"+histKey(ops, i), fmt.Sprintf("op %d %s: %v", i, o.sexp(), err), rp)
			return
		}
		c.Stat("hist:op:" + histKey(ops, i))
		// (S) type values handed out earlier must not change
		for t, old := range h.seenTV {
			now := h.ctxs[h.seenAt[t]].LookupTypeValue(t).Bytes()
			if !bytes.Equal(now, old) {
				key := "C05:tvstable:" + histKey(ops, i)
				if o.Kind == "byvalue" && o.Class != "canonical" && o.Class != "truncated" {
					key = "C05:tvstable:byvalue-noncanonical:" + o.Class
				} else if !bytes.Equal(old, zed.EncodeTypeValue(t)) {
					// the value observed earlier was already the non-canonical one an earlier
					// LookupByValue had stored; this op's internal LookupByValue replaced it again
					key = "C05:tvstable:byvalue-noncanonical:replaced-by-" + histKey(ops, i)
				}
				c.Fail("oracle", key, fmt.Sprintf("LookupTypeValue(%s) returned %x before and %x after op %d %s", DescrType(t), old, now, i, o.sexp()), rp)
				h.seenTV[t] = bytes.Clone(now)
			}
		}
	}
	// (S) canonicity of every context
	var sizes []string
	for ci, zc := range h.ctxs {
		seen := map[string]int{}
		n := 0
		for id := zed.IDTypeComplex; ; id++ {
			t, err := zc.LookupType(id)
			if err != nil {
				break
			}
			n++
			if zed.TypeID(t) != id {
				c.Fail("oracle", "C05:canonical:id-mismatch", fmt.Sprintf("ctx %d: LookupType(%d) has TypeID %d", ci, id, zed.TypeID(t)), rp)
			}
			d := DescrType(t)
			if prev, ok := seen[d]; ok {
				c.Fail("oracle", "C05:canonical:duplicate:"+lastKind(ops), fmt.Sprintf("ctx %d: ids %d and %d have the same structure %s", ci, prev, id, d), rp)
			}
			seen[d] = id
		}
		sizes = append(sizes, fmt.Sprint(n))
		// results: pointer-equal iff same structure
		for i, a := range h.results {
			for j := i + 1; j < len(h.results); j++ {
				b := h.results[j]
				if a == nil || b == nil || h.resCtx[i] != ci || h.resCtx[j] != ci {
					continue
				}
				if (a == b) != (DescrType(a) == DescrType(b)) {
					c.Fail("oracle", "C05:canonical:pointer:"+histKey(ops, j), fmt.Sprintf("ctx %d: results %d and %d: pointer-equal=%v but structures %s / %s", ci, i, j, a == b, DescrType(a), DescrType(b)), rp)
				}
			}
		}
	}
	// (T2) model
	m := c.Model()
	ans := m.Call(req.String())
	c.Res.ModelCases++
	parts := strings.Split(ans, " | ")
	if len(parts) != 2 {
		c.Fail("correspondence", "C05:hist:model-refused", "model answered "+ans, rp)
		return
	}
	mans := strings.Fields(parts[0])
	if len(mans) != len(h.answers) {
		c.Fail("correspondence", "C05:hist:answer-count", fmt.Sprintf("model gave %d answers for %d ops", len(mans), len(h.answers)), rp)
		return
	}
	if parts[1] != strings.Join(sizes, " ") {
		c.Fail("correspondence", "C05:hist:sizes", fmt.Sprintf("context sizes real %v model %s", sizes, parts[1]), rp)
	}
	var descReq []string
	var descWant []string
	for i := range mans {
		if mans[i] == h.answers[i] {
			c.Stat("hist:bytes-equal")
			if t := h.results[i]; t != nil && len(descReq) < 6 {
				descReq = append(descReq, "(C05 describe "+HexAtom(zed.EncodeTypeValue(t))+")")
				descWant = append(descWant, DescrType(t)+" -")
			}
			continue
		}
		// ids and error status must agree exactly; serialized bytes may differ as long as both
		// crossed decodes give the same structure
		ra, ma := strings.SplitN(h.answers[i], ",", 2), strings.SplitN(mans[i], ",", 2)
		if len(ra) != 2 || len(ma) != 2 || ra[0] != ma[0] || ra[0] == "tv" {
			c.Fail("correspondence", "C05:hist:"+histKey(ops, i), fmt.Sprintf("op %d %s: real %s model %s", i, ops[i].sexp(), h.answers[i], mans[i]), rp)
			continue
		}
		c.Stat("hist:bytes-differ")
		mb, _ := hex.DecodeString(strings.TrimPrefix(ma[1], "-"))
		dt, rest := zed.NewContext().DecodeTypeValue(mb)
		if rest == nil || len(rest) != 0 || DescrType(dt) != DescrType(h.results[i]) {
			c.Fail("correspondence", "C05:codec:model-encode-real-decode", fmt.Sprintf("op %d: model bytes %s decode to %s, real type is %s", i, ma[1], DescrType(dt), DescrType(h.results[i])), rp)
		}
		descReq = append(descReq, "(C05 describe "+ra[1]+")")
		descWant = append(descWant, DescrType(h.results[i])+" -")
	}
	if len(descReq) > 0 {
		for i, a := range m.Batch(descReq) {
			c.Res.ModelCases++
			if a != descWant[i] {
				c.Fail("correspondence", "C05:codec:real-encode-model-decode", fmt.Sprintf("%s: model %s real %s", descReq[i], a, descWant[i]), rp)
			}
		}
	}
}

func lastKind(ops []hOp) string {
	if len(ops) == 0 {
		return ""
	}
	return histKey(ops, len(ops)-1)
}

func runHistories(c *Ctx) {
	n := c.N(400, 12000)
	for i := 0; i < n; i++ {
		ops := genHist(c, 4+c.Rng.Intn(28))
		var kinds []string
		for j := range ops {
			kinds = append(kinds, histKey(ops, j))
		}
		c.Eval("hist:" + strings.Join(kinds, ","))
		if i < 2 {
			var s []string
			for _, o := range ops {
				s = append(s, o.sexp())
			}
			c.Sample(map[string]any{"history": s})
		}
		checkHist(c, ops, false)
	}
}

// ---- CompareTypes ---------------------------------------------------------------------------

func curatedSpecs() []*TSpec {
	named := func(n string, t *TSpec) *TSpec { return &TSpec{Kind: "named", Name: n, Elems: []*TSpec{t}} }
	rec := func(fs ...TField) *TSpec { return &TSpec{Kind: "record", Fields: fs} }
	un := func(es ...*TSpec) *TSpec { return &TSpec{Kind: "union", Elems: es} }
	i64, str, f64 := Prim(9), Prim(25), Prim(16)
	out := []*TSpec{}
	for _, id := range ImplementedPrims {
		out = append(out, Prim(id))
	}
	out = append(out,
		rec(), rec(TField{"a", i64}), rec(TField{"a", str}), rec(TField{"b", i64}), rec(TField{"a", i64}, TField{"b", i64}),
		rec(TField{"b", i64}, TField{"a", i64}), rec(TField{"", i64}), rec(TField{"ab", i64}), rec(TField{"a", rec(TField{"a", i64})}),
		&TSpec{Kind: "array", Elems: []*TSpec{i64}}, &TSpec{Kind: "array", Elems: []*TSpec{str}}, &TSpec{Kind: "set", Elems: []*TSpec{i64}},
		&TSpec{Kind: "array", Elems: []*TSpec{{Kind: "array", Elems: []*TSpec{i64}}}},
		&TSpec{Kind: "map", Elems: []*TSpec{i64, str}}, &TSpec{Kind: "map", Elems: []*TSpec{str, i64}}, &TSpec{Kind: "map", Elems: []*TSpec{i64, i64}},
		un(i64), un(i64, str), un(i64, f64), un(i64, str, f64), un(str, rec()),
		&TSpec{Kind: "enum"}, &TSpec{Kind: "enum", Syms: []string{"a"}}, &TSpec{Kind: "enum", Syms: []string{"b"}}, &TSpec{Kind: "enum", Syms: []string{"a", "b"}}, &TSpec{Kind: "enum", Syms: []string{"b", "a"}},
		&TSpec{Kind: "error", Elems: []*TSpec{str}}, &TSpec{Kind: "error", Elems: []*TSpec{i64}}, &TSpec{Kind: "error", Elems: []*TSpec{rec(TField{"a", i64})}},
		named("x", i64), named("y", i64), named("x", str), named("x", rec(TField{"a", i64})),
		named("x", named("y", i64)), named("x", named("z", i64)), named("y", named("x", i64)),
		rec(TField{"a", named("x", i64)}), rec(TField{"a", named("x", named("y", i64))}), rec(TField{"a", named("x", named("z", i64))}),
		named("q", rec(TField{"a", named("x", named("y", i64))})),
		&TSpec{Kind: "array", Elems: []*TSpec{named("x", i64)}}, un(i64, named("x", i64)), un(named("x", i64), named("y", i64)),
	)
	return out
}

// nestedNamed: some named type directly wraps a named type (the class for which
// CompareTypes cannot tell distinct types apart).
func nestedNamed(t *TSpec) bool {
	if t.Kind == "named" && t.Elems[0].Kind == "named" {
		return true
	}
	for _, e := range t.Elems {
		if nestedNamed(e) {
			return true
		}
	}
	for _, f := range t.Fields {
		if nestedNamed(f.Type) {
			return true
		}
	}
	return false
}

func runCmpTypes(c *Ctx) {
	g := &TypeGen{Rng: c.Rng, Names: []string{"a", "b", "ab", ""}}
	specs := curatedSpecs()
	for i, n := 0, c.N(60, 260); i < n; i++ {
		specs = append(specs, g.Gen(1+c.Rng.Intn(3)))
	}
	cmpTypesUniverse(c, specs)
	// Types whose components are complex, created in seed-shuffled orders: complex ids follow
	// creation order, the model is structural, so any id-based shortcut in CompareTypes disagrees.
	for k, n := 0, c.N(4, 16); k < n; k++ {
		cmpTypesUniverse(c, shuffledComplexUniverse(c))
	}
}

// cmpTypesUniverse creates the specs in the given order in a fresh context and compares
// zed.CompareTypes with the model, and with the order laws, on all pairs and triples.
func cmpTypesUniverse(c *Ctx, specs []*TSpec) {
	zc := zed.NewContext()
	var types []zed.Type
	var tspecs []*TSpec
	seen := map[zed.Type]bool{}
	for _, s := range specs {
		t, err := s.Build(zc)
		if err != nil || seen[t] {
			continue
		}
		seen[t] = true
		types = append(types, t)
		tspecs = append(tspecs, SpecOf(t))
	}
	n := len(types)
	cmp := make([][]int, n)
	for i := range types {
		cmp[i] = make([]int, n)
		for j := range types {
			i, j := i, j
			e, _ := Protect(func() error { cmp[i][j] = zed.CompareTypes(types[i], types[j]); return nil })
			if e != nil {
				c.Fail("panic", "C05:comparetypes:panic", e.Error(), map[string]any{"check": "cmptypes", "a": tspecs[i], "b": tspecs[j]})
				return
			}
		}
	}
	// (T2)
	var req strings.Builder
	req.WriteString("(C05 typematrix")
	for _, t := range types {
		req.WriteString(" " + HexAtom(zed.EncodeTypeValue(t)))
	}
	req.WriteString(")")
	rows := strings.Split(c.Model().Call(req.String()), "/")
	if len(rows) != n {
		c.Fail("correspondence", "C05:comparetypes:model-refused", "model answered "+strings.Join(rows, "/")[:min(200, len(strings.Join(rows, "/")))], map[string]any{"check": "cmptypes"})
	} else {
		for i := range types {
			for j := range types {
				c.Res.ModelCases++
				want := "<=>"[sign(cmp[i][j])+1]
				if len(rows[i]) != n || rows[i][j] != want {
					c.Fail("correspondence", "C05:comparetypes:"+tspecs[i].Kind+":"+tspecs[j].Kind,
						fmt.Sprintf("CompareTypes(%s, %s) = %d, model %c", tspecs[i].Descr(), tspecs[j].Descr(), cmp[i][j], rows[i][j]),
						map[string]any{"check": "cmptypes", "a": tspecs[i], "b": tspecs[j]})
				}
			}
		}
	}
	// (S)
	for i := range types {
		for j := range types {
			c.Eval(fmt.Sprintf("cmptypes:%d:%d", i, j))
			rp := map[string]any{"check": "cmptypes", "a": tspecs[i], "b": tspecs[j]}
			if sign(cmp[i][j]) != -sign(cmp[j][i]) {
				c.Fail("oracle", "C05:comparetypes:antisymmetry", fmt.Sprintf("CompareTypes(%s,%s)=%d but reversed %d", tspecs[i].Descr(), tspecs[j].Descr(), cmp[i][j], cmp[j][i]), rp)
			}
			if (cmp[i][j] == 0) != (i == j) {
				cls := "other"
				if nestedNamed(tspecs[i]) && nestedNamed(tspecs[j]) {
					cls = "nested-named"
				} else if nestedNamed(tspecs[i]) || nestedNamed(tspecs[j]) {
					cls = "nested-named-one"
				}
				c.Fail("oracle", "C05:comparetypes:zero-distinct:"+cls, fmt.Sprintf("CompareTypes(%s, %s) = %d for distinct types", tspecs[i].Descr(), tspecs[j].Descr(), cmp[i][j]), rp)
			}
		}
	}
	for i := range types {
		for j := range types {
			if cmp[i][j] > 0 {
				continue
			}
			for k := range types {
				if cmp[j][k] <= 0 && cmp[i][k] > 0 {
					cls := "other"
					if nestedNamed(tspecs[i]) || nestedNamed(tspecs[j]) || nestedNamed(tspecs[k]) {
						cls = "nested-named"
					}
					c.Fail("oracle", "C05:comparetypes:transitivity:"+cls, fmt.Sprintf("a=%s ≤ b=%s ≤ c=%s but CompareTypes(a,c)=%d", tspecs[i].Descr(), tspecs[j].Descr(), tspecs[k].Descr(), cmp[i][k]),
						map[string]any{"check": "cmptypes", "a": tspecs[i], "b": tspecs[j], "c": tspecs[k]})
				}
			}
		}
	}
	c.StatN("cmptypes:types", n)
}

func sign(x int) int {
	switch {
	case x < 0:
		return -1
	case x > 0:
		return 1
	}
	return 0
}

// ---- union member order ---------------------------------------------------------------------------

func runUnion(c *Ctx) {
	g := &TypeGen{Rng: c.Rng, Names: []string{"a", "b", "ab"}}
	cur := curatedSpecs()
	for it, n := 0, c.N(300, 6000); it < n; it++ {
		var members []*TSpec
		k := 2 + c.Rng.Intn(5)
		if it%10 == 0 {
			k = 15 + c.Rng.Intn(6) // up to 20: still one insertion-sort block in sort.SliceStable
		}
		seen := map[string]bool{}
		for len(members) < k {
			var s *TSpec
			if c.Rng.Intn(2) == 0 {
				s = cur[c.Rng.Intn(len(cur))]
			} else {
				s = g.Gen(c.Rng.Intn(3))
			}
			if seen[s.Descr()] {
				continue
			}
			seen[s.Descr()] = true
			members = append(members, s)
		}
		checkUnion(c, members, c.Rng.Perm(len(members)))
	}
}

func checkUnion(c *Ctx, members []*TSpec, perm []int) {
	zc := zed.NewContext()
	var ts []zed.Type
	for _, m := range members {
		t, err := m.Build(zc)
		if err != nil {
			return
		}
		ts = append(ts, t)
	}
	rp := map[string]any{"check": "union", "members": members, "perm": perm}
	var ds []string
	for _, t := range ts {
		ds = append(ds, DescrType(t))
	}
	c.Eval("union:" + strings.Join(ds, "|") + fmt.Sprint(perm))
	c.Stat(fmt.Sprintf("union:members:%d", len(ts)))
	var u1, u2 *zed.TypeUnion
	e, _ := Protect(func() error {
		u1 = zc.LookupTypeUnion(append([]zed.Type(nil), ts...))
		var p []zed.Type
		for _, i := range perm {
			p = append(p, ts[i])
		}
		u2 = zc.LookupTypeUnion(p)
		return nil
	})
	if e != nil {
		c.Fail("panic", "C05:union:panic", e.Error(), rp)
		return
	}
	if u1 != u2 {
		cls := "other"
		for _, m := range members {
			if nestedNamed(m) {
				cls = "nested-named"
			}
		}
		c.Fail("oracle", "C05:union-order:"+cls, fmt.Sprintf("LookupTypeUnion gives %s for one member order and %s for another", DescrType(u1), DescrType(u2)), rp)
	}
	// (T2) member order vs the model's insertion sort
	var req strings.Builder
	req.WriteString("(C05 sortunion")
	for _, t := range ts {
		req.WriteString(" " + HexAtom(zed.EncodeTypeValue(t)))
	}
	req.WriteString(")")
	ans := strings.Fields(c.Model().Call(req.String()))
	c.Res.ModelCases++
	var want []string
	for _, m := range u1.Types {
		for i, t := range ts {
			if t == m {
				want = append(want, fmt.Sprint(i))
			}
		}
	}
	if strings.Join(ans, " ") != strings.Join(want, " ") {
		c.Fail("correspondence", "C05:union:sort", fmt.Sprintf("member order real %v model %v for %v", want, ans, ds), rp)
	}
}

// ---- translate ---------------------------------------------------------------------------------

func runTranslate(c *Ctx) {
	g := &TypeGen{Rng: c.Rng, Names: DefaultNames}
	for it, n := 0, c.N(600, 20000); it < n; it++ {
		spec := g.Gen(1 + c.Rng.Intn(4))
		checkTranslate(c, spec)
	}
}

func checkTranslate(c *Ctx, spec *TSpec) {
	a, b := zed.NewContext(), zed.NewContext()
	// make the id spaces differ
	b.LookupTypeArray(zed.TypeString)
	rp := map[string]any{"check": "translate", "spec": spec}
	e, _ := Protect(func() error {
		t, err := spec.Build(a)
		if err != nil {
			return nil
		}
		c.Eval("translate:" + DescrType(t))
		c.Stat("translate:" + spec.Kind)
		u, err := b.TranslateType(t)
		if err != nil {
			c.Fail("oracle", "C05:translate:error:"+spec.Kind, fmt.Sprintf("TranslateType(%s): %v", DescrType(t), err), rp)
			return nil
		}
		if DescrType(u) != DescrType(t) {
			c.Fail("oracle", "C05:translate:structure:"+spec.Kind, fmt.Sprintf("%s translated to %s", DescrType(t), DescrType(u)), rp)
		}
		if !bytes.Equal(zed.EncodeTypeValue(u), zed.EncodeTypeValue(t)) {
			c.Fail("oracle", "C05:translate:typevalue:"+spec.Kind, fmt.Sprintf("type values differ across contexts for %s", DescrType(t)), rp)
		}
		if !bytes.Equal(b.LookupTypeValue(u).Bytes(), a.LookupTypeValue(t).Bytes()) {
			c.Fail("oracle", "C05:translate:lookuptypevalue:"+spec.Kind, fmt.Sprintf("LookupTypeValue differs across contexts for %s", DescrType(t)), rp)
		}
		back, err := a.TranslateType(u)
		if err != nil || back != t {
			c.Fail("oracle", "C05:translate:roundtrip:"+spec.Kind, fmt.Sprintf("%s translated there and back is %s (err %v), not the same type", DescrType(t), DescrType(back), err), rp)
		}
		// decoding the type value anywhere denotes the same structure
		d, rest := zed.NewContext().DecodeTypeValue(zed.EncodeTypeValue(t))
		if rest == nil || len(rest) != 0 || DescrType(d) != DescrType(t) {
			c.Fail("oracle", "C05:translate:decode:"+spec.Kind, fmt.Sprintf("type value of %s decodes to %s", DescrType(t), DescrType(d)), rp)
		}
		// the mapper
		m := zed.NewMapper(b)
		mt, err := m.Enter(t)
		if err != nil || mt != u || m.Lookup(zed.TypeID(t)) != u {
			c.Fail("oracle", "C05:translate:mapper:"+spec.Kind, fmt.Sprintf("Mapper.Enter(%s) = %s, Lookup = %v", DescrType(t), DescrType(mt), m.Lookup(zed.TypeID(t)) == u), rp)
		}
		return nil
	})
	if e != nil {
		c.Fail("panic", "C05:translate:panic", e.Error(), rp)
	}
}

// ---- aliasing ------------------------------------------------------------------------------------

func runAlias(c *Ctx) {
	g := &TypeGen{Rng: c.Rng, Names: DefaultNames}
	for it, n := 0, c.N(200, 4000); it < n; it++ {
		spec := g.Gen(1 + c.Rng.Intn(3))
		known := c.Rng.Intn(2) == 0
		checkAlias(c, spec, known)
	}
}

func checkAlias(c *Ctx, spec *TSpec, known bool) {
	scratch := zed.NewContext()
	st, err := spec.Build(scratch)
	if err != nil || zed.TypeID(st) < zed.IDTypeComplex {
		return
	}
	rp := map[string]any{"check": "alias", "spec": spec, "known": known}
	c.Eval(fmt.Sprintf("alias:%v:%s", known, DescrType(st)))
	c.Stat(fmt.Sprintf("alias:known=%v", known))
	e, _ := Protect(func() error {
		zc := zed.NewContext()
		if known {
			// the type already exists in the context; the caller's bytes are canonical
			if _, err := zc.TranslateType(st); err != nil {
				return nil
			}
			// a toType hit stores nothing: use bytes that differ from the cached key
		}
		buf := bytes.Clone(zed.EncodeTypeValue(st))
		if known {
			buf = append(buf, 0) // same type, one trailing byte: not a toType hit
		}
		t, err := zc.LookupByValue(buf)
		if err != nil {
			return nil
		}
		before := bytes.Clone(zc.LookupTypeValue(t).Bytes())
		want := zed.EncodeTypeValue(t)
		if !bytes.Equal(before, want) {
			c.Fail("oracle", "C05:tvstable:byvalue-noncanonical:trailing", fmt.Sprintf("LookupTypeValue(%s) = %x after LookupByValue of a non-canonical encoding; EncodeTypeValue = %x", DescrType(t), before, want), rp)
		}
		// the caller reuses its buffer
		for i := range buf {
			buf[i] = 0xEE
		}
		after := zc.LookupTypeValue(t).Bytes()
		if !bytes.Equal(after, before) {
			c.Fail("oracle", "C05:tvstable:byvalue-alias", fmt.Sprintf("LookupTypeValue(%s) changed from %x to %x when the slice once passed to LookupByValue was overwritten by its owner", DescrType(t), before, after), rp)
		}
		return nil
	})
	if e != nil {
		c.Fail("panic", "C05:alias:panic", e.Error(), rp)
	}
}

// ---- concurrency -----------------------------------------------------------------------------------

func runConcurrent(c *Ctx) {
	g := &TypeGen{Rng: c.Rng, Names: DefaultNames}
	for it, n := 0, c.N(30, 400); it < n; it++ {
		var specs []*TSpec
		for i, m := 0, 10+c.Rng.Intn(30); i < m; i++ {
			specs = append(specs, g.Gen(1+c.Rng.Intn(3)))
		}
		if it%2 == 0 {
			// no name is bound to two different types in this batch: concurrent decoders cannot
			// disturb each other's NameRefs, so every mismatch below is a violation
			for _, s := range specs {
				uniquifyNames(s)
			}
		}
		workers := 2 + c.Rng.Intn(15)
		perms := make([][]int, workers)
		for w := range perms {
			perms[w] = c.Rng.Perm(len(specs))
		}
		checkConcurrent(c, specs, perms)
	}
}

// uniquifyNames makes the name of every named type a function of the type it names.
func uniquifyNames(t *TSpec) {
	for _, e := range t.Elems {
		uniquifyNames(e)
	}
	for _, f := range t.Fields {
		uniquifyNames(f.Type)
	}
	if t.Kind == "named" {
		h := uint32(2166136261)
		for _, b := range []byte(t.Elems[0].Descr()) {
			h = (h ^ uint32(b)) * 16777619
		}
		if i := strings.Index(t.Name, "_"); i >= 0 {
			t.Name = t.Name[:i]
		}
		t.Name = fmt.Sprintf("%s_%08x", t.Name, h)
	}
}

// contendedNames: some type name is bound to two different types among the specs.
func contendedNames(specs []*TSpec) bool {
	bound := map[string]string{}
	contended := false
	var walk func(t *TSpec)
	walk = func(t *TSpec) {
		for _, e := range t.Elems {
			walk(e)
		}
		for _, f := range t.Fields {
			walk(f.Type)
		}
		if t.Kind == "named" {
			d := t.Elems[0].Descr()
			if prev, ok := bound[t.Name]; ok && prev != d {
				contended = true
			}
			bound[t.Name] = d
		}
	}
	for _, s := range specs {
		walk(s)
	}
	return contended
}

func checkConcurrent(c *Ctx, specs []*TSpec, perms [][]int) {
	rp := map[string]any{"check": "concurrent", "specs": specs, "perms": perms}
	// With contended names the (known) NameRef race between concurrent decoders can make a
	// decoder produce a different type; such mismatches are that finding, not a new one.
	mismatchKey := func(k string) string {
		if contendedNames(specs) {
			return "C05:nameref:rebinding"
		}
		return k
	}
	c.Eval(fmt.Sprintf("concurrent:%d:%d:%s", len(specs), len(perms), specs[0].Descr()))
	c.Stat(fmt.Sprintf("concurrent:workers:%d", len(perms)))
	zc := zed.NewContext()
	foreign := zed.NewContext()
	var fts []zed.Type
	for _, s := range specs {
		t, err := s.Build(foreign)
		if err != nil {
			t = nil
		}
		fts = append(fts, t)
	}
	got := make([][]zed.Type, len(perms))
	var wg sync.WaitGroup
	var mu sync.Mutex
	var panics []string
	for w := range perms {
		wg.Add(1)
		go func(w int) {
			defer wg.Done()
			got[w] = make([]zed.Type, len(specs))
			e, _ := Protect(func() error {
				for _, i := range perms[w] {
					var t zed.Type
					var err error
					switch (w + i) % 3 {
					case 0:
						t, err = specs[i].Build(zc)
					case 1:
						if fts[i] != nil {
							t, err = zc.TranslateType(fts[i])
						}
					default:
						if fts[i] != nil {
							t, err = zc.LookupByValue(zed.EncodeTypeValue(fts[i]))
						}
					}
					if err == nil {
						got[w][i] = t
					}
				}
				return nil
			})
			if e != nil {
				mu.Lock()
				panics = append(panics, e.Error())
				mu.Unlock()
			}
		}(w)
	}
	wg.Wait()
	if len(panics) > 0 {
		c.Fail("panic", "C05:concurrent:panic", panics[0], rp)
		return
	}
	for i := range specs {
		var first zed.Type
		for w := range perms {
			t := got[w][i]
			if t == nil {
				continue
			}
			if first == nil {
				first = t
			}
			if t != first {
				c.Fail("oracle", mismatchKey("C05:concurrent:pointer"), fmt.Sprintf("two goroutines obtained different pointers for %s", specs[i].Descr()), rp)
			}
			if fts[i] != nil && DescrType(t) != DescrType(fts[i]) {
				c.Fail("oracle", mismatchKey("C05:concurrent:structure"), fmt.Sprintf("asked for %s, got %s", DescrType(fts[i]), DescrType(t)), rp)
			}
		}
	}
	seen := map[string]int{}
	for id := zed.IDTypeComplex; ; id++ {
		t, err := zc.LookupType(id)
		if err != nil {
			break
		}
		d := DescrType(t)
		if prev, ok := seen[d]; ok {
			c.Fail("oracle", "C05:concurrent:duplicate", fmt.Sprintf("ids %d and %d have the same structure %s", prev, id, d), rp)
		}
		seen[d] = id
		if zed.TypeID(t) != id {
			c.Fail("oracle", "C05:concurrent:id-mismatch", fmt.Sprintf("LookupType(%d) has TypeID %d", id, zed.TypeID(t)), rp)
		}
	}
}

// ---- NameRef atomicity (deterministic interleaving of the decoders' atomic steps) -------------

// Two decoders work on one shared context.  Decoder A reads `record{f:x=int64, g:x}` (NameDef x
// then NameRef x), decoder B reads `x=string`.  DecodeTypeValue takes the context mutex once per
// Lookup* call, so "A: def x; B: def x; A: ref x" is a legal schedule; it is replayed here through
// the same public calls the decoder makes, in that order.
func runNameRef(c *Ctx) {
	for _, other := range []int{zed.IDString, zed.IDFloat64, zed.IDIP} {
		zc := zed.NewContext()
		rp := map[string]any{"check": "nameref", "other": other}
		c.Eval(fmt.Sprintf("nameref:%d", other))
		e, _ := Protect(func() error {
			ot, _ := zed.LookupPrimitiveByID(other)
			// A: NameDef x = int64
			aDef, _ := zc.LookupTypeNamed("x", zed.TypeInt64)
			// B: NameDef x = other (a complete DecodeTypeValue of B's bytes)
			bBytes := (&TSpec{Kind: "named", Name: "x", Elems: []*TSpec{Prim(other)}}).Wire(WireOpts{})
			bt, rest := zc.DecodeTypeValue(bBytes)
			if rest == nil || bt == nil {
				return fmt.Errorf("B failed to decode")
			}
			_ = ot
			// A: NameRef x
			aRef := zc.LookupTypeDef("x")
			if aRef != aDef {
				c.Fail("oracle", "C05:nameref:rebinding", fmt.Sprintf("decoder A defined x=%s; after decoder B defined x=%s on the same context, A's NameRef x resolves to %s", DescrType(aDef), DescrType(bt), DescrType(aRef)), rp)
			}
			return nil
		})
		if e != nil {
			c.Fail("panic", "C05:nameref:panic", e.Error(), rp)
		}
	}
}

// ---- main ---------------------------------------------------------------------------------------------

func runC05(c *Ctx) {
	c.Rule("hist: random histories (4-32 ops: record/array/set/map/union/enum/error/named lookups incl. duplicate fields and invalid names, " +
		"LookupByValue of canonical, member-reversed, ref-expanded, long-length, trailing, truncated and bare-NameRef encodings, TranslateType between up to 3 contexts, " +
		"LookupTypeValue, LookupTypeDef) on real zed.Context vs the Lean model; distinct by the sequence of op kinds. " +
		"cmptypes: all pairs/triples of a curated+generated type universe. union: member sets of 2-20 types in two orders. " +
		"translate/alias/concurrent: generated types of depth ≤ 4; distinct by structure. " +
		"interleave: 2-5 LookupByValue threads (canonical, member-reversed, ref-expanded, long-length, trailing encodings of generated types; names collide across threads) " +
		"under a random schedule of their atomic steps; distinct by bytes and schedule.")
	if c.Replay != nil {
		replayC05(c)
		return
	}
	for _, rc := range c.CorpusCases() {
		c.Replay = rc
		replayC05(c)
		c.Replay = nil
	}
	if c.Want("hist") {
		runHistories(c)
	}
	if c.Want("cmptypes") {
		runCmpTypes(c)
	}
	if c.Want("union") {
		runUnion(c)
	}
	if c.Want("translate") {
		runTranslate(c)
	}
	if c.Want("crossctx") {
		runCrossCtx(c)
	}
	if c.Want("mapper") {
		runMapper(c)
	}
	if c.Want("alias") {
		runAlias(c)
	}
	if c.Want("concurrent") {
		runConcurrent(c)
	}
	if c.Want("nameref") {
		runNameRef(c)
	}
	if c.Want("interleave") {
		runInterleave(c)
	}
}

func replayC05(c *Ctx) {
	var r struct {
		Check   string   `json:"check"`
		Ops     []hOp    `json:"ops"`
		A, B, C *TSpec   `json:"-"`
		Members []*TSpec `json:"members"`
		Perm    []int    `json:"perm"`
		Spec    *TSpec   `json:"spec"`
		Known   bool     `json:"known"`
		Specs   []*TSpec `json:"specs"`
		Perms   [][]int  `json:"perms"`
	}
	if err := json.Unmarshal(c.Replay, &r); err != nil {
		c.Note("replay not understood: %v", err)
		return
	}
	c.Eval("replay")
	switch r.Check {
	case "hist":
		checkHist(c, r.Ops, true)
	case "union":
		checkUnion(c, r.Members, r.Perm)
	case "mapper":
		var mc mapperCase
		if json.Unmarshal(c.Replay, &mc) == nil {
			checkMapper(c, &mc)
		}
	case "crossctx":
		var cc crossCase
		if json.Unmarshal(c.Replay, &cc) == nil {
			checkCrossCtx(c, &cc)
		}
	case "translate":
		checkTranslate(c, r.Spec)
	case "alias":
		checkAlias(c, r.Spec, r.Known)
	case "concurrent":
		checkConcurrent(c, r.Specs, r.Perms)
	case "nameref":
		runNameRef(c)
	case "interleave":
		replayInterleave(c)
	case "cmptypes":
		runCmpTypes(c)
	default:
		c.Note("replay check %q not understood", r.Check)
	}
}
