/-
  C03 — VNG columnar round trip is the identity for both read paths; projection soundness.
  Property theorems only.  The lemmas are in Zed/Proofs/Vng*.lean; the model in
  Zed/Model/Vng*.lean; the parameters and tables in Zed.Generated.C03 are regenerated from
  /repo (vng/*.go, runtime/vcache/*.go, vector/*.go, type.go) on every check.
-/
import Zed.Proofs.VngNulls
import Zed.Proofs.VngPrimitive
import Zed.Proofs.VngColumns
import Zed.Proofs.VecLoad
import Zed.Proofs.VecProject
import Zed.Proofs.VecTop
namespace Zed.Props.C03
open Zed.Vng Zed.Generated.C03

/-! ## T1 obligations: the code the model was written against -/

/-- The small functions the model mirrors by hand (encoders, builders, the loader's null
    flattening, the vectors' `Serialize`) have exactly the normalised source the model was
    validated against.  An edit of any of them re-opens this obligation: the check then runs
    the thorough search on the real code. -/
theorem modelled_sources_unchanged : pinnedSources =
  [("vng/nulls.go:NullsEncoder.Write", "6510f11a29b7"),
   ("vng/nulls.go:NullsEncoder.touchValue", "4efe365b54cc"),
   ("vng/nulls.go:NullsEncoder.touchNull", "4a57224bb7e7"),
   ("vng/nulls.go:NullsEncoder.Encode", "16c0e3d38937"),
   ("vng/nulls.go:NullsEncoder.Metadata", "253838a0a3d9"),
   ("vng/nulls.go:NullsEncoder.Emit", "8daf09245622"),
   ("vng/nulls.go:NullsBuilder.Build", "2a00c0866a15"),
   ("vng/primitive.go:PrimitiveEncoder.Write", "81caac8c9290"),
   ("vng/primitive.go:PrimitiveEncoder.update", "f5cd0ae7c424"),
   ("vng/primitive.go:PrimitiveEncoder.Encode", "1514f5e8257d"),
   ("vng/primitive.go:PrimitiveEncoder.makeDictVector", "38bc02c2b8a1"),
   ("vng/primitive.go:PrimitiveEncoder.Const", "b1cfca02ffb2"),
   ("vng/primitive.go:PrimitiveEncoder.Metadata", "2c7e19c5fa9a"),
   ("vng/primitive.go:PrimitiveEncoder.Emit", "7208258e7b75"),
   ("vng/primitive.go:PrimitiveEncoder.makeDict", "709baf2b9a4d"),
   ("vng/primitive.go:PrimitiveBuilder.ReadBytes", "1888a6b8f72c"),
   ("vng/primitive.go:DictBuilder.ReadBytes", "3330e814c5ac"),
   ("vng/primitive.go:ConstBuilder.Build", "ae7a432bb575"),
   ("vng/dynamic.go:DynamicEncoder.Write", "fd83227ac9c3"),
   ("vng/dynamic.go:DynamicEncoder.Encode", "f35ec71185ee"),
   ("vng/dynamic.go:DynamicEncoder.Emit", "275c13c0c503"),
   ("vng/dynamic.go:dynamicBuilder.Read", "1ed27076fa56"),
   ("vng/dynamic.go:NewZedReader", "e81aa9d25726"),
   ("vng/dynamic.go:vectorBuilder.Read", "eaf1d5186f13"),
   ("vng/record.go:RecordEncoder.Write", "b04fc74eb393"),
   ("vng/record.go:RecordEncoder.Metadata", "6b69fcd60365"),
   ("vng/record.go:RecordEncoder.Emit", "944bb9bbe7f0"),
   ("vng/record.go:RecordBuilder.Build", "64f0aeda3086"),
   ("vng/array.go:ArrayEncoder.Write", "74d1b9b6bd2e"),
   ("vng/array.go:ArrayEncoder.Metadata", "2fbb2d6cdc0d"),
   ("vng/array.go:ArrayEncoder.Emit", "ba822ab09f45"),
   ("vng/array.go:ArrayBuilder.Build", "ce1f8b9e4ddb"),
   ("vng/array.go:SetEncoder.Metadata", "931d01068006"),
   ("vng/map.go:MapEncoder.Write", "8eb5b6545924"),
   ("vng/map.go:MapEncoder.Metadata", "6025c71647df"),
   ("vng/map.go:MapEncoder.Emit", "cd47aeef43f9"),
   ("vng/map.go:MapBuilder.Build", "0c9d489fd875"),
   ("vng/union.go:UnionEncoder.Write", "ba868b538535"),
   ("vng/union.go:UnionEncoder.Metadata", "c0c55d29c159"),
   ("vng/union.go:UnionEncoder.Emit", "a526a2319a1a"),
   ("vng/union.go:UnionBuilder.Build", "adbe830824eb"),
   ("vng/encoder.go:NamedEncoder.Metadata", "f0b9016959d9"),
   ("vng/encoder.go:ErrorEncoder.Metadata", "015b4028fc06"),
   ("vng/int.go:Int64Encoder.Write", "403a06013266"),
   ("vng/int.go:Int64Decoder.Next", "72b183c129a4"),
   ("runtime/vcache/nulls.go:nulls.fetch", "52fdd6821281"),
   ("runtime/vcache/nulls.go:nulls.flatten", "95140fb66582"),
   ("runtime/vcache/nulls.go:convolve", "e294ae5477e6"),
   ("runtime/vcache/loader.go:loader.load", "56884bf57c3f"),
   ("runtime/vcache/loader.go:loader.loadPrimitive", "5300522c4557"),
   ("runtime/vcache/loader.go:loader.loadVals", "a47423d8db1e"),
   ("runtime/vcache/loader.go:empty", "e3a4ec5721da"),
   ("runtime/vcache/loader.go:loader.loadOffsets", "1c55a22b0eb4"),
   ("runtime/vcache/loader.go:loader.loadUint32", "ac025edd27a8"),
   ("runtime/vcache/loader.go:loader.loadRecord", "59e7c11b3ead"),
   ("runtime/vcache/loader.go:loader.loadUnion", "672ec330fcf8"),
   ("runtime/vcache/loader.go:flattenNulls", "38c27999f3c1"),
   ("runtime/vcache/shadow.go:newShadow", "a2406cbd01f3"),
   ("runtime/vcache/project.go:project", "67a04832c817"),
   ("runtime/vcache/project.go:projectRecord", "6c81e1981b6f"),
   ("runtime/vcache/project.go:projectDynamic", "85d96f997af2"),
   ("runtime/vcache/project.go:projectUnion", "0bc3056dcd97"),
   ("runtime/vcache/path.go:insertPath", "af0e8fcefe2b"),
   ("runtime/vcache/path.go:addToFork", "f2a9c21c37c2"),
   ("runtime/vam/materialize.go:Materializer.Pull", "275da227144b"),
   ("vector/record.go:Record.Serialize", "24580b3056a2"),
   ("vector/array.go:Array.Serialize", "c8bdc5a233fe"),
   ("vector/set.go:Set.Serialize", "f47520a51168"),
   ("vector/map.go:Map.Serialize", "92d7dc9d2544"),
   ("vector/union.go:Union.Serialize", "f018e2f43b62"),
   ("vector/dynamic.go:Dynamic.Serialize", "afcd38fa6594"),
   ("vector/dynamic.go:Dynamic.TypeOf", "4c89b046efb9"),
   ("vector/tagmap.go:NewTagMapFromLens", "960075891b3f"),
   ("vector/const.go:Const.Serialize", "7baaeab6d373"),
   ("vector/dict.go:Dict.Serialize", "8e31dcd06eb3"),
   ("vector/error.go:Error.Serialize", "30b1be055311"),
   ("vector/string.go:String.Serialize", "568f9532a5bd"),
   ("vector/bool.go:Bool.Value", "bb7550a1a991")] := rfl

/-- `vng.NewEncoder`: which encoder is built for which type (every non-wrapper encoder sits
    inside a `NullsEncoder`; named and error types wrap the encoder of the inner type). -/
theorem encoder_switch_as_modelled : encoderSwitch =
  [("TypeNamed", "&NamedEncoder{NewEncoder(typ.Type), typ.Name}"),
   ("TypeError", "&ErrorEncoder{NewEncoder(typ.Type)}"),
   ("TypeRecord", "NewNullsEncoder(NewRecordEncoder(typ))"),
   ("TypeArray", "NewNullsEncoder(NewArrayEncoder(typ))"),
   ("TypeSet", "NewNullsEncoder(NewSetEncoder(typ))"),
   ("TypeMap", "NewNullsEncoder(NewMapEncoder(typ))"),
   ("TypeUnion", "NewNullsEncoder(NewUnionEncoder(typ))"),
   ("default", "NewNullsEncoder(NewPrimitiveEncoder(typ, true))")] := rfl

/-- `vng.NewBuilder`: which builder reads which metadata node. -/
theorem builder_switch_as_modelled : builderSwitch =
  [("nil", "return nil, nil"),
   ("Nulls", "inner, err := NewBuilder(meta.Values, r) ; if err != nil { return nil, err } ; return NewNullsBuilder(inner, meta.Runs, r), nil"),
   ("Named", "return NewBuilder(meta.Values, r)"),
   ("Error", "return NewBuilder(meta.Values, r)"),
   ("Record", "return NewRecordBuilder(meta, r)"),
   ("Array", "return NewArrayBuilder(meta, r)"),
   ("Set", "return NewArrayBuilder((*Array)(meta), r)"),
   ("Map", "return NewMapBuilder(meta, r)"),
   ("Union", "return NewUnionBuilder(meta, r)"),
   ("Primitive", "if len(meta.Dict) != 0 { return NewDictBuilder(meta, r), nil } ; return NewPrimitiveBuilder(meta, r), nil"),
   ("Const", "return NewConstBuilder(meta), nil"),
   ("default", "return nil, fmt.Errorf(\"unknown VNG metadata type: %T\", meta)")] := rfl

/-- The metadata node kinds that can be (un)marshalled are the ones the model has. -/
theorem metadata_template_as_modelled : metadataTemplate =
  ["Record", "Array", "Set", "Map", "Union", "Primitive", "Named", "Error", "Nulls", "Const", "Dynamic"] := rfl

/-! ## Null run lengths -/

/-- **nulls_roundtrip.**  For every sequence of optional bodies, reading the run-length
    coded column back (`NullsBuilder` driven `Nulls.Len()` times, or the bare values when no
    `Nulls` node was emitted) yields the sequence. -/
theorem nulls_roundtrip {α : Type} (xs : List (Option α)) :
    nullsDecode (nullsEncode xs) = some xs :=
  nullsDecode_nullsEncode xs

/-- The bitmap the vector loader rebuilds (`nulls.fetch`) from the encoder's runs is the
    null pattern of the input. -/
theorem nulls_fetch_correct {α : Type} (xs : List (Option α)) :
    nullsFetch false (nullsEncode xs).runs = xs.map Option.isNone := by
  rw [nullsFetch_eq_expand]
  exact (nullsState_spec (xs.map Option.isNone)).1

example : nullsEncode [none, none, some 7, none, some 8, some 9] =
    { runs := [0, 2, 1, 1, 2], count := 3, values := [7, 8, 9] } := by decide
example : (nullsEncode [some 1, some 2]).count = 0 := by decide

/-! ## Primitive columns: plain / dictionary / const -/

/-- **dict_boundary.**  Every dictionary that survives the overflow test of
    `PrimitiveEncoder.update` fits the selector type of `makeDictVector` — an obligation on
    the regenerated `MaxDictSize`, overflow operator and selector width (256 entries fit a
    byte, 257 do not). -/
theorem dict_boundary (n : Nat) (h : dictOverflow n = false) : n ≤ 2 ^ selectorBits :=
  dictOverflow_bound n h

/-- **encoding_choice_irrelevant.**  Whatever the statistics select — plain, dictionary or
    const; with or without a dictionary for the type — the builder returns the bodies that
    were written, in order. -/
theorem encoding_choice_irrelevant (id : Nat) (useDict : Bool) (xs : List Bytes) :
    (primEncode id useDict xs).build = some xs :=
  primEncode_build id useDict xs

/-- **dict_roundtrip**: the dictionary case of the above, spelled out. -/
theorem dict_roundtrip (id : Nat) (xs : List Bytes) (es : List (Bytes × Nat)) (sel : List Nat) (c : Nat)
    (h : primEncode id true xs = .dict es sel c) : dictBuild es sel = some xs := by
  have := primEncode_build id true xs
  rw [h] at this; exact this

/-- **const_roundtrip**: the const case (exactly one distinct value). -/
theorem const_roundtrip (id : Nat) (xs : List Bytes) (v : Bytes) (c : Nat)
    (h : primEncode id true xs = .const v c) : List.replicate c v = xs := by
  have := primEncode_build id true xs
  rw [h] at this; exact Option.some.inj this

theorem prim_len (id : Nat) (useDict : Bool) (xs : List Bytes) :
    (primEncode id useDict xs).len = xs.length :=
  primEncode_len id useDict xs

-- non-vacuity: each of the three encodings is selected by some input
example : primEncode 9 true [[1], [2], [1]] = .dict [([1], 2), ([2], 1)] [0, 1, 0] 3 := by decide
example : primEncode 9 true [[5], [5]] = .const [5] 2 := by decide
example : primEncode 0 true [[1], [2]] = .plain [[1], [2]] 2 := by decide   -- uint8: no dictionary
example : primEncode 9 true [] = .plain [] 0 := by decide

/-! ## Row path -/

/-- **vng_roundtrip_column.**  For every type (primitive, enum, record, array, set, map,
    union, named, error, nested arbitrarily) and every list of well-formed bodies written to
    its encoder, the builder reads the same bodies back; `Metadata.Len` is the number of
    bodies and `Metadata.Type` the type. -/
theorem vng_roundtrip_column (t : Ty) (vs : List Val) (h : ∀ v ∈ vs, conforms t v = true) :
    dec (enc t vs) = some vs ∧ colLen (enc t vs) = vs.length ∧ colType (enc t vs) = t :=
  enc_spec t vs h

/-- **vng_roundtrip_rows.**  Writing any sequence of well-formed typed values — any number
    of top-level types, interleaved in any order — and reading it through the
    row-reconstructing reader yields the identical sequence in the original order. -/
theorem vng_roundtrip_rows (vs : List (Ty × Val)) (h : ∀ p ∈ vs, conforms p.1 p.2 = true) :
    readRows (encTop vs) = some vs :=
  readRows_encTop vs h

-- non-vacuity: a conforming sequence with two interleaved types, nulls, a union and a map
example : (let t1 := Ty.record (.cons [97] (.prim 9) (.cons [98] (.array (.prim 25)) .nil))
           let t2 := Ty.union (.cons (.prim 9) (.cons (.map (.prim 25) (.prim 9)) .nil))
           let vs : List (Ty × Val) :=
             [(t1, .cont (.cons (.prim [1]) (.cons .null .nil))), (t2, .union 1 (.cont (.cons (.prim [120]) (.cons .null .nil)))),
              (t1, .null), (t2, .union 0 (.prim [2])), (t1, .cont (.cons .null (.cons (.cont (.cons (.prim []) .nil)) .nil)))]
           vs.all (fun p => conforms p.1 p.2) && (readRows (encTop vs) == some vs)) = true := by decide

/-! ## Vector path: the cache loader and the materializer -/

/-- **convolve_correct.**  `convolve(parent, child)` keeps the parent's nulls and re-indexes
    the child's bits past them: it is the child's bitmap placed into the parent's non-null
    slots. -/
theorem convolve_correct (P C : List Bool) (h : P.count false = C.length) :
    convolve P C = (place P C).map (·.getD true) :=
  convolve_eq_place P C h

/-- … and consequently: a column with its own nulls, expanded into its parent's slots, is its
    non-null values expanded into the slots of the convolved bitmap (whose null count is the
    sum of both). -/
theorem convolve_flattens (P : List Bool) (vs : List Val) (hlen : P.count false = vs.length) :
    expandVal P vs = expandVal (convolve P (vs.map Val.isNull)) (nonNull vs) ∧
    (convolve P (vs.map Val.isNull)).length = P.length ∧
    (convolve P (vs.map Val.isNull)).count false = (nonNull vs).length ∧
    (convolve P (vs.map Val.isNull)).count true = P.count true + (vs.map Val.isNull).count true :=
  expandVal_convolve P vs hlen

/-- **vec_leaf_correct.**  A primitive column of any primitive type (net included since /repo
    496cea1e9; not enum) loaded under ANY flattened
    bitmap, whichever of plain / dictionary / const it was stored as: slot `s` serialises to
    null where the bitmap says so and to the `rank s`-th written value elsewhere. -/
theorem vec_leaf_correct (t : Ty) (id : Nat) (nn : List Val) (b : Bitmap) (F : List Bool)
    (hR : Rep b F) (hcnt : F.count false = nn.length) (hprim : ∀ v ∈ nn, ∃ x, v = .prim x)
    (hE : isEnumTy t = false) (hnull : isNullTy t = true → nn = []) :
    ∃ v, loadLeaf t (primEncode id true (nn.map Val.primBytes))
        (F.count true + (primEncode id true (nn.map Val.primBytes)).len) b = some v ∧
      vecType v = t ∧ SlotSpec v F nn :=
  loadLeaf_spec t id nn b F hR hcnt hprim hE hnull

/-- **vng_roundtrip_vectors_partial.**  Guard `seqOK vs` (Model/VecGuard.lean): for every
    top-level type of the object, the column is outside the recorded defect classes — no enum
    column, no union column with a null slot (a null union value, or a union below a record
    column that contains a null), no error-typed column below a record column that contains a
    null.  Then for EVERY sequence of well-formed typed values — any number of top-level
    types interleaved in any order, records / arrays / sets / maps / unions / named / error
    types nested arbitrarily, nulls at every level, any of the plain / dictionary / const
    encodings — loading the object through the vector cache and materialising it yields the
    identical sequence in the original order.

    Full statement (no guard) — FALSE of the current code: `not_vng_roundtrip_vectors`. -/
theorem vng_roundtrip_vectors_partial (vs : List (Ty × Val))
    (hconf : ∀ p ∈ vs, conforms p.1 p.2 = true) (hok : seqOK vs = true) :
    readVec [] (encTop vs) = some vs :=
  readVec_encTop vs hconf hok

/-- the same for one column (`okV t vs false`: the guard for a top-level column), with the
    slot-wise statement. -/
theorem vng_roundtrip_vectors_column (t : Ty) (vs : List Val)
    (hconf : ∀ v ∈ vs, conforms t v = true) (hok : okV t vs false = true) :
    ∃ v, load (enc t vs) none 0 none = some v ∧ vecType v = t ∧ v.len = vs.length ∧
      (∀ i, i < vs.length → serialize v i = vs[i]?) ∧
      materialize v = some (vs.map fun x => (t, x)) := by
  obtain ⟨v, h1, h2, h3, _, _, h4, h5⟩ := load_top_all t vs hconf hok
  exact ⟨v, h1, h2, h3, h4, h5⟩

/-- … and below a chain of enclosing records whose flattened nulls are `Fp`: every child
    column's nulls are convolved with those of all enclosing records (`LoadSpecG`). -/
theorem vng_vectors_under_parent (t : Ty) : LoadSpecG t :=
  loadSpec_all t

/-- data-independent corollary: for types built from primitive types, records and named
    types the guard always holds. -/
theorem vng_roundtrip_vectors_flat (t : Ty) (hflat : flatTy t = true) (vs : List Val)
    (hconf : ∀ v ∈ vs, conforms t v = true) :
    ∃ v, load (enc t vs) none 0 none = some v ∧ vecType v = t ∧ v.len = vs.length ∧
      (∀ i, i < vs.length → serialize v i = vs[i]?) ∧
      materialize v = some (vs.map fun x => (t, x)) :=
  load_top_flat t hflat vs hconf

-- non-vacuity of the guard: arrays of records, a map, a union without null slots, an error
example : seqOK
    [(.array (.record (.cons [120] (.prim 9) .nil)), .cont (.cons (.cont (.cons (.prim [2]) .nil)) (.cons .null .nil))),
     (.map (.prim 25) (.prim 9), .cont (.cons (.prim [107]) (.cons .null .nil))),
     (.array (.record (.cons [120] (.prim 9) .nil)), .null),
     (.union (.cons (.prim 9) (.cons (.prim 25) .nil)), .union 1 (.prim [115])),
     (.error (.prim 25), .prim [101])] = true := by decide

-- non-vacuity: a nested record type with a named field is in the fragment; a concrete run
example : flatTy (.record (.cons [97] (.prim 9) (.cons [114] (.record (.cons [120] (.named [110] (.prim 25)) .nil)) .nil))) = true := by decide
example : readVec [] (encTop
    [(.record (.cons [97] (.prim 9) .nil), .cont (.cons (.prim [2]) .nil)), (.record (.cons [97] (.prim 9) .nil), .null),
     (.record (.cons [97] (.prim 9) .nil), .cont (.cons .null .nil))]) =
    some [(.record (.cons [97] (.prim 9) .nil), .cont (.cons (.prim [2]) .nil)), (.record (.cons [97] (.prim 9) .nil), .null),
     (.record (.cons [97] (.prim 9) .nil), .cont (.cons .null .nil))] := by decide

/-- **not_vng_roundtrip_vectors**: the vector path fails (error or panic) on an enum column,
    on a union column with a null slot and on an error-typed field below a record column that
    contains a null.  (A net column in plain encoding failed too until /repo 496cea1e9; it is
    now covered by `vec_leaf_correct` / `vng_roundtrip_vectors_partial`.)  (The harness replays the
    same witnesses on the real code.) -/
theorem not_vng_roundtrip_vectors :
    -- enum a|b: values 0, 1
    readVec [] (encTop [(.enum [[97], [98]], .prim []), (.enum [[97], [98]], .prim [1])]) = none ∧
    -- {u:null} {u:7((int64,string))}
    readVec [] (encTop
      [(.record (.cons [117] (.union (.cons (.prim 9) (.cons (.prim 25) .nil))) .nil), .cont (.cons .null .nil)),
       (.record (.cons [117] (.union (.cons (.prim 9) (.cons (.prim 25) .nil))) .nil), .cont (.cons (.union 0 (.prim [14])) .nil))]) = none ∧
    -- null {e:error(1)} {e:error(2)}
    readVec [] (encTop
      [(.record (.cons [101] (.error (.prim 9)) .nil), .null),
       (.record (.cons [101] (.error (.prim 9)) .nil), .cont (.cons (.prim [2]) .nil)),
       (.record (.cons [101] (.error (.prim 9)) .nil), .cont (.cons (.prim [4]) .nil))]) = none := by
  decide

/-- **load_total — FALSE**: the writer stores every non-container type as a primitive column,
    enum included, and the loader has no enum case (`loadVals` falls through to an error,
    `loadDict` and `empty` panic). -/
theorem not_load_total :
    "TypeEnum" ∉ loadValsCases.map (·.1) ∧ loadValsFallthrough = "error" ∧
    "TypeEnum" ∉ loadDictCases ∧ loadDictDefault = "panic" ∧
    "TypeEnum" ∉ emptyCases ∧ emptyDefault = "panic" := by decide

/-- … and what does hold: every primitive type `LookupPrimitiveByID` implements has a case in
    `loadVals` and `empty`, every one that can be dictionary encoded (not in the 8-bit
    exclusion list, not the null type) has a case in `loadDict`, and EVERY case of `loadVals`
    allocates its slice before indexing it (the `net` case since /repo 496cea1e9). -/
theorem load_total_partial :
    (∀ p ∈ primitiveTypes, p.2 ∈ loadValsCases.map (·.1) ∧ p.2 ∈ emptyCases) ∧
    (∀ p ∈ primitiveTypes, p.1 ∉ dictExcludedIDs → p.1 ≠ 29 → p.2 ∈ loadDictCases) ∧
    (∀ c ∈ loadValsCases, c.2 = "alloc") ∧ netAllocated = true := by decide

-- a net leaf stored plain loads (it returned `none`, i.e. panicked, before the fix)
example : (loadLeaf (.prim 27) (.plain [[10, 0, 0, 0, 24]] 1) 1 none).isSome = true := by decide

/-- the recursive walks of the loader handle every node kind `newShadow` builds. -/
theorem loader_walks_total :
    loadVectorCases = fetchNullsCases ∧ loadVectorCases = flattenNullsCases ∧
    loadVectorCases = projectCases ∧ loadVectorCases.length = newShadowCases.length - 1 := by decide

/-! ## Projection -/

/-- **projection_sound_partial.**  Guard `okV t vs false` (the column is outside the defect
    classes above).  For every set of field paths (`mkProj` is `vcache.NewProjection`, with the
    code's path-tree insertion) and every list of well-formed values of ANY type, the
    projection of the loaded vectors has the projected type and yields, slot by slot, exactly
    the data of the written value at the requested paths (`projVal` / `restrict`: selected
    fields in path order, nested paths, `error("missing")` for absent paths and for leaves,
    null for a null record, arrays / sets / maps / unions whole).

    Full statement — FALSE of the current code: `not_projection_sound` (the loader, not the
    projection, leaves a nil vector behind when a record below a container is projected). -/
theorem projection_sound_partial (paths : List (List Bytes)) (t : Ty) (vs : List Val)
    (hconf : ∀ v ∈ vs, conforms t v = true) (hok : okV t vs false = true) :
    ∃ v, load (enc t vs) none 0 none = some v ∧
      vecType (projVec (mkProj paths) v) = projTy (mkProj paths) t ∧
      (∀ i, i < vs.length →
        serialize (projVec (mkProj paths) v) i = (vs[i]?).map (projVal (mkProj paths) t)) ∧
      materialize (projVec (mkProj paths) v) = some (vs.map fun x => restrict paths (t, x)) :=
  projection_sound_all paths t vs hconf hok

/-- … through `Object.Fetch(paths)` + `Materializer`, when the projection does not hit the
    partial-load defect (`projCrashes`, see `not_projection_sound`). -/
theorem projection_read_partial (paths : List (List Bytes)) (t : Ty) (vs : List Val)
    (hconf : ∀ v ∈ vs, conforms t v = true) (hok : okV t vs false = true)
    (hpc : projCrashes (mkProj paths) (enc t vs) = false) :
    readVec paths (.single (enc t vs)) = some (vs.map fun x => restrict paths (t, x)) :=
  readVec_single paths t vs hconf hok hpc

/-- **not_projection_sound**: a record below an array / set / map / union is loaded only at
    the projected fields but rebuilt with all of them: projecting `x` out of `[{x:1,y:2}]`
    dereferences the nil vector of `y`. -/
theorem not_projection_sound :
    projCrashes (mkProj [[[120]]])
      (enc (.array (.record (.cons [120] (.prim 9) (.cons [121] (.prim 9) .nil))))
        [.cont (.cons (.cont (.cons (.prim [2]) (.cons (.prim [4]) .nil))) .nil)]) = true := by decide

/-- the specification of a projection on a concrete value: present, nested, absent paths. -/
example : restrict [[[97]], [[114], [120]], [[122]]]
    (.record (.cons [97] (.prim 9) (.cons [98] (.prim 9) (.cons [114] (.record (.cons [120] (.prim 25) (.cons [121] (.prim 25) .nil))) .nil))),
     .cont (.cons (.prim [2]) (.cons (.prim [4]) (.cons (.cont (.cons (.prim [113]) (.cons (.prim [119]) .nil))) .nil)))) =
    (.record (.cons [97] (.prim 9) (.cons [114] (.record (.cons [120] (.prim 25) .nil)) (.cons [122] (.error (.prim 25)) .nil))),
     .cont (.cons (.prim [2]) (.cons (.cont (.cons (.prim [113]) .nil)) (.cons (.prim [109, 105, 115, 115, 105, 110, 103]) .nil)))) := by decide

end Zed.Props.C03
