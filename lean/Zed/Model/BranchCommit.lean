/-
  L5 — the labelled transition system: system state = (store, per-client procedure + caches),
  one `step c` transition = one storage operation of client c.  `start c …` begins a
  procedure (no storage operation).  A crash is a client that is never stepped again; recovery is
  a fresh client id (empty caches).

  Procedures:
    jp       journal.Store.load / Insert / Move / Delete on journal j with the cache in `slot`
    bc       lake.Branch.commit: lookup tip → build object against tip → Put commit object →
             branches.Update with parent check → on failure Delete the object, on ErrConstraint retry
    create   journal.Create for a fresh pool directory: Put HEAD 0, Put TAIL (1,0)
    openJ    journal.Open: Get HEAD
    delPool  DeleteByPrefix(<pool dir>)
  `update` entries and commit objects are written by `bc` only (a raw `start … commit (update …)`
  is refused), which is the discipline of the code: branches.Update is only called from
  Branch.commit.  `bc` runs on pool journals only (j ≥ 1; j = 0 is the lake-level pools journal).
-/
import Zed.Model.JournalQueue
namespace Zed.Store

/-- `lake.maxCommitRetries` (regenerated from the source, T1). -/
def maxCommitRetries : Nat := Zed.Generated.C12.maxCommitRetries

/-- Parameters of one `Branch.commit` call: pool (= its branches journal), cache slot, branch
    key, and the constructor: objects to add / to delete (checked against the tip's snapshot). -/
structure BC where
  pool : Nat
  slot : Nat
  branch : Nat
  adds : List Nat
  dels : List Nat
  retries : Nat
  deriving DecidableEq, Repr

inductive BPhase where
  | lookup (pc : JPc)                               -- branches.LookupByName → Store.All → load
  | putObj (tip id : Nat)                           -- commits.Put
  | update (tip id : Nat) (attempt : Nat) (pc : JPc)  -- branches.Update(parentCheck)
  | cleanup (id : Nat) (err : Res)                  -- commits.Remove after a failed update
  deriving DecidableEq, Repr

inductive Proc where
  | jp (j slot : Nat) (k : JKind) (pc : JPc)
  | bc (b : BC) (ph : BPhase)
  | create (j : Nat) (stage : Nat)
  | openJ (j : Nat)
  | delPool (p : Nat)
  deriving DecidableEq, Repr

structure Client where
  proc : Option Proc
  cache : Nat → Nat → JCache      -- journal → slot → journal.Store cache
  res : Option Res                -- result of the last finished procedure

def Client.idle : Client := ⟨none, fun _ _ => JCache.empty, none⟩

def Client.setCache (c : Client) (j slot : Nat) (jc : JCache) : Client :=
  { c with cache := fun j' s' => if j' = j ∧ s' = slot then jc else c.cache j' s' }

/-- Ghost record of an acknowledged branch commit. -/
structure Ack where
  client : Nat
  pool : Nat
  branch : Nat
  id : Nat
  deriving DecidableEq, Repr

structure Sys where
  store : Store
  cl : Nat → Client
  next : Nat                 -- fresh ids (pool ids and commit ids; models KSUID freshness)
  acks : List Ack            -- ghost: acknowledged branch commits, newest first
  failed : List (Nat × Nat)  -- ghost: (pool, commit id) of branch-commit attempts that were given up

def Sys.setClient (s : Sys) (c : Nat) (x : Client) : Sys :=
  { s with cl := fun c' => if c' = c then x else s.cl c' }

inductive Start where
  | load (j slot : Nat)
  | commit (j slot : Nat) (op : JOp)
  | bcommit (pool slot branch : Nat) (adds dels : List Nat)
  | create
  | openJ (j : Nat)
  | delPool (p : Nat)
  | resetSlot (j slot : Nat)
  deriving DecidableEq, Repr

inductive Label where
  | start (c : Nat) (st : Start)
  | step (c : Nat)
  | truncSnap (j : Nat)     -- snap.zng of journal j is truncated (first half of a create-then-fill put)
  deriving DecidableEq, Repr

def JOp.isUpdate : JOp → Bool
  | .update .. => true
  | _ => false

/-- A branch can only be created at the Nil commit or at a commit id learned from an
    acknowledged commit of that pool (commit ids are KSUIDs: they cannot be guessed, in
    particular not the id of a commit that is still being written). -/
def startOK (s : Sys) (j : Nat) : JOp → Bool
  | .update .. => false
  | .insert _ v => j == 0 || v == 0 || s.acks.any fun a => a.pool == j && a.id == v
  | _ => true

/-- Begin a procedure (enabled only when the client has none running). -/
def Sys.start (s : Sys) (c : Nat) (st : Start) : Sys :=
  let x := s.cl c
  match x.proc with
  | some _ => s
  | none =>
    match st with
    | .load j slot => s.setClient c { x with proc := some (.jp j slot .load .rdHead), res := none }
    | .commit j slot op =>
      if startOK s j op then
        s.setClient c { x with proc := some (.jp j slot (.commit op 0) .rdHead), res := none }
      else s
    | .bcommit pool slot branch adds dels =>
      if pool = 0 then s
      else s.setClient c { x with proc := some (.bc ⟨pool, slot, branch, adds, dels, 0⟩ (.lookup .rdHead)), res := none }
    | .create =>
      { (s.setClient c { x with proc := some (.create s.next 0), res := none }) with next := s.next + 1 }
    | .openJ j => s.setClient c { x with proc := some (.openJ j), res := none }
    | .delPool p => if p = 0 then s else s.setClient c { x with proc := some (.delPool p), res := none }
    | .resetSlot j slot => s.setClient c (x.setCache j slot JCache.empty)

/-- The commit constructor (`create(parent, retries)`): adds never fail; deletes are looked up in
    the snapshot of the tip (`snap.Lookup(id)`). -/
def buildOk (s : Store) (b : BC) (tip : Nat) : Bool :=
  match b.dels with
  | [] => true
  | ds => match snapshot s b.pool tip with
    | some snap => ds.all fun d => snap.contains d
    | none => false

/-- After the tip lookup's load has finished with table `t`. -/
def bcAfterLookup (s : Sys) (c : Nat) (x : Client) (b : BC) (r : Res) (t : Table) : Sys :=
  match r, t.get b.branch with
  | .ok, some tip =>
    if buildOk s.store b tip then
      { (s.setClient c { x with proc := some (.bc b (.putObj tip s.next)) }) with next := s.next + 1 }
    else s.setClient c { x with proc := none, res := some .buildErr }
  | _, _ => s.setClient c { x with proc := none, res := some .notFound }

/-- One storage operation of client c. -/
def Sys.step (s : Sys) (c : Nat) : Sys × Option Ev :=
  let x := s.cl c
  match x.proc with
  | none => (s, none)
  | some (.jp j slot k pc) =>
    match jstep s.store j (x.cache j slot) k pc with
    | .cont st jc k' pc' ev =>
      ({ s with store := st }.setClient c ({ x with proc := some (.jp j slot k' pc') }.setCache j slot jc), some ev)
    | .done st jc r ev =>
      ({ s with store := st }.setClient c ({ x with proc := none, res := some r }.setCache j slot jc), some ev)
  | some (.bc b (.lookup pc)) =>
    match jstep s.store b.pool (x.cache b.pool b.slot) .load pc with
    | .cont st jc _ pc' ev =>
      ({ s with store := st }.setClient c ({ x with proc := some (.bc b (.lookup pc')) }.setCache b.pool b.slot jc), some ev)
    | .done st jc r ev =>
      let x' := x.setCache b.pool b.slot jc
      (bcAfterLookup { s with store := st } c x' b r jc.table, some ev)
  | some (.bc b (.putObj tip id)) =>
    let v := SVal.commit tip b.adds b.dels
    ({ s with store := s.store.put (.cobj b.pool id) v }.setClient c
        { x with proc := some (.bc b (.update tip id 0 .rdHead)) },
     some ⟨.put, .cobj b.pool id, .ok, some v⟩)
  | some (.bc b (.update tip id attempt pc)) =>
    match jstep s.store b.pool (x.cache b.pool b.slot) (.commit (.update b.branch tip id) attempt) pc with
    | .cont st jc k' pc' ev =>
      let attempt' := match k' with | .commit _ a => a | .load => attempt
      ({ s with store := st }.setClient c ({ x with proc := some (.bc b (.update tip id attempt' pc')) }.setCache b.pool b.slot jc), some ev)
    | .done st jc r ev =>
      let x' := x.setCache b.pool b.slot jc
      match r with
      | .ok =>
        ({ s with store := st, acks := ⟨c, b.pool, b.branch, id⟩ :: s.acks }.setClient c
            { x' with proc := none, res := some (.committed id) }, some ev)
      | err => ({ s with store := st }.setClient c { x' with proc := some (.bc b (.cleanup id err)) }, some ev)
  | some (.bc b (.cleanup id err)) =>
    let ev : Ev := match s.store (.cobj b.pool id) with
      | some _ => ⟨.del, .cobj b.pool id, .ok, none⟩
      | none => ⟨.del, .cobj b.pool id, .notfound, none⟩
    let s1 := { s with store := s.store.del (.cobj b.pool id), failed := (b.pool, id) :: s.failed }
    if err = .constraint then
      -- `if rmerr != nil { return ksuid.Nil, rmerr }`: the object is gone (its pool was removed)
      if (s.store (.cobj b.pool id)).isNone then (s1.setClient c { x with proc := none, res := some .io }, some ev)
      else if b.retries + 1 < maxCommitRetries then
        (s1.setClient c { x with proc := some (.bc { b with retries := b.retries + 1 } (.lookup .rdHead)) }, some ev)
      else (s1.setClient c { x with proc := none, res := some .commitFailed }, some ev)
    else (s1.setClient c { x with proc := none, res := some err }, some ev)
  | some (.create j stage) =>
    if stage = 0 then
      let v := SVal.num 0
      ({ s with store := s.store.put (.head j) v }.setClient c { x with proc := some (.create j 1) },
       some ⟨.put, .head j, .ok, some v⟩)
    else
      let v := SVal.tailv 1 0
      ({ s with store := s.store.put (.tail j) v }.setClient c { x with proc := none, res := some (.created j) },
       some ⟨.put, .tail j, .ok, some v⟩)
  | some (.openJ j) =>
    let ev := getEv s.store (.head j)
    let r : Res := match s.store (.head j) with
      | some (.num _) => .ok
      | _ => .io
    (s.setClient c { x with proc := none, res := some r }, some ev)
  | some (.delPool p) =>
    ({ s with store := s.store.delPool p }.setClient c { x with proc := none, res := some .ok },
     some ⟨.delp, .head p, .ok, none⟩)

def Sys.exec (s : Sys) : Label → Sys
  | .start c st => s.start c st
  | .step c => (s.step c).1
  | .truncSnap j => { s with store := s.store.del (.snap j) }

def Sys.run (s : Sys) : List Label → Sys
  | [] => s
  | l :: ls => (s.exec l).run ls

/-- A freshly created lake: the `pools/` journal exists and is empty (lake.Create). -/
def Sys.init : Sys :=
  { store := (Store.empty.put (.head 0) (.num 0)).put (.tail 0) (.tailv 1 0),
    cl := fun _ => Client.idle, next := 1, acks := [], failed := [] }

end Zed.Store
