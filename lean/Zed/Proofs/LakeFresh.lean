/-
  Invariants of every snapshot of every commit store (`snapAt_all'`: induction along the
  fold `Store.Snapshot` computes): distinct object ids, ids below the id counter; the
  freshness invariant `Good` of the pool state and its preservation by the operations of C14.
-/
import Zed.Proofs.LakeCompact
namespace Zed.Lake
variable {K : Type}

theorem playAction_nodup (s s' : Snap K) (a : Action K) (h : playAction s a = .ok s')
    (hn : (s.objs.map (·.id)).Nodup) : (s'.objs.map (·.id)).Nodup := by
  cases a with
  | add o =>
    obtain ⟨h1, h2⟩ := addObj_ok s s' o h
    rw [h2]; exact nodup_ids_append s o hn h1
  | del x =>
    rw [(delObj_ok s s' x h).2]; exact nodup_ids_filter s x hn
  | addVec v =>
    simp only [playAction, Snap.addVec] at h
    split at h <;> first | (cases h; exact hn) | cases h
  | delVec v =>
    simp only [playAction, Snap.delVec] at h
    split at h <;> first | (cases h; exact hn) | cases h

theorem play_nodup (s s' : Snap K) (as : List (Action K)) (h : play s as = .ok s')
    (hn : (s.objs.map (·.id)).Nodup) : (s'.objs.map (·.id)).Nodup := by
  induction as generalizing s with
  | nil => simp only [play, Except.ok.injEq] at h; subst h; exact hn
  | cons a as ih =>
    simp only [play] at h
    cases ha : playAction s a with
    | error e => simp [ha] at h
    | ok s1 => simp only [ha] at h; exact ih s1 h (playAction_nodup s s1 a ha hn)

/-- a property of snapshots that holds of the empty snapshot and is preserved by `play` holds
    of every snapshot of every commit store -/
theorem snapsOf_all (P : Snap K → Prop) (h0 : P Snap.empty)
    (hplay : ∀ s s' as, play s as = .ok s' → P s → P s')
    (cs : List (Commit K)) : ∀ r ∈ snapsOf cs, ∀ snap, r = .ok snap → P snap := by
  unfold snapsOf
  suffices H : ∀ acc : List (Except Err (Snap K)), (∀ r ∈ acc, ∀ snap, r = .ok snap → P snap) →
      ∀ r ∈ cs.foldl stepSnaps acc, ∀ snap, r = .ok snap → P snap from H [] (by simp)
  induction cs with
  | nil => intro acc h; simpa using h
  | cons c cs ih =>
    intro acc hacc
    simp only [List.foldl_cons]
    apply ih
    intro r hr snap hsnap
    simp only [stepSnaps, List.mem_append, List.mem_singleton] at hr
    rcases hr with hr | hr
    · exact hacc r hr snap hsnap
    · subst hr
      unfold commitSnap at hsnap
      cases hp : parentSnap acc c.parent with
      | error e => simp [hp] at hsnap
      | ok ps =>
        simp only [hp] at hsnap
        have hps : P ps := by
          unfold parentSnap at hp
          split at hp
          · cases hp; exact h0
          · split at hp
            · rename_i r' hg
              exact hacc r' (List.mem_of_getElem? hg) ps hp
            · cases hp
        exact hplay ps snap c.acts hsnap hps

theorem snapAt_all (P : Snap K → Prop) (h0 : P Snap.empty)
    (hplay : ∀ s s' as, play s as = .ok s' → P s → P s')
    (cs : List (Commit K)) (c : Nat) (snap : Snap K) (h : snapAt cs c = .ok snap) : P snap := by
  unfold snapAt parentSnap at h
  split at h
  · cases h; exact h0
  · split at h
    · rename_i r hg
      exact snapsOf_all P h0 hplay cs r (List.mem_of_getElem? hg) snap h
    · cases h

/-- object ids are distinct in every snapshot (the discipline of `Snapshot.AddDataObject`) -/
theorem snapAt_nodup (cs : List (Commit K)) (c : Nat) (snap : Snap K) (h : snapAt cs c = .ok snap) :
    (snap.objs.map (·.id)).Nodup :=
  snapAt_all (fun s => (s.objs.map (·.id)).Nodup) (by simp [Snap.empty])
    (fun s s' as hp hn => play_nodup s s' as hp hn) cs c snap h
end Zed.Lake

namespace Zed.Lake
variable {K V : Type}

/-- a property of snapshots that holds of the empty snapshot and is preserved by playing the
    actions of any commit of the store holds of every snapshot of the store -/
theorem snapsOf_all' (P : Snap K → Prop) (h0 : P Snap.empty) (cs : List (Commit K))
    (hplay : ∀ c ∈ cs, ∀ s s', play s c.acts = .ok s' → P s → P s') :
    ∀ r ∈ snapsOf cs, ∀ snap, r = .ok snap → P snap := by
  unfold snapsOf
  suffices H : ∀ (l : List (Commit K)) (acc : List (Except Err (Snap K))),
      (∀ c ∈ l, ∀ s s', play s c.acts = .ok s' → P s → P s') →
      (∀ r ∈ acc, ∀ snap, r = .ok snap → P snap) →
      ∀ r ∈ l.foldl stepSnaps acc, ∀ snap, r = .ok snap → P snap from H cs [] hplay (by simp)
  intro l
  induction l with
  | nil => intro acc _ h; simpa using h
  | cons c cs ih =>
    intro acc hpl hacc
    simp only [List.foldl_cons]
    apply ih _ (fun c' hc' => hpl c' (by simp [hc']))
    intro r hr snap hsnap
    simp only [stepSnaps, List.mem_append, List.mem_singleton] at hr
    rcases hr with hr | hr
    · exact hacc r hr snap hsnap
    · subst hr
      unfold commitSnap at hsnap
      cases hp : parentSnap acc c.parent with
      | error e => simp [hp] at hsnap
      | ok ps =>
        simp only [hp] at hsnap
        have hps : P ps := by
          unfold parentSnap at hp
          split at hp
          · cases hp; exact h0
          · split at hp
            · rename_i r' hg
              exact hacc r' (List.mem_of_getElem? hg) ps hp
            · cases hp
        exact hpl c (by simp) ps snap hsnap hps

theorem snapAt_all' (P : Snap K → Prop) (h0 : P Snap.empty) (cs : List (Commit K))
    (hplay : ∀ c ∈ cs, ∀ s s', play s c.acts = .ok s' → P s → P s')
    (c : Nat) (snap : Snap K) (h : snapAt cs c = .ok snap) : P snap := by
  unfold snapAt parentSnap at h
  split at h
  · cases h; exact h0
  · split at h
    · rename_i r hg
      exact snapsOf_all' P h0 cs hplay r (List.mem_of_getElem? hg) snap h
    · cases h

def actBelow (n : Nat) : Action K → Prop
  | .add o => o.id < n
  | .addVec v => v < n
  | _ => True

def ActsBelow (n : Nat) (acts : List (Action K)) : Prop := ∀ a ∈ acts, actBelow n a

def Below (n : Nat) (s : Snap K) : Prop := (∀ o ∈ s.objs, o.id < n) ∧ (∀ v ∈ s.vecs, v < n)

theorem playAction_below (n : Nat) (s s' : Snap K) (a : Action K) (h : playAction s a = .ok s')
    (hb : Below n s) (ha : actBelow n a) : Below n s' := by
  cases a with
  | add o =>
    rw [(addObj_ok s s' o h).2]
    refine ⟨?_, hb.2⟩
    intro o' ho'
    simp only [List.mem_append, List.mem_singleton] at ho'
    rcases ho' with h1 | h1
    · exact hb.1 o' h1
    · subst h1; exact ha
  | del x =>
    rw [(delObj_ok s s' x h).2]
    exact ⟨fun o ho => hb.1 o (List.mem_filter.mp ho).1, hb.2⟩
  | addVec v =>
    simp only [playAction, Snap.addVec] at h
    split at h
    · cases h
    · cases h
      refine ⟨hb.1, ?_⟩
      intro v' hv'
      simp only [List.mem_append, List.mem_singleton] at hv'
      rcases hv' with h1 | h1
      · exact hb.2 v' h1
      · subst h1; exact ha
  | delVec v =>
    simp only [playAction, Snap.delVec] at h
    split at h
    · cases h
      exact ⟨hb.1, fun v' hv' => hb.2 v' (List.mem_filter.mp hv').1⟩
    · cases h

theorem play_below (n : Nat) (s s' : Snap K) (as : List (Action K)) (h : play s as = .ok s')
    (hb : Below n s) (ha : ActsBelow n as) : Below n s' := by
  induction as generalizing s with
  | nil => simp only [play, Except.ok.injEq] at h; subst h; exact hb
  | cons a as ih =>
    simp only [play] at h
    cases hpa : playAction s a with
    | error e => simp [hpa] at h
    | ok s1 =>
      simp only [hpa] at h
      exact ih s1 h (playAction_below n s s1 a hpa hb (ha a (by simp))) (fun a' ha' => ha a' (by simp [ha']))

/-- freshness invariant of the pool state: every data object file and every id mentioned in
    an `Add` / `AddVector` action is below the id counter (KSUIDs are never reused) -/
structure Good (s : State K V) : Prop where
  files : ∀ f ∈ s.files, f.1 < s.nextObj
  acts : ∀ c ∈ s.commits, ActsBelow s.nextObj c.acts

theorem Good.init : Good ({} : State K V) := ⟨by simp, by simp⟩

theorem Good.snap (s : State K V) (g : Good s) (c : Nat) (snap : Snap K) (h : snapAt s.commits c = .ok snap) :
    Below s.nextObj snap :=
  snapAt_all' (Below s.nextObj) ⟨by simp [Snap.empty], by simp [Snap.empty]⟩ s.commits
    (fun c hc st st' hp hb => play_below _ st st' c.acts hp hb (g.acts c hc)) c snap h

theorem actsBelow_mono (n m : Nat) (h : n ≤ m) (acts : List (Action K)) (ha : ActsBelow n acts) : ActsBelow m acts := by
  intro a hm
  have := ha a hm
  cases a <;> simp only [actBelow] at * <;> omega

theorem Good.commit (s s1 : State K V) (g : Good s) (b t : Nat) (acts : List (Action K))
    (hc : s1.commits = s.commits) (hn : s.nextObj ≤ s1.nextObj) (hf : ∀ f ∈ s1.files, f.1 < s1.nextObj)
    (ha : ActsBelow s1.nextObj acts) : Good (s1.commit b t acts) := by
  refine ⟨by rw [commit_files, commit_nextObj]; exact hf, ?_⟩
  intro c hcm
  rw [commit_commits, hc] at hcm
  rw [commit_nextObj]
  simp only [List.mem_append, List.mem_singleton] at hcm
  rcases hcm with h | h
  · exact actsBelow_mono _ _ hn _ (g.acts c h)
  · subst h; exact ha
end Zed.Lake

namespace Zed.Lake
variable {K V : Type} [DecidableEq V]

theorem written_good (cfg : Cfg K V) (s s1 : State K V) (objs : List (Obj K)) (parts : List (List V))
    (g : Good s) (w : Written cfg s s1 objs parts) : ∀ f ∈ s1.files, f.1 < s1.nextObj := by
  obtain ⟨e, he, hee⟩ := w.ext
  intro f hf
  rw [he] at hf
  simp only [List.mem_append] at hf
  rcases hf with h | h
  · have := g.files f h; have := w.next; omega
  · exact (hee f h).2

theorem load_good (cfg : Cfg K V) (s s' : State K V) (b : Nat) (vals : List V) (parts : List (List V))
    (g : Good s) (h : load cfg s b vals parts = .ok s') : Good s' := by
  unfold load at h
  split at h
  · cases h
  · split at h
    · cases h
    · split at h
      · cases h
      · have w := writeObjs_spec cfg s parts g.files
        cases hw : writeObjs cfg s parts with
        | mk s1 objs =>
          rw [hw] at h w
          simp only [] at h w
          cases h
          have hc1 : s1.commits = s.commits := by
            have := writeObjs_commits cfg s parts; rw [hw] at this; exact this
          apply Good.commit s s1 g _ _ _ hc1 w.next (written_good cfg s s1 objs parts g w)
          intro a ha
          obtain ⟨o, ho, hoa⟩ := List.mem_map.mp ha
          subst hoa
          exact (w.ids o ho).2

omit [DecidableEq V] in
theorem delete_good (s s' : State K V) (b : Nat) (ids : List Nat) (g : Good s)
    (h : delete s b ids = .ok s') : Good s' := by
  unfold delete at h
  opsplit h
  apply Good.commit s s g _ _ _ rfl (Nat.le_refl _) g.files
  intro a ha
  obtain ⟨i, _, hia⟩ := List.mem_map.mp ha
  subst hia; trivial

theorem compact_good (cfg : Cfg K V) (s s' : State K V) (b : Nat) (ids : List Nat) (vec : Bool)
    (parts : List (List V)) (g : Good s) (h : compact cfg s b ids vec parts = .ok s') : Good s' := by
  unfold compact at h
  split at h
  · cases h
  · split at h
    · cases h
    · rename_i t ht
      cases hs : snapAt s.commits t with
      | error e => simp [hs] at h
      | ok snap =>
      simp only [hs] at h
      split at h
      · cases h
      · split at h
        · cases h
        · split at h
          · cases h
          · have w := writeObjs_spec cfg s parts g.files
            cases hw : writeObjs cfg s parts with
            | mk s1 objs =>
              rw [hw] at h w
              simp only [] at h w
              split at h
              · cases h
              · rename_i p1 hp1
                split at h
                · cases h
                · rename_i p2 hp2
                  split at h
                  · cases h
                  · rename_i p3 hp3
                    cases h
                    have e1 := addAll_spec _ _ _ hp1
                    have e2 := addVecAll_spec _ _ _ hp2
                    have hb := (Good.snap s g _ snap hs)
                    have e3 := delAll_spec p2 p3 _ (by
                      intro id hid
                      rw [e2, e1]
                      simp only [Patch.new, Snap.hasObj, List.nil_append]
                      rw [List.any_eq_false]
                      intro o ho hc
                      have h1 := (w.ids o ho).1
                      obtain ⟨o', ho', hoid'⟩ := List.mem_map.mp hid
                      have h2 := hb.1 o' (List.mem_filter.mp ho').1
                      have : o.id = id := by simpa using hc
                      omega) hp3
                    have hc1 : s1.commits = s.commits := by
                      have := writeObjs_commits cfg s parts; rw [hw] at this; exact this
                    apply Good.commit s s1 g _ _ _ hc1 w.next (written_good cfg s s1 objs parts g w)
                    rw [e3, e2, e1]
                    intro a ha
                    simp only [Patch.commitActions, Patch.new, List.nil_append, List.map_nil, List.append_nil,
                      List.mem_append, List.mem_map] at ha
                    rcases ha with ((⟨i, _, h⟩ | ⟨o, ho, h⟩) | ⟨v, hv, h⟩)
                    · subst h; trivial
                    · subst h; exact (w.ids o ho).2
                    · subst h
                      split at hv
                      · obtain ⟨o, ho, hov⟩ := List.mem_map.mp hv
                        rw [← hov]; exact (w.ids o ho).2
                      · simp at hv

omit [DecidableEq V] in
theorem checkIds_none (f : Nat → Option Err) (ids : List Nat) (h : checkIds f ids = none) :
    ∀ i ∈ ids, f i = none := by
  induction ids with
  | nil => simp
  | cons x xs ih =>
    simp only [checkIds] at h
    cases hx : f x with
    | some e => simp [hx] at h
    | none =>
      simp only [hx] at h
      intro i hi
      simp only [List.mem_cons] at hi
      rcases hi with h1 | h1
      · subst h1; exact hx
      · exact ih h i h1

omit [DecidableEq V] in
theorem addVectors_good (s s' : State K V) (b : Nat) (ids : List Nat) (g : Good s)
    (h : addVectors s b ids = .ok s') : Good s' := by
  unfold addVectors at h
  split at h
  · cases h
  · split at h
    · cases h
    · split at h
      · cases h
      · rename_i t _ _ snap hs
        split at h
        · cases h
        · rename_i hchk
          cases h
          apply Good.commit s s g _ _ _ rfl (Nat.le_refl _) g.files
          intro a ha
          obtain ⟨i, hi, hia⟩ := List.mem_map.mp ha
          subst hia
          -- every id passed the check `snap.hasObj i`
          have hb := Good.snap s g _ snap hs
          have : snap.hasObj i = true := by
            have := checkIds_none _ ids hchk i hi
            cases hh : snap.hasObj i with
            | true => rfl
            | false => simp [hh] at this
          exact hasObj_lt snap _ _ hb.1 this

omit [DecidableEq V] in
theorem deleteVectors_good (s s' : State K V) (b : Nat) (ids : List Nat) (g : Good s)
    (h : deleteVectors s b ids = .ok s') : Good s' := by
  unfold deleteVectors at h
  opsplit h
  apply Good.commit s s g _ _ _ rfl (Nat.le_refl _) g.files
  intro a ha
  obtain ⟨i, _, hia⟩ := List.mem_map.mp ha
  subst hia; trivial

omit [DecidableEq V] in
theorem vacuum_good (s s' : State K V) (c : Nat) (g : Good s) (h : vacuum s c = .ok s') : Good s' := by
  obtain ⟨hc, ids, _, hf⟩ := vacuum_spec s s' c h
  have hn : s'.nextObj = s.nextObj := by
    unfold vacuum at h
    split at h <;> first | (cases h; rfl) | cases h
  refine ⟨?_, by rw [hc, hn]; exact g.acts⟩
  intro f hfm
  rw [hf] at hfm
  rw [hn]; exact g.files f (List.mem_filter.mp hfm).1

omit [DecidableEq V] in
theorem createBranch_good (s s' : State K V) (n p : Nat) (g : Good s) (h : createBranch s n p = .ok s') : Good s' := by
  unfold createBranch at h
  opsplit h
  exact ⟨g.files, g.acts⟩

/-- operations of C14 whose freshness preservation is proved here -/
def Op.isPlain : Op V → Bool
  | .load .. | .delete .. | .compact .. | .addVectors .. | .deleteVectors .. | .vacuum .. | .createBranch .. => true
  | _ => false

theorem step_good (cfg : Cfg K V) (s : State K V) (op : Op V) (hp : op.isPlain = true) (g : Good s) :
    Good (step cfg s op) := by
  unfold step
  split
  · rename_i s' ha
    cases op with
    | load b vals parts => exact load_good cfg s s' b vals parts g ha
    | delete b ids => exact delete_good s s' b ids g ha
    | compact b ids vec parts => exact compact_good cfg s s' b ids vec parts g ha
    | addVectors b ids => exact addVectors_good s s' b ids g ha
    | deleteVectors b ids => exact deleteVectors_good s s' b ids g ha
    | vacuum c => exact vacuum_good s s' c g ha
    | createBranch n p => exact createBranch_good s s' n p g ha
    | deleteWhere b k parts => simp [Op.isPlain] at hp
    | merge c p => simp [Op.isPlain] at hp
    | revert b c => simp [Op.isPlain] at hp
  · exact g

/-- for every history of these operations, of any length, from the empty pool, the freshness
    hypotheses of the refinement theorems hold -/
theorem run_good (cfg : Cfg K V) (s : State K V) (ops : List (Op V)) (hp : ops.all Op.isPlain = true)
    (g : Good s) : Good (run cfg s ops) := by
  induction ops generalizing s with
  | nil => exact g
  | cons op ops ih =>
    simp only [List.all_cons, Bool.and_eq_true] at hp
    simp only [run, List.foldl_cons]
    exact ih (step cfg s op) hp.2 (step_good cfg s op hp.1 g)
end Zed.Lake
