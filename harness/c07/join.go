package main

// join: sort-key propagation into joins (LeftDir / RightDir: the join skips the sort of a side
// the optimizer declares sorted).  Two separate file readers feed the join, each side
// independently pre-sorted (ascending / descending) or not, every join style; the data of an
// unsorted side is out of order.  Plan as analyzed (the join sorts both sides) vs optimized plan.

import (
	"fmt"
	"os"
	"path/filepath"
	"strings"

	. "verifharness/hlib"
)

type joinCase struct {
	Check string   `json:"check"`
	Style string   `json:"style"` // "" | inner | left | right | anti
	LPrep string   `json:"lprep"` // "" | "sort a" | "sort -r a" | "sort a desc"
	RPrep string   `json:"rprep"`
	Left  []string `json:"left"`
	Right []string `json:"right"`
}

func (j *joinCase) prog(lf, rf string) string {
	l := "file " + lf
	if j.LPrep != "" {
		l += " | " + j.LPrep
	}
	r := "file " + rf
	if j.RPrep != "" {
		r += " | " + j.RPrep
	}
	style := j.Style
	if style != "" {
		style += " "
	}
	return fmt.Sprintf("%s | %sjoin (%s) on a=b hit:=sb", l, style, r)
}

func (j *joinCase) run() (un, op PlanResult, prog string, err error) {
	dir, err := os.MkdirTemp("", "zvh-join-")
	if err != nil {
		return un, op, "", err
	}
	defer os.RemoveAll(dir)
	lf, rf := filepath.Join(dir, "l.zson"), filepath.Join(dir, "r.zson")
	if err := os.WriteFile(lf, []byte(strings.Join(j.Left, "\n")), 0o644); err != nil {
		return un, op, "", err
	}
	if err := os.WriteFile(rf, []byte(strings.Join(j.Right, "\n")), 0o644); err != nil {
		return un, op, "", err
	}
	prog = j.prog(lf, rf)
	un = RunPlan(PlanCfg{Query: prog, Files: true, Timeout: c07LongTimeout})
	op = RunPlan(PlanCfg{Query: prog, Files: true, Optimize: true, Timeout: c07LongTimeout})
	return un, op, j.prog("L", "R"), nil
}

func (j *joinCase) diff() (string, string, PlanResult) {
	un, op, prog, err := j.run()
	if err != nil {
		return "", prog, op
	}
	if isTimeout(un) || isTimeout(op) {
		return "", prog, op // fork-free, but be safe: never a verdict on wall-clock
	}
	return compareRuns(ordState{Kind: ordBag}, un, op), prog, op
}

func genJoinSide(c *Ctx, key, tag string, n int) []string {
	var out []string
	for i := 0; i < n; i++ {
		k := fmt.Sprint(c.Rng.Intn(9))
		if c.Rng.Intn(12) == 0 {
			k = fmt.Sprintf("%q", []string{"x", "y"}[c.Rng.Intn(2)])
		}
		out = append(out, fmt.Sprintf("{%s:%s,s%s:%d}", key, k, key, i))
	}
	return out
}

var joinPreps = []string{"", "sort %s", "sort -r %s", "sort %s desc"}

func c07Join(c *Ctx) {
	var cases []*joinCase
	for _, style := range []string{"", "inner", "left", "right", "anti"} {
		for li, lp := range joinPreps {
			for ri, rp := range joinPreps {
				reps := 1
				if li == 0 || ri == 0 {
					reps = c.N(2, 8)
				}
				for k := 0; k < reps; k++ {
					j := &joinCase{Check: "join", Style: style, Left: genJoinSide(c, "a", "", 4+c.Rng.Intn(30)), Right: genJoinSide(c, "b", "", 4+c.Rng.Intn(30))}
					if lp != "" {
						j.LPrep = fmt.Sprintf(lp, "a")
					}
					if rp != "" {
						j.RPrep = fmt.Sprintf(rp, "b")
					}
					cases = append(cases, j)
				}
			}
		}
	}
	type rep struct {
		diff, prog string
		op         PlanResult
	}
	reps := make([]rep, len(cases))
	ParallelDo(len(cases), 8, func(i int) {
		d, p, op := cases[i].diff()
		reps[i] = rep{d, p, op}
	})
	for i, j := range cases {
		c.Eval(fmt.Sprintf("join:%s:%s:%s:%d:%d", j.Style, j.LPrep, j.RPrep, len(j.Left), len(j.Right)))
		c.Stat("join:style-" + j.Style)
		if j.LPrep != "" || j.RPrep != "" {
			c.Stat("join:a-side-declared-sorted")
		}
		if reps[i].diff == "" {
			c.Stat("join:agree")
			continue
		}
		min := j.shrink()
		d, prog, op := min.diff()
		if d == "" {
			min, d, prog, op = j, reps[i].diff, reps[i].prog, reps[i].op
		}
		key := "C07:join:" + min.Style + ":" + strings.ReplaceAll(min.LPrep, " ", "_") + ":" + strings.ReplaceAll(min.RPrep, " ", "_")
		if joinDeclaredDesc(op.After) && hasNullKey(min) {
			key = "C07:join:declared-desc-nulls"
		}
		c.Fail("oracle", key, fmt.Sprintf("`%s` with L=%v R=%v: %s", prog, min.Left, min.Right, d), min)
	}
}

func hasNullKey(j *joinCase) bool {
	for _, v := range append(append([]string{}, j.Left...), j.Right...) {
		if strings.Contains(v, ":null") {
			return true
		}
	}
	return false
}

func (j *joinCase) shrink() *joinCase {
	cur := *j
	budget := 40
	for _, side := range []int{0, 1} {
		vals := func() []string {
			if side == 0 {
				return cur.Left
			}
			return cur.Right
		}
		for n := len(vals()) / 2; n >= 1 && budget > 0; {
			removed := false
			for i := 0; i+n <= len(vals()) && budget > 0; i += n {
				t := cur
				nv := append(append([]string{}, vals()[:i]...), vals()[i+n:]...)
				if side == 0 {
					t.Left = nv
				} else {
					t.Right = nv
				}
				budget--
				if d, _, _ := t.diff(); d != "" {
					cur = t
					removed = true
					break
				}
			}
			if !removed {
				n /= 2
			}
		}
	}
	return &cur
}
