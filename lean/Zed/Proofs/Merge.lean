import Zed.Model.Compare
/-! `merge.Op` as a nondeterministic process over the parents' remaining values, and
    `merge_sorted`: whatever minimal head the heap returns among equals, and whichever of the two
    emission paths is taken, the output is sorted and a permutation of the input. -/
namespace Zed
open List

section
variable {α : Type} (le : α → α → Bool)

/-- One emission of `merge.Op.Pull`: parent `i` (whose remaining values are `pre ++ rest`) is
    popped from the head-of-line heap — its head is not greater than any other head — and either
    one value is emitted (`Read`) or, when the last value of the rest of its batch is not greater
    than the other heads, that whole rest (`pre`). -/
inductive MergeStep : List (List α) → List α → List (List α) → Prop
  | emit (ps : List (List α)) (i : Nat) (x : α) (pre rest : List α)
      (hp : ps[i]? = some (x :: pre ++ rest))
      (hmin : ∀ j q y, j ≠ i → ps[j]? = some q → q.head? = some y → le x y = true)
      (hlast : ∀ z, z ∈ pre → ∀ j q y, j ≠ i → ps[j]? = some q → q.head? = some y → le ((x :: pre).getLast (by simp)) y = true) :
      MergeStep ps (x :: pre) (ps.set i rest)

inductive MergeRun : List (List α) → List α → Prop
  | done (ps : List (List α)) (h : ∀ p ∈ ps, p = []) : MergeRun ps []
  | step (ps ps' : List (List α)) (pre out : List α) (s : MergeStep le ps pre ps') (r : MergeRun ps' out) :
      MergeRun ps (pre ++ out)

theorem flatten_set_perm : (ps : List (List α)) → (i : Nat) → (pre rest : List α) → ps[i]? = some (pre ++ rest) →
    ps.flatten.Perm (pre ++ (ps.set i rest).flatten)
  | [], i, _, _, h => by simp at h
  | p :: ps, 0, pre, rest, h => by
    simp only [getElem?_cons_zero, Option.some.injEq] at h
    subst h; simp [append_assoc]
  | p :: ps, i+1, pre, rest, h => by
    simp only [getElem?_cons_succ] at h
    have ih := flatten_set_perm ps i pre rest h
    simp only [flatten_cons, set_cons_succ]
    exact (Perm.append_left p ih).trans (by
      rw [← append_assoc, ← append_assoc]
      exact Perm.append_right _ perm_append_comm)

theorem mem_flatten_set {ps : List (List α)} {i : Nat} {rest : List α} {y : α}
    (h : y ∈ (ps.set i rest).flatten) : y ∈ rest ∨ ∃ j q, j ≠ i ∧ ps[j]? = some q ∧ y ∈ q := by
  obtain ⟨q, hq, hy⟩ := mem_flatten.mp h
  obtain ⟨j, hj⟩ := mem_iff_getElem?.mp hq
  by_cases e : j = i
  · subst e
    rw [getElem?_set] at hj
    simp only [if_true] at hj
    split at hj
    · simp only [Option.some.injEq] at hj; subst hj; exact Or.inl hy
    · simp at hj
  · rw [getElem?_set_ne (Ne.symm e)] at hj
    exact Or.inr ⟨j, q, e, hj, hy⟩

theorem getLast_le_of_pairwise : (l : List α) → (h : l ≠ []) → l.Pairwise (fun a b => le a b = true) →
    (∀ a, le a a = true) → ∀ z ∈ l, le z (l.getLast h) = true
  | [a], _, _, hr, z, hz => by simp at hz; subst hz; exact hr z
  | a :: b :: r, _, hs, hr, z, hz => by
    rw [getLast_cons (by simp)]
    rw [pairwise_cons] at hs
    simp only [mem_cons] at hz
    rcases hz with rfl | hz
    · exact hs.1 _ (getLast_mem _)
    · exact getLast_le_of_pairwise (b :: r) (by simp) hs.2 hr z (by simpa using hz)

/-- **merge_sorted**, relative to a predicate `P` on which `le` is transitive -/
theorem merge_sorted_on (P : α → Prop)
    (trans : ∀ a b c, P a → P b → P c → le a b = true → le b c = true → le a c = true)
    (refl : ∀ a, le a a = true) (ps : List (List α)) (out : List α) (h : MergeRun le ps out)
    (hP : ∀ p ∈ ps, ∀ a ∈ p, P a)
    (hs : ∀ p ∈ ps, p.Pairwise (fun a b => le a b = true)) :
    out.Pairwise (fun a b => le a b = true) ∧ out.Perm ps.flatten := by
  induction h with
  | done ps h =>
    refine ⟨Pairwise.nil, ?_⟩
    have : ps.flatten = [] := by
      rw [flatten_eq_nil_iff]; exact h
    rw [this]
  | step ps ps' pre out s r ih =>
    cases s with
    | emit i x pre' rest hp hmin hlast =>
      have hmem : x :: pre' ++ rest ∈ ps := mem_of_getElem? hp
      have hsp := hs _ hmem
      have hs' : ∀ p ∈ ps.set i rest, p.Pairwise (fun a b => le a b = true) := by
        intro p hpm
        rcases mem_or_eq_of_mem_set hpm with h1 | h1
        · exact hs p h1
        · rw [h1]
          have : (x :: pre' ++ rest) = (x :: pre') ++ rest := by simp
          rw [this] at hsp
          exact (pairwise_append.mp hsp).2.1
      have hP' : ∀ p ∈ ps.set i rest, ∀ a ∈ p, P a := by
        intro p hpm a ha
        rcases mem_or_eq_of_mem_set hpm with h1 | h1
        · exact hP p h1 a ha
        · rw [h1] at ha
          exact hP _ hmem a (by simp [ha])
      obtain ⟨ih1, ih2⟩ := ih hP' hs'
      have hsp' : ((x :: pre') ++ rest).Pairwise (fun a b => le a b = true) := by simpa using hsp
      have hpre := (pairwise_append.mp hsp').1
      have hcross := (pairwise_append.mp hsp').2.2
      refine ⟨?_, ?_⟩
      · rw [pairwise_append]
        refine ⟨hpre, ih1, ?_⟩
        intro a ha b hb
        have hb' : b ∈ (ps.set i rest).flatten := ih2.mem_iff.mp hb
        rcases mem_flatten_set hb' with h1 | ⟨j, q, hji, hq, hbq⟩
        · exact hcross a ha b h1
        · -- b is in another parent q: a ≤ (last of pre or x) ≤ head q ≤ b
          have hqs := hs q (mem_of_getElem? hq)
          cases q with
          | nil => simp at hbq
          | cons y q' =>
            have hPq := hP _ (mem_of_getElem? hq)
            have hPa : P a := hP _ hmem a (by
              have : (x :: pre' ++ rest) = (x :: pre') ++ rest := by simp
              rw [this]; exact mem_append_left _ ha)
            have hyb : le y b = true := by
              simp only [mem_cons] at hbq
              rcases hbq with rfl | hbq
              · exact refl _
              · exact (pairwise_cons.mp hqs).1 b hbq
            have hay : le a y = true := by
              cases pre' with
              | nil =>
                simp only [mem_singleton] at ha; subst ha
                exact hmin j (y :: q') y hji hq rfl
              | cons z pre'' =>
                have hl := hlast z (by simp) j (y :: q') y hji hq rfl
                have hPl : P ((x :: z :: pre'').getLast (by simp)) := hP _ hmem _ (by
                  have : (x :: (z :: pre'') ++ rest) = (x :: z :: pre'') ++ rest := by simp
                  rw [this]; exact mem_append_left _ (getLast_mem _))
                exact trans _ _ _ hPa hPl (hPq y (by simp)) (getLast_le_of_pairwise le (x :: z :: pre'') (by simp) hpre refl a ha) hl
            exact trans _ _ _ hPa (hPq y (by simp)) (hPq b hbq) hay hyb
      · have := flatten_set_perm ps i (x :: pre') rest (by simpa using hp)
        exact (Perm.append_left _ ih2).trans this.symm

/-- **merge_sorted** -/
theorem merge_sorted (trans : ∀ a b c, le a b = true → le b c = true → le a c = true)
    (refl : ∀ a, le a a = true) (ps : List (List α)) (out : List α) (h : MergeRun le ps out)
    (hs : ∀ p ∈ ps, p.Pairwise (fun a b => le a b = true)) :
    out.Pairwise (fun a b => le a b = true) ∧ out.Perm ps.flatten :=
  merge_sorted_on le (fun _ => True) (fun a b c _ _ _ => trans a b c) refl ps out h (fun _ _ _ _ => trivial) hs
end
end Zed
