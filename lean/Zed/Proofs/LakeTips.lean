/-
  Branch pointers: a commit moves exactly the branch it was made on.  Helper lemmas (ack_visible, refinement bookkeeping).
-/
import Zed.Proofs.LakeStable
namespace Zed.Lake
variable {K V : Type}

/-- branch lookup, recursively -/
def tipIn : List (Nat × Nat) → Nat → Option Nat
  | [], _ => none
  | (n, t) :: r, b => if n == b then some t else tipIn r b

theorem tip_eq (s : State K V) (b : Nat) : s.tip b = tipIn s.branches b := by
  unfold State.tip
  induction s.branches with
  | nil => rfl
  | cons x xs ih =>
    obtain ⟨n, v⟩ := x
    simp only [List.find?_cons, tipIn]
    cases h : (n == b)
    · simpa using ih
    · rfl

def setIn (bs : List (Nat × Nat)) (b t : Nat) : List (Nat × Nat) :=
  bs.map fun (n, x) => if n == b then (n, t) else (n, x)

theorem tipIn_setIn_same (bs : List (Nat × Nat)) (b t : Nat) (h : (tipIn bs b).isSome = true) :
    tipIn (setIn bs b t) b = some t := by
  induction bs with
  | nil => simp [tipIn] at h
  | cons x xs ih =>
    obtain ⟨n, v⟩ := x
    unfold setIn at *
    simp only [List.map_cons]
    cases hn : (n == b)
    · simp only [hn, Bool.false_eq_true, if_false, tipIn]
      simp only [tipIn, hn, Bool.false_eq_true, if_false] at h
      exact ih h
    · simp only [hn, if_true, tipIn]

theorem tipIn_setIn_other (bs : List (Nat × Nat)) (b b' t : Nat) (h : b' ≠ b) :
    tipIn (setIn bs b t) b' = tipIn bs b' := by
  induction bs with
  | nil => rfl
  | cons x xs ih =>
    obtain ⟨n, v⟩ := x
    unfold setIn at *
    simp only [List.map_cons]
    cases hn : (n == b)
    · simp only [hn, Bool.false_eq_true, if_false, tipIn, ih]
    · have hnb : n = b := by simpa using hn
      have hne : (n == b') = false := by
        cases h2 : (n == b') with
        | false => rfl
        | true => exact absurd ((by simpa using h2 : n = b').symm.trans hnb) h
      simp only [hn, if_true, tipIn, hne, Bool.false_eq_true, if_false, ih]

theorem commit_branches (s : State K V) (b t : Nat) (acts : List (Action K)) :
    (s.commit b t acts).branches = setIn s.branches b (s.commits.length + 1) := by
  simp [State.commit, State.setTip, setIn]

/-- a commit acknowledged on branch `b` is what `b` resolves to from then on -/
theorem commit_tip (s : State K V) (b t : Nat) (acts : List (Action K)) (h : (s.tip b).isSome = true) :
    (s.commit b t acts).tip b = some (s.commits.length + 1) := by
  rw [tip_eq] at h ⊢
  rw [commit_branches]; exact tipIn_setIn_same _ _ _ h

/-- … and no other branch moves -/
theorem commit_tip_other (s : State K V) (b b' t : Nat) (acts : List (Action K)) (h : b' ≠ b) :
    (s.commit b t acts).tip b' = s.tip b' := by
  rw [tip_eq, tip_eq, commit_branches]; exact tipIn_setIn_other _ _ _ _ h
end Zed.Lake
