import Zed.Proofs.ZsonNamedTop
/-!
  C02 — values written inside a value whose named type the formatter already knows
  (`parentKnown = true`), and the *later* occurrence of a named type: `value (n)`.
-/
namespace Zed.Zson
open Generated

/-- `c` is `t` under some names (an enum must be bare: `buildEnum`). -/
def CastOf (c t : Ty) : Prop := c.under = t ∧ (enumSyms t ≠ none → c = t)

theorem CastOf.refl (t : Ty) (hp : plainTy t = true) : CastOf t t := ⟨under_plain t hp, fun _ => rfl⟩

/-- a value of a plain type written *inside a value whose type the formatter already knows*
    (`parentKnown = true`): no decorators of its own, and read back correctly when the
    enclosing decorator supplies its type. -/
def KGood (t : Ty) (v : Val) : Prop :=
  ∀ (d : Bool) (fst : FState) (a0 : AState) (c : Ty), CastOf c t → ∃ any ds,
    fmtValue fst t v true false d false = (fst, any, ds) ∧ (∀ x ∈ ds, GoodDeco x) ∧
    convertValue a0 (mkVal any ds) (some c) = .ok (a0, (c, strip v))

theorem typeCheck_unionish (castT c : Ty) (ms : Tys) (h : unionMembers c.under = some ms) :
    typeCheck castT (some c) = .ok () := by
  unfold typeCheck
  simp only
  split
  · rfl
  · rw [if_pos (by simp [h])]

theorem castStep_union_parent' (castT c : Ty) (ms : Tys) (h : unionMembers c.under = some ms)
    (run : Option Ty → Except Err (AState × TV)) :
    castStep (some c) castT run =
      (castStep none castT run).bind fun r => (convertUnion r.2 ms c).map fun u => (r.1, u) := by
  unfold castStep
  have hn : typeCheck castT none = .ok () := rfl
  rw [typeCheck_unionish castT c ms h, hn]
  simp only [h, bind, Except.bind, pure, Except.pure]
  cases unionMembers castT.under with
  | none =>
    simp only
    cases run (some castT) with
    | error e => rfl
    | ok r =>
      obtain ⟨s, tv⟩ := r
      simp only
      cases convertUnion tv ms c <;> rfl
  | some ms2 =>
    simp only
    cases run none with
    | error e => rfl
    | ok r =>
      obtain ⟨s, tv⟩ := r
      simp only
      cases convertUnion tv ms2 castT with
      | error e => rfl
      | ok r2 =>
        simp only
        cases convertUnion r2 ms c <;> rfl

theorem convertValue_union_parent' (st : AState) (c : Ty) (ms : Tys) (h : unionMembers c.under = some ms) :
    (x : AVal) → (∀ a n, x ≠ .def_ a n) →
    convertValue st x (some c) =
      (convertValue st x none).bind fun r => (convertUnion r.2 ms c).map fun u => (r.1, u)
  | .implied a, _ => by
    simp only [convertValue, viaUnion, h]
    cases convertAny st a none with
    | error e => rfl
    | ok r =>
      obtain ⟨s, tv⟩ := r
      simp only [bind, Except.bind]
      cases convertUnion tv ms c <;> rfl
  | .def_ a n, hh => absurd rfl (hh a n)
  | .cast of ty, _ => by
    simp only [convertValue]
    generalize preDefs st of = pre
    cases pre with
    | error e => rfl
    | ok st1 =>
      simp only [bind, Except.bind]
      cases convertType st1 ty with
      | error e => rfl
      | ok r =>
        obtain ⟨st2, castT⟩ := r
        simp only
        exact castStep_union_parent' castT c ms h _

theorem id_of_under_prim : (c : Ty) → (id : Nat) → c.under = .prim id → c.id = id ∧ enumSyms c = none
  | .prim i, id, h => by simp [Ty.under] at h; simp [Ty.id, enumSyms, h]
  | .named _ t, id, h => by
    simp only [Ty.under] at h
    exact ⟨by simp [Ty.id, (id_of_under_prim t id h).1], rfl⟩
  | .record _, _, h => by simp [Ty.under] at h
  | .array _, _, h => by simp [Ty.under] at h
  | .set _, _, h => by simp [Ty.under] at h
  | .map _ _, _, h => by simp [Ty.under] at h
  | .union _, _, h => by simp [Ty.under] at h
  | .enum _, _, h => by simp [Ty.under] at h
  | .error _, _, h => by simp [Ty.under] at h

def KGoodFields (fs : Fields) (vs : Vals) : Prop :=
  ∀ (fst : FState) (a0 : AState), ∃ afs,
    fmtFields fst fs vs true false = (fst, afs) ∧ afs.length = fs.length ∧
    convertFields a0 afs (some (fieldTypes fs)) = .ok (a0, tvsOf fs vs)

def KGoodElems (et : Ty) (vs : Vals) : Prop :=
  ∀ (fst : FState) (a0 : AState), ∃ asts,
    fmtElems fst et vs true false = (fst, asts) ∧
    convertElems a0 asts (some et) = .ok (a0, vs.toList.map (fun v => (et, strip v)))

def KGoodEntries (kt vt : Ty) (es : Entries) : Prop :=
  ∀ (fst : FState) (a0 : AState), ∃ aes,
    fmtEntries fst kt vt es true false = (fst, aes) ∧
    convertEntries a0 aes (some (kt, vt)) = .ok (a0, (entryKeys es).map (fun v => (kt, strip v)),
      (entryVals es).map (fun v => (vt, strip v)))

theorem decorateM_known (st : FState) (t : Ty) (null : Bool) : decorateM st t true null = (st, []) := by
  simp [decorateM]

theorem finish_known (st : FState) (t : Ty) (d null : Bool) (a : AAny) (ds : List Deco) :
    finish st t true d null a ds = (st, a, ds) := by
  cases d <;> simp [finish, decorateM_known]

theorem conv_implied_some' (st : AState) (a : AAny) (t : Ty) (hu : t.isUnion = false) (hp : plainTy t = true) :
    convertValue st (.implied a) (some t) = convertAny st a (some t) :=
  conv_implied_some st a t (by rw [under_plain t hp]; exact unionMembers_notUnion t hu)

theorem kgood_null (t : Ty) (hp : plainTy t = true) : KGood t .null := by
  intro d fst a0 c hc
  refine ⟨nullAny, [], ?_, by simp, ?_⟩
  · cases d <;> simp [fmtValue, decorateM_known]
  · simp only [mkVal_nil, strip]
    by_cases hu : t.isUnion = true
    · obtain ⟨ms, rfl⟩ : ∃ ms, t = .union ms := by cases t <;> simp_all [Ty.isUnion]
      have h : unionMembers c.under = some ms := by rw [hc.1]; rfl
      rw [convertValue_union_parent' a0 c ms h _ (by intro a n h; simp at h)]
      simp [convertValue, viaUnion, convAny_null_none, Except.bind, convertUnion, Except.map]
    · have hu' : t.isUnion = false := by simpa using hu
      rw [conv_implied_some a0 _ c (by rw [hc.1]; exact unionMembers_notUnion t hu')]
      exact convAny_null_cast a0 c

theorem kgood_prim (id : Nat) (text : Bytes) (hv : wfVal (.prim id) (.prim text) = true) :
    KGood (.prim id) (.prim text) := by
  intro d fst a0 c hc
  simp only [wfVal, primOK, Bool.and_eq_true, bne_iff_ne, ne_eq] at hv
  obtain ⟨_, hcls⟩ := hv
  cases hl : lookupPrimitive (lexClass id text) with
  | none => simp [hl] at hcls
  | some cid =>
    simp only [hl, Bool.and_eq_true, bne_iff_ne, ne_eq] at hcls
    refine ⟨.prim (lexClass id text) text, [], by simp only [fmtValue, finish_known], by simp, ?_⟩
    have hid := id_of_under_prim c id hc.1
    have hun : unionMembers c.under = none := by rw [hc.1]; rfl
    simp only [mkVal_nil, strip, convertValue, viaUnion, hun]
    have : (if lexClass id text = ascii "string" then enumSyms c else none) = none := by
      split
      · exact hid.2
      · rfl
    simp [convertAny, hl, this, hid.1, hcls.1.1, hcls.1.2]

theorem kgood_typeval (id : Nat) (ty : Ty) (hv : wfVal (.prim id) (.typeval ty) = true) :
    KGood (.prim id) (.typeval ty) := by
  intro d fst a0 c hc
  simp only [wfVal, Bool.and_eq_true, beq_iff_eq] at hv
  obtain ⟨⟨hid, hwt⟩, hpt⟩ := hv
  subst hid
  refine ⟨.typeval (canonType [] ty).2, [], by simp only [fmtValue, finish_known], by simp, ?_⟩
  have hun : unionMembers c.under = none := by rw [hc.1]; rfl
  have hct : c.under = tyType := hc.1
  simp [convertValue, viaUnion, hun, hct, tyType, unionMembers, convertAny, canonType_plain [] ty hpt,
    convertType_plain a0 ty hpt hwt, bind, Except.bind, pure, Except.pure, strip]

theorem kgood_enum (syms : List Name) (sel : Nat) (hw : wfTy (.enum syms) = true)
    (hv : wfVal (.enum syms) (.enum sel) = true) : KGood (.enum syms) (.enum sel) := by
  intro d fst a0 c hc
  have hce : c = .enum syms := hc.2 (by simp [enumSyms])
  subst hce
  simp only [wfVal, decide_eq_true_eq] at hv
  simp only [wfTy, Bool.and_eq_true, Bool.not_eq_true', decide_eq_true_eq] at hw
  refine ⟨.enum (syms.getD sel []), [], by simp only [fmtValue, finish_known], by simp, ?_⟩
  simp only [mkVal_nil, strip, convertValue, viaUnion, Ty.under, unionMembers, convertAny]
  rw [enumIndex_getD syms sel hw.2 hv]


theorem kgoodFields_nil : KGoodFields .nil .nil := by
  intro fst a0
  exact ⟨.nil, by simp [fmtFields], rfl, by simp [convertFields, tvsOf]⟩

theorem kgoodFields_cons (n : Name) (t : Ty) (fr : Fields) (v : Val) (vr : Vals) (hpt : plainTy t = true)
    (h1 : KGood t v) (h2 : KGoodFields fr vr) : KGoodFields (.cons n t fr) (.cons v vr) := by
  intro fst a0
  obtain ⟨any, ds, hf, _, hB⟩ := h1 true fst a0 t (CastOf.refl t hpt)
  obtain ⟨afs, hf2, hl, hB2⟩ := h2 fst a0
  refine ⟨.cons n (mkVal any ds) afs, ?_, ?_, ?_⟩
  · simp [fmtFields, hf, hf2]
  · simp [AVFields.length, Fields.length, hl]
  · simp [convertFields, fieldTypes, hB, hB2, tvsOf, bind, Except.bind, pure, Except.pure]

theorem kgoodElems_nil (et : Ty) : KGoodElems et .nil := by
  intro fst a0
  exact ⟨.nil, by simp [fmtElems], by simp [convertElems, Vals.toList]⟩

/-- elements of a container whose element type is not a union go through `formatValue`
    unchanged. -/
theorem fmtValue_elem_notUnion (fst : FState) (t : Ty) (v : Val) (pk pi d : Bool) (hp : plainTy t = true)
    (hu : t.isUnion = false) : fmtValue fst t v pk pi d true = fmtValue fst t v pk pi d false := by
  have h1 : t.under.isUnion = false := by rw [under_plain t hp]; exact hu
  cases v with
  | null => simp [fmtValue, h1]
  | named v' => cases t <;> simp_all [fmtValue, plainTy]
  | union tag v' => cases t <;> simp_all [fmtValue, Ty.isUnion]
  | prim _ => simp [fmtValue]
  | typeval _ => simp [fmtValue]
  | record _ => simp [fmtValue]
  | array _ => simp [fmtValue]
  | set _ => simp [fmtValue]
  | map _ => simp [fmtValue]
  | enum _ => simp [fmtValue]
  | error _ => simp [fmtValue]

theorem kgoodElems_cons (et : Ty) (v : Val) (vr : Vals) (hp : plainTy et = true) (hu : et.isUnion = false)
    (h1 : KGood et v) (h2 : KGoodElems et vr) : KGoodElems et (.cons v vr) := by
  intro fst a0
  obtain ⟨any, ds, hf, _, hB⟩ := h1 true fst a0 et (CastOf.refl et hp)
  obtain ⟨asts, hf2, hB2⟩ := h2 fst a0
  refine ⟨.cons (mkVal any ds) asts, ?_, ?_⟩
  · simp [fmtElems, fmtValue_elem_notUnion fst et v true false true hp hu, hf, hf2]
  · simp [convertElems, hB, hB2, Vals.toList, bind, Except.bind, pure, Except.pure]

theorem kgoodEntries_nil (kt vt : Ty) : KGoodEntries kt vt .nil := by
  intro fst a0
  exact ⟨.nil, by simp [fmtEntries], by simp [convertEntries, entryKeys, entryVals]⟩

theorem kgoodEntries_cons (kt vt : Ty) (k v : Val) (r : Entries) (hpk : plainTy kt = true) (hpv : plainTy vt = true)
    (huk : kt.isUnion = false) (huv : vt.isUnion = false)
    (h1 : KGood kt k) (h2 : KGood vt v) (h3 : KGoodEntries kt vt r) : KGoodEntries kt vt (.cons k v r) := by
  intro fst a0
  obtain ⟨ka, kds, hfk, _, hBk⟩ := h1 true fst a0 kt (CastOf.refl kt hpk)
  obtain ⟨va, vds, hfv, _, hBv⟩ := h2 true fst a0 vt (CastOf.refl vt hpv)
  obtain ⟨aes, hf3, hB3⟩ := h3 fst a0
  refine ⟨.cons (mkVal ka kds) (mkVal va vds) aes, ?_, ?_⟩
  · simp [fmtEntries, fmtValue_elem_notUnion fst kt k true false true hpk huk,
      fmtValue_elem_notUnion fst vt v true false true hpv huv, hfk, hfv, hf3]
  · simp [convertEntries, hBk, hBv, hB3, entryKeys, entryVals, bind, Except.bind, pure, Except.pure]

theorem kgood_record (fs : Fields) (vs : Vals) (hp : plainTy (.record fs) = true)
    (hv : wfVal (.record fs) (.record vs) = true) (hF : KGoodFields fs vs) : KGood (.record fs) (.record vs) := by
  intro d fst a0 c hc
  obtain ⟨afs, hf, hl, hB⟩ := hF fst a0
  simp only [wfVal] at hv
  have hun : unionMembers c.under = none := by rw [hc.1]; rfl
  refine ⟨.record afs, [], by simp [fmtValue, hf, finish_known], by simp, ?_⟩
  simp [convertValue, viaUnion, hun, hc.1, unionMembers, convertAny, hl, hB, tvsOf_vals fs vs hv, strip,
    bind, Except.bind, pure, Except.pure]

theorem kgood_array (et : Ty) (vs : Vals) (hp : plainTy (.array et) = true) (hu : et.isUnion = false)
    (hE : KGoodElems et vs) : KGood (.array et) (.array vs) := by
  intro d fst a0 c hc
  have hun : unionMembers c.under = none := by rw [hc.1]; rfl
  obtain ⟨asts, hf, hB⟩ := hE fst a0
  have hpe : plainTy et = true := by simpa [plainTy] using hp
  have hnd : ∀ seen, needsDecoration et seen = false := fun seen => needsDecoration_notUnion et seen hpe hu
  refine ⟨.array asts, [], by simp [fmtValue, hf, finish_known, hnd], by simp, ?_⟩
  simp [convertValue, viaUnion, hun, hc.1, unionMembers, convertAny, hB, strip, bind, Except.bind, pure,
    Except.pure, List.map_map, Function.comp_def, ofList_map_strip]

theorem kgood_set (et : Ty) (vs : Vals) (hp : plainTy (.set et) = true) (hu : et.isUnion = false)
    (hE : KGoodElems et vs) : KGood (.set et) (.set vs) := by
  intro d fst a0 c hc
  have hun : unionMembers c.under = none := by rw [hc.1]; rfl
  obtain ⟨asts, hf, hB⟩ := hE fst a0
  have hpe : plainTy et = true := by simpa [plainTy] using hp
  have hnd : ∀ seen, needsDecoration et seen = false := fun seen => needsDecoration_notUnion et seen hpe hu
  refine ⟨.set asts, [], by simp [fmtValue, hf, finish_known, hnd], by simp, ?_⟩
  simp [convertValue, viaUnion, hun, hc.1, unionMembers, convertAny, hB, strip, bind, Except.bind, pure,
    Except.pure, List.map_map, Function.comp_def, ofList_map_strip]

theorem kgood_map (kt vt : Ty) (es : Entries) (hp : plainTy (.map kt vt) = true) (huk : kt.isUnion = false)
    (huv : vt.isUnion = false) (hE : KGoodEntries kt vt es) : KGood (.map kt vt) (.map es) := by
  intro d fst a0 c hc
  have hun : unionMembers c.under = none := by rw [hc.1]; rfl
  obtain ⟨aes, hf, hB⟩ := hE fst a0
  have hpk : plainTy kt = true ∧ plainTy vt = true := by simpa [plainTy] using hp
  have hnk : ∀ seen, needsDecoration kt seen = false := fun seen => needsDecoration_notUnion kt seen hpk.1 huk
  have hnv : ∀ seen, needsDecoration vt seen = false := fun seen => needsDecoration_notUnion vt seen hpk.2 huv
  refine ⟨.map aes, [], by simp [fmtValue, hf, finish_known, hnk, hnv], by simp, ?_⟩
  simp [convertValue, viaUnion, hun, hc.1, unionMembers, convertAny, hB, strip, bind, Except.bind, pure,
    Except.pure, List.map_map, Function.comp_def, entriesOf_strip]

/-- a union-typed part of a known value: the member is written the ordinary way
    (`formatUnion` resets `known`), the union itself gets no decorator; the enclosing type
    supplies the union. -/
theorem kgood_union (ts : Tys) (tag : Nat) (inner : Val) (m : Ty)
    (hw : wfTy (.union ts) = true) (hg : ts.get? tag = some m) (hnn : inner ≠ .null)
    (hvi : wfVal m inner = true) (hI : GoodV m inner false) : KGood (.union ts) (.union tag inner) := by
  intro d fst a0 c hc
  have hun : unionMembers c.under = some ts := by rw [hc.1]; rfl
  simp only [wfTy, Bool.and_eq_true, decide_eq_true_eq] at hw
  have hchain := hw.2
  have hmn : m ≠ tyNull := by
    intro h; subst h; exact hnn (wf_tyNull inner hvi)
  have hidx := indexOf_get? ts tag m hchain hg
  obtain ⟨any, ds, hf, hd, hA, _⟩ := hI true fst a0
  refine ⟨any, ds, by simp [fmtValue, hg, hf, finish_known], hd, ?_⟩
  rw [convertValue_union_parent' a0 c ts hun _ (mkVal_not_def any ds hd), hA]
  simp [expA, Except.bind, convertUnion, hmn, hidx, Except.map, strip]


theorem kgood_error (u : Ty) (v' : Val) (hpu : plainTy u = true) (hI : KGood u v') :
    KGood (.error u) (.error v') := by
  intro d fst a0 c hc
  have hun : unionMembers c.under = none := by rw [hc.1]; rfl
  obtain ⟨any, ds, hf, _, hB⟩ := hI false fst a0 u (CastOf.refl u hpu)
  refine ⟨.error (mkVal any ds), [], by simp [fmtValue, hf, finish_known], by simp, ?_⟩
  simp [convertValue, viaUnion, hun, hc.1, unionMembers, convertAny, hB, strip, bind, Except.bind, pure,
    Except.pure]

theorem noUnionElemsT_get : (ts : Tys) → (n : Nat) → (m : Ty) → noUnionElemsT ts = true → ts.get? n = some m →
    noUnionElems m = true
  | .cons t r, 0, m, h, hg => by
    simp only [noUnionElemsT, Bool.and_eq_true] at h
    simp [Tys.get?] at hg; subst hg; exact h.1
  | .cons t r, n + 1, m, h, hg => by
    simp only [noUnionElemsT, Bool.and_eq_true] at h
    simp only [Tys.get?] at hg
    exact noUnionElemsT_get r n m h.2 hg
  | .nil, _, _, _, hg => by simp [Tys.get?] at hg

mutual
theorem kgood_all : (v : Val) → ∀ (t : Ty), plainTy t = true → wfTy t = true → noUnionElems t = true →
    wfVal t v = true → errOK v = true → KGood t v
  | .null, t, hp, _, _, _, _ => kgood_null t hp
  | .prim text, t, _, _, _, hv, _ => by
    cases t with
    | prim id => exact kgood_prim id text hv
    | _ => simp [wfVal] at hv
  | .typeval ty, t, _, _, _, hv, _ => by
    cases t with
    | prim id => exact kgood_typeval id ty hv
    | _ => simp [wfVal] at hv
  | .enum sel, t, _, hw, _, hv, _ => by
    cases t with
    | enum syms => exact kgood_enum syms sel hw hv
    | _ => simp [wfVal] at hv
  | .record vs, t, hp, hw, hk, hv, he => by
    cases t with
    | record fs =>
      exact kgood_record fs vs hp hv (kgoodFields_all vs fs (by simpa [plainTy] using hp)
        (by simp only [wfTy, Bool.and_eq_true] at hw; exact hw.1) (by simpa [noUnionElems] using hk)
        (by simpa [wfVal] using hv) (by simpa [errOK] using he))
    | _ => simp [wfVal] at hv
  | .array vs, t, hp, hw, hk, hv, he => by
    cases t with
    | array et =>
      simp only [noUnionElems, Bool.and_eq_true, Bool.not_eq_true'] at hk
      exact kgood_array et vs hp hk.1 (kgoodElems_all vs et (by simpa [plainTy] using hp) (by simpa [wfTy] using hw)
        hk.2 hk.1 (by simpa [wfVal] using hv) (by simpa [errOK] using he))
    | _ => simp [wfVal] at hv
  | .set vs, t, hp, hw, hk, hv, he => by
    cases t with
    | set et =>
      simp only [noUnionElems, Bool.and_eq_true, Bool.not_eq_true'] at hk
      exact kgood_set et vs hp hk.1 (kgoodElems_all vs et (by simpa [plainTy] using hp) (by simpa [wfTy] using hw)
        hk.2 hk.1 (by simpa [wfVal] using hv) (by simpa [errOK] using he))
    | _ => simp [wfVal] at hv
  | .map es, t, hp, hw, hk, hv, he => by
    cases t with
    | map kt vt =>
      simp only [noUnionElems, Bool.and_eq_true, Bool.not_eq_true'] at hk
      have hp' : plainTy kt = true ∧ plainTy vt = true := by simpa [plainTy] using hp
      have hw' : wfTy kt = true ∧ wfTy vt = true := by simpa [wfTy] using hw
      exact kgood_map kt vt es hp hk.1.1.1 hk.1.1.2 (kgoodEntries_all es kt vt hp'.1 hp'.2 hw'.1 hw'.2
        hk.1.2 hk.2 hk.1.1.1 hk.1.1.2 (by simpa [wfVal] using hv) (by simpa [errOK] using he))
    | _ => simp [wfVal] at hv
  | .union tag inner, t, hp, hw, _, hv, he => by
    cases t with
    | union ts =>
      simp only [wfVal, Bool.and_eq_true, bne_iff_ne, ne_eq] at hv
      cases hg : ts.get? tag with
      | none => simp [hg] at hv
      | some m =>
        simp only [hg] at hv
        have hpm := plainTys_get ts tag m (by simpa [plainTy] using hp) hg
        have hwm := wfTys_get ts tag m (by simp only [wfTy, Bool.and_eq_true] at hw; exact hw.1.1) hg
        exact kgood_union ts tag inner m hw hg hv.1 hv.2
          (goodV_all inner m false hpm hwm hv.2 (by simpa [errOK] using he))
    | _ => simp [wfVal] at hv
  | .error v, t, hp, hw, hk, hv, he => by
    cases t with
    | error u =>
      simp only [wfVal, Bool.and_eq_true] at hv
      simp only [errOK, Bool.and_eq_true] at he
      have hpu : plainTy u = true := by simpa [plainTy] using hp
      exact kgood_error u v hpu (kgood_all v u hpu (by simpa [wfTy] using hw) (by simpa [noUnionElems] using hk)
        hv.2 he.2)
    | _ => simp [wfVal] at hv
  | .named v, t, hp, _, _, hv, _ => by
    cases t with
    | named n u => simp [plainTy] at hp
    | _ => simp [wfVal] at hv
theorem kgoodFields_all : (vs : Vals) → ∀ (fs : Fields), plainFields fs = true → wfFields fs = true →
    noUnionElemsF fs = true → wfVals fs vs = true → errOKs vs = true → KGoodFields fs vs
  | .nil, fs, _, _, _, hv, _ => by
    cases fs with
    | nil => exact kgoodFields_nil
    | cons _ _ _ => simp [wfVals] at hv
  | .cons v vr, fs, hp, hw, hk, hv, he => by
    simp only [errOKs, Bool.and_eq_true] at he
    cases fs with
    | nil => simp [wfVals] at hv
    | cons n t fr =>
      simp only [plainFields, Bool.and_eq_true, Bool.not_eq_true'] at hp
      simp only [wfFields, Bool.and_eq_true] at hw
      simp only [noUnionElemsF, Bool.and_eq_true] at hk
      simp only [wfVals, Bool.and_eq_true] at hv
      exact kgoodFields_cons n t fr v vr hp.1.1 (kgood_all v t hp.1.1 hw.1 hk.1 hv.1 he.1)
        (kgoodFields_all vr fr hp.2 hw.2 hk.2 hv.2 he.2)
theorem kgoodElems_all : (vs : Vals) → ∀ (et : Ty), plainTy et = true → wfTy et = true →
    noUnionElems et = true → et.isUnion = false → wfElems et vs = true → errOKs vs = true → KGoodElems et vs
  | .nil, et, _, _, _, _, _, _ => kgoodElems_nil et
  | .cons v vr, et, hp, hw, hk, hu, hv, he => by
    simp only [wfElems, Bool.and_eq_true] at hv
    simp only [errOKs, Bool.and_eq_true] at he
    exact kgoodElems_cons et v vr hp hu (kgood_all v et hp hw hk hv.1 he.1)
      (kgoodElems_all vr et hp hw hk hu hv.2 he.2)
theorem kgoodEntries_all : (es : Entries) → ∀ (kt vt : Ty), plainTy kt = true → plainTy vt = true →
    wfTy kt = true → wfTy vt = true → noUnionElems kt = true → noUnionElems vt = true →
    kt.isUnion = false → vt.isUnion = false → wfEntries kt vt es = true → errOKe es = true →
    KGoodEntries kt vt es
  | .nil, kt, vt, _, _, _, _, _, _, _, _, _, _ => kgoodEntries_nil kt vt
  | .cons k v r, kt, vt, hpk, hpv, hwk, hwv, hkk, hkv, huk, huv, hv, he => by
    simp only [wfEntries, Bool.and_eq_true] at hv
    simp only [errOKe, Bool.and_eq_true] at he
    exact kgoodEntries_cons kt vt k v r hpk hpv huk huv (kgood_all k kt hpk hwk hkk hv.1.1 he.1.1)
      (kgood_all v vt hpv hwv hkv hv.1.2 he.1.2)
      (kgoodEntries_all r kt vt hpk hpv hwk hwv hkk hkv huk huv hv.2 he.2)
end

theorem nameOf_bound (fst : FState) (n : Name) (u : Ty) (hn : n ≠ [])
    (h : assoc n fst.typedefs = some (.named n u) ∨
      (assoc n fst.typedefs = none ∧ ∃ p, fst.permanent = some p ∧ assoc n p = some (.named n u))) :
    fst.nameOf (.named n u) = some n ∧ fst.hasName (.named n u) = true := by
  rcases h with h | ⟨h1, p, hp, h2⟩
  · simp [FState.nameOf, FState.hasName, hn, h]
  · simp [FState.nameOf, FState.hasName, hn, h1, hp, h2]

/-- a *later* occurrence of a named type the formatter already knows: `value (n)`; both
    tables are left as they are. -/
theorem named_later (fst : FState) (a0 : AState) (n : Name) (u : Ty) (v' : Val)
    (hp : plainTy u = true) (hw : wfTy u = true) (hk : noUnionElems u = true) (hen : enumSyms u = none)
    (hv : wfVal u v' = true) (hnn : v'.isNull = false) (herr : errOK v' = true)
    (hname : fst.nameOf (.named n u) = some n) (hhas : fst.hasName (.named n u) = true)
    (ha : alookup n a0.names = some (.named n u)) :
    (fmtTop fst (.named n u) (.named v')).1 = fst ∧
    analyzeTop a0 (fmtTop fst (.named n u) (.named v')).2 = .ok (a0, (.named n u, .named v')) := by
  have hcast : CastOf (.named n u) u := ⟨by simp [Ty.under, under_plain u hp], fun h => absurd hen h⟩
  obtain ⟨any, ds, hf, hd, hB⟩ := kgood_all v' u hp hw hk hv herr false fst a0 (.named n u) hcast
  have hfmt : fmtTop fst (.named n u) (.named v') = (fst, mkVal any (ds ++ [.cast (.name n)])) := by
    unfold fmtTop
    simp only [hhas, implied, Val.isNull]
    simp only [fmtValue, Bool.false_and, Bool.false_eq_true, if_false, Bool.true_or, hf, finish_known]
    simp [decorateM, implied, hname]
  rw [hfmt, mkVal_append_cast any _ ds (fun x hx => (hd x hx).isCast)]
  refine ⟨rfl, ?_⟩
  have hT : convertType a0 (.name n) = .ok (a0, .named n u) := by simp [convertType, ha]
  have hwf : wfVal (.named n u) (.named v') = true := by
    have : v' ≠ .null := by cases v' <;> simp_all [Val.isNull]
    simp [wfVal, hv, this]
  have hwrap := wrapAll_strip (.named v') (.named n u) hwf
  simp only [strip] at hwrap
  -- `value (n)` read with no enclosing type = the value read under the type `n` …
  have key : convertValue a0 (.cast (mkVal any ds) (.name n)) none =
      convertValue a0 (mkVal any ds) (some (.named n u)) := by
    simp only [convertValue, preDefs_mkVal a0 any ds hd, pure, Except.pure, bind, Except.bind, hT, castStep,
      typeCheck]
    cases hum : unionMembers (Ty.named n u).under with
    | none =>
      simp only
      cases convertValue a0 (mkVal any ds) (some (.named n u)) <;> rfl
    | some ms =>
      simp only
      rw [convertValue_union_parent' a0 (.named n u) ms hum _ (mkVal_not_def any ds hd)]
      cases convertValue a0 (mkVal any ds) none with
      | error e => rfl
      | ok r =>
        obtain ⟨s, tv⟩ := r
        simp only [Except.bind, Except.map]
  simp only [analyzeTop, key, hB, Except.map, hwrap]

end Zed.Zson
