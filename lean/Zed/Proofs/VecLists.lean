import Zed.Proofs.VecLoad
/-! List lemmas for the container cases of the vector path: offsets, flattening, tag maps. -/
namespace Zed.Vng

/-- `loadOffsets`: entry `k` is the total length of the containers at the value slots before `k`. -/
theorem offsetsOf_getElem (F : List Bool) (b : Bitmap) (slot off : Nat) (lens : List Nat)
    (h : AgreesFrom b slot F) (hlen : F.count false = lens.length) (k : Nat) (hk : k ≤ F.length) :
    (offsetsOf F.length slot off b lens)[k]? = some (off + (lens.take (rank F k)).sum) := by
  induction F generalizing slot off lens k with
  | nil =>
    have : k = 0 := by simpa using hk
    subst this; simp [offsetsOf, rank]
  | cons x f ih =>
    obtain ⟨h0, h1⟩ := h.tail
    cases k with
    | zero =>
      cases x <;> cases lens <;> simp [offsetsOf, h0, rank]
    | succ k =>
      have hk' : k ≤ f.length := by simpa using hk
      cases x with
      | true =>
        have := ih (slot + 1) off lens h1 (by simpa using hlen) k hk'
        simpa [offsetsOf, h0, rank] using this
      | false =>
        cases lens with
        | nil => simp at hlen
        | cons l r =>
          have := ih (slot + 1) (off + l) r h1 (by simpa using hlen) k hk'
          simp only [offsetsOf, h0, Bool.false_eq_true, if_false, List.length_cons,
            List.getElem?_cons_succ, this, rank, List.take_succ_cons, List.count_cons_self,
            List.take_succ_cons, List.sum_cons, Option.some.injEq]
          omega

theorem offsetsOf_length (n slot off : Nat) (b : Bitmap) (lens : List Nat) :
    (offsetsOf n slot off b lens).length = n + 1 := by
  induction n generalizing slot off lens with
  | zero => simp [offsetsOf]
  | succ n ih =>
    simp only [offsetsOf]
    split
    · simp [ih]
    · cases lens <;> simp [ih]

theorem rank_succ (F : List Bool) (k : Nat) (hk : k < F.length) :
    rank F (k + 1) = rank F k + (if F.getD k false = true then 0 else 1) := by
  induction F generalizing k with
  | nil => simp at hk
  | cons x f ih =>
    cases k with
    | zero => cases x <;> simp [rank]
    | succ k =>
      have := ih k (by simpa using hk)
      cases x <;> simp [rank] at this ⊢ <;> omega

/-- element `i` of the `k`-th list inside the flattened list. -/
theorem flatten_getElem (xss : List (List Val)) (k i : Nat) (hk : k < xss.length)
    (hi : i < (xss[k]).length) :
    (xss.flatten)[((xss.take k).map List.length).sum + i]? = (xss[k])[i]? := by
  induction xss generalizing k with
  | nil => simp at hk
  | cons xs rest ih =>
    cases k with
    | zero =>
      simp only [List.take_zero, List.map_nil, List.sum_nil, Nat.zero_add, List.flatten_cons,
        List.getElem_cons_zero] at hi ⊢
      rw [List.getElem?_append_left hi]
    | succ k =>
      have := ih k (by simpa using hk) (by simpa using hi)
      simp only [List.take_succ_cons, List.map_cons, List.sum_cons, List.flatten_cons,
        List.getElem_cons_succ]
      rw [List.getElem?_append_right (by omega)]
      have e : xs.length + ((rest.take k).map List.length).sum + i - xs.length =
          ((rest.take k).map List.length).sum + i := by omega
      rw [e]; exact this

theorem mapRange_flatten (f : Nat → Option Val) (xss : List (List Val))
    (hf : ∀ j, j < xss.flatten.length → f j = xss.flatten[j]?) (k : Nat) (hk : k < xss.length) :
    mapRange f ((xss.take k).map List.length).sum (xss[k]).length = some xss[k] := by
  apply mapRange_pointwise
  intro i hi
  have hidx := flatten_getElem xss k i hk hi
  have hlt : ((xss.take k).map List.length).sum + i < xss.flatten.length := by
    by_cases hge : ((xss.take k).map List.length).sum + i < xss.flatten.length
    · exact hge
    · exfalso
      rw [List.getElem?_eq_none (by omega)] at hidx
      rw [List.getElem?_eq_getElem hi] at hidx
      cases hidx
  rw [hf _ hlt, hidx]

/-- the value a tag map sends slot `s` to. -/
theorem partition_forward {α : Type} (ps : List (Nat × α)) (s : Nat) (hs : s < ps.length) :
    (partitionBy (ps[s]).1 ps)[forwardOf (ps.map (·.1)) s]? = some (ps[s]).2 := by
  induction ps generalizing s with
  | nil => simp at hs
  | cons p rest ih =>
    obtain ⟨t, a⟩ := p
    cases s with
    | zero => simp [forwardOf, partitionBy]
    | succ s =>
      have hs' : s < rest.length := by simpa using hs
      have := ih s hs'
      simp only [List.getElem_cons_succ, List.map_cons, forwardOf, List.take_succ_cons,
        List.getD_eq_getElem?_getD, List.getElem?_cons_succ] at this ⊢
      have hg : (rest.map (·.1))[s]?.getD 0 = (rest[s]).1 := by
        simp [List.getElem?_eq_getElem hs']
      rw [hg] at this ⊢
      rw [partitionBy_cons]
      by_cases ht : t = (rest[s]).1
      · simp only [ht, if_true, List.filter_cons, beq_self_eq_true, List.length_cons,
          List.getElem?_cons_succ]
        exact this
      · have hb : (t == (rest[s]).1) = false := by simpa using ht
        simp only [ht, if_false, List.filter_cons, hb, Bool.false_eq_true]
        exact this

theorem forwardOf_lt {α : Type} (ps : List (Nat × α)) (s : Nat) (hs : s < ps.length) :
    forwardOf (ps.map (·.1)) s < (partitionBy (ps[s]).1 ps).length := by
  have := partition_forward ps s hs
  by_cases h : forwardOf (ps.map (·.1)) s < (partitionBy (ps[s]).1 ps).length
  · exact h
  · exfalso
    rw [List.getElem?_eq_none (by omega)] at this
    cases this

end Zed.Vng
