package main

import (
	"fmt"
	"strings"

	zed "github.com/brimdata/super"

	. "verifharness/hlib"
)

type modelCase struct {
	wc   wcase
	in   input
	k    int
	mode string
	t    trace
}

var pkgOf = map[string]string{
	"zson": "zsonio", "zjson": "zjsonio", "zeek": "zeekio", "text": "textio",
	"csv": "csvio", "tsv": "csvio", "bufwriter": "bufwriter",
}

const bufioSize = 4096 // bufio.NewWriter default, used by encoding/csv and pkg/bufwriter

// measure holds what the model needs to know about the input, learned from unfailing runs
// of the real writer.
type measure struct {
	zng   []string // per value "(w tlen vlen)"
	bytes []int    // per API op: bytes of output it contributes (bufio class)
}

var measures = map[string]*measure{}

func measureFor(wc wcase, in input, vals []zed.Value, ref trace) *measure {
	key := wc.Class + "|" + wc.Format + "|" + in.Name
	if m, ok := measures[key]; ok {
		return m
	}
	m := &measure{}
	switch wc.Class {
	case "zng":
		// threshold 1, no compression: every Write flushes; the values-frame body is the last
		// sink call of the op and the types-frame body (if any) the second.
		t := runOne(wcase{Format: "zng", Thresh: 1}, vals, -1, "oneshot")
		pos := 0
		for i := range vals {
			n := t.OpCalls[i]
			sz := t.Sizes[pos : pos+n]
			pos += n
			tl, vl := 0, 0
			switch n {
			case 2:
				vl = sz[1]
			case 4:
				tl, vl = sz[1], sz[3]
			default:
				panic(fmt.Sprintf("unexpected sink call count %d for one zng Write at threshold 1", n))
			}
			m.zng = append(m.zng, fmt.Sprintf("(w %d %d)", tl, vl))
		}
	case "bufio":
		prev := 0
		for i := 1; i <= len(vals); i++ {
			t := runOne(wc, vals[:i], -1, "oneshot")
			m.bytes = append(m.bytes, len(t.Bytes)-prev)
			prev = len(t.Bytes)
		}
	}
	measures[key] = m
	return m
}

func modelRequest(wc wcase, in input, ref trace, vals []zed.Value, k int, mode string) string {
	m := measureFor(wc, in, vals, ref)
	switch wc.Class {
	case "zng":
		thresh := wc.Thresh
		if thresh == 0 {
			thresh = 512 * 1024
		}
		return fmt.Sprintf("(C18 zng %d %s %d %s c)", thresh, mode, k, strings.Join(m.zng, " "))
	case "direct":
		var ns []string
		for _, n := range ref.OpCalls {
			ns = append(ns, fmt.Sprint(n))
		}
		return fmt.Sprintf("(C18 direct %s %s %d %s)", pkgOf[wc.Format], mode, k, strings.Join(ns, " "))
	case "bufio":
		var ns []string
		for _, n := range m.bytes {
			ns = append(ns, fmt.Sprint(n))
		}
		return fmt.Sprintf("(C18 buf %s %d %s %d %s c)", pkgOf[wc.Format], bufioSize, mode, k, strings.Join(ns, " "))
	}
	return ""
}

func realTrace(t trace) []string {
	var out []string
	for i := range t.OpErr {
		e := "0"
		if t.OpErr[i] {
			e = "1"
		}
		out = append(out, fmt.Sprintf("%s:%d", e, t.OpCalls[i]))
	}
	return out
}

// compareModel: zng and bufio classes are compared on the full per-operation trace (error flag
// and number of sink calls of every Write and of Close); the direct class only up to and
// including the first operation that reports an error (what a writer does after it has
// reported a failure — e.g. zeek re-emitting its header — is not part of the model).
func compareModel(c *Ctx, reqs []string, cases []modelCase) {
	if len(reqs) == 0 {
		return
	}
	ans := c.Model().Batch(reqs)
	for i, mc := range cases {
		c.Res.ModelCases++
		c.Stat("trace:" + mc.wc.Class)
		real := realTrace(mc.t)
		model := strings.Fields(ans[i])
		if mc.wc.Class == "direct" {
			cut := len(real)
			for j, r := range real {
				if strings.HasPrefix(r, "1:") {
					cut = j + 1
					break
				}
			}
			if len(model) >= cut {
				model = model[:cut]
			}
			real = real[:cut]
		}
		if strings.Join(real, " ") != strings.Join(model, " ") {
			c.Fail("correspondence", "C18:trace:"+mc.wc.Class+":"+mc.wc.Format,
				fmt.Sprintf("writer %s input %s k=%d %s: real per-op err:calls %v, model %v", mc.wc.Name, mc.in.Name, mc.k, mc.mode, clip(real), clip(model)),
				map[string]any{"writer": mc.wc, "input": mc.in, "k": mc.k, "mode": mc.mode, "real": real, "model": model, "request": reqs[i]})
		}
	}
}

func clip(xs []string) []string {
	if len(xs) > 12 {
		return append(append([]string{}, xs[:6]...), append([]string{"…"}, xs[len(xs)-5:]...)...)
	}
	return xs
}
