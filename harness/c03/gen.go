package main

import (
	"encoding/json"
	"fmt"

	. "verifharness/hlib"

	zed "github.com/brimdata/super"
)

var allChecks = map[string]bool{"rows": true, "vec": true, "dec": true, "enc": true, "stat": true, "proj": true}

func runC03(c *Ctx) {
	c.Rule("sequences of typed values (0..600 values, 1..3 interleaved top-level types; per type node a policy for the number of distinct primitive values 1/2/3/5/17/255/256/257/300 and the null density 0..1, plus null runs at start/middle/end; random type trees over all 20 primitive types, enums, records, arrays, sets, maps, unions, named and error types, depth <= 3; sets and maps normalised) " +
		"written by the real VNG writer and read back through both real paths, through the Lean model's reader (from the dumped metadata + segments), and the Lean model's encoding read by the real reader; projections none/single/nested/forked/absent. A case is distinct by (types, value sequence, projection).")
	h := &harness{c: c, w: &Worker{}}
	defer h.w.Close()

	checks := map[string]bool{}
	for k := range allChecks {
		if c.Want(k) {
			checks[k] = true
		}
	}
	if c.Replay != nil {
		var r rcase
		if err := json.Unmarshal(c.Replay, &r); err != nil {
			c.Note("replay not understood: %v", err)
			return
		}
		vc, err := caseOfReplay(&r)
		if err != nil {
			c.Note("replay not understood: %v", err)
			return
		}
		checks["vec-known"] = true
		h.checkCase(vc, checks)
		return
	}
	for _, raw := range c.CorpusCases() {
		var r rcase
		if json.Unmarshal(raw, &r) == nil {
			if vc, err := caseOfReplay(&r); err == nil {
				c.Stat("corpus")
				h.checkCase(vc, checks)
			}
		}
	}

	// known: fixed witnesses of the recorded findings (vector path)
	if c.Want("known") {
		kc := map[string]bool{"vec": true, "vec-known": true, "proj": true}
		for _, vc := range knownWitnesses(c) {
			h.checkCase(vc, kc)
		}
	}
	if c.Want("boundary") {
		for _, vc := range boundaryCases(c) {
			h.checkCase(vc, checks)
		}
	}
	if c.Want("nullruns") {
		for _, vc := range nullRunCases(c) {
			h.checkCase(vc, checks)
		}
	}
	if c.Want("random") {
		n := c.N(100, 2500)
		for i := 0; i < n; i++ {
			vc := randomCase(c, i)
			ck := checks
			if c.Rng.Intn(10) == 0 {
				ck = map[string]bool{}
				for k, v := range checks {
					ck[k] = v
				}
				ck["vec-known"] = true
			}
			h.checkCase(vc, ck)
		}
	}
	c.Res.Stats["worker:restarts"] = h.w.Restarts
}

func seqOf(t int, vals []*VVal) []seqItem {
	var out []seqItem
	for _, v := range vals {
		out = append(out, seqItem{t, v})
	}
	return out
}

// knownWitnesses: the minimal inputs of findings/C03.json.
func knownWitnesses(c *Ctx) []*vcase {
	g := NewVGen(c.Rng)
	var out []*vcase
	// enum column
	out = append(out, &vcase{Label: "enum", Types: []*TSpec{{Kind: "enum", Syms: []string{"a", "b"}}},
		Seq: seqOf(0, []*VVal{VPrim(zed.EncodeUint(0)), VPrim(zed.EncodeUint(1))})})
	// null union next to another type
	u := &TSpec{Kind: "union", Elems: []*TSpec{Prim(zed.IDInt64), Prim(zed.IDString)}}
	out = append(out, &vcase{Label: "null-union", Types: []*TSpec{{Kind: "record", Fields: []TField{{"u", u}}}},
		Seq: seqOf(0, []*VVal{VCont(VNull()), VCont(VCont(VPrim(zed.EncodeInt(0)), VPrim(zed.EncodeInt(7))))})})
	// error field under a record that is null somewhere
	er := &TSpec{Kind: "record", Fields: []TField{{"e", &TSpec{Kind: "error", Elems: []*TSpec{Prim(zed.IDInt64)}}}}}
	out = append(out, &vcase{Label: "error-under-null", Types: []*TSpec{er},
		Seq: seqOf(0, []*VVal{VNull(), VCont(VPrim(zed.EncodeInt(1))), VCont(VPrim(zed.EncodeInt(2)))})})
	// projection of a record nested in an array: only the projected field is loaded, all are built
	ar := &TSpec{Kind: "array", Elems: []*TSpec{{Kind: "record", Fields: []TField{{Name: "x", Type: Prim(zed.IDInt64)}, {Name: "y", Type: Prim(zed.IDInt64)}}}}}
	out = append(out, &vcase{Label: "nested-record-partial-load", Types: []*TSpec{ar}, Paths: [][]string{{"x"}},
		Seq: seqOf(0, []*VVal{VCont(VCont(VPrim(zed.EncodeInt(1)), VPrim(zed.EncodeInt(2))))})})
	// net column in plain encoding (more than MaxDictSize distinct values): panicked until
	// /repo 496cea1e9 (finding C03:vector-path:net-column-panic, now fixed); kept as a regression case
	var nets []*VVal
	for j := 0; j < 257; j++ {
		nets = append(nets, VPrim(g.PrimBytes(zed.IDNet, j)))
	}
	out = append(out, &vcase{Label: "net-plain", Types: []*TSpec{Prim(zed.IDNet)}, Seq: seqOf(0, nets)})
	return out
}

// boundaryCases: every primitive type x distinct counts around MaxDictSize x nulls, as a
// top-level column and as a record field.
func boundaryCases(c *Ctx) []*vcase {
	g := NewVGen(c.Rng)
	var out []*vcase
	ks := []int{1, 2, 255, 256, 257, 300}
	for _, id := range ImplementedPrims {
		for _, k := range ks {
			if id == zed.IDNull && k > 1 {
				continue
			}
			if id != zed.IDNull && k > MaxDistinct(id) {
				continue
			}
			if !c.Thorough() && c.Rng.Intn(3) != 0 && k != 256 && k != 257 {
				continue
			}
			pickNulls := c.Rng.Intn(3)
			for _, nulls := range []int{0, 1, 2} {
				// quick tier: one null pattern per (type, distinct count), drawn at random
				if !c.Thorough() && nulls != pickNulls {
					continue
				}
				var vals []*VVal
				for j := 0; j < k+2; j++ {
					if id == zed.IDNull {
						vals = append(vals, VNull())
						continue
					}
					if nulls == 2 && j == 0 {
						vals = append(vals, VNull(), VNull())
					}
					vals = append(vals, VPrim(g.PrimBytes(id, j%k)))
					if nulls >= 1 && j%7 == 3 {
						vals = append(vals, VNull())
					}
				}
				if nulls == 2 {
					vals = append(vals, VNull())
				}
				label := fmt.Sprintf("boundary prim%d distinct%d nulls%d", id, k, nulls)
				if c.Rng.Intn(2) == 0 {
					out = append(out, &vcase{Label: label, Types: []*TSpec{Prim(id)}, Seq: seqOf(0, vals)})
				} else {
					rt := &TSpec{Kind: "record", Fields: []TField{{"a", Prim(id)}, {"b", Prim(zed.IDInt64)}}}
					var recs []*VVal
					for j, v := range vals {
						if nulls == 2 && j%11 == 5 {
							recs = append(recs, VNull())
						}
						recs = append(recs, VCont(v, VPrim(zed.EncodeInt(int64(j%3)))))
					}
					out = append(out, &vcase{Label: label + " in record", Types: []*TSpec{rt}, Seq: seqOf(0, recs)})
				}
			}
		}
	}
	return out
}

// nullRunCases: explicit null patterns over every kind of type.
func nullRunCases(c *Ctx) []*vcase {
	patterns := [][]int{ // 1 = null
		{}, {1}, {0}, {1, 0}, {0, 1}, {1, 1, 0}, {0, 1, 1}, {0, 1, 1, 0}, {1, 0, 0, 1}, {1, 1, 1},
		{0, 0, 1, 0, 0}, {1, 0, 1, 0, 1}, {0, 1, 0, 1, 0}, {1, 1, 0, 0, 1, 1, 1, 0},
	}
	i64, str := Prim(zed.IDInt64), Prim(zed.IDString)
	types := []*TSpec{
		i64, str, Prim(zed.IDBool), Prim(zed.IDNull),
		{Kind: "record", Fields: []TField{{"a", i64}, {"b", str}}},
		{Kind: "record"},
		{Kind: "record", Fields: []TField{{"r", &TSpec{Kind: "record", Fields: []TField{{"x", i64}, {"y", &TSpec{Kind: "array", Elems: []*TSpec{str}}}}}}, {"z", i64}}},
		{Kind: "array", Elems: []*TSpec{i64}},
		{Kind: "set", Elems: []*TSpec{str}},
		{Kind: "map", Elems: []*TSpec{str, i64}},
		{Kind: "union", Elems: []*TSpec{i64, str}},
		{Kind: "named", Name: "port", Elems: []*TSpec{i64}},
		{Kind: "error", Elems: []*TSpec{str}},
		{Kind: "error", Elems: []*TSpec{&TSpec{Kind: "record", Fields: []TField{{"message", str}, {"on", i64}}}}},
		{Kind: "array", Elems: []*TSpec{&TSpec{Kind: "record", Fields: []TField{{"a", i64}}}}},
		{Kind: "record", Fields: []TField{{"n", &TSpec{Kind: "named", Name: "x", Elems: []*TSpec{&TSpec{Kind: "record", Fields: []TField{{"a", str}}}}}}}},
	}
	var out []*vcase
	for ti, t0 := range types {
		zctx := zed.NewContext()
		t, _, err := CanonSpec(zctx, t0)
		if err != nil {
			continue
		}
		for pi, p := range patterns {
			if !c.Thorough() && (ti+pi)%3 != int(c.Seed%3) && len(p) > 2 {
				continue
			}
			g := NewVGen(c.Rng)
			g.NoNulls = c.Rng.Intn(2) == 0 // inner nulls on/off
			var vals []*VVal
			for _, isNull := range p {
				if isNull == 1 {
					vals = append(vals, VNull())
				} else {
					v := g.Value(t, 0)
					vals = append(vals, v)
				}
			}
			out = append(out, &vcase{Label: fmt.Sprintf("nullrun %v", p), Types: []*TSpec{t}, Seq: seqOf(0, vals)})
		}
	}
	return out
}

func randomCase(c *Ctx, i int) *vcase {
	r := c.Rng
	tg := &TypeGen{Rng: r, Names: DefaultNames}
	zctx := zed.NewContext()
	g := NewVGen(r)
	nt := 1 + r.Intn(3)
	vc := &vcase{Label: "random"}
	// mostly inputs the vector path is expected to handle; the known-broken features are
	// exercised by a minority of the cases
	clean := r.Intn(4) != 0
	for len(vc.Types) < nt {
		spec := tg.Gen(r.Intn(4))
		if clean && spec.HasKind("enum") {
			continue
		}
		s, _, err := CanonSpec(zctx, spec)
		if err != nil {
			continue
		}
		dup := false
		for _, t := range vc.Types {
			if t.Descr() == s.Descr() {
				dup = true
			}
		}
		if !dup {
			vc.Types = append(vc.Types, s)
		}
	}
	var n int
	if c.Thorough() {
		n = []int{0, 1, 2, 5, 40, 300, 600}[r.Intn(7)]
	} else {
		n = []int{0, 1, 2, 3, 5, 8, 40, 40, 300, 600}[r.Intn(10)]
	}
	cols := make([][]*VVal, len(vc.Types))
	for k := range vc.Types {
		cols[k] = g.Column(vc.Types[k], n)
	}
	idx := make([]int, len(vc.Types))
	for k := 0; k < n; k++ {
		t := r.Intn(len(vc.Types))
		vc.Seq = append(vc.Seq, seqItem{t, cols[t][idx[t]]})
		idx[t]++
	}
	if r.Intn(2) == 0 {
		vc.Paths = genPaths(c, vc)
	}
	return vc
}
