package main

// Statement shapes of the optimizer recognised by the C07 fact set (extract/c07.go).
// Each shape is the go/printer rendering of a clause body (whitespace-normalised) and the
// name of the rule the Lean model implements for it.  Regenerate with EXTRACT_C07_DUMP=1
// after reviewing a deliberate change of the optimizer *and* changing the model.

const (
	c07MergeFilters       = "return walk(seq, true, func(seq dag.Seq) dag.Seq { for i := len(seq) - 2; i >= 0; i-- { if f1, ok := seq[i].(*dag.Filter); ok { if f2, ok := seq[i+1].(*dag.Filter); ok { f1.Expr = dag.NewBinaryExpr(_, f1.Expr, f2.Expr) seq.Delete(i+1, i+2) } } } return seq })"
	c07RemovePass         = "return walk(seq, true, func(seq dag.Seq) dag.Seq { for i := 0; i < len(seq); i++ { if _, ok := seq[i].(*dag.Pass); ok { seq.Delete(i, i+1) i-- continue } } if len(seq) == 0 { seq = dag.Seq{dag.PassOp} } return seq })"
	c07Optimize           = "seq = mergeFilters(seq) ; seq = removePassOps(seq) ; o.optimizeParallels(seq) ; seq = mergeFilters(seq) ; seq, err := o.optimizeSourcePaths(seq) ; if err != nil { return nil, err } ; seq = insertDemand(seq) ; seq = removePassOps(seq) ; return seq, nil"
	c07SortKeysOfSort     = "if len(op.Args) != 1 { return nil } ; key, ok := sortKeyOfExpr(op.Args[0].Key, op.Args[0].Order) ; if !ok { return nil } ; if op.Reverse { key.Order = !key.Order } ; return order.SortKeys{key}"
	c07SortKeyOfExpr      = "key := fieldOf(e) ; if key == nil { return order.SortKey{}, false } ; return order.NewSortKey(o, key), true"
	c07AnalyzeCuts        = "if sortKeys.IsNil() { return nil } ; key := sortKeys[0].Key ; scoreboard := make(map[string]field.Path) ; scoreboard[fieldKey(key)] = key ; for _, a := range assignments { lhs := fieldOf(a.LHS) rhs := fieldOf(a.RHS) if lhs == nil { return nil } lhsKey := fieldKey(lhs) if rhs == nil { dependencies, ok := FieldsOf(a.RHS) if !ok { return nil } for _, d := range dependencies { key := fieldKey(d) if _, ok := scoreboard[key]; ok { return nil } } delete(scoreboard, lhsKey) continue } rhsKey := fieldKey(rhs) if _, ok := scoreboard[rhsKey]; ok { scoreboard[lhsKey] = lhs continue } delete(scoreboard, lhsKey) } ; if len(scoreboard) != 1 { return nil } ; for _, f := range scoreboard { return order.SortKeys{order.NewSortKey(sortKeys[0].Order, f)} } ; panic(\"unreachable\")"
	c07IsKeyOfSummarize   = "if in.IsNil() { return false } ; key := in[0].Key ; for _, outputKeyExpr := range summarize.Keys[:min(1, len(summarize.Keys))] { groupByKey := fieldOf(outputKeyExpr.LHS) if groupByKey.Equal(key) { rhsExpr := outputKeyExpr.RHS rhs := fieldOf(rhsExpr) if rhs.Equal(key) || orderPreservingCall(rhsExpr, groupByKey) { return true } } } ; return false"
	c07FieldOf            = "if this, ok := e.(*dag.This); ok { return this.Path } ; return nil"
	c07ParallelPaths      = "if s, ok := op.(*dag.Scatter); ok { return s.Paths, true } ; if f, ok := op.(*dag.Fork); ok { return f.Paths, true } ; return nil, false"
	c07MatchFilter        = "if len(in) == 0 { return nil, in } ; filter, ok := in[0].(*dag.Filter) ; if !ok { return nil, in } ; return filter.Expr, in[1:]"
	c07ParallelizeSeqScan = "if len(ops) == 1 && scan.Filter == nil { return nil, nil } ; srcSortKeys, err := o.sortKeysOfSource(scan) ; if err != nil { return nil, err } ; if len(srcSortKeys) > 1 { return nil, nil } ; n, outputKeys, _, needMerge, err := o.concurrentPath(ops[1:], srcSortKeys) ; if err != nil { return nil, err } ; if len(outputKeys) > 1 { return nil, nil } ; head := ops[:n+1] ; tail := ops[n+1:] ; scatter := &dag.Scatter{ Kind: \"Scatter\", Paths: make([]dag.Seq, replicas), } ; for k := 0; k < replicas; k++ { scatter.Paths[k] = copyOps(head) } ; var merge dag.Op ; if needMerge { sortKey := outputKeys.Primary() merge = &dag.Merge{ Kind: \"Merge\", Expr: &dag.This{Kind: \"This\", Path: sortKey.Key}, Order: sortKey.Order, } } else { merge = &dag.Combine{Kind: \"Combine\"} } ; return append([]dag.Op{scatter, merge}, tail...), nil"
)

var c07PropagateShapes = map[string]string{
	"if parent.IsNil() { return []order.SortKeys{nil}, nil } ; sortKey := parent.Primary() ; for _, k := range op.Keys[:min(1, len(op.Keys))] { if groupByKey := fieldOf(k.LHS); groupByKey.Equal(sortKey.Key) { rhsExpr := k.RHS rhs := fieldOf(rhsExpr) if rhs.Equal(sortKey.Key) || orderPreservingCall(rhsExpr, groupByKey) { op.InputSortDir = orderAsDirection(sortKey.Order) return []order.SortKeys{parent}, nil } } } ; return []order.SortKeys{nil}, nil": "summarize",
	"var keys []order.SortKeys ; for _, seq := range op.Paths { out, err := o.propagateSortKey(seq, []order.SortKeys{parent}) if err != nil { return nil, err } keys = append(keys, out...) } ; return keys, nil":                                                                                                                                                                                                                                                   "paths",
	"var keys []order.SortKeys ; for _, seq := range []dag.Seq{op.Main, op.Mirror} { out, err := o.propagateSortKey(seq, []order.SortKeys{parent}) if err != nil { return nil, err } keys = append(keys, out...) } ; return keys, nil":                                                                                                                                                                                                                              "mirror",
	"var sortKeys order.SortKeys ; if this, ok := op.Expr.(*dag.This); ok { sortKeys = append(sortKeys, order.NewSortKey(op.Order, this.Path)) } ; if !sortKeys.Equal(parent) { sortKeys = nil } ; return []order.SortKeys{sortKeys}, nil":                                                                                                                                                                                                                          "merge",
	"out, err := o.sortKeysOfSource(op) ; return []order.SortKeys{out}, err":        "source",
	"return o.propagateSortKey(op.Body, parents)":                                   "scope",
	"out, err := o.analyzeSortKeys(op, parent) ; return []order.SortKeys{out}, err": "analyze",
}

var c07SourceShapes = map[string]string{
	"lister := &dag.Lister{ Kind: \"Lister\", Pool: op.ID, Commit: op.Commit, } ; sortKeys, err := o.sortKeysOfSource(op) ; if err != nil { return nil, err } ; lister.KeyPruner = maybeNewRangePruner(filter, sortKeys) ; seq = dag.Seq{lister} ; _, _, orderRequired, _, err := o.concurrentPath(chain, sortKeys) ; if err != nil { return nil, err } ; if orderRequired { seq = append(seq, &dag.Slicer{Kind: \"Slicer\"}) } ; seq = append(seq, &dag.SeqScan{ Kind: \"SeqScan\", Pool: op.ID, Commit: op.Commit, Filter: filter, KeyPruner: lister.KeyPruner, }) ; seq = append(seq, chain...)": "pool",
	"op.Filter = filter ; seq = append(dag.Seq{op}, chain...)": "set-filter",
	"if op.Tap { sortKeys, err := o.sortKeysOfSource(op) if err != nil { return nil, err } op.KeyPruner = maybeNewRangePruner(filter, sortKeys) o, ok := seq[len(seq)-1].(*dag.Output) if !ok { o = &dag.Output{Kind: \"Output\", Name: \"main\"} } seq = dag.Seq{op, o} }": "commit-meta",
}

var c07SourceKeyShapes = map[string]string{
	"return op.SortKeys, nil":   "declared",
	"return o.sortKey(op.ID)":   "pool",
	"return o.sortKey(op.Pool)": "pool",
	"if op.Tap && op.Meta == \"objects\" { return o.sortKey(op.Pool) } ; return nil, nil": "commit-meta",
	"return nil, fmt.Errorf(\"internal error: unknown source type %T\", op)":              "error",
}

var c07AnalyzeFirstShapes = map[string]string{
	"pool, err := o.lookupPool(op.ID) ; if err != nil { return nil, err } ; return pool.SortKeys, nil": "pool",
	"return sortKeysOfSort(op), nil": "sort",
}

var c07AnalyzeShapes = map[string]string{
	"return nil, errors.New(\"internal error: dag.Lister encountered in anaylzeSortKeys\")": "error",
	"return in, nil":                       "keep",
	"return analyzeCuts(op.Args, in), nil": "cuts",
	"for _, f := range op.Args { if fieldOf(f).Equal(key.Key) { return nil, nil } } ; return in, nil":                                                                                                          "drop-key",
	"out := in ; for _, assignment := range op.Args { if fieldOf(assignment.RHS).Equal(key.Key) { lhs := fieldOf(assignment.LHS) out = order.SortKeys{order.NewSortKey(key.Order, lhs)} } } ; return out, nil": "rename-key",
	"if isKeyOfSummarize(op, in) { return in, nil } ; return nil, nil":                                                                                                                                         "summarize-key",
	"for _, assignment := range op.Args { if fieldOf(assignment.LHS).Equal(key.Key) { return nil, nil } } ; return in, nil":                                                                                    "put-key",
	"return nil, nil": "unknown",
}

var c07FieldsOfShapes = map[string]string{
	"return nil, true":                "none",
	"return nil, false":               "fail",
	"return field.List{e.Path}, true": "path",
	"return FieldsOf(e.Operand)":      "operand",
	"lhs, ok := FieldsOf(e.LHS) ; if !ok { return nil, false } ; rhs, ok := FieldsOf(e.RHS) ; if !ok { return nil, false } ; return append(lhs, rhs...), true": "both",
	"return FieldsOf(e.Expr)": "inner",
}

var c07ConcurrentShapes = map[string]string{
	"if isKeyOfSummarize(op, sortKeys) { return k, sortKeys, true, true, nil } ; return k, nil, false, false, nil":                  "summarize",
	"newKeys := sortKeysOfSort(op) ; if newKeys.IsNil() { return 0, nil, false, false, nil } ; return k, newKeys, false, true, nil": "sort",
	"return k, nil, false, false, nil":    "stop-unordered",
	"return k, sortKeys, true, true, nil": "stop-ordered",
	"next, err := o.analyzeSortKeys(op, sortKeys) ; if err != nil { return 0, nil, false, false, err } ; if !sortKeys.IsNil() && next.IsNil() { return k, sortKeys, true, true, nil } ; sortKeys = next": "analyze",
}

var c07FanInShapes = map[string]string{
	"merge = op ; egress = 2": "merge",
	"egress = 2":              "combine",
}

var c07LiftShapes = map[string]string{
	"if op.PartialsIn || op.PartialsOut { return } ; for k := range paths { partial := copyOp(op).(*dag.Summarize) partial.PartialsOut = true paths[k].Append(partial) } ; op.PartialsIn = true ; for k := range op.Keys { op.Keys[k].RHS = op.Keys[k].LHS }":                                                                                                                                                                                                                                                                                                                                                                 "partials",
	"if len(op.Args) != 1 { return } ; if op.Reverse || op.NullsFirst || op.Args[0].Order == order.Desc { return } ; if merge != nil { mergeKey, ok := sortKeyOfExpr(merge.Expr, merge.Order) if !ok { return } sortKey := sortKeysOfSort(op) if !sortKey.Equal(order.SortKeys{mergeKey}) { return } } ; for k := range paths { paths[k].Append(copyOp(op)) } ; if merge == nil { merge = &dag.Merge{ Kind: \"Merge\", Expr: op.Args[0].Key, Order: op.Args[0].Order, } if egress == 2 { ops[1] = merge ops[2] = &dag.Pass{Kind: \"Pass\"} } else { ops[egress] = merge } } else { ops[egress] = &dag.Pass{Kind: \"Pass\"} }": "sort",
	"for k := range paths { paths[k].Append(copyOp(op)) }": "copy-keep",
	"if merge != nil { mergeKey, err := o.propagateSortKeyOp(merge, []order.SortKeys{nil}) if err != nil || mergeKey[0].IsNil() { return } key, err := o.propagateSortKeyOp(op, mergeKey) if err != nil || !key[0].Equal(mergeKey[0]) { return } } ; for k := range paths { paths[k].Append(copyOp(op)) } ; ops[egress] = &dag.Pass{Kind: \"Pass\"}": "lift-if-key-kept",
}

var c07DemandOpShapes = map[string]string{
	"demandOpIn = demand.Union( demandOpOut, inferDemandExprIn(demand.All(), op.Expr), )": "filter",
	"demandOpIn = demand.None() ; for _, assignment := range op.Keys { demandOpIn = demand.Union(demandOpIn, inferDemandExprIn(demand.All(), assignment.RHS)) } ; for _, assignment := range op.Aggs { demandOpIn = demand.Union(demandOpIn, inferDemandExprIn(demand.All(), assignment.RHS)) }": "summarize",
	"demandOpIn = demand.None() ; for _, expr := range op.Exprs { demandOpIn = demand.Union(demandOpIn, inferDemandExprIn(demandOpOut, expr)) }":                                                                                                                                                 "yield",
	"demandOpIn = demand.All()": "all",
}

var c07DemandExprShapes = map[string]string{
	"return demand.Union( inferDemandExprIn(demand.All(), expr.Expr), inferDemandExprIn(demand.All(), expr.Where), )":  "agg",
	"demandIn = demand.Union( inferDemandExprIn(demand.All(), expr.LHS), inferDemandExprIn(demand.All(), expr.RHS), )": "binary",
	"demandIn = demand.Key(expr.RHS, inferDemandExprIn(demandOut, expr.LHS))":                                          "dot",
	"demandIn = demand.None()": "none",
	"demandIn = demand.None() ; for _, entry := range expr.Entries { demandIn = demand.Union(demandIn, inferDemandExprIn(demand.All(), entry.Key)) demandIn = demand.Union(demandIn, inferDemandExprIn(demand.All(), entry.Value)) }":                                                                                                                                                             "map",
	"demandIn = demand.None() ; for _, elem := range expr.Elems { switch elem := elem.(type) { case *dag.Field: demandValueOut := demand.GetKey(demandOut, elem.Name) if !demand.IsNone(demandValueOut) { demandIn = demand.Union(demandIn, inferDemandExprIn(demandValueOut, elem.Value)) } case *dag.Spread: demandIn = demand.Union(demandIn, inferDemandExprIn(demand.All(), elem.Expr)) } }": "record",
	"demandIn = demandOut ; for i := len(expr.Path) - 1; i >= 0; i-- { demandIn = demand.Key(expr.Path[i], demandIn) }": "this",
	"demandIn = demand.All()": "all",
}
