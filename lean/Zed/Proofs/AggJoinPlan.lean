/- helper lemmas for the join plan model (C10) -/
import Zed.Model.AggJoinPlan
import Zed.Proofs.AggJoin
import Zed.Proofs.AggGroupby
namespace Zed.Proofs.AggJoinPlan
open Zed.Join Zed.Agg


def flipRow {A B : Type} : Row B A → Row A B
  | .both b a => .both a b
  | .leftOnly b => .rightOnly b
  | .rightOnly a => .leftOnly a

theorem join_right_left_symmetry {A B : Type} (lleg rleg : Leg) (l : List (JKey × A)) (r : List (JKey × B)) :
    joinFull .right lleg rleg l r = (joinFull .left rleg lleg r l).map flipRow := by
  simp only [joinFull, List.map_map]
  apply List.map_congr_left
  intro x _
  cases x <;> rfl

theorem jle_asc_totalPreorder : TotalPreorder (jle false) := by
  constructor
  · intro a b; cases a <;> cases b <;> simp [jle]; omega
  · intro a b c; cases a <;> cases b <;> cases c <;> simp [jle]; omega

theorem sle_asc_eq_jle : sle false = jle false := by
  funext a b; cases a <;> cases b <;> simp [sle, jle]

theorem sortOp_asc_sorted {α : Type} (rows : List (JKey × α)) :
    (sortOp false rows).Pairwise (fun a b => jle false a.1 b.1 = true) := by
  unfold sortOp
  rw [sle_asc_eq_jle]
  exact Zed.Proofs.AggGroupby.isort_sorted (fun (a b : JKey × α) => jle false a.1 b.1)
    ⟨fun a b => jle_asc_totalPreorder.total a.1 b.1, fun a b c => jle_asc_totalPreorder.trans a.1 b.1 c.1⟩ rows

theorem join_plan_naive_asc {A B : Type} (kind : Zed.Join.Kind) (ld rd : Int) (l : List (JKey × A)) (r : List (JKey × B))
    (hld : ld = 0 ∨ ld = 1) (hrd : rd = 0 ∨ rd = 1)
    (hl : ld = 1 → l.Pairwise (fun a b => jle false a.1 b.1 = true))
    (hr : rd = 1 → r.Pairwise (fun a b => jle false a.1 b.1 = true)) :
    joinRun kind ld rd l r =
      nestedLoop (jle false) kind (if ld = 1 then l else sortOp false l) (if rd = 1 then r else sortOp false r) := by
  rcases hld with rfl | rfl <;> rcases hrd with rfl | rfl
  · simp [joinRun, joinNew]
    exact Zed.Proofs.AggJoin.join_naive _ jle_asc_totalPreorder kind _ _ (sortOp_asc_sorted l) (sortOp_asc_sorted r)
  · simp [joinRun, joinNew]
    exact Zed.Proofs.AggJoin.join_naive _ jle_asc_totalPreorder kind _ _ (sortOp_asc_sorted l) (hr rfl)
  · simp [joinRun, joinNew]
    exact Zed.Proofs.AggJoin.join_naive _ jle_asc_totalPreorder kind _ _ (hl rfl) (sortOp_asc_sorted r)
  · simp [joinRun, joinNew]
    exact Zed.Proofs.AggJoin.join_naive _ jle_asc_totalPreorder kind _ _ (hl rfl) (hr rfl)

end Zed.Proofs.AggJoinPlan
