/-
  Comparators as Boolean `≤` relations (shared by the C10 / C08 models).
  `expr.Comparator.Compare` / `expr.CompareFn` return -1/0/+1; the model uses
  `le a b := Compare(a, b) ≤ 0`.  That the real comparator is a total preorder is C06's
  subject; here it is a hypothesis of the theorems.
-/
namespace Zed.Agg

structure TotalPreorder {α : Type} (le : α → α → Bool) : Prop where
  total : ∀ a b, le a b = true ∨ le b a = true
  trans : ∀ a b c, le a b = true → le b c = true → le a c = true

theorem TotalPreorder.refl {α : Type} {le : α → α → Bool} (h : TotalPreorder le) (a : α) : le a a = true := by
  rcases h.total a a with h | h <;> exact h

theorem intLe_totalPreorder : TotalPreorder (fun (a b : Int) => decide (a ≤ b)) :=
  ⟨fun a b => by simp only [decide_eq_true_eq]; omega,
   fun a b c => by simp only [decide_eq_true_eq]; omega⟩

end Zed.Agg
