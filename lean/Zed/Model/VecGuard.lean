/-
  The data-dependent guard under which the vector read path of the CURRENT code is correct
  (C03), i.e. the complement of the recorded defect classes:
    * no enum column (the loader has no enum case);
    * no union column with a null slot — a null union value, or a union below (through
      records / named types) a record column that contains a null;
    * no error-typed column below a record column that contains a null.
  `pn` = "some enclosing record (through records / named / error only) is null somewhere".
  Arrays, sets, maps and unions start a fresh slot domain for their children (`pn = false`).
-/
import Zed.Model.VngColumns
namespace Zed.Vng

mutual
def okV : Ty → List Val → Bool → Bool
  | .prim _, _, _ => true
  | .enum _, _, _ => false
  | .named _ t, vs, pn => okV t vs pn
  | .error t, vs, pn => !pn && okV t vs false
  | .record fs, vs, pn => okFields fs ((nonNull vs).map Val.items) (pn || vs.any Val.isNull)
  | .array t, vs, _ => okV t ((nonNull vs).flatMap Val.items) false
  | .set t, vs, _ => okV t ((nonNull vs).flatMap Val.items) false
  | .map k v, vs, _ =>
    okV k ((nonNull vs).flatMap fun x => evens x.items) false &&
    okV v ((nonNull vs).flatMap fun x => odds x.items) false
  | .union ts, vs, pn =>
    !pn && !vs.any Val.isNull && okTys ts 0 ((nonNull vs).map fun x => (x.utag, x.uval))
def okFields : Fields → List (List Val) → Bool → Bool
  | .nil, _, _ => true
  | .cons _ t rest, rows, pn => okV t (rows.map headV) pn && okFields rest (rows.map List.tail) pn
def okTys : Tys → Nat → List (Nat × Val) → Bool
  | .nil, _, _ => true
  | .cons t rest, k, ps => okV t (partitionBy k ps) false && okTys rest (k + 1) ps
end

end Zed.Vng

namespace Zed.Vng

def okTypes : List Ty → Nat → List (Nat × Val) → Bool
  | [], _, _ => true
  | t :: rest, k, ps => okV t (partitionBy k ps) false && okTypes rest (k + 1) ps

/-- the guard for a whole object: every top-level type's column is within the guard. -/
def seqOK (vs : List (Ty × Val)) : Bool :=
  okTypes (seenTypes [] vs) 0 (vs.map fun p => (tagOf (seenTypes [] vs) p.1, p.2))

end Zed.Vng
