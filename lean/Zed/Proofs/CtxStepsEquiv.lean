import Zed.Model.CtxSteps
import Zed.Proofs.DecodeInv
/-! a decoding thread running alone is `decodeTV` (`compile_sim`), and a `LookupByValue` thread
    running alone is `lookupByValue` (`runD_solo`). -/
namespace Zed
open Zcode List Generated.C05
namespace Ctx

theorem runI_append : (a b : List Instr) → (c : Ctx) → (st : List Ty) →
    runI (a ++ b) c st = match runI a c st with
      | (c', some st') => runI b c' st'
      | (c', none) => (c', none)
  | [], b, c, st => by simp [runI]
  | i :: a, b, c, st => by
    simp only [cons_append, runI]
    cases h : c.stepI st i with
    | mk c1 o =>
      cases o with
      | none => simp
      | some st1 => simp only; exact runI_append a b c1 st1

theorem runI_single (i : Instr) (c : Ctx) (st : List Ty) :
    runI [i] c st = match c.stepI st i with
      | (c', some st') => (c', some st')
      | (c', none) => (c', none) := by
  simp only [runI]
  cases h : c.stepI st i with
  | mk c1 o => cases o <;> simp [runI]

/-- the program `p` simulates the decoder result `d` from `(c, st)` -/
def SimTV (c : Ctx) (st : List Ty) (d : Ctx × Option (Ty × Bytes)) (p : List Instr × Option Bytes) : Prop :=
  match d.2 with
  | some (t, rest) => p.2 = some rest ∧ runI p.1 c st = (d.1, some (t :: st))
  | none => (runI p.1 c st).1 = d.1 ∧ (p.2.isSome = true → (runI p.1 c st).2 = none)

def SimF (c : Ctx) (st : List Ty) (d : Ctx × Option (List (Name × Ty) × Bytes))
    (p : List Instr × Option (List Name × Bytes)) : Prop :=
  match d.2 with
  | some (fs, rest) => p.2 = some (fs.map (·.1), rest) ∧ runI p.1 c st = (d.1, some ((fs.map (·.2)).reverse ++ st))
  | none => (runI p.1 c st).1 = d.1 ∧ (p.2.isSome = true → (runI p.1 c st).2 = none)

def SimT (c : Ctx) (st : List Ty) (d : Ctx × Option (List Ty × Bytes)) (p : List Instr × Option Bytes) : Prop :=
  match d.2 with
  | some (ts, rest) => p.2 = some rest ∧ runI p.1 c st = (d.1, some (ts.reverse ++ st))
  | none => (runI p.1 c st).1 = d.1 ∧ (p.2.isSome = true → (runI p.1 c st).2 = none)

theorem SimTV_fail (c : Ctx) (st : List Ty) : SimTV c st (c, none) ([], none) := by
  simp [SimTV, runI]

/-- a unary wrapper (array / set / error) -/
theorem SimTV_wrap (c : Ctx) (st : List Ty) (d : Ctx × Option (Ty × Bytes)) (p : List Instr × Option Bytes)
    (look : Ctx → Ty → Ty × Ctx) (i : Instr)
    (hi : ∀ (c1 : Ctx) t st1, c1.stepI (t :: st1) i = ((look c1 t).2, some ((look c1 t).1 :: st1))) :
    SimTV c st d p → SimTV c st
      (match d with
       | (c, none) => (c, none)
       | (c, some (t, tv)) => ((look c t).2, some ((look c t).1, tv)))
      (match p with
       | (is, none) => (is, none)
       | (is, some tv) => (is ++ [i], some tv)) := by
  intro h
  obtain ⟨c1, o⟩ := d
  obtain ⟨is, r⟩ := p
  cases o with
  | none =>
    simp only [SimTV] at h ⊢
    cases r with
    | none => simpa using h.1
    | some tv =>
      have h2 := h.2 rfl
      simp only [runI_append]
      cases hr : runI is c st with
      | mk c2 o2 =>
        rw [hr] at h h2
        simp only at h2
        subst h2
        exact ⟨h.1, fun _ => rfl⟩
  | some q =>
    obtain ⟨t, rest⟩ := q
    have h1 : r = some rest := h.1
    have h2 : runI is c st = (c1, some (t :: st)) := h.2
    subst h1
    show _ = some rest ∧ runI (is ++ [i]) c st = _
    refine ⟨rfl, ?_⟩
    simp only [runI_append, h2, runI_single, hi]

theorem zip_fst_snd : (fs : List (Name × Ty)) → (fs.map (·.1)).zip (fs.map (·.2)) = fs
  | [] => rfl
  | (n, t) :: r => by simp [zip_fst_snd r]

theorem popN_append (ts st : List Ty) : popN ts.length (ts.reverse ++ st) = some (ts, st) := by
  simp [popN, take_append_of_le_length, drop_append_of_le_length]

theorem compileTV_zero (tv : Bytes) : compileTV 0 tv = ([], none) := by rw [compileTV]
theorem compileTV_nil (f : Nat) : compileTV (f + 1) [] = ([], none) := by simp [compileTV]

theorem compileTV_array (f : Nat) (tv : Bytes) :
    compileTV (f + 1) (byteOf tvArray :: tv) =
      match compileTV f tv with
      | (is, none) => (is, none)
      | (is, some tv) => (is ++ [.array], some tv) := by
  rw [compileTV]
  have : (byteOf tvArray).toNat = tvArray := toNat_byteOf _ (by decide)
  simp only [this]
  simp only [show tvArray ≠ tvNameDef from by decide, show tvArray ≠ tvNameRef from by decide,
    show tvArray ≠ tvRecord from by decide, if_false, if_true]
  rfl

theorem compileTV_set (f : Nat) (tv : Bytes) :
    compileTV (f + 1) (byteOf tvSet :: tv) =
      match compileTV f tv with
      | (is, none) => (is, none)
      | (is, some tv) => (is ++ [.set], some tv) := by
  rw [compileTV]
  have : (byteOf tvSet).toNat = tvSet := toNat_byteOf _ (by decide)
  simp only [this]
  simp only [show tvSet ≠ tvNameDef from by decide, show tvSet ≠ tvNameRef from by decide,
    show tvSet ≠ tvRecord from by decide, show tvSet ≠ tvArray from by decide, if_false, if_true]
  rfl

theorem compileTV_error (f : Nat) (tv : Bytes) :
    compileTV (f + 1) (byteOf tvError :: tv) =
      match compileTV f tv with
      | (is, none) => (is, none)
      | (is, some tv) => (is ++ [.error], some tv) := by
  rw [compileTV]
  have : (byteOf tvError).toNat = tvError := toNat_byteOf _ (by decide)
  simp only [this]
  simp only [show tvError ≠ tvNameDef from by decide, show tvError ≠ tvNameRef from by decide,
    show tvError ≠ tvRecord from by decide, show tvError ≠ tvArray from by decide,
    show tvError ≠ tvSet from by decide, show tvError ≠ tvMap from by decide,
    show tvError ≠ tvUnion from by decide, show tvError ≠ tvEnum from by decide, if_false, if_true]
  rfl

theorem compileTV_map (f : Nat) (tv : Bytes) :
    compileTV (f + 1) (byteOf tvMap :: tv) =
      match compileTV f tv with
      | (is, none) => (is, none)
      | (is, some tv) =>
        match compileTV f tv with
        | (is2, none) => (is ++ is2, none)
        | (is2, some tv) => (is ++ is2 ++ [.map], some tv) := by
  rw [compileTV]
  have : (byteOf tvMap).toNat = tvMap := toNat_byteOf _ (by decide)
  simp only [this]
  simp only [show tvMap ≠ tvNameDef from by decide, show tvMap ≠ tvNameRef from by decide,
    show tvMap ≠ tvRecord from by decide, show tvMap ≠ tvArray from by decide,
    show tvMap ≠ tvSet from by decide, if_false, if_true]
  rfl

theorem compileTV_record (f : Nat) (tv : Bytes) :
    compileTV (f + 1) (byteOf tvRecord :: tv) =
      match decodeLength tv with
      | none => ([], none)
      | some (n, tv) =>
        if n > maxRecordFields then ([], none) else
        match compileFields f n tv with
        | (is, none) => (is, none)
        | (is, some (names, tv)) => (is ++ [.record names], some tv) := by
  rw [compileTV]
  have : (byteOf tvRecord).toNat = tvRecord := toNat_byteOf _ (by decide)
  simp only [this]
  simp only [show tvRecord ≠ tvNameDef from by decide, show tvRecord ≠ tvNameRef from by decide, if_false, if_true]
  rfl

theorem compileTV_union (f : Nat) (tv : Bytes) :
    compileTV (f + 1) (byteOf tvUnion :: tv) =
      match decodeLength tv with
      | none => ([], none)
      | some (n, tv) =>
        if n > maxUnionTypes then ([], none) else
        match compileTys f n tv with
        | (is, none) => (is, none)
        | (is, some tv) => (is ++ [.union n], some tv) := by
  rw [compileTV]
  have : (byteOf tvUnion).toNat = tvUnion := toNat_byteOf _ (by decide)
  simp only [this]
  simp only [show tvUnion ≠ tvNameDef from by decide, show tvUnion ≠ tvNameRef from by decide,
    show tvUnion ≠ tvRecord from by decide, show tvUnion ≠ tvArray from by decide,
    show tvUnion ≠ tvSet from by decide, show tvUnion ≠ tvMap from by decide, if_false, if_true]
  rfl

theorem compileTV_enum (f : Nat) (tv : Bytes) :
    compileTV (f + 1) (byteOf tvEnum :: tv) =
      match decodeLength tv with
      | none => ([], none)
      | some (n, tv) =>
        if n > maxEnumSymbols then ([], none) else
        match decodeSyms n tv with
        | none => ([], none)
        | some (syms, tv) => ([.enum syms], some tv) := by
  rw [compileTV]
  have : (byteOf tvEnum).toNat = tvEnum := toNat_byteOf _ (by decide)
  simp only [this]
  simp only [show tvEnum ≠ tvNameDef from by decide, show tvEnum ≠ tvNameRef from by decide,
    show tvEnum ≠ tvRecord from by decide, show tvEnum ≠ tvArray from by decide,
    show tvEnum ≠ tvSet from by decide, show tvEnum ≠ tvMap from by decide,
    show tvEnum ≠ tvUnion from by decide, if_false, if_true]
  rfl

theorem compileTV_namedef (f : Nat) (tv : Bytes) :
    compileTV (f + 1) (byteOf tvNameDef :: tv) =
      match decodeName tv with
      | none => ([], none)
      | some (name, tv) =>
        match compileTV f tv with
        | (is, none) => (is, none)
        | (is, some tv) => (is ++ [.named name], some tv) := by
  rw [compileTV]
  have : (byteOf tvNameDef).toNat = tvNameDef := toNat_byteOf _ (by decide)
  simp only [this, if_true]
  rfl

theorem compileTV_nameref (f : Nat) (tv : Bytes) :
    compileTV (f + 1) (byteOf tvNameRef :: tv) =
      match decodeName tv with
      | none => ([], none)
      | some (name, tv) => ([.ref name], some tv) := by
  rw [compileTV]
  have : (byteOf tvNameRef).toNat = tvNameRef := toNat_byteOf _ (by decide)
  simp only [this]
  simp only [show tvNameRef ≠ tvNameDef from by decide, if_false, if_true]
  rfl

theorem compileTV_other (f : Nat) (b : UInt8) (tv : Bytes)
    (h1 : b.toNat ≠ tvNameDef) (h2 : b.toNat ≠ tvNameRef) (h3 : b.toNat ≠ tvRecord) (h4 : b.toNat ≠ tvArray)
    (h5 : b.toNat ≠ tvSet) (h6 : b.toNat ≠ tvMap) (h7 : b.toNat ≠ tvUnion) (h8 : b.toNat ≠ tvEnum)
    (h9 : b.toNat ≠ tvError) :
    compileTV (f + 1) (b :: tv) =
      match primitiveByID? b.toNat with
      | none => ([], none)
      | some _ => ([.prim b.toNat], some tv) := by
  rw [compileTV]
  simp only [h1, h2, h3, h4, h5, h6, h7, h8, h9, if_false]
  rfl


theorem runI_abort_append (a b : List Instr) (c : Ctx) (st : List Ty) (h : (runI a c st).2 = none) :
    runI (a ++ b) c st = runI a c st := by
  rw [runI_append]
  cases hr : runI a c st with
  | mk c1 o => rw [hr] at h; simp only at h; subst h; rfl

/-- a wrapper whose call may fail (named) -/
theorem SimTV_wrapO (c : Ctx) (st : List Ty) (d : Ctx × Option (Ty × Bytes)) (p : List Instr × Option Bytes)
    (look : Ctx → Ty → Option Ty × Ctx) (i : Instr)
    (hi : ∀ (c1 : Ctx) t st1, c1.stepI (t :: st1) i =
      match look c1 t with
      | (some nt, c2) => (c2, some (nt :: st1))
      | (none, c2) => (c2, none)) :
    SimTV c st d p → SimTV c st
      (match d with
       | (c, none) => (c, none)
       | (c, some (t, tv)) =>
         match look c t with
         | (none, c) => (c, none)
         | (some nt, c) => (c, some (nt, tv)))
      (match p with
       | (is, none) => (is, none)
       | (is, some tv) => (is ++ [i], some tv)) := by
  intro h
  obtain ⟨c1, o⟩ := d
  obtain ⟨is, r⟩ := p
  cases o with
  | none =>
    have h1 : (runI is c st).1 = c1 := h.1
    have h2 : r.isSome = true → (runI is c st).2 = none := h.2
    cases r with
    | none => exact ⟨h1, fun e => by cases e⟩
    | some tv =>
      have h3 := h2 rfl
      show (runI (is ++ [i]) c st).1 = c1 ∧ (_ → (runI (is ++ [i]) c st).2 = none)
      rw [runI_abort_append _ _ _ _ h3]
      exact ⟨h1, fun _ => h3⟩
  | some q =>
    obtain ⟨t, rest⟩ := q
    have h1 : r = some rest := h.1
    have h2 : runI is c st = (c1, some (t :: st)) := h.2
    subst h1
    simp only
    have hr : runI (is ++ [i]) c st = match look c1 t with
        | (some nt, c2) => (c2, some (nt :: st))
        | (none, c2) => (c2, none) := by
      simp only [runI_append, h2, runI_single, hi]
      cases look c1 t with
      | mk o2 c2 => cases o2 <;> rfl
    cases hl : look c1 t with
    | mk o2 c2 =>
      rw [hl] at hr
      cases o2 with
      | none => exact ⟨by rw [hr], fun _ => by rw [hr]⟩
      | some nt => exact ⟨rfl, hr⟩

theorem decodeTV_zero (c : Ctx) (tv : Bytes) : decodeTV 0 c tv = (c, none) := by rw [decodeTV]
theorem decodeTV_nil (f : Nat) (c : Ctx) : decodeTV (f + 1) c [] = (c, none) := by simp [decodeTV]

mutual
theorem simTV : (f : Nat) → (c : Ctx) → (tv : Bytes) → (st : List Ty) →
    SimTV c st (decodeTV f c tv) (compileTV f tv)
  | 0, c, tv, st => by rw [decodeTV_zero, compileTV_zero]; exact SimTV_fail c st
  | f+1, c, [], st => by rw [decodeTV_nil, compileTV_nil]; exact SimTV_fail c st
  | f+1, c, b :: tv, st => by
    by_cases h1 : b.toNat = tvNameDef
    · rw [byte_eq_byteOf b _ h1, decodeTV_namedef, compileTV_namedef]
      cases hn : decodeName tv with
      | none => exact SimTV_fail c st
      | some p =>
        obtain ⟨name, tv1⟩ := p
        simp only
        exact SimTV_wrapO c st _ _ (fun c t => c.lookupNamed name t) (.named name)
          (fun c1 t st1 => by
            simp only [stepI]
            cases c1.lookupNamed name t with
            | mk o2 c2 => cases o2 <;> rfl) (simTV f c tv1 st)
    · by_cases h2 : b.toNat = tvNameRef
      · rw [byte_eq_byteOf b _ h2, decodeTV_nameref, compileTV_nameref]
        cases hn : decodeName tv with
        | none => exact SimTV_fail c st
        | some p =>
          obtain ⟨name, tv1⟩ := p
          simp only
          cases hl : c.lookupTypeDef name with
          | none =>
            refine ⟨?_, fun _ => ?_⟩ <;> simp [runI, stepI, hl]
          | some t =>
            exact ⟨rfl, by simp [runI, stepI, hl]⟩
      · by_cases h3 : b.toNat = tvRecord
        · rw [byte_eq_byteOf b _ h3, decodeTV_record, compileTV_record]
          cases hn : decodeLength tv with
          | none => exact SimTV_fail c st
          | some p =>
            obtain ⟨n, tv1⟩ := p
            simp only
            by_cases hmax : n > maxRecordFields
            · rw [if_pos hmax, if_pos hmax]; exact SimTV_fail c st
            · rw [if_neg hmax, if_neg hmax]
              have ih := simF f n c tv1 st
              cases hd : decodeFields f n c tv1 with
              | mk c1 o =>
                cases hp : compileFields f n tv1 with
                | mk is r =>
                  rw [hd, hp] at ih
                  cases o with
                  | none =>
                    have i1 : (runI is c st).1 = c1 := ih.1
                    have i2 : r.isSome = true → (runI is c st).2 = none := ih.2
                    cases r with
                    | none => exact ⟨i1, fun e => by cases e⟩
                    | some q =>
                      obtain ⟨names, tv2⟩ := q
                      have i3 := i2 rfl
                      show (runI (is ++ [Instr.record names]) c st).1 = c1 ∧ (_ → (runI (is ++ [Instr.record names]) c st).2 = none)
                      rw [runI_abort_append _ _ _ _ i3]
                      exact ⟨i1, fun _ => i3⟩
                  | some q =>
                    obtain ⟨fs, tv2⟩ := q
                    have i1 : r = some (fs.map (·.1), tv2) := ih.1
                    have i2 : runI is c st = (c1, some ((fs.map (·.2)).reverse ++ st)) := ih.2
                    subst i1
                    simp only
                    have hr : runI (is ++ [Instr.record (fs.map (·.1))]) c st =
                        match c1.lookupRecord fs with
                        | (some t, c2) => (c2, some (t :: st))
                        | (none, c2) => (c2, none) := by
                      simp only [runI_append, i2, runI_single, stepI]
                      have hp := popN_append (fs.map (·.2)) st
                      simp only [length_map] at hp
                      simp only [length_map, hp, zip_fst_snd]
                      cases c1.lookupRecord fs with
                      | mk o2 c2 => cases o2 <;> rfl
                    cases hl : c1.lookupRecord fs with
                    | mk o2 c2 =>
                      rw [hl] at hr
                      cases o2 with
                      | none => exact ⟨by rw [hr], fun _ => by rw [hr]⟩
                      | some t => exact ⟨rfl, hr⟩
        · by_cases h4 : b.toNat = tvArray
          · rw [byte_eq_byteOf b _ h4, decodeTV_array, compileTV_array]
            exact SimTV_wrap c st _ _ (fun c t => c.lookupArray t) .array (fun _ _ _ => rfl) (simTV f c tv st)
          · by_cases h5 : b.toNat = tvSet
            · rw [byte_eq_byteOf b _ h5, decodeTV_set, compileTV_set]
              exact SimTV_wrap c st _ _ (fun c t => c.lookupSet t) .set (fun _ _ _ => rfl) (simTV f c tv st)
            · by_cases h6 : b.toNat = tvMap
              · rw [byte_eq_byteOf b _ h6, decodeTV_map, compileTV_map]
                have ih := simTV f c tv st
                cases hd : decodeTV f c tv with
                | mk c1 o =>
                  cases hp : compileTV f tv with
                  | mk is r =>
                    rw [hd, hp] at ih
                    cases o with
                    | none =>
                      have i1 : (runI is c st).1 = c1 := ih.1
                      have i2 : r.isSome = true → (runI is c st).2 = none := ih.2
                      cases r with
                      | none => exact ⟨i1, fun e => by cases e⟩
                      | some tv1 =>
                        have i3 := i2 rfl
                        simp only
                        cases hp2 : compileTV f tv1 with
                        | mk is2 r2 =>
                          cases r2 with
                          | none =>
                            show (runI (is ++ is2) c st).1 = c1 ∧ _
                            rw [runI_abort_append _ _ _ _ i3]
                            exact ⟨i1, fun e => by cases e⟩
                          | some tv2 =>
                            show (runI (is ++ is2 ++ [Instr.map]) c st).1 = c1 ∧ (_ → (runI (is ++ is2 ++ [Instr.map]) c st).2 = none)
                            rw [append_assoc, runI_abort_append _ _ _ _ i3]
                            exact ⟨i1, fun _ => i3⟩
                    | some q =>
                      obtain ⟨k, tv1⟩ := q
                      have i1 : r = some tv1 := ih.1
                      have i2 : runI is c st = (c1, some (k :: st)) := ih.2
                      subst i1
                      simp only
                      have ih2 := simTV f c1 tv1 (k :: st)
                      cases hd2 : decodeTV f c1 tv1 with
                      | mk c2 o2 =>
                        cases hp2 : compileTV f tv1 with
                        | mk is2 r2 =>
                          rw [hd2, hp2] at ih2
                          have hrun : runI (is ++ is2) c st = runI is2 c1 (k :: st) := by
                            rw [runI_append, i2]
                          cases o2 with
                          | none =>
                            have j1 : (runI is2 c1 (k :: st)).1 = c2 := ih2.1
                            have j2 : r2.isSome = true → (runI is2 c1 (k :: st)).2 = none := ih2.2
                            cases r2 with
                            | none =>
                              show (runI (is ++ is2) c st).1 = c2 ∧ _
                              rw [hrun]; exact ⟨j1, fun e => by cases e⟩
                            | some tv2 =>
                              have j3 := j2 rfl
                              show (runI (is ++ is2 ++ [Instr.map]) c st).1 = c2 ∧ (_ → (runI (is ++ is2 ++ [Instr.map]) c st).2 = none)
                              rw [runI_abort_append _ _ _ _ (by rw [hrun]; exact j3), hrun]
                              exact ⟨j1, fun _ => j3⟩
                          | some q2 =>
                            obtain ⟨v, tv2⟩ := q2
                            have j1 : r2 = some tv2 := ih2.1
                            have j2 : runI is2 c1 (k :: st) = (c2, some (v :: k :: st)) := ih2.2
                            subst j1
                            refine ⟨rfl, ?_⟩
                            show runI (is ++ is2 ++ [Instr.map]) c st = _
                            rw [runI_append, hrun, j2]
                            simp [runI, stepI]
              · by_cases h7 : b.toNat = tvUnion
                · rw [byte_eq_byteOf b _ h7, decodeTV_union, compileTV_union]
                  cases hn : decodeLength tv with
                  | none => exact SimTV_fail c st
                  | some p =>
                    obtain ⟨n, tv1⟩ := p
                    simp only
                    by_cases hmax : n > maxUnionTypes
                    · rw [if_pos hmax, if_pos hmax]; exact SimTV_fail c st
                    · rw [if_neg hmax, if_neg hmax]
                      have ih := simT f n c tv1 st
                      cases hd : decodeTys f n c tv1 with
                      | mk c1 o =>
                        cases hp : compileTys f n tv1 with
                        | mk is r =>
                          rw [hd, hp] at ih
                          cases o with
                          | none =>
                            have i1 : (runI is c st).1 = c1 := ih.1.1
                            have i2 : r.isSome = true → (runI is c st).2 = none := ih.1.2
                            cases r with
                            | none => exact ⟨i1, fun e => by cases e⟩
                            | some tv2 =>
                              have i3 := i2 rfl
                              show (runI (is ++ [Instr.union n]) c st).1 = c1 ∧ (_ → (runI (is ++ [Instr.union n]) c st).2 = none)
                              rw [runI_abort_append _ _ _ _ i3]
                              exact ⟨i1, fun _ => i3⟩
                          | some q =>
                            obtain ⟨ts, tv2⟩ := q
                            have i1 : r = some tv2 := ih.1.1
                            have i2 : runI is c st = (c1, some (ts.reverse ++ st)) := ih.1.2
                            have i3 : ts.length = n := ih.2 ts tv2 rfl
                            subst i1
                            refine ⟨rfl, ?_⟩
                            show runI (is ++ [Instr.union n]) c st = _
                            rw [runI_append, i2]
                            have hp := popN_append ts st
                            rw [i3] at hp
                            simp [runI, stepI, hp]
                · by_cases h8 : b.toNat = tvEnum
                  · rw [byte_eq_byteOf b _ h8, decodeTV_enum, compileTV_enum]
                    cases hn : decodeLength tv with
                    | none => exact SimTV_fail c st
                    | some p =>
                      obtain ⟨n, tv1⟩ := p
                      simp only
                      by_cases hmax : n > maxEnumSymbols
                      · rw [if_pos hmax, if_pos hmax]; exact SimTV_fail c st
                      · rw [if_neg hmax, if_neg hmax]
                        cases hs : decodeSyms n tv1 with
                        | none => exact SimTV_fail c st
                        | some q =>
                          obtain ⟨syms, tv2⟩ := q
                          exact ⟨rfl, by simp [runI, stepI]⟩
                  · by_cases h9 : b.toNat = tvError
                    · rw [byte_eq_byteOf b _ h9, decodeTV_error, compileTV_error]
                      exact SimTV_wrap c st _ _ (fun c t => c.lookupError t) .error (fun _ _ _ => rfl) (simTV f c tv st)
                    · rw [decodeTV_other f c b tv h1 h2 h3 h4 h5 h6 h7 h8 h9,
                        compileTV_other f b tv h1 h2 h3 h4 h5 h6 h7 h8 h9]
                      cases hpr : primitiveByID? b.toNat with
                      | none => exact SimTV_fail c st
                      | some t => exact ⟨rfl, by simp [runI, stepI, hpr]⟩
theorem simF : (f n : Nat) → (c : Ctx) → (tv : Bytes) → (st : List Ty) →
    SimF c st (decodeFields f n c tv) (compileFields f n tv)
  | f, 0, c, tv, st => by
    rw [decodeFields, compileFields]; exact ⟨rfl, by simp [runI]⟩
  | 0, n+1, c, tv, st => by
    rw [decodeFields, compileFields]; exact ⟨by simp [runI], fun e => by cases e⟩
  | f+1, n+1, c, tv, st => by
    rw [decodeFields, compileFields]
    cases hn : decodeName tv with
    | none => exact ⟨by simp [runI], fun e => by cases e⟩
    | some p =>
      obtain ⟨name, tv1⟩ := p
      simp only
      have ih := simTV f c tv1 st
      cases hd : decodeTV f c tv1 with
      | mk c1 o =>
        cases hp : compileTV f tv1 with
        | mk is r =>
          rw [hd, hp] at ih
          cases o with
          | none =>
            have i1 : (runI is c st).1 = c1 := ih.1
            have i2 : r.isSome = true → (runI is c st).2 = none := ih.2
            cases r with
            | none => exact ⟨i1, fun e => by cases e⟩
            | some tv2 =>
              have i3 := i2 rfl
              simp only
              cases hp2 : compileFields f n tv2 with
              | mk is2 r2 =>
                cases r2 with
                | none =>
                  show (runI (is ++ is2) c st).1 = c1 ∧ _
                  rw [runI_abort_append _ _ _ _ i3]
                  exact ⟨i1, fun e => by cases e⟩
                | some q2 =>
                  obtain ⟨names, tv3⟩ := q2
                  show (runI (is ++ is2) c st).1 = c1 ∧ (_ → (runI (is ++ is2) c st).2 = none)
                  rw [runI_abort_append _ _ _ _ i3]
                  exact ⟨i1, fun _ => i3⟩
          | some q =>
            obtain ⟨t, tv2⟩ := q
            have i1 : r = some tv2 := ih.1
            have i2 : runI is c st = (c1, some (t :: st)) := ih.2
            subst i1
            simp only
            have ih2 := simF f n c1 tv2 (t :: st)
            cases hd2 : decodeFields f n c1 tv2 with
            | mk c2 o2 =>
              cases hp2 : compileFields f n tv2 with
              | mk is2 r2 =>
                rw [hd2, hp2] at ih2
                have hrun : runI (is ++ is2) c st = runI is2 c1 (t :: st) := by
                  rw [runI_append, i2]
                cases o2 with
                | none =>
                  have j1 : (runI is2 c1 (t :: st)).1 = c2 := ih2.1
                  have j2 : r2.isSome = true → (runI is2 c1 (t :: st)).2 = none := ih2.2
                  cases r2 with
                  | none =>
                    show (runI (is ++ is2) c st).1 = c2 ∧ _
                    rw [hrun]; exact ⟨j1, fun e => by cases e⟩
                  | some q2 =>
                    obtain ⟨names, tv3⟩ := q2
                    show (runI (is ++ is2) c st).1 = c2 ∧ (_ → (runI (is ++ is2) c st).2 = none)
                    rw [hrun]; exact ⟨j1, fun _ => j2 rfl⟩
                | some q2 =>
                  obtain ⟨fs, tv3⟩ := q2
                  have j1 : r2 = some (fs.map (·.1), tv3) := ih2.1
                  have j2 : runI is2 c1 (t :: st) = (c2, some ((fs.map (·.2)).reverse ++ (t :: st))) := ih2.2
                  subst j1
                  refine ⟨rfl, ?_⟩
                  show runI (is ++ is2) c st = _
                  rw [hrun, j2]
                  simp
theorem simT : (f n : Nat) → (c : Ctx) → (tv : Bytes) → (st : List Ty) →
    SimT c st (decodeTys f n c tv) (compileTys f n tv) ∧
      ∀ ts rest, (decodeTys f n c tv).2 = some (ts, rest) → ts.length = n
  | f, 0, c, tv, st => by
    rw [decodeTys, compileTys]; exact ⟨⟨rfl, by simp [runI]⟩, fun ts rest e => by cases e; rfl⟩
  | 0, n+1, c, tv, st => by
    rw [decodeTys, compileTys]; exact ⟨⟨by simp [runI], fun e => by cases e⟩, fun _ _ e => by cases e⟩
  | f+1, n+1, c, tv, st => by
    rw [decodeTys, compileTys]
    have ih := simTV f c tv st
    cases hd : decodeTV f c tv with
    | mk c1 o =>
      cases hp : compileTV f tv with
      | mk is r =>
        rw [hd, hp] at ih
        cases o with
        | none =>
          have i1 : (runI is c st).1 = c1 := ih.1
          have i2 : r.isSome = true → (runI is c st).2 = none := ih.2
          refine ⟨?_, fun _ _ e => by cases e⟩
          cases r with
          | none => exact ⟨i1, fun e => by cases e⟩
          | some tv2 =>
            have i3 := i2 rfl
            simp only
            cases hp2 : compileTys f n tv2 with
            | mk is2 r2 =>
              cases r2 with
              | none =>
                show (runI (is ++ is2) c st).1 = c1 ∧ _
                rw [runI_abort_append _ _ _ _ i3]
                exact ⟨i1, fun e => by cases e⟩
              | some tv3 =>
                show (runI (is ++ is2) c st).1 = c1 ∧ (_ → (runI (is ++ is2) c st).2 = none)
                rw [runI_abort_append _ _ _ _ i3]
                exact ⟨i1, fun _ => i3⟩
        | some q =>
          obtain ⟨t, tv2⟩ := q
          have i1 : r = some tv2 := ih.1
          have i2 : runI is c st = (c1, some (t :: st)) := ih.2
          subst i1
          simp only
          have ih2 := simT f n c1 tv2 (t :: st)
          cases hd2 : decodeTys f n c1 tv2 with
          | mk c2 o2 =>
            cases hp2 : compileTys f n tv2 with
            | mk is2 r2 =>
              rw [hd2, hp2] at ih2
              have hrun : runI (is ++ is2) c st = runI is2 c1 (t :: st) := by
                rw [runI_append, i2]
              cases o2 with
              | none =>
                have j1 : (runI is2 c1 (t :: st)).1 = c2 := ih2.1.1
                have j2 : r2.isSome = true → (runI is2 c1 (t :: st)).2 = none := ih2.1.2
                refine ⟨?_, fun _ _ e => by cases e⟩
                cases r2 with
                | none =>
                  show (runI (is ++ is2) c st).1 = c2 ∧ _
                  rw [hrun]; exact ⟨j1, fun e => by cases e⟩
                | some tv3 =>
                  show (runI (is ++ is2) c st).1 = c2 ∧ (_ → (runI (is ++ is2) c st).2 = none)
                  rw [hrun]; exact ⟨j1, fun _ => j2 rfl⟩
              | some q2 =>
                obtain ⟨ts, tv3⟩ := q2
                have j1 : r2 = some tv3 := ih2.1.1
                have j2 : runI is2 c1 (t :: st) = (c2, some (ts.reverse ++ (t :: st))) := ih2.1.2
                have j3 : ts.length = n := ih2.2 ts tv3 rfl
                subst j1
                refine ⟨⟨rfl, ?_⟩, fun ts' rest' e => by cases e; simp [j3]⟩
                show runI (is ++ is2) c st = _
                rw [hrun, j2]
                simp
end

theorem runD_done : (n : Nat) → (c : Ctx) → (tv : Bytes) → (r : Option Ty) →
    runD n c { tv := tv, ph := .done r } = (c, { tv := tv, ph := .done r })
  | 0, _, _, _ => rfl
  | n+1, c, tv, r => by simp only [runD, stepD]; exact runD_done n c tv r

theorem runD_run : (is : List Instr) → (c : Ctx) → (st : List Ty) → (parsed : Bool) → (tv : Bytes) →
    runD is.length c { tv := tv, ph := .run is st parsed } =
      match runI is c st with
      | (c', some st') => (c', { tv := tv, ph := .run [] st' parsed })
      | (c', none) => (c', { tv := tv, ph := .done none })
  | [], c, st, parsed, tv => by simp [runD, runI]
  | i :: is, c, st, parsed, tv => by
    simp only [length_cons, runD, stepD, runI]
    cases h : c.stepI st i with
    | mk c1 o =>
      cases o with
      | none => simp only; exact runD_done _ _ _ _
      | some st1 => simp only; exact runD_run is c1 st1 parsed tv

theorem runD_add : (n m : Nat) → (c : Ctx) → (d : DThread) →
    runD (n + m) c d = runD m (runD n c d).1 (runD n c d).2
  | 0, m, c, d => by simp [runD]
  | n+1, m, c, d => by
    have : n + 1 + m = (n + m) + 1 := by omega
    rw [this]; simp only [runD]; exact runD_add n m _ _

/-- **a `LookupByValue` thread that runs alone is `lookupByValue`** (the big-step model the harness
    compares with the real code) -/
theorem runD_solo (c : Ctx) (tv : Bytes) :
    ∃ n, runD n c (startD tv) = ((c.lookupByValue tv).2, { tv := tv, ph := .done (c.lookupByValue tv).1 }) := by
  unfold lookupByValue
  cases hl : c.toType.lookup tv with
  | some t => exact ⟨1, by simp [runD, stepD, startD, hl]⟩
  | none =>
    have sim := simTV (tv.length + 1) c tv []
    refine ⟨1 + ((prog tv).1.length + 1), ?_⟩
    rw [runD_add 1]
    have h1 : runD 1 c (startD tv) = (c, { tv := tv, ph := .run (prog tv).1 [] (prog tv).2 }) := by
      simp [runD, stepD, startD, hl]
    rw [h1]
    simp only
    rw [runD_add, runD_run]
    simp only [prog, decodeC] at *
    cases hd : decodeTV (tv.length + 1) c tv with
    | mk c1 o =>
      cases hp : compileTV (tv.length + 1) tv with
      | mk is r =>
        rw [hd, hp] at sim
        cases o with
        | none =>
          have i1 : (runI is c []).1 = c1 := sim.1
          have i2 : r.isSome = true → (runI is c []).2 = none := sim.2
          simp only
          cases hr : runI is c [] with
          | mk c2 o2 =>
            rw [hr] at i1 i2
            simp only at i1 i2
            subst i1
            cases o2 with
            | none => simp [runD, stepD]
            | some st2 =>
              have : r.isSome = false := by
                cases hh : r.isSome with
                | false => rfl
                | true => exact absurd (i2 hh) (by simp)
              simp [runD, stepD, this]
        | some q =>
          obtain ⟨t, rest⟩ := q
          have i1 : r = some rest := sim.1
          have i2 : runI is c [] = (c1, some [t]) := sim.2
          subst i1
          simp [i2, runD, stepD]

end Ctx
end Zed