import Zed.Model.Sexp
/-!
  Line-protocol driver loop shared by the per-property drivers (`Drivers/Cxx.lean`,
  generated).  One s-expression per line on stdin: `(Cxx op args…)`; one line out.
-/
namespace Zed

def dispatchLine (tag : String) (handle : List Sexp → String) (line : String) : String :=
  match Sexp.parse line with
  | some (.list (.atom t :: args)) =>
    if t == tag then handle args
    else if t == "ping" then "pong"
    else "bad-prop"
  | _ => "bad-line"

partial def driverLoop (tag : String) (handle : List Sexp → String)
    (hin hout : IO.FS.Stream) : IO Unit := do
  let line ← hin.getLine
  if line.isEmpty then return ()
  hout.putStrLn (dispatchLine tag handle line)
  hout.flush
  driverLoop tag handle hin hout

def runDriver (tag : String) (handle : List Sexp → String) : IO Unit := do
  driverLoop tag handle (← IO.getStdin) (← IO.getStdout)

end Zed
