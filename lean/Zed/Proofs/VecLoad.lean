import Zed.Model.VecLoad
import Zed.Proofs.VngColumns
/-! Lemmas for the vector read path: null flattening, slot filling, leaves and records. -/
namespace Zed.Vng
open Zed.Generated.C03

/-! ### placement of a dense column into the slots of a bitmap -/

/-- the values `xs` (one per false slot of `F`) placed at their slots. -/
def place {α : Type} : List Bool → List α → List (Option α)
  | [], _ => []
  | true :: f, xs => none :: place f xs
  | false :: f, x :: xs => some x :: place f xs
  | false :: f, [] => none :: place f []

theorem place_length {α : Type} (F : List Bool) (xs : List α) : (place F xs).length = F.length := by
  induction F generalizing xs with
  | nil => rfl
  | cons b f ih => cases b <;> cases xs <;> simp [place, ih]

/-- a bitmap pointer agrees with the list `F` from slot `off` on. -/
def AgreesFrom (b : Bitmap) (off : Nat) (F : List Bool) : Prop :=
  ∀ i, i < F.length → b.get (off + i) = F.getD i false

def Agrees (b : Bitmap) (F : List Bool) : Prop := AgreesFrom b 0 F

theorem AgreesFrom.tail {b : Bitmap} {off : Nat} {x : Bool} {F : List Bool}
    (h : AgreesFrom b off (x :: F)) : b.get off = x ∧ AgreesFrom b (off + 1) F := by
  refine ⟨by simpa using h 0 (by simp), ?_⟩
  intro i hi
  have := h (i + 1) (by simp; omega)
  simpa [Nat.add_assoc, Nat.add_comm 1 i] using this

theorem Agrees.some (F : List Bool) : Agrees (some F) F := by
  intro i _; simp [Bitmap.get]

theorem Agrees.none (n : Nat) : Agrees none (List.replicate n false) := by
  intro i hi
  simp only [List.length_replicate] at hi
  simp [Bitmap.get, List.getD_eq_getElem?_getD, hi]

/-- `convolve` is placement of the child's bits, parent nulls staying null. -/
theorem convolve_eq_place (P C : List Bool) (h : P.count false = C.length) :
    convolve P C = (place P C).map (·.getD true) := by
  induction P generalizing C with
  | nil => rfl
  | cons b f ih =>
    cases b with
    | true => simp [convolve, place, ih C (by simpa using h)]
    | false =>
      cases C with
      | nil => simp at h
      | cons c cs => simp [convolve, place, ih cs (by simpa using h)]

@[simp] theorem Val.toOpt_null : Val.toOpt .null = none := rfl
@[simp] theorem Val.toOpt_prim (b : Bytes) : Val.toOpt (.prim b) = some (.prim b) := rfl
@[simp] theorem Val.toOpt_cont (xs : Vals) : Val.toOpt (.cont xs) = some (.cont xs) := rfl
@[simp] theorem Val.toOpt_union (t : Nat) (v : Val) : Val.toOpt (.union t v) = some (.union t v) := rfl
@[simp] theorem Val.isNull_null : Val.isNull .null = true := rfl
@[simp] theorem Val.isNull_prim (b : Bytes) : Val.isNull (.prim b) = false := rfl
@[simp] theorem Val.isNull_cont (xs : Vals) : Val.isNull (.cont xs) = false := rfl
@[simp] theorem Val.isNull_union (t : Nat) (v : Val) : Val.isNull (.union t v) = false := rfl
@[simp] theorem Val.ofOpt_none : Val.ofOpt none = .null := rfl
@[simp] theorem Val.ofOpt_some (v : Val) : Val.ofOpt (some v) = v := rfl

/-- slot filling is placement. -/
theorem fillSlots_eq_place {α : Type} (dflt : α) (F : List Bool) (b : Bitmap) (off : Nat) (xs : List α)
    (h : AgreesFrom b off F) :
    fillSlots dflt F.length off b xs = (place F xs).map (·.getD dflt) := by
  induction F generalizing off xs with
  | nil => rfl
  | cons x f ih =>
    obtain ⟨h0, h1⟩ := h.tail
    cases x with
    | true => simp [fillSlots, h0, place, ih (off + 1) xs h1]
    | false =>
      cases xs with
      | nil => simp [fillSlots, h0, place, ih (off + 1) [] h1]
      | cons y ys => simp [fillSlots, h0, place, ih (off + 1) ys h1]

/-- expanding the column of a nullable node into its parent's slots. -/
def expandVal (F : List Bool) (vs : List Val) : List Val := (place F vs).map Val.ofOpt

theorem expandVal_length (F : List Bool) (vs : List Val) : (expandVal F vs).length = F.length := by
  simp [expandVal, place_length]

/-- **convolve_correct (core)**: placing a column with its own nulls into the parent's
    slots is placing its non-null values into the slots of the convolved bitmap. -/
theorem expandVal_convolve (P : List Bool) (vs : List Val) (hlen : P.count false = vs.length) :
    expandVal P vs = expandVal (convolve P (vs.map Val.isNull)) (nonNull vs) ∧
    (convolve P (vs.map Val.isNull)).length = P.length ∧
    (convolve P (vs.map Val.isNull)).count false = (nonNull vs).length ∧
    (convolve P (vs.map Val.isNull)).count true = P.count true + (vs.map Val.isNull).count true := by
  induction P generalizing vs with
  | nil =>
    have : vs = [] := by simpa using hlen.symm
    subst this; simp [expandVal, place, convolve, nonNull]
  | cons b f ih =>
    cases b with
    | true =>
      obtain ⟨h1, h2, h3, h4⟩ := ih vs (by simpa using hlen)
      simp only [expandVal] at h1
      refine ⟨by simp [expandVal, place, convolve, h1], by simp [convolve, h2], by simp [convolve, h3], ?_⟩
      simp [convolve, h4]; omega
    | false =>
      cases vs with
      | nil => simp at hlen
      | cons v vs =>
        obtain ⟨h1, h2, h3, h4⟩ := ih vs (by simpa using hlen)
        simp only [expandVal] at h1
        have key : ∀ (w : Val) (isn : Bool), w.isNull = isn →
            (isn = true → w.toOpt = none ∧ w = .null) → (isn = false → w.toOpt = some w) →
            expandVal (false :: f) (w :: vs) =
              expandVal (convolve (false :: f) ((w :: vs).map Val.isNull)) (nonNull (w :: vs)) ∧
            (convolve (false :: f) ((w :: vs).map Val.isNull)).length = (false :: f).length ∧
            (convolve (false :: f) ((w :: vs).map Val.isNull)).count false = (nonNull (w :: vs)).length ∧
            (convolve (false :: f) ((w :: vs).map Val.isNull)).count true =
              (false :: f).count true + ((w :: vs).map Val.isNull).count true := by
          intro w isn hw hn hs
          cases isn with
          | true =>
            obtain ⟨ht, rfl⟩ := hn rfl
            refine ⟨?_, by simp [convolve, h2], ?_, ?_⟩
            · simp only [expandVal, place, List.map_cons, convolve, Val.isNull_null, nonNull,
                List.filterMap_cons, Val.toOpt_null, Val.ofOpt_some, Val.ofOpt_none]
              simp only [nonNull] at h1
              rw [h1]
            · simp only [List.map_cons, Val.isNull_null, convolve, nonNull, List.filterMap_cons,
                Val.toOpt_null]
              simp only [nonNull] at h3
              simp [h3]
            · simp [convolve, h4]; omega
          | false =>
            have ht := hs rfl
            refine ⟨?_, by simp [convolve, h2], ?_, ?_⟩
            · simp only [expandVal, place, List.map_cons, convolve, hw, nonNull,
                List.filterMap_cons, ht, Val.ofOpt_some]
              simp only [nonNull] at h1
              rw [h1]
            · simp only [List.map_cons, hw, convolve, nonNull, List.filterMap_cons, ht,
                List.length_cons]
              simp only [nonNull] at h3
              simp [h3]
            · simp [convolve, hw, h4]
        cases v with
        | null => exact key _ true rfl (fun _ => ⟨rfl, rfl⟩) (fun h => by cases h)
        | prim x => exact key _ false rfl (fun h => by cases h) (fun _ => rfl)
        | cont x => exact key _ false rfl (fun h => by cases h) (fun _ => rfl)
        | union t x => exact key _ false rfl (fun h => by cases h) (fun _ => rfl)

end Zed.Vng

namespace Zed.Vng
open Zed.Generated.C03

/-- number of value slots before `slot`. -/
def rank (F : List Bool) (slot : Nat) : Nat := (F.take slot).count false

theorem place_getElem {α : Type} (F : List Bool) (xs : List α) (slot : Nat) (hs : slot < F.length)
    (hlen : F.count false = xs.length) :
    (place F xs)[slot]? = some (if F.getD slot false = true then none else xs[rank F slot]?) ∧
    (F.getD slot false = false → rank F slot < xs.length) := by
  induction F generalizing xs slot with
  | nil => simp at hs
  | cons b f ih =>
    cases b with
    | true =>
      cases slot with
      | zero => simp [place, rank]
      | succ s =>
        obtain ⟨h1, h2⟩ := ih xs s (by simpa using hs) (by simpa using hlen)
        refine ⟨by simpa [place, rank] using h1, by simpa [rank] using h2⟩
    | false =>
      cases xs with
      | nil => simp at hlen
      | cons x xs =>
        cases slot with
        | zero => simp [place, rank]
        | succ s =>
          obtain ⟨h1, h2⟩ := ih xs s (by simpa using hs) (by simpa using hlen)
          refine ⟨?_, ?_⟩
          · simpa [place, rank] using h1
          · intro h; have := h2 (by simpa using h); simp [rank] at this ⊢; omega

theorem count_true_false (F : List Bool) : F.count true + F.count false = F.length := by
  induction F with
  | nil => rfl
  | cons b f ih => cases b <;> simp <;> omega

/-- how a bitmap pointer represents a list of bits. -/
inductive Rep : Bitmap → List Bool → Prop where
  | some (F : List Bool) : Rep (some F) F
  | none (n : Nat) : Rep none (List.replicate n false)

theorem Rep.get {b : Bitmap} {F : List Bool} (h : Rep b F) (slot : Nat) (hs : slot < F.length) :
    b.get slot = F.getD slot false := by
  cases h with
  | some F => simp [Bitmap.get]
  | none n =>
    simp only [List.length_replicate] at hs
    simp [Bitmap.get, List.getD_eq_getElem?_getD, hs]

theorem Rep.agrees {b : Bitmap} {F : List Bool} (h : Rep b F) : AgreesFrom b 0 F := by
  intro i hi; simpa using h.get i hi

theorem convolve_allfalse (n : Nat) (C : List Bool) (h : C.length = n) :
    convolve (List.replicate n false) C = C := by
  induction n generalizing C with
  | zero => cases C <;> simp_all [convolve]
  | succ n ih =>
    cases C with
    | nil => simp at h
    | cons c cs => simp [List.replicate_succ, convolve, ih cs (by simpa using h)]

theorem Rep.flatten {P : Bitmap} {Fp : List Bool} (h : Rep P Fp) (runs : List Nat) (k : Nat)
    (hl : (nullsFetch false runs).length = Fp.count false) :
    Rep (flattenNulls P (Option.some (runs, k))) (convolve Fp (nullsFetch false runs)) := by
  cases h with
  | some F => exact Rep.some _
  | none n =>
    simp only [flattenNulls]
    rw [convolve_allfalse n _ (by simpa using hl)]
    exact Rep.some _

theorem map_isNone_toOpt (vs : List Val) : (vs.map Val.toOpt).map Option.isNone = vs.map Val.isNull := by
  induction vs with
  | nil => rfl
  | cons v vs ih => cases v <;> simp [ih]

/-- **the `Nulls` wrapper on the vector path.**  Loading a `NullsEncoder`'s output under the
    parent bitmap `Fp` is loading the wrapped column under the convolved bitmap `F`, with the
    non-null values as its column. -/
theorem load_nullsWrap (vs : List Val) (c : Col) (P : Bitmap) (Fp : List Bool)
    (hR : Rep P Fp) (hlen : Fp.count false = vs.length) :
    ∃ own F, load (nullsWrap vs c) P (Fp.count true) none = load c P (F.count true) own ∧
      Rep (flattenNulls P own) F ∧ F.length = Fp.length ∧ F.count false = (nonNull vs).length ∧
      expandVal Fp vs = expandVal F (nonNull vs) := by
  have hfetch : nullsFetch false (nullsEncode (vs.map Val.toOpt)).runs = vs.map Val.isNull := by
    rw [nullsFetch_eq_expand]
    show expand false (nullsState ((vs.map Val.toOpt).map Option.isNone)).finish = _
    rw [(nullsState_spec _).1, map_isNone_toOpt]
  have hcount : (nullsEncode (vs.map Val.toOpt)).count = (vs.map Val.isNull).count true := by
    show (nullsState _).count = _
    rw [(nullsState_spec _).2, map_isNone_toOpt]
  obtain ⟨e1, e2, e3, e4⟩ := expandVal_convolve Fp vs hlen
  unfold nullsWrap
  simp only
  by_cases h0 : (nullsEncode (vs.map Val.toOpt)).count = 0
  · simp only [h0, if_true]
    have hz := nullsEncode_count_zero _ h0
    rw [filterMap_id_map_toOpt] at hz
    have hvs : nonNull vs = vs := by
      have := congrArg (List.map Val.ofOpt) hz
      rw [map_ofOpt_toOpt] at this
      simpa [List.map_map, Function.comp_def, Val.ofOpt] using this.symm
    refine ⟨none, Fp, rfl, by simpa [flattenNulls] using hR, rfl, by rw [hvs]; exact hlen, by rw [hvs]⟩
  · simp only [h0, if_false]
    refine ⟨some ((nullsEncode (vs.map Val.toOpt)).runs, (nullsEncode (vs.map Val.toOpt)).count),
      convolve Fp (vs.map Val.isNull), ?_, ?_, e2, e3, e1⟩
    · simp only [load, e4, hcount]
    · have := hR.flatten (nullsEncode (vs.map Val.toOpt)).runs (nullsEncode (vs.map Val.toOpt)).count
        (by rw [hfetch]; simpa using hlen.symm)
      rwa [hfetch] at this

end Zed.Vng

namespace Zed.Vng
open Zed.Generated.C03

def SlotSpec (v : Vec) (F : List Bool) (nn : List Val) : Prop :=
  v.len = F.length ∧ ∀ slot, slot < F.length → serialize v slot = (expandVal F nn)[slot]?

theorem expandVal_getElem (F : List Bool) (nn : List Val) (slot : Nat) (hs : slot < F.length)
    (hlen : F.count false = nn.length) :
    (expandVal F nn)[slot]? =
      some (if F.getD slot false = true then Val.null else Val.ofOpt nn[rank F slot]?) := by
  obtain ⟨h1, _⟩ := place_getElem F nn slot hs hlen
  simp only [expandVal, List.getElem?_map, h1, Option.map_some]
  cases h : F.getD slot false <;> simp

theorem dictBuild_pointwise (es : List (Bytes × Nat)) (sel : List Nat) (bytes : List Bytes)
    (h : dictBuild es sel = some bytes) :
    sel.length = bytes.length ∧
    ∀ k, k < sel.length → ((es.map (·.1))[sel.getD k 0]?) = bytes[k]? := by
  induction sel generalizing bytes with
  | nil => simp [dictBuild] at h; subst h; simp
  | cons s r ih =>
    simp only [dictBuild] at h
    cases he : es[s]? with
    | none => simp [he] at h
    | some e =>
      simp only [he] at h
      cases hr : dictBuild es r with
      | none => simp [hr] at h
      | some bs =>
        simp only [hr, Option.map_some, Option.some.injEq] at h
        subst h
        obtain ⟨i1, i2⟩ := ih bs hr
        refine ⟨by simp [i1], ?_⟩
        intro k hk
        cases k with
        | zero => simp [List.getElem?_map, he]
        | succ k => simpa using i2 k (by simpa using hk)

theorem allTrue_of_count_false_zero (F : List Bool) (h : F.count false = 0) (slot : Nat)
    (hs : slot < F.length) : F.getD slot false = true := by
  induction F generalizing slot with
  | nil => simp at hs
  | cons b f ih =>
    cases b with
    | false => simp at h
    | true =>
      cases slot with
      | zero => simp
      | succ s => simpa using ih (by simpa using h) s (by simpa using hs)

theorem rank_replicate_false (n slot : Nat) (h : slot ≤ n) : rank (List.replicate n false) slot = slot := by
  simp [rank, List.take_replicate, Nat.min_eq_left h]

theorem prim_getElem (nn : List Val) (hprim : ∀ v ∈ nn, ∃ x, v = .prim x) (k : Nat) :
    Val.ofOpt nn[k]? = Val.ofOpt (((nn.map Val.primBytes)[k]?).map Val.prim) := by
  induction nn generalizing k with
  | nil => simp
  | cons v r ih =>
    obtain ⟨x, rfl⟩ := hprim v (by simp)
    cases k with
    | zero => simp [Val.primBytes]
    | succ k => simpa using ih (fun v hv => hprim v (List.mem_cons_of_mem _ hv)) k

/-- **leaves on the vector path**: whichever of plain / dictionary / const the column was
    stored as, and whatever the (already flattened) null bitmap, slot `s` serialises to null
    when the bitmap says so and to the `rank s`-th value otherwise. -/
theorem loadLeaf_spec (t : Ty) (id : Nat) (nn : List Val) (b : Bitmap) (F : List Bool)
    (hR : Rep b F) (hcnt : F.count false = nn.length) (hprim : ∀ v ∈ nn, ∃ x, v = .prim x)
    (hE : isEnumTy t = false) (hnull : isNullTy t = true → nn = []) :
    ∃ v, loadLeaf t (primEncode id true (nn.map Val.primBytes))
        (F.count true + (primEncode id true (nn.map Val.primBytes)).len) b = some v ∧
      vecType v = t ∧ SlotSpec v F nn := by
  have hb := primEncode_build id true (nn.map Val.primBytes)
  have hl := primEncode_len id true (nn.map Val.primBytes)
  have hL : F.count true + (primEncode id true (nn.map Val.primBytes)).len = F.length := by
    rw [hl, List.length_map, ← hcnt]; exact count_true_false F
  rw [hL]
  have hget := fun slot hs => hR.get slot hs
  have hexp := fun slot hs => expandVal_getElem F nn slot hs hcnt
  have hrank := fun slot hs => (place_getElem F nn slot hs hcnt).2
  generalize primEncode id true (nn.map Val.primBytes) = p at hb hl
  unfold loadLeaf
  simp only [hE, Bool.false_eq_true, if_false]
  cases p with
  | const v c =>
    refine ⟨_, rfl, rfl, rfl, ?_⟩
    intro slot hs
    simp only [serialize, hget slot hs, hexp slot hs, hs, if_true]
    cases hf' : F.getD slot false with
    | true => simp
    | false =>
      simp only [Bool.false_eq_true, if_false, Option.some.injEq]
      rw [prim_getElem nn hprim]
      have hk := hrank slot hs hf'
      simp only [PCol.build, Option.some.injEq] at hb
      have : (nn.map Val.primBytes)[rank F slot]? = some v := by
        rw [← hb]; simp only [PCol.len] at hl
        rw [List.getElem?_replicate]; simp; rw [hl]; simpa using hk
      simp [this]
  | dict es sel c =>
    simp only [PCol.build] at hb
    obtain ⟨d1, d2⟩ := dictBuild_pointwise es sel _ hb
    have hsel : F.count false = sel.length := by rw [d1, List.length_map]; exact hcnt
    have hidx : ∀ slot, slot < F.length → F.getD slot false = false →
        (if b.isSome then fillTags F.length 0 b sel else sel)[slot]? = some (sel.getD (rank F slot) 0) := by
      intro slot hs hf
      have hk := (place_getElem F sel slot hs hsel).2 hf
      cases hR with
      | some F =>
        simp only [Option.isSome_some, if_true, fillTags]
        rw [fillSlots_eq_place 0 F (some F) 0 sel (Rep.some F).agrees, List.getElem?_map,
          (place_getElem F sel slot hs hsel).1]
        simp only [hf, Bool.false_eq_true, if_false, Option.map_some, List.getElem?_eq_getElem hk,
          Option.getD_some, List.getD_eq_getElem?_getD]
      | none n =>
        simp only [Option.isSome_none, Bool.false_eq_true, if_false]
        simp only [List.length_replicate] at hs
        rw [rank_replicate_false n slot (by omega)] at hk ⊢
        simp [List.getD_eq_getElem?_getD, List.getElem?_eq_getElem hk]
    refine ⟨_, rfl, rfl, ?_, ?_⟩
    · -- length of the index
      cases hR with
      | some F => simp [Vec.len, fillTags, fillSlots_eq_place 0 F (some F) 0 sel (Rep.some F).agrees, place_length]
      | none n => simpa [Vec.len] using hsel.symm
    · intro slot hs
      simp only [serialize, hget slot hs, hexp slot hs]
      cases hf' : F.getD slot false with
      | true => simp
      | false =>
        have hk := (place_getElem F sel slot hs hsel).2 hf'
        simp only [Bool.false_eq_true, if_false, hidx slot hs hf', Option.some.injEq]
        rw [prim_getElem nn hprim, d2 _ hk]
        have : (nn.map Val.primBytes)[rank F slot]? = some ((nn.map Val.primBytes)[rank F slot]'(by rw [← d1]; exact hk)) :=
          List.getElem?_eq_getElem _
        rw [this]; simp
  | plain vals c =>
    simp only [PCol.build, Option.some.injEq] at hb
    subst hb
    simp only [PCol.len] at hl
    by_cases hnt : isNullTy t = true
    · have hnn := hnull hnt
      subst hnn
      simp only [hnt, if_true]
      have ht : t = .prim 29 := by
        unfold isNullTy at hnt
        split at hnt
        · rfl
        · cases hnt
      refine ⟨_, rfl, by simp [vecType, ht], rfl, ?_⟩
      intro slot hs
      simp only [serialize, hexp slot hs]
      have := allTrue_of_count_false_zero F (by simpa using hcnt) slot hs
      simp only [this, if_true]
    · simp only [hnt, Bool.false_eq_true, if_false]
      by_cases hc0 : c = 0
      · simp only [hc0, if_true]
        refine ⟨_, rfl, rfl, by simp [Vec.len], ?_⟩
        intro slot hs
        have hz : F.count false = 0 := by rw [hcnt]; simpa [hc0] using hl.symm
        have := allTrue_of_count_false_zero F hz slot hs
        simp only [serialize, hget slot hs, hexp slot hs, this, if_true]
      · have hNA : (isNetTy t && !netAllocated) = false := by
          have : netAllocated = true := by decide
          simp [this]
        simp only [hc0, if_false, hNA, Bool.false_eq_true]
        have hfill := fillSlots_eq_place ([] : Bytes) F b 0 (nn.map Val.primBytes) hR.agrees
        refine ⟨_, rfl, rfl, by simp [Vec.len, hfill, place_length], ?_⟩
        intro slot hs
        simp only [serialize, hget slot hs, hexp slot hs, hfill]
        cases hf' : F.getD slot false with
        | true => simp
        | false =>
          have hk := hrank slot hs hf'
          simp only [hf', Bool.false_eq_true, if_false, List.getElem?_map,
            (place_getElem F (nn.map Val.primBytes) slot hs (by simpa using hcnt)).1, Option.map_some,
            Option.some.injEq]
          rw [prim_getElem nn hprim]
          have : (nn.map Val.primBytes)[rank F slot]? = some ((nn.map Val.primBytes)[rank F slot]'(by simpa using hk)) :=
            List.getElem?_eq_getElem _
          simp [this, List.getElem?_eq_getElem hk]

end Zed.Vng

namespace Zed.Vng
open Zed.Generated.C03

/-! ### the flat fragment: primitives (every primitive type; no enum), records, named types -/

mutual
/-- types of the fragment for which the vector path is proved below. -/
def flatTy : Ty → Bool
  | .prim _ => true
  | .record fs => flatFields fs
  | .named _ t => flatTy t
  | _ => false
def flatFields : Fields → Bool
  | .nil => true
  | .cons _ t rest => flatTy t && flatFields rest
end

def LoadSpec (t : Ty) : Prop :=
  ∀ (vs : List Val) (P : Bitmap) (Fp : List Bool), Rep P Fp → Fp.count false = vs.length →
    (∀ v ∈ vs, conforms t v = true) →
    ∃ v, load (enc t vs) P (Fp.count true) none = some v ∧ vecType v = t ∧ v.len = Fp.length ∧
      ∀ slot, slot < Fp.length → serialize v slot = (expandVal Fp vs)[slot]?

def FieldsSpec (fs : Fields) : Prop :=
  ∀ (rows : List (List Val)) (b : Bitmap) (F : List Bool), Rep b F → F.count false = rows.length →
    (∀ r ∈ rows, conformsRow fs r = true) →
    ∃ fvs, loadFields (encFields fs rows) b (F.count true) = some fvs ∧ fvecTypes fvs = fs ∧
      ∀ slot, slot < F.length → F.getD slot false = false →
        serializeFields fvs slot = rows[rank F slot]?

theorem expandVal_at_value (F : List Bool) (col : List Val) (slot : Nat) (hs : slot < F.length)
    (hlen : F.count false = col.length) (hf : F.getD slot false = false) :
    (expandVal F col)[slot]? = col[rank F slot]? ∧ rank F slot < col.length := by
  have h1 := expandVal_getElem F col slot hs hlen
  have h2 := (place_getElem F col slot hs hlen).2 hf
  refine ⟨?_, h2⟩
  rw [h1]; simp only [hf, Bool.false_eq_true, if_false, List.getElem?_eq_getElem h2, Val.ofOpt_some]

mutual
theorem loadSpec_flat : ∀ t : Ty, flatTy t = true → LoadSpec t
  | .prim id, hflat => by
    intro vs P Fp hR hlen hconf
    obtain ⟨own, F, hload, hRF, hFl, hFc, hexp⟩ :=
      load_nullsWrap vs (.prim (.prim id) (primEncode id true ((nonNull vs).map Val.primBytes))) P Fp hR hlen
    have hprim : ∀ v ∈ nonNull vs, ∃ x, v = .prim x := fun v hv =>
      conforms_prim_nonnull (hconf v (mem_nonNull hv).1) (mem_nonNull hv).2
    obtain ⟨v, hv, hty, hlen', hspec⟩ := loadLeaf_spec (.prim id) id (nonNull vs) (flattenNulls P own) F hRF hFc hprim
      rfl
      (by
        intro hn
        have h29 : id = 29 := by
          unfold isNullTy at hn; split at hn
          · rename_i h; cases h; rfl
          · cases hn
        subst h29
        cases hnn : nonNull vs with
        | nil => rfl
        | cons w ws =>
          have hw : w ∈ nonNull vs := by rw [hnn]; simp
          obtain ⟨x, rfl⟩ := hprim w hw
          have := hconf _ (mem_nonNull hw).1
          simp [conforms] at this)
    refine ⟨v, ?_, hty, by rw [hlen', hFl], ?_⟩
    · simp only [enc]; rw [hload]; simpa [load] using hv
    · intro slot hs
      rw [hexp]; exact hspec slot (by rw [hFl]; exact hs)
  | .named n t, hflat => by
    intro vs P Fp hR hlen hconf
    obtain ⟨v, hv, hty, hl, hs⟩ := loadSpec_flat t (by simpa [flatTy] using hflat) vs P Fp hR hlen
      (by simpa [conforms] using hconf)
    refine ⟨.named n v, by simp [enc, load, hv], by simp [vecType, hty], by simpa [Vec.len] using hl, ?_⟩
    intro slot hslot
    simpa [serialize] using hs slot hslot
  | .record fs, hflat => by
    intro vs P Fp hR hlen hconf
    obtain ⟨own, F, hload, hRF, hFl, hFc, hexp⟩ :=
      load_nullsWrap vs (.record (nonNull vs).length (encFields fs ((nonNull vs).map Val.items))) P Fp hR hlen
    have hnn : ∀ v ∈ nonNull vs, ∃ xs, v = .cont xs ∧ conformsRow fs xs.toList = true :=
      fun v hv => conforms_record_nonnull (hconf v (mem_nonNull hv).1) (mem_nonNull hv).2
    obtain ⟨fvs, hfv, hfty, hfs⟩ := fieldsSpec_flat fs (by simpa [flatTy] using hflat)
      ((nonNull vs).map Val.items) (flattenNulls P own) F hRF (by simpa using hFc) (by
        intro r hr
        obtain ⟨v, hv, rfl⟩ := List.mem_map.mp hr
        obtain ⟨xs, rfl, hc⟩ := hnn v hv
        exact hc)
    have hL : F.count true + (nonNull vs).length = F.length := by rw [← hFc]; exact count_true_false F
    refine ⟨.record fvs F.length (flattenNulls P own), ?_, by simp [vecType, hfty], by simp [Vec.len, hFl], ?_⟩
    · simp only [enc]; rw [hload]; simp only [load, hfv, hL]
    · intro slot hs
      have hs' : slot < F.length := by rw [hFl]; exact hs
      rw [hexp, expandVal_getElem F (nonNull vs) slot hs' hFc]
      simp only [serialize, hRF.get slot hs']
      cases hf : F.getD slot false with
      | true => simp
      | false =>
        have hk := (place_getElem F (nonNull vs) slot hs' hFc).2 hf
        simp only [Bool.false_eq_true, if_false, hfs slot hs' hf, List.getElem?_map,
          List.getElem?_eq_getElem hk, Option.map_some, Val.ofOpt_some, Option.some.injEq]
        obtain ⟨xs, hx, _⟩ := hnn _ (List.getElem_mem hk)
        rw [hx]; simp [Vals.ofList_toList]
  | .enum _, h => by simp [flatTy] at h
  | .array _, h => by simp [flatTy] at h
  | .set _, h => by simp [flatTy] at h
  | .map _ _, h => by simp [flatTy] at h
  | .union _, h => by simp [flatTy] at h
  | .error _, h => by simp [flatTy] at h

theorem fieldsSpec_flat : ∀ fs : Fields, flatFields fs = true → FieldsSpec fs
  | .nil, _ => by
    intro rows b F hR hlen hconf
    refine ⟨.nil, rfl, rfl, ?_⟩
    intro slot hs hf
    have hk := (place_getElem F rows slot hs hlen).2 hf
    have : rows[rank F slot] = [] := conformsRow_nil (hconf _ (List.getElem_mem hk))
    simp [serializeFields, List.getElem?_eq_getElem hk, this]
  | .cons n t rest, hflat => by
    intro rows b F hR hlen hconf
    have hf2 : flatTy t = true ∧ flatFields rest = true := by simpa [flatFields] using hflat
    obtain ⟨v, hv, hty, _, hs⟩ := loadSpec_flat t hf2.1 (rows.map headV) b F hR (by simpa using hlen) (by
      intro x hx
      obtain ⟨r, hr, rfl⟩ := List.mem_map.mp hx
      exact (conformsRow_cons (hconf r hr)).2.1)
    obtain ⟨fvs, hfv, hfty, hfs⟩ := fieldsSpec_flat rest hf2.2 (rows.map List.tail) b F hR (by simpa using hlen) (by
      intro r hr
      obtain ⟨r', hr', rfl⟩ := List.mem_map.mp hr
      exact (conformsRow_cons (hconf r' hr')).2.2)
    refine ⟨.cons n v fvs, by simp [encFields, loadFields, hv, hfv], by simp [fvecTypes, hty, hfty], ?_⟩
    intro slot hslot hf
    have hk := (place_getElem F rows slot hslot hlen).2 hf
    obtain ⟨e1, _⟩ := expandVal_at_value F (rows.map headV) slot hslot (by simpa using hlen) hf
    simp only [serializeFields, hs slot hslot, e1, hfs slot hslot hf, List.getElem?_map,
      List.getElem?_eq_getElem hk, Option.map_some]
    have hne := (conformsRow_cons (hconf _ (List.getElem_mem hk))).1
    cases hr : rows[rank F slot] with
    | nil => exact absurd hr hne
    | cons x xs => simp [headV]
end

end Zed.Vng

namespace Zed.Vng

theorem expandVal_replicate_false (vs : List Val) :
    expandVal (List.replicate vs.length false) vs = vs := by
  induction vs with
  | nil => rfl
  | cons v vs ih =>
    simp only [List.length_cons, List.replicate_succ, expandVal, place, List.map_cons, Val.ofOpt_some]
    simp only [expandVal] at ih
    rw [ih]

theorem mapRange_pointwise (f : Nat → Option Val) (xs : List Val) (off : Nat)
    (h : ∀ i, i < xs.length → f (off + i) = xs[i]?) : mapRange f off xs.length = some xs := by
  induction xs generalizing off with
  | nil => rfl
  | cons x xs ih =>
    have h0 := h 0 (by simp)
    simp only [Nat.add_zero, List.getElem?_cons_zero] at h0
    have := ih (off + 1) (by
      intro i hi
      have := h (i + 1) (by simpa using hi)
      simpa [Nat.add_assoc, Nat.add_comm 1 i] using this)
    simp [mapRange, h0, this]

/-- top level (no enclosing record): the loaded vector has one slot per value and slot `i`
    serialises to the `i`-th value. -/
theorem load_top_flat (t : Ty) (hflat : flatTy t = true) (vs : List Val)
    (hconf : ∀ v ∈ vs, conforms t v = true) :
    ∃ v, load (enc t vs) none 0 none = some v ∧ vecType v = t ∧ v.len = vs.length ∧
      (∀ i, i < vs.length → serialize v i = vs[i]?) ∧
      materialize v = some (vs.map fun x => (t, x)) := by
  obtain ⟨v, hv, hty, hl, hs⟩ := loadSpec_flat t hflat vs none (List.replicate vs.length false)
    (Rep.none _) (by rw [List.count_replicate_self]) hconf
  have hc : (List.replicate vs.length false).count true = 0 := by
    rw [List.count_replicate]; simp
  rw [hc] at hv
  simp only [List.length_replicate, expandVal_replicate_false] at hl hs
  refine ⟨v, hv, hty, hl, hs, ?_⟩
  simp only [materialize, hl, hty]
  rw [mapRange_pointwise (serialize v) vs 0 (by intro i hi; simpa using hs i hi)]
  simp

end Zed.Vng
