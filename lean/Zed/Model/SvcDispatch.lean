import Zed.Generated.C19
/-!
  C19 model — a service handler as *decode request → call the lake operation → encode
  response* next to direct access (`lake/api/local.go`), over an abstract lake state.

  The lake operation itself (`root.MergeBranch`, `branch.Delete`, …) is a parameter `core`:
  which operation each path reaches is regenerated from the source
  (`Zed.Generated.C19.dispatch`).  What can differ between the two paths is what is modelled:
  a guard evaluated before the operation (the empty pool name), the transport of the request,
  and — for load — the reader handed to `Branch.Load` (`warningsReader`).
-/
namespace Zed.Svc

instance {ε α : Type} [DecidableEq ε] [DecidableEq α] : DecidableEq (Except ε α)
  | .ok a, .ok b => if h : a = b then isTrue (by rw [h]) else isFalse (by intro h'; cases h'; exact h rfl)
  | .error a, .error b => if h : a = b then isTrue (by rw [h]) else isFalse (by intro h'; cases h'; exact h rfl)
  | .ok _, .error _ => isFalse (by intro h; cases h)
  | .error _, .ok _ => isFalse (by intro h; cases h)

/-- the result of an operation: a response or an error class, and the new state -/
abbrev Outcome (σ ρ : Type) := Except String ρ × σ

/-- direct access: guard, then the lake operation -/
def localRun {σ α ρ : Type} (guard : α → Option String) (core : α → σ → Outcome σ ρ) (req : α) (s : σ) :
    Outcome σ ρ :=
  match guard req with
  | some e => (.error e, s)
  | none => core req s

/-- through the service: the request travels encoded; the handler decodes it (an undecodable
    request is a 400 and leaves the state alone), applies its own guard and calls the lake
    operation; the response travels back encoded -/
def handlerRun {σ α ρ ω : Type} (decode : ω → Option α) (guard : α → Option String)
    (core : α → σ → Outcome σ ρ) (wire : ω) (s : σ) : Outcome σ ρ :=
  match decode wire with
  | none => (.error "invalid request", s)
  | some req => localRun guard core req s

/-- the row of the regenerated dispatch table for an Interface method -/
def dispatchRow (m : String) : Option (String × String × String) :=
  Generated.C19.dispatch.find? fun r => r.1 == m

/-- the handler of `m` reaches the same lake operation as direct access: literally the same
    call, or a call of the local handle's own method -/
def sameCore (m : String) : Bool :=
  match dispatchRow m with
  | some (_, l, h) => h == l || Generated.C19.viaLocalHandle.contains m
  | none => false

/-! ### load -/

/-- what the body reader yields: records (abstract) until the end or a read error -/
inductive Item where
  | recd (n : Nat)
  | err (msg : String)
  deriving DecidableEq, Repr

/-- the records before the first read error, and that error -/
def readAll : List Item → List Nat × Option String
  | [] => ([], none)
  | .recd n :: rest => let (rs, e) := readAll rest; (n :: rs, e)
  | .err m :: _ => ([], some m)

/-- `Branch.Load` on a reader: a read error abandons the load; no records is an error; otherwise
    one commit with all records (the state is the list of commits) -/
def branchLoad (body : List Item) (s : List (List Nat)) : Outcome (List (List Nat)) Unit :=
  match readAll body with
  | (_, some e) => (.error e, s)
  | ([], none) => (.error "empty transaction", s)
  | (rs, none) => (.ok (), s ++ [rs])

/-- `warningsReader`: a read error becomes end of input when `swallow` is set -/
def warningsReader (swallow : Bool) (body : List Item) : List Item :=
  if swallow then (readAll body).1.map .recd else body

/-- direct access hands the reader to `Branch.Load` as it is; the handler wraps it -/
def localLoad (body : List Item) (s : List (List Nat)) := branchLoad body s
def handlerLoad (body : List Item) (s : List (List Nat)) :=
  branchLoad (warningsReader (Generated.C19.loadReaderWrapped && Generated.C19.loadReaderSwallowsErrors) body) s

end Zed.Svc
