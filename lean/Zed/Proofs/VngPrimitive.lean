import Zed.Model.VngPrimitive
/-! Lemmas for the primitive column encodings (plain / dict / const). -/
namespace Zed.Vng
open Zed.Generated.C03

def dkeys (d : List (Bytes × Nat)) : List Bytes := d.map (·.1)

theorem dictIncr_mem (d : List (Bytes × Nat)) (b : Bytes) : b ∈ dkeys (dictIncr d b) := by
  induction d with
  | nil => simp [dictIncr, dkeys]
  | cons e r ih =>
    obtain ⟨k, c⟩ := e
    by_cases h : k = b
    · simp [dictIncr, h, dkeys]
    · simp only [dictIncr, h, if_false, dkeys, List.map_cons, List.mem_cons]
      exact Or.inr ih

theorem dictIncr_keep (d : List (Bytes × Nat)) (b x : Bytes) (hx : x ∈ dkeys d) :
    x ∈ dkeys (dictIncr d b) := by
  induction d with
  | nil => simp [dkeys] at hx
  | cons e r ih =>
    obtain ⟨k, c⟩ := e
    by_cases h : k = b
    · simpa [dictIncr, h, dkeys] using hx
    · simp only [dictIncr, h, if_false, dkeys, List.map_cons, List.mem_cons] at hx ⊢
      cases hx with
      | inl h1 => exact Or.inl h1
      | inr h1 => exact Or.inr (ih h1)

theorem dictIncr_ne_nil (d : List (Bytes × Nat)) (b : Bytes) : dictIncr d b ≠ [] := by
  cases d with
  | nil => simp [dictIncr]
  | cons e r =>
    obtain ⟨k, c⟩ := e
    by_cases h : k = b <;> simp [dictIncr, h]

theorem dictIndex_spec (d : List (Bytes × Nat)) (b : Bytes) (hb : b ∈ dkeys d) :
    dictIndex d b < d.length ∧ ∃ e, d[dictIndex d b]? = some e ∧ e.1 = b := by
  induction d with
  | nil => simp [dkeys] at hb
  | cons e r ih =>
    obtain ⟨k, c⟩ := e
    by_cases h : k = b
    · simp [dictIndex, h]
    · simp only [dkeys, List.map_cons, List.mem_cons] at hb
      have hb' : b ∈ dkeys r := by
        cases hb with
        | inl h1 => exact absurd h1.symm h
        | inr h1 => exact h1
      obtain ⟨h1, e, h2, h3⟩ := ih hb'
      refine ⟨by simp [dictIndex, h]; omega, e, ?_, h3⟩
      simp [dictIndex, h, h2]

/-- The selector width is wide enough for every dictionary that survives the overflow test:
    an obligation on the regenerated constants (`maxDictSize`, the overflow operator, the
    selector type).  This is where the 256 / 257 boundary is decided. -/
theorem dictOverflow_bound (n : Nat) (h : dictOverflow n = false) : n ≤ 2 ^ selectorBits := by
  simp [dictOverflow, dictOverflowOp, maxDictSize] at h
  simp [selectorBits]
  omega

/-- Invariant of the encoder state after the bodies `xs` were written. -/
structure PrimInv (s : PrimEnc) (xs : List Bytes) : Prop where
  vals : s.vals = xs
  count : s.count = xs.length
  keys : ∀ d, s.dict = some d → ∀ b ∈ xs, b ∈ dkeys d
  small : ∀ d, s.dict = some d → d.length ≤ 2 ^ selectorBits
  nonempty : ∀ d, s.dict = some d → xs ≠ [] → d ≠ []

theorem PrimInv.new (id : Nat) (useDict : Bool) : PrimInv (PrimEnc.new id useDict) [] := by
  refine ⟨rfl, rfl, by simp, ?_, by simp⟩
  intro d hd
  simp only [PrimEnc.new] at hd
  split at hd
  · cases hd; simp
  · cases hd

theorem PrimEnc.write_dict {s : PrimEnc} {b : Bytes} {d : List (Bytes × Nat)}
    (hd : (s.write b).dict = some d) :
    ∃ d0, s.dict = some d0 ∧ d = dictIncr d0 b ∧ dictOverflow d.length = false := by
  simp only [PrimEnc.write] at hd
  cases hs : s.dict with
  | none => simp [hs] at hd
  | some d0 =>
    simp only [hs] at hd
    by_cases ho : dictOverflow (dictIncr d0 b).length = true
    · simp [ho] at hd
    · simp only [ho] at hd
      cases hd
      exact ⟨d0, rfl, rfl, by simpa using ho⟩

theorem PrimInv.write {s : PrimEnc} {xs : List Bytes} (h : PrimInv s xs) (b : Bytes) :
    PrimInv (s.write b) (xs ++ [b]) := by
  refine ⟨by simp [PrimEnc.write, h.vals], by simp [PrimEnc.write, h.count], ?_, ?_, ?_⟩
  · intro d hd x hx
    obtain ⟨d0, hs, rfl, ho⟩ := PrimEnc.write_dict hd
    simp only [List.mem_append, List.mem_singleton] at hx
    cases hx with
    | inl h1 => exact dictIncr_keep _ _ _ (h.keys d0 hs x h1)
    | inr h1 => subst h1; exact dictIncr_mem _ _
  · intro d hd
    obtain ⟨d0, hs, rfl, ho⟩ := PrimEnc.write_dict hd
    exact dictOverflow_bound _ ho
  · intro d hd _
    obtain ⟨d0, hs, rfl, ho⟩ := PrimEnc.write_dict hd
    exact dictIncr_ne_nil _ _

theorem PrimInv.fold (xs : List Bytes) (s : PrimEnc) (pre : List Bytes) (h : PrimInv s pre) :
    PrimInv (xs.foldl PrimEnc.write s) (pre ++ xs) := by
  induction xs generalizing s pre with
  | nil => simpa using h
  | cons x xs ih =>
    have := ih (s.write x) (pre ++ [x]) (h.write x)
    simpa using this

theorem dictBuild_spec (d : List (Bytes × Nat)) (hsmall : d.length ≤ 2 ^ selectorBits)
    (xs : List Bytes) (hk : ∀ b ∈ xs, b ∈ dkeys d) :
    dictBuild d (xs.map fun b => selectorOf (dictIndex d b)) = some xs := by
  induction xs with
  | nil => rfl
  | cons x xs ih =>
    obtain ⟨h1, e, h2, h3⟩ := dictIndex_spec d x (hk x (by simp))
    have hsel : selectorOf (dictIndex d x) = dictIndex d x := by
      unfold selectorOf
      exact Nat.mod_eq_of_lt (by omega)
    simp only [List.map_cons, dictBuild, hsel, h2]
    rw [ih (fun b hb => hk b (List.mem_cons_of_mem _ hb))]
    simp [h3]

theorem primEncode_build (id : Nat) (useDict : Bool) (xs : List Bytes) :
    (primEncode id useDict xs).build = some xs := by
  have h := PrimInv.fold xs _ [] (PrimInv.new id useDict)
  simp only [List.nil_append] at h
  unfold primEncode PrimEnc.finish
  generalize xs.foldl PrimEnc.write (PrimEnc.new id useDict) = s at h
  cases hs : s.dict with
  | none => simp [PCol.build, h.vals]
  | some d =>
    simp only
    by_cases h0 : d.length = 0
    · simp [h0, PCol.build, h.vals]
    · simp only [h0, if_false]
      by_cases h1 : d.length = constAtDictSize
      · simp only [h1, if_true]
        cases d with
        | nil => simp at h0
        | cons e r =>
          obtain ⟨v, c⟩ := e
          have hr : r = [] := by
            simp [constAtDictSize] at h1; exact h1
          subst hr
          simp only [PCol.build, h.count]
          congr 1
          symm
          rw [List.eq_replicate_iff]
          refine ⟨rfl, fun b hb => ?_⟩
          have := h.keys _ hs b hb
          simpa [dkeys] using this
      · simp only [h1, if_false, PCol.build, h.vals]
        exact dictBuild_spec d (h.small d hs) xs (h.keys d hs)

theorem primEncode_len (id : Nat) (useDict : Bool) (xs : List Bytes) :
    (primEncode id useDict xs).len = xs.length := by
  have h := PrimInv.fold xs _ [] (PrimInv.new id useDict)
  simp only [List.nil_append] at h
  unfold primEncode PrimEnc.finish
  generalize xs.foldl PrimEnc.write (PrimEnc.new id useDict) = s at h
  cases hs : s.dict with
  | none => simp [PCol.len, h.count]
  | some d =>
    simp only
    split
    · simp [PCol.len, h.count]
    · split
      · split <;> simp [PCol.len, h.count]
      · simp [PCol.len, h.count]

end Zed.Vng
