import Zed.Model.VngSexp
import Zed.Model.VecOps
import Zed.Model.VecExpr
/-!
  Driver glue for C09.
  fcol = `(col <type> <value>…)` | `(missing n)`;  an object = `(obj fcol…)` (its top-level
  types in first-seen order).
  `(C09 countby obj…)`                    → `ok ((type value) count)…` | `panic <message>`
  `(C09 sum (vals (hex int)…) obj…)`      → `ok <int64>` | `panic <message>`
  `(C09 kinds obj…)`                      → the vector each column is loaded as
  `(C09 facts)`                           → what the vector compiler accepts (generated tables)
  `(C09 vexpr <batch> (ops op…))`         → the vector runtime's output for the pipeline: `ok out…` | `panic msg`
  `(C09 sexpr <batch> (ops op…))`         → the sequential runtime's output
    batch = `(batch n (col hexname int|str|bool|other v…)…)`, v = integer / hex / t / f / n (null)
    expr = `(f hexname)` `(i k)` `(s hex)` `(ar add|sub|mul|div|mod x y)` `(cmp eq|ne|lt|le|gt|ge x y)` `(and x y)` `(or x y)` `(not x)`
    op = `(yield e)` `(where e)` `(head n)` `(tail n)`;  out = `(v i k)` `(v s hex)` `(v b 0|1)` `(v n)` `(v e msg)` `(v o)` `(r k)`
-/
namespace Zed.Drv.C09
open Zed Zed.Vng Zed.Vec

def fcolOf : Sexp → Option FCol
  | .list [.atom "missing", .atom n] => do pure (.missing (← n.toNat?))
  | .list (.atom "col" :: t :: vs) => do pure (.col (← tyOfSexp t) (← vs.mapM valOfSexp))
  | _ => none

def objOf : Sexp → Option (List FCol)
  | .list (.atom "obj" :: cs) => cs.mapM fcolOf
  | _ => none

def clean (s : String) : String := s.map fun c => if c == '(' || c == ')' || c == '\n' then '_' else c

def rowSexp (r : Row) : Sexp :=
  .list [.list [tySexp r.1.1, valSexp r.1.2], .atom (toString r.2)]

def fvecStr : FVec → String
  | .flat k _ => "flat:" ++ k
  | .dict k _ _ => "dict:" ++ k
  | .const id _ _ => "const:" ++ toString id
  | .constNull _ => "constnull"
  | .other k _ => "other:" ++ k
  | .loadFails _ => "loadfails"

def valsOf (xs : List Sexp) : Option (List (Bytes × Int)) :=
  xs.mapM fun
    | .list [.atom h, .atom i] => do pure ((← Sexp.bytesOfHex h), (← i.toInt?))
    | _ => none

def lookupVal (tbl : List (Bytes × Int)) (b : Bytes) : Int :=
  match tbl.find? (·.1 == b) with
  | some (_, i) => i
  | none => 0

open Zed.Generated.C09 in
def facts : String :=
  let l (name : String) (xs : List String) := "(" ++ name ++ " " ++ " ".intercalate xs ++ ")"
  " ".intercalate [l "leaf" vamLeafOps, l "nonleaf" vamNonLeafOps, l "expr" vamExprKinds,
    l "binop" vamBinaryOps, l "unop" vamUnaryOps]

namespace X
open Zed.VExpr

def optOf (f : String → Option α) : Sexp → Option (Option α)
  | .atom "n" => some none
  | .atom a => (f a).map some
  | _ => none

def colOf : Sexp → Option (VExpr.Bytes × VExpr.Col)
  | .list (.atom "col" :: .atom name :: .atom "int" :: vs) => do
    pure ((← Sexp.bytesOfHex name), .int (← vs.mapM (optOf String.toInt?)))
  | .list (.atom "col" :: .atom name :: .atom "str" :: vs) => do
    pure ((← Sexp.bytesOfHex name), .str (← vs.mapM (optOf Sexp.bytesOfHex)))
  | .list (.atom "col" :: .atom name :: .atom "bool" :: vs) => do
    pure ((← Sexp.bytesOfHex name), .bool (← vs.mapM (optOf fun | "t" => some true | "f" => some false | _ => none)))
  | .list [.atom "col", .atom name, .atom "other", .atom n] => do
    pure ((← Sexp.bytesOfHex name), .other (← n.toNat?))
  | _ => none

def batchOf : Sexp → Option Batch
  | .list (.atom "batch" :: .atom n :: cols) => do pure { n := (← n.toNat?), cols := (← cols.mapM colOf) }
  | _ => none

def arOf : String → Option ArOp
  | "add" => some .add | "sub" => some .sub | "mul" => some .mul | "div" => some .div | "mod" => some .mod | _ => none

def cmpOf : String → Option CmpOp
  | "eq" => some .eq | "ne" => some .ne | "lt" => some .lt | "le" => some .le | "gt" => some .gt | "ge" => some .ge | _ => none

partial def exprOf : Sexp → Option Expr
  | .list [.atom "f", .atom name] => do pure (.field (← Sexp.bytesOfHex name))
  | .list [.atom "i", .atom k] => do pure (.litInt (← k.toInt?))
  | .list [.atom "s", .atom h] => do pure (.litStr (← Sexp.bytesOfHex h))
  | .list [.atom "ar", .atom o, x, y] => do pure (.arith (← arOf o) (← exprOf x) (← exprOf y))
  | .list [.atom "cmp", .atom o, x, y] => do pure (.cmp (← cmpOf o) (← exprOf x) (← exprOf y))
  | .list [.atom "and", x, y] => do pure (.and (← exprOf x) (← exprOf y))
  | .list [.atom "or", x, y] => do pure (.or (← exprOf x) (← exprOf y))
  | .list [.atom "not", x] => do pure (.not (← exprOf x))
  | _ => none

def opOf : Sexp → Option Op
  | .list [.atom "yield", e] => do pure (.yieldE (← exprOf e))
  | .list [.atom "where", e] => do pure (.filter (← exprOf e))
  | .list [.atom "head", .atom n] => do pure (.head (← n.toNat?))
  | .list [.atom "tail", .atom n] => do pure (.tail (← n.toNat?))
  | _ => none

def svStr : SV → String
  | .int i => "(v i " ++ toString i ++ ")"
  | .str s => "(v s " ++ Sexp.hexOfBytes s ++ ")"
  | .bool b => "(v b " ++ (if b then "1" else "0") ++ ")"
  | .null _ => "(v n)"
  | .err m => "(v e " ++ (m.map fun c => if c == ' ' || c == '(' || c == ')' then '_' else c) ++ ")"
  | .other => "(v o)"

def outStr : Out → String
  | .val v => svStr v
  | .row k => "(r " ++ toString k ++ ")"

def run (vector : Bool) : Sexp → Sexp → String
  | b, .list (.atom "ops" :: ops) =>
    match batchOf b, ops.mapM opOf with
    | some b, some ops =>
      if vector then
        match runV ops { batch := b } with
        | .error p => "panic " ++ clean p
        | .ok outs => "ok " ++ " ".intercalate (outs.map outStr)
      else "ok " ++ " ".intercalate ((runS b ops (List.range b.n)).map outStr)
    | _, _ => "bad-op"
  | _, _ => "bad-op"
end X

def handle : List Sexp → String
  | .atom "countby" :: objs =>
    match objs.mapM objOf with
    | none => "bad-op"
    | some os =>
      match cbRun os with
      | .error e => "panic " ++ clean e
      | .ok s => "ok " ++ " ".intercalate ((cbRows s).map fun r => toString (rowSexp r))
  | .atom "sum" :: .list (.atom "vals" :: vs) :: objs =>
    match valsOf vs, objs.mapM objOf with
    | some tbl, some os =>
      match sumRun (lookupVal tbl) os with
      | .error e => "panic " ++ clean e
      | .ok s => "ok " ++ toString (wrap64 s)
    | _, _ => "bad-op"
  | .atom "kinds" :: objs =>
    match objs.mapM objOf with
    | none => "bad-op"
    | some os => " ".intercalate ((os.flatten.map fieldVec).map fvecStr)
  | [.atom "facts"] => facts
  | [.atom "vexpr", b, ops] => X.run true b ops
  | [.atom "sexpr", b, ops] => X.run false b ops
  | _ => "bad-op"

end Zed.Drv.C09
