import Zed.Model.VecOps
import Zed.Proofs.VngPrimitive
/-! Lemmas for the vector aggregates (C09). -/
namespace Zed.Vec
open Zed.Vng

/-! ### counters kept as association lists -/

section Counter
variable {κ : Type} [DecidableEq κ]

def incr : List (κ × Nat) → κ → Nat → List (κ × Nat)
  | [], k, n => [(k, n)]
  | (a, c) :: r, k, n => if a = k then (a, c + n) :: r else (a, c) :: incr r k n

def lookupN : List (κ × Nat) → κ → Nat
  | [], _ => 0
  | (a, c) :: r, k => if a = k then c else lookupN r k

theorem lookupN_incr (t : List (κ × Nat)) (k k' : κ) (n : Nat) :
    lookupN (incr t k n) k' = lookupN t k' + (if k' = k then n else 0) := by
  induction t with
  | nil =>
    simp only [incr, lookupN]
    by_cases h : k = k'
    · subst h; simp
    · have : ¬ k' = k := fun e => h e.symm
      simp [h, this]
  | cons e r ih =>
    obtain ⟨a, c⟩ := e
    by_cases h1 : a = k
    · subst h1
      by_cases h2 : a = k'
      · subst h2; simp [incr, lookupN]
      · have : ¬ k' = a := fun e => h2 e.symm
        simp [incr, lookupN, h2, this]
    · by_cases h2 : a = k'
      · subst h2
        simp [incr, lookupN, h1]
      · simp [incr, lookupN, h1, h2, ih]

theorem keys_incr (t : List (κ × Nat)) (k : κ) (n : Nat) (x : κ) :
    x ∈ (incr t k n).map (·.1) ↔ x ∈ t.map (·.1) ∨ x = k := by
  induction t with
  | nil => simp [incr]
  | cons e r ih =>
    obtain ⟨a, c⟩ := e
    by_cases h1 : a = k
    · subst h1
      simp only [incr, if_true, List.map_cons, List.mem_cons]
      constructor
      · intro h
        rcases h with h | h
        · exact Or.inl (Or.inl h)
        · exact Or.inl (Or.inr h)
      · intro h
        rcases h with (h | h) | h
        · exact Or.inl h
        · exact Or.inr h
        · exact Or.inl h
    · simp only [incr, h1, if_false, List.map_cons, List.mem_cons, ih]
      constructor
      · intro h
        rcases h with h | h | h
        · exact Or.inl (Or.inl h)
        · exact Or.inl (Or.inr h)
        · exact Or.inr h
      · intro h
        rcases h with (h | h) | h
        · exact Or.inl h
        · exact Or.inr (Or.inl h)
        · exact Or.inr (Or.inr h)

theorem nodup_incr (t : List (κ × Nat)) (k : κ) (n : Nat) (h : (t.map (·.1)).Nodup) :
    ((incr t k n).map (·.1)).Nodup := by
  induction t with
  | nil => simp [incr]
  | cons e r ih =>
    obtain ⟨a, c⟩ := e
    simp only [List.map_cons, List.nodup_cons] at h
    by_cases h1 : a = k
    · subst h1; simpa [incr] using h
    · simp only [incr, h1, if_false, List.map_cons, List.nodup_cons]
      refine ⟨?_, ih h.2⟩
      intro hm
      rcases (keys_incr r k n a).mp hm with h2 | h2
      · exact h.1 h2
      · exact h1 h2

theorem pos_incr (t : List (κ × Nat)) (k : κ) (n : Nat) (hn : n > 0) (h : ∀ e ∈ t, e.2 > 0) :
    ∀ e ∈ incr t k n, e.2 > 0 := by
  induction t with
  | nil => simp [incr]; exact hn
  | cons e r ih =>
    obtain ⟨a, c⟩ := e
    by_cases h1 : a = k
    · subst h1
      intro e he
      simp only [incr, if_true, List.mem_cons] at he
      rcases he with rfl | he
      · have := h (a, c) (by simp); simp at this ⊢; omega
      · exact h e (by simp [he])
    · intro e he
      simp only [incr, h1, if_false, List.mem_cons] at he
      rcases he with rfl | he
      · exact h _ (by simp)
      · exact ih (fun e he => h e (by simp [he])) e he

/-- the counter after counting every element of `xs` once. -/
structure Counts (t : List (κ × Nat)) (xs : List κ) : Prop where
  look : ∀ k, lookupN t k = xs.count k
  nodup : (t.map (·.1)).Nodup
  pos : ∀ e ∈ t, e.2 > 0

theorem Counts.nil : Counts ([] : List (κ × Nat)) [] := ⟨by simp [lookupN], by simp, by simp⟩

theorem Counts.step {t : List (κ × Nat)} {xs : List κ} (h : Counts t xs) (x : κ) :
    Counts (incr t x 1) (xs ++ [x]) := by
  refine ⟨?_, nodup_incr t x 1 h.nodup, pos_incr t x 1 (by omega) h.pos⟩
  intro k
  rw [lookupN_incr, h.look, List.count_append]
  by_cases hk : k = x
  · subst hk; simp
  · have : ¬ x = k := fun e => hk e.symm
    simp [hk, List.count_cons, this]

theorem Counts.fold (xs : List κ) (t : List (κ × Nat)) (pre : List κ) (h : Counts t pre) :
    Counts (xs.foldl (fun t x => incr t x 1) t) (pre ++ xs) := by
  induction xs generalizing t pre with
  | nil => simpa using h
  | cons x xs ih => simpa using ih _ _ (h.step x)

theorem lookupN_eq_zero_of_not_mem (t : List (κ × Nat)) (k : κ) (h : k ∉ t.map (·.1)) :
    lookupN t k = 0 := by
  induction t with
  | nil => rfl
  | cons e r ih =>
    obtain ⟨a, c⟩ := e
    simp only [List.map_cons, List.mem_cons, not_or] at h
    simp [lookupN, Ne.symm h.1, ih h.2]

end Counter

theorem tblAdd_eq_incr (t : List (Bytes × Nat)) (k : Bytes) (n : Nat) : tblAdd t k n = incr t k n := by
  induction t with
  | nil => rfl
  | cons e r ih => obtain ⟨a, c⟩ := e; simp [tblAdd, incr, ih]

theorem rowAdd_eq_incr (t : List Row) (k : Ty × Val) : rowAdd t k = incr t k 1 := by
  induction t with
  | nil => rfl
  | cons e r ih => obtain ⟨a, c⟩ := e; simp [rowAdd, incr, ih]

theorem dictIncr_eq_incr (t : List (Bytes × Nat)) (k : Bytes) : dictIncr t k = incr t k 1 := by
  induction t with
  | nil => rfl
  | cons e r ih => obtain ⟨a, c⟩ := e; simp [dictIncr, incr, ih]

/-- `cnt` of rows with distinct keys is the lookup. -/
theorem cnt_eq_lookupN (rows : List Row) (k : Ty × Val) (h : (rows.map (·.1)).Nodup) :
    cnt rows k = lookupN rows k := by
  induction rows with
  | nil => rfl
  | cons e r ih =>
    obtain ⟨a, c⟩ := e
    simp only [List.map_cons, List.nodup_cons] at h
    by_cases h1 : a = k
    · subst h1
      have hz : lookupN r a = 0 := lookupN_eq_zero_of_not_mem r a h.1
      have := ih h.2
      simp only [cnt, List.filter_cons, beq_self_eq_true, if_true, List.map_cons, List.sum_cons, lookupN]
      simp only [cnt] at this
      rw [this, hz]; simp
    · have := ih h.2
      simp only [cnt] at this
      simp [cnt, List.filter_cons, h1, lookupN, this]

/-! ### the dictionary statistics count occurrences -/

/-- after the bodies `xs`, a surviving count map holds the occurrence counts. -/
theorem primEnc_counts (xs : List Bytes) (s : PrimEnc) (pre : List Bytes)
    (h : ∀ d, s.dict = some d → Counts d pre) :
    ∀ d, (xs.foldl PrimEnc.write s).dict = some d → Counts d (pre ++ xs) := by
  induction xs generalizing s pre with
  | nil => simpa using h
  | cons x xs ih =>
    simp only [List.foldl_cons]
    have := ih (s.write x) (pre ++ [x]) (by
      intro d hd
      obtain ⟨d0, hs, rfl, _⟩ := PrimEnc.write_dict hd
      rw [dictIncr_eq_incr]
      exact (h d0 hs).step x)
    simpa using this

theorem primEnc_new_counts (id : Nat) (useDict : Bool) :
    ∀ d, (PrimEnc.new id useDict).dict = some d → Counts d ([] : List Bytes) := by
  intro d hd
  simp only [PrimEnc.new] at hd
  split at hd
  · cases hd; exact Counts.nil
  · cases hd

end Zed.Vec

namespace Zed.Vec
open Zed.Vng Zed.Generated.C09

section
variable {κ κ' : Type} [DecidableEq κ] [DecidableEq κ']

theorem lookupN_map_inj (f : κ → κ') (hf : ∀ a b, f a = f b → a = b) (t : List (κ × Nat)) (k : κ) :
    lookupN (t.map fun e => (f e.1, e.2)) (f k) = lookupN t k := by
  induction t with
  | nil => rfl
  | cons e r ih =>
    obtain ⟨a, c⟩ := e
    by_cases h : a = k
    · subst h; simp [lookupN]
    · have : ¬ f a = f k := fun e => h (hf _ _ e)
      simp [lookupN, h, this, ih]

theorem count_map_inj (f : κ → κ') (hf : ∀ a b, f a = f b → a = b) (xs : List κ) (k : κ) :
    (xs.map f).count (f k) = xs.count k := by
  induction xs with
  | nil => rfl
  | cons x xs ih =>
    by_cases h : x = k
    · subst h; simp [ih]
    · have : ¬ f x = f k := fun e => h (hf _ _ e)
      simp [List.count_cons, h, this, ih]

theorem Counts.map_inj (f : κ → κ') (hf : ∀ a b, f a = f b → a = b) {t : List (κ × Nat)} {xs : List κ}
    (h : Counts t xs) : Counts (t.map fun e => (f e.1, e.2)) (xs.map f) := by
  have hkeys : (t.map fun e => (f e.1, e.2)).map (·.1) = (t.map (·.1)).map f := by
    simp [List.map_map, Function.comp_def]
  refine ⟨?_, ?_, ?_⟩
  · intro k'
    by_cases hk : ∃ k, f k = k'
    · obtain ⟨k, rfl⟩ := hk
      rw [lookupN_map_inj f hf, count_map_inj f hf, h.look]
    · have h1 : k' ∉ (t.map fun e => (f e.1, e.2)).map (·.1) := by
        rw [hkeys]; intro hm
        obtain ⟨k, _, hk'⟩ := List.mem_map.mp hm
        exact hk ⟨k, hk'⟩
      have h2 : k' ∉ xs.map f := by
        intro hm
        obtain ⟨k, _, hk'⟩ := List.mem_map.mp hm
        exact hk ⟨k, hk'⟩
      rw [lookupN_eq_zero_of_not_mem _ _ h1, List.count_eq_zero_of_not_mem h2]
  · rw [hkeys]
    have hn := h.nodup
    generalize t.map (·.1) = ks at hn
    induction ks with
    | nil => simp
    | cons a r ih =>
      simp only [List.nodup_cons, List.map_cons] at hn ⊢
      refine ⟨?_, ih hn.2⟩
      intro hm
      obtain ⟨b, hb, e⟩ := List.mem_map.mp hm
      exact hn.1 (hf _ _ e ▸ hb)
  · intro e he
    obtain ⟨e0, he0, rfl⟩ := List.mem_map.mp he
    exact h.pos e0 he0
end

theorem RowsAgree.of_counts {a b : List Row} {ys : List (Ty × Val)}
    (ha : Counts a ys) (hb : Counts b ys) : RowsAgree a b := by
  refine ⟨⟨ha.nodup, ha.pos⟩, ⟨hb.nodup, hb.pos⟩, ?_⟩
  intro k
  rw [cnt_eq_lookupN a k ha.nodup, cnt_eq_lookupN b k hb.nodup, ha.look, hb.look]

/-! ### count() by: the agreeing fragment -/

/-- a string column without nulls. -/
def strCol (xs : List Bytes) : FCol := .col strTy (xs.map Val.prim)

theorem nonNull_map_prim (xs : List Bytes) : nonNull (xs.map Val.prim) = xs.map Val.prim := by
  induction xs with
  | nil => rfl
  | cons x xs ih => simp only [nonNull, List.map_cons, List.filterMap_cons, Val.toOpt] at ih ⊢; rw [ih]

theorem map_primBytes (xs : List Bytes) : (xs.map Val.prim).map Val.primBytes = xs := by
  induction xs with
  | nil => rfl
  | cons x xs ih => simp [Val.primBytes, ih]

theorem map_optBytes (xs : List Bytes) : (xs.map Val.prim).map optBytes = xs.map some := by
  induction xs with
  | nil => rfl
  | cons x xs ih => simp [optBytes, ih]

theorem seqCountBy_strCol (xs : List Bytes) :
    Counts (seqCountBy (strCol xs).values) (xs.map fun x => (strTy, Val.prim x)) := by
  have h := Counts.fold (xs.map fun x => (strTy, Val.prim x)) ([] : List Row) [] Counts.nil
  simp only [List.nil_append] at h
  have e : seqCountBy (strCol xs).values =
      (xs.map fun x => (strTy, Val.prim x)).foldl (fun t x => incr t x 1) [] := by
    simp only [seqCountBy, strCol, FCol.values, List.map_map, List.foldl_map, Function.comp_def,
      seqKey, rowAdd_eq_incr]
  rw [e]; exact h

theorem foldl_tblSet (es t : List (Bytes × Nat)) (h : ((t ++ es).map (·.1)).Nodup) :
    es.foldl (fun t e => tblSet t e.1 e.2) t = t ++ es := by
  induction es generalizing t with
  | nil => simp
  | cons e es ih =>
    have hset : tblSet t e.1 e.2 = t ++ [e] := by
      have hne : e.1 ∉ t.map (·.1) := by
        simp only [List.map_append, List.map_cons] at h
        have := (List.nodup_append.mp h).2.2
        intro hm
        exact this _ hm _ (by simp) rfl
      clear ih h
      induction t with
      | nil => rfl
      | cons a r ih2 =>
        obtain ⟨k, c⟩ := a
        simp only [List.map_cons, List.mem_cons, not_or] at hne
        have : ¬ k = e.1 := fun x => hne.1 x.symm
        simp [tblSet, this, ih2 hne.2]
    simp only [List.foldl_cons, hset]
    rw [ih (t ++ [e]) (by simpa using h)]
    simp

theorem kindOfPrim_string : kindOfPrim 25 = "String" := by decide

theorem dictUpd_eq_tblSet : dictUpd = tblSet := by
  funext t k n; simp [dictUpd, countDictUpdates]

/-- vector side: a single string column without nulls, whatever its encoding, is counted
    exactly. -/
theorem cbRun_strCol (xs : List Bytes) :
    ∃ s, cbRun [[strCol xs]] = .ok s ∧ s.nulls = 0 ∧ Counts s.table xs := by
  have hinv := PrimInv.fold xs _ [] (PrimInv.new 25 true)
  have hcnt := primEnc_counts xs _ [] (primEnc_new_counts 25 true)
  simp only [List.nil_append] at hinv hcnt
  have hflat : ∃ s, cbUpdate {} (.flat "String" (xs.map some)) = .ok s ∧ s.nulls = 0 ∧ Counts s.table xs := by
    refine ⟨_, rfl, rfl, ?_⟩
    have h := Counts.fold xs ([] : List (Bytes × Nat)) [] Counts.nil
    simp only [List.nil_append] at h
    have e : (xs.map some).foldl (fun t x => tblAdd t (x.getD []) 1) ({} : CBState).table =
        xs.foldl (fun t x => incr t x 1) [] := by
      simp [List.foldl_map, tblAdd_eq_incr]
    simp only [e]; exact h
  simp only [cbRun, strCol, List.flatten_cons, List.flatten_nil, List.append_nil, List.map_cons,
    List.map_nil, List.foldlM_cons, List.foldlM_nil, fieldVec, strTy, nonNull_map_prim, map_primBytes,
    map_optBytes, kindOfPrim_string]
  simp only [show (25 : Nat) = 29 ↔ False by decide, if_false, bind_pure]
  unfold primEncode PrimEnc.finish
  generalize xs.foldl PrimEnc.write (PrimEnc.new 25 true) = st at hinv hcnt
  cases hs : st.dict with
  | none => simpa using hflat
  | some d =>
    simp only
    by_cases h0 : d.length = 0
    · simp only [h0, if_true]; simpa using hflat
    · simp only [h0, if_false]
      by_cases h1 : d.length = Zed.Generated.C03.constAtDictSize
      · simp only [h1, if_true]
        cases d with
        | nil => simp at h0
        | cons e r =>
          obtain ⟨v, c⟩ := e
          have hr : r = [] := by simp [Zed.Generated.C03.constAtDictSize] at h1; exact h1
          subst hr
          have hc := hcnt _ hs
          have hall : ∀ b ∈ xs, b = v := fun b hb => by simpa [dkeys] using hinv.keys _ hs b hb
          have hlen : xs.length = @List.count Bytes instBEqOfDecidableEq v xs :=
            ((@List.count_eq_length Bytes instBEqOfDecidableEq _ v xs).mpr
              (fun b hb => (hall b hb).symm)).symm
          refine ⟨{ table := [(v, xs.length)], nulls := 0 }, by
            simp [cbUpdate, FVec.kind, countByKinds, countFixedIDs, tblAdd], rfl, ?_⟩
          refine ⟨?_, by simp, ?_⟩
          · intro k
            by_cases hk : v = k
            · subst hk
              simp only [lookupN, if_true]
              exact hlen
            · have := hc.look k
              simp only [lookupN, hk, if_false] at this
              simp [lookupN, hk, ← this]
          · intro e he
            simp only [List.mem_singleton] at he
            subst he
            have := hc.pos (v, c) (by simp)
            have h2 := hc.look v
            simp only [lookupN, if_true] at h2
            show xs.length > 0
            rw [hlen, ← h2]; exact this
      · simp only [h1, if_false]
        refine ⟨{ table := d, nulls := 0 }, ?_, rfl, hcnt _ hs⟩
        simp only [cbUpdate, FVec.kind, countByKinds, List.contains_cons, beq_self_eq_true,
          Bool.or_true, Bool.true_or, Bool.not_true, Bool.false_eq_true, if_false, dictUpd_eq_tblSet]
        rw [foldl_tblSet d [] (by simpa using (hcnt _ hs).nodup)]
        simp

end Zed.Vec

namespace Zed.Vec
open Zed.Vng Zed.Generated.C09

/-! ### sum: the agreeing fragment -/

def wsum (val : Bytes → Int) (d : List (Bytes × Nat)) : Int := (d.map fun e => val e.1 * e.2).sum

theorem wsum_incr (val : Bytes → Int) (d : List (Bytes × Nat)) (x : Bytes) :
    wsum val (incr d x 1) = wsum val d + val x := by
  induction d with
  | nil => simp [incr, wsum]
  | cons e r ih =>
    obtain ⟨a, c⟩ := e
    by_cases h : a = x
    · subst h
      simp only [incr, if_true, wsum, List.map_cons, List.sum_cons]
      rw [show ((c + 1 : Nat) : Int) = (c : Int) + 1 by omega, Int.mul_add]
      omega
    · simp only [wsum] at ih
      simp only [incr, h, if_false, wsum, List.map_cons, List.sum_cons, ih]
      omega

theorem primEnc_wsum (val : Bytes → Int) (xs : List Bytes) (s : PrimEnc) (pre : List Bytes)
    (h : ∀ d, s.dict = some d → wsum val d = (pre.map val).sum) :
    ∀ d, (xs.foldl PrimEnc.write s).dict = some d → wsum val d = ((pre ++ xs).map val).sum := by
  induction xs generalizing s pre with
  | nil => simpa using h
  | cons x xs ih =>
    simp only [List.foldl_cons]
    have := ih (s.write x) (pre ++ [x]) (by
      intro d hd
      obtain ⟨d0, hs, rfl, _⟩ := PrimEnc.write_dict hd
      rw [dictIncr_eq_incr, wsum_incr, h d0 hs]
      simp)
    simpa using this

theorem foldl_add_flat (val : Bytes → Int) (xs : List Bytes) (acc : Int) :
    (xs.map some).foldl (fun a x => a + (x.map val).getD 0) acc = acc + (xs.map val).sum := by
  induction xs generalizing acc with
  | nil => simp
  | cons x xs ih => simp only [List.map_cons, List.foldl_cons, Option.map_some, Option.getD_some, ih, List.sum_cons]; omega

theorem foldl_add_dict (val : Bytes → Int) (d : List (Bytes × Nat)) (acc : Int) :
    d.foldl (fun a e => a + val e.1 * e.2) acc = acc + wsum val d := by
  induction d generalizing acc with
  | nil => simp [wsum]
  | cons e r ih =>
    simp only [wsum] at ih
    simp only [List.foldl_cons, ih, wsum, List.map_cons, List.sum_cons]; omega

/-- vector side: one integer column without nulls that is not const-encoded (at least two
    distinct values, or a type without dictionary) is summed exactly. -/
theorem sumRun_intCol (val : Bytes → Int) (id : Nat) (xs : List Bytes)
    (hk : kindOfPrim id = "Int" ∨ kindOfPrim id = "Uint")
    (hc : (primEncode id true xs).isConst = false) :
    sumRun val [[.col (.prim id) (xs.map Val.prim)]] = .ok (xs.map val).sum := by
  have hid : id ≠ 29 := by
    intro h; subst h; revert hk; decide
  have hw := primEnc_wsum val xs (PrimEnc.new id true) [] (by
    intro d hd
    simp only [PrimEnc.new] at hd
    split at hd
    · cases hd; rfl
    · cases hd)
  simp only [List.nil_append] at hw
  have hnet : kindOfPrim id ≠ "Net" := by
    rcases hk with h | h <;> rw [h] <;> decide
  simp only [sumRun, List.flatten_cons, List.flatten_nil, List.append_nil, List.map_cons,
    List.map_nil, List.foldlM_cons, List.foldlM_nil, fieldVec, hid, if_false, nonNull_map_prim,
    map_primBytes, map_optBytes, bind_pure]
  revert hc hw
  unfold primEncode PrimEnc.finish
  generalize xs.foldl PrimEnc.write (PrimEnc.new id true) = st
  intro hc hw
  have hflat : sumUpdate val 0 (.flat (kindOfPrim id) (xs.map some)) = .ok (xs.map val).sum := by
    have hin : sumKinds.contains (kindOfPrim id) = true := by
      rcases hk with h | h <;> rw [h] <;> decide
    simp only [sumUpdate, FVec.kind, hin, Bool.not_true, Bool.false_eq_true, if_false, foldl_add_flat]
    simp
  cases hs : st.dict with
  | none => simp only [hs] at hc ⊢; simpa [hnet] using hflat
  | some d =>
    simp only [hs] at hc ⊢
    by_cases h0 : d.length = 0
    · simp only [h0, if_true] at hc ⊢; simpa [hnet] using hflat
    · simp only [h0, if_false] at hc ⊢
      by_cases h1 : d.length = Zed.Generated.C03.constAtDictSize
      · simp only [h1, if_true] at hc
        cases d with
        | nil => simp at h0
        | cons e r =>
          obtain ⟨v, c⟩ := e
          exact absurd hc (by simp [PCol.isConst])
      · simp only [h1, if_false]
        have hin : sumKinds.contains "Dict" = true := by decide
        have hdk : sumDictKinds.contains (kindOfPrim id) = true := by
          rcases hk with h | h <;> rw [h] <;> decide
        simp only [sumUpdate, FVec.kind, hin, Bool.not_true, Bool.false_eq_true, if_false, hdk,
          if_true, foldl_add_dict, hw d hs]
        simp

end Zed.Vec
