/-!
  The threaded ZNG scanner (`zio/zngio/scanner.go`: `scanner.start`, `worker.run`,
  `scanner.Pull`) as a labelled transition system.

  One parser goroutine turns the input into items `0, 1, 2, …` in stream order.  Item `k` is
  either *work* (a values frame together with the local type context captured at that
  moment) or a *control* slot (control message, error, EOF) that the parser fills itself.
  For work the parser first takes an idle worker, **then enqueues a fresh result slot on
  the ordered queue `resultChCh`, then hands the work to the worker**.  Workers finish in
  any order and fill only their own slot.  `Pull` dequeues the oldest slot and waits until it
  is filled.  `res k` is the result of item `k`; that it depends only on the item is the
  content of "the local context is captured, and end-of-stream swaps in a new one instead
  of mutating the captured one".
-/
namespace Zed.Zng.Scanner

structure State (R : Type) where
  /-- items handed out by the parser so far -/
  next : Nat := 0
  /-- slots dequeued by Pull so far -/
  pulled : Nat := 0
  /-- `resultChCh`: slots in queue order -/
  queue : List Nat := []
  /-- work items a worker is still busy with -/
  inflight : List Nat := []
  /-- filled result channels -/
  filled : List (Nat × R) := []
  /-- what Pull has returned, in order -/
  delivered : List R := []
  /-- idle workers (`workerCh`) -/
  idle : Nat

inductive Action where
  | dispatch          -- parser: next item is work; enqueue slot, give it to an idle worker
  | control           -- parser: next item is a control/error/EOF slot, filled at once
  | finish (k : Nat)  -- the worker holding item k completes and fills slot k
  | pull              -- Pull: dequeue the oldest slot, which must be filled
  deriving Repr

def lookup {R : Type} (k : Nat) : List (Nat × R) → Option R
  | [] => none
  | (j, r) :: rest => if j = k then some r else lookup k rest

variable {R : Type}

/-- One transition; `none` when the action is not enabled in `s`. -/
def step (res : Nat → R) (isWork : Nat → Bool) (total : Nat) (s : State R) : Action → Option (State R)
  | .dispatch =>
    if s.next < total ∧ isWork s.next = true ∧ 0 < s.idle then
      some { s with next := s.next + 1, queue := s.queue ++ [s.next],
                    inflight := s.next :: s.inflight, idle := s.idle - 1 }
    else none
  | .control =>
    if s.next < total ∧ isWork s.next = false then
      some { s with next := s.next + 1, queue := s.queue ++ [s.next],
                    filled := (s.next, res s.next) :: s.filled }
    else none
  | .finish k =>
    if s.inflight.contains k then
      some { s with inflight := s.inflight.erase k, filled := (k, res k) :: s.filled,
                    idle := s.idle + 1 }
    else none
  | .pull =>
    match s.queue with
    | [] => none
    | k :: rest =>
      match lookup k s.filled with
      | none => none
      | some r => some { s with queue := rest, delivered := s.delivered ++ [r], pulled := s.pulled + 1 }

/-- Run a schedule; actions that are not enabled are skipped (they cannot happen). -/
def run (res : Nat → R) (isWork : Nat → Bool) (total : Nat) (s : State R) : List Action → State R
  | [] => s
  | a :: as =>
    match step res isWork total s a with
    | some s' => run res isWork total s' as
    | none => run res isWork total s as

def init (threads : Nat) : State R := { idle := threads }

end Zed.Zng.Scanner
