package main

import (
	"fmt"
	"strings"

	"github.com/brimdata/super/order"
	. "verifharness/hlib"
)

type c07Pool struct {
	Name  string
	Key   string // "k:asc"
	ID    string
	Vals  []string
	Loads int
}

func c07MakePool(l *TLake, name, key string, vals []string, loads int) (*c07Pool, error) {
	k := parseSortKey(key)
	if k == nil {
		return nil, fmt.Errorf("bad key %q", key)
	}
	id, err := l.CreatePool(name, strings.Join(k.Key, "."), k.Order == order.Desc, 0, 0)
	if err != nil {
		return nil, err
	}
	if loads < 1 {
		loads = 1
	}
	for i := 0; i < loads; i++ {
		lo, hi := i*len(vals)/loads, (i+1)*len(vals)/loads
		if lo == hi {
			continue
		}
		if _, err := l.LoadZSON(id, "main", strings.Join(vals[lo:hi], "\n")); err != nil {
			return nil, err
		}
	}
	return &c07Pool{Name: name, Key: key, ID: id.String(), Vals: vals, Loads: loads}, nil
}

func lakeProg(pool string, p OptProg) OptProg {
	return OptProg{Stages: append([]string{"from " + pool}, p.Stages...)}
}

func c07Lake(c *Ctx, l *TLake, progs []OptProg) {
	var pools []*c07Pool
	for i, key := range []string{"k:asc", "k:desc", "a:asc", "n.x:desc"} {
		vals := OptGenInput(c.Rng, c.N(36, 120))
		p, err := c07MakePool(l, fmt.Sprintf("p%d", i), key, vals, 2+c.Rng.Intn(6))
		if err != nil {
			c.Fail("harness", "C07:lake:setup", err.Error(), nil)
			return
		}
		pools = append(pools, p)
	}
	keys := map[string]order.SortKeys{}
	for _, p := range pools {
		ks, _ := order.ParseSortKeys(p.Key)
		keys[p.ID] = ks
	}
	n := c.N(110, 700)
	if n > len(progs) {
		n = len(progs)
	}
	if c.Want("struct") {
		var cases []structCase
		for i, p := range progs[:n] {
			pool := pools[i%len(pools)]
			cases = append(cases, structCase{Query: lakeProg(pool.Name, p).Text(), Lake: true, Par: []int{1, 2, 3, 4, 16}[i%5]})
		}
		for i, q := range c07StructSeeds {
			pool := pools[i%2]
			cases = append(cases, structCase{Query: "from " + pool.Name + " | " + q, Lake: true, Par: 1 + i%3})
		}
		c07Struct(c, l, keys, cases)
	}
	var cases []*c07Case
	for i, p := range progs[:n] {
		pool := pools[c.Rng.Intn(len(pools))]
		cases = append(cases, &c07Case{Check: "lake", Prog: lakeProg(pool.Name, p), Input: pool.Vals, PoolKey: pool.Key, Loads: pool.Loads, Parallel: []int{1, 2, 3, 4}[i%4]})
	}
	checkAll(c, l, cases)
}

// c07LakeReplay rebuilds the recorded pool and re-runs the case.
func c07LakeReplay(c *Ctx, l *TLake, cs *c07Case) {
	if len(cs.Prog.Stages) == 0 || !strings.HasPrefix(cs.Prog.Stages[0], "from ") {
		c.Note("lake replay without a from stage")
		return
	}
	name := fmt.Sprintf("rp%d", c.Res.Evaluations)
	if _, err := c07MakePool(l, name, cs.PoolKey, cs.Input, cs.Loads); err != nil {
		c.Note("lake replay: %v", err)
		return
	}
	t := *cs
	t.Prog.Stages = append([]string{"from " + name}, cs.Prog.Stages[1:]...)
	t.check(c, l)
}
